import GlmVerif.Core.Expr
import Init.Grind.Ring.CommSolver
/-!
Reflective comparison of expressions as polynomials / rational functions over
*atoms* (Mathlib-free, so the driver runs it natively too).

Every sub-term that is not `+ - * neg` or an integer literal is an atom: a
variable, but also `sqrt (…)`, `cos x`, a quotient `a / b` (for `polyEq`), a
type constant.  Two expressions with the same normal form over their atoms are
equal in every semantics whose `+ - * neg` are those of a commutative ring —
soundness is `Glm.polyEq_sound` in `Sem/PolyReflect`.  The normaliser is the one
shipped with Lean core for `grind` (`Lean.Grind.CommRing.Expr.toPoly`), whose
correctness is proved there.
-/
namespace Glm
open Lean.Grind.CommRing (Expr)

/-- atom occurrences of an expression seen as a polynomial -/
def E.atoms : E → List E
  | .add a b | .sub a b | .mul a b => a.atoms ++ b.atoms
  | .neg a => a.atoms
  | .lit n d => if d == 1 then [] else [.lit n d]
  | e => [e]

/-! Atoms are identified up to an equivalence `eqv` (assumed to imply equal values): -/
def insertNewW (eqv : E → E → Bool) (l : List E) (x : E) : List E := if l.any (eqv · x) then l else l ++ [x]
def atomTableW (eqv : E → E → Bool) (es : List E) : List E := (es.flatMap E.atoms).foldl (insertNewW eqv) []
def atomIdxW (eqv : E → E → Bool) (atoms : List E) (x : E) : Nat := atoms.findIdx (eqv · x)

def E.toGAW (eqv : E → E → Bool) (atoms : List E) : E → Expr
  | .add a b => .add (a.toGAW eqv atoms) (b.toGAW eqv atoms)
  | .sub a b => .sub (a.toGAW eqv atoms) (b.toGAW eqv atoms)
  | .mul a b => .mul (a.toGAW eqv atoms) (b.toGAW eqv atoms)
  | .neg a => .neg (a.toGAW eqv atoms)
  | .lit n d => if d == 1 then .intCast n else .var (atomIdxW eqv atoms (.lit n d))
  | e => .var (atomIdxW eqv atoms e)

/-- same normal form as polynomials over the common atom table (atoms up to `eqv`) -/
def polyEqW (eqv : E → E → Bool) (a b : E) : Bool :=
  let atoms := atomTableW eqv [a, b]
  (a.toGAW eqv atoms).toPoly == (b.toGAW eqv atoms).toPoly

/-- two atoms are identified when they are literally equal, or the same function (or a quotient) applied
    to arguments that are `peq`-equal -/
def atomEqW (peq : E → E → Bool) (x y : E) : Bool :=
  x == y || match x, y with
  | .call1 f a, .call1 g b => f == g && peq a b
  | .call2 f a1 a2, .call2 g b1 b2 => f == g && peq a1 b1 && peq a2 b2
  | .div a1 a2, .div b1 b2 => peq a1 b1 && peq a2 b2
  | .shr a1 a2, .shr b1 b2 => peq a1 b1 && peq a2 b2
  | .shl a1 a2, .shl b1 b2 => peq a1 b1 && peq a2 b2
  | .band a1 a2, .band b1 b2 => peq a1 b1 && peq a2 b2
  | .bor a1 a2, .bor b1 b2 => peq a1 b1 && peq a2 b2
  | .bxor a1 a2, .bxor b1 b2 => peq a1 b1 && peq a2 b2
  | .imod a1 a2, .imod b1 b2 => peq a1 b1 && peq a2 b2
  | .bnot a, .bnot b => peq a b
  | _, _ => false

/-- polynomial equality with atoms compared recursively to depth `n`: so `sqrt (x*x + y*y)` and
    `sqrt (y*y + x*x)` are one atom, also inside another `sqrt` or quotient, and a harmless
    re-association inside glm does not break a theorem -/
def polyEqN : Nat → E → E → Bool
  | 0 => fun a b => a == b
  | n + 1 => polyEqW (atomEqW (polyEqN n))

/-- decidable check used everywhere: atoms compared to nesting depth 3 -/
def polyEq (a b : E) : Bool := polyEqN 4 a b

/-- left-nested sum of a list of expressions -/
def sumE : List E → E
  | [] => .lit 0 1
  | [a] => a
  | a :: as => .add a (sumE as)

/-- `a = b` follows from the hypotheses `l_i = r_i` with polynomial multipliers `c_i`:
    `a - b = Σ c_i * (l_i - r_i)` as polynomials over the atoms -/
def polyEqMod (hyps : List (E × E)) (cert : List E) (a b : E) : Bool :=
  hyps.length == cert.length &&
  polyEq (.sub a b) (sumE ((hyps.zip cert).map fun (h, c) => .mul c (.sub h.1 h.2)))

/-! ### rewriting atoms by stated equalities (e.g. `cos (-t) ↦ cos t`, `sin (-t) ↦ -sin t`) -/
def rw1 (σ : List (E × E)) (e : E) : E :=
  match σ.find? (·.1 == e) with
  | some p => p.2
  | none => e

/-- bottom-up replacement of every sub-term that literally equals a left-hand side of `σ` -/
def E.rewrite (σ : List (E × E)) : E → E
  | .add a b => rw1 σ (.add (a.rewrite σ) (b.rewrite σ))
  | .sub a b => rw1 σ (.sub (a.rewrite σ) (b.rewrite σ))
  | .mul a b => rw1 σ (.mul (a.rewrite σ) (b.rewrite σ))
  | .div a b => rw1 σ (.div (a.rewrite σ) (b.rewrite σ))
  | .neg a => rw1 σ (.neg (a.rewrite σ))
  | .call1 f a => rw1 σ (.call1 f (a.rewrite σ))
  | .call2 f a b => rw1 σ (.call2 f (a.rewrite σ) (b.rewrite σ))
  | .call3 f a b c => rw1 σ (.call3 f (a.rewrite σ) (b.rewrite σ) (c.rewrite σ))
  | e => rw1 σ e

/-- conditions with the same shape whose operands agree as polynomials over the atoms -/
def condOK : C → C → Bool
  | .lt a b, .lt a' b' => polyEq a a' && polyEq b b'
  | .le a b, .le a' b' => polyEq a a' && polyEq b b'
  | .eq a b, .eq a' b' => polyEq a a' && polyEq b b'
  | .isnan a, .isnan a' => a == a'
  | .isinf a, .isinf a' => a == a'
  | .not c, .not c' => condOK c c'
  | .and a b, .and a' b' => condOK a a' && condOK b b'
  | .or a b, .or a' b' => condOK a a' && condOK b b'
  | _, _ => false

/-- two decision trees with the same shape, matching conditions and matching leaves -/
def treeOK (leafOK : E → E → Bool) : Tree → Tree → Bool
  | .leaf a, .leaf b => leafOK a b
  | .branch c t f, .branch c' t' f' => condOK c c' && treeOK leafOK t t' && treeOK leafOK f f'
  | _, _ => false

/-! ### rational functions: numerator / denominator normal form -/

/-- literal denominators are non-zero (the only syntactic requirement of the rational reflection) -/
def E.litsOK : E → Bool
  | .lit _ d => d != 0
  | .add a b | .sub a b | .mul a b | .div a b => a.litsOK && b.litsOK
  | .neg a => a.litsOK
  | _ => true

def mulE (a b : E) : E := if b == .lit 1 1 then a else if a == .lit 1 1 then b else .mul a b

/-- numerator and denominator; sub-terms outside `+ - * / neg` stay atoms of the numerator -/
def E.frac : E → E × E
  | .lit n d => (.lit n 1, .lit d 1)
  | .add a b =>
    if a.frac.2 == b.frac.2 then (.add a.frac.1 b.frac.1, a.frac.2)   -- common denominator: no blow-up
    else (.add (mulE a.frac.1 b.frac.2) (mulE b.frac.1 a.frac.2), mulE a.frac.2 b.frac.2)
  | .sub a b =>
    if a.frac.2 == b.frac.2 then (.sub a.frac.1 b.frac.1, a.frac.2)
    else (.sub (mulE a.frac.1 b.frac.2) (mulE b.frac.1 a.frac.2), mulE a.frac.2 b.frac.2)
  | .mul a b => (mulE a.frac.1 b.frac.1, mulE a.frac.2 b.frac.2)
  | .div a b => (mulE a.frac.1 b.frac.2, mulE a.frac.2 b.frac.1)
  | .neg a => (.neg a.frac.1, a.frac.2)
  | e => (e, .lit 1 1)

/-- every sub-expression that is used as a divisor (not looking inside atoms) -/
def E.divisors : E → List E
  | .add a b | .sub a b | .mul a b => a.divisors ++ b.divisors
  | .div a b => b :: (a.divisors ++ b.divisors)
  | .neg a => a.divisors
  | _ => []

/-- equal as rational functions over the atoms (cross-multiplied polynomial identity) -/
def fracEq (a b : E) : Bool :=
  a.litsOK && b.litsOK && polyEq (.mul a.frac.1 b.frac.2) (.mul b.frac.1 a.frac.2)

/-- equal as rational functions modulo polynomial hypotheses on the atoms -/
def fracEqMod (hyps : List (E × E)) (cert : List E) (a b : E) : Bool :=
  a.litsOK && b.litsOK && polyEqMod hyps cert (.mul a.frac.1 b.frac.2) (.mul b.frac.1 a.frac.2)

/-- `d` is, as a rational function, one of the allowed divisors -/
def divisorAllowed (allowed : List E) (d : E) : Bool := allowed.any fun a => fracEq d a

end Glm
