import GlmVerif.Core.Expr
import Init.Grind.Ring.CommSolver
/-!
Reflective comparison of polynomial expressions (Mathlib-free, so the driver
runs it natively too).  Soundness is `Glm.polyEq_sound` in `Sem/PolyReflect`.
-/
namespace Glm
open Lean.Grind.CommRing (Expr)

def E.toG : E → Expr
  | .var i => .var i
  | .lit n _ => .intCast n
  | .add a b => .add a.toG b.toG
  | .sub a b => .sub a.toG b.toG
  | .mul a b => .mul a.toG b.toG
  | .neg a => .neg a.toG
  | _ => .num 0

def E.maxVar : E → Nat
  | .var i => i
  | .add a b | .sub a b | .mul a b => max a.maxVar b.maxVar
  | .neg a => a.maxVar
  | _ => 0

/-- decidable check: both sides are polynomial expressions with the same normal form -/
def polyEq (a b : E) : Bool := a.isPoly && b.isPoly && (a.toG.toPoly == b.toG.toPoly)

/-- left-nested sum of a list of expressions -/
def sumE : List E → E
  | [] => .lit 0 1
  | [a] => a
  | a :: as => .add a (sumE as)

/-- every output `j < n` of `u` is a decision-free polynomial with the same normal form as `spec j` -/
def Unit.polyAgrees (u : Unit) (n : Nat) (spec : Nat → E) : Bool :=
  u.outs.length == n && (List.range n).all fun j =>
    match u.out j with
    | .leaf e => polyEq e (spec j)
    | _ => false

/-- every output `j < n` of `u` is decision-free and literally the expression `spec j` -/
def Unit.synAgrees (u : Unit) (n : Nat) (spec : Nat → E) : Bool :=
  u.outs.length == n && (List.range n).all fun j => u.out j == .leaf (spec j)

end Glm

namespace Glm
/-! ### rational functions: numerator / denominator normal form -/

/-- the rational fragment: `+ - * / neg`, variables and literals with non-zero denominator -/
def E.isRat : E → Bool
  | .var _ => true
  | .lit _ d => d != 0
  | .add a b | .sub a b | .mul a b | .div a b => a.isRat && b.isRat
  | .neg a => a.isRat
  | _ => false

def mulE (a b : E) : E := if b == .lit 1 1 then a else if a == .lit 1 1 then b else .mul a b

/-- numerator and denominator, both in the polynomial fragment -/
def E.frac : E → E × E
  | .var i => (.var i, .lit 1 1)
  | .lit n d => (.lit n 1, .lit d 1)
  | .add a b => (.add (mulE a.frac.1 b.frac.2) (mulE b.frac.1 a.frac.2), mulE a.frac.2 b.frac.2)
  | .sub a b => (.sub (mulE a.frac.1 b.frac.2) (mulE b.frac.1 a.frac.2), mulE a.frac.2 b.frac.2)
  | .mul a b => (mulE a.frac.1 b.frac.1, mulE a.frac.2 b.frac.2)
  | .div a b => (mulE a.frac.1 b.frac.2, mulE a.frac.2 b.frac.1)
  | .neg a => (.neg a.frac.1, a.frac.2)
  | _ => (.lit 0 1, .lit 1 1)

/-- every sub-expression that is used as a divisor -/
def E.divisors : E → List E
  | .add a b | .sub a b | .mul a b => a.divisors ++ b.divisors
  | .div a b => b :: (a.divisors ++ b.divisors)
  | .neg a => a.divisors
  | _ => []

/-- equal as rational functions (cross-multiplied polynomial identity) -/
def fracEq (a b : E) : Bool :=
  a.isRat && b.isRat && polyEq (.mul a.frac.1 b.frac.2) (.mul b.frac.1 a.frac.2)

/-- `d` is, as a rational function, one of the allowed divisors -/
def divisorAllowed (allowed : List E) (d : E) : Bool := allowed.any fun a => fracEq d a

/-- every output `j < n` is decision-free, equals `spec j` as a rational function, and divides
    only by expressions from `allowed` (so that non-vanishing of `allowed` is the only side condition) -/
def Unit.fracAgrees (u : Unit) (n : Nat) (spec : Nat → E) (allowed : List E) : Bool :=
  u.outs.length == n && (List.range n).all fun j =>
    match u.out j with
    | .leaf e => fracEq e (spec j) && e.divisors.all (divisorAllowed allowed)
        && (spec j).divisors.all (divisorAllowed allowed)
    | _ => false

end Glm
