import Lean.Meta.Tactic.Simp.RegisterCommand
/-- simp set collecting the named shared sub-terms the generator emits -/
register_simp_attr gen_unfold
