import GlmVerif.Props.C03.Chunk
/-!
Recorded finding of C03 (not an obligation): `round(aligned vec4)` at SSE4.1+ does not pass the `ident` comparison with the
generic `round` — on the tie path the SIMD leaf is `trunc x` where the generic leaf is `round x`.
-/
namespace Glm.Findings.C03
open Glm Glm.Spec.C03
set_option maxRecDepth 100000 in
theorem round_sse41_violates : pairOK .ident (Gen.C03.round_L [0]) (Gen.C03.round_L [4]) = false := by decide +kernel
end Glm.Findings.C03
