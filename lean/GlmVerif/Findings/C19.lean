import GlmVerif.Spec.C19
import GlmVerif.Gen.C19.luminosity_grey
/-!
Recorded finding (not an obligation of the property's check; if glm is repaired this module stops
building and the check says "finding no longer reproduces"):
`luminosity(g,g,g) = g` is **false** for the traced code — the documented weights sum to 1.03.
-/
namespace Glm.Findings.C19
open Glm Glm.Spec.C19 Glm.Gen.C19
theorem luminosity_does_not_preserve_grey : f_luminosity_grey.ok (fun _ ks => luminosity_grey_L ks) = false := by
  decide +kernel
end Glm.Findings.C19
