/-
  C05 — GLSL integer / bit-field functions: hand model (H) and executable specification.
  Core Lean only.  Source: glm/detail/func_integer.inl of the tree WITH the four fix patches of /verif/h/C05
  applied (fix_bitfieldExtract, fix_bitfieldInsert, fix_bitfieldReverse, fix_findMSB_signed); line numbers
  below refer to that file.  `usubBorrow` is modelled as it is (its defect is encoded by glm's own test).

  Build modelled: GCC, x86-64, no GLM_FORCE_INTRINSICS  ⇒  GLM_HAS_BITSCAN_WINDOWS = 0 (setup.hpp:371-377) and
  GLM_CONFIG_SIMD = GLM_DISABLE, i.e. the generic `compute_findLSB` (l.66-76) and `compute_findMSB_vec`
  (l.122-136) are the active branches and func_integer_simd.inl is not included.  diff/C05.cpp static_asserts both.

  House style (bv_decide): literal machine types, no tuples (one definition per output), Bool conditions.
  Integral promotion: for 8/16-bit T every C++ operator is evaluated at `int` and converted back to T by the
  `vec` constructor.  Truncation commutes with `& | ^ ~ + -` and with shifts by a constant smaller than the
  width (on the zero- or sign-extended operand), so the fixed-shift ladders use the native narrow operators; the
  *variable* shifts of bitfieldExtract/Insert are written out with the promotion (`toUInt32`/`toInt32` … `toUInt8`).
  Lean's `<<<`/`>>>` on UIntN/IntN reduce the count modulo N exactly like the x86 shift instructions; inside the
  documented domain no count reaches the width (theorems `*_shift_in_range` in Props/C05).
-/
namespace GlmVerif.C05

/-! ## Executable specification (from the GLSL text quoted in glm/integer.hpp)

A value of a w-bit type is given by its raw bits, zero-extended into a `UInt64`; "bit i" is bit number i with the
lowest-order bit being bit 0 (integer.hpp:11-13).  Recursion is on the number of bits still to visit. -/
namespace Spec

/-- bit number `i` of `x` -/
def bit (x i : UInt64) : Bool := ((x >>> i) &&& 1) == 1

/-- "the number of bits set to 1" among bits [i, i+n) -/
def countFrom (x i : UInt64) : Nat → Int32
  | 0 => 0
  | n+1 => (if bit x i then 1 else 0) + countFrom x (i+1) n
def bitCount (w : Nat) (x : UInt64) : Int32 := countFrom x 0 w

/-- "the bit number of the least significant bit set to 1 … if value is zero, -1": first set bit in [i, i+n) -/
def lowestFrom (x i : UInt64) : Nat → Int32
  | 0 => -1
  | n+1 => if bit x i then i.toUInt32.toInt32 else lowestFrom x (i+1) n
def findLSB (w : Nat) (x : UInt64) : Int32 := lowestFrom x 0 w

/-- highest set bit below bit number `i`, visiting n bits downwards; -1 if none -/
def highestBelow (x i : UInt64) : Nat → Int32
  | 0 => -1
  | n+1 => if bit x (i-1) then (i-1).toUInt32.toInt32 else highestBelow x (i-1) n
/-- "For positive integers, the bit number of the most significant bit set to 1.  For negative integers, the bit
    number of the most significant bit set to 0.  For a value of zero or negative one, -1." -/
def findMSB (signed : Bool) (w : Nat) (x : UInt64) : Int32 :=
  if signed && bit x (w.toUInt64 - 1) then highestBelow (~~~x) w.toUInt64 w else highestBelow x w.toUInt64 w

/-- "The bit numbered n of the result will be taken from bit (bits - 1) - n of value" -/
def reverseFrom (w x i : UInt64) : Nat → UInt64
  | 0 => 0
  | n+1 => (if bit x (w - 1 - i) then (1 : UInt64) <<< i else 0) ||| reverseFrom w x (i+1) n
def reverse (w : Nat) (x : UInt64) : UInt64 := reverseFrom w.toUInt64 x 0 w

/-- bit i of bitfieldExtract: "Extracts bits [offset, offset + bits - 1] from value, returning them in the least
    significant bits of the result.  For unsigned data types, the most significant bits of the result will be set to
    zero.  For signed data types, the most significant bits will be set to the value of bit offset + bits - 1.  If
    bits is zero, the result will be zero." -/
def extractBit (signed : Bool) (x off bits i : UInt64) : Bool :=
  if i < bits then bit x (off + i) else (signed && !(bits == 0) && bit x (off + bits - 1))
def extractFrom (signed : Bool) (x off bits i : UInt64) : Nat → UInt64
  | 0 => 0
  | n+1 => (if extractBit signed x off bits i then (1 : UInt64) <<< i else 0) ||| extractFrom signed x off bits (i+1) n
def extract (signed : Bool) (w : Nat) (x off bits : UInt64) : UInt64 := extractFrom signed x off bits 0 w

/-- bit i of bitfieldInsert: "bits [offset, offset + bits - 1] taken from bits [0, bits - 1] of insert, and all other
    bits taken directly from the corresponding bits of base" -/
def insertBit (base ins off bits i : UInt64) : Bool :=
  if off ≤ i && i < off + bits then bit ins (i - off) else bit base i
def insertFrom (base ins off bits i : UInt64) : Nat → UInt64
  | 0 => 0
  | n+1 => (if insertBit base ins off bits i then (1 : UInt64) <<< i else 0) ||| insertFrom base ins off bits (i+1) n
def insert (w : Nat) (base ins off bits : UInt64) : UInt64 := insertFrom base ins off bits 0 w

/-- documented domain of (offset, bits): "undefined if offset or bits is negative, or if the sum of offset and
    bits is greater than the number of bits used to store the operand" (the two `≤ w` conjuncts only keep the
    32-bit sum from wrapping) -/
def inDomain (w offset bits : Int32) : Bool :=
  0 ≤ offset && 0 ≤ bits && offset ≤ w && bits ≤ w && offset + bits ≤ w

/-- uaddCarry: "the sum modulo pow(2,32)"; "carry is set to 0 if the sum was less than pow(2,32), or to 1 otherwise" -/
def uaddSum (x y : Nat) : Nat := (x + y) % 2^32
def uaddCarry (x y : Nat) : Nat := (x + y) / 2^32
/-- usubBorrow: "the difference if non-negative, or pow(2,32) plus the difference otherwise"; "borrow is set to 0
    if x >= y, or to 1 otherwise" -/
def usubDiff (x y : Nat) : Nat := if y ≤ x then x - y else 2^32 + x - y
def usubBorrow (x y : Nat) : Nat := if y ≤ x then 0 else 1
/-- umulExtended / imulExtended: the 64-bit product; "the 32 least-significant bits are returned in lsb, the 32
    most-significant bits in msb" (floor division: two's complement) -/
def umulMsb (x y : Nat) : Nat := (x * y) / 2^32
def umulLsb (x y : Nat) : Nat := (x * y) % 2^32
def imulMsb (x y : Int) : Int := (x * y) / 2^32
def imulLsb (x y : Int) : Int := (x * y) % 2^32

end Spec

/-! # Model -/

/-! ## 8-bit element types (T = int8_t / uint8_t, U = make_unsigned<T>::type = uint8_t) -/

/-- compute_bitfieldBitCountStep<L,U,Q,Aligned,true>::call (l.57-64): `(v & Mask) + ((v >> Shift) & Mask)` -/
def bcStep8 (v mask shift : UInt8) : UInt8 := (v &&& mask) + ((v >>> shift) &&& mask)

/-- bitCount(vec<L,uint8_t,Q>) (l.337-359); steps with `sizeof(T)*8 >= 2·Shift` only -/
def bitCount_U8 (v : UInt8) : Int32 :=
  let x := v                                       -- vec<L, make_unsigned<T>::type, Q> x(v)
  let x := bcStep8 x 0x55 1
  let x := bcStep8 x 0x33 2
  let x := bcStep8 x 0x0F 4
  x.toUInt32.toInt32                                -- vec<L, int, Q>(x)

/-- the signed instance: the only difference is the conversion `vec<L,U,Q> x(v)` -/
def bitCount_I8 (v : Int8) : Int32 := bitCount_U8 v.toUInt8

/-! ## 16-bit element types (T = int16_t / uint16_t, U = make_unsigned<T>::type = uint16_t) -/

/-- compute_bitfieldBitCountStep<L,U,Q,Aligned,true>::call (l.57-64): `(v & Mask) + ((v >> Shift) & Mask)` -/
def bcStep16 (v mask shift : UInt16) : UInt16 := (v &&& mask) + ((v >>> shift) &&& mask)

/-- bitCount(vec<L,uint16_t,Q>) (l.337-359); steps with `sizeof(T)*8 >= 2·Shift` only -/
def bitCount_U16 (v : UInt16) : Int32 :=
  let x := v                                       -- vec<L, make_unsigned<T>::type, Q> x(v)
  let x := bcStep16 x 0x5555 1
  let x := bcStep16 x 0x3333 2
  let x := bcStep16 x 0x0F0F 4
  let x := bcStep16 x 0x00FF 8
  x.toUInt32.toInt32                                -- vec<L, int, Q>(x)

/-- the signed instance: the only difference is the conversion `vec<L,U,Q> x(v)` -/
def bitCount_I16 (v : Int16) : Int32 := bitCount_U16 v.toUInt16

/-! ## 32-bit element types (T = int32_t / uint32_t, U = make_unsigned<T>::type = uint32_t) -/

/-- compute_bitfieldBitCountStep<L,U,Q,Aligned,true>::call (l.57-64): `(v & Mask) + ((v >> Shift) & Mask)` -/
def bcStep32 (v mask shift : UInt32) : UInt32 := (v &&& mask) + ((v >>> shift) &&& mask)

/-- bitCount(vec<L,uint32_t,Q>) (l.337-359); steps with `sizeof(T)*8 >= 2·Shift` only -/
def bitCount_U32 (v : UInt32) : Int32 :=
  let x := v                                       -- vec<L, make_unsigned<T>::type, Q> x(v)
  let x := bcStep32 x 0x55555555 1
  let x := bcStep32 x 0x33333333 2
  let x := bcStep32 x 0x0F0F0F0F 4
  let x := bcStep32 x 0x00FF00FF 8
  let x := bcStep32 x 0x0000FFFF 16
  x.toInt32                                -- vec<L, int, Q>(x)

/-- the signed instance: the only difference is the conversion `vec<L,U,Q> x(v)` -/
def bitCount_I32 (v : Int32) : Int32 := bitCount_U32 v.toUInt32

/-! ## 64-bit element types (T = int64_t / uint64_t, U = make_unsigned<T>::type = uint64_t) -/

/-- compute_bitfieldBitCountStep<L,U,Q,Aligned,true>::call (l.57-64): `(v & Mask) + ((v >> Shift) & Mask)` -/
def bcStep64 (v mask shift : UInt64) : UInt64 := (v &&& mask) + ((v >>> shift) &&& mask)

/-- bitCount(vec<L,uint64_t,Q>) (l.337-359); steps with `sizeof(T)*8 >= 2·Shift` only -/
def bitCount_U64 (v : UInt64) : Int32 :=
  let x := v                                       -- vec<L, make_unsigned<T>::type, Q> x(v)
  let x := bcStep64 x 0x5555555555555555 1
  let x := bcStep64 x 0x3333333333333333 2
  let x := bcStep64 x 0x0F0F0F0F0F0F0F0F 4
  let x := bcStep64 x 0x00FF00FF00FF00FF 8
  let x := bcStep64 x 0x0000FFFF0000FFFF 16
  let x := bcStep64 x 0x00000000FFFFFFFF 32
  x.toUInt32.toInt32                                -- vec<L, int, Q>(x)

/-- the signed instance: the only difference is the conversion `vec<L,U,Q> x(v)` -/
def bitCount_I64 (v : Int64) : Int32 := bitCount_U64 v.toUInt64

/-! ### 8-bit: findLSB, findMSB, bitfieldReverse, bitfieldExtract, bitfieldInsert -/

/-- compute_findLSB<genIUType,8>::call (l.66-76), generic branch: `if(Value == 0) return -1;
    return glm::bitCount(~Value & (Value - static_cast<genIUType>(1)));` — the operand is promoted, so this is bitCount<int> -/
def findLSB_U8 (value : UInt8) : Int32 :=
  if value == 0 then -1 else
  let p : Int32 := value.toUInt32.toInt32            -- integral promotion (zero extension)
  bitCount_I32 (~~~p &&& (p - 1))
def findLSB_I8 (value : Int8) : Int32 :=
  if value == 0 then -1 else
  let p : Int32 := value.toInt32                     -- integral promotion (sign extension)
  bitCount_I32 (~~~p &&& (p - 1))

/-- compute_findMSB_step_vec<L,T,Q,true>::call (l.104-111): `x | (x >> Shift)` (arithmetic `>>` for signed T) -/
def msbStepU8 (x shift : UInt8) : UInt8 := x ||| (x >>> shift)
def msbStepI8 (x shift : Int8) : Int8 := x ||| (x >>> shift)

/-- compute_findMSB_vec<L,T,Q,8>::call (l.122-136) -/
def findMSBvec_U8 (v : UInt8) : Int32 :=
  let x := v
  let x := msbStepU8 x 1
  let x := msbStepU8 x 2
  let x := msbStepU8 x 4
  (7 : Int32) - bitCount_U8 (~~~x)        -- vec<L,int,Q>(sizeof(T)*8 - 1) - glm::bitCount(~x)

/-- compute_findMSB_vec<L,T,Q,8>::call (l.122-136) -/
def findMSBvec_I8 (v : Int8) : Int32 :=
  let x := v
  let x := msbStepI8 x 1
  let x := msbStepI8 x 2
  let x := msbStepI8 x 4
  (7 : Int32) - bitCount_I8 (~~~x)        -- vec<L,int,Q>(sizeof(T)*8 - 1) - glm::bitCount(~x)

/-- findMSB(vec<L,T,Q>) (l.387-400, with fix_findMSB_signed): signed T first maps v to `v ^ (v >> (w-1))` -/
def findMSB_U8 (v : UInt8) : Int32 := findMSBvec_U8 v
def findMSB_I8 (v : Int8) : Int32 := findMSBvec_I8 (v ^^^ (v >>> 7))

/-- compute_bitfieldReverseStep<L,U,Q,Aligned,true>::call (l.39-46): `(v & Mask) << Shift | (v & static_cast<T>(~Mask)) >> Shift` -/
def revStep8 (v mask shift : UInt8) : UInt8 := ((v &&& mask) <<< shift) ||| ((v &&& ~~~mask) >>> shift)

/-- bitfieldReverse(vec<L,T,Q>) (l.307-322, with fix_bitfieldReverse: the ladder runs on U) -/
def bitfieldReverse_U8 (v : UInt8) : UInt8 :=
  let x := v
  let x := revStep8 x 0x55 1
  let x := revStep8 x 0x33 2
  let x := revStep8 x 0x0F 4
  x
def bitfieldReverse_I8 (v : Int8) : Int8 := (bitfieldReverse_U8 v.toUInt8).toInt8

/-- bitfieldExtract(vec<L,T,Q>, int Offset, int Bits) (l.253-267, fix_bitfieldExtract):
    `if(Bits <= 0) return 0; Top = vec<L,U,Q>(Value) << static_cast<U>(Width - Offset - Bits);
     return vec<L,T,Q>(Top) >> static_cast<T>(Width - Bits);` -/
def bitfieldExtract_U8 (value : UInt8) (offset bits : Int32) : UInt8 :=
  if bits ≤ 0 then 0 else
  let cl : UInt8 := (8 - offset - bits).toInt8.toUInt8                       -- static_cast<U>(int)
  let top : UInt8 := (value.toUInt32 <<< cl.toUInt32).toUInt8             -- U(int(x) << int(cl))
  let cr : UInt8 := (8 - bits).toInt8.toUInt8                               -- static_cast<T>(int), T = U
  (top.toUInt32 >>> cr.toUInt32).toUInt8
def bitfieldExtract_I8 (value : Int8) (offset bits : Int32) : Int8 :=
  if bits ≤ 0 then 0 else
  let cl : UInt8 := (8 - offset - bits).toInt8.toUInt8
  let top : UInt8 := (value.toUInt8.toUInt32 <<< cl.toUInt32).toUInt8
  let cr : Int8 := (8 - bits).toInt8
  (top.toInt8.toInt32 >>> cr.toInt32).toInt8                           -- T(int(x) >> int(cr)): arithmetic

/-- detail::mask<U> (l.24-28): `Bits >= sizeof(T)*8 ? ~T(0) : (T(1) << Bits) - T(1)` -/
def mask_U8 (bits : UInt8) : UInt8 :=
  if bits ≥ 8 then ~~~(0 : UInt8) else (((1 : UInt32) <<< bits.toUInt32) - 1).toUInt8
/-- bitfieldInsert(vec<L,T,Q>, vec<L,T,Q>, int Offset, int Bits) (l.278-293, fix_bitfieldInsert):
    `if(Bits <= 0) return Base; U Mask = static_cast<U>(mask(static_cast<U>(Bits)) << Offset);
     return vec<L,T,Q>((vec<L,U,Q>(Base) & static_cast<U>(~Mask)) | ((vec<L,U,Q>(Insert) << static_cast<U>(Offset)) & Mask));` -/
def bitfieldInsert_U8 (base ins : UInt8) (offset bits : Int32) : UInt8 :=
  if bits ≤ 0 then base else
  let mask : UInt8 := ((mask_U8 bits.toInt8.toUInt8).toUInt32 <<< offset.toUInt32).toUInt8
  (base &&& ~~~mask) ||| ((ins.toUInt32 <<< offset.toInt8.toUInt8.toUInt32).toUInt8 &&& mask)
def bitfieldInsert_I8 (base ins : Int8) (offset bits : Int32) : Int8 :=
  (bitfieldInsert_U8 base.toUInt8 ins.toUInt8 offset bits).toInt8            -- vec<L,U,Q>(Base), vec<L,U,Q>(Insert), vec<L,T,Q>(…)

/-! ### 16-bit: findLSB, findMSB, bitfieldReverse, bitfieldExtract, bitfieldInsert -/

/-- compute_findLSB<genIUType,16>::call (l.66-76), generic branch: `if(Value == 0) return -1;
    return glm::bitCount(~Value & (Value - static_cast<genIUType>(1)));` — the operand is promoted, so this is bitCount<int> -/
def findLSB_U16 (value : UInt16) : Int32 :=
  if value == 0 then -1 else
  let p : Int32 := value.toUInt32.toInt32            -- integral promotion (zero extension)
  bitCount_I32 (~~~p &&& (p - 1))
def findLSB_I16 (value : Int16) : Int32 :=
  if value == 0 then -1 else
  let p : Int32 := value.toInt32                     -- integral promotion (sign extension)
  bitCount_I32 (~~~p &&& (p - 1))

/-- compute_findMSB_step_vec<L,T,Q,true>::call (l.104-111): `x | (x >> Shift)` (arithmetic `>>` for signed T) -/
def msbStepU16 (x shift : UInt16) : UInt16 := x ||| (x >>> shift)
def msbStepI16 (x shift : Int16) : Int16 := x ||| (x >>> shift)

/-- compute_findMSB_vec<L,T,Q,16>::call (l.122-136) -/
def findMSBvec_U16 (v : UInt16) : Int32 :=
  let x := v
  let x := msbStepU16 x 1
  let x := msbStepU16 x 2
  let x := msbStepU16 x 4
  let x := msbStepU16 x 8
  (15 : Int32) - bitCount_U16 (~~~x)        -- vec<L,int,Q>(sizeof(T)*8 - 1) - glm::bitCount(~x)

/-- compute_findMSB_vec<L,T,Q,16>::call (l.122-136) -/
def findMSBvec_I16 (v : Int16) : Int32 :=
  let x := v
  let x := msbStepI16 x 1
  let x := msbStepI16 x 2
  let x := msbStepI16 x 4
  let x := msbStepI16 x 8
  (15 : Int32) - bitCount_I16 (~~~x)        -- vec<L,int,Q>(sizeof(T)*8 - 1) - glm::bitCount(~x)

/-- findMSB(vec<L,T,Q>) (l.387-400, with fix_findMSB_signed): signed T first maps v to `v ^ (v >> (w-1))` -/
def findMSB_U16 (v : UInt16) : Int32 := findMSBvec_U16 v
def findMSB_I16 (v : Int16) : Int32 := findMSBvec_I16 (v ^^^ (v >>> 15))

/-- compute_bitfieldReverseStep<L,U,Q,Aligned,true>::call (l.39-46): `(v & Mask) << Shift | (v & static_cast<T>(~Mask)) >> Shift` -/
def revStep16 (v mask shift : UInt16) : UInt16 := ((v &&& mask) <<< shift) ||| ((v &&& ~~~mask) >>> shift)

/-- bitfieldReverse(vec<L,T,Q>) (l.307-322, with fix_bitfieldReverse: the ladder runs on U) -/
def bitfieldReverse_U16 (v : UInt16) : UInt16 :=
  let x := v
  let x := revStep16 x 0x5555 1
  let x := revStep16 x 0x3333 2
  let x := revStep16 x 0x0F0F 4
  let x := revStep16 x 0x00FF 8
  x
def bitfieldReverse_I16 (v : Int16) : Int16 := (bitfieldReverse_U16 v.toUInt16).toInt16

/-- bitfieldExtract(vec<L,T,Q>, int Offset, int Bits) (l.253-267, fix_bitfieldExtract):
    `if(Bits <= 0) return 0; Top = vec<L,U,Q>(Value) << static_cast<U>(Width - Offset - Bits);
     return vec<L,T,Q>(Top) >> static_cast<T>(Width - Bits);` -/
def bitfieldExtract_U16 (value : UInt16) (offset bits : Int32) : UInt16 :=
  if bits ≤ 0 then 0 else
  let cl : UInt16 := (16 - offset - bits).toInt16.toUInt16                       -- static_cast<U>(int)
  let top : UInt16 := (value.toUInt32 <<< cl.toUInt32).toUInt16             -- U(int(x) << int(cl))
  let cr : UInt16 := (16 - bits).toInt16.toUInt16                               -- static_cast<T>(int), T = U
  (top.toUInt32 >>> cr.toUInt32).toUInt16
def bitfieldExtract_I16 (value : Int16) (offset bits : Int32) : Int16 :=
  if bits ≤ 0 then 0 else
  let cl : UInt16 := (16 - offset - bits).toInt16.toUInt16
  let top : UInt16 := (value.toUInt16.toUInt32 <<< cl.toUInt32).toUInt16
  let cr : Int16 := (16 - bits).toInt16
  (top.toInt16.toInt32 >>> cr.toInt32).toInt16                           -- T(int(x) >> int(cr)): arithmetic

/-- detail::mask<U> (l.24-28): `Bits >= sizeof(T)*8 ? ~T(0) : (T(1) << Bits) - T(1)` -/
def mask_U16 (bits : UInt16) : UInt16 :=
  if bits ≥ 16 then ~~~(0 : UInt16) else (((1 : UInt32) <<< bits.toUInt32) - 1).toUInt16
/-- bitfieldInsert(vec<L,T,Q>, vec<L,T,Q>, int Offset, int Bits) (l.278-293, fix_bitfieldInsert):
    `if(Bits <= 0) return Base; U Mask = static_cast<U>(mask(static_cast<U>(Bits)) << Offset);
     return vec<L,T,Q>((vec<L,U,Q>(Base) & static_cast<U>(~Mask)) | ((vec<L,U,Q>(Insert) << static_cast<U>(Offset)) & Mask));` -/
def bitfieldInsert_U16 (base ins : UInt16) (offset bits : Int32) : UInt16 :=
  if bits ≤ 0 then base else
  let mask : UInt16 := ((mask_U16 bits.toInt16.toUInt16).toUInt32 <<< offset.toUInt32).toUInt16
  (base &&& ~~~mask) ||| ((ins.toUInt32 <<< offset.toInt16.toUInt16.toUInt32).toUInt16 &&& mask)
def bitfieldInsert_I16 (base ins : Int16) (offset bits : Int32) : Int16 :=
  (bitfieldInsert_U16 base.toUInt16 ins.toUInt16 offset bits).toInt16            -- vec<L,U,Q>(Base), vec<L,U,Q>(Insert), vec<L,T,Q>(…)

/-! ### 32-bit: findLSB, findMSB, bitfieldReverse, bitfieldExtract, bitfieldInsert -/

/-- compute_findLSB<genIUType,32>::call (l.66-76), generic branch: `if(Value == 0) return -1;
    return glm::bitCount(~Value & (Value - static_cast<genIUType>(1)));` (signed: wraps at the minimum value, which is
    undefined behaviour in C++ — property C20 — and what GCC emits) -/
def findLSB_U32 (value : UInt32) : Int32 :=
  if value == 0 then -1 else bitCount_U32 (~~~value &&& (value - 1))
def findLSB_I32 (value : Int32) : Int32 :=
  if value == 0 then -1 else bitCount_I32 (~~~value &&& (value - 1))

/-- compute_findMSB_step_vec<L,T,Q,true>::call (l.104-111): `x | (x >> Shift)` (arithmetic `>>` for signed T) -/
def msbStepU32 (x shift : UInt32) : UInt32 := x ||| (x >>> shift)
def msbStepI32 (x shift : Int32) : Int32 := x ||| (x >>> shift)

/-- compute_findMSB_vec<L,T,Q,32>::call (l.122-136) -/
def findMSBvec_U32 (v : UInt32) : Int32 :=
  let x := v
  let x := msbStepU32 x 1
  let x := msbStepU32 x 2
  let x := msbStepU32 x 4
  let x := msbStepU32 x 8
  let x := msbStepU32 x 16
  (31 : Int32) - bitCount_U32 (~~~x)        -- vec<L,int,Q>(sizeof(T)*8 - 1) - glm::bitCount(~x)

/-- compute_findMSB_vec<L,T,Q,32>::call (l.122-136) -/
def findMSBvec_I32 (v : Int32) : Int32 :=
  let x := v
  let x := msbStepI32 x 1
  let x := msbStepI32 x 2
  let x := msbStepI32 x 4
  let x := msbStepI32 x 8
  let x := msbStepI32 x 16
  (31 : Int32) - bitCount_I32 (~~~x)        -- vec<L,int,Q>(sizeof(T)*8 - 1) - glm::bitCount(~x)

/-- findMSB(vec<L,T,Q>) (l.387-400, with fix_findMSB_signed): signed T first maps v to `v ^ (v >> (w-1))` -/
def findMSB_U32 (v : UInt32) : Int32 := findMSBvec_U32 v
def findMSB_I32 (v : Int32) : Int32 := findMSBvec_I32 (v ^^^ (v >>> 31))

/-- compute_bitfieldReverseStep<L,U,Q,Aligned,true>::call (l.39-46): `(v & Mask) << Shift | (v & static_cast<T>(~Mask)) >> Shift` -/
def revStep32 (v mask shift : UInt32) : UInt32 := ((v &&& mask) <<< shift) ||| ((v &&& ~~~mask) >>> shift)

/-- bitfieldReverse(vec<L,T,Q>) (l.307-322, with fix_bitfieldReverse: the ladder runs on U) -/
def bitfieldReverse_U32 (v : UInt32) : UInt32 :=
  let x := v
  let x := revStep32 x 0x55555555 1
  let x := revStep32 x 0x33333333 2
  let x := revStep32 x 0x0F0F0F0F 4
  let x := revStep32 x 0x00FF00FF 8
  let x := revStep32 x 0x0000FFFF 16
  x
def bitfieldReverse_I32 (v : Int32) : Int32 := (bitfieldReverse_U32 v.toUInt32).toInt32

/-- bitfieldExtract(vec<L,T,Q>, int Offset, int Bits) (l.253-267, fix_bitfieldExtract):
    `if(Bits <= 0) return 0; Top = vec<L,U,Q>(Value) << static_cast<U>(Width - Offset - Bits);
     return vec<L,T,Q>(Top) >> static_cast<T>(Width - Bits);` -/
def bitfieldExtract_U32 (value : UInt32) (offset bits : Int32) : UInt32 :=
  if bits ≤ 0 then 0 else
  let top : UInt32 := value <<< (32 - offset - bits).toUInt32
  top >>> (32 - bits).toUInt32
def bitfieldExtract_I32 (value : Int32) (offset bits : Int32) : Int32 :=
  if bits ≤ 0 then 0 else
  let top : UInt32 := value.toUInt32 <<< (32 - offset - bits).toUInt32
  top.toInt32 >>> (32 - bits)                                        -- arithmetic

/-- detail::mask<U> (l.24-28): `Bits >= sizeof(T)*8 ? ~T(0) : (T(1) << Bits) - T(1)` -/
def mask_U32 (bits : UInt32) : UInt32 :=
  if bits ≥ 32 then ~~~(0 : UInt32) else ((1 : UInt32) <<< bits) - 1
/-- bitfieldInsert(vec<L,T,Q>, vec<L,T,Q>, int Offset, int Bits) (l.278-293, fix_bitfieldInsert):
    `if(Bits <= 0) return Base; U Mask = static_cast<U>(mask(static_cast<U>(Bits)) << Offset);
     return vec<L,T,Q>((vec<L,U,Q>(Base) & static_cast<U>(~Mask)) | ((vec<L,U,Q>(Insert) << static_cast<U>(Offset)) & Mask));` -/
def bitfieldInsert_U32 (base ins : UInt32) (offset bits : Int32) : UInt32 :=
  if bits ≤ 0 then base else
  let mask : UInt32 := mask_U32 bits.toUInt32 <<< offset.toUInt32
  (base &&& ~~~mask) ||| ((ins <<< offset.toUInt32) &&& mask)
def bitfieldInsert_I32 (base ins : Int32) (offset bits : Int32) : Int32 :=
  (bitfieldInsert_U32 base.toUInt32 ins.toUInt32 offset bits).toInt32            -- vec<L,U,Q>(Base), vec<L,U,Q>(Insert), vec<L,T,Q>(…)

/-! ### 64-bit: findLSB, findMSB, bitfieldReverse, bitfieldExtract, bitfieldInsert -/

/-- compute_findLSB<genIUType,64>::call (l.66-76), generic branch: `if(Value == 0) return -1;
    return glm::bitCount(~Value & (Value - static_cast<genIUType>(1)));` (signed: wraps at the minimum value, which is
    undefined behaviour in C++ — property C20 — and what GCC emits) -/
def findLSB_U64 (value : UInt64) : Int32 :=
  if value == 0 then -1 else bitCount_U64 (~~~value &&& (value - 1))
def findLSB_I64 (value : Int64) : Int32 :=
  if value == 0 then -1 else bitCount_I64 (~~~value &&& (value - 1))

/-- compute_findMSB_step_vec<L,T,Q,true>::call (l.104-111): `x | (x >> Shift)` (arithmetic `>>` for signed T) -/
def msbStepU64 (x shift : UInt64) : UInt64 := x ||| (x >>> shift)
def msbStepI64 (x shift : Int64) : Int64 := x ||| (x >>> shift)

/-- compute_findMSB_vec<L,T,Q,64>::call (l.122-136) -/
def findMSBvec_U64 (v : UInt64) : Int32 :=
  let x := v
  let x := msbStepU64 x 1
  let x := msbStepU64 x 2
  let x := msbStepU64 x 4
  let x := msbStepU64 x 8
  let x := msbStepU64 x 16
  let x := msbStepU64 x 32
  (63 : Int32) - bitCount_U64 (~~~x)        -- vec<L,int,Q>(sizeof(T)*8 - 1) - glm::bitCount(~x)

/-- compute_findMSB_vec<L,T,Q,64>::call (l.122-136) -/
def findMSBvec_I64 (v : Int64) : Int32 :=
  let x := v
  let x := msbStepI64 x 1
  let x := msbStepI64 x 2
  let x := msbStepI64 x 4
  let x := msbStepI64 x 8
  let x := msbStepI64 x 16
  let x := msbStepI64 x 32
  (63 : Int32) - bitCount_I64 (~~~x)        -- vec<L,int,Q>(sizeof(T)*8 - 1) - glm::bitCount(~x)

/-- findMSB(vec<L,T,Q>) (l.387-400, with fix_findMSB_signed): signed T first maps v to `v ^ (v >> (w-1))` -/
def findMSB_U64 (v : UInt64) : Int32 := findMSBvec_U64 v
def findMSB_I64 (v : Int64) : Int32 := findMSBvec_I64 (v ^^^ (v >>> 63))

/-- compute_bitfieldReverseStep<L,U,Q,Aligned,true>::call (l.39-46): `(v & Mask) << Shift | (v & static_cast<T>(~Mask)) >> Shift` -/
def revStep64 (v mask shift : UInt64) : UInt64 := ((v &&& mask) <<< shift) ||| ((v &&& ~~~mask) >>> shift)

/-- bitfieldReverse(vec<L,T,Q>) (l.307-322, with fix_bitfieldReverse: the ladder runs on U) -/
def bitfieldReverse_U64 (v : UInt64) : UInt64 :=
  let x := v
  let x := revStep64 x 0x5555555555555555 1
  let x := revStep64 x 0x3333333333333333 2
  let x := revStep64 x 0x0F0F0F0F0F0F0F0F 4
  let x := revStep64 x 0x00FF00FF00FF00FF 8
  let x := revStep64 x 0x0000FFFF0000FFFF 16
  let x := revStep64 x 0x00000000FFFFFFFF 32
  x
def bitfieldReverse_I64 (v : Int64) : Int64 := (bitfieldReverse_U64 v.toUInt64).toInt64

/-- bitfieldExtract(vec<L,T,Q>, int Offset, int Bits) (l.253-267, fix_bitfieldExtract):
    `if(Bits <= 0) return 0; Top = vec<L,U,Q>(Value) << static_cast<U>(Width - Offset - Bits);
     return vec<L,T,Q>(Top) >> static_cast<T>(Width - Bits);` -/
def bitfieldExtract_U64 (value : UInt64) (offset bits : Int32) : UInt64 :=
  if bits ≤ 0 then 0 else
  let top : UInt64 := value <<< (64 - offset - bits).toInt64.toUInt64
  top >>> (64 - bits).toInt64.toUInt64
def bitfieldExtract_I64 (value : Int64) (offset bits : Int32) : Int64 :=
  if bits ≤ 0 then 0 else
  let top : UInt64 := value.toUInt64 <<< (64 - offset - bits).toInt64.toUInt64
  top.toInt64 >>> (64 - bits).toInt64                                -- arithmetic

/-- detail::mask<U> (l.24-28): `Bits >= sizeof(T)*8 ? ~T(0) : (T(1) << Bits) - T(1)` -/
def mask_U64 (bits : UInt64) : UInt64 :=
  if bits ≥ 64 then ~~~(0 : UInt64) else ((1 : UInt64) <<< bits) - 1
/-- bitfieldInsert(vec<L,T,Q>, vec<L,T,Q>, int Offset, int Bits) (l.278-293, fix_bitfieldInsert):
    `if(Bits <= 0) return Base; U Mask = static_cast<U>(mask(static_cast<U>(Bits)) << Offset);
     return vec<L,T,Q>((vec<L,U,Q>(Base) & static_cast<U>(~Mask)) | ((vec<L,U,Q>(Insert) << static_cast<U>(Offset)) & Mask));` -/
def bitfieldInsert_U64 (base ins : UInt64) (offset bits : Int32) : UInt64 :=
  if bits ≤ 0 then base else
  let mask : UInt64 := mask_U64 bits.toInt64.toUInt64 <<< offset.toInt64.toUInt64
  (base &&& ~~~mask) ||| ((ins <<< offset.toInt64.toUInt64) &&& mask)
def bitfieldInsert_I64 (base ins : Int64) (offset bits : Int32) : Int64 :=
  (bitfieldInsert_U64 base.toUInt64 ins.toUInt64 offset bits).toInt64            -- vec<L,U,Q>(Base), vec<L,U,Q>(Insert), vec<L,T,Q>(…)


/-! ## uaddCarry / usubBorrow / umulExtended / imulExtended (uint / int only) — one definition per output -/

/-- uaddCarry(uint,uint,uint&) (l.177-184) -/
def uaddCarry_res (x y : UInt32) : UInt32 :=
  let value64 : UInt64 := x.toUInt64 + y.toUInt64
  let max32 : UInt64 := ((1 : UInt64) <<< 32) - 1
  (value64 % (max32 + 1)).toUInt32
def uaddCarry_carry (x y : UInt32) : UInt32 :=
  let value64 : UInt64 := x.toUInt64 + y.toUInt64
  let max32 : UInt64 := ((1 : UInt64) <<< 32) - 1
  if value64 > max32 then 1 else 0

/-- one component of uaddCarry(vec<L,uint,Q>…) (l.186-193): `Carry = mix(vec(0), vec(1), greaterThan(Value64, Max32))`,
    mix with a bool vector selects the second operand where true -/
def uaddCarryV_res (x y : UInt32) : UInt32 :=
  let value64 : UInt64 := x.toUInt64 + y.toUInt64
  let max32 : UInt64 := ((1 : UInt64) <<< 32) - 1
  (value64 % (max32 + 1)).toUInt32
def uaddCarryV_carry (x y : UInt32) : UInt32 :=
  let value64 : UInt64 := x.toUInt64 + y.toUInt64
  let max32 : UInt64 := ((1 : UInt64) <<< 32) - 1
  let gt : Bool := value64 > max32
  if gt then 1 else 0

/-- usubBorrow(uint,uint,uint&) (l.195-203), AS IT IS (known finding: the result is y - x, see Props/C05) -/
def usubBorrow_borrow (x y : UInt32) : UInt32 := if x ≥ y then 0 else 1
def usubBorrow_res (x y : UInt32) : UInt32 :=
  if y ≥ x then y - x
  else ((((1 : Int64) <<< 32) + (y.toUInt64.toInt64 - x.toUInt64.toInt64))).toUInt64.toUInt32

/-- one component of usubBorrow(vec…) (l.205-212): `Borrow = mix(1, 0, x >= y)`, `mix(XgeY, YgeX, y >= x)` -/
def usubBorrowV_borrow (x y : UInt32) : UInt32 :=
  let ge : Bool := x ≥ y
  if ge then 0 else 1
def usubBorrowV_res (x y : UInt32) : UInt32 :=
  let ygex : UInt32 := y - x
  let xgey : UInt32 := ((((1 : Int64) <<< 32) + (y.toUInt64.toInt64 - x.toUInt64.toInt64))).toUInt64.toUInt32
  let sel : Bool := y ≥ x
  if sel then ygex else xgey

/-- umulExtended(uint,uint,uint&,uint&) (l.214-220) and its vector form (l.222-228: identical per component) -/
def umulExtended_msb (x y : UInt32) : UInt32 :=
  let value64 : UInt64 := x.toUInt64 * y.toUInt64
  (value64 >>> 32).toUInt32
def umulExtended_lsb (x y : UInt32) : UInt32 :=
  let value64 : UInt64 := x.toUInt64 * y.toUInt64
  value64.toUInt32
def umulExtendedV_msb (x y : UInt32) : UInt32 :=
  let value64 : UInt64 := x.toUInt64 * y.toUInt64
  (value64 >>> 32).toUInt32
def umulExtendedV_lsb (x y : UInt32) : UInt32 :=
  let value64 : UInt64 := x.toUInt64 * y.toUInt64
  value64.toUInt32

/-- imulExtended(int,int,int&,int&) (l.230-236) -/
def imulExtended_msb (x y : Int32) : Int32 :=
  let value64 : Int64 := x.toInt64 * y.toInt64
  (value64 >>> 32).toInt32
def imulExtended_lsb (x y : Int32) : Int32 :=
  let value64 : Int64 := x.toInt64 * y.toInt64
  value64.toInt32
/-- one component of imulExtended(vec…) (l.238-244): `lsb = vec<L,int,Q>(Value64 & 0xFFFFFFFF)`,
    `msb = vec<L,int,Q>((Value64 >> 32) & 0xFFFFFFFF)` -/
def imulExtendedV_msb (x y : Int32) : Int32 :=
  let value64 : Int64 := x.toInt64 * y.toInt64
  ((value64 >>> 32) &&& 0xFFFFFFFF).toInt32
def imulExtendedV_lsb (x y : Int32) : Int32 :=
  let value64 : Int64 := x.toInt64 * y.toInt64
  (value64 &&& 0xFFFFFFFF).toInt32

end GlmVerif.C05
