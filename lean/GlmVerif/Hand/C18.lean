/-
  C18 — power-of-two, multiple and bit-field utilities: hand model (H) and executable specification.
  Core Lean only.

  Source tree modelled: /repo WITH the fix patches of /verif/h/C18 applied
    fix_ceilMultiple_unsigned.diff, fix_ceilMultiple_float.diff, fix_floorMultiple_float.diff,
    fix_roundMultiple.diff, fix_roundPowerOfTwo_narrow.diff, fix_bitfieldFill_mask_type.diff, fix_findNSB_signed.diff
  (line numbers below refer to the patched files).  The functions whose defect is encoded by glm's own tests
  (bitfieldRotateRight/Left, gtx pow(int,0)) are modelled AS THEY ARE; Props/C18 proves the negation of the
  property for them with a witness, next to a `_partial` theorem.

  Build modelled: g++, x86-64, no GLM_FORCE_* macro: GLM_ARCH == GLM_ARCH_X86 (platform.h:407-408), so the
  shift-based integer `compute_sign` (func_common.inl:182-194) is active, GLM_HAS_BITSCAN_WINDOWS = 0 (generic
  compute_findMSB_vec), GLM_CONFIG_SIMD = GLM_DISABLE.
  diff/C18.cpp static_asserts this.

  Types.  A value of a w-bit C++ integer type is a `BitVec w` (raw bits); the templates are instantiated at
  w ∈ {8,16,32,64}, signed and unsigned, so every template is ONE definition parametrised by
    w  the width of T, and
    c  the width at which C++ evaluates T ⊕ T:  c = 32 for w ∈ {8,16} (integral promotion to `int`, always
       SIGNED int, also for uint8/uint16), c = w for w ∈ {32,64}.
  `sx c`/`zx c` promote a signed/unsigned T, `tr w` is the conversion back to T on assignment/return
  (modular, as g++ implements it and C++20 requires).  Operators that act on `vec<1,T>` convert to T after every
  single operator; since truncation commutes with + - * & | ^ ~, with >> on the sign- or zero-extended operand and
  with << by a count < w, those are written directly at width w.
  Signed overflow at c ∈ {32,64}, shifts by ≥ c or by a negative count and division by zero are undefined in
  C++; the model wraps / follows Lean's total operators there and every theorem excludes those inputs by
  hypothesis (they are C20's business).

  House style for bv_decide: literal widths after `simp only [...]`, no tuples, Bool conditions.
-/
namespace GlmVerif.C18

/-! ## promotion / conversion helpers -/
/-- integral promotion of a signed T -/
def sx (c : Nat) {w : Nat} (x : BitVec w) : BitVec c := x.signExtend c
/-- integral promotion of an unsigned T -/
def zx (c : Nat) {w : Nat} (x : BitVec w) : BitVec c := x.setWidth c
/-- conversion back to T -/
def tr (w : Nat) {c : Nat} (v : BitVec c) : BitVec w := v.setWidth w
/-- bool → T (vec<L,T>(vec<L,bool>)) -/
def b2v (w : Nat) (b : Bool) : BitVec w := if b then 1#w else 0#w

/-! ## glm::abs, glm::sign, bitCount, findMSB (dependencies; detail/compute_common.hpp, func_common.inl,
       func_integer.inl) -/

/-- compute_abs<T,true>::call, compute_common.hpp:22  `return x >= genFIType(0) ? x : -x;` (evaluated at int, returned as T) -/
def absS (w c : Nat) (x : BitVec w) : BitVec w :=
  let s : BitVec c := sx c x
  tr w (if s.slt 0 then -s else s)

/-- compute_sign<L,T,Q,false,Aligned> (integer T, GLM_ARCH == GLM_ARCH_X86), func_common.inl:183-193:
    `T const Shift(sizeof(T)*8 - 1); vec<L,T,Q> const y(vec<L,make_unsigned<T>,Q>(-x) >> make_unsigned<T>(Shift));
     return (x >> Shift) | y;` -/
def signS (w : Nat) (x : BitVec w) : BitVec w := x.sshiftRight (w - 1) ||| ((-x) >>> (w - 1))

/-- the `x | (x >> Shift)` ladder (compute_findMSB_step_vec, func_integer.inl:104-120, and the ladder of
    compute_ceilPowerOfTwo, scalar_integer.inl:36-41 / 56-61); steps 8, 16, 32 exist only if sizeof(T) allows.
    Unsigned T: logical shift. -/
def smearU (w : Nat) (v : BitVec w) : BitVec w :=
  let v := v ||| (v >>> 1)
  let v := v ||| (v >>> 2)
  let v := v ||| (v >>> 4)
  let v := if 16 ≤ w then v ||| (v >>> 8) else v
  let v := if 32 ≤ w then v ||| (v >>> 16) else v
  let v := if 64 ≤ w then v ||| (v >>> 32) else v
  v
/-- the same ladder for a signed T: `>>` is arithmetic -/
def smearS (w : Nat) (v : BitVec w) : BitVec w :=
  let v := v ||| (v.sshiftRight 1)
  let v := v ||| (v.sshiftRight 2)
  let v := v ||| (v.sshiftRight 4)
  let v := if 16 ≤ w then v ||| (v.sshiftRight 8) else v
  let v := if 32 ≤ w then v ||| (v.sshiftRight 16) else v
  let v := if 64 ≤ w then v ||| (v.sshiftRight 32) else v
  v

/-- bitCount(vec<1,T>), func_integer.inl:321-343: SWAR on make_unsigned<T>, step k only if w ≥ 2^k;
    `(v & Mask) + ((v >> Shift) & Mask)` (l.62); the result is converted to int -/
def bitCount (w : Nat) (x : BitVec w) : BitVec 32 :=
  let v := x
  let v := if 2 ≤ w then (v &&& BitVec.ofNat w 0x5555555555555555) + ((v >>> 1) &&& BitVec.ofNat w 0x5555555555555555) else v
  let v := if 4 ≤ w then (v &&& BitVec.ofNat w 0x3333333333333333) + ((v >>> 2) &&& BitVec.ofNat w 0x3333333333333333) else v
  let v := if 8 ≤ w then (v &&& BitVec.ofNat w 0x0F0F0F0F0F0F0F0F) + ((v >>> 4) &&& BitVec.ofNat w 0x0F0F0F0F0F0F0F0F) else v
  let v := if 16 ≤ w then (v &&& BitVec.ofNat w 0x00FF00FF00FF00FF) + ((v >>> 8) &&& BitVec.ofNat w 0x00FF00FF00FF00FF) else v
  let v := if 32 ≤ w then (v &&& BitVec.ofNat w 0x0000FFFF0000FFFF) + ((v >>> 16) &&& BitVec.ofNat w 0x0000FFFF0000FFFF) else v
  let v := if 64 ≤ w then (v &&& BitVec.ofNat w 0x00000000FFFFFFFF) + ((v >>> 32) &&& BitVec.ofNat w 0x00000000FFFFFFFF) else v
  v.setWidth 32

/-- compute_findMSB_vec<1,T,Q,w>::call, func_integer.inl:122-136, unsigned T:
    `return vec<L,int>(sizeof(T)*8 - 1) - glm::bitCount(~x);` after the ladder -/
def findMSBU (w : Nat) (x : BitVec w) : BitVec 32 := BitVec.ofNat 32 (w - 1) - bitCount w (~~~ (smearU w x))
/-- the same for a signed T (arithmetic `>>` in the ladder) -/
def findMSBS (w : Nat) (x : BitVec w) : BitVec 32 := BitVec.ofNat 32 (w - 1) - bitCount w (~~~ (smearS w x))
/-- public findMSB(vec<L,T>) for a signed T, func_integer.inl (with C05's fix_findMSB_signed, committed as bfe95ef):
    `compute_findMSB_vec<…>::call(v ^ (v >> static_cast<T>(sizeof(T)*8 - 1)))` — the identity on v ≥ 0.
    For an unsigned T the public function is `findMSBU`. -/
def findMSBpubS (w : Nat) (x : BitVec w) : BitVec 32 := findMSBS w (x ^^^ x.sshiftRight (w - 1))

/-! ## ext/scalar_integer.inl, ext/vector_integer.inl, gtc/round.inl — power-of-two family -/

/-- isPowerOfTwo, scalar_integer.inl:159-166 (vector_integer.inl:5-12 is the same per component), unsigned T:
    `Result = abs(Value)` is the identity (compute_abs<T,false>); `return !(Result & (Result - 1));` at int -/
def isPowerOfTwoU (w c : Nat) (x : BitVec w) : Bool :=
  let r : BitVec c := zx c x
  (r &&& (r - 1)) == 0
/-- signed T -/
def isPowerOfTwoS (w c : Nat) (x : BitVec w) : Bool :=
  let r : BitVec c := sx c (absS w c x)
  (r &&& (r - 1)) == 0

/-- vector isPowerOfTwo, vector_integer.inl:5-12 `vec Result(abs(Value)); return equal(Result & (Result - vec(1)), vec(0));`:
    every vec operator converts back to T, so `Result - 1` wraps at width w (the scalar version computes it at int);
    the two differ only at the most negative value of int8/int16, outside the documented domain -/
def isPowerOfTwoVU (w : Nat) (x : BitVec w) : Bool := (x &&& (x - 1)) == 0
def isPowerOfTwoVS (w c : Nat) (x : BitVec w) : Bool :=
  let r := absS w c x
  (r &&& (r - 1)) == 0

/-- compute_ceilPowerOfTwo<1,T,Q,false>::call, scalar_integer.inl:48-64 (= nextPowerOfTwo l.168-174 =
    gtc ceilPowerOfTwo round.inl:64-68) -/
def ceilPowerOfTwoU (w : Nat) (x : BitVec w) : BitVec w :=
  let v := x - 1
  smearU w v + 1
/-- compute_ceilPowerOfTwo<1,T,Q,true>::call, scalar_integer.inl:24-46:
    `Sign(sign(x)); v(abs(x)); v = v - 1; ladder; return (v + 1) * Sign;` -/
def ceilPowerOfTwoS (w c : Nat) (x : BitVec w) : BitVec w :=
  let sgn := signS w x
  let v := absS w c x
  let v := v - 1
  (smearS w v + 1) * sgn

/-- floorPowerOfTwo, round.inl:79-83 `isPowerOfTwo(value) ? value : static_cast<genType>(1) << findMSB(value)`
    and prevPowerOfTwo, scalar_integer.inl:177-183 (same value, the casts differ only in where the conversion
    to T happens) -/
def floorPowerOfTwoU (w c : Nat) (x : BitVec w) : BitVec w :=
  if isPowerOfTwoU w c x then x else tr w ((1 : BitVec c) <<< findMSBU w x)
def floorPowerOfTwoS (w c : Nat) (x : BitVec w) : BitVec w :=
  if isPowerOfTwoS w c x then x else tr w ((1 : BitVec c) <<< findMSBpubS w x)

/-- roundPowerOfTwo, round.inl:94-103 (patched l.102:
    `return static_cast<T>(next - value) < static_cast<T>(value - prev) ? next : prev;`) -/
def roundPowerOfTwoU (w c : Nat) (x : BitVec w) : BitVec w :=
  if isPowerOfTwoU w c x then x else
  let prev : BitVec w := tr w ((1 : BitVec c) <<< findMSBU w x)
  let next : BitVec w := tr w (zx c prev <<< 1)
  if (next - x).ult (x - prev) then next else prev
def roundPowerOfTwoS (w c : Nat) (x : BitVec w) : BitVec w :=
  if isPowerOfTwoS w c x then x else
  let prev : BitVec w := tr w ((1 : BitVec c) <<< findMSBpubS w x)
  let next : BitVec w := tr w (sx c prev <<< 1)
  if (next - x).slt (x - prev) then next else prev

/-! ## gtx/bit.inl -/

/-- highestBitValue, bit.inl:8-19: `while(tmp){ result = (tmp & (~tmp + 1)); tmp &= ~result; }`; one iteration
    per set bit, so `fuel = w` suffices -/
def hbvLoop (w : Nat) : Nat → BitVec w → BitVec w → BitVec w
  | 0, _, result => result
  | fuel+1, tmp, result =>
    if tmp == 0 then result else
    let result := tmp &&& (~~~tmp + 1)
    hbvLoop w fuel (tmp &&& ~~~result) result
def highestBitValue (w : Nat) (x : BitVec w) : BitVec w := hbvLoop w w x 0
/-- lowestBitValue, bit.inl:30-34 -/
def lowestBitValue (w : Nat) (x : BitVec w) : BitVec w := x &&& (~~~x + 1)
/-- powerOfTwoAbove, bit.inl:45-49 `isPowerOfTwo(value) ? value : highestBitValue(value) << 1` -/
def powerOfTwoAboveU (w c : Nat) (x : BitVec w) : BitVec w :=
  if isPowerOfTwoU w c x then x else highestBitValue w x <<< 1
def powerOfTwoAboveS (w c : Nat) (x : BitVec w) : BitVec w :=
  if isPowerOfTwoS w c x then x else highestBitValue w x <<< 1
/-- powerOfTwoBelow, bit.inl:60-64 -/
def powerOfTwoBelowU (w c : Nat) (x : BitVec w) : BitVec w :=
  if isPowerOfTwoU w c x then x else highestBitValue w x
def powerOfTwoBelowS (w c : Nat) (x : BitVec w) : BitVec w :=
  if isPowerOfTwoS w c x then x else highestBitValue w x
/-- powerOfTwoNearest, bit.inl:75-84 (patched l.83 like roundPowerOfTwo) -/
def powerOfTwoNearestU (w c : Nat) (x : BitVec w) : BitVec w :=
  if isPowerOfTwoU w c x then x else
  let prev := highestBitValue w x
  let next := prev <<< 1
  if (next - x).ult (x - prev) then next else prev
def powerOfTwoNearestS (w c : Nat) (x : BitVec w) : BitVec w :=
  if isPowerOfTwoS w c x then x else
  let prev := highestBitValue w x
  let next := prev <<< 1
  if (next - x).slt (x - prev) then next else prev

/-! ## multiples (scalar_integer.inl:66-157, round.inl:7-49) — integer versions -/

/-- compute_ceilMultiple<false,false>::call (patched), scalar_integer.inl:
    `genType const Rem = Source % Multiple; return Rem > genType(0) ? Source + (Multiple - Rem) : Source;` -/
def ceilMultipleU (w c : Nat) (s m : BitVec w) : BitVec w :=
  let rem : BitVec w := tr w (zx c s % zx c m)
  if (0 : BitVec w).ult rem then tr w (zx c s + (zx c m - zx c rem)) else s
/-- compute_ceilMultiple<false,true>::call, scalar_integer.inl:
    `if(Source > 0){ Tmp = Source - 1; return Tmp + (Multiple - (Tmp % Multiple)); } else return Source - (Source % Multiple);`
    (after the repair of the negation overflow at the most negative value) -/
def ceilMultipleS (w c : Nat) (s m : BitVec w) : BitVec w :=
  let sp : BitVec c := sx c s
  let mp : BitVec c := sx c m
  if BitVec.slt 0 sp then
    let tmp : BitVec w := tr w (sp - 1)
    let t : BitVec c := sx c tmp
    tr w (t + (mp - t.srem mp))
  else
    tr w (sp - sp.srem mp)
/-- compute_floorMultiple<false,false>::call: `Source >= genType(0)` is a tautology for an unsigned T (also after
    promotion), so only `return Source - Source % Multiple;` is reachable -/
def floorMultipleU (w c : Nat) (s m : BitVec w) : BitVec w :=
  tr w (zx c s - zx c s % zx c m)
/-- compute_floorMultiple<false,true>::call:
    `if(Source >= 0) return Source - Source % Multiple; else { Tmp = Source + 1; return Tmp - Tmp % Multiple - Multiple; }` -/
def floorMultipleS (w c : Nat) (s m : BitVec w) : BitVec w :=
  let sp : BitVec c := sx c s
  let mp : BitVec c := sx c m
  if !(sp.slt 0) then
    tr w (sp - sp.srem mp)
  else
    let tmp : BitVec w := tr w (sp + 1)
    let t : BitVec c := sx c tmp
    tr w (t - t.srem mp - mp)
/-- compute_roundMultiple<false,false>::call (patched), round.inl:
    `Lower = compute_floorMultiple<false,false>::call(Source, Multiple); Diff = Source - Lower;
     return Diff < Multiple - Diff ? Lower : Lower + Multiple;`
    (the comparison is a signed int comparison for w < 32 and an unsigned one otherwise) -/
def roundMultipleU (w c : Nat) (s m : BitVec w) : BitVec w :=
  let lower : BitVec w := floorMultipleU w c s m
  let diff : BitVec w := tr w (zx c s - zx c lower)
  let d : BitVec c := zx c diff
  let rhs : BitVec c := zx c m - d
  let lt : Bool := if w < c then d.slt rhs else d.ult rhs
  if lt then lower else tr w (zx c lower + zx c m)
/-- compute_roundMultiple<false,true>::call (patched) -/
def roundMultipleS (w c : Nat) (s m : BitVec w) : BitVec w :=
  let lower : BitVec w := floorMultipleS w c s m
  let diff : BitVec w := tr w (sx c s - sx c lower)
  let d : BitVec c := sx c diff
  if d.slt (sx c m - d) then lower else tr w (sx c lower + sx c m)
/-- isMultiple, scalar_integer.inl:185-191 → vector_integer.inl:38-44 `equal(Value % Multiple, vec(0))` -/
def isMultipleU (w c : Nat) (s m : BitVec w) : Bool := tr w (zx c s % zx c m) == (0 : BitVec w)
def isMultipleS (w c : Nat) (s m : BitVec w) : Bool := tr w ((sx c s).srem (sx c m)) == (0 : BitVec w)

/-! ## findNSB (scalar_integer.inl, patched: the search runs on make_unsigned<T>) -/

/-- the `while (key > One)` loop; `Step` halves every round, after a round `key` has at most `Step` bits, so at
    most log2 w rounds run; when the fuel is exhausted with the loop still alive the model returns the sentinel
    0x7fffffff (theorem `findNSB_*` shows this never happens) -/
def findNSBLoop (w : Nat) : Nat → BitVec w → BitVec 32 → BitVec 32 → Nat → BitVec 32
  | 0, key, _, bitPos, _ => if (1 : BitVec w).ult key then 0x7fffffff#32 else bitPos
  | fuel+1, key, nBitCount, bitPos, step =>
    if !((1 : BitVec w).ult key) then bitPos else
    let mask : BitVec w := ((1 : BitVec w) <<< step) - 1
    let currentKey := key &&& mask
    let currentBitCount := bitCount w currentKey
    if currentBitCount.slt nBitCount then
      findNSBLoop w fuel (key >>> step) (nBitCount - currentBitCount) (bitPos + BitVec.ofNat 32 step) (step / 2)
    else
      findNSBLoop w fuel (key &&& mask) nBitCount bitPos (step / 2)
/-- findNSB(x, significantBitCount): `if(bitCount(x) < significantBitCount) return -1;` then the loop with
    `Step = sizeof(x) * 8 / 2` -/
def findNSB (w lg : Nat) (x : BitVec w) (n : BitVec 32) : BitVec 32 :=
  if (bitCount w x).slt n then 0xFFFFFFFF#32 else
  findNSBLoop w lg x n 0 (w / 2)

/-! ## gtc/bitfield.inl: mask, rotate, fill -/

/-- mask, bitfield.inl:229-235, unsigned T:
    `Bits >= static_cast<T>(sizeof(T)*8) ? ~static_cast<T>(0) : (static_cast<T>(1) << Bits) - static_cast<T>(1)` -/
def maskU (w c : Nat) (bits : BitVec w) : BitVec w :=
  if !(bits.ult (BitVec.ofNat w w)) then ~~~(0 : BitVec w) else tr w (((1 : BitVec c) <<< zx c bits) - 1)
/-- signed T (the comparison is signed; a negative `Bits` reaches `1 << Bits`, which is undefined) -/
def maskS (w c : Nat) (bits : BitVec w) : BitVec w :=
  if !(bits.slt (BitVec.ofNat w w)) then ~~~(0 : BitVec w) else tr w (((1 : BitVec c) <<< sx c bits) - 1)

/-- bitfieldRotateRight, bitfield.inl:249-256 — AS IT IS (it rotates to the LEFT):
    `int const BitSize = static_cast<T>(sizeof(T)*8);
     return (In << static_cast<T>(Shift)) | (In >> static_cast<T>((BitSize - Shift) & (BitSize - 1)));` -/
def bitfieldRotateRightU (w c : Nat) (x : BitVec w) (sh : BitVec 32) : BitVec w :=
  let p : BitVec c := zx c x
  let c1 : BitVec c := zx c (tr w sh : BitVec w)
  let c2 : BitVec c := zx c (tr w ((BitVec.ofNat 32 w - sh) &&& BitVec.ofNat 32 (w - 1)) : BitVec w)
  tr w ((p <<< c1) ||| (p >>> c2))
def bitfieldRotateRightS (w c : Nat) (x : BitVec w) (sh : BitVec 32) : BitVec w :=
  let p : BitVec c := sx c x
  let c1 : BitVec c := sx c (tr w sh : BitVec w)
  let c2 : BitVec c := sx c (tr w ((BitVec.ofNat 32 w - sh) &&& BitVec.ofNat 32 (w - 1)) : BitVec w)
  tr w ((p <<< c1) ||| (p.sshiftRight' c2))
/-- bitfieldRotateLeft, bitfield.inl:267-274 — AS IT IS (it rotates to the RIGHT):
    `return (In >> static_cast<T>(Shift)) | (In << static_cast<T>((BitSize - Shift) & (BitSize - 1)));` -/
def bitfieldRotateLeftU (w c : Nat) (x : BitVec w) (sh : BitVec 32) : BitVec w :=
  let p : BitVec c := zx c x
  let c1 : BitVec c := zx c (tr w sh : BitVec w)
  let c2 : BitVec c := zx c (tr w ((BitVec.ofNat 32 w - sh) &&& BitVec.ofNat 32 (w - 1)) : BitVec w)
  tr w ((p >>> c1) ||| (p <<< c2))
def bitfieldRotateLeftS (w c : Nat) (x : BitVec w) (sh : BitVec 32) : BitVec w :=
  let p : BitVec c := sx c x
  let c1 : BitVec c := sx c (tr w sh : BitVec w)
  let c2 : BitVec c := sx c (tr w ((BitVec.ofNat 32 w - sh) &&& BitVec.ofNat 32 (w - 1)) : BitVec w)
  tr w ((p.sshiftRight' c1) ||| (p <<< c2))

/-- bitfieldFillOne (patched), bitfield.inl:285-289:
    `return Value | static_cast<T>(mask(static_cast<T>(BitCount)) << FirstBit);` -/
def bitfieldFillOneU (w c : Nat) (v : BitVec w) (first count : BitVec 32) : BitVec w :=
  v ||| tr w (zx c (maskU w c (tr w count)) <<< first)
def bitfieldFillOneS (w c : Nat) (v : BitVec w) (first count : BitVec 32) : BitVec w :=
  v ||| tr w (sx c (maskS w c (tr w count)) <<< first)
/-- bitfieldFillZero (patched), bitfield.inl:297-301:
    `return Value & static_cast<T>(~(mask(static_cast<T>(BitCount)) << FirstBit));` -/
def bitfieldFillZeroU (w c : Nat) (v : BitVec w) (first count : BitVec 32) : BitVec w :=
  v &&& tr w (~~~(zx c (maskU w c (tr w count)) <<< first))
def bitfieldFillZeroS (w c : Nat) (v : BitVec w) (first count : BitVec 32) : BitVec w :=
  v &&& tr w (~~~(sx c (maskS w c (tr w count)) <<< first))

/-! ## gtc/bitfield.inl: bitfieldInterleave / bitfieldDeinterleave (fixed machine types → UIntN, native speed) -/

/-- detail::bitfieldInterleave<uint8,uint16>(x, y), bitfield.inl:17-33 -/
def interleave2x8 (x y : UInt8) : UInt16 :=
  let r1 : UInt16 := x.toUInt16
  let r2 : UInt16 := y.toUInt16
  let r1 := ((r1 <<< 4) ||| r1) &&& 0x0F0F
  let r2 := ((r2 <<< 4) ||| r2) &&& 0x0F0F
  let r1 := ((r1 <<< 2) ||| r1) &&& 0x3333
  let r2 := ((r2 <<< 2) ||| r2) &&& 0x3333
  let r1 := ((r1 <<< 1) ||| r1) &&& 0x5555
  let r2 := ((r2 <<< 1) ||| r2) &&& 0x5555
  r1 ||| (r2 <<< 1)

/-- detail::bitfieldInterleave<uint16,uint32>(x, y), bitfield.inl:35-54 -/
def interleave2x16 (x y : UInt16) : UInt32 :=
  let r1 : UInt32 := x.toUInt32
  let r2 : UInt32 := y.toUInt32
  let r1 := ((r1 <<< 8) ||| r1) &&& 0x00FF00FF
  let r2 := ((r2 <<< 8) ||| r2) &&& 0x00FF00FF
  let r1 := ((r1 <<< 4) ||| r1) &&& 0x0F0F0F0F
  let r2 := ((r2 <<< 4) ||| r2) &&& 0x0F0F0F0F
  let r1 := ((r1 <<< 2) ||| r1) &&& 0x33333333
  let r2 := ((r2 <<< 2) ||| r2) &&& 0x33333333
  let r1 := ((r1 <<< 1) ||| r1) &&& 0x55555555
  let r2 := ((r2 <<< 1) ||| r2) &&& 0x55555555
  r1 ||| (r2 <<< 1)

/-- detail::bitfieldInterleave<uint32,uint64>(x, y), bitfield.inl:56-78 -/
def interleave2x32 (x y : UInt32) : UInt64 :=
  let r1 : UInt64 := x.toUInt64
  let r2 : UInt64 := y.toUInt64
  let r1 := ((r1 <<< 16) ||| r1) &&& 0x0000FFFF0000FFFF
  let r2 := ((r2 <<< 16) ||| r2) &&& 0x0000FFFF0000FFFF
  let r1 := ((r1 <<< 8) ||| r1) &&& 0x00FF00FF00FF00FF
  let r2 := ((r2 <<< 8) ||| r2) &&& 0x00FF00FF00FF00FF
  let r1 := ((r1 <<< 4) ||| r1) &&& 0x0F0F0F0F0F0F0F0F
  let r2 := ((r2 <<< 4) ||| r2) &&& 0x0F0F0F0F0F0F0F0F
  let r1 := ((r1 <<< 2) ||| r1) &&& 0x3333333333333333
  let r2 := ((r2 <<< 2) ||| r2) &&& 0x3333333333333333
  let r1 := ((r1 <<< 1) ||| r1) &&& 0x5555555555555555
  let r2 := ((r2 <<< 1) ||| r2) &&& 0x5555555555555555
  r1 ||| (r2 <<< 1)

/-- one operand of detail::bitfieldInterleave<uint8,uint32>(x, y, z), bitfield.inl:80-104 -/
def spread3x8 (x : UInt8) : UInt32 :=
  let r : UInt32 := x.toUInt32
  let r := ((r <<< 16) ||| r) &&& 0xFF0000FF
  let r := ((r <<< 8) ||| r) &&& 0x0F00F00F
  let r := ((r <<< 4) ||| r) &&& 0xC30C30C3
  let r := ((r <<< 2) ||| r) &&& 0x49249249
  r
def interleave3x8 (x y z : UInt8) : UInt32 := spread3x8 x ||| (spread3x8 y <<< 1) ||| (spread3x8 z <<< 2)

/-- one operand of detail::bitfieldInterleave<uint32,uint64>(x, y, z), bitfield.inl:136-164 -/
def spread3x32 (x : UInt32) : UInt64 :=
  let r : UInt64 := x.toUInt64
  let r := ((r <<< 32) ||| r) &&& 0xFFFF00000000FFFF
  let r := ((r <<< 16) ||| r) &&& 0x00FF0000FF0000FF
  let r := ((r <<< 8) ||| r) &&& 0xF00F00F00F00F00F
  let r := ((r <<< 4) ||| r) &&& 0x30C30C30C30C30C3
  let r := ((r <<< 2) ||| r) &&& 0x9249249249249249
  r
def interleave3x32 (x y z : UInt32) : UInt64 := spread3x32 x ||| (spread3x32 y <<< 1) ||| (spread3x32 z <<< 2)
/-- public bitfieldInterleave(uint16, uint16, uint16), bitfield.inl:528-531: it calls the <uint32,uint64>
    specialisation with the converted arguments (the <uint16,uint64> one of l.106-134 is never used) -/
def interleave3x16 (x y z : UInt16) : UInt64 := interleave3x32 x.toUInt32 y.toUInt32 z.toUInt32

/-- one operand of detail::bitfieldInterleave<uint8,uint32>(x, y, z, w), bitfield.inl:166-190 -/
def spread4x8 (x : UInt8) : UInt32 :=
  let r : UInt32 := x.toUInt32
  let r := ((r <<< 12) ||| r) &&& 0x000F000F
  let r := ((r <<< 6) ||| r) &&& 0x03030303
  let r := ((r <<< 3) ||| r) &&& 0x11111111
  r
def interleave4x8 (x y z w : UInt8) : UInt32 :=
  spread4x8 x ||| (spread4x8 y <<< 1) ||| (spread4x8 z <<< 2) ||| (spread4x8 w <<< 3)

/-- one operand of detail::bitfieldInterleave<uint16,uint64>(x, y, z, w), bitfield.inl:192-221 -/
def spread4x16 (x : UInt16) : UInt64 :=
  let r : UInt64 := x.toUInt64
  let r := ((r <<< 24) ||| r) &&& 0x000000FF000000FF
  let r := ((r <<< 12) ||| r) &&& 0x000F000F000F000F
  let r := ((r <<< 6) ||| r) &&& 0x0303030303030303
  let r := ((r <<< 3) ||| r) &&& 0x1111111111111111
  r
def interleave4x16 (x y z w : UInt16) : UInt64 :=
  spread4x16 x ||| (spread4x16 y <<< 1) ||| (spread4x16 z <<< 2) ||| (spread4x16 w <<< 3)

/-- one register of bitfieldDeinterleave(uint16), bitfield.inl:340-361 (REG1 from x, REG2 from x >> 1) -/
def squeeze16 (r : UInt16) : UInt16 :=
  let r := r &&& 0x5555
  let r := ((r >>> 1) ||| r) &&& 0x3333
  let r := ((r >>> 2) ||| r) &&& 0x0F0F
  let r := ((r >>> 4) ||| r) &&& 0x00FF
  let r := ((r >>> 8) ||| r) &&& 0xFFFF
  r
def deinterleave16x (v : UInt16) : UInt8 := (squeeze16 v).toUInt8          -- u8vec2(REG1, REG2).x
def deinterleave16y (v : UInt16) : UInt8 := (squeeze16 (v >>> 1)).toUInt8
/-- bitfieldDeinterleave(uint32), bitfield.inl:394-415 -/
def squeeze32 (r : UInt32) : UInt32 :=
  let r := r &&& 0x55555555
  let r := ((r >>> 1) ||| r) &&& 0x33333333
  let r := ((r >>> 2) ||| r) &&& 0x0F0F0F0F
  let r := ((r >>> 4) ||| r) &&& 0x00FF00FF
  let r := ((r >>> 8) ||| r) &&& 0x0000FFFF
  r
def deinterleave32x (v : UInt32) : UInt16 := (squeeze32 v).toUInt16
def deinterleave32y (v : UInt32) : UInt16 := (squeeze32 (v >>> 1)).toUInt16
/-- bitfieldDeinterleave(uint64), bitfield.inl:448-472 -/
def squeeze64 (r : UInt64) : UInt64 :=
  let r := r &&& 0x5555555555555555
  let r := ((r >>> 1) ||| r) &&& 0x3333333333333333
  let r := ((r >>> 2) ||| r) &&& 0x0F0F0F0F0F0F0F0F
  let r := ((r >>> 4) ||| r) &&& 0x00FF00FF00FF00FF
  let r := ((r >>> 8) ||| r) &&& 0x0000FFFF0000FFFF
  let r := ((r >>> 16) ||| r) &&& 0x00000000FFFFFFFF
  r
def deinterleave64x (v : UInt64) : UInt32 := (squeeze64 v).toUInt32
def deinterleave64y (v : UInt64) : UInt32 := (squeeze64 (v >>> 1)).toUInt32

/-! ## gtc/integer.inl, gtx/integer.inl -/

/-- gtc log2 for an integer T, gtc/integer.inl:6-15: `vec<L,T>(compute_findMSB_vec<L,T,Q,sizeof(T)*8>::call(v))`
    (int → T conversion) -/
def log2U (w : Nat) (x : BitVec w) : BitVec w := (findMSBU w x).signExtend w
def log2S (w : Nat) (x : BitVec w) : BitVec w := (findMSBS w x).signExtend w

/-- the loop of pow, gtx/integer.inl:11-14 / 117-120: `for(uint i = 1; i < y; ++i) result *= x;` -/
def powLoop (x : BitVec 32) : Nat → BitVec 32 → BitVec 32
  | 0, result => result
  | n+1, result => powLoop x n (result * x)
/-- pow(int x, uint y), gtx/integer.inl:6-15 — AS IT IS: `if(y == 0) return x >= 0 ? 1 : -1;` -/
def powS (x y : BitVec 32) : BitVec 32 :=
  if y == 0 then (if !(x.slt 0) then 1 else 0xFFFFFFFF#32) else powLoop x (y.toNat - 1) x
/-- pow(uint x, uint y), gtx/integer.inl:112-121 -/
def powU (x y : BitVec 32) : BitVec 32 :=
  if y == 0 then 1 else powLoop x (y.toNat - 1) x

/-- the do-while of sqrt, gtx/integer.inl:25-29 / 130-134:
    `do { CurrentAnswer = NextTrial; NextTrial = (NextTrial + x / NextTrial) >> 1; } while(NextTrial < CurrentAnswer);`
    (the trial value strictly decreases in every round that continues, so `fuel = x` rounds always suffice; the real
    loop needs ≤ 19; were the fuel ever exhausted the model would return the sentinel 0xFFFFFFFF) -/
def sqrtLoopU (x : BitVec 32) : Nat → BitVec 32 → BitVec 32
  | 0, _ => 0xFFFFFFFF#32
  | fuel+1, nextTrial =>
    let currentAnswer := nextTrial
    let nextTrial := (nextTrial + x / nextTrial) >>> 1
    if nextTrial.ult currentAnswer then sqrtLoopU x fuel nextTrial else currentAnswer
/-- sqrt(uint), gtx/integer.inl:123-137: `if(x <= 1) return x; NextTrial = x >> 1; …` -/
def sqrtU (x : BitVec 32) : BitVec 32 :=
  if x.ule 1 then x else sqrtLoopU x x.toNat (x >>> 1)
def sqrtLoopS (x : BitVec 32) : Nat → BitVec 32 → BitVec 32
  | 0, _ => 0xFFFFFFFF#32
  | fuel+1, nextTrial =>
    let currentAnswer := nextTrial
    let nextTrial := (nextTrial + x.sdiv nextTrial).sshiftRight 1
    if nextTrial.slt currentAnswer then sqrtLoopS x fuel nextTrial else currentAnswer
/-- sqrt(int), gtx/integer.inl:18-32 -/
def sqrtS (x : BitVec 32) : BitVec 32 :=
  if x.sle 1 then x else sqrtLoopS x x.toNat (x.sshiftRight 1)

/-- mod(int, int), gtx/integer.inl:66-69 `return ((x % y) + y) % y;` -/
def modS (x y : BitVec 32) : BitVec 32 := ((x.srem y) + y).srem y
/-- mod(uint, uint), gtx/integer.inl:139-142 `return x - y * (x / y);` -/
def modU (x y : BitVec 32) : BitVec 32 := x - y * (x / y)

/-- factorial<T>, gtx/integer.inl:72-80 `for(Result = 1; Temp > 1; --Temp) Result *= Temp;` -/
def factLoopU (w : Nat) : Nat → BitVec w → BitVec w → BitVec w
  | 0, _, result => result
  | fuel+1, temp, result => if (1 : BitVec w).ult temp then factLoopU w fuel (temp - 1) (result * temp) else result
def factorialU (w : Nat) (x : BitVec w) : BitVec w := factLoopU w x.toNat x 1
def factLoopS (w : Nat) : Nat → BitVec w → BitVec w → BitVec w
  | 0, _, result => result
  | fuel+1, temp, result => if (1 : BitVec w).slt temp then factLoopS w fuel (temp - 1) (result * temp) else result
def factorialS (w : Nat) (x : BitVec w) : BitVec w := factLoopS w x.toNat x 1

/-- nlz(uint), gtx/integer.inl:146-149 `return 31u - static_cast<unsigned int>(findMSB(x));` -/
def nlz (x : BitVec 32) : BitVec 32 := 31 - findMSBU 32 x

/-! ## float versions of the multiples (scalar_integer.inl compute_*Multiple<true,true>, round.inl) — native
       floats, used by the driver only.  `std::fmod` is exact; it is computed here on the decoded integers. -/

/-- exact remainder of |x| by |y| for finite non-zero y, as (mantissa, exponent) of the result;
    x = mx·2^ex, y = my·2^ey with integers mx, my -/
def fmodMag (mx : Nat) (ex : Int) (my : Nat) (ey : Int) : Nat × Int :=
  if ex ≥ ey then ((mx * 2 ^ (ex - ey).toNat) % my, ey)
  else (mx % (my * 2 ^ (ey - ex).toNat), ex)

def fmod32 (x y : Float32) : Float32 :=
  if x.isNaN || y.isNaN || x.isInf || y == 0 then Float32.ofBits 0x7FC00000
  else if y.isInf then x
  else
    let bx := x.toBits; let b := y.toBits
    let exf := ((bx >>> 23) &&& 0xFF).toNat; let eyf := ((b >>> 23) &&& 0xFF).toNat
    let mx : Nat := if exf == 0 then (bx &&& 0x7FFFFF).toNat else (bx &&& 0x7FFFFF).toNat + 0x800000
    let my : Nat := if eyf == 0 then (b &&& 0x7FFFFF).toNat else (b &&& 0x7FFFFF).toNat + 0x800000
    let ex : Int := (if exf == 0 then 1 else (exf : Int)) - 150
    let ey : Int := (if eyf == 0 then 1 else (eyf : Int)) - 150
    let r := fmodMag mx ex my ey
    let mag : Float32 := (Float32.ofNat r.1).scaleB r.2
    if (bx >>> 31) == 1 then -mag else mag

def fmod64 (x y : Float) : Float :=
  if x.isNaN || y.isNaN || x.isInf || y == 0 then Float.ofBits 0x7FF8000000000000
  else if y.isInf then x
  else
    let bx := x.toBits; let b := y.toBits
    let exf := ((bx >>> 52) &&& 0x7FF).toNat; let eyf := ((b >>> 52) &&& 0x7FF).toNat
    let mx : Nat := if exf == 0 then (bx &&& 0xFFFFFFFFFFFFF).toNat else (bx &&& 0xFFFFFFFFFFFFF).toNat + 0x10000000000000
    let my : Nat := if eyf == 0 then (b &&& 0xFFFFFFFFFFFFF).toNat else (b &&& 0xFFFFFFFFFFFFF).toNat + 0x10000000000000
    let ex : Int := (if exf == 0 then 1 else (exf : Int)) - 1075
    let ey : Int := (if eyf == 0 then 1 else (eyf : Int)) - 1075
    let r := fmodMag mx ex my ey
    let mag : Float := (Float.ofNat r.1).scaleB r.2
    if (bx >>> 63) == 1 then -mag else mag

/-- compute_ceilMultiple<true,true>::call (patched) -/
def ceilMultipleF32 (s m : Float32) : Float32 :=
  if s > 0 then
    let rem := fmod32 s m
    if rem > 0 then s + (m - rem) else s
  else s + fmod32 (-s) m
def ceilMultipleF64 (s m : Float) : Float :=
  if s > 0 then
    let rem := fmod64 s m
    if rem > 0 then s + (m - rem) else s
  else s + fmod64 (-s) m
/-- compute_floorMultiple<true,true>::call (patched) -/
def floorMultipleF32 (s m : Float32) : Float32 :=
  if s >= 0 then s - fmod32 s m
  else
    let rem := fmod32 s m
    if rem < 0 then s - rem - m else s
def floorMultipleF64 (s m : Float) : Float :=
  if s >= 0 then s - fmod64 s m
  else
    let rem := fmod64 s m
    if rem < 0 then s - rem - m else s
/-- compute_roundMultiple<true,true>::call (patched) -/
def roundMultipleF32 (s m : Float32) : Float32 :=
  let lower := floorMultipleF32 s m
  let diff := s - lower
  if diff < m - diff then lower else lower + m
def roundMultipleF64 (s m : Float) : Float :=
  let lower := floorMultipleF64 s m
  let diff := s - lower
  if diff < m - diff then lower else lower + m

/-! # Executable specification (written from the documentation / the property statement, independent of the code)

Bit i of a value is bit number i counted from the least significant bit.  All bitwise specifications are
recursions over the bit positions; the arithmetic ones are stated on mathematical integers. -/
namespace Spec

/-- bit number `i` of `x` (false beyond the width) -/
def bit {w : Nat} (x : BitVec w) (i : Nat) : Bool := (x >>> i) &&& 1 == 1
/-- the value with exactly bit `i` set -/
def oneAt (w i : Nat) : BitVec w := (1 : BitVec w) <<< i

/-- x (unsigned reading) is 2^k for some k < n -/
def isPow2 {w : Nat} (x : BitVec w) : Nat → Bool
  | 0 => false
  | k+1 => x == oneAt w k || isPow2 x k
/-- the smallest power of two 2^k (k from `w - n` upwards) that is ≥ x; 0 if none is representable -/
def ceilPow2 {w : Nat} (x : BitVec w) : Nat → BitVec w
  | 0 => 0
  | n+1 => if x.ule (oneAt w (w - (n+1))) then oneAt w (w - (n+1)) else ceilPow2 x n
/-- the largest power of two 2^k, k < n, that is ≤ x; 0 if none (x = 0) -/
def floorPow2 {w : Nat} (x : BitVec w) : Nat → BitVec w
  | 0 => 0
  | k+1 => if (oneAt w k).ule x then oneAt w k else floorPow2 x k
/-- r is a power of two nearest to x (either one at a tie), x > 0, unsigned reading, distances computed without
    overflow on w+1 bits: r is floor or ceil and not farther than the other one -/
def isNearestPow2 (w : Nat) (x r : BitVec w) : Bool :=
  let f : BitVec (w+1) := (floorPow2 x w).setWidth (w+1)
  let x' : BitVec (w+1) := x.setWidth (w+1)
  let c : BitVec (w+1) := f <<< 1          -- for a non power of two the next one is 2·floor (may be 2^w)
  let r' : BitVec (w+1) := r.setWidth (w+1)
  if x == floorPow2 x w then r == x
  else (r' == f && (x' - f).ule (c - x')) || (r' == c && (c - x').ule (x' - f))

/-- bit number `i` (given as an int) of `x` -/
def bitAt {w : Nat} (x : BitVec w) (i : BitVec 32) : Bool := (x >>> i) &&& 1 == 1
/-- the value with exactly bit `i` (an int) set -/
def oneAtV (w : Nat) (i : BitVec 32) : BitVec w := (1 : BitVec w) <<< i

/-- floor(log2 x): the index (as an int) of the highest set bit among the lowest n bits, -1 if there is none -/
def highestBit {w : Nat} (x : BitVec w) : Nat → BitVec 32
  | 0 => 0xFFFFFFFF#32
  | k+1 => if bit x k then BitVec.ofNat 32 k else highestBit x k
/-- the value of the lowest set bit, scanning positions i, i+1, … ; 0 if none -/
def lowestSet {w : Nat} (x : BitVec w) (i : Nat) : Nat → BitVec w
  | 0 => 0
  | fuel+1 => if bit x i then oneAt w i else lowestSet x (i+1) fuel
/-- number of leading zeros of a 32-bit value: the zeros above the highest set bit (32 for x = 0) -/
def nlz (x : BitVec 32) : BitVec 32 := 31 - highestBit x 32

/-- position of the n-th (n ≥ 1, an int) set bit counted from bit 0, scanning positions i, i+1, … (fuel
    positions); -1 if there are fewer than n set bits -/
def nthSetBit {w : Nat} (x : BitVec w) (n : BitVec 32) (i : Nat) : Nat → BitVec 32
  | 0 => 0xFFFFFFFF#32
  | fuel+1 => if bit x i then (if n == 1 then BitVec.ofNat 32 i else nthSetBit x (n - 1) (i+1) fuel)
              else nthSetBit x n (i+1) fuel
def findNSB {w : Nat} (x : BitVec w) (n : BitVec 32) : BitVec 32 := nthSetBit x n 0 w

/-- "a mask of `n` bits" (n read as unsigned): bits k < n set, k < w -/
def mask (w : Nat) (n : BitVec w) : Nat → BitVec w
  | 0 => 0
  | k+1 => (if (BitVec.ofNat w k).ult n then oneAt w k else 0) ||| mask w n k
/-- bits first ≤ k < first + count set (first, count: non-negative ints) -/
def range (w : Nat) (first count : BitVec 32) : Nat → BitVec w
  | 0 => 0
  | k+1 => (if first.ule (BitVec.ofNat 32 k) && (BitVec.ofNat 32 k).ult (first + count) then oneAt w k else 0) ||| range w first count k
def fillOne {w : Nat} (v : BitVec w) (first count : BitVec 32) : BitVec w := v ||| range w first count w
def fillZero {w : Nat} (v : BitVec w) (first count : BitVec 32) : BitVec w := v &&& ~~~ range w first count w

/-- rotate right by s (an int, 0 ≤ s ≤ w): "bits dropped on the right are inserted back on the left":
    bit k of the result is bit (k + s) mod w of x -/
def rotr {w : Nat} (x : BitVec w) (s : BitVec 32) : Nat → BitVec w
  | 0 => 0
  | k+1 => (if bitAt x ((BitVec.ofNat 32 k + s) % BitVec.ofNat 32 w) then oneAt w k else 0) ||| rotr x s k
/-- rotate left by s: bit (k + s) mod w of the result is bit k of x -/
def rotl {w : Nat} (x : BitVec w) (s : BitVec 32) : Nat → BitVec w
  | 0 => 0
  | k+1 => (if bit x k then oneAtV w ((BitVec.ofNat 32 k + s) % BitVec.ofNat 32 w) else 0) ||| rotl x s k

/-- interleave: bit i of the k-th of n arguments (argument width wi) goes to bit n·i + k of the 64-bit result
    (bits that would land beyond bit 63 are dropped: the 3×32 overload returns 64 bits) -/
def spreadArg (n k : Nat) (x : UInt64) : Nat → UInt64
  | 0 => 0
  | i+1 => (if (x >>> i.toUInt64) &&& 1 == 1 && n * i + k < 64 then (1 : UInt64) <<< (n * i + k).toUInt64 else 0) ||| spreadArg n k x i
def interleave2 (wi : Nat) (x y : UInt64) : UInt64 := spreadArg 2 0 x wi ||| spreadArg 2 1 y wi
def interleave3 (wi : Nat) (x y z : UInt64) : UInt64 := spreadArg 3 0 x wi ||| spreadArg 3 1 y wi ||| spreadArg 3 2 z wi
def interleave4 (wi : Nat) (x y z w : UInt64) : UInt64 :=
  spreadArg 4 0 x wi ||| spreadArg 4 1 y wi ||| spreadArg 4 2 z wi ||| spreadArg 4 3 w wi
/-- deinterleave: bit i of component k (of 2) is bit 2·i + k of the argument -/
def gather2 (k : Nat) (v : UInt64) : Nat → UInt64
  | 0 => 0
  | i+1 => (if (v >>> (2 * i + k).toUInt64) &&& 1 == 1 then (1 : UInt64) <<< i.toUInt64 else 0) ||| gather2 k v i

/-! arithmetic specifications on ℤ -/
/-- r is the least multiple of m (> 0) that is ≥ x -/
def IsCeilMultiple (x m r : Int) : Prop := m ∣ r ∧ x ≤ r ∧ r < x + m
/-- r is the greatest multiple of m (> 0) that is ≤ x -/
def IsFloorMultiple (x m r : Int) : Prop := m ∣ r ∧ r ≤ x ∧ x < r + m
/-- r is a multiple of m (> 0) nearest to x (either one at a tie) -/
def IsRoundMultiple (x m r : Int) : Prop := m ∣ r ∧ 2 * (r - x) ≤ m ∧ 2 * (x - r) ≤ m
/-- executable forms (driver) -/
def isCeilMultiple (x m r : Int) : Bool := r % m == 0 && x ≤ r && r < x + m
def isFloorMultiple (x m r : Int) : Bool := r % m == 0 && r ≤ x && x < r + m
def isRoundMultiple (x m r : Int) : Bool := r % m == 0 && 2 * (r - x) ≤ m && 2 * (x - r) ≤ m
/-- loop forms: walk up / down from x until a multiple is met (fuel m) -/
def ceilMultipleLoop (x m : Int) : Nat → Int
  | 0 => x
  | fuel+1 => if x % m == 0 then x else ceilMultipleLoop (x + 1) m fuel
def floorMultipleLoop (x m : Int) : Nat → Int
  | 0 => x
  | fuel+1 => if x % m == 0 then x else floorMultipleLoop (x - 1) m fuel

/-- r = ⌊√x⌋ -/
def IsSqrt (x r : Int) : Prop := 0 ≤ r ∧ r * r ≤ x ∧ x < (r + 1) * (r + 1)
def isSqrt (x r : Int) : Bool := 0 ≤ r && r * r ≤ x && x < (r + 1) * (r + 1)
/-- n! -/
def fact : Nat → Nat
  | 0 => 1
  | n+1 => (n+1) * fact n
/-- "x - y * floor(x / y)" (executable form) -/
def floorMod (x y : Int) : Int := x - y * (x.fdiv y)
/-- r = x - y·⌊x/y⌋ characterised without division: r ≡ x (mod y), r has the sign of y and |r| < |y| -/
def IsFloorMod (x y r : Int) : Prop := y ∣ x - r ∧ ((0 < y ∧ 0 ≤ r ∧ r < y) ∨ (y < 0 ∧ y < r ∧ r ≤ 0))

end Spec
end GlmVerif.C18
