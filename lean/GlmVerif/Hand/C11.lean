/-!
# C11 — hand model of glm's common functions on IEEE-754 binary32 / binary64 bit patterns

Core Lean only (no Mathlib).  Everything is written over `UInt32` (binary32) and `UInt64`
(binary64) *bit patterns*; the native `Float32`/`Float` types are used only by the driver
(`DrvC11.lean`) to tie these definitions to the hardware and, through the harness
`diff/C11.cpp`, to the real glm code in /repo.

House style (bv_decide digests it, and it runs at native speed in the driver): literal types,
no tuples, Boolean conditions, `!(a == b)` rather than `a != b`, `let` chains.

Sections
  §1  IEEE-754 binary32 classification, order key, comparison predicates
  §2  glm's selection / NaN logic, statement by statement (func_common.inl, compute_common.hpp,
      ext/scalar_common.inl); the vector forms apply the scalar one per component
      (`detail::functor1/2`, tied by the correspondence on vec4 arguments)
  §3  bit casts (func_common.inl:809-883)
  §4  soft-float pieces glm's hand-rolled rounding needs: `fadd`, int<->float conversions
  §5  *specification* of floor/ceil/trunc/round/rint on bit patterns, written from the IEEE
      definition (mask the fraction bits selected by the exponent)
  §6  glm's roundEven / fract / iround / uround / texture-coordinate wrap functions
  §7  the same selection logic and rounding specifications on binary64 patterns (`UInt64`)
  §8  executable specification predicates used by the driver on glm's *own* outputs
  §9  correctly-rounded-constant checker on exact rationals
-/

namespace GlmVerif.C11

/-! ## §1 binary32 on `UInt32` -/

/-- magnitude bits (sign cleared) -/
@[inline] def mag (x : UInt32) : UInt32 := x &&& 0x7FFFFFFF
@[inline] def isNaN (x : UInt32) : Bool := decide (mag x > 0x7F800000)
@[inline] def isInf (x : UInt32) : Bool := mag x == 0x7F800000
@[inline] def isFinite (x : UInt32) : Bool := decide (mag x < 0x7F800000)
@[inline] def isZero (x : UInt32) : Bool := mag x == 0
@[inline] def signBit (x : UInt32) : Bool := (x >>> 31) == 1
@[inline] def neg (x : UInt32) : UInt32 := x ^^^ 0x80000000

/-- Order key: a monotone embedding of the non-NaN binary32 values into `UInt32` with
`key (+0) = key (-0)`.  Negative values map below `0x80000000`, positive ones above. -/
@[inline] def key (x : UInt32) : UInt32 :=
  if signBit x then 0x80000000 - mag x else 0x80000000 + mag x

/-- IEEE `<` (quiet): false when either operand is NaN, `-0 < +0` is false. -/
@[inline] def lt (x y : UInt32) : Bool := !isNaN x && !isNaN y && decide (key x < key y)
/-- IEEE `<=` -/
@[inline] def le (x y : UInt32) : Bool := !isNaN x && !isNaN y && decide (key x ≤ key y)
/-- IEEE `==` : NaN unordered, `+0 == -0`. -/
@[inline] def feq (x y : UInt32) : Bool := !isNaN x && !isNaN y && key x == key y
@[inline] def gt (x y : UInt32) : Bool := lt y x
@[inline] def ge (x y : UInt32) : Bool := le y x

/-- "same float": bit-identical, or both NaN (payload / sign of a NaN produced by arithmetic is
not part of the property; selection functions are compared bit for bit instead). -/
@[inline] def same (x y : UInt32) : Bool := x == y || (isNaN x && isNaN y)

def fZero : UInt32 := 0x00000000
def fOne : UInt32 := 0x3F800000
def fNegOne : UInt32 := 0xBF800000
def fHalf : UInt32 := 0x3F000000
def fTwo : UInt32 := 0x40000000
def fNaN : UInt32 := 0x7FC00000

/-! ## §2 selection / NaN logic as glm writes it -/

/-- func_common.inl:17-21  `return (y < x) ? y : x;` -/
@[inline] def min (x y : UInt32) : UInt32 := if lt y x then y else x
/-- func_common.inl:30-35  `return (x < y) ? y : x;` -/
@[inline] def max (x y : UInt32) : UInt32 := if lt x y then y else x
/-- func_common.inl:649-653  `return min(max(x, minVal), maxVal);` -/
@[inline] def clamp (x lo hi : UInt32) : UInt32 := min (max x lo) hi
/-- func_common.inl:165-171 `compute_mix<T,bool>`: `return a ? y : x;` -/
@[inline] def mixb (x y : UInt32) (a : Bool) : UInt32 := if a then y else x
/-- func_common.inl:689-692  `return mix(static_cast<genType>(1), static_cast<genType>(0), x < edge);` -/
@[inline] def step (edge x : UInt32) : UInt32 := mixb fOne fZero (lt x edge)
/-- compute_common.hpp:13-25  `return x >= genFIType(0) ? x : -x;` -/
@[inline] def abs (x : UInt32) : UInt32 := if ge x fZero then x else neg x
/-- `vec<1,float>(bool)` : `static_cast<float>(b)` -/
@[inline] def ofBool (b : Bool) : UInt32 := if b then fOne else fZero
/-- the float subtraction `a - b` restricted to `a, b ∈ {0.0f, 1.0f}` (the only operands
`compute_sign` produces): 0-0 = +0, 1-0 = 1, 0-1 = -1, 1-1 = +0 (round-to-nearest). -/
@[inline] def sub01 (a b : Bool) : UInt32 :=
  if a then (if b then fZero else fOne) else (if b then fNegOne else fZero)
/-- func_common.inl:173-180, 373-381
`vec(lessThan(vec(0), x)) - vec(lessThan(x, vec(0)))` -/
@[inline] def sign (x : UInt32) : UInt32 := sub01 (lt fZero x) (lt x fZero)

/-- ext/scalar_common.inl:3-7 -/
@[inline] def min3 (a b c : UInt32) : UInt32 := min (min a b) c
/-- ext/scalar_common.inl:9-13 -/
@[inline] def min4 (a b c d : UInt32) : UInt32 := min (min a b) (min c d)
/-- ext/scalar_common.inl:15-19 -/
@[inline] def max3 (a b c : UInt32) : UInt32 := max (max a b) c
/-- ext/scalar_common.inl:21-25 -/
@[inline] def max4 (a b c d : UInt32) : UInt32 := max (max a b) (max c d)

/-- ext/scalar_common.inl:27-39: with C++11 `using std::fmin` (libm).  C11 7.12.12.3 / F.10.9.3:
a NaN argument is treated as missing data; the sign of zero is not ordered ("ideally" −0 < +0):
the model returns the first argument when `a == b`, the harness compares `fmin(±0, ∓0)` up to
the sign of zero.  The pre-C++11 fallback `if (isnan(a)) return b; return min(a, b);` returns the
same float whenever it matters for the property (see `fmin2_fallback`). -/
@[inline] def fmin2 (a b : UInt32) : UInt32 :=
  if isNaN a then b else if isNaN b then a else if lt b a then b else a
@[inline] def fmax2 (a b : UInt32) : UInt32 :=
  if isNaN a then b else if isNaN b then a else if lt a b then b else a
/-- ext/scalar_common.inl:30-38 (pre-C++11 branch) -/
@[inline] def fmin2_fallback (a b : UInt32) : UInt32 := if isNaN a then b else min a b
@[inline] def fmax2_fallback (a b : UInt32) : UInt32 := if isNaN a then b else max a b

/-- ext/scalar_common.inl:41-53 -/
@[inline] def fmin3 (a b c : UInt32) : UInt32 :=
  if isNaN a then fmin2 b c
  else if isNaN b then fmin2 a c
  else if isNaN c then min a b
  else min3 a b c
/-- ext/scalar_common.inl:55-69 -/
@[inline] def fmin4 (a b c d : UInt32) : UInt32 :=
  if isNaN a then fmin3 b c d
  else if isNaN b then min a (fmin2 c d)
  else if isNaN c then fmin2 (min a b) d
  else if isNaN d then min3 a b c
  else min4 a b c d
/-- ext/scalar_common.inl:87-99 -/
@[inline] def fmax3 (a b c : UInt32) : UInt32 :=
  if isNaN a then fmax2 b c
  else if isNaN b then fmax2 a c
  else if isNaN c then max a b
  else max3 a b c
/-- ext/scalar_common.inl:101-115 -/
@[inline] def fmax4 (a b c d : UInt32) : UInt32 :=
  if isNaN a then fmax3 b c d
  else if isNaN b then max a (fmax2 c d)
  else if isNaN c then fmax2 (max a b) d
  else if isNaN d then max3 a b c
  else max4 a b c d
/-- ext/scalar_common.inl:118-123 `return fmin(fmax(x, minVal), maxVal);` -/
@[inline] def fclamp (x lo hi : UInt32) : UInt32 := fmin2 (fmax2 x lo) hi
/-- ext/vector_common.inl:48-60: the *vector* 3/4-argument forms are folds of the binary one -/
@[inline] def vfmin3 (a b c : UInt32) : UInt32 := fmin2 (fmin2 a b) c
@[inline] def vfmin4 (a b c d : UInt32) : UInt32 := fmin2 (fmin2 a b) (fmin2 c d)
@[inline] def vfmax3 (a b c : UInt32) : UInt32 := fmax2 (fmax2 a b) c
@[inline] def vfmax4 (a b c d : UInt32) : UInt32 := fmax2 (fmax2 a b) (fmax2 c d)

/-- `using std::isnan` / `using std::isinf` (func_common.inl:728-796) -/
@[inline] def glmIsnan (x : UInt32) : Bool := isNaN x
@[inline] def glmIsinf (x : UInt32) : Bool := isInf x

/-! ### order-theoretic specification (independent of the code: written with the key) -/

/-- the smaller of two non-NaN values (as a *value*: ±0 are one value) -/
@[inline] def isMinOf2 (r x y : UInt32) : Bool := le r x && le r y && (feq r x || feq r y)
@[inline] def isMaxOf2 (r x y : UInt32) : Bool := le x r && le y r && (feq r x || feq r y)
@[inline] def isMinOf3 (r a b c : UInt32) : Bool := le r a && le r b && le r c && (feq r a || feq r b || feq r c)
@[inline] def isMaxOf3 (r a b c : UInt32) : Bool := le a r && le b r && le c r && (feq r a || feq r b || feq r c)
@[inline] def isMinOf4 (r a b c d : UInt32) : Bool :=
  le r a && le r b && le r c && le r d && (feq r a || feq r b || feq r c || feq r d)
@[inline] def isMaxOf4 (r a b c d : UInt32) : Bool :=
  le a r && le b r && le c r && le d r && (feq r a || feq r b || feq r c || feq r d)
/-- GLSL `clamp`: `min(max(x, lo), hi)`, defined for `lo <= hi`: x if inside, else the bound -/
@[inline] def isClampOf (r x lo hi : UInt32) : Bool :=
  if lt x lo then feq r lo else if lt hi x then feq r hi else feq r x

/-! ## §3 bit casts (func_common.inl:809-883): union puns, the identity on the 32 bits -/

@[inline] def floatBitsToInt (v : UInt32) : Int32 := v.toInt32
@[inline] def floatBitsToUint (v : UInt32) : UInt32 := v
@[inline] def intBitsToFloat (v : Int32) : UInt32 := v.toUInt32
@[inline] def uintBitsToFloat (v : UInt32) : UInt32 := v

/-! ## §4 soft-float pieces (round-to-nearest-even, the default mode glm runs in)

`fadd` is IEEE-754 binary32 addition on bit patterns (27-bit significands: 24 + guard, round,
sticky).  A NaN result is the canonical quiet NaN `0x7FC00000` (the driver compares NaNs as a class
for arithmetic results).  It is validated against the hardware `addss` by the driver on the
special-value lattice squared and on random pairs (op `fadd`), and through every glm function
modelled with it. -/

/-- biased exponent field -/
@[inline] def expo (x : UInt32) : UInt32 := (x >>> 23) &&& 0xFF
/-- 24-bit significand with the hidden bit (subnormals: no hidden bit) -/
@[inline] def sig (x : UInt32) : UInt32 :=
  if expo x == 0 then x &&& 0x7FFFFF else (x &&& 0x7FFFFF) ||| 0x800000
/-- effective exponent (subnormals share the exponent of the smallest normals) -/
@[inline] def eff (x : UInt32) : UInt32 := if expo x == 0 then 1 else expo x

/-- number of left shifts that bring bit 26 of a non-zero 27-bit value to the top -/
@[inline] def clz27 (s : UInt32) : UInt32 :=
  let n0 : UInt32 := 0
  let c4 := (s >>> 11) == 0
  let s := if c4 then s <<< 16 else s
  let n0 := if c4 then n0 + 16 else n0
  let c3 := (s >>> 19) == 0
  let s := if c3 then s <<< 8 else s
  let n0 := if c3 then n0 + 8 else n0
  let c2 := (s >>> 23) == 0
  let s := if c2 then s <<< 4 else s
  let n0 := if c2 then n0 + 4 else n0
  let c1 := (s >>> 25) == 0
  let s := if c1 then s <<< 2 else s
  let n0 := if c1 then n0 + 2 else n0
  let c0 := (s >>> 26) == 0
  if c0 then n0 + 1 else n0

/-- round (3 extra bits, nearest-even) and pack; `e ≥ 1`, `s < 2^27`, bit 26 set unless `e = 1` -/
@[inline] def roundPack (sgn e s : UInt32) : UInt32 :=
  let r := s &&& 7
  let q := s >>> 3
  let up := decide (r > 4) || (r == 4 && (q &&& 1) == 1)
  let bits := ((e - 1) <<< 23) + q + (if up then 1 else 0)
  if decide (bits ≥ 0x7F800000) then sgn ||| 0x7F800000 else sgn ||| bits

def fadd (a b : UInt32) : UInt32 :=
  if isNaN a || isNaN b then fNaN
  else if isInf a then (if isInf b && !(a == b) then fNaN else a)
  else if isInf b then b
  else
    let swap := decide (mag a < mag b)
    let x := if swap then b else a      -- larger magnitude
    let y := if swap then a else b
    let sx := x &&& 0x80000000
    let ex := eff x
    let ey := eff y
    let d := ex - ey
    let bigX := sig x <<< 3
    let y0 := sig y <<< 3
    let dd := if decide (d > 31) then 31 else d
    let ysh := y0 >>> dd
    let bigY := if (ysh <<< dd) == y0 then ysh else ysh ||| 1
    if (x ^^^ y) >>> 31 == 0 then
      let s := bigX + bigY
      let carry := decide (s ≥ 0x8000000)
      let s1 := if carry then (s >>> 1) ||| (s &&& 1) else s
      let e1 := if carry then ex + 1 else ex
      roundPack sx e1 s1
    else
      let s := bigX - bigY
      if s == 0 then 0
      else
        let n := clz27 s
        let sh := if decide (n < ex - 1) then n else ex - 1
        roundPack sx (ex - sh) (s <<< sh)

/-- `a - b` is `a + (-b)` in IEEE-754 (also for the sign of an exact zero result) -/
@[inline] def fsub (a b : UInt32) : UInt32 := fadd a (neg b)

/-- `x * 2` : exact except for overflow (-> inf); subnormals double exactly -/
def fmul2 (x : UInt32) : UInt32 :=
  if isNaN x then fNaN
  else if isInf x || isZero x then x
  else if expo x == 0 then (x &&& 0x80000000) ||| ((x &&& 0x7FFFFF) <<< (1 : UInt32))   -- may become normal: the carry lands in the exponent
  else if expo x == 254 then (x &&& 0x80000000) ||| 0x7F800000
  else x + 0x800000

/-- `x / 2` : exact except when the result is subnormal (one bit rounded off, nearest-even) -/
def fdiv2 (x : UInt32) : UInt32 :=
  if isNaN x then fNaN
  else if isInf x || isZero x then x
  else if decide (expo x > 1) then x - 0x800000
  else
    let m := sig x                      -- expo 0 or 1
    let q := m >>> 1
    let up := (m &&& 1) == 1 && (q &&& 1) == 1
    (x &&& 0x80000000) ||| (q + (if up then 1 else 0))

/-- `static_cast<int>(float)`: truncation; *defined in C++ only if the truncated value fits*
(`f2iDefined`).  Outside, this is what x86 `cvttss2si` returns (the "integer indefinite"). -/
def f2i (x : UInt32) : Int32 :=
  let e := expo x
  if decide (e < 127) then 0
  else if decide (e ≥ 158) then (0x80000000 : UInt32).toInt32
  else
    let m := sig x
    let v := if decide (e ≥ 150) then m <<< (e - 150) else m >>> (150 - e)
    if signBit x then (0 - v).toInt32 else v.toInt32
@[inline] def f2iDefined (x : UInt32) : Bool := decide (expo x < 158) || x == 0xCF000000

/-- `static_cast<unsigned>(float)`: defined for `-1 < x < 2^32` (`f2uDefined`).  Outside the
domain the value returned here is meaningless (the harness never compares it). -/
def f2u (x : UInt32) : UInt32 :=
  let e := expo x
  if decide (e < 127) then 0
  else if decide (e ≥ 159) then 0
  else
    let m := sig x
    let v := if decide (e ≥ 150) then m <<< (e - 150) else m >>> (150 - e)
    if signBit x then 0 - v else v
@[inline] def f2uDefined (x : UInt32) : Bool := decide (expo x < 127) || (!signBit x && decide (expo x < 159))

/-! ## §5 specification of the rounding functions on bit patterns

Written from IEEE-754 §5.9 (roundToIntegral…): a finite binary32 with biased exponent `e` in
`[127,150)` has `150 - e` fraction bits, selected by `mask`; below 127 the value is a pure fraction,
from 150 on it is an integer.  NaN in, canonical NaN out; ±inf and integers are returned unchanged;
the sign of a zero result is the sign of the argument (IEEE-754 §6.3). -/

/-- the fraction bits of `x` (only meaningful for `127 ≤ expo x < 150`) -/
@[inline] def fracMask (x : UInt32) : UInt32 := 0x7FFFFF >>> (expo x - 127)

/-- roundToIntegralTowardZero -/
def truncS (x : UInt32) : UInt32 :=
  if isNaN x then fNaN
  else if decide (expo x < 127) then x &&& 0x80000000
  else if decide (expo x ≥ 150) then x
  else x &&& ~~~ fracMask x

/-- roundToIntegralTowardNegative -/
def floorS (x : UInt32) : UInt32 :=
  if isNaN x then fNaN
  else if decide (expo x < 127) then
    (if isZero x then x else if signBit x then fNegOne else fZero)
  else if decide (expo x ≥ 150) then x
  else if signBit x && !((x &&& fracMask x) == 0) then (x + fracMask x) &&& ~~~ fracMask x
  else x &&& ~~~ fracMask x

/-- roundToIntegralTowardPositive -/
def ceilS (x : UInt32) : UInt32 :=
  if isNaN x then fNaN
  else if decide (expo x < 127) then
    (if isZero x then x else if signBit x then 0x80000000 else fOne)
  else if decide (expo x ≥ 150) then x
  else if !signBit x && !((x &&& fracMask x) == 0) then (x + fracMask x) &&& ~~~ fracMask x
  else x &&& ~~~ fracMask x

/-- roundToIntegralTiesToAway (C `round`) -/
def roundS (x : UInt32) : UInt32 :=
  if isNaN x then fNaN
  else if decide (expo x < 126) then x &&& 0x80000000
  else if expo x == 126 then (x &&& 0x80000000) ||| fOne
  else if decide (expo x ≥ 150) then x
  else (x + (0x400000 >>> (expo x - 127))) &&& ~~~ fracMask x

/-- roundToIntegralTiesToEven (C `rint`/`nearbyint` in the default rounding mode; GLSL roundEven) -/
def rintS (x : UInt32) : UInt32 :=
  if isNaN x then fNaN
  else if decide (expo x < 126) then x &&& 0x80000000
  else if expo x == 126 then
    (if (x &&& 0x7FFFFF) == 0 then x &&& 0x80000000 else (x &&& 0x80000000) ||| fOne)
  else if decide (expo x ≥ 150) then x
  else
    let k := expo x - 127
    let mask := fracMask x
    let half := 0x400000 >>> k
    let frac := x &&& mask
    let t := x &&& ~~~ mask
    let odd := if k == 0 then true else ((x >>> (23 - k)) &&& 1) == 1
    if decide (frac > half) || (frac == half && odd) then t + (mask + 1) else t

/-- integer-valued (including ±0, ±inf excluded, NaN excluded) -/
def isInt (x : UInt32) : Bool :=
  isFinite x && (isZero x || decide (expo x ≥ 150) ||
    (decide (expo x ≥ 127) && (x &&& fracMask x) == 0))

/-- an even integer: `fmod(x, 2) == 0` of libm for every finite `x` (false for inf / NaN) -/
def isEvenInt (x : UInt32) : Bool :=
  isFinite x && (isZero x || decide (expo x ≥ 151) ||
    (decide (expo x ≥ 128) && (x &&& (0xFFFFFF >>> (expo x - 127))) == 0))

/-- `|x| * 2^24` as an exact integer, for `2^-1 ≤ |x| < 2^39` (0 below 2^-1: callers treat that
range separately).  This fixed-point view is what the *definitions* of "nearest integer" and
"floor" are stated in, independently of the mask tricks above. -/
def fix24 (x : UInt32) : UInt64 :=
  if decide (expo x < 126) then 0 else (sig x).toUInt64 <<< (expo x - 126).toUInt64

/-! ## §6 glm's hand-rolled rounding and wrap functions

`floor`, `ceil`, `trunc`, `round` are forwarded to libm (`using ::std::floor` …,
func_common.inl:56-95, 393-414, 466-473): the model uses the §5 specification for them, and the
harness compares glibc (through glm) with that specification on every float. -/

/-- func_common.inl:214-221, 476-487  `return x - floor(x);` -/
@[inline] def fract (x : UInt32) : UInt32 := fsub x (floorS x)

/-- libm `fmod(t, 2) == 0` (NaN for infinite or NaN `t`, hence false) -/
@[inline] def fmod2IsZero (t : UInt32) : Bool := isEvenInt t

/-- func_common.inl:427-457 **with h/C11/fix_roundEven.diff applied**:
```
genType IntegerPart = trunc(x);
genType FractionalPart = fract(x);
if(FractionalPart > 0.5 || FractionalPart < 0.5) return round(x);
else if(std::fmod(IntegerPart, 2) == 0)          return IntegerPart;
else if(x <= 0)                                  return IntegerPart - 1;
else                                             return IntegerPart + 1;
``` -/
def roundEven (x : UInt32) : UInt32 :=
  let integerPart := truncS x
  let fractionalPart := fract x
  if gt fractionalPart fHalf || lt fractionalPart fHalf then roundS x
  else if fmod2IsZero integerPart then integerPart
  else if le x fZero then fsub integerPart fOne
  else fadd integerPart fOne

/-- ext/scalar_common.inl:153-160 **with h/C11/fix_iround.diff applied**:
`return static_cast<int>(round(x));`   (documented domain: `x >= 0`) -/
@[inline] def iround (x : UInt32) : Int32 := f2i (roundS x)
/-- ext/scalar_common.inl:162-169 (fixed): `return static_cast<uint>(round(x));` -/
@[inline] def uround (x : UInt32) : UInt32 := f2u (roundS x)

/-- func_common.inl:570-575 `std::modf(x, &i)`: C11 7.12.6.12 / F.10.3.12 — integral part = trunc(x),
fractional part = x − trunc(x) (exact) with the sign of x; `modf(±inf)` = (±0, ±inf) -/
@[inline] def modfInt (x : UInt32) : UInt32 := truncS x
@[inline] def modfFrac (x : UInt32) : UInt32 :=
  if isNaN x then fNaN
  else if isInf x then x &&& 0x80000000
  else (mag (fsub x (truncS x))) ||| (x &&& 0x80000000)

/-- the unfixed `iround`: `static_cast<int>(x + 0.5f)`; kept to state what was wrong -/
@[inline] def iroundOld (x : UInt32) : Int32 := f2i (fadd x fHalf)

/-- ext/scalar_common.inl:125-129  `glm::clamp(Texcoord, 0, 1)` -/
@[inline] def wrapClamp (x : UInt32) : UInt32 := clamp x fZero fOne
/-- ext/scalar_common.inl:131-135  `glm::fract(Texcoord)` -/
@[inline] def wrapRepeat (x : UInt32) : UInt32 := fract x
/-- ext/scalar_common.inl:137-141  `glm::fract(glm::abs(Texcoord))` -/
@[inline] def mirrorClamp (x : UInt32) : UInt32 := fract (abs x)
/-- func_common.inl:241-249 `a - b * floor(a / b)` at `b = 2` -/
@[inline] def mod2 (a : UInt32) : UInt32 := fsub a (fmul2 (floorS (fdiv2 a)))
/-- ext/scalar_common.inl:143-151
```
Abs = abs(Texcoord); Clamp = mod(floor(Abs), 2); Floor = floor(Abs); Rest = Abs - Floor;
Mirror = Clamp + Rest; return mix(Rest, 1 - Rest, Mirror >= 1);
``` -/
def mirrorRepeat (x : UInt32) : UInt32 :=
  let abs_ := abs x
  let clamp_ := mod2 (floorS abs_)
  let floor_ := floorS abs_
  let rest := fsub abs_ floor_
  let mirror := fadd clamp_ rest
  mixb rest (fsub fOne rest) (ge mirror fOne)

/-! ## §7 the same on binary64 bit patterns (`UInt64`)

glm's templates are instantiated at `double` by the harness too; the model is the §1–§6 text with
the binary64 field widths (11-bit exponent, bias 1023, 52 fraction bits). -/
namespace D

@[inline] def mag (x : UInt64) : UInt64 := x &&& 0x7FFFFFFFFFFFFFFF
@[inline] def isNaN (x : UInt64) : Bool := decide (mag x > 0x7FF0000000000000)
@[inline] def isInf (x : UInt64) : Bool := mag x == 0x7FF0000000000000
@[inline] def isFinite (x : UInt64) : Bool := decide (mag x < 0x7FF0000000000000)
@[inline] def isZero (x : UInt64) : Bool := mag x == 0
@[inline] def signBit (x : UInt64) : Bool := (x >>> 63) == 1
@[inline] def neg (x : UInt64) : UInt64 := x ^^^ 0x8000000000000000
@[inline] def key (x : UInt64) : UInt64 :=
  if signBit x then 0x8000000000000000 - mag x else 0x8000000000000000 + mag x
@[inline] def lt (x y : UInt64) : Bool := !isNaN x && !isNaN y && decide (key x < key y)
@[inline] def le (x y : UInt64) : Bool := !isNaN x && !isNaN y && decide (key x ≤ key y)
@[inline] def feq (x y : UInt64) : Bool := !isNaN x && !isNaN y && key x == key y
@[inline] def gt (x y : UInt64) : Bool := lt y x
@[inline] def ge (x y : UInt64) : Bool := le y x
@[inline] def same (x y : UInt64) : Bool := x == y || (isNaN x && isNaN y)

def fZero : UInt64 := 0x0000000000000000
def fOne : UInt64 := 0x3FF0000000000000
def fNegOne : UInt64 := 0xBFF0000000000000
def fHalf : UInt64 := 0x3FE0000000000000
def fTwo : UInt64 := 0x4000000000000000
def fNaN : UInt64 := 0x7FF8000000000000

@[inline] def min (x y : UInt64) : UInt64 := if lt y x then y else x
@[inline] def max (x y : UInt64) : UInt64 := if lt x y then y else x
@[inline] def clamp (x lo hi : UInt64) : UInt64 := min (max x lo) hi
@[inline] def mixb (x y : UInt64) (a : Bool) : UInt64 := if a then y else x
@[inline] def step (edge x : UInt64) : UInt64 := mixb fOne fZero (lt x edge)
@[inline] def abs (x : UInt64) : UInt64 := if ge x fZero then x else neg x
@[inline] def sub01 (a b : Bool) : UInt64 :=
  if a then (if b then fZero else fOne) else (if b then fNegOne else fZero)
@[inline] def sign (x : UInt64) : UInt64 := sub01 (lt fZero x) (lt x fZero)
@[inline] def min3 (a b c : UInt64) : UInt64 := min (min a b) c
@[inline] def min4 (a b c d : UInt64) : UInt64 := min (min a b) (min c d)
@[inline] def max3 (a b c : UInt64) : UInt64 := max (max a b) c
@[inline] def max4 (a b c d : UInt64) : UInt64 := max (max a b) (max c d)
@[inline] def fmin2 (a b : UInt64) : UInt64 :=
  if isNaN a then b else if isNaN b then a else if lt b a then b else a
@[inline] def fmax2 (a b : UInt64) : UInt64 :=
  if isNaN a then b else if isNaN b then a else if lt a b then b else a
@[inline] def fmin3 (a b c : UInt64) : UInt64 :=
  if isNaN a then fmin2 b c
  else if isNaN b then fmin2 a c
  else if isNaN c then min a b
  else min3 a b c
@[inline] def fmin4 (a b c d : UInt64) : UInt64 :=
  if isNaN a then fmin3 b c d
  else if isNaN b then min a (fmin2 c d)
  else if isNaN c then fmin2 (min a b) d
  else if isNaN d then min3 a b c
  else min4 a b c d
@[inline] def fmax3 (a b c : UInt64) : UInt64 :=
  if isNaN a then fmax2 b c
  else if isNaN b then fmax2 a c
  else if isNaN c then max a b
  else max3 a b c
@[inline] def fmax4 (a b c d : UInt64) : UInt64 :=
  if isNaN a then fmax3 b c d
  else if isNaN b then max a (fmax2 c d)
  else if isNaN c then fmax2 (max a b) d
  else if isNaN d then max3 a b c
  else max4 a b c d
@[inline] def fclamp (x lo hi : UInt64) : UInt64 := fmin2 (fmax2 x lo) hi
@[inline] def vfmin3 (a b c : UInt64) : UInt64 := fmin2 (fmin2 a b) c
@[inline] def vfmin4 (a b c d : UInt64) : UInt64 := fmin2 (fmin2 a b) (fmin2 c d)
@[inline] def vfmax3 (a b c : UInt64) : UInt64 := fmax2 (fmax2 a b) c
@[inline] def vfmax4 (a b c d : UInt64) : UInt64 := fmax2 (fmax2 a b) (fmax2 c d)

@[inline] def isMinOf2 (r x y : UInt64) : Bool := le r x && le r y && (feq r x || feq r y)
@[inline] def isMaxOf2 (r x y : UInt64) : Bool := le x r && le y r && (feq r x || feq r y)
@[inline] def isMinOf3 (r a b c : UInt64) : Bool := le r a && le r b && le r c && (feq r a || feq r b || feq r c)
@[inline] def isMaxOf3 (r a b c : UInt64) : Bool := le a r && le b r && le c r && (feq r a || feq r b || feq r c)
@[inline] def isMinOf4 (r a b c d : UInt64) : Bool :=
  le r a && le r b && le r c && le r d && (feq r a || feq r b || feq r c || feq r d)
@[inline] def isMaxOf4 (r a b c d : UInt64) : Bool :=
  le a r && le b r && le c r && le d r && (feq r a || feq r b || feq r c || feq r d)
@[inline] def isClampOf (r x lo hi : UInt64) : Bool :=
  if lt x lo then feq r lo else if lt hi x then feq r hi else feq r x

@[inline] def expo (x : UInt64) : UInt64 := (x >>> 52) &&& 0x7FF
@[inline] def sig (x : UInt64) : UInt64 :=
  if expo x == 0 then x &&& 0xFFFFFFFFFFFFF else (x &&& 0xFFFFFFFFFFFFF) ||| 0x10000000000000
@[inline] def eff (x : UInt64) : UInt64 := if expo x == 0 then 1 else expo x

/-- left shifts that bring bit 55 of a non-zero 56-bit value to the top -/
@[inline] def clz56 (s : UInt64) : UInt64 :=
  let n0 : UInt64 := 0
  let c5 := (s >>> 24) == 0
  let s := if c5 then s <<< 32 else s
  let n0 := if c5 then n0 + 32 else n0
  let c4 := (s >>> 40) == 0
  let s := if c4 then s <<< 16 else s
  let n0 := if c4 then n0 + 16 else n0
  let c3 := (s >>> 48) == 0
  let s := if c3 then s <<< 8 else s
  let n0 := if c3 then n0 + 8 else n0
  let c2 := (s >>> 52) == 0
  let s := if c2 then s <<< 4 else s
  let n0 := if c2 then n0 + 4 else n0
  let c1 := (s >>> 54) == 0
  let s := if c1 then s <<< 2 else s
  let n0 := if c1 then n0 + 2 else n0
  let c0 := (s >>> 55) == 0
  if c0 then n0 + 1 else n0

@[inline] def roundPack (sgn e s : UInt64) : UInt64 :=
  let r := s &&& 7
  let q := s >>> 3
  let up := decide (r > 4) || (r == 4 && (q &&& 1) == 1)
  let bits := ((e - 1) <<< 52) + q + (if up then 1 else 0)
  if decide (bits ≥ 0x7FF0000000000000) then sgn ||| 0x7FF0000000000000 else sgn ||| bits

def fadd (a b : UInt64) : UInt64 :=
  if isNaN a || isNaN b then fNaN
  else if isInf a then (if isInf b && !(a == b) then fNaN else a)
  else if isInf b then b
  else
    let swap := decide (mag a < mag b)
    let x := if swap then b else a
    let y := if swap then a else b
    let sx := x &&& 0x8000000000000000
    let ex := eff x
    let ey := eff y
    let d := ex - ey
    let bigX := sig x <<< 3
    let y0 := sig y <<< 3
    let dd := if decide (d > 63) then 63 else d
    let ysh := y0 >>> dd
    let bigY := if (ysh <<< dd) == y0 then ysh else ysh ||| 1
    if (x ^^^ y) >>> 63 == 0 then
      let s := bigX + bigY
      let carry := decide (s ≥ 0x100000000000000)
      let s1 := if carry then (s >>> 1) ||| (s &&& 1) else s
      let e1 := if carry then ex + 1 else ex
      roundPack sx e1 s1
    else
      let s := bigX - bigY
      if s == 0 then 0
      else
        let n := clz56 s
        let sh := if decide (n < ex - 1) then n else ex - 1
        roundPack sx (ex - sh) (s <<< sh)
@[inline] def fsub (a b : UInt64) : UInt64 := fadd a (neg b)

def fmul2 (x : UInt64) : UInt64 :=
  if isNaN x then fNaN
  else if isInf x || isZero x then x
  else if expo x == 0 then (x &&& 0x8000000000000000) ||| ((x &&& 0xFFFFFFFFFFFFF) <<< (1 : UInt64))
  else if expo x == 2046 then (x &&& 0x8000000000000000) ||| 0x7FF0000000000000
  else x + 0x10000000000000
def fdiv2 (x : UInt64) : UInt64 :=
  if isNaN x then fNaN
  else if isInf x || isZero x then x
  else if decide (expo x > 1) then x - 0x10000000000000
  else
    let m := sig x
    let q := m >>> 1
    let up := (m &&& 1) == 1 && (q &&& 1) == 1
    (x &&& 0x8000000000000000) ||| (q + (if up then 1 else 0))

/-- `static_cast<int>(double)` (x86 `cvttsd2si` outside the defined range) -/
def f2i (x : UInt64) : Int32 :=
  let e := expo x
  if decide (e < 1023) then 0
  else if decide (e ≥ 1054) then (0x80000000 : UInt32).toInt32
  else
    let v := (sig x >>> (1075 - e)).toUInt32
    if signBit x then (0 - v).toInt32 else v.toInt32
@[inline] def f2iDefined (x : UInt64) : Bool :=
  decide (expo x < 1054) || (signBit x && expo x == 1054 && ((x &&& 0xFFFFFFFFFFFFF) >>> 21) == 0)
/-- `static_cast<unsigned>(double)`, defined for `-1 < x < 2^32` -/
def f2u (x : UInt64) : UInt32 :=
  let e := expo x
  if decide (e < 1023) then 0
  else if decide (e ≥ 1055) then 0
  else
    let v := (sig x >>> (1075 - e)).toUInt32
    if signBit x then 0 - v else v
@[inline] def f2uDefined (x : UInt64) : Bool := decide (expo x < 1023) || (!signBit x && decide (expo x < 1055))

@[inline] def fracMask (x : UInt64) : UInt64 := 0xFFFFFFFFFFFFF >>> (expo x - 1023)
def truncS (x : UInt64) : UInt64 :=
  if isNaN x then fNaN
  else if decide (expo x < 1023) then x &&& 0x8000000000000000
  else if decide (expo x ≥ 1075) then x
  else x &&& ~~~ fracMask x
def floorS (x : UInt64) : UInt64 :=
  if isNaN x then fNaN
  else if decide (expo x < 1023) then
    (if isZero x then x else if signBit x then fNegOne else fZero)
  else if decide (expo x ≥ 1075) then x
  else if signBit x && !((x &&& fracMask x) == 0) then (x + fracMask x) &&& ~~~ fracMask x
  else x &&& ~~~ fracMask x
def ceilS (x : UInt64) : UInt64 :=
  if isNaN x then fNaN
  else if decide (expo x < 1023) then
    (if isZero x then x else if signBit x then 0x8000000000000000 else fOne)
  else if decide (expo x ≥ 1075) then x
  else if !signBit x && !((x &&& fracMask x) == 0) then (x + fracMask x) &&& ~~~ fracMask x
  else x &&& ~~~ fracMask x
def roundS (x : UInt64) : UInt64 :=
  if isNaN x then fNaN
  else if decide (expo x < 1022) then x &&& 0x8000000000000000
  else if expo x == 1022 then (x &&& 0x8000000000000000) ||| fOne
  else if decide (expo x ≥ 1075) then x
  else (x + (0x8000000000000 >>> (expo x - 1023))) &&& ~~~ fracMask x
def rintS (x : UInt64) : UInt64 :=
  if isNaN x then fNaN
  else if decide (expo x < 1022) then x &&& 0x8000000000000000
  else if expo x == 1022 then
    (if (x &&& 0xFFFFFFFFFFFFF) == 0 then x &&& 0x8000000000000000 else (x &&& 0x8000000000000000) ||| fOne)
  else if decide (expo x ≥ 1075) then x
  else
    let k := expo x - 1023
    let mask := fracMask x
    let half := 0x8000000000000 >>> k
    let frac := x &&& mask
    let t := x &&& ~~~ mask
    let odd := if k == 0 then true else ((x >>> (52 - k)) &&& 1) == 1
    if decide (frac > half) || (frac == half && odd) then t + (mask + 1) else t
def isInt (x : UInt64) : Bool :=
  isFinite x && (isZero x || decide (expo x ≥ 1075) ||
    (decide (expo x ≥ 1023) && (x &&& fracMask x) == 0))
def isEvenInt (x : UInt64) : Bool :=
  isFinite x && (isZero x || decide (expo x ≥ 1076) ||
    (decide (expo x ≥ 1024) && (x &&& (0x1FFFFFFFFFFFFF >>> (expo x - 1023))) == 0))

@[inline] def fract (x : UInt64) : UInt64 := fsub x (floorS x)
@[inline] def fmod2IsZero (t : UInt64) : Bool := isEvenInt t
def roundEven (x : UInt64) : UInt64 :=
  let integerPart := truncS x
  let fractionalPart := fract x
  if gt fractionalPart fHalf || lt fractionalPart fHalf then roundS x
  else if fmod2IsZero integerPart then integerPart
  else if le x fZero then fsub integerPart fOne
  else fadd integerPart fOne
@[inline] def modfInt (x : UInt64) : UInt64 := truncS x
@[inline] def modfFrac (x : UInt64) : UInt64 :=
  if isNaN x then fNaN
  else if isInf x then x &&& 0x8000000000000000
  else (mag (fsub x (truncS x))) ||| (x &&& 0x8000000000000000)
@[inline] def iround (x : UInt64) : Int32 := f2i (roundS x)
@[inline] def uround (x : UInt64) : UInt32 := f2u (roundS x)
@[inline] def wrapClamp (x : UInt64) : UInt64 := clamp x fZero fOne
@[inline] def wrapRepeat (x : UInt64) : UInt64 := fract x
@[inline] def mirrorClamp (x : UInt64) : UInt64 := fract (abs x)
@[inline] def mod2 (a : UInt64) : UInt64 := fsub a (fmul2 (floorS (fdiv2 a)))
def mirrorRepeat (x : UInt64) : UInt64 :=
  let abs_ := abs x
  let clamp_ := mod2 (floorS abs_)
  let floor_ := floorS abs_
  let rest := fsub abs_ floor_
  let mirror := fadd clamp_ rest
  mixb rest (fsub fOne rest) (ge mirror fOne)

end D

/-! ## §9 correctly rounded constants: exact rational arithmetic

`glm::pi<T>()` etc. return `genType(<decimal literal>)`: the literal is a `double` literal, i.e. the
compiler rounds the decimal to binary64 (round-to-nearest-even) and, for `T = float`, the cast
rounds that double to binary32 — two roundings.  `Rounds p m e q` says "q lies strictly inside the
rounding interval of the precision-`p` number `m·2^e`" (so round-to-nearest of `q` is `m·2^e`,
whatever the tie rule); the checkers compute `m, e` from the literal and test the literal and
both ends of a rational enclosure `[lo, hi]` of the named real quantity.  That the enclosure
contains the real number is proved in `Props/C11/Consts.lean` (Mathlib). -/
namespace Const

def pow2 (e : Int) : Rat :=
  if e ≥ 0 then ((2 ^ e.toNat : Nat) : Rat) else 1 / ((2 ^ (-e).toNat : Nat) : Rat)

/-- ⌊log2 q⌋ for q > 0 -/
def ilog2 (q : Rat) : Int :=
  let k : Int := (Nat.log2 q.num.toNat : Int) - (Nat.log2 q.den : Int)
  if pow2 (k + 1) ≤ q then k + 1 else if pow2 k ≤ q then k else k - 1

/-- round to nearest integer, ties to even -/
def rne (q : Rat) : Int :=
  let f := q.floor
  let r := q - f
  if r < 1/2 then f else if r > 1/2 then f + 1 else if f % 2 == 0 then f else f + 1

/-- exponent and significand of the precision-`p` neighbour of q > 0 (unbounded exponent) -/
def nearE (p : Nat) (q : Rat) : Int := ilog2 q - ((p : Int) - 1)
def nearM (p : Nat) (q : Rat) : Int := rne (q / pow2 (nearE p q))
def value (m e : Int) : Rat := (m : Rat) * pow2 e

/-- `q` is strictly inside the round-to-nearest interval of the normalised precision-`p` number
`m·2^e` (`m` is not a power of two, so the interval is symmetric) -/
def Rounds (p : Nat) (m e : Int) (q : Rat) : Prop :=
  (2 : Int) ^ (p - 1) < m ∧ m < (2 : Int) ^ p ∧
  ((m : Rat) - 1/2) * pow2 e < q ∧ q < ((m : Rat) + 1/2) * pow2 e
instance (p : Nat) (m e : Int) (q : Rat) : Decidable (Rounds p m e q) := by
  unfold Rounds; infer_instance

/-- literal `L` and every real in `[lo, hi]` round to the same normal binary64 number -/
def chk64 (L lo hi : Rat) : Bool :=
  let m := nearM 53 L
  let e := nearE 53 L
  decide (Rounds 53 m e L ∧ Rounds 53 m e lo ∧ Rounds 53 m e hi ∧ -1074 ≤ e ∧ e ≤ 971)

/-- `float(double(L))` is the binary32 number every real in `[lo, hi]` rounds to -/
def chk32 (L lo hi : Rat) : Bool :=
  let m := nearM 53 L
  let e := nearE 53 L
  let d := value m e
  let m' := nearM 24 d
  let e' := nearE 24 d
  decide (Rounds 53 m e L ∧ -1074 ≤ e ∧ e ≤ 971 ∧
          Rounds 24 m' e' d ∧ Rounds 24 m' e' lo ∧ Rounds 24 m' e' hi ∧ -149 ≤ e' ∧ e' ≤ 104)

/-- the bits the harness must see: binary64 pattern of a positive normal `m·2^e` -/
def bits64 (m e : Int) : Nat := ((e + 52 + 1023).toNat <<< 52) + (m.toNat - 2 ^ 52)
def bits32 (m e : Int) : Nat := ((e + 23 + 127).toNat <<< 23) + (m.toNat - 2 ^ 23)
def litBits64 (L : Rat) : Nat := bits64 (nearM 53 L) (nearE 53 L)
def litBits32 (L : Rat) : Nat :=
  let d := value (nearM 53 L) (nearE 53 L)
  bits32 (nearM 24 d) (nearE 24 d)

end Const

end GlmVerif.C11
