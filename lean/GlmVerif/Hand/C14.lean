/-!
# C14 — hand model of glm's ULP stepping and epsilon/ULP comparisons, and their specification

Modelled code (line numbers of the tree *with* the patches `h/C14/fix_*.diff` applied):

* `glm/detail/type_float.hpp`            `detail::float_t<float|double>`: `negative()`, `mantissa()`, `exponent()`, `i`
* `glm/ext/scalar_ulp.inl`               `nextFloat`, `prevFloat` (1 step, n steps), `floatDistance`
* `glm/gtc/ulp.inl`                      `next_float`, `prev_float`, `float_distance` (textual copies of the above)
* `glm/ext/vector_ulp.inl`, `gtc/ulp.inl` vector overloads: the scalar function per component (driver: `List.map`)
* `glm/ext/scalar_relational.inl`        `equal/notEqual(x, y, epsilon)`, `equal/notEqual(x, y, int MaxULPs)`
* `glm/ext/vector_relational.inl`        the same per component (ULP form has its own body)
* `glm/ext/matrix_relational.inl`        per column: `all(equal(col, col, ·))`, `any(notEqual(col, col, ·))`
* `glm/ext/quaternion_relational.inl`    `equal/notEqual(q, q, epsilon)`
* `glm/gtc/epsilon.inl`                  `epsilonEqual/epsilonNotEqual` scalar, vector, quaternion

Conventions (house style that `bv_decide` digests and that compiles to native code):
* a `float` is its bit pattern `UInt32`, a `double` is `UInt64`; `float_t<T>::i` *is* that pattern read as
  `int`/`int64` (`.toInt32`/`.toInt64` for signed comparisons; `+ - ` wrap, which is what g++ `-fwrapv` does —
  the places where C++ leaves signed overflow undefined are stated as separate `…Overflows` predicates);
* an `int` argument/result (`ULPs`, `MaxULPs`, `floatDistance`) is carried as its two's-complement bits;
* `std::nextafter` is libm, not glm: it is *modelled* by `nextafter32/64` (the integer algorithm of
  Sun's `s_nextafterf.c`/`s_nextafter.c`, which glibc ships and glm bundles a copy of), proved equal to
  the C11/IEEE specification `nextafterSpec32/64`, and validated against the platform on every run;
  NaN results are canonical (`x + y` payload propagation is not modelled);
* IEEE subtraction `fl(x − y)` of the epsilon forms is the hardware operation (`Float32`/`Float`), the
  comparison that follows it is modelled at the bit level;
* no tuples, Bool conditions, literal types.

Everything below `Specification` is written from IEEE 754-2019 (§5.3.1 nextUp/nextDown, §5.11
comparisons) and C11 7.12.11.3 (`nextafter`), independently of the code.
-/
namespace Glm.Hand.C14

/-! ## Specification, binary32 -/

def qNaN32 : UInt32 := 0x7FC00000
/-- biased exponent all ones, fraction non-zero -/
def isNaN32 (x : UInt32) : Bool := (x &&& 0x7FFFFFFF) > 0x7F800000
def isInf32 (x : UInt32) : Bool := (x &&& 0x7FFFFFFF) == 0x7F800000
/-- zero, subnormal or normal -/
def isFinite32 (x : UInt32) : Bool := (x &&& 0x7FFFFFFF) < 0x7F800000
def isZero32 (x : UInt32) : Bool := (x &&& 0x7FFFFFFF) == 0
def sign32 (x : UInt32) : Bool := (x >>> 31) == 1
def mag32 (x : UInt32) : UInt32 := x &&& 0x7FFFFFFF

/-- IEEE `x < y` on bit patterns (sign/magnitude case split; false if either is NaN; −0 = +0) -/
def flt32 (x y : UInt32) : Bool :=
  !isNaN32 x && !isNaN32 y &&
  (if sign32 x then
     (if sign32 y then mag32 y < mag32 x else !(mag32 x == 0 && mag32 y == 0))
   else
     (if sign32 y then false else mag32 x < mag32 y))
/-- IEEE `x == y` -/
def feq32 (x y : UInt32) : Bool :=
  !isNaN32 x && !isNaN32 y && (x == y || (mag32 x == 0 && mag32 y == 0))
/-- IEEE `x <= y` -/
def fle32 (x y : UInt32) : Bool := flt32 x y || feq32 x y

/-- IEEE 754 nextUp: least value that compares greater; nextUp(±0) = min subnormal,
nextUp(−min subnormal) = −0, nextUp(max) = +∞, nextUp(+∞) = +∞, nextUp(−∞) = −max, NaN → NaN -/
def nextUp32 (x : UInt32) : UInt32 :=
  if isNaN32 x then qNaN32
  else if x == 0x7F800000 then x
  else if isZero32 x then 0x00000001
  else if sign32 x then x - 1 else x + 1
/-- IEEE 754 nextDown x = −nextUp(−x) -/
def nextDown32 (x : UInt32) : UInt32 :=
  if isNaN32 x then qNaN32
  else if x == 0xFF800000 then x
  else if isZero32 x then 0x80000001
  else if sign32 x then x + 1 else x - 1

/-- C11 7.12.11.3: next representable value after `x` in the direction of `y`; `y` if they compare equal -/
def nextafterSpec32 (x y : UInt32) : UInt32 :=
  if isNaN32 x || isNaN32 y then qNaN32
  else if feq32 x y then y
  else if flt32 x y then nextUp32 x else nextDown32 x

/-- sign-magnitude bit pattern → two's complement (−0 and +0 both ↦ 0) -/
def toTwos32 (x : UInt32) : UInt32 := if sign32 x then 0 - mag32 x else x
/-- the order key: an integer that is strictly monotone in the value on all non-NaN patterns
(`Props.C14.ordKey32_lt_iff`), consecutive on consecutive values, equal on ±0 -/
def ordKey32 (x : UInt32) : Int := (toTwos32 x).toBitVec.toInt
/-- number of representable values between `x` and `y` -/
def ulpDist32 (x y : UInt32) : Nat := (ordKey32 x - ordKey32 y).natAbs

/-- `n`-fold nextUp / nextDown -/
def nextUpN32 (x : UInt32) (n : Nat) : UInt32 := Nat.repeat nextUp32 n x
def nextDownN32 (x : UInt32) (n : Nat) : UInt32 := Nat.repeat nextDown32 n x

/-- specification of `floatDistance`: the ULP distance, saturated to the result type `int` -/
def distSpec32 (x y : UInt32) : Int := min (ulpDist32 x y : Int) 2147483647
/-- specification of `equal(x, y, MaxULPs)` -/
def equalUlpsSpec32 (x y : UInt32) (k : Int) : Bool := decide ((ulpDist32 x y : Int) ≤ k)

/-! ## Specification, binary64 -/

def qNaN64 : UInt64 := 0x7FF8000000000000
def isNaN64 (x : UInt64) : Bool := (x &&& 0x7FFFFFFFFFFFFFFF) > 0x7FF0000000000000
def isInf64 (x : UInt64) : Bool := (x &&& 0x7FFFFFFFFFFFFFFF) == 0x7FF0000000000000
def isFinite64 (x : UInt64) : Bool := (x &&& 0x7FFFFFFFFFFFFFFF) < 0x7FF0000000000000
def isZero64 (x : UInt64) : Bool := (x &&& 0x7FFFFFFFFFFFFFFF) == 0
def sign64 (x : UInt64) : Bool := (x >>> 63) == 1
def mag64 (x : UInt64) : UInt64 := x &&& 0x7FFFFFFFFFFFFFFF

def flt64 (x y : UInt64) : Bool :=
  !isNaN64 x && !isNaN64 y &&
  (if sign64 x then
     (if sign64 y then mag64 y < mag64 x else !(mag64 x == 0 && mag64 y == 0))
   else
     (if sign64 y then false else mag64 x < mag64 y))
def feq64 (x y : UInt64) : Bool :=
  !isNaN64 x && !isNaN64 y && (x == y || (mag64 x == 0 && mag64 y == 0))
def fle64 (x y : UInt64) : Bool := flt64 x y || feq64 x y

def nextUp64 (x : UInt64) : UInt64 :=
  if isNaN64 x then qNaN64
  else if x == 0x7FF0000000000000 then x
  else if isZero64 x then 0x0000000000000001
  else if sign64 x then x - 1 else x + 1
def nextDown64 (x : UInt64) : UInt64 :=
  if isNaN64 x then qNaN64
  else if x == 0xFFF0000000000000 then x
  else if isZero64 x then 0x8000000000000001
  else if sign64 x then x + 1 else x - 1

def nextafterSpec64 (x y : UInt64) : UInt64 :=
  if isNaN64 x || isNaN64 y then qNaN64
  else if feq64 x y then y
  else if flt64 x y then nextUp64 x else nextDown64 x

def toTwos64 (x : UInt64) : UInt64 := if sign64 x then 0 - mag64 x else x
def ordKey64 (x : UInt64) : Int := (toTwos64 x).toBitVec.toInt
def ulpDist64 (x y : UInt64) : Nat := (ordKey64 x - ordKey64 y).natAbs
def nextUpN64 (x : UInt64) (n : Nat) : UInt64 := Nat.repeat nextUp64 n x
def nextDownN64 (x : UInt64) (n : Nat) : UInt64 := Nat.repeat nextDown64 n x
def distSpec64 (x y : UInt64) : Int := min (ulpDist64 x y : Int) 9223372036854775807
def equalUlpsSpec64 (x y : UInt64) (k : Int) : Bool := decide ((ulpDist64 x y : Int) ≤ k)

/-! ## libm `nextafterf` / `nextafter` as used by `std::nextafter` (modelled, validated by correspondence)

Integer skeleton of Sun's algorithm (glibc `s_nextafterf.c`; glm's bundled copy is
`scalar_ulp.inl:73-127`, whose integer part is the same).  The floating-point side effects
(raising overflow/underflow) do not change the returned value. -/

def nextafter32 (x y : UInt32) : UInt32 :=
  let hx := x                                       -- GET_FLOAT_WORD(hx,x)
  let hy := y                                       -- GET_FLOAT_WORD(hy,y)
  let ix := hx &&& 0x7FFFFFFF                       -- |x|
  let iy := hy &&& 0x7FFFFFFF                       -- |y|
  if ix > 0x7F800000 || iy > 0x7F800000 then qNaN32 -- x or y is nan: return x+y
  else if x == y || (ix ||| iy) == 0 then y         -- if(x==y) return y   (float compare: ±0 equal)
  else if ix == 0 then (hy &&& 0x80000000) ||| 1    -- x == 0: return ±minsubnormal
  else if hx.toInt32 >= 0 then                      -- x > 0
    (if hx.toInt32 > hy.toInt32 then hx - 1         --   x > y, x -= ulp
     else hx + 1)                                   --   x < y, x += ulp
  else                                              -- x < 0
    (if hy.toInt32 >= 0 || hx.toInt32 > hy.toInt32 then hx - 1   -- x < y, x -= ulp
     else hx + 1)                                   --   x > y, x += ulp
  -- hy = hx&0x7f800000; if(hy>=0x7f800000) return x+x (= ±inf = the word hx already holds)

/-- `s_nextafter.c` works on two 32-bit halves with carries; on one 64-bit word that is ±1 -/
def nextafter64 (x y : UInt64) : UInt64 :=
  let ix := x &&& 0x7FFFFFFFFFFFFFFF
  let iy := y &&& 0x7FFFFFFFFFFFFFFF
  if ix > 0x7FF0000000000000 || iy > 0x7FF0000000000000 then qNaN64
  else if x == y || (ix ||| iy) == 0 then y
  else if ix == 0 then (y &&& 0x8000000000000000) ||| 1
  else if x.toInt64 >= 0 then
    (if x.toInt64 > y.toInt64 then x - 1 else x + 1)
  else
    (if y.toInt64 >= 0 || x.toInt64 > y.toInt64 then x - 1 else x + 1)

/-! ## `detail::float_t<float>` / `float_t<double>`  (type_float.hpp:18-62) -/

/-- `bool negative() const { return i < 0; }` (l.33) -/
def ftNegative32 (x : UInt32) : Bool := x.toInt32 < 0
/-- `int_type mantissa() const { return i & ((1 << 23) - 1); }` (l.34) -/
def ftMantissa32 (x : UInt32) : UInt32 := x &&& (((1 : UInt32) <<< 23) - 1)
/-- `int_type exponent() const { return (i >> 23) & ((1 << 8) - 1); }` (l.35); `>>` on `int` is arithmetic -/
def ftExponent32 (x : UInt32) : UInt32 := (x.toInt32 >>> 23).toUInt32 &&& (((1 : UInt32) <<< 8) - 1)

/-- l.56 -/
def ftNegative64 (x : UInt64) : Bool := x.toInt64 < 0
/-- `i & ((int_type(1) << 52) - 1)` (l.57) -/
def ftMantissa64 (x : UInt64) : UInt64 := x &&& (((1 : UInt64) <<< 52) - 1)
/-- `(i >> 52) & ((int_type(1) << 11) - 1)` (l.58) -/
def ftExponent64 (x : UInt64) : UInt64 := (x.toInt64 >>> 52).toUInt64 &&& (((1 : UInt64) <<< 11) - 1)

/-! ## `glm::abs` on `int` / `int64`: `x >= 0 ? x : -x`  (detail/compute_common.hpp:22) -/

def absI32 (d : UInt32) : UInt32 := if d.toInt32 >= 0 then d else 0 - d
def absI64 (d : UInt64) : UInt64 := if d.toInt64 >= 0 then d else 0 - d

/-! ## `nextFloat`, `prevFloat`  (ext/scalar_ulp.inl:198-274; gtc/ulp.inl:7-83 are textual copies)

Patched by `h/C14/fix_ulp_step_targets.diff`: the direction argument of `std::nextafter` is
`+infinity()` / `-infinity()`.  (Before the patch it was `numeric_limits<T>::max()` and
`numeric_limits<T>::min()`; the latter is the smallest positive *normal* number — see `preFix…` below.) -/

/-- `return std::nextafter(x, std::numeric_limits<float>::infinity());` (l.202) -/
def glmNextFloat32 (x : UInt32) : UInt32 := nextafter32 x 0x7F800000
/-- `return std::nextafter(x, -std::numeric_limits<float>::infinity());` (l.241) -/
def glmPrevFloat32 (x : UInt32) : UInt32 := nextafter32 x 0xFF800000
/-- l.216 -/
def glmNextFloat64 (x : UInt64) : UInt64 := nextafter64 x 0x7FF0000000000000
/-- l.254 -/
def glmPrevFloat64 (x : UInt64) : UInt64 := nextafter64 x 0xFFF0000000000000

/-- `T temp = x; for(int i = 0; i < ULPs; ++i) temp = nextFloat(temp); return temp;` (l.232-235):
the loop state is `temp`, `n` = iterations still to run -/
def glmNextFloatN32 (x : UInt32) : Nat → UInt32
  | 0 => x
  | n + 1 => glmNextFloatN32 (glmNextFloat32 x) n
/-- l.270-273 -/
def glmPrevFloatN32 (x : UInt32) : Nat → UInt32
  | 0 => x
  | n + 1 => glmPrevFloatN32 (glmPrevFloat32 x) n
def glmNextFloatN64 (x : UInt64) : Nat → UInt64
  | 0 => x
  | n + 1 => glmNextFloatN64 (glmNextFloat64 x) n
def glmPrevFloatN64 (x : UInt64) : Nat → UInt64
  | 0 => x
  | n + 1 => glmPrevFloatN64 (glmPrevFloat64 x) n
/-- the `int ULPs` argument: the loop body never runs for `ULPs <= 0` (`assert(ULPs >= 0)` in debug builds) -/
def ulpsToNat (k : UInt32) : Nat := k.toInt32.toInt.toNat

/-! ## `floatDistance`  (ext/scalar_ulp.inl:276-310; gtc/ulp.inl `float_distance`)

Patched by `h/C14/fix_float_distance_across_zero.diff`. -/

/-- ```
detail::float_t<float> const a(x), b(y);
if(a.negative() != b.negative()) {
  int const Max = std::numeric_limits<int>::max();
  int const DistA = a.i & Max;  int const DistB = b.i & Max;
  return DistA > Max - DistB ? Max : DistA + DistB;
}
return abs(a.i - b.i);
``` -/
def glmFloatDistance32 (x y : UInt32) : UInt32 :=
  if !(ftNegative32 x == ftNegative32 y) then
    let mx : UInt32 := 0x7FFFFFFF
    let distA := x &&& mx
    let distB := y &&& mx
    if distA.toInt32 > (mx - distB).toInt32 then mx else distA + distB
  else
    absI32 (x - y)

def glmFloatDistance64 (x y : UInt64) : UInt64 :=
  if !(ftNegative64 x == ftNegative64 y) then
    let mx : UInt64 := 0x7FFFFFFFFFFFFFFF
    let distA := x &&& mx
    let distB := y &&& mx
    if distA.toInt64 > (mx - distB).toInt64 then mx else distA + distB
  else
    absI64 (x - y)

/-- would the C++ evaluation of `floatDistance` overflow a signed integer (undefined behaviour)? -/
def floatDistanceOverflows32 (x y : UInt32) : Bool :=
  if !(ftNegative32 x == ftNegative32 y) then false     -- Max - DistB, DistA + DistB (guarded) stay in range
  else
    let d := x - y
    -- a.i - b.i overflows iff the operands have different signs and the result's sign differs from a's;
    -- -d overflows iff d = INT_MIN
    ((x ^^^ y) &&& (x ^^^ d)) >>> 31 == 1 || d == 0x80000000

def floatDistanceOverflows64 (x y : UInt64) : Bool :=
  if !(ftNegative64 x == ftNegative64 y) then false
  else
    let d := x - y
    ((x ^^^ y) &&& (x ^^^ d)) >>> 63 == 1 || d == 0x8000000000000000

/-! ## `equal/notEqual(x, y, int MaxULPs)` -/

/-- scalar (ext/scalar_relational.inl:20-33):
```
if(a.negative() != b.negative()) return false;
int_type const DiffULPs = abs(a.i - b.i);
return DiffULPs <= MaxULPs;
``` -/
def glmEqualUlps32 (x y k : UInt32) : Bool :=
  if !(ftNegative32 x == ftNegative32 y) then false
  else (absI32 (x - y)).toInt32 <= k.toInt32
/-- l.36-39 -/
def glmNotEqualUlps32 (x y k : UInt32) : Bool := !glmEqualUlps32 x y k

/-- `int64 DiffULPs <= int MaxULPs`: the `int` is promoted -/
def glmEqualUlps64 (x y : UInt64) (k : UInt32) : Bool :=
  if !(ftNegative64 x == ftNegative64 y) then false
  else (absI64 (x - y)).toInt64 <= k.toInt32.toInt64
def glmNotEqualUlps64 (x y : UInt64) (k : UInt32) : Bool := !glmEqualUlps64 x y k

/-- one component of the vector form (ext/vector_relational.inl:39-67, patched by
`h/C14/fix_vec_equal_ulps_across_zero.diff`):
```
if(a.negative() != b.negative()) {
  int_type const Max = std::numeric_limits<int_type>::max();
  int_type const DistA = a.i & Max;  int_type const DistB = b.i & Max;
  Result[i] = DistA <= MaxULPs[i] && DistB <= MaxULPs[i] - DistA;
} else {
  int_type const DiffULPs = abs(a.i - b.i);
  Result[i] = DiffULPs <= MaxULPs[i];
}
``` -/
def glmEqualUlpsVec32 (x y k : UInt32) : Bool :=
  if !(ftNegative32 x == ftNegative32 y) then
    let mx : UInt32 := 0x7FFFFFFF
    let distA := x &&& mx
    let distB := y &&& mx
    distA.toInt32 <= k.toInt32 && distB.toInt32 <= (k - distA).toInt32
  else (absI32 (x - y)).toInt32 <= k.toInt32
/-- `not_(equal(x, y, MaxULPs))` (l.75-78) -/
def glmNotEqualUlpsVec32 (x y k : UInt32) : Bool := !glmEqualUlpsVec32 x y k

def glmEqualUlpsVec64 (x y : UInt64) (k : UInt32) : Bool :=
  if !(ftNegative64 x == ftNegative64 y) then
    let mx : UInt64 := 0x7FFFFFFFFFFFFFFF
    let distA := x &&& mx
    let distB := y &&& mx
    let k64 : UInt64 := k.toInt32.toInt64.toUInt64
    distA.toInt64 <= k64.toInt64 && distB.toInt64 <= (k64 - distA).toInt64
  else (absI64 (x - y)).toInt64 <= k.toInt32.toInt64
def glmNotEqualUlpsVec64 (x y : UInt64) (k : UInt32) : Bool := !glmEqualUlpsVec64 x y k

/-- one column of the matrix form (ext/matrix_relational.inl:65-71 `all(equal(a[i], b[i], MaxULPs[i]))`,
l.80-86 `any(notEqual(a[i], b[i], MaxULPs[i]))`); a column is the list of its (x, y) pairs -/
def glmEqualUlpsCol32 (col : List (UInt32 × UInt32)) (k : UInt32) : Bool :=
  col.all fun p => glmEqualUlpsVec32 p.1 p.2 k
def glmNotEqualUlpsCol32 (col : List (UInt32 × UInt32)) (k : UInt32) : Bool :=
  col.any fun p => glmNotEqualUlpsVec32 p.1 p.2 k
def glmEqualUlpsCol64 (col : List (UInt64 × UInt64)) (k : UInt32) : Bool :=
  col.all fun p => glmEqualUlpsVec64 p.1 p.2 k
def glmNotEqualUlpsCol64 (col : List (UInt64 × UInt64)) (k : UInt32) : Bool :=
  col.any fun p => glmNotEqualUlpsVec64 p.1 p.2 k

/-! ## epsilon forms

`abs(x - y) <= epsilon` etc.: `x - y` is the hardware subtraction (`subBits…`), `abs` is glm's
`x >= T(0) ? x : -x` (compute_common.hpp:22), then one IEEE comparison.  The functions below take
`d = fl(x − y)` as bits. -/

def subBits32 (x y : UInt32) : UInt32 := (Float32.ofBits x - Float32.ofBits y).toBits
def subBits64 (x y : UInt64) : UInt64 := (Float.ofBits x - Float.ofBits y).toBits

/-- `x >= 0 ? x : -x` on a float: NaN and negative values get their sign flipped, −0 stays −0 -/
def glmAbsF32 (d : UInt32) : UInt32 := if fle32 0 d then d else d ^^^ 0x80000000
def glmAbsF64 (d : UInt64) : UInt64 := if fle64 0 d then d else d ^^^ 0x8000000000000000

/-- `abs(x - y) <= epsilon`: scalar (scalar_relational.inl:11), vector (`lessThanEqual(abs(x - y), Epsilon)`,
vector_relational.inl:17), matrix columns (matrix_relational.inl:30), quaternion
(`lessThanEqual(abs(v), vec4(epsilon))`, quaternion_relational.inl:16 patched by `fix_quat_equal_epsilon.diff`) -/
def glmLeAbs32 (d e : UInt32) : Bool := fle32 (glmAbsF32 d) e
/-- `abs(x - y) > epsilon`: scalar l.17, vector l.29 (`greaterThan`), matrix l.54, quaternion l.32 (patched) -/
def glmGtAbs32 (d e : UInt32) : Bool := flt32 e (glmAbsF32 d)
/-- `abs(x - y) < epsilon`: gtc/epsilon.inl:17, 34, 40, 71 (`lessThan`) -/
def glmLtAbs32 (d e : UInt32) : Bool := flt32 (glmAbsF32 d) e
/-- `abs(x - y) >= epsilon`: gtc/epsilon.inl:46, 58, 64, 78 (`greaterThanEqual`) -/
def glmGeAbs32 (d e : UInt32) : Bool := fle32 e (glmAbsF32 d)
def glmLeAbs64 (d e : UInt64) : Bool := fle64 (glmAbsF64 d) e
def glmGtAbs64 (d e : UInt64) : Bool := flt64 e (glmAbsF64 d)
def glmLtAbs64 (d e : UInt64) : Bool := flt64 (glmAbsF64 d) e
def glmGeAbs64 (d e : UInt64) : Bool := fle64 e (glmAbsF64 d)

def glmEqualEps32 (x y e : UInt32) : Bool := glmLeAbs32 (subBits32 x y) e
def glmNotEqualEps32 (x y e : UInt32) : Bool := glmGtAbs32 (subBits32 x y) e
def glmEpsilonEqual32 (x y e : UInt32) : Bool := glmLtAbs32 (subBits32 x y) e
def glmEpsilonNotEqual32 (x y e : UInt32) : Bool := glmGeAbs32 (subBits32 x y) e
def glmEqualEps64 (x y e : UInt64) : Bool := glmLeAbs64 (subBits64 x y) e
def glmNotEqualEps64 (x y e : UInt64) : Bool := glmGtAbs64 (subBits64 x y) e
def glmEpsilonEqual64 (x y e : UInt64) : Bool := glmLtAbs64 (subBits64 x y) e
def glmEpsilonNotEqual64 (x y e : UInt64) : Bool := glmGeAbs64 (subBits64 x y) e

/-- specification: `|d| <= e`, `|d| > e` as IEEE comparisons of the magnitude -/
def leAbsSpec32 (d e : UInt32) : Bool := fle32 (d &&& 0x7FFFFFFF) e
def gtAbsSpec32 (d e : UInt32) : Bool := flt32 e (d &&& 0x7FFFFFFF)
def leAbsSpec64 (d e : UInt64) : Bool := fle64 (d &&& 0x7FFFFFFFFFFFFFFF) e
def gtAbsSpec64 (d e : UInt64) : Bool := flt64 e (d &&& 0x7FFFFFFFFFFFFFFF)

/-! ## The code before the patches (kept to document the repaired defects; not used by the check) -/

/-- `std::nextafter(x, std::numeric_limits<float>::max())` -/
def preFixNextFloat32 (x : UInt32) : UInt32 := nextafter32 x 0x7F7FFFFF
/-- `std::nextafter(x, std::numeric_limits<float>::min())` — `min()` is 2^-126 -/
def preFixPrevFloat32 (x : UInt32) : UInt32 := nextafter32 x 0x00800000
def preFixNextFloat64 (x : UInt64) : UInt64 := nextafter64 x 0x7FEFFFFFFFFFFFFF
def preFixPrevFloat64 (x : UInt64) : UInt64 := nextafter64 x 0x0010000000000000
/-- `return abs(a.i - b.i);` -/
def preFixFloatDistance32 (x y : UInt32) : UInt32 := absI32 (x - y)
def preFixFloatDistance64 (x y : UInt64) : UInt64 := absI64 (x - y)
/-- `if(a.negative() != b.negative()) Result[i] = a.mantissa() == b.mantissa() && a.exponent() == b.exponent();` -/
def preFixEqualUlpsVec32 (x y k : UInt32) : Bool :=
  if !(ftNegative32 x == ftNegative32 y) then
    ftMantissa32 x == ftMantissa32 y && ftExponent32 x == ftExponent32 y
  else (absI32 (x - y)).toInt32 <= k.toInt32
def preFixEqualUlpsVec64 (x y : UInt64) (k : UInt32) : Bool :=
  if !(ftNegative64 x == ftNegative64 y) then
    ftMantissa64 x == ftMantissa64 y && ftExponent64 x == ftExponent64 y
  else (absI64 (x - y)).toInt64 <= k.toInt32.toInt64

/-! ## exact rational reading of the epsilon comparison (explored by the driver, not proved)

A finite pattern is `(-1)^s · m · 2^e` with integers `m`, `e`; `|x − y| ≤ ε` is then an integer
comparison after scaling to the smallest exponent. -/

def mant32 (x : UInt32) : Int :=
  let f : Nat := (x &&& 0x007FFFFF).toNat
  let ex : Nat := ((x >>> 23) &&& 0xFF).toNat
  let m : Int := if ex == 0 then f else f + 0x00800000
  if sign32 x then -m else m
/-- exponent of the unit in the last place, shifted to be non-negative (bias 1 for subnormals) -/
def expo32 (x : UInt32) : Nat :=
  let ex : Nat := ((x >>> 23) &&& 0xFF).toNat
  if ex == 0 then 0 else ex - 1
/-- `|x − y| ≤ e` in exact arithmetic; `none` unless all three are finite -/
def exactLeAbs32 (x y e : UInt32) : Option Bool :=
  if isFinite32 x && isFinite32 y && isFinite32 e then
    let d : Int := mant32 x * (2 : Int) ^ expo32 x - mant32 y * (2 : Int) ^ expo32 y
    some (decide ((d.natAbs : Int) ≤ mant32 e * (2 : Int) ^ expo32 e))
  else none

def mant64 (x : UInt64) : Int :=
  let f : Nat := (x &&& 0x000FFFFFFFFFFFFF).toNat
  let ex : Nat := ((x >>> 52) &&& 0x7FF).toNat
  let m : Int := if ex == 0 then f else f + 0x0010000000000000
  if sign64 x then -m else m
def expo64 (x : UInt64) : Nat :=
  let ex : Nat := ((x >>> 52) &&& 0x7FF).toNat
  if ex == 0 then 0 else ex - 1
def exactLeAbs64 (x y e : UInt64) : Option Bool :=
  if isFinite64 x && isFinite64 y && isFinite64 e then
    let d : Int := mant64 x * (2 : Int) ^ expo64 x - mant64 y * (2 : Int) ^ expo64 y
    some (decide ((d.natAbs : Int) ≤ mant64 e * (2 : Int) ^ expo64 e))
  else none

end Glm.Hand.C14
