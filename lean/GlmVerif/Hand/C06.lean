/-!
# C06 — hand model of glm's pack/unpack functions, and their independent specification

Model of `/repo/glm/detail/func_packing.inl` (lines 9-183) and `/repo/glm/gtc/packing.inl`
(lines 17-176 bit helpers, 190-286 bit-field unions, 369-950 the functions), statement by statement.
Core Lean only.

Conventions
* C++ `uint8/16/32/64` are `UInt8/16/32/64`, `int8/16/32` are `Int8/16/32`; a `memcpy` between a
  vector of lanes and a wider integer is little-endian (lane 0 = least-significant bits); GCC
  allocates bit-fields LSB-first, so a `union { struct { uint x:a; uint y:b; … } data; uintN pack; }`
  is `x | y<<a | …` with each member truncated to its width on assignment.  Both are platform facts
  (x86-64, GCC/Clang), checked by the correspondence only (DESIGN.md §5.5).
* no tuples: every unpack function is split into one function per component (`_x _y _z _w`);
* the float steps go through the small interface `FOps` with two instances: native `Float32`
  (driver) and the integer soft-float `SF` below (kernel-reducible; theorems).  The word-level
  functions are written once, generically;
* every multi-component pack is `asm… (q x) (q y) …` where `q` is the per-component quantiser and
  `asm…` is the pure integer layout, so that the layout theorems treat `q` as uninterpreted;
* the small-float helpers (`float2packed11`, `packed11ToFloat`, `floatTo11bit`, …) are pure bit
  manipulation: a `float` is carried as its bit pattern `UInt32`; `x == 0.0f`, `isnan`, `isinf`,
  `x < 2^-15`, `x >= 65536.0f` are the corresponding bit tests;
* `static_cast<integer>(f)` for NaN or out-of-range `f` is undefined behaviour in C++ (property C20);
  the model follows what g++ emits on x86-64 (`cvttss2si`: "integer indefinite" `0x80000000…`, whose
  low 8/16/32 bits are 0, so NaN packs to code 0) — a platform fact, see NOTES.md.
-/
namespace Glm.Hand.C06

/-! ## 0. the float interface -/

/-- the float operations the pack/unpack code performs (binary32) -/
class FOps (F : Type) where
  ofBits : UInt32 → F
  toBits : F → UInt32
  /-- `static_cast<float>(i)` for the integer types that occur (all fit `int`); exact below 2^24 -/
  ofInt : Int32 → F
  mul : F → F → F
  div : F → F → F
  /-- `a < b` (false when either is NaN) -/
  lt : F → F → Bool
  /-- `std::round`: to nearest integer, ties away from zero -/
  round : F → F
  /-- `static_cast<float>(u)` for `unsigned int` (round to nearest even above 2^24) -/
  ofU32 : UInt32 → F
  /-- `static_cast<int>(f)` as g++ emits it on x86-64 (`cvttss2si r32`): truncation; NaN and values
  outside `int` (undefined behaviour in C++) give the "integer indefinite" `0x80000000` -/
  toInt : F → Int32
  /-- `cvttss2si r64` (g++ uses it for `static_cast<unsigned int>(f)`, keeping the low 32 bits):
  truncation; NaN / out of range give `0x8000000000000000` -/
  toI64 : F → Int64

section generic
variable {F : Type} [FOps F]
open FOps

/-- `glm::max(x, y)` = `(x < y) ? y : x`  (func_common.inl:30-35) -/
def fmax (x y : F) : F := if lt x y then y else x
/-- `glm::min(x, y)` = `(y < x) ? y : x`  (func_common.inl:17-21) -/
def fmin (x y : F) : F := if lt y x then y else x
/-- `glm::clamp(x, lo, hi)` = `min(max(x, lo), hi)`  (func_common.inl:649-653) -/
def fclamp (x lo hi : F) : F := fmin (fmax x lo) hi

def f0 : F := ofBits 0x00000000    -- 0.0f
def f1 : F := ofBits 0x3f800000    -- 1.0f
def fm1 : F := ofBits 0xbf800000   -- -1.0f

/-- `round(clamp(v, 0.0f, 1.0f) * n)` -/
def qUnorm (n v : F) : F := round (mul (fclamp v f0 f1) n)
/-- `round(clamp(v, -1.0f, 1.0f) * n)` -/
def qSnorm (n v : F) : F := round (mul (fclamp v fm1 f1) n)

/-- narrowing conversions `static_cast<T>(float)` (g++: `cvttss2si` then truncation) -/
def toU8 (x : F) : UInt8 := (toInt x).toUInt32.toUInt8
def toU16 (x : F) : UInt16 := (toInt x).toUInt32.toUInt16
def toU32 (x : F) : UInt32 := (toI64 x).toUInt64.toUInt32
def toI8 (x : F) : Int8 := (toInt x).toInt8
def toI16 (x : F) : Int16 := (toInt x).toInt16
/-- widening conversions to float -/
def ofU8 (b : UInt8) : F := ofInt b.toUInt32.toInt32
def ofU16 (h : UInt16) : F := ofInt h.toUInt32.toInt32
def ofI8 (b : Int8) : F := ofInt b.toInt32
def ofI16 (h : Int16) : F := ofInt h.toInt32

/-! literal constants of the source (bit patterns as g++ converts the decimal literals; the correspondence compares: `unpack…(1)` is the constant itself) -/
/-- `0.0039215686274509803921568627451f` and `static_cast<float>(0.0039215686274509803921568627451)` -/
def c255 : F := ofBits 0x3b808081
/-- `0.00787401574803149606299212598425f` (gtc) and `0.0078740157480315f` (core): the same float -/
def c127 : F := ofBits 0x3c010204
/-- `1.5259021896696421759365224689097e-5f` -/
def c65535 : F := ofBits 0x37800080
/-- `3.0518509475997192297128208258309e-5f` -/
def c32767 : F := ofBits 0x38000100
/-- `1.f / n` (folded by the compiler or evaluated at run time: correctly rounded either way) -/
def recip (n : Int32) : F := div f1 (ofInt n)

/-! per-field scalar quantisers and de-quantisers (the expression each source line applies to one
component) -/
def qU8 (v : F) : UInt8 := toU8 (qUnorm (ofInt 255) v)
def qU16 (v : F) : UInt16 := toU16 (qUnorm (ofInt 65535) v)
def qS8 (v : F) : Int8 := toI8 (qSnorm (ofInt 127) v)
def qS16 (v : F) : Int16 := toI16 (qSnorm (ofInt 32767) v)
/-- `uvec/u32vec(round(clamp(v,0,1) * n))` component -/
def qUn (n : Int32) (v : F) : UInt32 := toU32 (qUnorm (ofInt n) v)
/-- `ivec4(round(clamp(v,-1,1) * n))` component -/
def qSn (n : Int32) (v : F) : Int32 := toInt (qSnorm (ofInt n) v)
def uU8 (b : UInt8) : F := mul (ofU8 b) c255
def uU16 (h : UInt16) : F := mul (ofU16 h) c65535
def uS8 (b : Int8) : F := fclamp (mul (ofI8 b) c127) fm1 f1
def uS16 (h : Int16) : F := fclamp (mul (ofI16 h) c32767) fm1 f1
/-- `float(field) * (1.f / n)` -/
def uUn (n : Int32) (c : UInt32) : F := mul (ofInt c.toInt32) (recip n)
/-- `clamp(float(field) * (1.f / n), -1, 1)` -/
def uSn (n : Int32) (c : Int32) : F := fclamp (mul (ofInt c) (recip n)) fm1 f1
/-- same with the literal factor `1.f` of the 1/2-bit `w` fields -/
def uU1 (c : UInt32) : F := mul (ofInt c.toInt32) f1
def uS1 (c : Int32) : F := fclamp (mul (ofInt c) f1) fm1 f1
end generic

/-! ## 1. integer layouts (lane order of `memcpy`/unions, bit-field unions) -/

/-- `union { unsigned short in[2]; uint out; }` / `memcpy` of 2 16-bit lanes -/
def asm2x16 (a b : UInt16) : UInt32 := a.toUInt32 ||| (b.toUInt32 <<< 16)
def lane2x16_0 (p : UInt32) : UInt16 := p.toUInt16
def lane2x16_1 (p : UInt32) : UInt16 := (p >>> 16).toUInt16
/-- 4 byte lanes in a 32-bit word -/
def asm4x8 (a b c d : UInt8) : UInt32 :=
  a.toUInt32 ||| (b.toUInt32 <<< 8) ||| (c.toUInt32 <<< 16) ||| (d.toUInt32 <<< 24)
def lane4x8_0 (p : UInt32) : UInt8 := p.toUInt8
def lane4x8_1 (p : UInt32) : UInt8 := (p >>> 8).toUInt8
def lane4x8_2 (p : UInt32) : UInt8 := (p >>> 16).toUInt8
def lane4x8_3 (p : UInt32) : UInt8 := (p >>> 24).toUInt8
/-- 2 byte lanes in a 16-bit word -/
def asm2x8 (a b : UInt8) : UInt16 := a.toUInt16 ||| (b.toUInt16 <<< 8)
def lane2x8_0 (p : UInt16) : UInt8 := p.toUInt8
def lane2x8_1 (p : UInt16) : UInt8 := (p >>> 8).toUInt8
/-- 4 16-bit lanes in a 64-bit word -/
def asm4x16 (a b c d : UInt16) : UInt64 :=
  a.toUInt64 ||| (b.toUInt64 <<< 16) ||| (c.toUInt64 <<< 32) ||| (d.toUInt64 <<< 48)
def lane4x16_0 (p : UInt64) : UInt16 := p.toUInt16
def lane4x16_1 (p : UInt64) : UInt16 := (p >>> 16).toUInt16
def lane4x16_2 (p : UInt64) : UInt16 := (p >>> 32).toUInt16
def lane4x16_3 (p : UInt64) : UInt16 := (p >>> 48).toUInt16
/-- 2 32-bit lanes in a 64-bit word -/
def asm2x32 (a b : UInt32) : UInt64 := a.toUInt64 ||| (b.toUInt64 <<< 32)
def lane2x32_0 (p : UInt64) : UInt32 := p.toUInt32
def lane2x32_1 (p : UInt64) : UInt32 := (p >>> 32).toUInt32

/-- `union u4u4 { struct { uint x:4; uint y:4; } data; uint8 pack; }`  (packing.inl:201-209) -/
def asm_u4u4 (x y : UInt32) : UInt8 :=
  let w : UInt32 := (x &&& 0xf) ||| ((y &&& 0xf) <<< (4 : UInt32))
  w.toUInt8
def fld_u4u4_x (p : UInt8) : UInt32 := p.toUInt32 &&& 0xf
def fld_u4u4_y (p : UInt8) : UInt32 := (p.toUInt32 >>> (4 : UInt32)) &&& 0xf
/-- `union u4u4u4u4`  (packing.inl:211-221) -/
def asm_u4u4u4u4 (x y z w : UInt32) : UInt16 :=
  let r : UInt32 := (x &&& 0xf) ||| ((y &&& 0xf) <<< (4 : UInt32)) ||| ((z &&& 0xf) <<< (8 : UInt32)) ||| ((w &&& 0xf) <<< (12 : UInt32))
  r.toUInt16
def fld_u4x4_x (p : UInt16) : UInt32 := p.toUInt32 &&& 0xf
def fld_u4x4_y (p : UInt16) : UInt32 := (p.toUInt32 >>> (4 : UInt32)) &&& 0xf
def fld_u4x4_z (p : UInt16) : UInt32 := (p.toUInt32 >>> (8 : UInt32)) &&& 0xf
def fld_u4x4_w (p : UInt16) : UInt32 := (p.toUInt32 >>> (12 : UInt32)) &&& 0xf
/-- `union u5u6u5`  (packing.inl:223-232) -/
def asm_u5u6u5 (x y z : UInt32) : UInt16 :=
  let r : UInt32 := (x &&& 0x1f) ||| ((y &&& 0x3f) <<< (5 : UInt32)) ||| ((z &&& 0x1f) <<< (11 : UInt32))
  r.toUInt16
def fld_u565_x (p : UInt16) : UInt32 := p.toUInt32 &&& 0x1f
def fld_u565_y (p : UInt16) : UInt32 := (p.toUInt32 >>> (5 : UInt32)) &&& 0x3f
def fld_u565_z (p : UInt16) : UInt32 := (p.toUInt32 >>> (11 : UInt32)) &&& 0x1f
/-- `union u5u5u5u1`  (packing.inl:234-244) -/
def asm_u5u5u5u1 (x y z w : UInt32) : UInt16 :=
  let r : UInt32 := (x &&& 0x1f) ||| ((y &&& 0x1f) <<< (5 : UInt32)) ||| ((z &&& 0x1f) <<< (10 : UInt32)) ||| ((w &&& 0x1) <<< (15 : UInt32))
  r.toUInt16
def fld_u5551_x (p : UInt16) : UInt32 := p.toUInt32 &&& 0x1f
def fld_u5551_y (p : UInt16) : UInt32 := (p.toUInt32 >>> (5 : UInt32)) &&& 0x1f
def fld_u5551_z (p : UInt16) : UInt32 := (p.toUInt32 >>> (10 : UInt32)) &&& 0x1f
def fld_u5551_w (p : UInt16) : UInt32 := (p.toUInt32 >>> (15 : UInt32)) &&& 0x1
/-- `union u3u3u2`  (packing.inl:190-199) -/
def asm_u3u3u2 (x y z : UInt32) : UInt8 :=
  let r : UInt32 := (x &&& 0x7) ||| ((y &&& 0x7) <<< (3 : UInt32)) ||| ((z &&& 0x3) <<< (6 : UInt32))
  r.toUInt8
def fld_u332_x (p : UInt8) : UInt32 := p.toUInt32 &&& 0x7
def fld_u332_y (p : UInt8) : UInt32 := (p.toUInt32 >>> (3 : UInt32)) &&& 0x7
def fld_u332_z (p : UInt8) : UInt32 := (p.toUInt32 >>> (6 : UInt32)) &&& 0x3
/-- `union u10u10u10u2`  (packing.inl:252-262) -/
def asm_u10u10u10u2 (x y z w : UInt32) : UInt32 :=
  (x &&& 0x3ff) ||| ((y &&& 0x3ff) <<< (10 : UInt32)) ||| ((z &&& 0x3ff) <<< (20 : UInt32)) ||| ((w &&& 0x3) <<< (30 : UInt32))
def fld_u1010102_x (p : UInt32) : UInt32 := p &&& 0x3ff
def fld_u1010102_y (p : UInt32) : UInt32 := (p >>> (10 : UInt32)) &&& 0x3ff
def fld_u1010102_z (p : UInt32) : UInt32 := (p >>> (20 : UInt32)) &&& 0x3ff
def fld_u1010102_w (p : UInt32) : UInt32 := (p >>> (30 : UInt32)) &&& 0x3
/-- `union i10i10i10i2` (packing.inl:264-274): assignment truncates the `int` to the field width,
reading sign-extends (`<<` then arithmetic `>>`) -/
def asm_i10i10i10i2 (x y z w : Int32) : UInt32 :=
  asm_u10u10u10u2 x.toUInt32 y.toUInt32 z.toUInt32 w.toUInt32
def fld_i1010102_x (p : UInt32) : Int32 := (p <<< 22).toInt32 >>> 22
def fld_i1010102_y (p : UInt32) : Int32 := (p <<< 12).toInt32 >>> 22
def fld_i1010102_z (p : UInt32) : Int32 := (p <<< 2).toInt32 >>> 22
def fld_i1010102_w (p : UInt32) : Int32 := p.toInt32 >>> 30
/-- `union u9u9u9e5`  (packing.inl:276-286) -/
def asm_u9u9u9e5 (x y z w : UInt32) : UInt32 :=
  (x &&& 0x1ff) ||| ((y &&& 0x1ff) <<< (9 : UInt32)) ||| ((z &&& 0x1ff) <<< (18 : UInt32)) ||| ((w &&& 0x1f) <<< (27 : UInt32))
def fld_u9995_x (p : UInt32) : UInt32 := p &&& 0x1ff
def fld_u9995_y (p : UInt32) : UInt32 := (p >>> (9 : UInt32)) &&& 0x1ff
def fld_u9995_z (p : UInt32) : UInt32 := (p >>> (18 : UInt32)) &&& 0x1ff
def fld_u9995_w (p : UInt32) : UInt32 := (p >>> (27 : UInt32)) &&& 0x1f

/-! ## 2. `glm/detail/func_packing.inl` -/
section core
variable {F : Type} [FOps F]

/-- `packUnorm2x16` (l.9-23) -/
def packUnorm2x16 (x y : F) : UInt32 := asm2x16 (qU16 x) (qU16 y)
/-- `unpackUnorm2x16` (l.25-36) -/
def unpackUnorm2x16_x (p : UInt32) : F := uU16 (lane2x16_0 p)
def unpackUnorm2x16_y (p : UInt32) : F := uU16 (lane2x16_1 p)
/-- `packSnorm2x16` (l.38-52): `signed short in[2]` -/
def packSnorm2x16 (x y : F) : UInt32 := asm2x16 (qS16 x).toUInt16 (qS16 y).toUInt16
/-- `unpackSnorm2x16` (l.54-65) -/
def unpackSnorm2x16_x (p : UInt32) : F := uS16 (lane2x16_0 p).toInt16
def unpackSnorm2x16_y (p : UInt32) : F := uS16 (lane2x16_1 p).toInt16
/-- `packUnorm4x8` (l.67-83) -/
def packUnorm4x8 (x y z w : F) : UInt32 := asm4x8 (qU8 x) (qU8 y) (qU8 z) (qU8 w)
/-- `unpackUnorm4x8` (l.85-96) -/
def unpackUnorm4x8_x (p : UInt32) : F := uU8 (lane4x8_0 p)
def unpackUnorm4x8_y (p : UInt32) : F := uU8 (lane4x8_1 p)
def unpackUnorm4x8_z (p : UInt32) : F := uU8 (lane4x8_2 p)
def unpackUnorm4x8_w (p : UInt32) : F := uU8 (lane4x8_3 p)
/-- `packSnorm4x8` (l.98-114) -/
def packSnorm4x8 (x y z w : F) : UInt32 :=
  asm4x8 (qS8 x).toUInt8 (qS8 y).toUInt8 (qS8 z).toUInt8 (qS8 w).toUInt8
/-- `unpackSnorm4x8` (l.116-127) -/
def unpackSnorm4x8_x (p : UInt32) : F := uS8 (lane4x8_0 p).toInt8
def unpackSnorm4x8_y (p : UInt32) : F := uS8 (lane4x8_1 p).toInt8
def unpackSnorm4x8_z (p : UInt32) : F := uS8 (lane4x8_2 p).toInt8
def unpackSnorm4x8_w (p : UInt32) : F := uS8 (lane4x8_3 p).toInt8
end core

/-- `packDouble2x32` (l.129-141): the `double` as its bit pattern -/
def packDouble2x32 (x y : UInt32) : UInt64 := asm2x32 x y
/-- `unpackDouble2x32` (l.143-154) -/
def unpackDouble2x32_x (v : UInt64) : UInt32 := lane2x32_0 v
def unpackDouble2x32_y (v : UInt64) : UInt32 := lane2x32_1 v

/-- `packHalf2x16` (l.156-168) over an abstract per-component conversion `cvt = detail::toFloat16`
(modelled in `Hand/C07.lean`); floats as bit patterns -/
def packHalf2x16 (cvt : UInt32 → UInt16) (x y : UInt32) : UInt32 := asm2x16 (cvt x) (cvt y)
/-- `unpackHalf2x16` (l.170-183) over `cvt = detail::toFloat32` -/
def unpackHalf2x16_x (cvt : UInt16 → UInt32) (v : UInt32) : UInt32 := cvt (lane2x16_0 v)
def unpackHalf2x16_y (cvt : UInt16 → UInt32) (v : UInt32) : UInt32 := cvt (lane2x16_1 v)

/-! ## 3. `glm/gtc/packing.inl`: normalised formats -/
section gtc
variable {F : Type} [FOps F]

/-- `packUnorm1x8` (l.369-372) / `unpackUnorm1x8` (l.374-378) -/
def packUnorm1x8 (v : F) : UInt8 := qU8 v
def unpackUnorm1x8 (p : UInt8) : F := uU8 p
/-- `packUnorm2x8` (l.380-387) / `unpackUnorm2x8` (l.389-394) -/
def packUnorm2x8 (x y : F) : UInt16 := asm2x8 (qU8 x) (qU8 y)
def unpackUnorm2x8_x (p : UInt16) : F := uU8 (lane2x8_0 p)
def unpackUnorm2x8_y (p : UInt16) : F := uU8 (lane2x8_1 p)
/-- `packSnorm1x8` (l.396-402) / `unpackSnorm1x8` (l.404-411) -/
def packSnorm1x8 (v : F) : UInt8 := (qS8 v).toUInt8
def unpackSnorm1x8 (p : UInt8) : F := uS8 p.toInt8
/-- `packSnorm2x8` (l.413-419) / `unpackSnorm2x8` (l.421-428) -/
def packSnorm2x8 (x y : F) : UInt16 := asm2x8 (qS8 x).toUInt8 (qS8 y).toUInt8
def unpackSnorm2x8_x (p : UInt16) : F := uS8 (lane2x8_0 p).toInt8
def unpackSnorm2x8_y (p : UInt16) : F := uS8 (lane2x8_1 p).toInt8
/-- `packUnorm1x16` (l.430-433) / `unpackUnorm1x16` (l.435-439) -/
def packUnorm1x16 (v : F) : UInt16 := qU16 v
def unpackUnorm1x16 (p : UInt16) : F := uU16 p
/-- `packUnorm4x16` (l.441-447) / `unpackUnorm4x16` (l.449-454) -/
def packUnorm4x16 (x y z w : F) : UInt64 := asm4x16 (qU16 x) (qU16 y) (qU16 z) (qU16 w)
def unpackUnorm4x16_x (p : UInt64) : F := uU16 (lane4x16_0 p)
def unpackUnorm4x16_y (p : UInt64) : F := uU16 (lane4x16_1 p)
def unpackUnorm4x16_z (p : UInt64) : F := uU16 (lane4x16_2 p)
def unpackUnorm4x16_w (p : UInt64) : F := uU16 (lane4x16_3 p)
/-- `packSnorm1x16` (l.456-462) / `unpackSnorm1x16` (l.464-471) -/
def packSnorm1x16 (v : F) : UInt16 := (qS16 v).toUInt16
def unpackSnorm1x16 (p : UInt16) : F := uS16 p.toInt16
/-- `packSnorm4x16` (l.473-479) / `unpackSnorm4x16` (l.481-488) -/
def packSnorm4x16 (x y z w : F) : UInt64 :=
  asm4x16 (qS16 x).toUInt16 (qS16 y).toUInt16 (qS16 z).toUInt16 (qS16 w).toUInt16
def unpackSnorm4x16_x (p : UInt64) : F := uS16 (lane4x16_0 p).toInt16
def unpackSnorm4x16_y (p : UInt64) : F := uS16 (lane4x16_1 p).toInt16
def unpackSnorm4x16_z (p : UInt64) : F := uS16 (lane4x16_2 p).toInt16
def unpackSnorm4x16_w (p : UInt64) : F := uS16 (lane4x16_3 p).toInt16

/-- `packSnorm3x10_1x2` (l.570-580): `ivec4(round(clamp(v,-1,1) * vec4(511,511,511,1)))` -/
def packSnorm3x10_1x2 (x y z w : F) : UInt32 :=
  asm_i10i10i10i2 (qSn 511 x) (qSn 511 y) (qSn 511 z) (qSn 1 w)
/-- `unpackSnorm3x10_1x2` (l.582-590) -/
def unpackSnorm3x10_1x2_x (v : UInt32) : F := uSn 511 (fld_i1010102_x v)
def unpackSnorm3x10_1x2_y (v : UInt32) : F := uSn 511 (fld_i1010102_y v)
def unpackSnorm3x10_1x2_z (v : UInt32) : F := uSn 511 (fld_i1010102_z v)
def unpackSnorm3x10_1x2_w (v : UInt32) : F := uS1 (fld_i1010102_w v)
/-- `packUnorm3x10_1x2` (l.592-602): `uvec4(round(clamp(v,0,1) * vec4(1023,1023,1023,3)))` -/
def packUnorm3x10_1x2 (x y z w : F) : UInt32 :=
  asm_u10u10u10u2 (qUn 1023 x) (qUn 1023 y) (qUn 1023 z) (qUn 3 w)
/-- `unpackUnorm3x10_1x2` (l.604-611) -/
def unpackUnorm3x10_1x2_x (v : UInt32) : F := uUn 1023 (fld_u1010102_x v)
def unpackUnorm3x10_1x2_y (v : UInt32) : F := uUn 1023 (fld_u1010102_y v)
def unpackUnorm3x10_1x2_z (v : UInt32) : F := uUn 1023 (fld_u1010102_z v)
def unpackUnorm3x10_1x2_w (v : UInt32) : F := uUn 3 (fld_u1010102_w v)

/-- `packUnorm2x4` (l.721-728) / `unpackUnorm2x4` (l.730-736) -/
def packUnorm2x4 (x y : F) : UInt8 := asm_u4u4 (qUn 15 x) (qUn 15 y)
def unpackUnorm2x4_x (v : UInt8) : F := uUn 15 (fld_u4u4_x v)
def unpackUnorm2x4_y (v : UInt8) : F := uUn 15 (fld_u4u4_y v)
/-- `packUnorm4x4` (l.738-747) / `unpackUnorm4x4` (l.749-755) -/
def packUnorm4x4 (x y z w : F) : UInt16 := asm_u4u4u4u4 (qUn 15 x) (qUn 15 y) (qUn 15 z) (qUn 15 w)
def unpackUnorm4x4_x (v : UInt16) : F := uUn 15 (fld_u4x4_x v)
def unpackUnorm4x4_y (v : UInt16) : F := uUn 15 (fld_u4x4_y v)
def unpackUnorm4x4_z (v : UInt16) : F := uUn 15 (fld_u4x4_z v)
def unpackUnorm4x4_w (v : UInt16) : F := uUn 15 (fld_u4x4_w v)
/-- `packUnorm1x5_1x6_1x5` (l.757-765) / unpack (l.767-773) -/
def packUnorm1x5_1x6_1x5 (x y z : F) : UInt16 := asm_u5u6u5 (qUn 31 x) (qUn 63 y) (qUn 31 z)
def unpackUnorm1x5_1x6_1x5_x (v : UInt16) : F := uUn 31 (fld_u565_x v)
def unpackUnorm1x5_1x6_1x5_y (v : UInt16) : F := uUn 63 (fld_u565_y v)
def unpackUnorm1x5_1x6_1x5_z (v : UInt16) : F := uUn 31 (fld_u565_z v)
/-- `packUnorm3x5_1x1` (l.775-784) / unpack (l.786-792) -/
def packUnorm3x5_1x1 (x y z w : F) : UInt16 := asm_u5u5u5u1 (qUn 31 x) (qUn 31 y) (qUn 31 z) (qUn 1 w)
def unpackUnorm3x5_1x1_x (v : UInt16) : F := uUn 31 (fld_u5551_x v)
def unpackUnorm3x5_1x1_y (v : UInt16) : F := uUn 31 (fld_u5551_y v)
def unpackUnorm3x5_1x1_z (v : UInt16) : F := uUn 31 (fld_u5551_z v)
def unpackUnorm3x5_1x1_w (v : UInt16) : F := uU1 (fld_u5551_w v)
/-- `packUnorm2x3_1x2` (l.794-802) / unpack (l.804-810) -/
def packUnorm2x3_1x2 (x y z : F) : UInt8 := asm_u3u3u2 (qUn 7 x) (qUn 7 y) (qUn 3 z)
def unpackUnorm2x3_1x2_x (v : UInt8) : F := uUn 7 (fld_u332_x v)
def unpackUnorm2x3_1x2_y (v : UInt8) : F := uUn 7 (fld_u332_y v)
def unpackUnorm2x3_1x2_z (v : UInt8) : F := uUn 3 (fld_u332_z v)

/-! templates `packUnorm<uintType>` (l.685-692), `unpackUnorm<floatType>` (l.694-701),
`packSnorm<intType>` (l.703-710), `unpackSnorm<floatType>` (l.712-719), per component, at
`uint8/uint16/int8/int16` × `float`.  The scale is `1 / float(max)` computed, not a literal. -/
def tPackUnorm8 (v : F) : UInt8 := toU8 (qUnorm (ofU8 255) v)
def tUnpackUnorm8 (c : UInt8) : F := FOps.mul (ofU8 c) (FOps.div f1 (ofU8 255))
def tPackUnorm16 (v : F) : UInt16 := toU16 (qUnorm (ofU16 65535) v)
def tUnpackUnorm16 (c : UInt16) : F := FOps.mul (ofU16 c) (FOps.div f1 (ofU16 65535))
def tPackSnorm8 (v : F) : Int8 := toI8 (qSnorm (ofI8 127) v)
def tUnpackSnorm8 (c : Int8) : F := fclamp (FOps.mul (ofI8 c) (FOps.div f1 (ofI8 127))) fm1 f1
def tPackSnorm16 (v : F) : Int16 := toI16 (qSnorm (ofI16 32767) v)
/-- the same templates at `uint32`/`int32` × `float`: `float(max)` is `2^32` / `2^31`, so `v = 1`
yields an out-of-range conversion (known finding, see `Props/C06.lean`) -/
def tPackUnorm32 (v : F) : UInt32 := toU32 (qUnorm (FOps.ofU32 0xFFFFFFFF) v)
def tPackSnorm32 (v : F) : Int32 := FOps.toInt (qSnorm (FOps.ofInt 0x7FFFFFFF) v)
def tUnpackSnorm16 (c : Int16) : F := fclamp (FOps.mul (ofI16 c) (FOps.div f1 (ofI16 32767))) fm1 f1
end gtc

/-! ## 4. half packs (layout only; the conversion is C07's) and integer packs -/

/-- `packHalf1x16` (l.490-496) / `unpackHalf1x16` (l.498-503) -/
def packHalf1x16 (cvt : UInt32 → UInt16) (v : UInt32) : UInt16 := cvt v
def unpackHalf1x16 (cvt : UInt16 → UInt32) (p : UInt16) : UInt32 := cvt p
/-- `packHalf4x16` (l.505-515) / `unpackHalf4x16` (l.517-526) -/
def packHalf4x16 (cvt : UInt32 → UInt16) (x y z w : UInt32) : UInt64 :=
  asm4x16 (cvt x) (cvt y) (cvt z) (cvt w)
def unpackHalf4x16_x (cvt : UInt16 → UInt32) (v : UInt64) : UInt32 := cvt (lane4x16_0 v)
def unpackHalf4x16_y (cvt : UInt16 → UInt32) (v : UInt64) : UInt32 := cvt (lane4x16_1 v)
def unpackHalf4x16_z (cvt : UInt16 → UInt32) (v : UInt64) : UInt32 := cvt (lane4x16_2 v)
def unpackHalf4x16_w (cvt : UInt16 → UInt32) (v : UInt64) : UInt32 := cvt (lane4x16_3 v)

/-- `packI3x10_1x2` (l.528-536) / `unpackI3x10_1x2` (l.538-547) -/
def packI3x10_1x2 (x y z w : Int32) : UInt32 := asm_i10i10i10i2 x y z w
def unpackI3x10_1x2_x (v : UInt32) : Int32 := fld_i1010102_x v
def unpackI3x10_1x2_y (v : UInt32) : Int32 := fld_i1010102_y v
def unpackI3x10_1x2_z (v : UInt32) : Int32 := fld_i1010102_z v
def unpackI3x10_1x2_w (v : UInt32) : Int32 := fld_i1010102_w v
/-- `packU3x10_1x2` (l.549-557) / `unpackU3x10_1x2` (l.559-568) -/
def packU3x10_1x2 (x y z w : UInt32) : UInt32 := asm_u10u10u10u2 x y z w
def unpackU3x10_1x2_x (v : UInt32) : UInt32 := fld_u1010102_x v
def unpackU3x10_1x2_y (v : UInt32) : UInt32 := fld_u1010102_y v
def unpackU3x10_1x2_z (v : UInt32) : UInt32 := fld_u1010102_z v
def unpackU3x10_1x2_w (v : UInt32) : UInt32 := fld_u1010102_w v

/-- `packInt2x8` (l.812-817) / `unpackInt2x8` (l.819-824) -/
def packInt2x8 (x y : Int8) : Int16 := (asm2x8 x.toUInt8 y.toUInt8).toInt16
def unpackInt2x8_x (p : Int16) : Int8 := (lane2x8_0 p.toUInt16).toInt8
def unpackInt2x8_y (p : Int16) : Int8 := (lane2x8_1 p.toUInt16).toInt8
/-- `packUint2x8` (l.826-831) / `unpackUint2x8` (l.833-838) -/
def packUint2x8 (x y : UInt8) : UInt16 := asm2x8 x y
def unpackUint2x8_x (p : UInt16) : UInt8 := lane2x8_0 p
def unpackUint2x8_y (p : UInt16) : UInt8 := lane2x8_1 p
/-- `packInt4x8` (l.840-845) / `unpackInt4x8` (l.847-852) -/
def packInt4x8 (x y z w : Int8) : Int32 := (asm4x8 x.toUInt8 y.toUInt8 z.toUInt8 w.toUInt8).toInt32
def unpackInt4x8_x (p : Int32) : Int8 := (lane4x8_0 p.toUInt32).toInt8
def unpackInt4x8_y (p : Int32) : Int8 := (lane4x8_1 p.toUInt32).toInt8
def unpackInt4x8_z (p : Int32) : Int8 := (lane4x8_2 p.toUInt32).toInt8
def unpackInt4x8_w (p : Int32) : Int8 := (lane4x8_3 p.toUInt32).toInt8
/-- `packUint4x8` (l.854-859) / `unpackUint4x8` (l.861-866) -/
def packUint4x8 (x y z w : UInt8) : UInt32 := asm4x8 x y z w
def unpackUint4x8_x (p : UInt32) : UInt8 := lane4x8_0 p
def unpackUint4x8_y (p : UInt32) : UInt8 := lane4x8_1 p
def unpackUint4x8_z (p : UInt32) : UInt8 := lane4x8_2 p
def unpackUint4x8_w (p : UInt32) : UInt8 := lane4x8_3 p
/-- `packInt2x16` (l.868-873) / `unpackInt2x16` (l.875-880) -/
def packInt2x16 (x y : Int16) : Int32 := (asm2x16 x.toUInt16 y.toUInt16).toInt32
def unpackInt2x16_x (p : Int32) : Int16 := (lane2x16_0 p.toUInt32).toInt16
def unpackInt2x16_y (p : Int32) : Int16 := (lane2x16_1 p.toUInt32).toInt16
/-- `packInt4x16` (l.882-887) / `unpackInt4x16` (l.889-894) -/
def packInt4x16 (x y z w : Int16) : Int64 :=
  (asm4x16 x.toUInt16 y.toUInt16 z.toUInt16 w.toUInt16).toInt64
def unpackInt4x16_x (p : Int64) : Int16 := (lane4x16_0 p.toUInt64).toInt16
def unpackInt4x16_y (p : Int64) : Int16 := (lane4x16_1 p.toUInt64).toInt16
def unpackInt4x16_z (p : Int64) : Int16 := (lane4x16_2 p.toUInt64).toInt16
def unpackInt4x16_w (p : Int64) : Int16 := (lane4x16_3 p.toUInt64).toInt16
/-- `packUint2x16` (l.896-901) / `unpackUint2x16` (l.903-908) -/
def packUint2x16 (x y : UInt16) : UInt32 := asm2x16 x y
def unpackUint2x16_x (p : UInt32) : UInt16 := lane2x16_0 p
def unpackUint2x16_y (p : UInt32) : UInt16 := lane2x16_1 p
/-- `packUint4x16` (l.910-915) / `unpackUint4x16` (l.917-922) -/
def packUint4x16 (x y z w : UInt16) : UInt64 := asm4x16 x y z w
def unpackUint4x16_x (p : UInt64) : UInt16 := lane4x16_0 p
def unpackUint4x16_y (p : UInt64) : UInt16 := lane4x16_1 p
def unpackUint4x16_z (p : UInt64) : UInt16 := lane4x16_2 p
def unpackUint4x16_w (p : UInt64) : UInt16 := lane4x16_3 p
/-- `packInt2x32` (l.924-929) / `unpackInt2x32` (l.931-936) -/
def packInt2x32 (x y : Int32) : Int64 := (asm2x32 x.toUInt32 y.toUInt32).toInt64
def unpackInt2x32_x (p : Int64) : Int32 := (lane2x32_0 p.toUInt64).toInt32
def unpackInt2x32_y (p : Int64) : Int32 := (lane2x32_1 p.toUInt64).toInt32
/-- `packUint2x32` (l.938-943) / `unpackUint2x32` (l.945-950) -/
def packUint2x32 (x y : UInt32) : UInt64 := asm2x32 x y
def unpackUint2x32_x (p : UInt64) : UInt32 := lane2x32_0 p
def unpackUint2x32_y (p : UInt64) : UInt32 := lane2x32_1 p

/-! ## 5. small floats: `packF2x11_1x10` and its helpers (floats as bit patterns)

This section mirrors the code WITH the three repairs of `h/C06/fix_*.diff` applied
(`fix_f11_f10_decode.diff`: Inf/NaN codes decode to Inf/NaN instead of `~0` = -1.0f, and
`unpackF2x11_1x10` masks each field before the zero/Inf/NaN tests;
`fix_f11_f10_encode_range.diff`: negative and sub-minimum inputs encode to 0, finite inputs above
the largest finite value encode to it, instead of wrapping the exponent modulo 32).  The defective
originals are kept as `Orig.*` and refuted in `Props/C06.lean`. -/

/-- `float2packed11` (l.35-51) -/
def float2packed11 (f : UInt32) : UInt32 :=
  let e : UInt32 := (((f &&& 0x7f800000) - 0x38000000) >>> (17 : UInt32)) &&& 0x07c0   -- exponential
  let m : UInt32 := (f >>> (17 : UInt32)) &&& 0x003f                                   -- Mantissa
  e ||| m
/-- `packed11ToFloat` (l.53-69) -/
def packed11ToFloat (p : UInt32) : UInt32 :=
  let e : UInt32 := (((p &&& 0x07c0) <<< (17 : UInt32)) + 0x38000000) &&& 0x7f800000
  let m : UInt32 := (p &&& 0x003f) <<< (17 : UInt32)
  e ||| m
/-- `float2packed10` (l.71-90) -/
def float2packed10 (f : UInt32) : UInt32 :=
  let e : UInt32 := (((f &&& 0x7f800000) - 0x38000000) >>> (18 : UInt32)) &&& 0x03E0
  let m : UInt32 := (f >>> (18 : UInt32)) &&& 0x001f
  e ||| m
/-- `packed10ToFloat` (l.92-111) -/
def packed10ToFloat (p : UInt32) : UInt32 :=
  let e : UInt32 := (((p &&& 0x03E0) <<< (18 : UInt32)) + 0x38000000) &&& 0x7f800000
  let m : UInt32 := (p &&& 0x001f) <<< (18 : UInt32)
  e ||| m

/-- `x == 0.0f` on the bit pattern -/
def isZeroF (x : UInt32) : Bool := (x &&& 0x7fffffff) == 0
/-- `glm::isnan(x)` -/
def isNaNF (x : UInt32) : Bool := (x &&& 0x7fffffff) > 0x7f800000
/-- `glm::isinf(x)` -/
def isInfF (x : UInt32) : Bool := (x &&& 0x7fffffff) == 0x7f800000
/-- `x < 3.0517578125e-05f` (= 2^-15 = 0x38000000) for a non-NaN, non-zero `x` -/
def ltMinF (x : UInt32) : Bool := !((x &&& 0x80000000) == 0) || (x &&& 0x7fffffff) < 0x38000000
/-- `x >= 65536.0f` (= 0x47800000) for a non-NaN, non-negative `x` -/
def geMaxF (x : UInt32) : Bool := (x &&& 0x7fffffff) ≥ 0x47800000

/-- `floatTo11bit` (l.118-130, repaired) -/
def floatTo11bit (x : UInt32) : UInt32 :=
  if isZeroF x then 0
  else if isNaNF x then ~~~0
  else if ltMinF x then 0                       -- fix: negative / below 2^-15 clamp to zero
  else if isInfF x then ((0x1F : UInt32) <<< 6)
  else if geMaxF x then (((0x1E : UInt32) <<< 6) ||| 0x3F)   -- fix: above the largest finite value clamp to it
  else float2packed11 x
/-- `packed11bitToFloat` (l.132-146, repaired) -/
def packed11bitToFloat (x : UInt32) : UInt32 :=
  if x == 0 then 0
  else if (x &&& (0x1f <<< (6 : UInt32))) == (0x1f <<< (6 : UInt32)) then
    (if !((x &&& 0x3f) == 0) then 0x7fc00000 /- quiet_NaN() -/ else 0x7f800000 /- infinity() -/)
  else packed11ToFloat x
/-- `floatTo10bit` (l.148-160, repaired) -/
def floatTo10bit (x : UInt32) : UInt32 :=
  if isZeroF x then 0
  else if isNaNF x then ~~~0
  else if ltMinF x then 0
  else if isInfF x then ((0x1F : UInt32) <<< 5)
  else if geMaxF x then (((0x1E : UInt32) <<< 5) ||| 0x1F)
  else float2packed10 x
/-- `packed10bitToFloat` (l.162-176, repaired) -/
def packed10bitToFloat (x : UInt32) : UInt32 :=
  if x == 0 then 0
  else if (x &&& (0x1f <<< (5 : UInt32))) == (0x1f <<< (5 : UInt32)) then
    (if !((x &&& 0x1f) == 0) then 0x7fc00000 else 0x7f800000)
  else packed10ToFloat x

/-- the three fields of the word -/
def asmF11F11F10 (a b c : UInt32) : UInt32 :=
  ((a &&& 0x7ff) <<< (0 : UInt32)) ||| ((b &&& 0x7ff) <<< (11 : UInt32)) ||| ((c &&& 0x3ff) <<< (22 : UInt32))
/-- `packF2x11_1x10` (l.613-619) -/
def packF2x11_1x10 (x y z : UInt32) : UInt32 :=
  asmF11F11F10 (floatTo11bit x) (floatTo11bit y) (floatTo10bit z)
/-- `unpackF2x11_1x10` (l.621-627, repaired: each field is masked) -/
def unpackF2x11_1x10_x (v : UInt32) : UInt32 := packed11bitToFloat ((v >>> (0 : UInt32)) &&& 0x7ff)
def unpackF2x11_1x10_y (v : UInt32) : UInt32 := packed11bitToFloat ((v >>> (11 : UInt32)) &&& 0x7ff)
def unpackF2x11_1x10_z (v : UInt32) : UInt32 := packed10bitToFloat ((v >>> (22 : UInt32)) &&& 0x3ff)

/-! the code as it stood before the repairs (for the refutations) -/
namespace Orig
def floatTo11bit (x : UInt32) : UInt32 :=
  if isZeroF x then 0 else if isNaNF x then ~~~0 else if isInfF x then ((0x1F : UInt32) <<< 6) else float2packed11 x
/-- `return ~0;` in a function returning `float` is `-1.0f` -/
def packed11bitToFloat (x : UInt32) : UInt32 :=
  if x == 0 then 0 else if x == 0x7ff then 0xbf800000 else if x == 0x7c0 then 0xbf800000
  else packed11ToFloat x
def floatTo10bit (x : UInt32) : UInt32 :=
  if isZeroF x then 0 else if isNaNF x then ~~~0 else if isInfF x then ((0x1F : UInt32) <<< 5) else float2packed10 x
def packed10bitToFloat (x : UInt32) : UInt32 :=
  if x == 0 then 0 else if x == 0x3ff then 0xbf800000 else if x == 0x3e0 then 0xbf800000
  else packed10ToFloat x
def packF2x11_1x10 (x y z : UInt32) : UInt32 :=
  asmF11F11F10 (floatTo11bit x) (floatTo11bit y) (floatTo10bit z)
def unpackF2x11_1x10_x (v : UInt32) : UInt32 := packed11bitToFloat (v >>> 0)
def unpackF2x11_1x10_y (v : UInt32) : UInt32 := packed11bitToFloat (v >>> 11)
def unpackF2x11_1x10_z (v : UInt32) : UInt32 := packed10bitToFloat (v >>> 22)
end Orig

/-! ## 6. integer soft-float (binary32 on bit patterns held in `Nat`), kernel-reducible -/
namespace Soft
/-! Written in a deliberately primitive style — `bif` on `Nat.ble/Nat.blt/Nat.beq`, `Nat.*` functions
applied directly — because the kernel evaluates these on GMP numbers in a few reduction steps,
whereas `if a ≤ b`/`==` go through `Decidable` instances (measured ≈ 10× slower under
`decide +kernel`).  Compiled natively it is the same code. -/

def expo (b : Nat) : Nat := Nat.mod (Nat.shiftRight b 23) 256
def frac (b : Nat) : Nat := Nat.mod b 8388608
def sgn (b : Nat) : Bool := Nat.beq (Nat.mod (Nat.shiftRight b 31) 2) 1
def mag (b : Nat) : Nat := Nat.mod b 2147483648
def isNaN (b : Nat) : Bool := Nat.blt 2139095040 (mag b)      -- mag > 0x7f800000
def isInf (b : Nat) : Bool := Nat.beq (mag b) 2139095040
/-- a finite pattern denotes `(-1)^sgn * sig * 2^(qexp - 149)` -/
def sig (b : Nat) : Nat := bif Nat.beq (expo b) 0 then frac b else Nat.add 8388608 (frac b)
def qexp (b : Nat) : Nat := bif Nat.beq (expo b) 0 then 0 else Nat.sub (expo b) 1
def withSign (s : Bool) (m : Nat) : Nat := bif s then Nat.add 2147483648 m else m
def qNaN : Nat := 0x7fc00000

/-- `m / 2^sh` rounded to nearest, ties to even -/
def rne (m sh : Nat) : Nat :=
  bif Nat.beq sh 0 then m else
  let q := Nat.shiftRight m sh
  let r := Nat.mod m (Nat.pow 2 sh)
  let h := Nat.pow 2 (Nat.sub sh 1)
  bif Nat.blt h r || (Nat.beq r h && Nat.beq (Nat.mod q 2) 1) then Nat.add q 1 else q

/-- `⌊log2 m⌋` for `0 < m < 2^256` by binary search (comparisons and shifts only; `Nat.log2` is
defined by well-founded recursion, which the kernel does not evaluate efficiently) -/
def ilog2 (m : Nat) : Nat :=
  let r7 := bif Nat.ble 340282366920938463463374607431768211456 m then 128 else 0
  let m := Nat.shiftRight m r7
  let r6 := bif Nat.ble 18446744073709551616 m then 64 else 0
  let m := Nat.shiftRight m r6
  let r5 := bif Nat.ble 4294967296 m then 32 else 0
  let m := Nat.shiftRight m r5
  let r4 := bif Nat.ble 65536 m then 16 else 0
  let m := Nat.shiftRight m r4
  let r3 := bif Nat.ble 256 m then 8 else 0
  let m := Nat.shiftRight m r3
  let r2 := bif Nat.ble 16 m then 4 else 0
  let m := Nat.shiftRight m r2
  let r1 := bif Nat.ble 4 m then 2 else 0
  let m := Nat.shiftRight m r1
  let r0 := bif Nat.ble 2 m then 1 else 0
  Nat.add (Nat.add (Nat.add (Nat.add (Nat.add (Nat.add (Nat.add r7 r6) r5) r4) r3) r2) r1) r0

/-- exponent bias of `roundPack`'s second argument (keeps all exponent arithmetic in `Nat`) -/
def ebias : Nat := 600

/-- magnitude bits of the binary32 nearest (ties to even) to `m * 2^(eb - ebias)`; overflow to
infinity.  Requires `m < 2^256`, `eb ≥ 200`. -/
def roundPack (m : Nat) (eb : Nat) : Nat :=
  bif Nat.beq m 0 then 0 else
  let E := Nat.add (ilog2 m) eb                  -- m*2^e ∈ [2^E, 2^(E+1))   (biased)
  let q := bif Nat.blt E 474 then 451 else Nat.sub E 23   -- unit exponent of the result, ≥ -149 (biased: 451)
  let n : Nat := bif Nat.ble q eb then Nat.shiftLeft m (Nat.sub eb q) else rne m (Nat.sub q eb)
  let b : Nat := Nat.add (Nat.mul (Nat.sub q 451) 8388608) n   -- (be-1)·2^23 + (2^23 + frac); carries propagate
  bif Nat.ble 2139095040 b then 2139095040 else b

def ofInt (i : Int) : Nat :=
  match i with
  | Int.ofNat n => roundPack n ebias
  | Int.negSucc n => withSign true (roundPack (Nat.succ n) ebias)

def mul (a b : Nat) : Nat :=
  bif isNaN a || isNaN b then qNaN
  else
    let s := xor (sgn a) (sgn b)
    bif isInf a || isInf b then
      (bif Nat.beq (mag a) 0 || Nat.beq (mag b) 0 then qNaN else withSign s 2139095040)
    else withSign s (roundPack (Nat.mul (sig a) (sig b)) (Nat.add (Nat.add (qexp a) (qexp b)) 302))

def div (a b : Nat) : Nat :=
  bif isNaN a || isNaN b then qNaN
  else
    let s := xor (sgn a) (sgn b)
    bif isInf a then (bif isInf b then qNaN else withSign s 2139095040)
    else bif isInf b then withSign s 0
    else bif Nat.beq (mag b) 0 then (bif Nat.beq (mag a) 0 then qNaN else withSign s 2139095040)
    else
      let num := Nat.shiftLeft (sig a) 64
      let q := Nat.div num (sig b)
      let r := Nat.mod num (sig b)
      -- sticky bit below everything that matters (q has ≥ 40 bits)
      withSign s (roundPack (Nat.add (Nat.mul 2 q) (bif Nat.beq r 0 then 0 else 1))
                            (Nat.sub (Nat.add (qexp a) 535) (qexp b)))

/-- `a < b` on patterns (false if either is NaN; `-0 < +0` is false) -/
def lt (a b : Nat) : Bool :=
  !(isNaN a || isNaN b) &&
  (bif sgn a then (bif sgn b then Nat.blt (mag b) (mag a) else !(Nat.beq (mag a) 0 && Nat.beq (mag b) 0))
   else (bif sgn b then false else Nat.blt (mag a) (mag b)))

/-- `roundf`: nearest integer, ties away from zero -/
def round (b : Nat) : Nat :=
  bif Nat.ble 150 (expo b) then b          -- already an integer, or inf/NaN
  else
    let s := Nat.sub 149 (qexp b)          -- value = sig / 2^s,  s ≥ 1
    withSign (sgn b) (roundPack (Nat.shiftRight (Nat.add (sig b) (Nat.pow 2 (Nat.sub s 1))) s) ebias)

/-- magnitude of the truncated value -/
def truncMag (b : Nat) : Nat :=
  bif Nat.ble 150 (expo b) then Nat.shiftLeft (sig b) (Nat.sub (expo b) 150)
  else Nat.shiftRight (sig b) (Nat.sub 150 (expo b))
/-- `cvttss2si r32`: truncation; NaN / outside `[-2^31, 2^31)` ↦ `-2^31` -/
def toInt (b : Nat) : Int :=
  bif isNaN b then Int.negSucc 2147483647 else
  let m : Nat := truncMag b
  bif sgn b then (bif Nat.blt 2147483648 m then Int.negSucc 2147483647 else Int.negOfNat m)
  else (bif Nat.ble 2147483648 m then Int.negSucc 2147483647 else Int.ofNat m)
/-- `cvttss2si r64`: truncation; NaN / outside `[-2^63, 2^63)` ↦ `-2^63` -/
def toI64 (b : Nat) : Int :=
  bif isNaN b then Int.negSucc 9223372036854775807 else
  let m : Nat := truncMag b
  bif sgn b then (bif Nat.blt 9223372036854775808 m then Int.negSucc 9223372036854775807 else Int.negOfNat m)
  else (bif Nat.ble 9223372036854775808 m then Int.negSucc 9223372036854775807 else Int.ofNat m)

/-! the quantise/de-quantise chains on patterns (what `qUnorm`/`uU…` unfold to at `SF`) -/
def fmaxS (x y : Nat) : Nat := bif lt x y then y else x
def fminS (x y : Nat) : Nat := bif lt y x then y else x
def clampS (x lo hi : Nat) : Nat := fminS (fmaxS x lo) hi

end Soft

/-- soft binary32: the bit pattern as a natural number -/
structure SF where
  bits : Nat
deriving DecidableEq, Repr

instance : FOps SF where
  ofBits u := ⟨u.toNat⟩
  toBits x := UInt32.ofNat x.bits
  ofInt i := ⟨Soft.ofInt i.toInt⟩
  mul a b := ⟨Soft.mul a.bits b.bits⟩
  div a b := ⟨Soft.div a.bits b.bits⟩
  lt a b := Soft.lt a.bits b.bits
  round a := ⟨Soft.round a.bits⟩
  ofU32 u := ⟨Soft.roundPack u.toNat Soft.ebias⟩
  toInt a := Int32.ofInt (Soft.toInt a.bits)
  toI64 a := Int64.ofInt (Soft.toI64 a.bits)

instance : FOps Float32 where
  ofBits := Float32.ofBits
  toBits := Float32.toBits
  ofInt := Int32.toFloat32
  mul a b := a * b
  div a b := a / b
  lt a b := decide (a < b)
  round := Float32.round
  ofU32 := UInt32.toFloat32
  toInt x := if x.isNaN || x ≥ 2147483648.0 || x < -2147483648.0 then Int32.minValue else x.toInt32
  toI64 x := if x.isNaN || x ≥ 9223372036854775808.0 || x < -9223372036854775808.0 then Int64.minValue
             else x.toInt64

/-! ## 7. `packF3x9_E1x5`, `packRGBM` (native floats: `pow`, `log2`, `floor`, `ceil` from libm) -/
namespace Native

def fmaxN (x y : Float32) : Float32 := if x < y then y else x
def fminN (x y : Float32) : Float32 := if y < x then y else x
def fclampN (x lo hi : Float32) : Float32 := fminN (fmaxN x lo) hi
def two : Float32 := 2.0

/-- l.631 (repaired by `fix_f3x9_sharedexpmax.diff`: `(2^N - 1)/2^N * 2^(Emax-B)`, was `2^(N-1)/2^N`) -/
def sharedExpMax : Float32 := ((two.pow 9.0 - 1.0) / two.pow 9.0) * two.pow (31.0 - 15.0)
/-- l.633 -/
def maxColor (x y z : Float32) : Float32 :=
  fmaxN (fclampN x 0.0 sharedExpMax) (fmaxN (fclampN y 0.0 sharedExpMax) (fclampN z 0.0 sharedExpMax))
/-- l.635-637 -/
def expShared (x y z : Float32) : Float32 :=
  let mc := maxColor x y z
  let expSharedP := fmaxN (-15.0 - 1.0) (Float32.floor (Float32.log2 mc)) + 1.0 + 15.0
  let maxShared := Float32.floor (mc / two.pow (expSharedP - 15.0 - 9.0) + 0.5)
  -- `equal(MaxShared, pow(2, 9), epsilon)` = `abs(a - b) <= eps`
  if Float32.abs (maxShared - two.pow 9.0) ≤ Float32.ofBits 0x34000000 then expSharedP + 1.0 else expSharedP
/-- l.639: one component of `uvec3(floor(Color / pow(2, ExpShared - 15 - 9) + 0.5))` -/
def colorComp (c es : Float32) : UInt32 :=
  (Float32.floor (fclampN c 0.0 sharedExpMax / two.pow (es - 15.0 - 9.0) + 0.5)).toInt32.toUInt32
/-- `packF3x9_E1x5` (l.629-647) -/
def packF3x9_E1x5 (x y z : Float32) : UInt32 :=
  let es := expShared x y z
  asm_u9u9u9e5 (colorComp x es) (colorComp y es) (colorComp z es) es.toInt32.toUInt32
/-- `unpackF3x9_E1x5` (l.649-655), component from field `c` -/
def unpackF3x9_comp (c w : UInt32) : Float32 :=
  c.toFloat32 * two.pow (w.toFloat32 - 15.0 - 9.0)
def unpackF3x9_E1x5_x (v : UInt32) : Float32 := unpackF3x9_comp (fld_u9995_x v) (fld_u9995_w v)
def unpackF3x9_E1x5_y (v : UInt32) : Float32 := unpackF3x9_comp (fld_u9995_y v) (fld_u9995_w v)
def unpackF3x9_E1x5_z (v : UInt32) : Float32 := unpackF3x9_comp (fld_u9995_z v) (fld_u9995_w v)

/-- `packRGBM<float>` (l.658-665): alpha -/
def rgbmAlpha (r g b : Float32) : Float32 :=
  let k : Float32 := Float32.ofBits 0x3e2aaaab        -- static_cast<float>(1.0 / 6.0)
  let a := fclampN (fmaxN (fmaxN (r * k) (g * k)) (fmaxN (b * k) (Float32.ofBits 0x358637bd))) 0.0 1.0
  Float32.ceil (a * 255.0) / 255.0
def packRGBM_c (c r g b : Float32) : Float32 := (c * Float32.ofBits 0x3e2aaaab) / rgbmAlpha r g b
/-- `unpackRGBM<float>` (l.667-671): `v * rgbm.w * 6` -/
def unpackRGBM_c (c w : Float32) : Float32 := c * w * 6.0
end Native

/-! ## 8. executable specification (written from the format definitions, independent of the code) -/
namespace Spec

/-- bits `[off, off+w)` of a word -/
def field (word : Nat) (off w : Nat) : Nat := word / 2^off % 2^w
/-- two's-complement value of a `w`-bit field -/
def sfield (word : Nat) (off w : Nat) : Int :=
  let c := field word off w
  if c ≥ 2^(w-1) then (c : Int) - 2^w else c

/-- exact value of a finite binary32 pattern as `num / 2^149` (an integer numerator) -/
def num (b : Nat) : Int := (if Soft.sgn b then -1 else 1) * ((Soft.sig b * 2^(Soft.qexp b) : Nat) : Int)

/-- `f` (finite pattern) is within relative `2^-23` of `c / n` (and exact when `c = 0`):
the unpack rule "`c / n` evaluated in binary32" with one ulp of slack -/
def nearRatio (f : Nat) (c : Int) (n : Nat) : Bool :=
  !(Soft.expo f == 255) &&
  -- |num f * n - c * 2^149| * 2^23 ≤ |c| * 2^149
  decide ((num f * n - c * 2^149).natAbs * 2^23 ≤ c.natAbs * 2^149)

/-- unorm decode rule: code `c` of an `n`-level field decodes to ≈ `c/n` -/
def unormDecodeOk (f c n : Nat) : Bool := nearRatio f c n
/-- snorm decode rule: `max(c/n, -1)` -/
def snormDecodeOk (f : Nat) (c : Int) (n : Nat) : Bool :=
  nearRatio f (if c < -(n : Int) then -(n : Int) else c) n

/-- `clamp(x, lo, 1)·n` as an exact numerator over `2^149` (`x` a non-NaN pattern; `lo` is 0 or -1) -/
def clampedTimes (x : Nat) (signed : Bool) (n : Nat) : Int :=
  if Soft.mag x ≥ 0x3f800000 then            -- |x| ≥ 1 (or infinite)
    (if Soft.sgn x then (if signed then -((n : Int) * 2^149) else 0) else (n : Int) * 2^149)
  else if Soft.sgn x && !signed then 0
  else num x * n
/-- unorm encode rule for a non-NaN input pattern `x`: the code is within `1/2 + n·2^-23` of
`clamp(x,0,1)·n` — the nearest code, with the slack of the one binary32 rounding of the product
(`n·2^-23 < 0.008` for the 8/16-bit formats, so the end codes are exact there) -/
def unormEncodeOk (x code n : Nat) : Bool :=
  if Soft.isNaN x then true else
  decide (((code : Int) * 2^149 - clampedTimes x false n).natAbs ≤ 2^148 + n * 2^126)
/-- snorm encode rule; `code` is the signed field value -/
def snormEncodeOk (x : Nat) (code : Int) (n : Nat) : Bool :=
  if Soft.isNaN x then true else
  decide ((code * 2^149 - clampedTimes x true n).natAbs ≤ 2^148 + n * 2^126)

/-- canonical re-pack of a signed field: the most negative code becomes `-n` -/
def snormCanon (c : Int) (n : Nat) : Int := if c < -(n : Int) then -(n : Int) else c

/-- unsigned small float with `mb` mantissa bits, 5 exponent bits, in glm's convention (exponent
field 0 is an ordinary binade, code 0 is zero): value of a finite non-zero code as a binary32
pattern -/
def smallFloatBits (code mb : Nat) : Nat :=
  if code == 0 then 0 else
  let e := code / 2^mb
  let m := code % 2^mb
  if e == 31 then (if m == 0 then 0x7f800000 else 0x7fc00000)
  else (e + 112) * 2^23 + m * 2^(23 - mb)

/-- encode rule of the unsigned small floats: NaN ↦ a NaN code, +Inf ↦ Inf code, negative /
below 2^-15 ↦ 0, finite ≥ max ↦ largest finite code, otherwise truncation of the mantissa -/
def smallFloatEncode (x mb : Nat) : Nat :=
  if Soft.isNaN x then 2^(mb+5) - 1
  else if Soft.sgn x || x < 0x38000000 then 0
  else if x == 0x7f800000 then 31 * 2^mb
  else if x ≥ 0x47800000 then 31 * 2^mb - 1
  else (Soft.expo x - 112) * 2^mb + Soft.frac x / 2^(23 - mb)

/-- shared-exponent decode: field `c`, exponent `w`  ↦  `c · 2^(w-24)` -/
def f3x9Decode (c w : Nat) : Nat := Soft.roundPack c (w + (Soft.ebias - 24))

end Spec
end Glm.Hand.C06
