/-!
# C07 — hand model of glm's float ↔ half conversion, and its independent specification

Model of `/repo/glm/detail/type_half.inl` (`toFloat32`, lines 31-103; `toFloat16`, lines
105-239) statement by statement, and of the pack/unpack wrappers of `glm/gtc/packing.inl`
and `glm/detail/func_packing.inl`.  Core Lean only.

Conventions (house style that `bv_decide` digests and that compiles to native code):
* C++ `int` is `Int32` (two's complement; `>>>` on `Int32` is the arithmetic shift g++ emits
  for `>>` on a negative `int`), `hdata` = `short` is `Int16`, `unsigned int`/`uint` is
  `UInt32`, `uint16` is `UInt16`, `uint64` is `UInt64`;
* a `float` is carried as its bit pattern (`UInt32`): `uif32` is a bit cast in both directions;
* no tuples: functions with several results are split into one function per component;
* the `while` loop of `toFloat32` (lines 55-59) is unrolled to its static bound of 10 iterations
  (`m` has a bit among bits 0..9 set, so bit 10 is reached after at most 10 shifts — proved as
  `Props.C07.toFloat32_loop_terminates`).
-/
namespace Glm.Hand.C07

/-! ## `detail::toFloat32`  (type_half.inl:31-103) -/

/-- one iteration of `while(!(m & 0x00000400)) { m <<= 1; e -= 1; }` (lines 55-59), `m` component;
the identity once the loop condition is false -/
def renormM (m : Int32) : Int32 :=
  if (m &&& 0x00000400) == 0 then m <<< 1 else m

/-- same iteration, `e` component (the condition reads the `m` of the same iteration) -/
def renormE (m e : Int32) : Int32 :=
  if (m &&& 0x00000400) == 0 then e - 1 else e

/-- `m` after the loop, unrolled 10× -/
def renormM10 (m : Int32) : Int32 :=
  renormM (renormM (renormM (renormM (renormM (renormM (renormM (renormM (renormM (renormM m)))))))))

/-- `e` after the loop, unrolled 10× -/
def renormE10 (m e : Int32) : Int32 :=
  let m1 := renormM m;  let e1 := renormE m e
  let m2 := renormM m1; let e2 := renormE m1 e1
  let m3 := renormM m2; let e3 := renormE m2 e2
  let m4 := renormM m3; let e4 := renormE m3 e3
  let m5 := renormM m4; let e5 := renormE m4 e4
  let m6 := renormM m5; let e6 := renormE m5 e5
  let m7 := renormM m6; let e7 := renormE m6 e6
  let m8 := renormM m7; let e8 := renormE m7 e7
  let m9 := renormM m8; let e9 := renormE m8 e8
  renormE m9 e9

/-- `float toFloat32(hdata value)`; argument and result as bit patterns -/
def toFloat32 (value : UInt16) : UInt32 :=
  let v : Int32 := value.toInt16.toInt32            -- `hdata` (short) promoted to int
  let s : Int32 := (v >>> 15) &&& 0x00000001        -- l.33
  let e : Int32 := (v >>> 10) &&& 0x0000001f        -- l.34
  let m : Int32 := v &&& 0x000003ff                 -- l.35
  if e == 0 then                                    -- l.37
    if m == 0 then                                  -- l.39
      ((s <<< 31 : Int32)).toUInt32                   -- l.45-47  ±0
    else
      -- l.55-59 loop; l.61 `e += 1`; l.62 `m &= ~0x400`; then falls through to l.93
      let m' : Int32 := renormM10 m &&& ~~~0x00000400
      let e' : Int32 := renormE10 m e + 1
      let e'' : Int32 := e' + (127 - 15)            -- l.93
      let m'' : Int32 := m' <<< 13                  -- l.94
      ((s <<< 31) ||| (e'' <<< 23) ||| m'' : Int32).toUInt32  -- l.101
  else if e == 31 then                              -- l.65
    if m == 0 then                                  -- l.67
      ((s <<< 31) ||| 0x7f800000 : Int32).toUInt32   -- l.74  ±inf
    else
      ((s <<< (31 : Int32)) ||| (0x7f800000 : Int32) ||| (m <<< (13 : Int32))).toUInt32   -- l.84  NaN
  else
    let e'' : Int32 := e + (127 - 15)               -- l.93
    let m'' : Int32 := m <<< 13                     -- l.94
    ((s <<< 31) ||| (e'' <<< 23) ||| m'' : Int32).toUInt32  -- l.101

/-! ## `detail::toFloat16`  (type_half.inl:105-239) -/

/-- `hdata toFloat16(float const& f)`; argument and result as bit patterns.  The call of
`overflow()` (l.226) only raises the FP overflow flag and has no effect on the result. -/
def toFloat16 (f : UInt32) : UInt16 :=
  let i : Int32 := f.toInt32                                      -- l.107-109
  let s : Int32 := (i >>> 16) &&& 0x00008000                      -- l.121
  let e : Int32 := ((i >>> 23) &&& 0x000000ff) - (127 - 15)       -- l.122
  let m : Int32 := i &&& 0x007fffff                               -- l.123
  if e ≤ 0 then                                                   -- l.129
    if e < -10 then                                               -- l.131
      s.toInt16.toUInt16                                          -- l.141
    else
      let m1 : Int32 := (m ||| 0x00800000) >>> (1 - e)            -- l.151
      let m2 : Int32 := if !((m1 &&& 0x00001000) == 0) then m1 + 0x00002000 else m1   -- l.162-163
      (s ||| (m2 >>> 13) : Int32).toInt16.toUInt16                        -- l.169
  else if e == 0xff - (127 - 15) then                             -- l.171
    if m == 0 then                                                -- l.173
      (s ||| 0x7c00 : Int32).toInt16.toUInt16                             -- l.180
    else
      let m1 : Int32 := m >>> 13                                  -- l.193
      (s ||| 0x7c00 ||| m1 ||| (if m1 == 0 then 1 else 0) : Int32).toInt16.toUInt16   -- l.195
  else
    -- l.209-218
    let rnd : Bool := !((m &&& 0x00001000) == 0)
    let m1 : Int32 := if rnd then m + 0x00002000 else m           -- l.211
    let ovf : Bool := rnd && !((m1 &&& 0x00800000) == 0)          -- l.213
    let m2 : Int32 := if ovf then 0 else m1                       -- l.215
    let e2 : Int32 := if ovf then e + 1 else e                    -- l.216
    if e2 > 30 then                                               -- l.224
      (s ||| 0x7c00 : Int32).toInt16.toUInt16                             -- l.228
    else
      (s ||| (e2 <<< 10) ||| (m2 >>> 13) : Int32).toInt16.toUInt16        -- l.236

/-! ## wrappers

`memcpy` between `int16` and `uint16` (and the unions of func_packing.inl) are bit casts;
x86-64/little-endian layout: component 0 occupies the least significant 16 bits. -/

/-- `uint16 packHalf1x16(float)` (gtc/packing.inl:490-496) -/
def packHalf1x16 (v : UInt32) : UInt16 := toFloat16 v
/-- `float unpackHalf1x16(uint16)` (gtc/packing.inl:498-503) -/
def unpackHalf1x16 (v : UInt16) : UInt32 := toFloat32 v

/-- `uint packHalf2x16(vec2 const&)` (detail/func_packing.inl:157-169) -/
def packHalf2x16 (x y : UInt32) : UInt32 :=
  (toFloat16 x).toUInt32 ||| ((toFloat16 y).toUInt32 <<< 16)
/-- `vec2 unpackHalf2x16(uint)` (detail/func_packing.inl:171-184), `.x` -/
def unpackHalf2x16_x (v : UInt32) : UInt32 := toFloat32 v.toUInt16
/-- … `.y` -/
def unpackHalf2x16_y (v : UInt32) : UInt32 := toFloat32 (v >>> 16).toUInt16

/-- `uint64 packHalf4x16(vec4 const&)` (gtc/packing.inl:505-515) -/
def packHalf4x16 (x y z w : UInt32) : UInt64 :=
  (toFloat16 x).toUInt64 ||| ((toFloat16 y).toUInt64 <<< 16) |||
  ((toFloat16 z).toUInt64 <<< 32) ||| ((toFloat16 w).toUInt64 <<< 48)
/-- `vec4 unpackHalf4x16(uint64)` (gtc/packing.inl:517-526), component `k` (0..3) -/
def unpackHalf4x16_k (k : UInt64) (v : UInt64) : UInt32 := toFloat32 (v >>> (16 * k)).toUInt16

/-- `packHalf<L>(vec<L,float>)` (gtc/packing.inl:673-677 → compute_half<L>::pack, 288-366):
component-wise `toFloat16`, the `int16 → uint16` `memcpy` is a bit cast -/
def packHalfV (v : Array UInt32) : Array UInt16 := v.map toFloat16
/-- `unpackHalf<L>(vec<L,uint16>)` (gtc/packing.inl:679-683 → compute_half<L>::unpack):
component-wise `toFloat32` (for L ≤ 3 the `uint16` component is converted to `hdata` implicitly,
for L = 4 through the `memcpy`'d `i16vec4`: the same bit pattern either way) -/
def unpackHalfV (v : Array UInt16) : Array UInt32 := v.map toFloat32

/-! ## Independent specification: IEEE-754 binary16 / binary32 as fixed-point integers

Written from the IEEE-754 definition of the interchange formats (§3.4): a finite datum with
biased exponent field `E` and trailing significand field `T` (width `p-1`) has magnitude
`2^(E-bias) · (1 + T·2^(1-p))` when `E ≥ 1` and `2^(1-bias) · T·2^(1-p)` when `E = 0`.

* binary16: bias 15, p = 11  →  |h| = (1024+T)·2^(E-25)  (E ≥ 1),  T·2^-24  (E = 0)
* binary32: bias 127, p = 24 →  |f| = (2^23+T)·2^(E-150) (E ≥ 1),  T·2^-149 (E = 0)

Every finite binary32 and binary16 magnitude is an integer multiple of 2^-149; the largest
finite binary32 is below 2^128.  So `|x|·2^149 < 2^277` is an exact integer that fits 288 bits.
-/

/-- fixed-point width: magnitudes are scaled by 2^149 -/
def W : Nat := 288

def f32Sign (f : UInt32) : Bool := !((f >>> 31) == 0)
def f32Exp (f : UInt32) : UInt32 := (f >>> 23) &&& 0xff
def f32Man (f : UInt32) : UInt32 := f &&& 0x7fffff
def f32IsNaN (f : UInt32) : Bool := f32Exp f == 0xff && !(f32Man f == 0)
def f32IsInf (f : UInt32) : Bool := f32Exp f == 0xff && f32Man f == 0
def f32IsFinite (f : UInt32) : Bool := !(f32Exp f == 0xff)

def f16Sign (h : UInt16) : Bool := !((h >>> 15) == 0)
def f16Exp (h : UInt16) : UInt16 := (h >>> 10) &&& 0x1f
def f16Man (h : UInt16) : UInt16 := h &&& 0x3ff
def f16IsNaN (h : UInt16) : Bool := f16Exp h == 0x1f && !(f16Man h == 0)
def f16IsInf (h : UInt16) : Bool := f16Exp h == 0x1f && f16Man h == 0
def f16IsFinite (h : UInt16) : Bool := !(f16Exp h == 0x1f)

/-- order-preserving key of a sign-magnitude binary32 pattern: −inf < … < −0 < +0 < … < +inf
(negative: complement all bits; non-negative: set the top bit) -/
def key32 (f : UInt32) : UInt32 := if f32Sign f then ~~~f else f ||| 0x80000000
/-- the same for binary16 -/
def key16 (h : UInt16) : UInt16 := if f16Sign h then ~~~h else h ||| 0x8000

/-- |f|·2^149 for a finite binary32 `f` (meaningless for inf/NaN) -/
def f32Mag (f : UInt32) : BitVec 288 :=
  if f32Exp f == 0 then (f32Man f).toBitVec.setWidth 288
  else ((f32Man f ||| 0x800000).toBitVec.setWidth 288) <<< ((f32Exp f - 1).toBitVec.setWidth 288)

/-- |h|·2^149 for a finite binary16 `h`: 2^149·T·2^-24 = T·2^125;
2^149·(1024+T)·2^(E-25) = (1024+T)·2^(E-1)·2^125 -/
def f16Mag (h : UInt16) : BitVec 288 :=
  if f16Exp h == 0 then ((f16Man h).toBitVec.setWidth 288) <<< (125 : BitVec 288)
  else (((f16Man h ||| 0x400).toBitVec.setWidth 288) <<< ((f16Exp h - 1).toBitVec.setWidth 288)) <<< (125 : BitVec 288)

/-- |a − b| -/
def absDiff (a b : BitVec 288) : BitVec 288 := if a ≤ b then b - a else a - b

/-- 65520·2^149: the overflow threshold (midpoint between the largest finite half 65504 and 2^16,
the value the next binade would start with; IEEE 754 §4.3.1: round-to-nearest overflows exactly
for magnitudes ≥ 2^emax·(2 − ½·2^(1−p)) = 2^15·(2 − 2^-11) = 65520) -/
def ovfThreshold : BitVec 288 := (65520 : BitVec 288) <<< (149 : BitVec 288)

/-- 2^-25·2^149: half of the smallest positive binary16 subnormal (2^-24) -/
def halfMinSub : BitVec 288 := (1 : BitVec 288) <<< (124 : BitVec 288)

/-- **Executable specification of float → half**, relational: is `r` an admissible result for
input `f`?  (property statement: a nearest half, either neighbour on a tie; ±inf at/above the
rounding boundary; ±0 below half the smallest subnormal; inf and NaN kept; sign kept.)
`nearestAmong h'` is used with every finite `h'` in the theorem; the executable check
`specF16` below instantiates it with the two neighbours of `r`. -/
def closerOrEqual (f : UInt32) (r h' : UInt16) : Bool :=
  absDiff (f32Mag f) (f16Mag r) ≤ absDiff (f32Mag f) (f16Mag h')

/-- admissible result, checked against the two neighbouring finite halves of `r` (the halves are
strictly increasing in their bit pattern within a sign — `Props.C07.f16Mag_strictMono` — so being no
farther than both neighbours is being nearest among all) -/
def specF16 (f : UInt32) (r : UInt16) : Bool :=
  if f32IsNaN f then f16IsNaN r && (f16Sign r == f32Sign f)
  else if !(f16Sign r == f32Sign f) then false
  else if f32IsInf f then f16IsInf r
  else if f32Mag f ≥ ovfThreshold then f16IsInf r
  else if f32Mag f < halfMinSub then (r &&& 0x7fff) == 0
  else
    f16IsFinite r &&
    ((r &&& 0x7fff) == 0 || closerOrEqual f r (r - 1)) &&
    ((r &&& 0x7fff) == 0x7bff || closerOrEqual f r (r + 1))

/-- **Executable specification of half → float**: `g` is the binary32 with exactly the value of `h` -/
def specF32 (h : UInt16) (g : UInt32) : Bool :=
  if f16IsNaN h then f32IsNaN g && (f32Sign g == f16Sign h)
  else if f16IsInf h then f32IsInf g && (f32Sign g == f16Sign h)
  else f32IsFinite g && (f32Sign g == f16Sign h) && f32Mag g == f16Mag h

end Glm.Hand.C07
