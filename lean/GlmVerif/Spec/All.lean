import GlmVerif.Spec.C01
import GlmVerif.Spec.C02
import GlmVerif.Spec.C04
import GlmVerif.Spec.C08
import GlmVerif.Spec.C09
import GlmVerif.Spec.C10
import GlmVerif.Spec.C12
import GlmVerif.Spec.C13
import GlmVerif.Spec.C16
import GlmVerif.Spec.C17
import GlmVerif.Spec.C19
namespace Glm.Spec
def familiesOf : String → List Family
  | "C01" => C01.families
  | "C02" => C02.families
  | "C04" => C04.families
  | "C08" => C08.families
  | "C09" => C09.families
  | "C10" => C10.families
  | "C12" => C12.families
  | "C13" => C13.families
  | "C16" => C16.families
  | "C17" => C17.families
  | "C19" => C19.families
  | _ => []
/-- refuted clauses (known findings) per property -/
def refutedOf : String → List Family
  | "C19" => C19.refuted
  | _ => []
end Glm.Spec
