import GlmVerif.Spec.C02
import GlmVerif.Spec.C10
namespace Glm.Spec
def familiesOf : String → List Family
  | "C02" => C02.families
  | "C10" => C10.families
  | _ => []
end Glm.Spec
