import GlmVerif.Spec.C02
namespace Glm.Spec
def familiesOf : String → List Family
  | "C02" => C02.families
  | _ => []
end Glm.Spec
