import GlmVerif.Spec.Basic
/-!
C17 — swizzles and constructors select and place exactly the named components.
A pattern of length `n` over a source of length `L` is the number `code = Σ_k idx_k · 4^k`
(`idx_k` = index of the k-th letter).  The pattern table is enumerated here, independently of glm.
-/
namespace Glm.Spec.C17
open Glm

def digit (code k : Nat) : Nat := (code / 4 ^ k) % 4
/-- all codes of patterns of length `n` over indices `< L` -/
def codes (L : Nat) : Nat → List Nat
  | 0 => [0]
  | n + 1 => (codes L n).flatMap fun c => (List.range L).map fun i => c + i * 4 ^ n
def distinct (n code : Nat) : Bool :=
  (List.range n).all fun a => (List.range n).all fun b => a == b || digit code a != digit code b

def freeKeys : List (List Nat) :=
  [1, 2, 3, 4].flatMap fun L => [2, 3, 4].flatMap fun n => (codes L n).map fun c => [L, n, c]
def memKeys : List (List Nat) :=
  [2, 3, 4].flatMap fun L => [2, 3, 4].flatMap fun n => (codes L n).map fun c => [L, n, c]
def asgKeys : List (List Nat) :=
  [2, 3, 4].flatMap fun L => [2, 3, 4].flatMap fun n =>
    if n ≤ L then ((codes L n).filter (distinct n)).map fun c => [L, n, c] else []

/-- gtx/vec_swizzle free functions: component `j` of the result is source component `digit code j` -/
def f_swzf : Family :=
  { name := "swzf", kind := .syn, keys := freeKeys, nOut := k1, spec := fun k j => v (digit (k2 k) j) }
/-- member swizzles `v.xyz()` in function mode (cfg 1) and operator mode (cfg 2), letter sets xyzw (s0) / rgba (s1) / stpq (s2) -/
def mkMem (n : String) : Family :=
  { name := n, kind := .syn, keys := memKeys, nOut := k1, spec := fun k j => v (digit (k2 k) j) }
def f_swzm1s0 := mkMem "swzm1s0"
def f_swzm1s1 := mkMem "swzm1s1"
def f_swzm1s2 := mkMem "swzm1s2"
def f_swzm2s0 := mkMem "swzm2s0"
def f_swzm2s1 := mkMem "swzm2s1"
def f_swzm2s2 := mkMem "swzm2s2"
/-- assignment through a writable (duplicate-free) swizzle changes exactly the named components:
`v.<pattern> = rhs` — component `i` becomes `rhs[k]` if the `k`-th letter names `i`, else stays `v[i]` -/
def asgSpec (L n code i : Nat) : E :=
  match (List.range n).find? (fun k => digit code k == i) with
  | some k => v (L + k)
  | none => v i
def f_swza : Family :=
  { name := "swza", kind := .syn, keys := asgKeys, nOut := k0, spec := fun k i => asgSpec (k0 k) (k1 k) (k2 k) i }

/-! constructors: arguments are flattened left to right; a longer last vector is truncated; one scalar broadcasts.
`ctor [L, shape]`: `shape` lists the argument lengths (0 = scalar, 1 = vec1, …) as base-5 digits with a leading
arity marker; the table below spells each signature out. -/
def flat (L : Nat) (j : Nat) : E := if j < L then v j else zero
def ctorKeys : List (List Nat) :=
  [[1,0],[2,0],[3,0],[4,0],[2,5],[3,25],[4,125],[2,6],[2,10],[2,11],[3,31],[4,156],[3,7],[3,10],[4,27],[4,35],[4,75],
   [4,12],[4,8],[4,15],[2,3],[2,4],[3,4],
   -- every argument-shape overload (scalars, vec1, vec2, vec3 in every order), codes 1001…
   [2,1001],[2,1002],[2,1003],[2,1004],[3,1005],[3,1006],[3,1007],[3,1008],[3,1009],[3,1010],[3,1011],[3,1012],[3,1013],[3,1014],[3,1015],[3,1016],[4,1017],[4,1018],[4,1019],[4,1020],[4,1021],[4,1022],[4,1023],[4,1024],[4,1025],[4,1026],[4,1027],[4,1028],[4,1029],[4,1030],[4,1031],[4,1032],[4,1033],[4,1034],[4,1035],[4,1036],[4,1037],[4,1038],[4,1039],[4,1040],[4,1041],[4,1042],[4,1043],[4,1044],[4,1045],[4,1046],[4,1047],[4,1048],[4,1049]]
/-- every listed signature fills component `j` with the `j`-th flattened argument component (inputs are the
flattened arguments in order), except the single-scalar forms, which broadcast input 0 -/
def f_ctor : Family :=
  { name := "ctor", kind := .syn, keys := ctorKeys, nOut := k0,
    spec := fun k j => if k1 k = 0 then v 0 else v j }
def f_qctor_wxyz : Family := { name := "qctor_wxyz", kind := .syn, keys := [[]], nOut := fun _ => 4, spec := fun _ j => v j }
def f_qctor_sv : Family := { name := "qctor_sv", kind := .syn, keys := [[]], nOut := fun _ => 4, spec := fun _ j => v j }
/-- matrices from scalars / from column vectors: column-major fill, argument order = memory order -/
def f_mctor : Family :=
  { name := "mctor", kind := .syn, keys := shapes, nOut := fun k => k0 k * k1 k, spec := fun _ j => v j }
def f_mctorc : Family :=
  { name := "mctorc", kind := .syn, keys := shapes, nOut := fun k => k0 k * k1 k, spec := fun _ j => v j }
/-- single scalar: the diagonal -/
def f_mdiag : Family :=
  { name := "mdiag", kind := .syn, keys := shapes, nOut := fun k => k0 k * k1 k, spec := fun k j => if j / k1 k = j % k1 k then v 0 else zero }
/-- `mat<C,R>(mat<C2,R2>)`: the overlapping block, the rest from the identity -/
def f_mconv : Family :=
  { name := "mconv", kind := .syn, keys := shapes.flatMap fun s => shapes.map fun t => s ++ t, nOut := fun k => k0 k * k1 k,
    spec := fun k j => let c := j / k1 k; let r := j % k1 k
      if c < k2 k ∧ r < k3 k then v (c * k3 k + r) else if c = r then one else zero }

def families : List Family := [f_swzf, f_swzm1s0, f_swzm1s1, f_swzm1s2, f_swzm2s0, f_swzm2s1, f_swzm2s2, f_swza, f_ctor, f_qctor_wxyz, f_qctor_sv, f_mctor, f_mctorc, f_mdiag, f_mconv]

end Glm.Spec.C17
