import GlmVerif.Spec.Basic
/-!
C09 — translate / rotate / scale / shear / lookAt and the gtx transform helpers build the
transforms they name: `f(M, params) = M · Elem(params)` with the textbook elementary matrix.
`M[c][r] = v (c*4 + r)` (or `c*3 + r` for the 2D helpers), parameters follow.
-/
namespace Glm.Spec.C09
open Glm

def two : E := .lit 2 1
def mone : E := .lit (-1) 1
/-- entry (column `j / N`, row `j % N`) of `M · El` where `M` is the `N×N` input matrix at 0 -/
def mulEl (N : Nat) (El : Nat → Nat → E) (j : Nat) : E :=
  sumE ((List.range N).map fun k => .mul (v (k * N + j % N)) (El (j / N) k))
def ident (c r : Nat) : E := if c = r then one else zero

/-- translation by `t` : identity with last column `(t, 1)` -/
def transl (N : Nat) (t : Nat → E) (c r : Nat) : E := if c = N - 1 ∧ r < N - 1 then t r else ident c r
/-- diagonal scale -/
def scal (N : Nat) (s : Nat → E) (c r : Nat) : E := if c = r then (if c < N - 1 then s c else one) else zero

/-- Rodrigues rotation by angle `a` about the unit axis `n`:
`R = cos a · I + (1 - cos a) n nᵀ + sin a [n]ₓ`, entry (column c, row r) -/
def rod (co si : E) (n : Nat → E) (c r : Nat) : E :=
  if c = 3 ∨ r = 3 then ident c r else
  let sym := E.mul (.mul (.sub one co) (n c)) (n r)
  if c = r then .add co sym
  else
    -- [n]ₓ (row r, column c) = ε_{r k c} n_k
    let k := 3 - c - r
    let sgn : Bool := (r + 1) % 3 = k     -- (r, k, c) cyclic  ⇒  +n_k
    if sgn then .add sym (.mul si (n k)) else .sub sym (.mul si (n k))

def cosA (a : E) : E := .call1 .cos a
def sinA (a : E) : E := .call1 .sin a
def sqrtE (a : E) : E := .call1 .sqrt a
def dot3 (a b : Nat → E) : E := sumE ((List.range 3).map fun i => .mul (a i) (b i))
def nrm3 (a : Nat → E) (i : Nat) : E := .div (a i) (sqrtE (dot3 a a))

def f_translate : Family :=
  { name := "translate", kind := .poly, keys := [[]], nOut := fun _ => 16,
    spec := fun _ => mulEl 4 (transl 4 fun i => v (16 + i)) }
def f_scale : Family :=
  { name := "scale", kind := .poly, keys := [[]], nOut := fun _ => 16, spec := fun _ => mulEl 4 (scal 4 fun i => v (16 + i)) }
def f_scale_slow : Family := { f_scale with name := "scale_slow", unit := "scale_slow" }
/-- `rotate(M, a, axis) = M · Rod(a, axis/|axis|)`; the only divisor is `|axis| = sqrt(axis·axis)` -/
def axisN (i : Nat) : E := nrm3 (fun k => v (17 + k)) i
def f_rotate : Family :=
  { name := "rotate", kind := .frac, guard := true, keys := [[]], nOut := fun _ => 16,
    spec := fun _ => mulEl 4 (rod (cosA (v 16)) (sinA (v 16)) axisN),
    allowed := fun _ => [sqrtE (dot3 (fun k => v (17 + k)) (fun k => v (17 + k)))] }
def f_rotate_slow : Family := { f_rotate with name := "rotate_slow", unit := "rotate_slow" }
/-- `rotateNormalizedAxis(M, a, n) = M · Rod(a, n)` (the axis is taken as given) -/
def f_rotateNormalizedAxis : Family :=
  { name := "rotateNormalizedAxis", kind := .poly, keys := [[]], nOut := fun _ => 16,
    spec := fun _ => mulEl 4 (rod (cosA (v 16)) (sinA (v 16)) fun k => v (17 + k)) }
/-- `shear(M, p, lx, ly, lz)`: the shear matrix of the source comment, about the point `p` -/
def shearEl (c r : Nat) : E :=
  -- inputs: p = 16..18, l_x = (λxy, λxz) 19,20 ; l_y = (λyx, λyz) 21,22 ; l_z = (λzx, λzy) 23,24
  match c, r with
  | 0, 0 => one | 0, 1 => v 21 | 0, 2 => v 23 | 0, 3 => zero
  | 1, 0 => v 19 | 1, 1 => one | 1, 2 => v 24 | 1, 3 => zero
  | 2, 0 => v 20 | 2, 1 => v 22 | 2, 2 => one | 2, 3 => zero
  | 3, 0 => .mul (.neg (.add (v 19) (v 20))) (v 16)
  | 3, 1 => .mul (.neg (.add (v 21) (v 22))) (v 17)
  | 3, 2 => .mul (.neg (.add (v 23) (v 24))) (v 18)
  | _, _ => one
def f_shear : Family := { name := "shear", kind := .poly, keys := [[]], nOut := fun _ => 16, spec := fun _ => mulEl 4 shearEl }
def f_shear_slow : Family := { f_shear with name := "shear_slow", unit := "shear_slow" }

/-! gtx/transform: the same with `M = I` -/
def f_gtranslate : Family :=
  { name := "gtranslate", kind := .poly, keys := [[]], nOut := fun _ => 16, spec := fun _ j => transl 4 (fun i => v i) (j / 4) (j % 4) }
def f_gscale : Family :=
  { name := "gscale", kind := .poly, keys := [[]], nOut := fun _ => 16, spec := fun _ j => scal 4 (fun i => v i) (j / 4) (j % 4) }
def f_grotate : Family :=
  { name := "grotate", kind := .frac, guard := true, keys := [[]], nOut := fun _ => 16,
    spec := fun _ j => rod (cosA (v 0)) (sinA (v 0)) (nrm3 fun k => v (1 + k)) (j / 4) (j % 4),
    allowed := fun _ => [sqrtE (dot3 (fun k => v (1 + k)) (fun k => v (1 + k)))] }

/-! lookAt(eye 0..2, center 3..5, up 6..8): rigid transform with `eye ↦ 0`, the view direction
`center - eye ↦ (0, 0, ∓|center - eye|)` (RH: -z, LH: +z) and `up ↦` a vector with zero x component -/
def app4 (o : Nat → E) (p : Nat → E) (r : Nat) : E := sumE ((List.range 4).map fun k => .mul (o (k * 4 + r)) (p k))
def eyeP (k : Nat) : E := if k < 3 then v k else one
def dirP (k : Nat) : E := if k < 3 then .sub (v (3 + k)) (v k) else zero
def upP (k : Nat) : E := if k < 3 then v (6 + k) else zero
def fLen : E := sqrtE (dot3 (fun k => .sub (v (3 + k)) (v k)) (fun k => .sub (v (3 + k)) (v k)))
def cross3 (a b : Nat → E) (j : Nat) : E :=
  .sub (.mul (a ((j + 1) % 3)) (b ((j + 2) % 3))) (.mul (a ((j + 2) % 3)) (b ((j + 1) % 3)))
/-- `normalize(center - eye)` in the code's own form `x * (1 / sqrt d)` (quotients are atoms inside a `sqrt` argument) -/
def fDir (k : Nat) : E := .mul (.sub (v (3 + k)) (v k)) (.div one fLen)
def sRaw (hand : Nat) (j : Nat) : E := if hand = 0 then cross3 fDir (fun k => v (6 + k)) j else cross3 (fun k => v (6 + k)) fDir j
def sLen (hand : Nat) : E := sqrtE (dot3 (sRaw hand) (sRaw hand))
/-- components: 0-3 `M·(eye,1) = (0,0,0,1)`; 4,5 `M·(dir,0)` has x = y = 0; 6 `M·(up,0)` has x = 0;
    7 the last row of `M` is `(0,0,0,1)` (entry `[3][3] = 1`) -/
def mkLookAt (name unit : String) (keys : List (List Nat)) (hand : List Nat → Nat) : Family :=
  { name := name, unit := unit, kind := .frac, guard := true, keys := keys, nOut := fun _ => 8, nRaw := fun _ => 16, isPlain := false,
    post := fun _ o j =>
      if j < 4 then app4 o eyeP j else if j < 6 then app4 o dirP (j - 4) else if j = 6 then app4 o upP 0 else o 15,
    spec := fun _ j => if j = 3 ∨ j = 7 then one else zero,
    allowed := fun k => [fLen, sLen (hand k)] }
def f_lookAt := mkLookAt "lookAt" "lookAt" [[0],[1]] k0
def f_lookAt_cfg := mkLookAt "lookAt_cfg" "lookAt_cfg" [[0],[1]] k0
/-- the view direction goes to `∓|center-eye|` on the z axis, given only `sqrt(d)² = d` -/
def mkLookAtZ (name unit : String) (keys : List (List Nat)) : Family :=
  { name := name, unit := unit, kind := .fracMod, keys := keys, nOut := fun _ => 1, nRaw := fun _ => 16, isPlain := false,
    post := fun _ o _ => app4 o dirP 2,
    spec := fun k _ => if k0 k = 0 then .neg fLen else fLen,
    hyps := fun _ => [(.mul fLen fLen, dot3 (fun k => .sub (v (3 + k)) (v k)) (fun k => .sub (v (3 + k)) (v k)))],
    cert := fun k _ => [if k0 k = 0 then one else mone],
    allowed := fun k => [fLen, sLen (k0 k)] }
def f_lookAt_z := mkLookAtZ "lookAt_z" "lookAt" [[0],[1]]
def f_lookAt_cfg_z := mkLookAtZ "lookAt_cfg_z" "lookAt_cfg" [[0],[1]]

/-! gtx/rotate_vector -/
def f_rotate2 : Family :=
  { name := "rotate2", kind := .poly, keys := [[]], nOut := fun _ => 2,
    spec := fun _ j => if j = 0 then .sub (.mul (v 0) (cosA (v 2))) (.mul (v 1) (sinA (v 2)))
                       else .add (.mul (v 0) (sinA (v 2))) (.mul (v 1) (cosA (v 2))) }
/-- `rotateX/Y/Z(v, a)`: keys `[L, axis]`; the rotation about coordinate axis `ax` of the first three
components, the fourth (if any) untouched -/
def axisRot (L ax : Nat) (j : Nat) : E :=
  let a := v L; let c := cosA a; let s := sinA a
  if j = 3 then v 3 else if j = ax then v j else
  let p := (ax + 1) % 3; let q := (ax + 2) % 3
  if j = p then .sub (.mul (v p) c) (.mul (v q) s) else .add (.mul (v p) s) (.mul (v q) c)
def f_rotateAxis : Family :=
  { name := "rotateAxis", kind := .poly, keys := [[3,0],[3,1],[3,2],[4,0],[4,1],[4,2]], nOut := k0,
    spec := fun k => axisRot (k0 k) (k1 k) }
/-- `rotate(v, a, n) = Rod(a, n/|n|) · v` -/
def f_rotate3n : Family :=
  { name := "rotate3n", kind := .frac, guard := true, keys := [[]], nOut := fun _ => 3,
    spec := fun _ r => sumE ((List.range 3).map fun c => .mul (rod (cosA (v 3)) (sinA (v 3)) (nrm3 fun k => v (4 + k)) c r) (v c)),
    allowed := fun _ => [sqrtE (dot3 (fun k => v (4 + k)) (fun k => v (4 + k)))] }
def f_rotate4n : Family :=
  { name := "rotate4n", kind := .frac, guard := true, keys := [[]], nOut := fun _ => 4,
    spec := fun _ r => sumE ((List.range 4).map fun c => .mul (rod (cosA (v 4)) (sinA (v 4)) (nrm3 fun k => v (5 + k)) c r) (v c)),
    allowed := fun _ => [sqrtE (dot3 (fun k => v (5 + k)) (fun k => v (5 + k)))] }

/-! gtx/matrix_transform_2d and gtx/transform2 on 3×3 matrices -/
def f_translate2d : Family :=
  { name := "translate2d", kind := .poly, keys := [[]], nOut := fun _ => 9, spec := fun _ => mulEl 3 (transl 3 fun i => v (9 + i)) }
def f_scale2d : Family :=
  { name := "scale2d", kind := .poly, keys := [[]], nOut := fun _ => 9, spec := fun _ => mulEl 3 (scal 3 fun i => v (9 + i)) }
def rot2dEl (c r : Nat) : E :=
  match c, r with
  | 0, 0 => cosA (v 9) | 0, 1 => sinA (v 9) | 1, 0 => .neg (sinA (v 9)) | 1, 1 => cosA (v 9)
  | _, _ => ident c r
def f_rotate2d : Family := { name := "rotate2d", kind := .poly, keys := [[]], nOut := fun _ => 9, spec := fun _ => mulEl 3 rot2dEl }
/-- `shearX(M, y)`: x += y·(y coordinate), i.e. elementary matrix with entry (column 1, row 0) = y -/
def shearXEl (c r : Nat) : E := if c = 1 ∧ r = 0 then v 9 else ident c r
def shearYEl (c r : Nat) : E := if c = 0 ∧ r = 1 then v 9 else ident c r
def f_shearX2d : Family := { name := "shearX2d", kind := .poly, keys := [[]], nOut := fun _ => 9, spec := fun _ => mulEl 3 shearXEl }
def f_shearY2d : Family := { name := "shearY2d", kind := .poly, keys := [[]], nOut := fun _ => 9, spec := fun _ => mulEl 3 shearYEl }
def f_shearX2D : Family := { name := "shearX2D", kind := .poly, keys := [[]], nOut := fun _ => 9, spec := fun _ => mulEl 3 shearXEl }
def f_shearY2D : Family := { name := "shearY2D", kind := .poly, keys := [[]], nOut := fun _ => 9, spec := fun _ => mulEl 3 shearYEl }

/-! gtx/transform2 and gtx/matrix_interpolation helpers -/
/-- `shearX3D / shearY3D / shearZ3D (M, s, t) = M · (I with the two off-diagonal entries of column a)`; key a = 0,1,2 -/
def shear3Spec (a : Nat) (c r : Nat) : E :=
  -- X: r[0][1] = s, r[0][2] = t ; Y: r[1][0] = s, r[1][2] = t ; Z: r[2][0] = s, r[2][1] = t
  if c = a ∧ r < 3 ∧ r ≠ a then
    (let lo := if a = 0 then 1 else 0
     if r = lo then v 16 else v 17)
  else ident c r
def f_shear3D : Family :=
  { name := "shear3D", kind := .poly, keys := [[0],[1],[2]], nOut := fun _ => 16, spec := fun k => mulEl 4 (shear3Spec (k0 k)) }
/-- gtx `slerp(x, y, a)` of vectors: `x sin((1−a)α)/sin α + y sin(aα)/sin α`, `α = acos(x·y)`; the only divisor is `sin α` -/
def vsAlpha : E := .call1 .acos (dot3 v (fun i => v (3 + i)))
def vsSin : E := .call1 .sin vsAlpha
def f_vslerp : Family :=
  { name := "vslerp", kind := .frac, keys := [[]], nOut := fun _ => 3, allowed := fun _ => [vsSin],
    spec := fun _ j => .add (.mul (v j) (.div (.call1 .sin (.mul (.sub one (v 6)) vsAlpha)) vsSin))
                            (.mul (v (3 + j)) (.div (.call1 .sin (.mul (v 6) vsAlpha)) vsSin)) }
/-- `orientation(N, Up)`: the identity when `|N_i − Up_i| ≤ ε` for all three components, otherwise the Rodrigues rotation by `acos(N·Up)` about
    `normalize(Up × N)` (walk mode; rational check without naming the divisors) -/
def orN (i : Nat) : E := v i
def orU (i : Nat) : E := v (3 + i)
def orAxis (i : Nat) : E :=
  match i with
  | 0 => .sub (.mul (orU 1) (orN 2)) (.mul (orN 1) (orU 2))
  | 1 => .sub (.mul (orU 2) (orN 0)) (.mul (orN 2) (orU 0))
  | _ => .sub (.mul (orU 0) (orN 1)) (.mul (orN 0) (orU 1))
def orAngle : E := .call1 .acos (dot3 orN orU)
def allLeK (e : E) (yes no : Tree) : List E → Tree
  | [] => yes
  | d :: ds => .branch (.le zero d) (.branch (.le d e) (allLeK e yes no ds) no) (.branch (.le (.neg d) e) (allLeK e yes no ds) no)
def f_orientation : Family :=
  { name := "orientation", kind := .frac, treeMode := true, treeWalk := true, divFree := true, keys := [[]], nOut := fun _ => 16, spec := fun _ _ => zero,
    specT := fun _ j => allLeK (.konst .eps) (.leaf (ident (j / 4) (j % 4)))
      (.leaf (rod (cosA orAngle) (sinA orAngle) (nrm3 orAxis) (j / 4) (j % 4))) [.sub (orN 0) (orU 0), .sub (orN 1) (orU 1), .sub (orN 2) (orU 2)] }
/-- `proj2D/proj3D (M, n) = M · (I − n nᵀ)`, `reflect2D/reflect3D (M, n) = M · (I − 2 n nᵀ)` on the leading d×d block of the (d+1)×(d+1) matrix;
    key `[d, k]` -/
def prEl (d k : Nat) (c r : Nat) : E :=
  let N := d + 1
  if c < d ∧ r < d then .sub (ident c r) (.mul (.lit k 1) (.mul (v (N * N + c)) (v (N * N + r)))) else ident c r
def f_projrefl : Family :=
  { name := "projrefl", kind := .poly, keys := [[2, 1], [3, 1], [2, 2], [3, 2]], nOut := fun k => (k0 k + 1) * (k0 k + 1),
    spec := fun k => mulEl (k0 k + 1) (prEl (k0 k) (k1 k)) }
/-- `scaleBias(s, b)` = diag(s, s, s, 1) with last column (b, b, b, 1); `scaleBias(M, s, b) = M · scaleBias(s, b)` -/
def sbEl (s b : E) (c r : Nat) : E :=
  if c = 3 then (if r < 3 then b else one) else if c = r then s else zero
def f_scaleBias : Family :=
  { name := "scaleBias", kind := .syn, keys := [[]], nOut := fun _ => 16, spec := fun _ j => sbEl (v 0) (v 1) (j / 4) (j % 4) }
def f_scaleBiasM : Family :=
  { name := "scaleBiasM", kind := .poly, keys := [[]], nOut := fun _ => 16, spec := fun _ => mulEl 4 (sbEl (v 16) (v 17)) }
/-- `axisAngleMatrix(axis, a)` = Rodrigues matrix of the normalised axis -/
def aamAxis (i : Nat) : E := .mul (v i) (.div one (sqrtE (dot3 v v)))
def f_axisAngleMatrix : Family :=
  { name := "axisAngleMatrix", kind := .frac, guard := true, keys := [[]], nOut := fun _ => 16,
    spec := fun _ j => rod (cosA (v 3)) (sinA (v 3)) aamAxis (j / 4) (j % 4),
    allowed := fun _ => [sqrtE (dot3 v v)] }
/-- `extractMatrixRotation(M)`: the upper-left 3×3 block, identity elsewhere -/
def f_extractMatrixRotation : Family :=
  { name := "extractMatrixRotation", kind := .syn, keys := [[]], nOut := fun _ => 16,
    spec := fun _ j => if j / 4 < 3 ∧ j % 4 < 3 then v j else ident (j / 4) (j % 4) }

def families : List Family :=
  [f_translate, f_scale, f_scale_slow, f_rotate, f_rotate_slow, f_rotateNormalizedAxis, f_shear, f_shear_slow,
   f_gtranslate, f_gscale, f_grotate, f_lookAt, f_lookAt_cfg, f_lookAt_z, f_lookAt_cfg_z,
   f_rotate2, f_rotateAxis, f_rotate3n, f_rotate4n,
   f_translate2d, f_scale2d, f_rotate2d, f_shearX2d, f_shearY2d, f_shearX2D, f_shearY2D,
   f_shear3D, f_scaleBias, f_scaleBiasM, f_axisAngleMatrix, f_extractMatrixRotation, f_projrefl, f_vslerp, f_orientation]

end Glm.Spec.C09
