import GlmVerif.Spec.Basic
/-!
C13 — slerp / mix / lerp.  Quaternions by component name: `x = v 0..3`, `y = v 4..7`, `a = v 8`
(component order w,x,y,z).  `eps` is the machine epsilon of the element type (kept symbolic).
-/
namespace Glm.Spec.C13
open Glm

def qx (j : Nat) : E := v j
def qy (j : Nat) : E := v (4 + j)
def a : E := v 8
def eps : E := .konst .eps
def cosT : E := sumE ((List.range 4).map fun i => .mul (qx i) (qy i))
def thr : E := .sub one eps
def sinE (e : E) : E := .call1 .sin e
def acosE (e : E) : E := .call1 .acos e
/-- exact value of the `double` literal `pi<T>()` -/
def piLit : E := .lit 884279719003555 281474976710656

/-- component-wise linear blend `x (1 - a) + z a` (glm's scalar `mix`) -/
def lin (z : Nat → E) (j : Nat) : E := .add (.mul (qx j) (.sub one a)) (.mul (z j) a)
/-- spherical blend `(sin((1-a)θ) x + sin(aθ) z) / sin θ`, `θ = acos c` -/
def trig (z : Nat → E) (c : E) (j : Nat) : E :=
  let th := acosE c
  .div (.add (.mul (sinE (.mul (.sub one a) th)) (qx j)) (.mul (sinE (.mul a th)) (z j))) (sinE th)
/-- with `k` extra spins: `φ = θ + k π`; `(sin(θ - aφ) x + sin(aφ) z) / sin θ` -/
def trigK (k : Int) (z : Nat → E) (c : E) (j : Nat) : E :=
  let th := acosE c
  let phi := E.add th (.mul (.lit k 1) piLit)
  .div (.add (.mul (sinE (.sub th (.mul a phi))) (qx j)) (.mul (sinE (.mul a phi)) (z j))) (sinE th)

def negY (j : Nat) : E := .neg (qy j)
/-- the decision tree of slerp: flip `y` when `x·y < 0`; linear blend when the (flipped) cosine exceeds
    `1 - eps`, spherical blend otherwise -/
def slerpT (tr : (Nat → E) → E → Nat → E) (j : Nat) : Tree :=
  .branch (.lt cosT zero)
    (.branch (.lt thr (.neg cosT)) (.leaf (lin negY j)) (.leaf (tr negY (.neg cosT) j)))
    (.branch (.lt thr cosT) (.leaf (lin qy j)) (.leaf (tr qy cosT j)))
def mixT (j : Nat) : Tree := .branch (.lt thr cosT) (.leaf (lin qy j)) (.leaf (trig qy cosT j))

def sinDivs : List E := [sinE (acosE cosT), sinE (acosE (.neg cosT))]

def f_slerp : Family :=
  { name := "slerp", kind := .frac, treeMode := true, guard := true, keys := [[]], nOut := fun _ => 4, spec := fun _ _ => zero,
    specT := fun _ j => slerpT trig j, allowed := fun _ => sinDivs }
def f_slerpk : Family :=
  { name := "slerpk", kind := .frac, treeMode := true, guard := true, keys := [[0],[1],[2],[3],[4],[5],[6]], nOut := fun _ => 4,
    spec := fun _ _ => zero, specT := fun k j => slerpT (trigK ((k0 k : Int) - 3)) j, allowed := fun _ => sinDivs }
def f_qmix : Family :=
  { name := "qmix", kind := .frac, treeMode := true, keys := [[]], nOut := fun _ => 4, spec := fun _ _ => zero,
    specT := fun _ j => mixT j, allowed := fun _ => sinDivs }
/-- `lerp` is the exact affine blend -/
def f_qlerp : Family :=
  { name := "qlerp", kind := .poly, keys := [[]], nOut := fun _ => 4, spec := fun _ j => .add (.mul (qx j) (.sub one a)) (.mul (qy j) a) }

/-! gtx `shortMix` (slerp with early exits at `a ≤ 0`, `a ≥ 1`, the angle taken as `atan2(sqrt(1 − c²), c)`) and `fastMix`
    (the normalised linear blend) -/
def sqrtE (e : E) : E := .call1 .sqrt e
def atan2E (y x : E) : E := .call2 .atan2 y x
def smSin (c : E) : E := sqrtE (.sub one (.mul c c))
def smLeaf (z : Nat → E) (c : E) (j : Nat) : E :=
  let ang := atan2E (smSin c) c
  let inv := E.div one (smSin c)
  .add (.mul (.mul (sinE (.mul (.sub one a) ang)) inv) (qx j)) (.mul (.mul (sinE (.mul (.add zero a) ang)) inv) (z j))
def smLin (z : Nat → E) (j : Nat) : E := .add (.mul (.sub one a) (qx j)) (.mul (.add zero a) (z j))
def smInner (z : Nat → E) (c : E) (j : Nat) : Tree := .branch (.lt thr c) (.leaf (smLin z j)) (.leaf (smLeaf z c j))
def shortMixT (j : Nat) : Tree :=
  .branch (.le a zero) (.leaf (qx j))
    (.branch (.le one a) (.leaf (qy j))
      (.branch (.lt cosT zero) (smInner negY (.neg cosT) j) (smInner qy cosT j)))
def f_shortMix : Family :=
  { name := "shortMix", kind := .frac, treeMode := true, keys := [[]], nOut := fun _ => 4, spec := fun _ _ => zero,
    specT := fun _ j => shortMixT j, allowed := fun _ => [smSin cosT, smSin (.neg cosT)] }
def fmU (j : Nat) : E := .add (.mul (qx j) (.sub one a)) (.mul (qy j) a)
def fmLen : E := sqrtE (sumE ((List.range 4).map fun i => .mul (fmU i) (fmU i)))
def f_fastMix : Family :=
  { name := "fastMix", kind := .frac, treeMode := true, treeWalk := true, keys := [[]], nOut := fun _ => 4, spec := fun _ _ => zero,
    divFree := true,
    specT := fun _ j => .branch (.le fmLen zero) (.leaf (if j = 0 then one else zero)) (.leaf (.mul (fmU j) (.div one fmLen))) }

/-- dual-quaternion `lerp(x, y, a) = x (1 − a) + y k`, `k = −a` if the real parts are in opposite hemispheres (`dot < 0`), else `a`:
    the blend towards `±y`, so `a = 0` gives `x` and `a = 1` gives `±y` -/
def dqA : E := v 16
def dqDot : E := sumE ((List.range 4).map fun i => .mul (v i) (v (8 + i)))
def f_dqlerp : Family :=
  { name := "dqlerp", kind := .poly, treeMode := true, treeWalk := true, keys := [[]], nOut := fun _ => 8, spec := fun _ _ => zero,
    specT := fun _ j => .branch (.lt dqDot zero)
      (.leaf (.sub (.mul (v j) (.sub one dqA)) (.mul (v (8 + j)) dqA)))
      (.leaf (.add (.mul (v j) (.sub one dqA)) (.mul (v (8 + j)) dqA))) }

def families : List Family := [f_slerp, f_slerpk, f_qmix, f_qlerp, f_shortMix, f_fastMix, f_dqlerp]

end Glm.Spec.C13
