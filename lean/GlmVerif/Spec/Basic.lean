import GlmVerif.Core.TreeEqv
/-!
Specification side, Mathlib-free.  A `Family` is a set of traced units that share
one textbook definition, written as a function from the unit's shape keys to an
expression per output component.  The property theorems (`Props/*`) state that the
generated units meet these specs; the native driver uses the very same table to
search for counterexamples when a theorem no longer checks.
-/
namespace Glm

inductive Kind
  | poly     -- equal as polynomials over atoms, in every commutative-ring-like semantics
  | syn      -- literally the same expression
  | frac     -- equal as rational functions over atoms, in every field-like semantics (divisors ≠ 0)
  | polyMod  -- `poly` modulo the family's polynomial hypotheses (certificate checked)
  | fracMod  -- `frac` modulo the family's polynomial hypotheses
  deriving DecidableEq, Repr, Inhabited

/-- all outputs as expressions, when the unit is decision-free -/
def leafList : List Tree → Option (List E)
  | [] => some []
  | .leaf e :: ts => (leafList ts).map (e :: ·)
  | _ => none
def Unit.leafOuts (u : Unit) : Option (List E) := leafList u.outs

structure Family where
  name : String
  /-- name prefix of the traced units this family talks about (several families may share units) -/
  unit : String := name
  kind : Kind
  keys : List (List Nat)
  /-- number of checked components -/
  nOut : List Nat → Nat
  /-- number of raw outputs the traced unit must have -/
  nRaw : List Nat → Nat := nOut
  /-- what is compared with `spec`: by default the unit's outputs themselves, otherwise an expression
      built from them (e.g. the entries of `inverse(M) * M`, or a projected corner) -/
  post : List Nat → (Nat → E) → Nat → E := fun _ o j => o j
  spec : List Nat → Nat → E
  /-- divisors the code may use (`frac`): the theorem assumes exactly these are non-zero -/
  allowed : List Nat → List E := fun _ => []
  /-- polynomial hypotheses `l = r` on the atoms (`polyMod`/`fracMod`) and, per component, the
      multipliers certifying the identity modulo them -/
  hyps : List Nat → List (E × E) := fun _ => []
  cert : List Nat → Nat → List E := fun _ _ => []
  /-- (`polyMod` only) equalities between atoms assumed by the theorem and applied as rewrites to the
      traced expression before the comparison, e.g. `cos (-t) = cos t` -/
  rw : List Nat → List (E × E) := fun _ => []
  /-- `post` is the identity (outputs compared directly) -/
  isPlain : Bool := true
  /-- tree mode: the unit may branch; output `j` is compared, decision by decision, with `specT ks j`
      (conditions up to polynomial equality of their operands, leaves by `kind`); `post` is not used -/
  treeMode : Bool := false
  specT : List Nat → Nat → Tree := fun _ _ => .leaf (.lit 0 1)
  /-- (tree mode) compare by walking both trees (`treeEqv` with the arithmetic implication oracle): `specT` may have another
      shape than the traced tree — it states the decisions the way the documentation does -/
  treeWalk : Bool := false
  /-- (`frac`) do not name the divisors: the theorem assumes instead that the evaluation of the traced expression and of
      the specification divides by zero nowhere (`E.divOK` of both) -/
  divFree : Bool := false
  /-- additionally require `Tree.guarded` of every raw output: each `sqrt`/`acos`/`asin`/`log` the code
      evaluates has its argument in range because of the decisions taken before (no hidden NaN) -/
  guard : Bool := false
  deriving Inhabited

/-- the expression of output `i` of a decision-free unit -/
def Unit.outE (u : Unit) (i : Nat) : E :=
  match u.out i with
  | .leaf e => e
  | _ => .lit 0 1

def Family.unitName (f : Family) (ks : List Nat) : String :=
  ks.foldl (fun s k => s ++ "_" ++ toString k) f.unit

/-- the decidable comparison of one expression with its specification -/
def Family.leafOK (f : Family) (ks : List Nat) (j : Nat) (e s : E) : Bool :=
  match f.kind with
  | .poly => e == s || polyEq e s          -- literal equality first: cheap when the spec mirrors the code
  | .syn => e == s
  | .frac => (e == s || fracEq e s) && (f.divFree || (e.divisors.all (divisorAllowed (f.allowed ks)) && s.divisors.all (divisorAllowed (f.allowed ks))))
  | .polyMod => polyEqMod (f.hyps ks) (f.cert ks j) (e.rewrite (f.rw ks)) s
  | .fracMod => fracEqMod (f.hyps ks) (f.cert ks j) e s && e.divisors.all (divisorAllowed (f.allowed ks))
      && s.divisors.all (divisorAllowed (f.allowed ks))

/-- the decidable check of one component -/
def Family.compOK (f : Family) (ks : List Nat) (o : Nat → E) (j : Nat) : Bool :=
  f.leafOK ks j (f.post ks o j) (f.spec ks j)

/-- the decidable table check for one unit of a family -/
def Family.okAt (f : Family) (look : String → List Nat → Unit) (ks : List Nat) : Bool :=
  (!f.guard || (List.range (f.nRaw ks)).all fun j => ((look f.unit ks).out j).guarded []) &&
  if f.treeMode then
    (look f.unit ks).outs.length == f.nRaw ks &&
      (List.range (f.nOut ks)).all fun j =>
        if f.treeWalk then treeEqv impliedAll (fun _ a b => f.leafOK ks j a b) [] ((look f.unit ks).out j) (f.specT ks j)
        else treeOK (f.leafOK ks j) ((look f.unit ks).out j) (f.specT ks j)
  else
  match (look f.unit ks).leafOuts with
  | none => false
  | some l => l.length == f.nRaw ks && (List.range (f.nOut ks)).all (f.compOK ks (fun i => l.getD i (.lit 0 1)))

/-- every unit of the family meets the family's specification -/
def Family.ok (f : Family) (look : String → List Nat → Unit) : Bool := f.keys.all (f.okAt look)

/-- the table check only looks at the units named `f.unit` -/
theorem Family.ok_congr (f : Family) {l1 l2 : String → List Nat → Unit}
    (h : ∀ ks, l1 f.unit ks = l2 f.unit ks) : f.ok l1 = f.ok l2 := by
  have : f.okAt l1 = f.okAt l2 := by funext ks; unfold Family.okAt; rw [h ks]
  unfold Family.ok; rw [this]

def findFam (fs : List Family) (n : String) : Family := (fs.find? (·.name == n)).getD default

def v (i : Nat) : E := .var i
def one : E := .lit 1 1
def zero : E := .lit 0 1

/-- the nine matrix shapes (columns, rows) -/
def shapes : List (List Nat) := [[2,2],[2,3],[2,4],[3,2],[3,3],[3,4],[4,2],[4,3],[4,4]]
def squares : List (List Nat) := [[2],[3],[4]]

def k0 (ks : List Nat) : Nat := ks.getD 0 0
def k1 (ks : List Nat) : Nat := ks.getD 1 0
def k2 (ks : List Nat) : Nat := ks.getD 2 0
def k3 (ks : List Nat) : Nat := ks.getD 3 0

end Glm
