import GlmVerif.Core.Poly
/-!
Specification side, Mathlib-free.  A `Family` is a set of traced units that share
one textbook definition, written as a function from the unit's shape keys to an
expression per output component.  The property theorems (`Props/*`) state that the
generated units meet these specs; the native driver uses the very same table to
search for counterexamples when a theorem no longer checks.
-/
namespace Glm

inductive Kind
  | poly   -- decision-free, equal as polynomials in every commutative ring
  | syn    -- decision-free, literally the same expression
  | frac   -- decision-free, equal as rational functions in every field (denominators ≠ 0)
  deriving DecidableEq, Repr, Inhabited

structure Family where
  name : String
  kind : Kind
  keys : List (List Nat)
  nOut : List Nat → Nat
  spec : List Nat → Nat → E
  /-- divisors the code may use (kind `frac`): the theorem assumes exactly these are non-zero -/
  allowed : List Nat → List E := fun _ => []
  deriving Inhabited

def Family.unitName (f : Family) (ks : List Nat) : String :=
  ks.foldl (fun s k => s ++ "_" ++ toString k) f.name

/-- the decidable table check for one unit of a family -/
def Family.okAt (f : Family) (look : String → List Nat → Unit) (ks : List Nat) : Bool :=
  let u := look f.name ks
  match f.kind with
  | .poly => u.polyAgrees (f.nOut ks) (f.spec ks)
  | .syn => u.synAgrees (f.nOut ks) (f.spec ks)
  | .frac => u.fracAgrees (f.nOut ks) (f.spec ks) (f.allowed ks)

/-- every unit of the family meets the family's specification -/
def Family.ok (f : Family) (look : String → List Nat → Unit) : Bool := f.keys.all (f.okAt look)

def findFam (fs : List Family) (n : String) : Family := (fs.find? (·.name == n)).getD default

def v (i : Nat) : E := .var i
def one : E := .lit 1 1
def zero : E := .lit 0 1

/-- the nine matrix shapes (columns, rows) -/
def shapes : List (List Nat) := [[2,2],[2,3],[2,4],[3,2],[3,3],[3,4],[4,2],[4,3],[4,4]]
def squares : List (List Nat) := [[2],[3],[4]]

def k0 (ks : List Nat) : Nat := ks.getD 0 0
def k1 (ks : List Nat) : Nat := ks.getD 1 0
def k2 (ks : List Nat) : Nat := ks.getD 2 0
def k3 (ks : List Nat) : Nat := ks.getD 3 0

end Glm
