import GlmVerif.Spec.Basic
import GlmVerif.Core.Rename
/-!
C19 — colour-space conversions.
The literal constants are the exact values of the `double` literals in the source.
-/
namespace Glm.Spec.C19
open Glm

def k1292 : E := .lit 7273313398203351 562949953421312        -- 12.92
def k1055 : E := .lit 4751297606875873 4503599627370496       -- 1.055
def k0055 : E := .lit 7926335344172073 144115188075855872     -- 0.055
def thrL : E := .lit 7219133293246233 2305843009213693952     -- 0.0031308
def gam : E := .lit 7505879282960763 18014398509481984        -- 0.41666
def k9478 : E := .lit 266800925792091 281474976710656         -- 1/1.055
def k0773 : E := .lit 43571977818987 562949953421312          -- 1/12.92
def thrS : E := .lit 2914729678834185 72057594037927936       -- 0.04045
def g24 : E := .lit 5404319552844595 2251799813685248         -- 2.4
def w0 : E := .lit 1914930561557935 9007199254740992          -- 0.2126
def w1 : E := .lit 6441948906990757 9007199254740992          -- 0.7152
def w2 : E := .lit 5202558289538397 72057594037927936         -- 0.0722
def l0 : E := .lit 5944751508129055 18014398509481984         -- 0.33
def l1 : E := .lit 5314247560297185 9007199254740992          -- 0.59
def l2 : E := .lit 7926335344172073 72057594037927936         -- 0.11
def two : E := .lit 2 1
def four : E := .lit 4 1
def half : E := .lit 1 2
def shr1 (a : E) : E := .shr a one

/-! ### integer YCoCg-R (keys: 0 = int, 1 = unsigned): exactly lossless.
The identity is polynomial over the atoms `x >> 1`, so it holds in every commutative ring for **any**
interpretation of `>> 1` — in particular in `ℤ/2^w` for every width and signedness. -/
def f_ycocgr_rt : Family := { name := "ycocgr_rt", kind := .poly, keys := [[0],[1]], nOut := fun _ => 3, spec := fun _ j => v j }
def Co : E := .sub (v 0) (v 2)
def tmpF : E := .add (v 2) (shr1 Co)
def Cg : E := .sub (v 1) tmpF
def f_ycocgr_fwd : Family :=
  { name := "ycocgr_fwd", kind := .poly, keys := [[0],[1]], nOut := fun _ => 3,
    spec := fun _ j => match j with | 0 => .add tmpF (shr1 Cg) | 1 => Co | _ => Cg }
def tmpB : E := .sub (v 0) (shr1 (v 2))
def bB : E := .sub tmpB (shr1 (v 1))
def f_ycocgr_bwd : Family :=
  { name := "ycocgr_bwd", kind := .poly, keys := [[0],[1]], nOut := fun _ => 3,
    spec := fun _ j => match j with | 0 => .add bB (v 1) | 1 => .add (v 2) tmpB | _ => bB }

/-! ### floating YCoCg / YCoCg-R: mutually inverse in every field of characteristic zero -/
def f_ycocg_fwd : Family :=
  { name := "ycocg_fwd", kind := .frac, keys := [[]], nOut := fun _ => 3, allowed := fun _ => [two, four],
    spec := fun _ j => match j with
      | 0 => .add (.add (.div (v 0) four) (.div (v 1) two)) (.div (v 2) four)
      | 1 => .sub (.div (v 0) two) (.div (v 2) two)
      | _ => .sub (.add (.neg (.div (v 0) four)) (.div (v 1) two)) (.div (v 2) four) }
def f_ycocg_bwd : Family :=
  { name := "ycocg_bwd", kind := .poly, keys := [[]], nOut := fun _ => 3,
    spec := fun _ j => match j with
      | 0 => .sub (.add (v 0) (v 1)) (v 2) | 1 => .add (v 0) (v 2) | _ => .sub (.sub (v 0) (v 1)) (v 2) }
def f_ycocg_rt : Family := { name := "ycocg_rt", kind := .frac, keys := [[]], nOut := fun _ => 3, spec := fun _ j => v j, allowed := fun _ => [two, four] }
def f_ycocg_rt2 : Family := { name := "ycocg_rt2", kind := .frac, keys := [[]], nOut := fun _ => 3, spec := fun _ j => v j, allowed := fun _ => [two, four] }
def f_ycocgrf_rt : Family := { name := "ycocgrf_rt", kind := .frac, keys := [[]], nOut := fun _ => 3, spec := fun _ j => v j }
def f_ycocgrf_rt2 : Family := { name := "ycocgrf_rt2", kind := .frac, keys := [[]], nOut := fun _ => 3, spec := fun _ j => v j }

/-! ### sRGB transfer curves: per colour component the documented piecewise formula on the clamped input,
and the alpha component of the vec4 overloads is the input alpha -/
def powE (a b : E) : E := .call2 .pow a b
def encLeaf (x g : E) : E := .sub (.mul (powE x g) k1055) k0055
def encT (x g : E) : Tree :=
  .branch (.lt x zero) (.leaf (.mul zero k1292))
    (.branch (.lt one x) (.leaf (encLeaf one g))
      (.branch (.lt x thrL) (.leaf (.mul x k1292)) (.leaf (encLeaf x g))))
def decT (x g : E) : Tree :=
  .branch (.le x thrS) (.leaf (.mul x k0773)) (.leaf (powE (.mul (.add x k0055) k9478) g))
def mkCurve (name : String) (t : Nat → Nat → Tree) : Family :=
  { name := name, kind := .poly, treeMode := true, keys := [[3],[4]], nOut := k0, spec := fun _ _ => zero,
    specT := fun k j => if j = 3 then .leaf (v 3) else t (k0 k) j }
def f_lin2srgb := mkCurve "lin2srgb" fun _ j => encT (v j) gam
def f_lin2srgb_g := mkCurve "lin2srgb_g" fun L j => encT (v j) (.div one (v L))
def f_srgb2lin := mkCurve "srgb2lin" fun _ j => decT (v j) g24
def f_srgb2lin_g := mkCurve "srgb2lin_g" fun L j => decT (v j) (v L)

/-! ### saturation / luminosity -/
def wsum : E := .add (.add w0 w1) w2
/-- `saturation(s)` applied to the grey `(g,g,g,a)` gives `g · (s + (1-s)·W)` with `W` the sum of the three
luminance weights `0.2126 + 0.7152 + 0.0722` as written in the source (the `double` literals sum to
`1 - 3·2^-56`, see `Props/C19`) and leaves `a` unchanged.  Variable 0 = `s`, 1 = `g`, 2 = `a`. -/
def greyIn (r : Nat) : E := if r = 3 then v 2 else v 1
def f_saturation_grey : Family :=
  { name := "saturation_grey", unit := "saturation", kind := .frac, keys := [[]], nOut := fun _ => 4, nRaw := fun _ => 16, isPlain := false,
    post := fun _ o r => sumE ((List.range 4).map fun c => .mul (o (c * 4 + r)) (greyIn c)),
    spec := fun _ r => if r = 3 then v 2 else .mul (v 1) (.add (v 0) (.mul (.sub one (v 0)) wsum)) }
/-- `saturation(s, colour)` (vec3 and vec4 overloads) = `saturation(s) · colour`: channel `j` is `s·c_j + (1 − s)(w_r c_r + w_g c_g + w_b c_b)`, alpha is passed
    through.  Variable 0 = `s`, then the colour. -/
def satLum : E := .add (.add (.mul w0 (v 1)) (.mul w1 (v 2))) (.mul w2 (v 3))
def f_saturation3 : Family :=
  { name := "saturation3", kind := .frac, keys := [[]], nOut := fun _ => 3, spec := fun _ j => .add (.mul (v 0) (v (1 + j))) (.mul (.sub one (v 0)) satLum) }
def f_saturation4 : Family :=
  { name := "saturation4", kind := .frac, keys := [[]], nOut := fun _ => 4,
    spec := fun _ j => if j = 3 then v 4 else .add (.mul (v 0) (v (1 + j))) (.mul (.sub one (v 0)) satLum) }
/-- `luminosity(c) = 0.33 r + 0.59 g + 0.11 b` (the documented weights) -/
def f_luminosity : Family :=
  { name := "luminosity", kind := .frac, keys := [[]], nOut := fun _ => 1,
    spec := fun _ _ => .add (.add (.mul (v 0) l0) (.mul (v 1) l1)) (.mul (v 2) l2) }
/-- "preserve grey levels": `luminosity(g,g,g) = g` -/
def f_luminosity_grey : Family :=
  { name := "luminosity_grey", kind := .frac, keys := [[]], nOut := fun _ => 1, spec := fun _ _ => v 0 }


/-! `rgbColor(hsv)` (gtx/color_space): grey when the saturation is within `epsilon` of 0; otherwise with
    `hh = h·(1/60)`, `sec = floor hh`, `f = hh − sec`, `o = v(1−s)`, `p = v(1−s f)`, `q = v(1−s(1−f))` the textbook table
    sector 0: (v,q,o)  1: (p,v,o)  2: (o,v,q)  3: (o,p,v)  4: (q,o,v)  5: (v,o,p), any other sector as sector 0.
    The sector switch `switch(int(sec))` is traced as decisions `sec < k` (walk mode). -/
def hsvH : E := v 0
def hsvS : E := v 1
def hsvV : E := v 2
def hh : E := .mul hsvH (.div one (.lit 60 1))
def sec : E := .call1 .floor hh
def frc : E := .sub hh sec
def hsvO : E := .mul hsvV (.sub one hsvS)
def hsvP : E := .mul hsvV (.sub one (.mul hsvS frc))
def hsvQ : E := .mul hsvV (.sub one (.mul hsvS (.sub one frc)))
def sectorRGB (k j : Nat) : E :=
  ((match k with
    | 1 => [hsvP, hsvV, hsvO] | 2 => [hsvO, hsvV, hsvQ] | 3 => [hsvO, hsvP, hsvV]
    | 4 => [hsvQ, hsvO, hsvV] | 5 => [hsvV, hsvO, hsvP] | _ => [hsvV, hsvQ, hsvO]) : List E).getD j zero
def rgbColorT (j : Nat) : Tree :=
  .branch (.and (.le hsvS (.konst .eps)) (.le (.neg hsvS) (.konst .eps))) (.leaf hsvV)
    (.branch (.lt sec (.lit 1 1)) (.leaf (sectorRGB 0 j))
    (.branch (.lt sec (.lit 2 1)) (.leaf (sectorRGB 1 j))
    (.branch (.lt sec (.lit 3 1)) (.leaf (sectorRGB 2 j))
    (.branch (.lt sec (.lit 4 1)) (.leaf (sectorRGB 3 j))
    (.branch (.lt sec (.lit 5 1)) (.leaf (sectorRGB 4 j))
    (.branch (.lt sec (.lit 6 1)) (.leaf (sectorRGB 5 j)) (.leaf (sectorRGB 0 j))))))))
def f_rgbColor : Family :=
  { name := "rgbColor", kind := .poly, treeMode := true, treeWalk := true, keys := [[]], nOut := fun _ => 3,
    spec := fun _ _ => zero, specT := fun _ j => rgbColorT j }

/-! `hsvColor(rgb)`: `V = max`, `S = (max − min)/max`, hue by the dominant channel (`60(g−b)/Δ`, `120 + 60(b−r)/Δ`,
    `240 + 60(r−g)/Δ`, plus 360 when negative); black (max within `epsilon` of 0) gives `(0, 0, max)`.  "Dominant" is decided
    as the code does, with `equal(channel, max, epsilon)` in the order r, g, b.  Walk mode: the traced tree interleaves the
    `min`/`max` decisions with the guards differently. -/
def cR : E := v 0
def cG : E := v 1
def cB : E := v 2
def nearE (a b : E) : C := .and (.le (.sub a b) (.konst .eps)) (.le (.neg (.sub a b)) (.konst .eps))
def withMax3 (k : E → Tree) : Tree :=
  .branch (.lt cR cG) (.branch (.lt cG cB) (k cB) (k cG)) (.branch (.lt cR cB) (k cB) (k cR))
def withMin3 (k : E → Tree) : Tree :=
  .branch (.lt cG cR) (.branch (.lt cB cG) (k cB) (k cG)) (.branch (.lt cB cR) (k cB) (k cR))
def hueWrap (h : E) : Tree := .branch (.lt h zero) (.leaf (.add h (.lit 360 1))) (.leaf h)
def hsvBody (j : Nat) (mn mx : E) : Tree :=
  let d := E.sub mx mn
  let k60 : E := .lit 60 1
  .branch (nearE mx zero) (.leaf (if j = 2 then mx else zero))
    (if j = 2 then .leaf mx
     else if j = 1 then .leaf (.div d mx)
     else .branch (nearE cR mx) (hueWrap (.add zero (.div (.mul k60 (.sub cG cB)) d)))
       (.branch (nearE cG mx) (hueWrap (.add (.lit 120 1) (.div (.mul k60 (.sub cB cR)) d)))
         (hueWrap (.add (.lit 240 1) (.div (.mul k60 (.sub cR cG)) d)))))
def hsvColorT (j : Nat) : Tree := withMin3 fun mn => withMax3 fun mx => hsvBody j mn mx
def f_hsvColor : Family :=
  { name := "hsvColor", kind := .frac, treeMode := true, treeWalk := true, divFree := true, keys := [[]], nOut := fun _ => 3,
    spec := fun _ _ => zero, specT := fun _ j => hsvColorT j }

def families : List Family :=
  [f_ycocgr_rt, f_ycocgr_fwd, f_ycocgr_bwd, f_ycocg_fwd, f_ycocg_bwd, f_ycocg_rt, f_ycocg_rt2, f_ycocgrf_rt, f_ycocgrf_rt2,
   f_lin2srgb, f_lin2srgb_g, f_srgb2lin, f_srgb2lin_g, f_saturation_grey, f_luminosity, f_rgbColor, f_hsvColor, f_saturation3, f_saturation4]

/-- clauses of the property that glm does not satisfy on the pinned tree: recorded findings, proved *false*
    in `Findings/C19.lean`, searched for witnesses by the driver like every other family -/
def refuted : List Family := [f_luminosity_grey]

end Glm.Spec.C19
