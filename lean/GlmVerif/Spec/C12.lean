import GlmVerif.Spec.Basic
/-!
C12 — Euclidean identities of the geometric functions.
A `vec<L>` argument occupies `L` consecutive variables; `vv b i = v (b + i)`.
-/
namespace Glm.Spec.C12
open Glm

def vv (base i : Nat) : E := v (base + i)
def dotE (L : Nat) (a b : Nat → E) : E := sumE ((List.range L).map fun i => .mul (a i) (b i))
def sqrtE (a : E) : E := .call1 .sqrt a
def two : E := .lit 2 1
def lens : List (List Nat) := [[1],[2],[3],[4]]
def lens24 : List (List Nat) := [[2],[3],[4]]
def L (k : List Nat) : Nat := k0 k

def f_dot : Family :=
  { name := "dot", kind := .poly, keys := lens, nOut := fun _ => 1, spec := fun k _ => dotE (L k) (vv 0) (vv (L k)) }
def f_length : Family :=
  { name := "length", kind := .poly, guard := true, keys := lens, nOut := fun _ => 1,
    spec := fun k _ => sqrtE (dotE (L k) (vv 0) (vv 0)) }
def diff (L : Nat) (i : Nat) : E := .sub (vv L i) (vv 0 i)      -- p1 - p0
def f_distance : Family :=
  { name := "distance", kind := .poly, guard := true, keys := lens, nOut := fun _ => 1,
    spec := fun k _ => sqrtE (dotE (L k) (diff (L k)) (diff (L k))) }
def f_length2 : Family :=
  { name := "length2", kind := .poly, keys := lens, nOut := fun _ => 1, spec := fun k _ => dotE (L k) (vv 0) (vv 0) }
def f_distance2 : Family :=
  { name := "distance2", kind := .poly, keys := lens, nOut := fun _ => 1,
    spec := fun k _ => dotE (L k) (diff (L k)) (diff (L k)) }

/-- `normalize v = v / sqrt (v·v)`; the only divisor is `sqrt (v·v)` -/
def nrm (L : Nat) : E := sqrtE (dotE L (vv 0) (vv 0))
def f_normalize : Family :=
  { name := "normalize", kind := .frac, guard := true, keys := lens, nOut := L,
    spec := fun k j => .div (vv 0 j) (nrm (L k)), allowed := fun k => [nrm (L k)] }
/-- `|normalize v|² = 1`, given only `sqrt(d)² = d` for the `d = v·v` the code passes to `sqrt` -/
def f_normalize_unit : Family :=
  { name := "normalize_unit", unit := "normalize", kind := .fracMod, keys := lens, nOut := fun _ => 1, nRaw := L,
    isPlain := false,
    post := fun k o _ => dotE (L k) o o, spec := fun _ _ => one,
    hyps := fun k => [(.mul (nrm (L k)) (nrm (L k)), dotE (L k) (vv 0) (vv 0))], cert := fun _ _ => [.lit (-1) 1],
    allowed := fun k => [nrm (L k)] }

/-- `faceforward(N, I, Nref) = dot(Nref, I) < 0 ? N : -N` -/
def f_faceforward : Family :=
  { name := "faceforward", kind := .poly, treeMode := true, keys := lens, nOut := L, spec := fun _ _ => zero,
    specT := fun k j => .branch (.lt (dotE (L k) (vv (2 * L k)) (vv (L k))) zero) (.leaf (vv 0 j)) (.leaf (.neg (vv 0 j))) }

/-- `reflect(I, N) = I - 2 (N·I) N` -/
def dNI (L : Nat) : E := dotE L (vv L) (vv 0)
def f_reflect : Family :=
  { name := "reflect", kind := .poly, keys := lens, nOut := L,
    spec := fun k j => .sub (vv 0 j) (.mul (.mul two (dNI (L k))) (vv (L k) j)) }
/-- length preserving for unit `N`: `|reflect(I,N)|² = |I|²` modulo `N·N = 1` -/
def f_reflect_len : Family :=
  { name := "reflect_len", unit := "reflect", kind := .polyMod, keys := lens, nOut := fun _ => 1, nRaw := L, isPlain := false,
    post := fun k o _ => dotE (L k) o o, spec := fun k _ => dotE (L k) (vv 0) (vv 0),
    hyps := fun k => [(dotE (L k) (vv (L k)) (vv (L k)), one)],
    cert := fun k _ => [.mul (.lit 4 1) (.mul (dNI (L k)) (dNI (L k)))] }
/-- involution for unit `N`: reflecting the result again gives `I` back -/
def f_reflect_inv : Family :=
  { name := "reflect_inv", unit := "reflect", kind := .polyMod, keys := lens, nOut := L, isPlain := false,
    post := fun k o j => .sub (o j) (.mul (.mul two (dotE (L k) (vv (L k)) o)) (vv (L k) j)),
    spec := fun _ j => vv 0 j,
    hyps := fun k => [(dotE (L k) (vv (L k)) (vv (L k)), one)],
    cert := fun k j => [.mul (.mul (.lit 4 1) (dNI (L k))) (vv (L k) j)] }

/-- `refract(I, N, eta)`: `k = 1 - eta² (1 - (N·I)²)`; `k ≥ 0 ? eta I - (eta (N·I) + sqrt k) N : 0` -/
def kE (L : Nat) : E :=
  let eta := v (2 * L); let d := dNI L
  .sub one (.mul (.mul eta eta) (.sub one (.mul d d)))
def refrLeaf (L j : Nat) : E :=
  let eta := v (2 * L)
  .sub (.mul eta (vv 0 j)) (.mul (.add (.mul eta (dNI L)) (sqrtE (kE L))) (vv L j))
def f_refract : Family :=
  { name := "refract", kind := .poly, treeMode := true, guard := true, keys := lens, nOut := L, spec := fun _ _ => zero,
    specT := fun k j => .branch (.le zero (kE (L k))) (.leaf (refrLeaf (L k) j)) (.leaf zero) }

/-! scalar (genType) overloads: the same definitions with `L = 1` -/
def f_sdot : Family := { name := "sdot", kind := .poly, keys := [[]], nOut := fun _ => 1, spec := fun _ _ => .mul (v 0) (v 1) }
def absT (x : E) : Tree := .branch (.le zero x) (.leaf x) (.leaf (.neg x))
def f_slength : Family :=
  { name := "slength", kind := .poly, treeMode := true, keys := [[]], nOut := fun _ => 1, spec := fun _ _ => zero,
    specT := fun _ _ => absT (v 0) }
def f_sdistance : Family :=
  { name := "sdistance", kind := .poly, treeMode := true, keys := [[]], nOut := fun _ => 1, spec := fun _ _ => zero,
    specT := fun _ _ => absT (.sub (v 1) (v 0)) }
def f_sfaceforward : Family :=
  { name := "sfaceforward", kind := .poly, treeMode := true, keys := [[]], nOut := fun _ => 1, spec := fun _ _ => zero,
    specT := fun _ _ => .branch (.lt (.mul (v 2) (v 1)) zero) (.leaf (v 0)) (.leaf (.neg (v 0))) }
def f_sreflect : Family :=
  { name := "sreflect", kind := .poly, keys := [[]], nOut := fun _ => 1,
    spec := fun _ _ => .sub (v 0) (.mul (.mul two (.mul (v 1) (v 0))) (v 1)) }
/-- the scalar overload must behave as the 1-component vector one, *including* evaluating no `sqrt` of a
    negative number on total internal reflection (`guard`) -/
def f_srefract : Family :=
  { name := "srefract", kind := .poly, treeMode := true, guard := true, keys := [[]], nOut := fun _ => 1, spec := fun _ _ => zero,
    specT := fun _ _ => .branch (.le zero (kE 1)) (.leaf (refrLeaf 1 0)) (.leaf zero) }

/-! cross products -/
def crossE (a b : Nat → E) (j : Nat) : E :=
  let i1 := (j + 1) % 3; let i2 := (j + 2) % 3
  .sub (.mul (a i1) (b i2)) (.mul (a i2) (b i1))
def f_cross : Family :=
  { name := "cross", kind := .poly, keys := [[3]], nOut := fun _ => 3, spec := fun _ j => crossE (vv 0) (vv 3) j }
/-- `cross(a,b)` is orthogonal to `a` and to `b` -/
def f_cross_orth : Family :=
  { name := "cross_orth", unit := "cross", kind := .poly, keys := [[3]], nOut := fun _ => 2, nRaw := fun _ => 3, isPlain := false,
    post := fun _ o j => dotE 3 o (vv (3 * j)), spec := fun _ _ => zero }
def f_cross2 : Family :=
  { name := "cross2", unit := "cross", kind := .poly, keys := [[2]], nOut := fun _ => 1,
    spec := fun _ _ => .sub (.mul (v 0) (v 3)) (.mul (v 2) (v 1)) }
/-- `mixedProduct(a,b,c) = (a × b) · c` -/
def f_mixed : Family :=
  { name := "mixed", kind := .poly, keys := [[]], nOut := fun _ => 1, spec := fun _ _ => dotE 3 (crossE (vv 0) (vv 3)) (vv 6) }

/-! gtx/projection, gtx/perpendicular: `proj(x, n) = (x·n)/(n·n) n`, `perp(x, n) = x - proj(x, n)` -/
def projE (L j : Nat) : E := .mul (.div (dotE L (vv 0) (vv L)) (dotE L (vv L) (vv L))) (vv L j)
def f_proj : Family :=
  { name := "proj", kind := .frac, keys := lens24, nOut := L, spec := fun k j => projE (L k) j,
    allowed := fun k => [dotE (L k) (vv (L k)) (vv (L k))] }
def f_perp : Family :=
  { name := "perp", kind := .frac, keys := lens24, nOut := L, spec := fun k j => .sub (vv 0 j) (projE (L k) j),
    allowed := fun k => [dotE (L k) (vv (L k)) (vv (L k))] }
/-- `perp(x,n) · n = 0` -/
def f_perp_orth : Family :=
  { name := "perp_orth", unit := "perp", kind := .frac, keys := lens24, nOut := fun _ => 1, nRaw := L, isPlain := false,
    post := fun k o _ => dotE (L k) o (vv (L k)), spec := fun _ _ => zero,
    allowed := fun k => [dotE (L k) (vv (L k)) (vv (L k))] }

/-- `angle(x, y) = acos(clamp(dot(x, y), -1, 1))`; the `acos` argument is in `[-1, 1]` on every path -/
def f_angle : Family :=
  { name := "angle", kind := .poly, treeMode := true, guard := true, keys := lens24, nOut := fun _ => 1, spec := fun _ _ => zero,
    specT := fun k _ =>
      let d := dotE (L k) (vv 0) (vv (L k))
      .branch (.lt d (.lit (-1) 1)) (.leaf (.call1 .acos (.lit (-1) 1)))
        (.branch (.lt one d) (.leaf (.call1 .acos one)) (.leaf (.call1 .acos d))) }

/-- `triangleNormal(p1,p2,p3) = normalize(cross(p1 - p2, p1 - p3))` -/
def f_trinormal : Family :=
  { name := "trinormal", kind := .frac, guard := true, keys := [[]], nOut := fun _ => 3,
    spec := fun _ j =>
      let a := fun i => E.sub (vv 0 i) (vv 3 i); let b := fun i => E.sub (vv 0 i) (vv 6 i)
      let c := crossE a b
      .div (c j) (sqrtE (dotE 3 c c)),
    allowed := fun _ =>
      let a := fun i => E.sub (vv 0 i) (vv 3 i); let b := fun i => E.sub (vv 0 i) (vv 6 i)
      let c := crossE a b
      [sqrtE (dotE 3 c c)] }


/-- `closestPointOnLine(p, a, b)` (gtx, vec2 and vec3): with `len = |b - a|`, `dir = (b - a)/len`, `t = (p - a)·dir`:
    `t ≤ 0 ? a : (len ≤ t ? b : a + dir t)` — the projection clamped to the segment; the only divisor is `len` -/
def clLen (L : Nat) : E := sqrtE (dotE L (fun i => .sub (vv (2 * L) i) (vv L i)) (fun i => .sub (vv (2 * L) i) (vv L i)))
def clDir (L i : Nat) : E := .div (.sub (vv (2 * L) i) (vv L i)) (clLen L)
def clT (L : Nat) : E := dotE L (fun i => .sub (vv 0 i) (vv L i)) (clDir L)
def f_closest : Family :=
  { name := "closest", kind := .frac, treeMode := true, guard := true, keys := [[2],[3]], nOut := L, spec := fun _ _ => zero,
    allowed := fun k => [clLen (L k)],
    specT := fun k j => .branch (.le (clT (L k)) zero) (.leaf (vv (L k) j))
      (.branch (.le (clLen (L k)) (clT (L k))) (.leaf (vv (2 * L k) j)) (.leaf (.add (vv (L k) j) (.mul (clDir (L k) j) (clT (L k)))))) }

/-! gtx norms, oriented angles, orthonormalize (walk mode where the code branches: the specification is the textbook tree) -/
def acosE (a : E) : E := .call1 .acos a
def mone : E := .lit (-1) 1
/-- `acos(clamp(d, -1, 1))` as a tree -/
def acosClampT (d : E) (wrap : E → E) : Tree :=
  .branch (.lt d mone) (.leaf (wrap (acosE mone))) (.branch (.lt one d) (.leaf (wrap (acosE one))) (.leaf (wrap (acosE d))))
/-- scalar overload: the 1-component instance of `angle` -/
def f_sangle : Family :=
  { name := "sangle", kind := .poly, treeMode := true, guard := true, keys := [[]], nOut := fun _ => 1, spec := fun _ _ => zero,
    specT := fun _ _ => acosClampT (.mul (v 0) (v 1)) id }
/-- `orientedAngle(x, y)` (vec2): the angle, positive iff `x.x y.y − y.x x.y > 0` -/
def f_orientedangle2 : Family :=
  { name := "orientedangle2", unit := "orientedangle", kind := .poly, treeMode := true, treeWalk := true, guard := true, keys := [[2]],
    nOut := fun _ => 1, spec := fun _ _ => zero,
    specT := fun _ _ =>
      let d := dotE 2 (vv 0) (vv 2)
      .branch (.lt zero (.sub (.mul (v 0) (v 3)) (.mul (v 2) (v 1)))) (acosClampT d id) (acosClampT d .neg) }
/-- `orientedAngle(x, y, ref)` (vec3): the angle, negated iff `ref · (x × y) < 0` -/
def f_orientedangle3 : Family :=
  { name := "orientedangle3", unit := "orientedangle", kind := .poly, treeMode := true, treeWalk := true, guard := true, keys := [[3]],
    nOut := fun _ => 1, spec := fun _ _ => zero,
    specT := fun _ _ =>
      let d := dotE 3 (vv 0) (vv 3)
      let tr := dotE 3 (vv 6) (crossE (vv 0) (vv 3))
      .branch (.lt tr zero) (acosClampT d .neg) (acosClampT d id) }
/-- sum of absolute values as a decision tree: `|a| = (0 ≤ a ? a : −a)` -/
def absSumT : List E → E → Tree
  | [], acc => .leaf acc
  | a :: as, acc => .branch (.le zero a) (absSumT as (.add acc a)) (absSumT as (.add acc (.neg a)))
def f_l1norm : Family :=
  { name := "l1norm", kind := .poly, treeMode := true, treeWalk := true, keys := [[3]], nOut := fun _ => 1, spec := fun _ _ => zero,
    specT := fun _ _ => absSumT [v 0, v 1, v 2] zero }
def f_l1norm2 : Family :=
  { name := "l1norm2", kind := .poly, treeMode := true, treeWalk := true, keys := [[3]], nOut := fun _ => 1, spec := fun _ _ => zero,
    specT := fun _ _ => absSumT [.sub (v 3) (v 0), .sub (v 4) (v 1), .sub (v 5) (v 2)] zero }
def f_l2norm : Family :=
  { name := "l2norm", kind := .poly, guard := true, keys := [[3]], nOut := fun _ => 1, spec := fun _ _ => sqrtE (dotE 3 (vv 0) (vv 0)) }
/-- `lMaxNorm(v) = max(max(|x|, |y|), |z|)` with glm's `max(a, b) = (a < b) ? b : a` -/
def absThen (a : E) (k : E → Tree) : Tree := .branch (.le zero a) (k a) (k (.neg a))
def max3T (a b c : E) : Tree :=
  .branch (.lt a b) (.branch (.lt b c) (.leaf c) (.leaf b)) (.branch (.lt a c) (.leaf c) (.leaf a))
def f_lmaxnorm : Family :=
  { name := "lmaxnorm", kind := .poly, treeMode := true, treeWalk := true, keys := [[3]], nOut := fun _ => 1, spec := fun _ _ => zero,
    specT := fun _ _ => absThen (v 0) fun a => absThen (v 1) fun b => absThen (v 2) fun c => max3T a b c }
/-- two-argument norms act on the difference `b − a` -/
def dv (i : Nat) : E := .sub (v (3 + i)) (v i)
def f_l2norm2 : Family :=
  { name := "l2norm2", kind := .poly, guard := true, keys := [[3]], nOut := fun _ => 1, spec := fun _ _ => sqrtE (dotE 3 dv dv) }
def f_lmaxnorm2 : Family :=
  { name := "lmaxnorm2", kind := .poly, treeMode := true, treeWalk := true, keys := [[3]], nOut := fun _ => 1, spec := fun _ _ => zero,
    specT := fun _ _ => absThen (dv 0) fun a => absThen (dv 1) fun b => absThen (dv 2) fun c => max3T a b c }
/-- `lxNorm(v, n) = (|x|ⁿ + |y|ⁿ + |z|ⁿ)^(1/n)` (traced at `n = 3`; `pow` is the library call) -/
def lxLeaf (a b c : E) : E :=
  .call2 .pow (.add (.add (.call2 .pow a (.lit 3 1)) (.call2 .pow b (.lit 3 1))) (.call2 .pow c (.lit 3 1))) (.div one (.lit 3 1))
def f_lxnorm : Family :=
  { name := "lxnorm", kind := .poly, treeMode := true, treeWalk := true, keys := [[3]], nOut := fun _ => 1, spec := fun _ _ => zero,
    specT := fun _ _ => absThen (v 0) fun a => absThen (v 1) fun b => absThen (v 2) fun c => .leaf (lxLeaf a b c) }
def f_lxnorm2 : Family :=
  { name := "lxnorm2", kind := .poly, treeMode := true, treeWalk := true, keys := [[3]], nOut := fun _ => 1, spec := fun _ _ => zero,
    specT := fun _ _ => absThen (dv 0) fun a => absThen (dv 1) fun b => absThen (dv 2) fun c => .leaf (lxLeaf a b c) }
/-- `orthonormalize(x, y) = normalize(x − y (y·x))`; the only divisor is the length of that difference -/
def onD (i : Nat) : E := .sub (vv 0 i) (.mul (vv 3 i) (dotE 3 (vv 3) (vv 0)))
def onLen : E := sqrtE (dotE 3 onD onD)
def f_orthonormalize : Family :=
  { name := "orthonormalize", unit := "orthonormalize_v", kind := .frac, guard := true, keys := [[]], nOut := fun _ => 3,
    spec := fun _ j => .mul (onD j) (.div one onLen), allowed := fun _ => [onLen] }

def families : List Family :=
  [f_dot, f_length, f_distance, f_length2, f_distance2, f_normalize, f_normalize_unit, f_faceforward,
   f_reflect, f_reflect_len, f_reflect_inv, f_refract, f_sdot, f_slength, f_sdistance, f_sfaceforward,
   f_sreflect, f_srefract, f_cross, f_cross_orth, f_cross2, f_mixed, f_proj, f_perp, f_perp_orth, f_angle,
   f_trinormal, f_closest, f_sangle, f_orientedangle2, f_orientedangle3, f_l1norm, f_l1norm2, f_l2norm, f_lmaxnorm, f_orthonormalize, f_l2norm2, f_lmaxnorm2, f_lxnorm, f_lxnorm2]

end Glm.Spec.C12
