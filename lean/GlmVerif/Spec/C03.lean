import GlmVerif.Core.TreeEqv
import GlmVerif.Core.Rename
/-!
C03 — the SIMD specialisations against the generic code, Mathlib-free (the native driver runs the same
checks to locate a failing operation and to search a witness).

For an operation `op` the generated data has `op_0` (generic code on packed types) and `op_<1+isa>` (the code glm
selects for aligned types under `GLM_FORCE_INTRINSICS` at ISA level `isa`, traced through the fake intrinsics),
both over the same input variables.  Two classes, as in the property statement:

* `ident` — integer, bitwise, comparison, selection, rounding-to-integer and single-operation floating results:
  at every jointly reachable pair of leaves the two expressions are the **same expression** up to the order of the
  operands of `+` and `*` (`identEq`; both are commutative in IEEE arithmetic, so the rounding sequence is the
  same), possibly after identifying two operands that the decisions force to be equal (the tie of a `min`/`max`);
* `field` — multi-term expressions: the leaves are equal as rational functions over their atoms after `fma a b c` is
  read as `a*b + c`; the numerical difference is then only the rounding of the individual operations.

Decisions are compared by walking both trees (`treeEqv`): the SIMD code may ask the same questions in another order.
-/
namespace Glm.Spec.C03
open Glm

/-- the same expression up to the order of the operands of `+` and `*` -/
def identEq : E → E → Bool
  | .add a1 a2, .add b1 b2 => (identEq a1 b1 && identEq a2 b2) || (identEq a1 b2 && identEq a2 b1)
  | .mul a1 a2, .mul b1 b2 => (identEq a1 b1 && identEq a2 b2) || (identEq a1 b2 && identEq a2 b1)
  | .sub a1 a2, .sub b1 b2 => identEq a1 b1 && identEq a2 b2
  | .div a1 a2, .div b1 b2 => identEq a1 b1 && identEq a2 b2
  | .neg a, .neg b => identEq a b
  | .call1 f a, .call1 g b => f == g && identEq a b
  | .call2 f a1 a2, .call2 g b1 b2 => f == g && identEq a1 b1 && identEq a2 b2
  | .call3 f a1 a2 a3, .call3 g b1 b2 b3 => f == g && identEq a1 b1 && identEq a2 b2 && identEq a3 b3
  | .band a1 a2, .band b1 b2 => (identEq a1 b1 && identEq a2 b2) || (identEq a1 b2 && identEq a2 b1)
  | .bor a1 a2, .bor b1 b2 => (identEq a1 b1 && identEq a2 b2) || (identEq a1 b2 && identEq a2 b1)
  | .bxor a1 a2, .bxor b1 b2 => (identEq a1 b1 && identEq a2 b2) || (identEq a1 b2 && identEq a2 b1)
  | .bnot a, .bnot b => identEq a b
  | .shl a1 a2, .shl b1 b2 => identEq a1 b1 && identEq a2 b2
  | .shr a1 a2, .shr b1 b2 => identEq a1 b1 && identEq a2 b2
  | .imod a1 a2, .imod b1 b2 => identEq a1 b1 && identEq a2 b2
  | .cast t a, .cast u b => t == u && identEq a b
  | a, b => a == b

/-! ### pre-passes that give library idioms the meaning both sides agree on

Real-typed units: a leaf `abs t` (the `andps` mask) is the decision `0 ≤ t ? t : -t` the generic code writes.
Integer units: the leaf `(t ^ (t >> 31)) - (t >> 31)` is the same decision, and the bit tests of the SIMD integer
compares are read as comparisons: `(t & t) == z` is `t == z`, `(x ^ y) == 0` is `x == y`. -/

def absArgR : E → Option E
  | .call1 .abs t => some t
  | _ => none

def absArgI : E → Option E
  | .sub (.bxor t (.shr t' (.lit 31 1))) (.shr t'' (.lit 31 1)) => if t == t' && t == t'' then some t else none
  | _ => none

/-- a leaf that is exactly an absolute value becomes the decision `0 ≤ t ? t : -t` -/
def expandAbs (absArg : E → Option E) : Tree → Tree
  | .leaf e =>
    match absArg e with
    | some t => .branch (.le (.lit 0 1) t) (.leaf t) (.leaf (.neg t))
    | none => .leaf e
  | .branch c t f => .branch c (expandAbs absArg t) (expandAbs absArg f)

def normC : C → C
  | .eq (.band t t') z => if t == t' then .eq t z else .eq (.band t t') z
  | .eq (.bxor x y) (.lit 0 1) => .eq x y
  | .not c => .not (normC c)
  | .and a b => .and (normC a) (normC b)
  | .or a b => .or (normC a) (normC b)
  | c => c

def normConds : Tree → Tree
  | .leaf e => .leaf e
  | .branch c t f => .branch (normC (normC c)) (normConds t) (normConds f)

inductive Mode
  | ident      -- same expression at every jointly reachable pair of leaves
  | field      -- equal as rational functions (fma read as a*b+c)
  | sqrtsq     -- `field` modulo `sqrt t * sqrt t = t` for the square roots that occur (lowp `x * rsqrt x`)
  deriving DecidableEq, Repr, Inhabited

/-- `ident` leaves: the same expression, possibly after identifying a pair of operands the path forces equal -/
def leafIdent (path : Path) (a b : E) : Bool :=
  identEq a b ||
  (eqCandsLin (normPath path)).any fun σ =>
    identEq (a.rewrite [σ]) (b.rewrite [σ]) || identEq (a.rewrite [(σ.2, σ.1)]) (b.rewrite [(σ.2, σ.1)])

/-- `field` leaves: the same (as above), or equal as polynomials / rational functions over the atoms -/
def leafField (path : Path) (a b : E) : Bool := leafIdent path a b || polyEq a b || fracEq a b

/-- the square-root atoms of an expression (not looking inside other atoms) -/
def sqrtAtoms : E → List E
  | .add a b | .sub a b | .mul a b | .div a b => sqrtAtoms a ++ sqrtAtoms b
  | .neg a => sqrtAtoms a
  | .call1 .sqrt t => [.call1 .sqrt t]
  | _ => []

def sqrtHyps (a b : E) : List (E × E) :=
  ((sqrtAtoms a ++ sqrtAtoms b).eraseDups).filterMap fun s =>
    match s with
    | .call1 .sqrt t => some (.mul s s, t)
    | _ => none

/-- `sqrt 0 = 0` as a rewrite -/
def sqrtZero : E × E := (.call1 .sqrt (.lit 0 1), .lit 0 1)

/-- equal as rational functions modulo `sqrt t * sqrt t = t`, with a constant multiplier `±1` per hypothesis; or the same
    expression after identifying a pair of operands the path forces equal and reading `sqrt 0` as `0` (the guarded
    `x == 0 ? 0 : x * rsqrt x`) -/
def leafSqrt (path : Path) (a b : E) : Bool :=
  leafField path a b ||
  (let h := sqrtHyps a b
   fracEqMod h (h.map fun _ => .lit 1 1) a b || fracEqMod h (h.map fun _ => .lit (-1) 1) a b) ||
  (eqCandsLin (normPath path)).any fun σ =>
    identEq ((a.rewrite [σ]).rewrite [sqrtZero]) ((b.rewrite [σ]).rewrite [sqrtZero]) ||
    identEq ((a.rewrite [(σ.2, σ.1)]).rewrite [sqrtZero]) ((b.rewrite [(σ.2, σ.1)]).rewrite [sqrtZero])

def leafOf : Mode → Path → E → E → Bool
  | .ident => leafIdent
  | .field => leafField
  | .sqrtsq => leafSqrt

/-- pre-passes by unit type -/
def prepR : Mode → Tree → Tree
  | .ident => expandAbs absArgR
  | .field => fun t => expandAbs absArgR t.expandFma
  | .sqrtsq => fun t => expandAbs absArgR t.expandFma
def prepI (t : Tree) : Tree := normConds (expandAbs absArgI t)

/-- output `j` of the generic unit `p` and of the SIMD unit `s` agree (real-typed units) -/
def outOKR (m : Mode) (p s : Unit) (j : Nat) : Bool :=
  treeEqv impliedLin (leafOf m) [] (prepR m (p.out j)) (prepR m (s.out j))
/-- integer units: always the `ident` class -/
def outOKI (p s : Unit) (j : Nat) : Bool :=
  treeEqv impliedLin leafIdent [] (prepI (p.out j)) (prepI (s.out j))

def pairOK (m : Mode) (p s : Unit) : Bool :=
  p.ty == s.ty && p.nIn == s.nIn && p.outs.length == s.outs.length && p.outs.length != 0 &&
  (List.range p.outs.length).all fun j => if p.ty == .r then outOKR m p s j else (m == .ident && outOKI p s j)

end Glm.Spec.C03

namespace Glm.Spec.C03
/-- all ISA levels of operation `op`: the generic unit `op_0` against the SIMD unit of every level (levels with the
    same tree share a key, so each distinct tree is compared once), except the `(op, key)` pairs listed as not modelled -/
def opOK (table : List (String × (List Nat → Unit))) (variantOf : List (String × List Nat))
    (unmodelled : List (String × Nat)) (op : String) (m : Mode) : Bool :=
  match table.find? (·.1 == op), variantOf.find? (·.1 == op) with
  | some tl, some vk =>
    vk.2.length == 8 && vk.2.all (· != 0) &&
    vk.2.eraseDups.all fun k => unmodelled.contains (op, k) || pairOK m (tl.2 [0]) (tl.2 [k])
  | _, _ => false
end Glm.Spec.C03
