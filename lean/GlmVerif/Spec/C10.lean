import GlmVerif.Spec.Basic
/-!
C10 — inverse, determinant and their gtc variants.
`M[c][r] = v (c*N + r)`.  The inverse is specified by its *defining identities*
`inverse(M) * M = I` and `M * inverse(M) = I` (entries of the product built from the
traced outputs by `post`), under the single side condition that the determinant —
the only thing the code divides by — is non-zero.
-/
namespace Glm.Spec.C10
open Glm

/-- Laplace expansion along the rows: determinant of the sub-matrix with rows `row, row+1, …` and
    the columns `cols` -/
def detL (a : Nat → Nat → E) : (fuel : Nat) → (cols : List Nat) → (row : Nat) → E
  | 0, _, _ => one
  | fuel + 1, cols, row =>
    match cols with
    | [] => one
    | [c] => a c row
    | _ => sumE ((List.range cols.length).map fun i =>
        let t := E.mul (a (cols.getD i 0) row) (detL a fuel (cols.eraseIdx i) (row + 1))
        if i % 2 = 0 then t else .neg t)

/-- the Leibniz/Laplace determinant of the `N×N` matrix `M[c][r] = a c r` -/
def detE (N : Nat) (a : Nat → Nat → E) : E := detL a N (List.range N) 0

def M (N : Nat) (base : Nat) (c r : Nat) : E := v (base + c * N + r)
def delta (c r : Nat) : E := if c = r then one else zero

/-- entry (column `j / N`, row `j % N`) of `A * B` for `N×N` matrices given entry-wise -/
def mulEntry (N : Nat) (A B : Nat → Nat → E) (j : Nat) : E :=
  sumE ((List.range N).map fun k => .mul (A k (j % N)) (B (j / N) k))

def outM (N : Nat) (o : Nat → E) (c r : Nat) : E := o (c * N + r)
def transp (A : Nat → Nat → E) (c r : Nat) : E := A r c

def f_det : Family :=
  { name := "det", kind := .poly, keys := squares, nOut := fun _ => 1, spec := fun k _ => detE (k0 k) (M (k0 k) 0) }
def f_inv_left : Family :=
  { name := "inv_left", unit := "inv", kind := .frac, keys := squares, nOut := fun k => k0 k * k0 k, isPlain := false,
    post := fun k o => mulEntry (k0 k) (outM (k0 k) o) (M (k0 k) 0),
    spec := fun k j => delta (j / k0 k) (j % k0 k), allowed := fun k => [detE (k0 k) (M (k0 k) 0)] }
def f_inv_right : Family :=
  { name := "inv_right", unit := "inv", kind := .frac, keys := squares, nOut := fun k => k0 k * k0 k, isPlain := false,
    post := fun k o => mulEntry (k0 k) (M (k0 k) 0) (outM (k0 k) o),
    spec := fun k j => delta (j / k0 k) (j % k0 k), allowed := fun k => [detE (k0 k) (M (k0 k) 0)] }
/-- `inverseTranspose(M)ᵀ * M = I` -/
def f_invtr : Family :=
  { name := "invtr", kind := .frac, keys := squares, nOut := fun k => k0 k * k0 k, isPlain := false,
    post := fun k o => mulEntry (k0 k) (transp (outM (k0 k) o)) (M (k0 k) 0),
    spec := fun k j => delta (j / k0 k) (j % k0 k), allowed := fun k => [detE (k0 k) (M (k0 k) 0)] }
/-- `(A / B) * B = A` -/
def f_divmm : Family :=
  { name := "divmm", kind := .frac, keys := squares, nOut := fun k => k0 k * k0 k, isPlain := false,
    post := fun k o => mulEntry (k0 k) (outM (k0 k) o) (M (k0 k) (k0 k * k0 k)),
    spec := fun k j => v j, allowed := fun k => [detE (k0 k) (M (k0 k) (k0 k * k0 k))] }
def f_asgdiv_m : Family := { f_divmm with name := "asgdiv_m", unit := "asgdiv_m" }
/-- `M * (M / v) = v`  (glm: `m / v = inverse(m) * v`) -/
def f_divmv : Family :=
  { name := "divmv", kind := .frac, keys := squares, nOut := k0, isPlain := false,
    post := fun k o r => sumE ((List.range (k0 k)).map fun c => .mul (M (k0 k) 0 c r) (o c)),
    spec := fun k r => v (k0 k * k0 k + r), allowed := fun k => [detE (k0 k) (M (k0 k) 0)] }
/-- `(v / M) * M = v`  (glm: `v / m = v * inverse(m)`) -/
def f_divvm : Family :=
  { name := "divvm", kind := .frac, keys := squares, nOut := k0, isPlain := false,
    post := fun k o c => sumE ((List.range (k0 k)).map fun r => .mul (o r) (M (k0 k) (k0 k) c r)),
    spec := fun k c => v c, allowed := fun k => [detE (k0 k) (M (k0 k) (k0 k))] }
/-- `adjugate(M) * M = det(M) * I` -/
def f_adjugate : Family :=
  { name := "adjugate", kind := .poly, keys := squares, nOut := fun k => k0 k * k0 k, isPlain := false,
    post := fun k o => mulEntry (k0 k) (outM (k0 k) o) (M (k0 k) 0),
    spec := fun k j => if j / k0 k = j % k0 k then detE (k0 k) (M (k0 k) 0) else zero }

/-- affine matrices: last row `(0,…,0,1)`, the other `N-1` rows are the inputs (column-major) -/
def aff (N : Nat) (c r : Nat) : E := if r = N - 1 then (if c = N - 1 then one else zero) else v (c * (N - 1) + r)
def affLin (N : Nat) (c r : Nat) : E := v (c * (N - 1) + r)
def f_affinv : Family :=
  { name := "affinv", kind := .frac, keys := [[3],[4]], nOut := fun k => k0 k * k0 k, isPlain := false,
    post := fun k o => mulEntry (k0 k) (outM (k0 k) o) (aff (k0 k)),
    spec := fun k j => delta (j / k0 k) (j % k0 k), allowed := fun k => [detE (k0 k - 1) (affLin (k0 k))] }

/-! the same identities for the units traced with aligned-qualified types (`GLM_FORCE_DEFAULT_ALIGNED_GENTYPES` + `GLM_FORCE_INTRINSICS`,
    unit suffix `A`): glm's `Aligned = true` generic templates (e.g. the 3×3 inverse by cross products) -/
def f_detA : Family := { f_det with name := "detA", unit := "detA" }
def f_inv_leftA : Family := { f_inv_left with name := "inv_leftA", unit := "invA" }
def f_inv_rightA : Family := { f_inv_right with name := "inv_rightA", unit := "invA" }
def f_invtrA : Family := { f_invtr with name := "invtrA", unit := "invtrA" }
def f_divmmA : Family := { f_divmm with name := "divmmA", unit := "divmmA" }
def f_asgdiv_mA : Family := { f_divmm with name := "asgdiv_mA", unit := "asgdiv_mA" }
def f_divmvA : Family := { f_divmv with name := "divmvA", unit := "divmvA" }
def f_divvmA : Family := { f_divvm with name := "divvmA", unit := "divvmA" }
def f_adjugateA : Family := { f_adjugate with name := "adjugateA", unit := "adjugateA" }
def f_affinvA : Family := { f_affinv with name := "affinvA", unit := "affinvA" }

def f_idet : Family := { f_det with name := "idet", unit := "idet" }
def families : List Family :=
  [f_idet, f_det, f_inv_left, f_inv_right, f_invtr, f_divmm, f_asgdiv_m, f_divmv, f_divvm, f_adjugate, f_affinv,
   f_detA, f_inv_leftA, f_inv_rightA, f_invtrA, f_divmmA, f_asgdiv_mA, f_divmvA, f_divvmA, f_adjugateA, f_affinvA]

end Glm.Spec.C10
