import GlmVerif.Spec.Basic
/-!
C04 — quaternion, matrix, axis-angle and Euler forms of a rotation agree.
A quaternion argument occupies four variables **by component name** `(w, x, y, z)` and results are
read back by name, so the same specification covers both memory orders (last unit key: 0 = default,
1 = `GLM_FORCE_QUAT_DATA_WXYZ`).
-/
namespace Glm.Spec.C04
open Glm

def two : E := .lit 2 1
def half : E := .lit 1 2
def cfgs : List (List Nat) := [[0],[1]]
def qc (b i : Nat) : E := v (b + i)          -- i: 0 = w, 1 = x, 2 = y, 3 = z
def sq (a : E) : E := .mul a a
def nrm2 (b : Nat) : E := sumE ((List.range 4).map fun i => sq (qc b i))

/-- Hamilton product `p * q`, component `j` (0 = w, 1..3 = x,y,z) -/
def ham (p q : Nat → E) (j : Nat) : E :=
  match j with
  | 0 => .sub (.sub (.sub (.mul (p 0) (q 0)) (.mul (p 1) (q 1))) (.mul (p 2) (q 2))) (.mul (p 3) (q 3))
  | 1 => .sub (.add (.add (.mul (p 0) (q 1)) (.mul (p 1) (q 0))) (.mul (p 2) (q 3))) (.mul (p 3) (q 2))
  | 2 => .sub (.add (.add (.mul (p 0) (q 2)) (.mul (p 2) (q 0))) (.mul (p 3) (q 1))) (.mul (p 1) (q 3))
  | _ => .sub (.add (.add (.mul (p 0) (q 3)) (.mul (p 3) (q 0))) (.mul (p 1) (q 2))) (.mul (p 2) (q 1))

/-- the rotation matrix of a (unit) quaternion `q = (w,x,y,z)`, entry (column c, row r), as glm documents it -/
def Mq (q : Nat → E) (c r : Nat) : E :=
  let w := q 0; let x := q 1; let y := q 2; let z := q 3
  match c, r with
  | 0, 0 => .sub one (.mul two (.add (sq y) (sq z)))
  | 0, 1 => .mul two (.add (.mul x y) (.mul w z))
  | 0, 2 => .mul two (.sub (.mul x z) (.mul w y))
  | 1, 0 => .mul two (.sub (.mul x y) (.mul w z))
  | 1, 1 => .sub one (.mul two (.add (sq x) (sq z)))
  | 1, 2 => .mul two (.add (.mul y z) (.mul w x))
  | 2, 0 => .mul two (.add (.mul x z) (.mul w y))
  | 2, 1 => .mul two (.sub (.mul y z) (.mul w x))
  | 2, 2 => .sub one (.mul two (.add (sq x) (sq y)))
  | _, _ => if c = r then one else zero
/-- the homogeneous form `R(q) = M(q) + (|q|² - 1) I`, multiplicative for all quaternions -/
def Rq (q : Nat → E) (n : E) (c r : Nat) : E := if c = r then .add (Mq q c r) (.sub n one) else Mq q c r

def f_qmul : Family := { name := "qmul", kind := .poly, keys := cfgs, nOut := fun _ => 4, spec := fun _ => ham (qc 0) (qc 4) }
def f_qcross : Family := { name := "qcross", kind := .poly, keys := cfgs, nOut := fun _ => 4, spec := fun _ => ham (qc 0) (qc 4) }
/-- `q * v = mat3_cast(q) * v` (as polynomials: no unit-norm hypothesis needed) -/
def f_qmulv3 : Family :=
  { name := "qmulv3", kind := .poly, keys := cfgs, nOut := fun _ => 3,
    spec := fun _ r => sumE ((List.range 3).map fun c => .mul (Mq (qc 0) c r) (v (4 + c))) }
def f_qmulv4 : Family :=
  { name := "qmulv4", kind := .poly, keys := cfgs, nOut := fun _ => 4,
    spec := fun _ r => if r = 3 then v 7 else sumE ((List.range 3).map fun c => .mul (Mq (qc 0) c r) (v (4 + c))) }
/-- `v * q = inverse(q) * v` -/
def qinvE (i : Nat) : E := .div (if i = 0 then qc 0 0 else .neg (qc 0 i)) (nrm2 0)
def f_vmulq3 : Family :=
  { name := "vmulq3", kind := .frac, keys := cfgs, nOut := fun _ => 3,
    spec := fun _ r => sumE ((List.range 3).map fun c => .mul (Mq qinvE c r) (v (4 + c))), allowed := fun _ => [nrm2 0] }
def f_mat3cast : Family :=
  { name := "mat3cast", kind := .poly, keys := cfgs, nOut := fun _ => 9, spec := fun _ j => Mq (qc 0) (j / 3) (j % 3) }
def f_mat4cast : Family :=
  { name := "mat4cast", kind := .poly, keys := cfgs, nOut := fun _ => 16, spec := fun _ j => Mq (qc 0) (j / 4) (j % 4) }
/-- the matrix of a product is the product of the matrices, for unit `q1`, `q2`; certificate:
`M(q1 q2) - M(q1) M(q2) = (n1 - 1)(R(q2) - (2 n2 - 1) I) + (n2 - 1)(R(q1) - I)` -/
def f_mat3ofprod : Family :=
  { name := "mat3ofprod", kind := .polyMod, keys := cfgs, nOut := fun _ => 9,
    spec := fun _ j => sumE ((List.range 3).map fun k => .mul (Mq (qc 0) k (j % 3)) (Mq (qc 4) (j / 3) k)),
    hyps := fun _ => [(nrm2 0, one), (nrm2 4, one)],
    cert := fun _ j =>
      let c := j / 3; let r := j % 3
      let d : E := if c = r then one else zero
      [.sub (Rq (qc 4) (nrm2 4) c r) (.mul (.sub (.mul two (nrm2 4)) one) d), .sub (Rq (qc 0) (nrm2 0) c r) d] }
/-- `mat3_cast(q)` is orthogonal for unit `q`: `M Mᵀ = I`; certificate `(n - 1)(2 n I - (R + Rᵀ))` -/
def f_mat3orth : Family :=
  { name := "mat3orth", unit := "mat3cast", kind := .polyMod, keys := cfgs, nOut := fun _ => 9, isPlain := false,
    post := fun _ o j => sumE ((List.range 3).map fun k => .mul (o (k * 3 + j % 3)) (o (k * 3 + j / 3))),
    spec := fun _ j => if j / 3 = j % 3 then one else zero,
    hyps := fun _ => [(nrm2 0, one)],
    cert := fun _ j =>
      let c := j / 3; let r := j % 3
      let d : E := if c = r then .mul two (nrm2 0) else zero
      [.sub d (.add (Rq (qc 0) (nrm2 0) c r) (Rq (qc 0) (nrm2 0) r c))] }
def f_conjugate : Family :=
  { name := "conjugate", kind := .poly, keys := cfgs, nOut := fun _ => 4, spec := fun _ j => if j = 0 then qc 0 0 else .neg (qc 0 j) }
/-- `inverse(q) = conjugate(q) / |q|²` (so `conjugate = inverse` for unit `q`) -/
def f_qinverse : Family :=
  { name := "qinverse", kind := .frac, keys := cfgs, nOut := fun _ => 4, spec := fun _ => qinvE, allowed := fun _ => [nrm2 0] }
/-- `q * inverse(q) = 1` -/
def f_qinverse_id : Family :=
  { name := "qinverse_id", unit := "qinverse", kind := .frac, keys := cfgs, nOut := fun _ => 4, isPlain := false,
    post := fun _ o => ham (qc 0) o, spec := fun _ j => if j = 0 then one else zero, allowed := fun _ => [nrm2 0] }
def f_qdot : Family :=
  { name := "qdot", kind := .poly, keys := cfgs, nOut := fun _ => 1, spec := fun _ _ => sumE ((List.range 4).map fun i => .mul (qc 0 i) (qc 4 i)) }
def f_qlength : Family :=
  { name := "qlength", kind := .poly, guard := true, keys := cfgs, nOut := fun _ => 1, spec := fun _ _ => .call1 .sqrt (nrm2 0) }
/-- `normalize(q)`: identity quaternion when `|q| ≤ 0`, else `q / |q|` -/
def qlen : E := .call1 .sqrt (nrm2 0)
def f_qnormalize : Family :=
  { name := "qnormalize", kind := .frac, treeMode := true, guard := true, keys := cfgs, nOut := fun _ => 4, spec := fun _ _ => zero,
    specT := fun _ j => .branch (.le qlen zero) (.leaf (if j = 0 then one else zero)) (.leaf (.div (qc 0 j) qlen)),
    allowed := fun _ => [qlen] }
def f_qadd : Family := { name := "qadd", kind := .poly, keys := cfgs, nOut := fun _ => 4, spec := fun _ j => .add (qc 0 j) (qc 4 j) }
def f_qsub : Family := { name := "qsub", kind := .poly, keys := cfgs, nOut := fun _ => 4, spec := fun _ j => .sub (qc 0 j) (qc 4 j) }
def f_qneg : Family := { name := "qneg", kind := .poly, keys := cfgs, nOut := fun _ => 4, spec := fun _ j => .neg (qc 0 j) }
def f_qmuls : Family := { name := "qmuls", kind := .poly, keys := cfgs, nOut := fun _ => 4, spec := fun _ j => .mul (qc 0 j) (v 4) }
def f_qdivs : Family :=
  { name := "qdivs", kind := .frac, keys := cfgs, nOut := fun _ => 4, spec := fun _ j => .div (qc 0 j) (v 4), allowed := fun _ => [v 4] }
/-- `angleAxis(a, v) = (cos(a/2), v sin(a/2))` -/
def cosH (a : E) : E := .call1 .cos (.mul a half)
def sinH (a : E) : E := .call1 .sin (.mul a half)
def f_angleAxis : Family :=
  { name := "angleAxis", kind := .poly, keys := cfgs, nOut := fun _ => 4,
    spec := fun _ j => if j = 0 then cosH (v 0) else .mul (v j) (sinH (v 0)) }
/-- `quat(eulerAngles)` is the product of the three single-axis quaternions `qz(e.z) * qy(e.y) * qx(e.x)` -/
def axisQ (ax : Nat) (a : E) (i : Nat) : E := if i = 0 then cosH a else if i = ax + 1 then sinH a else zero
def f_quatEuler : Family :=
  { name := "quatEuler", kind := .poly, keys := cfgs, nOut := fun _ => 4,
    spec := fun _ => ham (ham (axisQ 2 (v 2)) (axisQ 1 (v 1))) (axisQ 0 (v 0)) }

/-! gtx/euler_angles: single-axis rotations and their products (4×4, column-major).  Axis `a`, with
`p = a+1`, `q = a+2` (mod 3): `R[p][p] = c, R[p][q] = s, R[q][p] = -s, R[q][q] = c`. -/
def axisM (ax : Nat) (t : E) (c r : Nat) : E :=
  let p := (ax + 1) % 3; let q := (ax + 2) % 3
  let co : E := .call1 .cos t; let si : E := .call1 .sin t
  if c = 3 ∨ r = 3 then (if c = r then one else zero)
  else if c = p ∧ r = p then co else if c = p ∧ r = q then si
  else if c = q ∧ r = p then .neg si else if c = q ∧ r = q then co
  else if c = r then one else zero
def mmul (A B : Nat → Nat → E) (c r : Nat) : E := sumE ((List.range 4).map fun k => .mul (A k r) (B c k))
def f_euler1 : Family :=
  { name := "euler1", kind := .poly, keys := [[0],[1],[2]], nOut := fun _ => 16, spec := fun k j => axisM (k0 k) (v 0) (j / 4) (j % 4) }
def f_euler2 : Family :=
  { name := "euler2", kind := .poly, keys := [[0,1],[1,0],[0,2],[2,0],[1,2],[2,1]], nOut := fun _ => 16,
    spec := fun k j => mmul (axisM (k0 k) (v 0)) (axisM (k1 k) (v 1)) (j / 4) (j % 4) }
def euler3keys : List (List Nat) :=
  [[0,1,2],[1,0,2],[0,2,0],[0,1,0],[1,0,1],[1,2,1],[2,1,2],[2,0,2],[0,2,1],[1,2,0],[2,1,0],[2,0,1]]
/-- some variants evaluate `cos(-t)`, `sin(-t)`: the theorem assumes `cos(-t) = cos t`, `sin(-t) = -sin t`
    for the three angles and nothing else -/
def negRw : List (E × E) :=
  (List.range 3).flatMap fun i =>
    [(.call1 .cos (.neg (v i)), .call1 .cos (v i)), (.call1 .sin (.neg (v i)), .neg (.call1 .sin (v i)))]
def f_euler3 : Family :=
  { name := "euler3", kind := .polyMod, keys := euler3keys, nOut := fun _ => 16, rw := fun _ => negRw,
    spec := fun k j => mmul (mmul (axisM (k0 k) (v 0)) (axisM (k1 k) (v 1))) (axisM (k2 k) (v 2)) (j / 4) (j % 4) }
/-- `yawPitchRoll(yaw, pitch, roll) = Ry(yaw) Rx(pitch) Rz(roll)` -/
def f_yawPitchRoll : Family :=
  { name := "yawPitchRoll", kind := .poly, keys := [[]], nOut := fun _ => 16,
    spec := fun _ j => mmul (mmul (axisM 1 (v 0)) (axisM 0 (v 1))) (axisM 2 (v 2)) (j / 4) (j % 4) }
/-- `orientate4(angles) = yawPitchRoll(angles.z, angles.x, angles.y)`, `orientate3` its upper 3×3 block -/
def f_orientate4 : Family :=
  { name := "orientate4", kind := .poly, keys := [[]], nOut := fun _ => 16,
    spec := fun _ j => mmul (mmul (axisM 1 (v 2)) (axisM 0 (v 0))) (axisM 2 (v 1)) (j / 4) (j % 4) }
def f_orientate3 : Family :=
  { name := "orientate3", kind := .poly, keys := [[]], nOut := fun _ => 9,
    spec := fun _ j => mmul (mmul (axisM 1 (v 2)) (axisM 0 (v 0))) (axisM 2 (v 1)) (j / 3) (j % 3) }


/-! `eulerAngles(q) = (pitch, yaw, roll)` (documented as the angles with `quat(eulerAngles q)` the same rotation):
    `roll  = atan2(2(xy + wz), w² + x² − y² − z²)`, `pitch = atan2(2(yz + wx), w² − x² − y² + z²)` — with the guard against
    `atan2(0, 0)`: when both arguments are within `epsilon` of 0 (gimbal lock) roll is 0 and pitch is `2 atan2(x, w)` —
    and `yaw = asin(clamp(−2(xz − wy), −1, 1))`.  The specification states the guard as `|a| ≤ ε ∧ |b| ≤ ε` (walk mode:
    the traced tree spells `abs` out as decisions). -/
def qw : E := qc 0 0
def qx : E := qc 0 1
def qy : E := qc 0 2
def qz : E := qc 0 3
def eps : E := .konst .eps
def near0 (a : E) : C := .and (.le a eps) (.le (.neg a) eps)
def atan2E (y x : E) : E := .call2 .atan2 y x
def rollY : E := .mul two (.add (.mul qx qy) (.mul qw qz))
def rollX : E := .sub (.sub (.add (sq qw) (sq qx)) (sq qy)) (sq qz)
def pitchY : E := .mul two (.add (.mul qy qz) (.mul qw qx))
def pitchX : E := .add (.sub (.sub (sq qw) (sq qx)) (sq qy)) (sq qz)
def yawS : E := .mul (.lit (-2) 1) (.sub (.mul qx qz) (.mul qw qy))
def eulerT (j : Nat) : Tree :=
  if j = 0 then .branch (.and (near0 pitchX) (near0 pitchY)) (.leaf (.mul two (atan2E qx qw))) (.leaf (atan2E pitchY pitchX))
  else if j = 1 then .branch (.lt yawS (.lit (-1) 1)) (.leaf (.call1 .asin (.lit (-1) 1)))
    (.branch (.lt one yawS) (.leaf (.call1 .asin one)) (.leaf (.call1 .asin yawS)))
  else .branch (.and (near0 rollX) (near0 rollY)) (.leaf zero) (.leaf (atan2E rollY rollX))
def f_eulerAngles : Family :=
  { name := "eulerAngles", kind := .poly, treeMode := true, treeWalk := true, keys := cfgs, nOut := fun _ => 3,
    spec := fun _ _ => zero, specT := fun _ j => eulerT j }

/-! ### `quat_cast(mat3_cast q) = ±q`

Unit `castprod`: the ten products `r_i r_j` (i ≤ j over w, x, y, z) of `r = quat_cast(mat3_cast q)`.  `r = ±q` is equivalent to
`r_i r_j = q_i q_j` for all `i, j`.  `quat_cast` picks the largest of `4w²−1, 4x²−1, 4y²−1, 4z²−1` (three decisions), takes
`s = sqrt(that + 1)` and divides by it; on each of the decision paths the identity holds as a rational function modulo
`s² = (argument of the sqrt)` and `|q|² = 1`, with one of a small set of constant/monomial multipliers (tried in turn). -/
def castA : Nat → E
  | 0 => .sub (.lit 4 1) (.mul (.lit 4 1) (.add (.add (sq qx) (sq qy)) (sq qz)))      -- 4w² modulo |q|² = 1
  | 1 => .mul (.lit 4 1) (sq qx)
  | 2 => .mul (.lit 4 1) (sq qy)
  | _ => .mul (.lit 4 1) (sq qz)
def castS (b : Nat) : E := .call1 .sqrt (castA b)
def castHyps : List (E × E) :=
  [(.mul (castS 0) (castS 0), castA 0), (.mul (castS 1) (castS 1), castA 1), (.mul (castS 2) (castS 2), castA 2),
   (.mul (castS 3) (castS 3), castA 3), (nrm2 0, one)]
def castPairs : List (Nat × Nat) := [(0,0),(0,1),(0,2),(0,3),(1,1),(1,2),(1,3),(2,2),(2,3),(3,3)]
def castSpec (j : Nat) : E := let p := castPairs.getD j (0, 0); .mul (qc 0 p.1) (qc 0 p.2)
/-- multipliers tried: for the square-root hypothesis of branch `b` one of `0, 1, −k·spec`, for the unit-norm hypothesis the
    matching one of `0, −4, 4k·spec` (`k = 1, 4, 16`: the literal scalings `0.5`, `0.25` of the code) -/
def castCerts (spec : E) : List (List E) :=
  let ks : List Int := [1, 4, 16]
  let opts : List (E × E) := [(zero, zero), (one, zero), (one, .lit (-4) 1)] ++
    ks.flatMap fun k => [(.mul (.lit (-k) 1) spec, zero), (.mul (.lit (-k) 1) spec, .mul (.lit (4 * k) 1) spec)]
  (List.range 4).flatMap fun b => opts.map fun o => (List.range 4).map (fun i => if i = b then o.1 else zero) ++ [o.2]
def castLeafOK (j : Nat) (_ : Path) (a b : E) : Bool :=
  b == castSpec j && (castCerts (castSpec j)).any fun c => fracEqMod castHyps c a b
def castOK (look : String → List Nat → Unit) (cfg : Nat) : Bool :=
  (look "castprod" [cfg]).outs.length == 10 &&
  (List.range 10).all fun j => treeEqv (implied true) (castLeafOK j) [] ((look "castprod" [cfg]).out j) (.leaf (castSpec j))

/-! `angle(q)` and `axis(q)` (ext/quaternion_trigonometric): for `|w| > cos(1/2)` the angle is taken from the vector part,
    `a = 2 asin |(x,y,z)|` (and `2π − a` when `w < 0`), otherwise `2 acos w`; the axis is `(x,y,z)/sqrt(1 − w²)`, or `(0,0,1)`
    when `1 − w² ≤ 0` -/
def cosHalf : E := .lit 494035062339541 562949953421312          -- cos_one_over_two<double>()
def piLit : E := .lit 884279719003555 281474976710656             -- pi<double>()
def angA : E := .mul (.call1 .asin (.call1 .sqrt (.add (.add (sq qx) (sq qy)) (sq qz)))) two
def qangleT : Tree :=
  .branch (.or (.lt cosHalf qw) (.lt cosHalf (.neg qw)))
    (.branch (.lt qw zero) (.leaf (.sub (.mul piLit two) angA)) (.leaf angA))
    (.leaf (.mul (.call1 .acos qw) two))
def f_qangle : Family :=
  { name := "qangle", kind := .poly, treeMode := true, treeWalk := true, keys := cfgs, nOut := fun _ => 1,
    spec := fun _ _ => zero, specT := fun _ _ => qangleT }
def axisD : E := .sub one (sq qw)
def f_qaxis : Family :=
  { name := "qaxis", kind := .frac, treeMode := true, guard := true, keys := cfgs, nOut := fun _ => 3, spec := fun _ _ => zero,
    allowed := fun _ => [.call1 .sqrt axisD],
    specT := fun _ j => .branch (.le axisD zero) (.leaf (if j = 2 then one else zero))
      (.leaf (.mul (qc 0 (j + 1)) (.div one (.call1 .sqrt axisD)))) }

/-! ### `quat_cast(M)`: the pivot is the LARGEST of the four candidates
`4w²−1 = m00+m11+m22`, `4x²−1 = m00−m11−m22`, `4y²−1 = m11−m00−m22`, `4z²−1 = m22−m00−m11` (scan `w, x, y, z`, a later candidate wins only if
strictly larger): that is what keeps the division `0.25 / pivot` well conditioned — every pivot gives `±q` in exact arithmetic (theorem
`castprod_ok` holds on every path), only the largest one does so accurately.  Walk mode; rational leaves. -/
def mE (c r : Nat) : E := v (c * 3 + r)
def cand : Nat → E
  | 0 => .add (.add (mE 0 0) (mE 1 1)) (mE 2 2)
  | 1 => .sub (.sub (mE 0 0) (mE 1 1)) (mE 2 2)
  | 2 => .sub (.sub (mE 1 1) (mE 0 0)) (mE 2 2)
  | _ => .sub (.sub (mE 2 2) (mE 0 0)) (mE 1 1)
def qcBig (k : Nat) : E := .mul (.call1 .sqrt (.add (cand k) one)) half
def qcMult (k : Nat) : E := .div (.lit 1 4) (qcBig k)
/-- component `j` (0 = w, 1 = x, 2 = y, 3 = z) when the pivot is candidate `k` -/
def qcLeaf (k j : Nat) : E :=
  if j = k then qcBig k else
  let d01 := .sub (mE 0 1) (mE 1 0); let s01 := .add (mE 0 1) (mE 1 0)
  let d12 := .sub (mE 1 2) (mE 2 1); let s12 := .add (mE 1 2) (mE 2 1)
  let d20 := .sub (mE 2 0) (mE 0 2); let s20 := .add (mE 2 0) (mE 0 2)
  let e : E := match k, j with
    | 0, 1 => d12 | 0, 2 => d20 | 0, _ => d01
    | 1, 0 => d12 | 1, 2 => s01 | 1, _ => s20
    | 2, 0 => d20 | 2, 1 => s01 | 2, _ => s12
    | _, 0 => d01 | _, 1 => s20 | _, _ => s12
  .mul e (qcMult k)
/-- sequential maximum scan: current best `b`, remaining candidates -/
def qcScan (j : Nat) : Nat → List Nat → Tree
  | b, [] => .leaf (qcLeaf b j)
  | b, k :: ks => .branch (.lt (cand b) (cand k)) (qcScan j k ks) (qcScan j b ks)
def f_quatcast : Family :=
  { name := "quatcast", kind := .frac, treeMode := true, treeWalk := true, divFree := true, keys := cfgs, nOut := fun _ => 4,
    spec := fun _ _ => zero, specT := fun _ j => qcScan j 0 [1, 2, 3] }

def families : List Family :=
  [f_qmul, f_qcross, f_qmulv3, f_qmulv4, f_vmulq3, f_mat3cast, f_mat4cast, f_mat3ofprod, f_mat3orth, f_conjugate,
   f_qinverse, f_qinverse_id, f_qdot, f_qlength, f_qnormalize, f_qadd, f_qsub, f_qneg, f_qmuls, f_qdivs,
   f_angleAxis, f_quatEuler, f_euler1, f_euler2, f_euler3, f_yawPitchRoll, f_orientate4, f_orientate3, f_eulerAngles, f_qangle, f_qaxis, f_quatcast]

end Glm.Spec.C04
