import GlmVerif.Spec.Basic
import GlmVerif.Core.Layout
/-!
C16 — storage layout.  Two parts: (1) the measured layout table (`Gen.C16.rows`, one row per instantiation
and configuration) meets the documented contract `Layout.Row.ok`; (2) `value_ptr` and the `make_*` builders,
traced on symbolic components, move every component to the documented place and round-trip objects unchanged.
-/
namespace Glm.Spec.C16
open Glm

def f_rt_vec : Family := { name := "rt_vec", kind := .syn, keys := [[2],[3],[4]], nOut := k0, spec := fun _ j => v j }
def f_rt_mat : Family := { name := "rt_mat", kind := .syn, keys := shapes, nOut := fun k => k0 k * k1 k, spec := fun _ j => v j }
/-- `value_ptr(m)[c*R + r]` is `m[c][r]` (inputs are laid out column-major, so the raw array is the input order) -/
def f_vp_mat : Family := { name := "vp_mat", kind := .syn, keys := shapes, nOut := fun k => k0 k * k1 k, spec := fun _ j => v j }
def f_rt_quat : Family := { name := "rt_quat", kind := .syn, keys := [[0],[1]], nOut := fun _ => 4, spec := fun _ j => v j }
/-- memory order of a quaternion (inputs by name w,x,y,z = variables 0..3): `x,y,z,w` by default,
`w,x,y,z` under `GLM_FORCE_QUAT_DATA_WXYZ` (key 1) -/
def f_vp_quat : Family :=
  { name := "vp_quat", kind := .syn, keys := [[0],[1]], nOut := fun _ => 4,
    spec := fun k j => if k0 k = 1 then v j else v ((j + 1) % 4) }
def f_rt_mata : Family := { name := "rt_mata", kind := .syn, keys := [[2],[3],[4]], nOut := fun k => k0 k * k0 k, spec := fun _ j => v j }
/-- `make_vecN(vecM)`: the first `min N M` components, then zeros, and `1` in the fourth place of a padded `vec4` -/
def f_mkvec : Family :=
  { name := "mkvec", kind := .syn, keys := [[1,1],[1,2],[1,3],[1,4],[2,1],[2,2],[2,3],[2,4],[3,1],[3,2],[3,3],[3,4],[4,1],[4,2],[4,3],[4,4]], nOut := k0,
    spec := fun k j => if j < k1 k then v j else if j = 3 then one else zero }
def families : List Family := [f_rt_vec, f_rt_mat, f_vp_mat, f_rt_quat, f_vp_quat, f_rt_mata, f_mkvec]
end Glm.Spec.C16
