import GlmVerif.Spec.Basic
import GlmVerif.Core.Rename
import GlmVerif.Core.NanWalk
/-!
C01 — vector functions/operators equal the scalar overload applied per component.

`RelFamily`: for a function `fn`, the traced **vector** overload `v_fn_<mask>_<L>` (bit `k` of `mask`:
argument `k` is a `vec<L>`, otherwise a broadcast scalar) is compared, component by component and
decision by decision, with the traced **scalar** overload `s_fn` in which argument `k` is renamed to
component `i` of the vector argument (or to the scalar argument itself).  Both sides are generated
from /repo, so this is exactly "component i of the vector result is what the scalar overload returns
for component i of the arguments".  Operators and relational functions (whose scalar counterpart is
the built-in operator) are ordinary families with the obvious per-component specification.
-/
namespace Glm.Spec.C01
open Glm

structure RelFamily where
  fn : String
  /-- unit names, spelled out (no string computation in the kernel) -/
  sUnit : String
  vUnit : String
  arity : Nat
  masks : List Nat
  lens : List Nat := [1, 2, 3, 4]
  /-- composite-formula class: `fma(a,b,c)` is read as `a*b + c` on both sides before comparing -/
  composite : Bool := false
  /-- walk mode: the two overloads ask their questions in different orders (the n-ary NaN-aware selections: the scalar overload is a
      cascade of `isnan` tests, the vector overload nests the binary function); the trees are compared by the two-tree walk of
      `Core/TreeEqv.lean` with the NaN-aware oracle of `Core/NanWalk.lean` (no order reasoning: a repeated question keeps its answer, and
      a comparison with an operand already found to be NaN is false) — on every jointly reachable pair of paths the selected leaves are
      the same expression -/
  walk : Bool := false
  deriving Inhabited

def isVecArg (mask k : Nat) : Bool := mask.testBit k
/-- first variable of argument `k` -/
def argOff (mask L : Nat) : Nat → Nat
  | 0 => 0
  | k + 1 => argOff mask L k + (if isVecArg mask k then L else 1)
/-- variable of the scalar overload's argument `k`  ↦  variable of component `i` of the vector overload's argument `k` -/
def sigma (mask L i : Nat) (k : Nat) : Nat := argOff mask L k + (if isVecArg mask k then i else 0)

def sameLeaf (a b : E) : Bool := a == b || polyEq a b

def RelFamily.okAt (f : RelFamily) (look : String → List Nat → Unit) (mask L : Nat) : Bool :=
  let s := (look f.sUnit []).out 0
  let u := look f.vUnit [mask, L]
  (look f.sUnit []).outs.length == 1 && u.outs.length == L &&
    (List.range L).all fun i =>
      if f.walk then treeEqv impliedNan (fun _ a b => a == b) [] (u.out i) (s.rename (sigma mask L i))
      else if f.composite then treeOK sameLeaf (u.out i).expandFma (s.rename (sigma mask L i)).expandFma
      else treeOK sameLeaf (u.out i) (s.rename (sigma mask L i))

def RelFamily.ok (f : RelFamily) (look : String → List Nat → Unit) : Bool :=
  f.masks.all fun m => f.lens.all fun L => f.okAt look m L

theorem RelFamily.ok_congr (f : RelFamily) {l1 l2 : String → List Nat → Unit}
    (hs : ∀ ks, l1 f.sUnit ks = l2 f.sUnit ks) (hv : ∀ ks, l1 f.vUnit ks = l2 f.vUnit ks) :
    f.ok l1 = f.ok l2 := by
  have : f.okAt l1 = f.okAt l2 := by funext m L; unfold RelFamily.okAt; rw [hs, hv]
  unfold RelFamily.ok; rw [this]

def relFamilies : List RelFamily := [
  -- integer element types (traced at int32 and uint32)
  { fn := "iabs", sUnit := "s_iabs", vUnit := "v_iabs", arity := 1, masks := [1] },
  { fn := "imin", sUnit := "s_imin", vUnit := "v_imin", arity := 2, masks := [3, 1] },
  { fn := "imax", sUnit := "s_imax", vUnit := "v_imax", arity := 2, masks := [3, 1] },
  { fn := "iclamp", sUnit := "s_iclamp", vUnit := "v_iclamp", arity := 3, masks := [7, 1] },
  { fn := "umin", sUnit := "s_umin", vUnit := "v_umin", arity := 2, masks := [3, 1] },
  { fn := "umax", sUnit := "s_umax", vUnit := "v_umax", arity := 2, masks := [3, 1] },
  { fn := "uclamp", sUnit := "s_uclamp", vUnit := "v_uclamp", arity := 3, masks := [7, 1] },
  { fn := "abs", sUnit := "s_abs", vUnit := "v_abs", arity := 1, masks := [1] },
  { fn := "sign", sUnit := "s_sign", vUnit := "v_sign", arity := 1, masks := [1] },
  { fn := "floor", sUnit := "s_floor", vUnit := "v_floor", arity := 1, masks := [1] },
  { fn := "trunc", sUnit := "s_trunc", vUnit := "v_trunc", arity := 1, masks := [1] },
  { fn := "round", sUnit := "s_round", vUnit := "v_round", arity := 1, masks := [1] },
  { fn := "ceil", sUnit := "s_ceil", vUnit := "v_ceil", arity := 1, masks := [1] },
  { fn := "fract", sUnit := "s_fract", vUnit := "v_fract", arity := 1, masks := [1] },
  { fn := "exp", sUnit := "s_exp", vUnit := "v_exp", arity := 1, masks := [1] },
  { fn := "log", sUnit := "s_log", vUnit := "v_log", arity := 1, masks := [1] },
  { fn := "exp2", sUnit := "s_exp2", vUnit := "v_exp2", arity := 1, masks := [1] },
  { fn := "log2", sUnit := "s_log2", vUnit := "v_log2", arity := 1, masks := [1] },
  { fn := "sqrt", sUnit := "s_sqrt", vUnit := "v_sqrt", arity := 1, masks := [1] },
  { fn := "inversesqrt", sUnit := "s_inversesqrt", vUnit := "v_inversesqrt", arity := 1, masks := [1] },
  { fn := "radians", sUnit := "s_radians", vUnit := "v_radians", arity := 1, masks := [1] },
  { fn := "degrees", sUnit := "s_degrees", vUnit := "v_degrees", arity := 1, masks := [1] },
  { fn := "sin", sUnit := "s_sin", vUnit := "v_sin", arity := 1, masks := [1] },
  { fn := "cos", sUnit := "s_cos", vUnit := "v_cos", arity := 1, masks := [1] },
  { fn := "tan", sUnit := "s_tan", vUnit := "v_tan", arity := 1, masks := [1] },
  { fn := "asin", sUnit := "s_asin", vUnit := "v_asin", arity := 1, masks := [1] },
  { fn := "acos", sUnit := "s_acos", vUnit := "v_acos", arity := 1, masks := [1] },
  { fn := "atan1", sUnit := "s_atan1", vUnit := "v_atan1", arity := 1, masks := [1] },
  { fn := "sinh", sUnit := "s_sinh", vUnit := "v_sinh", arity := 1, masks := [1] },
  { fn := "cosh", sUnit := "s_cosh", vUnit := "v_cosh", arity := 1, masks := [1] },
  { fn := "tanh", sUnit := "s_tanh", vUnit := "v_tanh", arity := 1, masks := [1] },
  { fn := "asinh", sUnit := "s_asinh", vUnit := "v_asinh", arity := 1, masks := [1] },
  { fn := "acosh", sUnit := "s_acosh", vUnit := "v_acosh", arity := 1, masks := [1] },
  { fn := "atanh", sUnit := "s_atanh", vUnit := "v_atanh", arity := 1, masks := [1] },
  { fn := "min", sUnit := "s_min", vUnit := "v_min", arity := 2, masks := [3, 1] },
  { fn := "max", sUnit := "s_max", vUnit := "v_max", arity := 2, masks := [3, 1] },
  { fn := "mod", sUnit := "s_mod", vUnit := "v_mod", arity := 2, masks := [3, 1] },
  { fn := "step", sUnit := "s_step", vUnit := "v_step", arity := 2, masks := [3, 2] },
  { fn := "pow", sUnit := "s_pow", vUnit := "v_pow", arity := 2, masks := [3] },
  { fn := "atan2", sUnit := "s_atan2", vUnit := "v_atan2", arity := 2, masks := [3] },
  { fn := "clamp", sUnit := "s_clamp", vUnit := "v_clamp", arity := 3, masks := [7, 1] },
  { fn := "mix", sUnit := "s_mix", vUnit := "v_mix", arity := 3, masks := [7, 3] },
  { fn := "smoothstep", sUnit := "s_smoothstep", vUnit := "v_smoothstep", arity := 3, masks := [7, 4] },
  { fn := "fma", sUnit := "s_fma", vUnit := "v_fma", arity := 3, masks := [7], composite := true },
  -- ext twins (ext/scalar_common.inl vs ext/vector_common.inl).  Not in the table: fmin/fmax of FOUR arguments — the scalar overload
  -- computes min(min(a,b),…) in another association than the vector overload, so equality needs NaN reasoning and order reasoning
  -- together (neither oracle alone decides it); their units are still traced and run against glm, and C11 has their bit-level model.
  { fn := "fmin", sUnit := "s_fmin", vUnit := "v_fmin", arity := 2, masks := [3, 1] },
  { fn := "fmax", sUnit := "s_fmax", vUnit := "v_fmax", arity := 2, masks := [3, 1] },
  { fn := "fmin3", sUnit := "s_fmin3", vUnit := "v_fmin3", arity := 3, masks := [7], lens := [1, 2, 3], walk := true },
  { fn := "fmax3", sUnit := "s_fmax3", vUnit := "v_fmax3", arity := 3, masks := [7], lens := [1, 2, 3], walk := true },
  { fn := "fclamp", sUnit := "s_fclamp", vUnit := "v_fclamp", arity := 3, masks := [7, 1], lens := [1, 2, 3] },
  { fn := "min3", sUnit := "s_min3", vUnit := "v_min3", arity := 3, masks := [7] },
  { fn := "max3", sUnit := "s_max3", vUnit := "v_max3", arity := 3, masks := [7] },
  { fn := "min4", sUnit := "s_min4", vUnit := "v_min4", arity := 4, masks := [15] },
  { fn := "max4", sUnit := "s_max4", vUnit := "v_max4", arity := 4, masks := [15] },
  { fn := "gmin3", sUnit := "s_gmin3", vUnit := "v_min3", arity := 3, masks := [7] },
  { fn := "gmax3", sUnit := "s_gmax3", vUnit := "v_max3", arity := 3, masks := [7] },
  { fn := "gmin4", sUnit := "s_gmin4", vUnit := "v_min4", arity := 4, masks := [15] },
  { fn := "gmax4", sUnit := "s_gmax4", vUnit := "v_max4", arity := 4, masks := [15] },
  { fn := "sec", sUnit := "s_sec", vUnit := "v_sec", arity := 1, masks := [1] },
  { fn := "csc", sUnit := "s_csc", vUnit := "v_csc", arity := 1, masks := [1] },
  { fn := "cot", sUnit := "s_cot", vUnit := "v_cot", arity := 1, masks := [1] },
  { fn := "asec", sUnit := "s_asec", vUnit := "v_asec", arity := 1, masks := [1] },
  { fn := "acsc", sUnit := "s_acsc", vUnit := "v_acsc", arity := 1, masks := [1] },
  { fn := "acot", sUnit := "s_acot", vUnit := "v_acot", arity := 1, masks := [1] },
  { fn := "sech", sUnit := "s_sech", vUnit := "v_sech", arity := 1, masks := [1] },
  { fn := "csch", sUnit := "s_csch", vUnit := "v_csch", arity := 1, masks := [1] },
  { fn := "coth", sUnit := "s_coth", vUnit := "v_coth", arity := 1, masks := [1] },
  { fn := "asech", sUnit := "s_asech", vUnit := "v_asech", arity := 1, masks := [1] },
  { fn := "acsch", sUnit := "s_acsch", vUnit := "v_acsch", arity := 1, masks := [1] },
  { fn := "acoth", sUnit := "s_acoth", vUnit := "v_acoth", arity := 1, masks := [1] },
  { fn := "clampT", sUnit := "s_clampT", vUnit := "v_clampT", arity := 1, masks := [1] },
  { fn := "repeat", sUnit := "s_repeat", vUnit := "v_repeat", arity := 1, masks := [1] },
  { fn := "mirrorClamp", sUnit := "s_mirrorClamp", vUnit := "v_mirrorClamp", arity := 1, masks := [1] },
  { fn := "mirrorRepeat", sUnit := "s_mirrorRepeat", vUnit := "v_mirrorRepeat", arity := 1, masks := [1] } ]

/-! operators: operand `k`, component `j` -/
def normMask (m : Nat) : Nat := if m ≥ 4 then m - 4 else m
def opnd (mask L k j : Nat) : E := v (sigma (normMask mask) L j k)
def opKeys (masks lens : List Nat) : List (List Nat) := masks.flatMap fun m => lens.map fun L => [m, L]
def binKeys : List (List Nat) := opKeys [3, 1, 2] [1, 2, 3, 4] ++ opKeys [5, 6] [2, 3, 4]
def asgKeys : List (List Nat) := opKeys [3, 1] [1, 2, 3, 4]
def lens : List (List Nat) := [[1], [2], [3], [4]]

/-- `+` and `*`: operands may be exchanged (`s + v` is computed as `v + s`): IEEE addition and multiplication are commutative -/
def f_op_add : Family := { name := "op_add", kind := .poly, keys := binKeys, nOut := k1, spec := fun k j => .add (opnd (k0 k) (k1 k) 0 j) (opnd (k0 k) (k1 k) 1 j) }
def f_op_sub : Family := { name := "op_sub", kind := .syn, keys := binKeys, nOut := k1, spec := fun k j => .sub (opnd (k0 k) (k1 k) 0 j) (opnd (k0 k) (k1 k) 1 j) }
def f_op_mul : Family := { name := "op_mul", kind := .poly, keys := binKeys, nOut := k1, spec := fun k j => .mul (opnd (k0 k) (k1 k) 0 j) (opnd (k0 k) (k1 k) 1 j) }
def f_op_div : Family := { name := "op_div", kind := .syn, keys := binKeys, nOut := k1, spec := fun k j => .div (opnd (k0 k) (k1 k) 0 j) (opnd (k0 k) (k1 k) 1 j) }
/-- `a OP= b`: first operand is always the vector (mask bit 0 set) -/
def f_asg_add : Family := { name := "asg_add", kind := .syn, keys := asgKeys, nOut := k1, spec := fun k j => .add (opnd (k0 k ||| 1) (k1 k) 0 j) (opnd (k0 k ||| 1) (k1 k) 1 j) }
def f_asg_sub : Family := { name := "asg_sub", kind := .syn, keys := asgKeys, nOut := k1, spec := fun k j => .sub (opnd (k0 k ||| 1) (k1 k) 0 j) (opnd (k0 k ||| 1) (k1 k) 1 j) }
def f_asg_mul : Family := { name := "asg_mul", kind := .syn, keys := asgKeys, nOut := k1, spec := fun k j => .mul (opnd (k0 k ||| 1) (k1 k) 0 j) (opnd (k0 k ||| 1) (k1 k) 1 j) }
def f_asg_div : Family := { name := "asg_div", kind := .syn, keys := asgKeys, nOut := k1, spec := fun k j => .div (opnd (k0 k ||| 1) (k1 k) 0 j) (opnd (k0 k ||| 1) (k1 k) 1 j) }
def f_op_neg : Family := { name := "op_neg", kind := .syn, keys := lens, nOut := k0, spec := fun _ j => .neg (v j) }
def f_op_preinc : Family := { name := "op_preinc", kind := .syn, keys := lens, nOut := fun k => 2 * k0 k, spec := fun k j => .add (v (j % k0 k)) one }
def f_op_postdec : Family :=
  { name := "op_postdec", kind := .syn, keys := lens, nOut := fun k => 2 * k0 k,
    spec := fun k j => if j < k0 k then v j else .sub (v (j - k0 k)) one }

/-- relational functions: component `j` is `1` iff the built-in comparison of the components holds -/
def boolT (c : C) : Tree := .branch c (.leaf one) (.leaf zero)
def mkRel (n : String) (c : E → E → C) : Family :=
  { name := "rel_" ++ n, kind := .syn, treeMode := true, keys := lens, nOut := k0, spec := fun _ _ => zero,
    specT := fun k j => boolT (c (v j) (v (k0 k + j))) }
def f_rel_lessThan := mkRel "lessThan" fun a b => .lt a b
def f_rel_lessThanEqual := mkRel "lessThanEqual" fun a b => .le a b
def f_rel_greaterThan := mkRel "greaterThan" fun a b => .lt b a
def f_rel_greaterThanEqual := mkRel "greaterThanEqual" fun a b => .le b a
def f_rel_equal := mkRel "equal" fun a b => .eq a b
/-- `notEqual`: `1` iff `!(a == b)`; the tracer records `a != b` as the negated decision on `a == b` -/
def f_rel_notEqual : Family :=
  { name := "rel_notEqual", kind := .syn, treeMode := true, keys := lens, nOut := k0, spec := fun _ _ => zero,
    specT := fun k j => .branch (.eq (v j) (v (k0 k + j))) (.leaf zero) (.leaf one) }

/-! integer operators (`int32` with prefix `i`, `uint32` with prefix `u`): the built-in operator per component, for every
    vector/scalar operand combination; `+ * & | ^` are commutative (operands may be exchanged), the others literal -/
def intKeys : List (List Nat) := binKeys
def mkIntOp (pre n : String) (kind : Kind) (op : E → E → E) : Family :=
  { name := pre ++ "op_" ++ n, kind := kind, keys := intKeys, nOut := k1, spec := fun k j => op (opnd (k0 k) (k1 k) 0 j) (opnd (k0 k) (k1 k) 1 j) }
def f_iop_add : Family := mkIntOp "i" "add" .poly .add
def f_iop_sub : Family := mkIntOp "i" "sub" .syn .sub
def f_iop_mul : Family := mkIntOp "i" "mul" .poly .mul
def f_iop_and : Family := mkIntOp "i" "and" .syn .band
def f_iop_or : Family := mkIntOp "i" "or" .syn .bor
def f_iop_xor : Family := mkIntOp "i" "xor" .syn .bxor
def f_iop_shl : Family := mkIntOp "i" "shl" .syn .shl
def f_iop_shr : Family := mkIntOp "i" "shr" .syn .shr
def f_uop_add : Family := mkIntOp "u" "add" .poly .add
def f_uop_sub : Family := mkIntOp "u" "sub" .syn .sub
def f_uop_mul : Family := mkIntOp "u" "mul" .poly .mul
def f_uop_and : Family := mkIntOp "u" "and" .syn .band
def f_uop_or : Family := mkIntOp "u" "or" .syn .bor
def f_uop_xor : Family := mkIntOp "u" "xor" .syn .bxor
def f_uop_shl : Family := mkIntOp "u" "shl" .syn .shl
def f_uop_shr : Family := mkIntOp "u" "shr" .syn .shr
def mkIntAsg (pre n : String) (kind : Kind) (op : E → E → E) : Family :=
  { name := pre ++ "asg_" ++ n, kind := kind, keys := asgKeys, nOut := k1,
    spec := fun k j => op (opnd (k0 k ||| 1) (k1 k) 0 j) (opnd (k0 k ||| 1) (k1 k) 1 j) }
def f_iop_mod : Family := mkIntOp "i" "mod" .syn .imod
def f_iasg_add : Family := mkIntAsg "i" "add" .syn .add
def f_iasg_sub : Family := mkIntAsg "i" "sub" .syn .sub
def f_iasg_mul : Family := mkIntAsg "i" "mul" .syn .mul
def f_iasg_and : Family := mkIntAsg "i" "and" .syn .band
def f_iasg_or : Family := mkIntAsg "i" "or" .syn .bor
def f_iasg_xor : Family := mkIntAsg "i" "xor" .syn .bxor
def f_iasg_shl : Family := mkIntAsg "i" "shl" .syn .shl
def f_iasg_shr : Family := mkIntAsg "i" "shr" .syn .shr
def f_iasg_mod : Family := mkIntAsg "i" "mod" .syn .imod
def f_uop_mod : Family := mkIntOp "u" "mod" .syn .imod
def f_uasg_add : Family := mkIntAsg "u" "add" .syn .add
def f_uasg_sub : Family := mkIntAsg "u" "sub" .syn .sub
def f_uasg_mul : Family := mkIntAsg "u" "mul" .syn .mul
def f_uasg_and : Family := mkIntAsg "u" "and" .syn .band
def f_uasg_or : Family := mkIntAsg "u" "or" .syn .bor
def f_uasg_xor : Family := mkIntAsg "u" "xor" .syn .bxor
def f_uasg_shl : Family := mkIntAsg "u" "shl" .syn .shl
def f_uasg_shr : Family := mkIntAsg "u" "shr" .syn .shr
def f_uasg_mod : Family := mkIntAsg "u" "mod" .syn .imod
def f_iop_neg : Family := { name := "iop_neg", kind := .syn, keys := lens, nOut := k0, spec := fun _ j => .neg (v j) }
def f_iop_not : Family := { name := "iop_not", kind := .syn, keys := lens, nOut := k0, spec := fun _ j => .bnot (v j) }

/-! matrix versions (ext/matrix_common, ext/matrix_relational): per element / per column.  The relational and `abs` units are traced one column at
    a time (key `[C, R, i]`: column `i` symbolic — `a` at 0…R−1, `b` at R…2R−1, then ε —, every other column the literal 1), and whole for 2×2. -/
def shapeCol : List (List Nat) := shapes.flatMap fun s => (List.range (k0 s)).map fun i => s ++ [i]
def absLeafT (x : E) : Tree := .branch (.le zero x) (.leaf x) (.leaf (.neg x))
def allEqT : List (E × E) → Tree
  | [] => .leaf one
  | (x, y) :: r => .branch (.eq x y) (allEqT r) (.leaf zero)
def anyNeT : List (E × E) → Tree
  | [] => .leaf zero
  | (x, y) :: r => .branch (.eq x y) (anyNeT r) (.leaf one)
/-- `all_r |d_r| ≤ ε` with `|d| = (0 ≤ d ? d : −d)` -/
def allLeT : List E → E → Tree
  | [], _ => .leaf one
  | d :: ds, e => .branch (.le zero d) (.branch (.le d e) (allLeT ds e) (.leaf zero)) (.branch (.le (.neg d) e) (allLeT ds e) (.leaf zero))
/-- `any_r |d_r| > ε` -/
def anyGtT : List E → E → Tree
  | [], _ => .leaf zero
  | d :: ds, e => .branch (.le zero d) (.branch (.lt e d) (.leaf one) (anyGtT ds e)) (.branch (.lt e (.neg d)) (.leaf one) (anyGtT ds e))
def colPairs (R offA offB : Nat) : List (E × E) := (List.range R).map fun r => (v (offA + r), v (offB + r))
def colDiffs (R offA offB : Nat) : List E := (List.range R).map fun r => .sub (v (offA + r)) (v (offB + r))
def f_mabs : Family :=
  { name := "mabs", kind := .poly, treeMode := true, treeWalk := true, keys := shapeCol, nOut := k1, spec := fun _ _ => zero, specT := fun _ j => absLeafT (v j) }
def f_mabsJ : Family :=
  { name := "mabsJ", kind := .poly, treeMode := true, treeWalk := true, keys := [[]], nOut := fun _ => 4, spec := fun _ _ => zero, specT := fun _ j => absLeafT (v j) }
def mkMRel (n : String) (t : List Nat → Tree) : Family :=
  { name := n, kind := .poly, treeMode := true, treeWalk := true, keys := shapeCol, nOut := fun _ => 1, spec := fun _ _ => zero, specT := fun k _ => t k }
def f_mequal := mkMRel "mequal" fun k => allEqT (colPairs (k1 k) 0 (k1 k))
def f_mnotEqual := mkMRel "mnotEqual" fun k => anyNeT (colPairs (k1 k) 0 (k1 k))
def f_mequal_e := mkMRel "mequal_e" fun k => allLeT (colDiffs (k1 k) 0 (k1 k)) (v (2 * k1 k))
def f_mnotEqual_e := mkMRel "mnotEqual_e" fun k => anyGtT (colDiffs (k1 k) 0 (k1 k)) (v (2 * k1 k))
def f_mequal_ev := mkMRel "mequal_ev" fun k => allLeT (colDiffs (k1 k) 0 (k1 k)) (v (2 * k1 k))
def f_mnotEqual_ev := mkMRel "mnotEqual_ev" fun k => anyGtT (colDiffs (k1 k) 0 (k1 k)) (v (2 * k1 k))
/-- whole 2×2 matrices: `a` at 0, `b` at 4, ε at 8 (scalar) or 8 + column (vector); output = column -/
def mkMRelJ (n : String) (t : Nat → Tree) : Family :=
  { name := n, kind := .poly, treeMode := true, treeWalk := true, keys := [[]], nOut := fun _ => 2, spec := fun _ _ => zero, specT := fun _ c => t c }
def f_mequalJ := mkMRelJ "mequalJ" fun c => allEqT (colPairs 2 (2 * c) (4 + 2 * c))
def f_mnotEqualJ := mkMRelJ "mnotEqualJ" fun c => anyNeT (colPairs 2 (2 * c) (4 + 2 * c))
def f_mequalJ_e := mkMRelJ "mequalJ_e" fun c => allLeT (colDiffs 2 (2 * c) (4 + 2 * c)) (v 8)
def f_mnotEqualJ_e := mkMRelJ "mnotEqualJ_e" fun c => anyGtT (colDiffs 2 (2 * c) (4 + 2 * c)) (v 8)
def f_mequalJ_ev := mkMRelJ "mequalJ_ev" fun c => allLeT (colDiffs 2 (2 * c) (4 + 2 * c)) (v (8 + c))
def f_mnotEqualJ_ev := mkMRelJ "mnotEqualJ_ev" fun c => anyGtT (colDiffs 2 (2 * c) (4 + 2 * c)) (v (8 + c))
/-- `mix(x, y, a)` per element: `x (1 − a) + y a`, `a` one scalar (at `2CR`) or a matrix of factors (at `2CR + j`) -/
def f_mmixs : Family :=
  { name := "mmixs", kind := .poly, keys := shapes, nOut := fun k => k0 k * k1 k,
    spec := fun k j => let n := k0 k * k1 k; .add (.mul (v j) (.sub one (v (2 * n)))) (.mul (v (n + j)) (v (2 * n))) }
def f_mmixm : Family :=
  { name := "mmixm", kind := .poly, keys := shapes, nOut := fun k => k0 k * k1 k,
    spec := fun k j => let n := k0 k * k1 k; .add (.mul (v j) (.sub one (v (2 * n + j)))) (.mul (v (n + j)) (v (2 * n + j))) }

def families : List Family :=
  [f_op_add, f_op_sub, f_op_mul, f_op_div, f_asg_add, f_asg_sub, f_asg_mul, f_asg_div, f_op_neg, f_op_preinc, f_op_postdec,
   f_rel_lessThan, f_rel_lessThanEqual, f_rel_greaterThan, f_rel_greaterThanEqual, f_rel_equal, f_rel_notEqual,
   f_iop_add, f_iop_sub, f_iop_mul, f_iop_and, f_iop_or, f_iop_xor, f_iop_shl, f_iop_shr, f_uop_add, f_uop_sub, f_uop_mul, f_uop_and, f_uop_or, f_uop_xor, f_uop_shl, f_uop_shr, f_iop_neg, f_iop_not,
   f_iop_mod, f_iasg_add, f_iasg_sub, f_iasg_mul, f_iasg_and, f_iasg_or, f_iasg_xor, f_iasg_shl, f_iasg_shr, f_iasg_mod, f_uop_mod, f_uasg_add, f_uasg_sub, f_uasg_mul, f_uasg_and, f_uasg_or, f_uasg_xor, f_uasg_shl, f_uasg_shr, f_uasg_mod,
   f_mabs, f_mabsJ, f_mequal, f_mnotEqual, f_mequal_e, f_mnotEqual_e, f_mequal_ev, f_mnotEqual_ev,
   f_mequalJ, f_mnotEqualJ, f_mequalJ_e, f_mnotEqualJ_e, f_mequalJ_ev, f_mnotEqualJ_ev, f_mmixs, f_mmixm]

end Glm.Spec.C01
