import GlmVerif.Spec.Basic
/-!
C08 — projection builders map the view volume onto the configured clip volume.

For each builder the specification is the *geometric* one of the property: the eight
corners of the view volume, multiplied by the traced matrix and divided by `w`, are the
corners of the clip cube (`x,y = ∓1`; near plane `z = -1` (NO) or `0` (ZO); far plane `z = +1`),
looking down `-z` (RH, `hand = 0`) or `+z` (LH, `hand = 1`).  `post` builds
`(M·p)_coord / (M·p)_w` from the 16 traced entries; the check is an identity of rational
functions whose only side conditions are the non-vanishing of the listed divisors
(`right-left`, `top-bottom`, `far-near`, `near`, `far`, `aspect`, `tan(fovy/2)` …).
Component `j` = corner `j / 3` (bit 0: right, bit 1: top, bit 2: far), coordinate `j % 3`.
-/
namespace Glm.Spec.C08
open Glm

def app (o : Nat → E) (p : Nat → E) (r : Nat) : E := sumE ((List.range 4).map fun k => .mul (o (k * 4 + r)) (p k))
def ndc (o : Nat → E) (p : Nat → E) (coord : Nat) : E := .div (app o p coord) (app o p 3)
def pt (x y z : E) : Nat → E := fun k => match k with | 0 => x | 1 => y | 2 => z | _ => one
def mone : E := .lit (-1) 1
def half : E := .lit 1 2
def two : E := .lit 2 1

def sx (j : Nat) : Bool := (j / 3) % 2 = 1
def sy (j : Nat) : Bool := (j / 3 / 2) % 2 = 1
def sz (j : Nat) : Bool := (j / 3 / 4) % 2 = 1
/-- eye-space depth `d > 0` placed in front of the camera: `-d` for RH, `+d` for LH -/
def zEye (hand : Nat) (d : E) : E := if hand = 0 then .neg d else d
/-- the clip-cube corner a view-volume corner must map to -/
def expect (depth : Nat) (j : Nat) : E :=
  match j % 3 with
  | 0 => if sx j then one else mone
  | 1 => if sy j then one else mone
  | _ => if sz j then one else (if depth = 0 then mone else zero)

/-- ortho(l r b t n f) : inputs 0..5 -/
def orthoPt (hand : Nat) (j : Nat) : Nat → E :=
  pt (if sx j then v 1 else v 0) (if sy j then v 3 else v 2) (zEye hand (if sz j then v 5 else v 4))
/-- frustum(l r b t n f): the far corners are the near ones scaled by `f/n` -/
def frustumPt (hand : Nat) (j : Nat) : Nat → E :=
  let s : E := if sz j then .div (v 5) (v 4) else one
  pt (.mul (if sx j then v 1 else v 0) s) (.mul (if sy j then v 3 else v 2) s) (zEye hand (if sz j then v 5 else v 4))
/-- perspective(fovy aspect n f): half-height at depth `d` is `d * tan(fovy/2)`, half-width `aspect` times that -/
def tanHalf : E := .call1 .tan (.div (v 0) two)
def perspPt (hand : Nat) (j : Nat) : Nat → E :=
  let d : E := if sz j then v 3 else v 2
  let hy := E.mul d tanHalf
  let hx := E.mul hy (v 1)
  pt (if sx j then hx else .neg hx) (if sy j then hy else .neg hy) (zEye hand d)
/-- perspectiveFov(fov w h n f): `tan(fov/2) = sin(fov/2)/cos(fov/2)` with the code's own atoms, aspect `w/h` -/
def sinH : E := .call1 .sin (.mul half (v 0))
def cosH : E := .call1 .cos (.mul half (v 0))
def fovPt (hand : Nat) (j : Nat) : Nat → E :=
  let d : E := if sz j then v 4 else v 3
  let hy := E.mul d (.div sinH cosH)
  let hx := E.mul hy (.div (v 1) (v 2))
  pt (if sx j then hx else .neg hx) (if sy j then hy else .neg hy) (zEye hand d)

def hd (k : List Nat) : Nat × Nat := (k0 k, k1 k)
def variants : List (List Nat) := [[0,0],[1,0],[0,1],[1,1]]
def cfgs : List (List Nat) := [[0],[1],[2],[3]]

def mkOrtho (name unit : String) (keys : List (List Nat)) (hd : List Nat → Nat × Nat) : Family :=
  { name := name, unit := unit, kind := .frac, keys := keys, nOut := fun _ => 24, nRaw := fun _ => 16, isPlain := false,
    post := fun k o j => ndc o (orthoPt (hd k).1 j) (j % 3), spec := fun k j => expect (hd k).2 j,
    allowed := fun _ => [.sub (v 1) (v 0), .sub (v 3) (v 2), .sub (v 5) (v 4), one] }
def mkFrustum (name unit : String) (keys : List (List Nat)) (hd : List Nat → Nat × Nat) : Family :=
  { name := name, unit := unit, kind := .frac, keys := keys, nOut := fun _ => 24, nRaw := fun _ => 16, isPlain := false,
    post := fun k o j => ndc o (frustumPt (hd k).1 j) (j % 3), spec := fun k j => expect (hd k).2 j,
    allowed := fun _ => [.sub (v 1) (v 0), .sub (v 3) (v 2), .sub (v 5) (v 4), .sub (v 4) (v 5), v 4, v 5, one] }
def mkPersp (name unit : String) (keys : List (List Nat)) (hd : List Nat → Nat × Nat) : Family :=
  { name := name, unit := unit, kind := .frac, keys := keys, nOut := fun _ => 24, nRaw := fun _ => 16, isPlain := false,
    post := fun k o j => ndc o (perspPt (hd k).1 j) (j % 3), spec := fun k j => expect (hd k).2 j,
    allowed := fun _ => [.mul (v 1) tanHalf, tanHalf, .sub (v 3) (v 2), .sub (v 2) (v 3), v 2, v 3, one] }
def mkFov (name unit : String) (keys : List (List Nat)) (hd : List Nat → Nat × Nat) : Family :=
  { name := name, unit := unit, kind := .frac, keys := keys, nOut := fun _ => 24, nRaw := fun _ => 16, isPlain := false,
    post := fun k o j => ndc o (fovPt (hd k).1 j) (j % 3), spec := fun k j => expect (hd k).2 j,
    allowed := fun _ => [sinH, cosH, v 1, v 2, .sub (v 4) (v 3), .sub (v 3) (v 4), v 3, v 4, one] }

/-- infinitePerspective(fovy aspect n): near-plane corners go to the near face; an arbitrary point at
depth `z = v 10` has `z_ndc = 1 - 2n/z` (NO) or `1 - n/z` (ZO), hence tends to `+1` from below -/
def infNearPt (hand : Nat) (j : Nat) : Nat → E :=
  let d : E := v 2
  let hy := E.mul d tanHalf
  let hx := E.mul hy (v 1)
  pt (if sx j then hx else .neg hx) (if sy j then hy else .neg hy) (zEye hand d)
def mkInf (name unit : String) (keys : List (List Nat)) (hd : List Nat → Nat × Nat) : Family :=
  { name := name, unit := unit, kind := .frac, keys := keys, nOut := fun _ => 13, nRaw := fun _ => 16, isPlain := false,
    post := fun k o j => if j < 12 then ndc o (infNearPt (hd k).1 j) (j % 3)
                         else ndc o (pt zero zero (zEye (hd k).1 (v 10))) 2,
    spec := fun k j => if j < 12 then expect (hd k).2 j
                       else .sub one (.div (if (hd k).2 = 0 then .mul two (v 2) else v 2) (v 10)),
    allowed := fun _ => [.mul (v 1) tanHalf, tanHalf, v 1, v 2, v 10, one,
      .sub (.mul (.mul tanHalf (v 2)) (v 1)) (.mul (.neg (.mul tanHalf (v 2))) (v 1)),
      .sub (.mul tanHalf (v 2)) (.neg (.mul tanHalf (v 2)))] }

def f_ortho := mkOrtho "ortho" "ortho" variants hd
def f_frustum := mkFrustum "frustum" "frustum" variants hd
def f_perspective := mkPersp "perspective" "perspective" variants hd
def f_perspectiveFov := mkFov "perspectiveFov" "perspectiveFov" variants hd
def f_infinitePerspective := mkInf "infinitePerspective" "infinitePerspective" variants hd

/-! dispatch: the unsuffixed / half-suffixed builders, traced under each configuration
(`cfg` bit 0 = `GLM_FORCE_LEFT_HANDED`, bit 1 = `GLM_FORCE_DEPTH_ZERO_TO_ONE`), meet the specification
of exactly the variant the macros select -/
def cfgHD (k : List Nat) : Nat × Nat := (k0 k % 2, k0 k / 2)
def f_ortho_cfg := mkOrtho "ortho_cfg" "ortho_cfg" cfgs cfgHD
def f_frustum_cfg := mkFrustum "frustum_cfg" "frustum_cfg" cfgs cfgHD
def f_perspective_cfg := mkPersp "perspective_cfg" "perspective_cfg" cfgs cfgHD
def f_perspectiveFov_cfg := mkFov "perspectiveFov_cfg" "perspectiveFov_cfg" cfgs cfgHD
def f_infinitePerspective_cfg := mkInf "infinitePerspective_cfg" "infinitePerspective_cfg" cfgs cfgHD
def f_orthoLH_cfg := mkOrtho "orthoLH_cfg" "orthoLH_cfg" cfgs fun k => (1, k0 k / 2)
def f_orthoRH_cfg := mkOrtho "orthoRH_cfg" "orthoRH_cfg" cfgs fun k => (0, k0 k / 2)
def f_orthoNO_cfg := mkOrtho "orthoNO_cfg" "orthoNO_cfg" cfgs fun k => (k0 k % 2, 0)
def f_orthoZO_cfg := mkOrtho "orthoZO_cfg" "orthoZO_cfg" cfgs fun k => (k0 k % 2, 1)
def f_frustumLH_cfg := mkFrustum "frustumLH_cfg" "frustumLH_cfg" cfgs fun k => (1, k0 k / 2)
def f_frustumRH_cfg := mkFrustum "frustumRH_cfg" "frustumRH_cfg" cfgs fun k => (0, k0 k / 2)
def f_frustumNO_cfg := mkFrustum "frustumNO_cfg" "frustumNO_cfg" cfgs fun k => (k0 k % 2, 0)
def f_frustumZO_cfg := mkFrustum "frustumZO_cfg" "frustumZO_cfg" cfgs fun k => (k0 k % 2, 1)
def f_perspectiveLH_cfg := mkPersp "perspectiveLH_cfg" "perspectiveLH_cfg" cfgs fun k => (1, k0 k / 2)
def f_perspectiveRH_cfg := mkPersp "perspectiveRH_cfg" "perspectiveRH_cfg" cfgs fun k => (0, k0 k / 2)
def f_perspectiveNO_cfg := mkPersp "perspectiveNO_cfg" "perspectiveNO_cfg" cfgs fun k => (k0 k % 2, 0)
def f_perspectiveZO_cfg := mkPersp "perspectiveZO_cfg" "perspectiveZO_cfg" cfgs fun k => (k0 k % 2, 1)
def f_perspectiveFovLH_cfg := mkFov "perspectiveFovLH_cfg" "perspectiveFovLH_cfg" cfgs fun k => (1, k0 k / 2)
def f_perspectiveFovRH_cfg := mkFov "perspectiveFovRH_cfg" "perspectiveFovRH_cfg" cfgs fun k => (0, k0 k / 2)
def f_perspectiveFovNO_cfg := mkFov "perspectiveFovNO_cfg" "perspectiveFovNO_cfg" cfgs fun k => (k0 k % 2, 0)
def f_perspectiveFovZO_cfg := mkFov "perspectiveFovZO_cfg" "perspectiveFovZO_cfg" cfgs fun k => (k0 k % 2, 1)

/-- `ortho(l,r,b,t)` (2D): x,y as above, `z ↦ -z` -/
def f_ortho2d : Family :=
  { name := "ortho2d", kind := .frac, keys := [[]], nOut := fun _ => 12, nRaw := fun _ => 16, isPlain := false,
    post := fun _ o j => ndc o (pt (if sx j then v 1 else v 0) (if sy j then v 3 else v 2) (v 10)) (j % 3),
    spec := fun _ j => match j % 3 with
      | 0 => if sx j then one else mone
      | 1 => if sy j then one else mone
      | _ => .neg (v 10),
    allowed := fun _ => [.sub (v 1) (v 0), .sub (v 3) (v 2), one] }

/-! project: window coordinates of `obj` are the viewport transform of its normalised device coordinates.
inputs: obj 0..2, model 3..18, proj 19..34, viewport 35..38 -/
def Mmodel (c r : Nat) : E := v (3 + c * 4 + r)
def Mproj (c r : Nat) : E := v (19 + c * 4 + r)
def eyeP (r : Nat) : E := sumE ((List.range 4).map fun k => .mul (Mmodel k r) (if k < 3 then v k else one))
def clipP (r : Nat) : E := sumE ((List.range 4).map fun k => .mul (Mproj k r) (eyeP k))
def projectSpec (depth : Nat) (j : Nat) : E :=
  let n := E.div (clipP j) (clipP 3)
  let u := if j = 2 ∧ depth = 1 then n else .add (.mul n half) half
  if j < 2 then .add (.mul u (v (37 + j))) (v (35 + j)) else u
def mkProject (name unit : String) (keys : List (List Nat)) (dep : List Nat → Nat) : Family :=
  { name := name, unit := unit, kind := .frac, keys := keys, nOut := fun _ => 3,
    spec := fun k j => projectSpec (dep k) j, allowed := fun _ => [clipP 3] }
def f_project := mkProject "project" "project" [[0],[1]] k0
def f_project_cfg := mkProject "project_cfg" "project_cfg" cfgs fun k => k0 k / 2


/-! `unProject(project(p)) = p` for every projection matrix of the perspective shape (entries `a, b` on the diagonal,
    `c, d` in the depth row, `e` the w-row coefficient of z; all symbolic), identity model matrix and symbolic viewport,
    under both depth conventions.  Side condition: no division by zero in the evaluation (`a b d e ≠ 0`, `vp.z vp.w ≠ 0`,
    the two perspective divides). -/
def f_unprojP : Family :=
  { name := "unprojP", kind := .frac, divFree := true, keys := [[0],[1]], nOut := fun _ => 3, spec := fun _ j => v j }

/-! `tweakedInfinitePerspective(fovy, aspect, n, ep)`: with `range = tan(fovy/2)·n`, the symmetric frustum
    `[−range·aspect, range·aspect] × [−range, range]` at distance `n`, and depth row `(ep − 1, (ep − 2) n)`, w-row `−1` -/
def twRange : E := .mul (.call1 .tan (.div (v 0) two)) (v 2)
def twSpec (j : Nat) : E :=
  let c := j / 4; let r := j % 4
  let right := E.mul twRange (v 1); let left := E.mul (.neg twRange) (v 1)
  if c = 0 ∧ r = 0 then .div (.mul two (v 2)) (.sub right left)
  else if c = 1 ∧ r = 1 then .div (.mul two (v 2)) (.sub twRange (.neg twRange))
  else if c = 2 ∧ r = 2 then .sub (v 3) one
  else if c = 2 ∧ r = 3 then .lit (-1) 1
  else if c = 3 ∧ r = 2 then .mul (.sub (v 3) two) (v 2)
  else zero
def f_tweaked : Family :=
  { name := "tweaked", kind := .frac, keys := [[]], nOut := fun _ => 16, spec := fun _ j => twSpec j,
    allowed := fun _ => [.sub (.mul twRange (v 1)) (.mul (.neg twRange) (v 1)), .sub twRange (.neg twRange), two] }
/-- `pickMatrix(center, delta, viewport)` = translate(Temp) · scale(vp.z/δx, vp.w/δy, 1) with
    `Temp = ((vp.z − 2(c.x − vp.x))/δx, (vp.w − 2(c.y − vp.y))/δy, 0)`; the identity unless `δx > 0 ∧ δy > 0` -/
def pkSpec (j : Nat) : E :=
  let c := j / 4; let r := j % 4
  if c = 0 ∧ r = 0 then .div (v 6) (v 2)
  else if c = 1 ∧ r = 1 then .div (v 7) (v 3)
  else if c = 3 ∧ r = 0 then .div (.sub (v 6) (.mul two (.sub (v 0) (v 4)))) (v 2)
  else if c = 3 ∧ r = 1 then .div (.sub (v 7) (.mul two (.sub (v 1) (v 5)))) (v 3)
  else if c = r then one else zero
def f_pickMatrix : Family :=
  { name := "pickMatrix", kind := .frac, treeMode := true, treeWalk := true, divFree := true, keys := [[]], nOut := fun _ => 16,
    spec := fun _ _ => zero,
    specT := fun _ j => .branch (.and (.lt zero (v 2)) (.lt zero (v 3))) (.leaf (pkSpec j)) (.leaf (if j / 4 = j % 4 then one else zero)) }

def families : List Family :=
  [f_ortho, f_frustum, f_perspective, f_perspectiveFov, f_infinitePerspective,
   f_ortho_cfg, f_frustum_cfg, f_perspective_cfg, f_perspectiveFov_cfg, f_infinitePerspective_cfg,
   f_orthoLH_cfg, f_orthoRH_cfg, f_orthoNO_cfg, f_orthoZO_cfg,
   f_frustumLH_cfg, f_frustumRH_cfg, f_frustumNO_cfg, f_frustumZO_cfg,
   f_perspectiveLH_cfg, f_perspectiveRH_cfg, f_perspectiveNO_cfg, f_perspectiveZO_cfg,
   f_perspectiveFovLH_cfg, f_perspectiveFovRH_cfg, f_perspectiveFovNO_cfg, f_perspectiveFovZO_cfg,
   f_ortho2d, f_project, f_project_cfg, f_unprojP, f_tweaked, f_pickMatrix]

end Glm.Spec.C08
