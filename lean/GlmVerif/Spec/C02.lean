import GlmVerif.Spec.Basic
/-!
C02 — textbook column-major linear algebra.
Layout (see trace/units/common.hpp): `mat<C,R>` occupies `C*R` consecutive
variables, `m[c][r] = x[base + c*R + r]`; a `vec<L>` occupies `L` variables.
Output component `j` of a `mat<C,R>` result is column `j / R`, row `j % R`.
-/
namespace Glm.Spec.C02
open Glm

/-- `(A*B)[c][r] = Σ_k A[k][r] * B[c][k]`, `A : mat<C,R>` at 0, `B : mat<C2,C>` at `C*R` -/
def mul (C R _C2 : Nat) (j : Nat) : E :=
  sumE ((List.range C).map fun k => .mul (v (k*R + j % R)) (v (C*R + (j / R)*C + k)))
/-- `(M*v)[r] = Σ_c M[c][r] * v[c]`, `v` at `C*R` -/
def mulmv (C R : Nat) (r : Nat) : E :=
  sumE ((List.range C).map fun c => .mul (v (c*R + r)) (v (C*R + c)))
/-- `(v*M)[c] = Σ_r v[r] * M[c][r]`, `v : vec<R>` at 0, `M` at `R` -/
def mulvm (_C R : Nat) (c : Nat) : E :=
  sumE ((List.range R).map fun r => .mul (v r) (v (R + c*R + r)))
/-- `transpose(M) : mat<R,C>`, `T[r][c] = M[c][r]`; output `j` is column `j / C`, row `j % C` of `T` -/
def transpose (C R : Nat) (j : Nat) : E := v ((j % C)*R + j / C)
/-- `outerProduct(c : vec<R>, r : vec<C>) : mat<C,R>`, `m[i][j] = c[j]*r[i]` -/
def outer (_C R : Nat) (j : Nat) : E := .mul (v (j % R)) (v (R + j / R))
def conv (C R C2 R2 : Nat) (j : Nat) : E :=
  let c := j / R; let r := j % R
  if c < C2 ∧ r < R2 then v (c*R2 + r) else if c = r then one else zero
def diag (_C R : Nat) (j : Nat) : E := if j / R = j % R then v 0 else zero
def rowSet (C R i : Nat) (j : Nat) : E := if j % R = i then v (C*R + j / R) else v j
def colSet (C R i : Nat) (j : Nat) : E := if j / R = i then v (C*R + j % R) else v j

def shapeIdx : List (List Nat) := shapes.flatMap fun s => (List.range (k1 s)).map fun i => s ++ [i]
def shapeIdxC : List (List Nat) := shapes.flatMap fun s => (List.range (k0 s)).map fun i => s ++ [i]
def shapes3 : List (List Nat) := shapes.flatMap fun s => [2,3,4].map fun c2 => s ++ [c2]
def shapes4 : List (List Nat) := shapes.flatMap fun s => shapes.map fun t => s ++ t

def f_mul : Family :=
  { name := "mul", kind := .poly, keys := shapes3, nOut := fun k => k2 k * k1 k, spec := fun k => mul (k0 k) (k1 k) (k2 k) }
def f_asgmul_m : Family :=
  { name := "asgmul_m", kind := .poly, keys := squares, nOut := fun k => k0 k * k0 k, spec := fun k => mul (k0 k) (k0 k) (k0 k) }
def f_mulmv : Family :=
  { name := "mulmv", kind := .poly, keys := shapes, nOut := k1, spec := fun k => mulmv (k0 k) (k1 k) }
def f_mulvm : Family :=
  { name := "mulvm", kind := .poly, keys := shapes, nOut := k0, spec := fun k => mulvm (k0 k) (k1 k) }
def f_transpose : Family :=
  { name := "transpose", kind := .poly, keys := shapes, nOut := fun k => k0 k * k1 k, spec := fun k => transpose (k0 k) (k1 k) }
def f_outer : Family :=
  { name := "outer", kind := .poly, keys := shapes, nOut := fun k => k0 k * k1 k, spec := fun k => outer (k0 k) (k1 k) }
def f_compmult : Family :=
  { name := "compmult", kind := .poly, keys := shapes, nOut := fun k => k0 k * k1 k, spec := fun k j => .mul (v j) (v (k0 k * k1 k + j)) }
def f_addmm : Family :=
  { name := "addmm", kind := .poly, keys := shapes, nOut := fun k => k0 k * k1 k, spec := fun k j => .add (v j) (v (k0 k * k1 k + j)) }
def f_submm : Family :=
  { name := "submm", kind := .poly, keys := shapes, nOut := fun k => k0 k * k1 k, spec := fun k j => .sub (v j) (v (k0 k * k1 k + j)) }
def f_addms : Family :=
  { name := "addms", kind := .poly, keys := shapes, nOut := fun k => k0 k * k1 k, spec := fun k j => .add (v j) (v (k0 k * k1 k)) }
def f_addsm : Family :=
  { name := "addsm", kind := .poly, keys := [[2,2],[3,3],[4,4]], nOut := fun k => k0 k * k1 k, spec := fun k j => .add (v (k0 k * k1 k)) (v j) }
def f_subms : Family :=
  { name := "subms", kind := .poly, keys := shapes, nOut := fun k => k0 k * k1 k, spec := fun k j => .sub (v j) (v (k0 k * k1 k)) }
def f_subsm : Family :=
  { name := "subsm", kind := .poly, keys := [[2,2],[3,3],[4,4]], nOut := fun k => k0 k * k1 k, spec := fun k j => .sub (v (k0 k * k1 k)) (v j) }
def f_mulms : Family :=
  { name := "mulms", kind := .poly, keys := shapes, nOut := fun k => k0 k * k1 k, spec := fun k j => .mul (v j) (v (k0 k * k1 k)) }
def f_mulsm : Family :=
  { name := "mulsm", kind := .poly, keys := shapes, nOut := fun k => k0 k * k1 k, spec := fun k j => .mul (v (k0 k * k1 k)) (v j) }
def f_divms : Family :=
  { name := "divms", kind := .frac, keys := shapes, nOut := fun k => k0 k * k1 k, spec := fun k j => .div (v j) (v (k0 k * k1 k)), allowed := fun k => [v (k0 k * k1 k)] }
def f_divsm : Family :=
  { name := "divsm", kind := .frac, keys := shapes, nOut := fun k => k0 k * k1 k, spec := fun k j => .div (v (k0 k * k1 k)) (v j), allowed := fun k => (List.range (k0 k * k1 k)).map v }
def f_negm : Family :=
  { name := "negm", kind := .poly, keys := shapes, nOut := fun k => k0 k * k1 k, spec := fun _ j => .neg (v j) }
def f_posm : Family :=
  { name := "posm", kind := .poly, keys := shapes, nOut := fun k => k0 k * k1 k, spec := fun _ j => v j }
def f_preinc : Family :=
  { name := "preinc", kind := .poly, keys := shapes, nOut := fun k => 2 * (k0 k * k1 k), spec := fun k j => .add (v (j % (k0 k * k1 k))) one }
def f_predec : Family :=
  { name := "predec", kind := .poly, keys := shapes, nOut := fun k => 2 * (k0 k * k1 k), spec := fun k j => .sub (v (j % (k0 k * k1 k))) one }
def f_postinc : Family :=
  { name := "postinc", kind := .poly, keys := shapes, nOut := fun k => 2 * (k0 k * k1 k),
    spec := fun k j => if j < k0 k * k1 k then v j else .add (v (j - k0 k * k1 k)) one }
def f_postdec : Family :=
  { name := "postdec", kind := .poly, keys := shapes, nOut := fun k => 2 * (k0 k * k1 k),
    spec := fun k j => if j < k0 k * k1 k then v j else .sub (v (j - k0 k * k1 k)) one }
def f_asgadd_m : Family :=
  { name := "asgadd_m", kind := .poly, keys := shapes, nOut := fun k => k0 k * k1 k, spec := fun k j => .add (v j) (v (k0 k * k1 k + j)) }
def f_asgsub_m : Family :=
  { name := "asgsub_m", kind := .poly, keys := shapes, nOut := fun k => k0 k * k1 k, spec := fun k j => .sub (v j) (v (k0 k * k1 k + j)) }
def f_asgadd_s : Family :=
  { name := "asgadd_s", kind := .poly, keys := shapes, nOut := fun k => k0 k * k1 k, spec := fun k j => .add (v j) (v (k0 k * k1 k)) }
def f_asgsub_s : Family :=
  { name := "asgsub_s", kind := .poly, keys := shapes, nOut := fun k => k0 k * k1 k, spec := fun k j => .sub (v j) (v (k0 k * k1 k)) }
def f_asgmul_s : Family :=
  { name := "asgmul_s", kind := .poly, keys := shapes, nOut := fun k => k0 k * k1 k, spec := fun k j => .mul (v j) (v (k0 k * k1 k)) }
def f_asgdiv_s : Family :=
  { name := "asgdiv_s", kind := .frac, keys := shapes, nOut := fun k => k0 k * k1 k, spec := fun k j => .div (v j) (v (k0 k * k1 k)), allowed := fun k => [v (k0 k * k1 k)] }
def f_asg_m : Family :=
  { name := "asg_m", kind := .syn, keys := shapes, nOut := fun k => k0 k * k1 k, spec := fun _ j => v j }
def f_row_get : Family :=
  { name := "row_get", kind := .syn, keys := shapeIdx, nOut := k0, spec := fun k c => v (c * k1 k + k2 k) }
def f_row_set : Family :=
  { name := "row_set", kind := .syn, keys := shapeIdx, nOut := fun k => k0 k * k1 k, spec := fun k => rowSet (k0 k) (k1 k) (k2 k) }
def f_col_get : Family :=
  { name := "col_get", kind := .syn, keys := shapeIdxC, nOut := k1, spec := fun k r => v (k2 k * k1 k + r) }
def f_col_set : Family :=
  { name := "col_set", kind := .syn, keys := shapeIdxC, nOut := fun k => k0 k * k1 k, spec := fun k => colSet (k0 k) (k1 k) (k2 k) }
def f_ctor_diag : Family :=
  { name := "ctor_diag", kind := .syn, keys := shapes, nOut := fun k => k0 k * k1 k, spec := fun k => diag (k0 k) (k1 k) }
def f_conv : Family :=
  { name := "conv", kind := .syn, keys := shapes4, nOut := fun k => k0 k * k1 k, spec := fun k => conv (k0 k) (k1 k) (k2 k) (k3 k) }

/-- gtx `diagonalCxR(v)`: `v` on the diagonal, zero elsewhere (`v` has `min C R` components) -/
def f_gdiag : Family :=
  { name := "gdiag", kind := .syn, keys := shapes, nOut := fun k => k0 k * k1 k, spec := fun k j => if j / k1 k = j % k1 k then v (j / k1 k) else zero }
/-- gtx `rowMajorN`: the arguments are the ROWS (from vectors), or the matrix is transposed (from a matrix); `colMajorN`: the arguments are the columns / the same matrix -/
def sqs : List (List Nat) := [[2],[3],[4]]
def f_rowmajor_m : Family := { name := "rowmajor_m", kind := .syn, keys := sqs, nOut := fun k => k0 k * k0 k, spec := fun k j => v ((j % k0 k) * k0 k + j / k0 k) }
def f_colmajor_m : Family := { name := "colmajor_m", kind := .syn, keys := sqs, nOut := fun k => k0 k * k0 k, spec := fun _ j => v j }
def f_rowmajor_v : Family := { name := "rowmajor_v", kind := .syn, keys := sqs, nOut := fun k => k0 k * k0 k, spec := fun k j => v ((j % k0 k) * k0 k + j / k0 k) }
def f_colmajor_v : Family := { name := "colmajor_v", kind := .syn, keys := sqs, nOut := fun k => k0 k * k0 k, spec := fun _ j => v j }

/-- integer matrices (traced at symbolic int32): the same definitions, reached through ext/matrix_integer.inl's dispatcher -/
def f_itranspose : Family := { f_transpose with name := "itranspose", unit := "itranspose" }
def f_iouter : Family := { f_outer with name := "iouter", unit := "iouter" }
def f_icompmult : Family := { f_compmult with name := "icompmult", unit := "icompmult" }
def f_imulmv : Family := { f_mulmv with name := "imulmv", unit := "imulmv" }

def families : List Family := [f_mul, f_asgmul_m, f_mulmv, f_mulvm, f_transpose, f_outer, f_compmult, f_addmm, f_submm, f_addms, f_addsm, f_subms, f_subsm, f_mulms, f_mulsm, f_divms, f_divsm, f_negm, f_posm, f_preinc, f_predec, f_postinc, f_postdec, f_asgadd_m, f_asgsub_m, f_asgadd_s, f_asgsub_s, f_asgmul_s, f_asgdiv_s, f_asg_m, f_row_get, f_row_set, f_col_get, f_col_set, f_ctor_diag, f_conv, f_itranspose, f_iouter, f_icompmult, f_imulmv, f_gdiag, f_rowmajor_m, f_colmajor_m, f_rowmajor_v, f_colmajor_v]

def fam (n : String) : Family := findFam families n

end Glm.Spec.C02
