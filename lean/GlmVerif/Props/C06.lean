import GlmVerif.Props.C06.Layout
import GlmVerif.Props.C06.SmallFloat
import GlmVerif.Props.C06.RtSmall
import GlmVerif.Props.C06.RtU16_0
import GlmVerif.Props.C06.RtU16_1
import GlmVerif.Props.C06.RtU16_2
import GlmVerif.Props.C06.RtU16_3
import GlmVerif.Props.C06.RtS16_0
import GlmVerif.Props.C06.RtS16_1
import GlmVerif.Props.C06.RtS16_2
import GlmVerif.Props.C06.RtS16_3
/-!
# C06 — pack/unpack functions are mutually consistent, correctly quantised and laid out

Model: `Hand/C06.lean` (mirrors `glm/detail/func_packing.inl`, `glm/gtc/packing.inl` with the three
repairs `h/C06/fix_*.diff`).  This file: the word-level statements.

* (a) `pack (unpack p) = p` for every word `p` of every unsigned-normalised format, and
  `= canon p` (each most-negative field code replaced by `-N`) for the signed-normalised ones, in
  IEEE binary32 arithmetic (soft-float instance `SF`, validated against the hardware on every code by
  the driver).  Per-field facts come from the kernel enumerations `RtSmall`, `RtU16_*`, `RtS16_*`;
  the lifting to words is the layout lemmas of `Layout`.
* (b) `unpack (pack (unpack p)) = unpack p` for every word (stated for the signed formats, where it
  is not a trivial consequence of (a)).
* (d) field `k` of `pack v` is the code of component `k`, for EVERY float implementation `F`
  (generic in `FOps F`, hence also for the hardware floats): `…_layout`.
* (e), (f): `Layout`, `SmallFloat`.
Monotonicity and the half-step bound of the normalised packs for all 2^32 inputs are NOT proved here
(they are checked on the real code by the harness: lattice + random in quick, all 2^32 floats for
the scalar packs in thorough); see `h/C06/NOTES.md`.
-/
namespace Glm.Props.C06
open Glm.Hand.C06

/-! ### 16-bit fields from the sixteen chunks -/
/-- (a) unorm16 field -/
theorem rtU16 (h : UInt16) : qU16 (uU16 (F := SF) h) = h := by
  have := allPow_16x12 rtU16p rtU16_chunk00 rtU16_chunk01 rtU16_chunk02 rtU16_chunk03 rtU16_chunk04 rtU16_chunk05 rtU16_chunk06 rtU16_chunk07 rtU16_chunk08 rtU16_chunk09 rtU16_chunk10 rtU16_chunk11 rtU16_chunk12 rtU16_chunk13 rtU16_chunk14 rtU16_chunk15 h.toNat h.toNat_lt
  simpa [rtU16p] using this
def canon16 (h : UInt16) : UInt16 := if h = 0x8000 then 0x8001 else h
def canon8 (b : UInt8) : UInt8 := if b = 0x80 then 0x81 else b
/-- (a) snorm16 field: the most negative code re-packs to `-32767` -/
theorem rtS16 (h : UInt16) : (qS16 (uS16 (F := SF) h.toInt16)).toUInt16 = canon16 h := by
  have t := allPow_16x12 rtS16p rtS16_chunk00 rtS16_chunk01 rtS16_chunk02 rtS16_chunk03 rtS16_chunk04 rtS16_chunk05 rtS16_chunk06 rtS16_chunk07 rtS16_chunk08 rtS16_chunk09 rtS16_chunk10 rtS16_chunk11 rtS16_chunk12 rtS16_chunk13 rtS16_chunk14 rtS16_chunk15 h.toNat h.toNat_lt
  simp only [rtS16p, UInt16.ofNat_toNat, beq_iff_eq] at t
  rw [t]; unfold canon16
  by_cases hb : h = 0x8000
  · subst hb; decide
  · have : ¬ h.toNat = 0x8000 := fun e => hb (UInt16.toNat_inj.mp (by simpa using e))
    simp [hb, this]
theorem rtS8c (b : UInt8) : (qS8 (uS8 (F := SF) b.toInt8)).toUInt8 = canon8 b := rtS8 b
theorem uS16_canon (h : UInt16) : uS16 (F := SF) (canon16 h).toInt16 = uS16 h.toInt16 := by
  unfold canon16; split
  · next e => subst e; decide +kernel
  · rfl
theorem uS8_canon (b : UInt8) : uS8 (F := SF) (canon8 b).toInt8 = uS8 b.toInt8 := by
  unfold canon8; split
  · next e => subst e; decide +kernel
  · rfl
theorem uSn511_canon (c : Int32) : uSn (F := SF) 511 (canonS (-512) c) = uSn 511 c := by
  unfold canonS; split
  · next e => have := eq_of_beq e; subst this; decide +kernel
  · rfl
theorem uS1_canon (c : Int32) : uS1 (F := SF) (canonS (-2) c) = uS1 c := by
  unfold canonS; split
  · next e => have := eq_of_beq e; subst this; decide +kernel
  · rfl

/-! ### (a) word-level round trips, core `packing.hpp` -/
theorem packUnorm2x16_unpack (p : UInt32) :
    packUnorm2x16 (F := SF) (unpackUnorm2x16_x p) (unpackUnorm2x16_y p) = p := by
  simp only [packUnorm2x16, unpackUnorm2x16_x, unpackUnorm2x16_y, rtU16]; exact asm2x16_lanes p
theorem packSnorm2x16_unpack (p : UInt32) :
    packSnorm2x16 (F := SF) (unpackSnorm2x16_x p) (unpackSnorm2x16_y p)
      = asm2x16 (canon16 (lane2x16_0 p)) (canon16 (lane2x16_1 p)) := by
  simp only [packSnorm2x16, unpackSnorm2x16_x, unpackSnorm2x16_y, rtS16]
theorem packSnorm2x16_unpack_canonical (p : UInt32) (h : lane2x16_0 p ≠ 0x8000 ∧ lane2x16_1 p ≠ 0x8000) :
    packSnorm2x16 (F := SF) (unpackSnorm2x16_x p) (unpackSnorm2x16_y p) = p := by
  rw [packSnorm2x16_unpack]; simp only [canon16, h.1, h.2, if_false]; exact asm2x16_lanes p
theorem unpackSnorm2x16_idem (p : UInt32) :
    unpackSnorm2x16_x (F := SF) (packSnorm2x16 (F := SF) (unpackSnorm2x16_x p) (unpackSnorm2x16_y p)) = unpackSnorm2x16_x p ∧
    unpackSnorm2x16_y (F := SF) (packSnorm2x16 (F := SF) (unpackSnorm2x16_x p) (unpackSnorm2x16_y p)) = unpackSnorm2x16_y p := by
  rw [packSnorm2x16_unpack]
  simp only [unpackSnorm2x16_x, unpackSnorm2x16_y, asm2x16_lane0, asm2x16_lane1, uS16_canon, and_self]
theorem packUnorm4x8_unpack (p : UInt32) :
    packUnorm4x8 (F := SF) (unpackUnorm4x8_x p) (unpackUnorm4x8_y p) (unpackUnorm4x8_z p) (unpackUnorm4x8_w p) = p := by
  simp only [packUnorm4x8, unpackUnorm4x8_x, unpackUnorm4x8_y, unpackUnorm4x8_z, unpackUnorm4x8_w, rtU8]
  exact asm4x8_lanes p
theorem packSnorm4x8_unpack (p : UInt32) :
    packSnorm4x8 (F := SF) (unpackSnorm4x8_x p) (unpackSnorm4x8_y p) (unpackSnorm4x8_z p) (unpackSnorm4x8_w p)
      = asm4x8 (canon8 (lane4x8_0 p)) (canon8 (lane4x8_1 p)) (canon8 (lane4x8_2 p)) (canon8 (lane4x8_3 p)) := by
  simp only [packSnorm4x8, unpackSnorm4x8_x, unpackSnorm4x8_y, unpackSnorm4x8_z, unpackSnorm4x8_w, rtS8c]
theorem packSnorm4x8_unpack_canonical (p : UInt32)
    (h : lane4x8_0 p ≠ 0x80 ∧ lane4x8_1 p ≠ 0x80 ∧ lane4x8_2 p ≠ 0x80 ∧ lane4x8_3 p ≠ 0x80) :
    packSnorm4x8 (F := SF) (unpackSnorm4x8_x p) (unpackSnorm4x8_y p) (unpackSnorm4x8_z p) (unpackSnorm4x8_w p) = p := by
  rw [packSnorm4x8_unpack]; simp only [canon8, h.1, h.2.1, h.2.2.1, h.2.2.2, if_false]; exact asm4x8_lanes p
theorem unpackSnorm4x8_idem (p : UInt32) :
    let q := packSnorm4x8 (F := SF) (unpackSnorm4x8_x p) (unpackSnorm4x8_y p) (unpackSnorm4x8_z p) (unpackSnorm4x8_w p)
    unpackSnorm4x8_x (F := SF) q = unpackSnorm4x8_x p ∧ unpackSnorm4x8_y (F := SF) q = unpackSnorm4x8_y p ∧
    unpackSnorm4x8_z (F := SF) q = unpackSnorm4x8_z p ∧ unpackSnorm4x8_w (F := SF) q = unpackSnorm4x8_w p := by
  intro q; simp only [q]; rw [packSnorm4x8_unpack]
  simp only [unpackSnorm4x8_x, unpackSnorm4x8_y, unpackSnorm4x8_z, unpackSnorm4x8_w,
    asm4x8_lane0, asm4x8_lane1, asm4x8_lane2, asm4x8_lane3, uS8_canon, and_self]

/-! ### (a) `gtc/packing.hpp`, byte and short lanes -/
theorem packUnorm1x8_unpack (p : UInt8) : packUnorm1x8 (F := SF) (unpackUnorm1x8 p) = p := rtU8 p
theorem packUnorm2x8_unpack (p : UInt16) :
    packUnorm2x8 (F := SF) (unpackUnorm2x8_x p) (unpackUnorm2x8_y p) = p := by
  simp only [packUnorm2x8, unpackUnorm2x8_x, unpackUnorm2x8_y, rtU8]; exact asm2x8_lanes p
theorem packSnorm1x8_unpack (p : UInt8) : packSnorm1x8 (F := SF) (unpackSnorm1x8 p) = canon8 p := rtS8 p
theorem unpackSnorm1x8_idem (p : UInt8) :
    unpackSnorm1x8 (F := SF) (packSnorm1x8 (F := SF) (unpackSnorm1x8 p)) = unpackSnorm1x8 p := by
  rw [packSnorm1x8_unpack]; exact uS8_canon p
/-- the most negative snorm8 code decodes to -1.0f and re-packs to -127 (0x81), not to itself -/
theorem snorm8_most_negative :
    (unpackSnorm1x8 (F := SF) 0x80).bits = 0xbf800000 ∧ packSnorm1x8 (F := SF) (unpackSnorm1x8 0x80) = 0x81 := by
  decide +kernel
theorem packSnorm2x8_unpack (p : UInt16) :
    packSnorm2x8 (F := SF) (unpackSnorm2x8_x p) (unpackSnorm2x8_y p)
      = asm2x8 (canon8 (lane2x8_0 p)) (canon8 (lane2x8_1 p)) := by
  simp only [packSnorm2x8, unpackSnorm2x8_x, unpackSnorm2x8_y, rtS8c]
theorem packSnorm2x8_unpack_canonical (p : UInt16) (h : lane2x8_0 p ≠ 0x80 ∧ lane2x8_1 p ≠ 0x80) :
    packSnorm2x8 (F := SF) (unpackSnorm2x8_x p) (unpackSnorm2x8_y p) = p := by
  rw [packSnorm2x8_unpack]; simp only [canon8, h.1, h.2, if_false]; exact asm2x8_lanes p
theorem unpackSnorm2x8_idem (p : UInt16) :
    unpackSnorm2x8_x (F := SF) (packSnorm2x8 (F := SF) (unpackSnorm2x8_x p) (unpackSnorm2x8_y p)) = unpackSnorm2x8_x p ∧
    unpackSnorm2x8_y (F := SF) (packSnorm2x8 (F := SF) (unpackSnorm2x8_x p) (unpackSnorm2x8_y p)) = unpackSnorm2x8_y p := by
  rw [packSnorm2x8_unpack]
  simp only [unpackSnorm2x8_x, unpackSnorm2x8_y, asm2x8_lane0, asm2x8_lane1, uS8_canon, and_self]
theorem packUnorm1x16_unpack (p : UInt16) : packUnorm1x16 (F := SF) (unpackUnorm1x16 p) = p := rtU16 p
theorem packUnorm4x16_unpack (p : UInt64) :
    packUnorm4x16 (F := SF) (unpackUnorm4x16_x p) (unpackUnorm4x16_y p) (unpackUnorm4x16_z p) (unpackUnorm4x16_w p) = p := by
  simp only [packUnorm4x16, unpackUnorm4x16_x, unpackUnorm4x16_y, unpackUnorm4x16_z, unpackUnorm4x16_w, rtU16]
  exact asm4x16_lanes p
theorem packSnorm1x16_unpack (p : UInt16) : packSnorm1x16 (F := SF) (unpackSnorm1x16 p) = canon16 p := rtS16 p
theorem unpackSnorm1x16_idem (p : UInt16) :
    unpackSnorm1x16 (F := SF) (packSnorm1x16 (F := SF) (unpackSnorm1x16 p)) = unpackSnorm1x16 p := by
  rw [packSnorm1x16_unpack]; exact uS16_canon p
/-- the most negative snorm16 code decodes to -1.0f and re-packs to -32767 (0x8001) -/
theorem snorm16_most_negative :
    (unpackSnorm1x16 (F := SF) 0x8000).bits = 0xbf800000 ∧
    packSnorm1x16 (F := SF) (unpackSnorm1x16 0x8000) = 0x8001 := by decide +kernel
theorem packSnorm4x16_unpack (p : UInt64) :
    packSnorm4x16 (F := SF) (unpackSnorm4x16_x p) (unpackSnorm4x16_y p) (unpackSnorm4x16_z p) (unpackSnorm4x16_w p)
      = asm4x16 (canon16 (lane4x16_0 p)) (canon16 (lane4x16_1 p)) (canon16 (lane4x16_2 p)) (canon16 (lane4x16_3 p)) := by
  simp only [packSnorm4x16, unpackSnorm4x16_x, unpackSnorm4x16_y, unpackSnorm4x16_z, unpackSnorm4x16_w, rtS16]
theorem packSnorm4x16_unpack_canonical (p : UInt64)
    (h : lane4x16_0 p ≠ 0x8000 ∧ lane4x16_1 p ≠ 0x8000 ∧ lane4x16_2 p ≠ 0x8000 ∧ lane4x16_3 p ≠ 0x8000) :
    packSnorm4x16 (F := SF) (unpackSnorm4x16_x p) (unpackSnorm4x16_y p) (unpackSnorm4x16_z p) (unpackSnorm4x16_w p) = p := by
  rw [packSnorm4x16_unpack]; simp only [canon16, h.1, h.2.1, h.2.2.1, h.2.2.2, if_false]; exact asm4x16_lanes p
theorem unpackSnorm4x16_idem (p : UInt64) :
    let q := packSnorm4x16 (F := SF) (unpackSnorm4x16_x p) (unpackSnorm4x16_y p) (unpackSnorm4x16_z p) (unpackSnorm4x16_w p)
    unpackSnorm4x16_x (F := SF) q = unpackSnorm4x16_x p ∧ unpackSnorm4x16_y (F := SF) q = unpackSnorm4x16_y p ∧
    unpackSnorm4x16_z (F := SF) q = unpackSnorm4x16_z p ∧ unpackSnorm4x16_w (F := SF) q = unpackSnorm4x16_w p := by
  intro q; simp only [q]; rw [packSnorm4x16_unpack]
  simp only [unpackSnorm4x16_x, unpackSnorm4x16_y, unpackSnorm4x16_z, unpackSnorm4x16_w,
    asm4x16_lane0, asm4x16_lane1, asm4x16_lane2, asm4x16_lane3, uS16_canon, and_self]

/-! ### (a) bit-field formats -/
theorem packUnorm3x10_1x2_unpack (v : UInt32) :
    packUnorm3x10_1x2 (F := SF) (unpackUnorm3x10_1x2_x v) (unpackUnorm3x10_1x2_y v)
      (unpackUnorm3x10_1x2_z v) (unpackUnorm3x10_1x2_w v) = v := by
  have b := u1010102_bounds v
  simp only [packUnorm3x10_1x2, unpackUnorm3x10_1x2_x, unpackUnorm3x10_1x2_y, unpackUnorm3x10_1x2_z,
    unpackUnorm3x10_1x2_w, rtUn1023 _ b.1, rtUn1023 _ b.2.1, rtUn1023 _ b.2.2.1, rtUn3 _ b.2.2.2]
  exact u1010102_word v
theorem packSnorm3x10_1x2_unpack (v : UInt32) :
    packSnorm3x10_1x2 (F := SF) (unpackSnorm3x10_1x2_x v) (unpackSnorm3x10_1x2_y v)
      (unpackSnorm3x10_1x2_z v) (unpackSnorm3x10_1x2_w v)
      = asm_i10i10i10i2 (canonS (-512) (fld_i1010102_x v)) (canonS (-512) (fld_i1010102_y v))
          (canonS (-512) (fld_i1010102_z v)) (canonS (-2) (fld_i1010102_w v)) := by
  have b := i1010102_bounds v
  simp only [packSnorm3x10_1x2, unpackSnorm3x10_1x2_x, unpackSnorm3x10_1x2_y, unpackSnorm3x10_1x2_z,
    unpackSnorm3x10_1x2_w, rtSn511 _ b.1, rtSn511 _ b.2.1, rtSn511 _ b.2.2.1, rtS1 _ b.2.2.2]
theorem packSnorm3x10_1x2_unpack_canonical (v : UInt32)
    (h : fld_i1010102_x v ≠ -512 ∧ fld_i1010102_y v ≠ -512 ∧ fld_i1010102_z v ≠ -512 ∧ fld_i1010102_w v ≠ -2) :
    packSnorm3x10_1x2 (F := SF) (unpackSnorm3x10_1x2_x v) (unpackSnorm3x10_1x2_y v)
      (unpackSnorm3x10_1x2_z v) (unpackSnorm3x10_1x2_w v) = v := by
  rw [packSnorm3x10_1x2_unpack]
  simp only [canonS, beq_iff_eq, h.1, h.2.1, h.2.2.1, h.2.2.2, if_false]
  exact i1010102_word v
theorem unpackSnorm3x10_1x2_idem (v : UInt32) :
    let q := packSnorm3x10_1x2 (F := SF) (unpackSnorm3x10_1x2_x v) (unpackSnorm3x10_1x2_y v)
      (unpackSnorm3x10_1x2_z v) (unpackSnorm3x10_1x2_w v)
    unpackSnorm3x10_1x2_x (F := SF) q = unpackSnorm3x10_1x2_x v ∧ unpackSnorm3x10_1x2_y (F := SF) q = unpackSnorm3x10_1x2_y v ∧
    unpackSnorm3x10_1x2_z (F := SF) q = unpackSnorm3x10_1x2_z v ∧ unpackSnorm3x10_1x2_w (F := SF) q = unpackSnorm3x10_1x2_w v := by
  intro q; simp only [q]; rw [packSnorm3x10_1x2_unpack]
  have b := i1010102_bounds v
  have cx : ∀ c : Int32, (-512 ≤ c ∧ c ≤ 511) → ((canonS (-512) c) <<< 22) >>> 22 = canonS (-512) c := by
    intro c hc; unfold canonS; bv_decide (config := { timeout := 180 })
  have cw : ∀ c : Int32, (-2 ≤ c ∧ c ≤ 1) → ((canonS (-2) c) <<< 30) >>> 30 = canonS (-2) c := by
    intro c hc; unfold canonS; bv_decide (config := { timeout := 180 })
  simp only [unpackSnorm3x10_1x2_x, unpackSnorm3x10_1x2_y, unpackSnorm3x10_1x2_z, unpackSnorm3x10_1x2_w,
    i1010102_x, i1010102_y, i1010102_z, i1010102_w, cx _ b.1, cx _ b.2.1, cx _ b.2.2.1, cw _ b.2.2.2,
    uSn511_canon, uS1_canon, and_self]
theorem packUnorm2x4_unpack (v : UInt8) :
    packUnorm2x4 (F := SF) (unpackUnorm2x4_x v) (unpackUnorm2x4_y v) = v := by
  have b := u4u4_bounds v
  simp only [packUnorm2x4, unpackUnorm2x4_x, unpackUnorm2x4_y, rtUn15 _ b.1, rtUn15 _ b.2]
  exact u4u4_word v
theorem packUnorm4x4_unpack (v : UInt16) :
    packUnorm4x4 (F := SF) (unpackUnorm4x4_x v) (unpackUnorm4x4_y v) (unpackUnorm4x4_z v) (unpackUnorm4x4_w v) = v := by
  have b := u4x4_bounds v
  simp only [packUnorm4x4, unpackUnorm4x4_x, unpackUnorm4x4_y, unpackUnorm4x4_z, unpackUnorm4x4_w,
    rtUn15 _ b.1, rtUn15 _ b.2.1, rtUn15 _ b.2.2.1, rtUn15 _ b.2.2.2]
  exact u4x4_word v
theorem packUnorm1x5_1x6_1x5_unpack (v : UInt16) :
    packUnorm1x5_1x6_1x5 (F := SF) (unpackUnorm1x5_1x6_1x5_x v) (unpackUnorm1x5_1x6_1x5_y v)
      (unpackUnorm1x5_1x6_1x5_z v) = v := by
  have b := u565_bounds v
  simp only [packUnorm1x5_1x6_1x5, unpackUnorm1x5_1x6_1x5_x, unpackUnorm1x5_1x6_1x5_y,
    unpackUnorm1x5_1x6_1x5_z, rtUn31 _ b.1, rtUn63 _ b.2.1, rtUn31 _ b.2.2]
  exact u565_word v
theorem packUnorm3x5_1x1_unpack (v : UInt16) :
    packUnorm3x5_1x1 (F := SF) (unpackUnorm3x5_1x1_x v) (unpackUnorm3x5_1x1_y v)
      (unpackUnorm3x5_1x1_z v) (unpackUnorm3x5_1x1_w v) = v := by
  have b := u5551_bounds v
  simp only [packUnorm3x5_1x1, unpackUnorm3x5_1x1_x, unpackUnorm3x5_1x1_y, unpackUnorm3x5_1x1_z,
    unpackUnorm3x5_1x1_w, rtUn31 _ b.1, rtUn31 _ b.2.1, rtUn31 _ b.2.2.1, rtU1 _ b.2.2.2]
  exact u5551_word v
theorem packUnorm2x3_1x2_unpack (v : UInt8) :
    packUnorm2x3_1x2 (F := SF) (unpackUnorm2x3_1x2_x v) (unpackUnorm2x3_1x2_y v) (unpackUnorm2x3_1x2_z v) = v := by
  have b := u332_bounds v
  simp only [packUnorm2x3_1x2, unpackUnorm2x3_1x2_x, unpackUnorm2x3_1x2_y, unpackUnorm2x3_1x2_z,
    rtUn7 _ b.1, rtUn7 _ b.2.1, rtUn3 _ b.2.2]
  exact u332_word v

/-! ### (a) the templates `packUnorm<uintType>` / `packSnorm<intType>` at 8 and 16 bits × float -/
theorem tUnorm8_is_literal : tPackUnorm8 (F := SF) = qU8 ∧ tUnpackUnorm8 (F := SF) = uU8 := by
  have e : ofU8 (F := SF) 255 = FOps.ofInt 255 := by decide +kernel
  constructor
  · funext v; unfold tPackUnorm8 qU8; rw [e]
  · funext c; unfold tUnpackUnorm8 uU8; rw [literal_scales.1]
theorem tUnorm16_is_literal : tPackUnorm16 (F := SF) = qU16 ∧ tUnpackUnorm16 (F := SF) = uU16 := by
  have e : ofU16 (F := SF) 65535 = FOps.ofInt 65535 := by decide +kernel
  constructor
  · funext v; unfold tPackUnorm16 qU16; rw [e]
  · funext c; unfold tUnpackUnorm16 uU16; rw [literal_scales.2.2.1]
theorem tSnorm8_is_literal : tPackSnorm8 (F := SF) = qS8 ∧ tUnpackSnorm8 (F := SF) = uS8 := by
  have e : ofI8 (F := SF) 127 = FOps.ofInt 127 := by decide +kernel
  constructor
  · funext v; unfold tPackSnorm8 qS8; rw [e]
  · funext c; unfold tUnpackSnorm8 uS8; rw [literal_scales.2.1]
theorem tSnorm16_is_literal : tPackSnorm16 (F := SF) = qS16 ∧ tUnpackSnorm16 (F := SF) = uS16 := by
  have e : ofI16 (F := SF) 32767 = FOps.ofInt 32767 := by decide +kernel
  constructor
  · funext v; unfold tPackSnorm16 qS16; rw [e]
  · funext c; unfold tUnpackSnorm16 uS16; rw [literal_scales.2.2.2]
theorem tPackUnorm8_unpack (c : UInt8) : tPackUnorm8 (F := SF) (tUnpackUnorm8 c) = c := by
  rw [tUnorm8_is_literal.1, tUnorm8_is_literal.2]; exact rtU8 c
theorem tPackUnorm16_unpack (c : UInt16) : tPackUnorm16 (F := SF) (tUnpackUnorm16 c) = c := by
  rw [tUnorm16_is_literal.1, tUnorm16_is_literal.2]; exact rtU16 c
theorem tPackSnorm8_unpack (c : UInt8) :
    (tPackSnorm8 (F := SF) (tUnpackSnorm8 c.toInt8)).toUInt8 = canon8 c := by
  rw [tSnorm8_is_literal.1, tSnorm8_is_literal.2]; exact rtS8 c
theorem tPackSnorm16_unpack (c : UInt16) :
    (tPackSnorm16 (F := SF) (tUnpackSnorm16 c.toInt16)).toUInt16 = canon16 c := by
  rw [tSnorm16_is_literal.1, tSnorm16_is_literal.2]; exact rtS16 c

/-! ### known finding: the templates at a 32-bit integer type × `float`
`static_cast<float>(numeric_limits<uint32>::max())` is `2^32` (and `2^31` for `int32`), so `v = 1.0f`
multiplies to a value outside the integer type and the conversion (undefined behaviour; `cvttss2si`
on x86-64) yields code 0 (resp. `INT_MIN`) instead of the top code. -/
/-- REFUTED: "values at the end of the range pack to the end code": `packUnorm<uint32>(vec1(1.0f)) = 0` -/
theorem tPackUnorm32_one_wraps : tPackUnorm32 (F := SF) f1 = 0 := by decide +kernel
/-- REFUTED: `packSnorm<int32>(vec1(1.0f)) = INT_MIN` -/
theorem tPackSnorm32_one_wraps : tPackSnorm32 (F := SF) f1 = -2147483648 := by decide +kernel
/-- what holds: below 1.0 the product stays in range — the predecessor of 1.0 packs to the largest
code a `float` product can reach, 0 ↦ 0, 0.5 ↦ 2^31; -1.0 ↦ -2^31 (one below `-N`, inside the slack) -/
theorem tPack32_partial :
    tPackUnorm32 (F := SF) ⟨0x3f7fffff⟩ = 0xffffff00 ∧ tPackUnorm32 (F := SF) f0 = 0 ∧
    tPackUnorm32 (F := SF) ⟨0x3f000000⟩ = 0x80000000 ∧
    tPackSnorm32 (F := SF) ⟨0x3f7fffff⟩ = 0x7fffff80 ∧ tPackSnorm32 (F := SF) fm1 = -2147483648 := by
  decide +kernel

/-! ### (d) layout of the float packs, for ANY float implementation -/
section layout
variable {F : Type} [FOps F]
theorem packUnorm2x16_layout (x y : F) :
    lane2x16_0 (packUnorm2x16 x y) = qU16 x ∧ lane2x16_1 (packUnorm2x16 x y) = qU16 y :=
  ⟨asm2x16_lane0 _ _, asm2x16_lane1 _ _⟩
theorem packSnorm2x16_layout (x y : F) :
    lane2x16_0 (packSnorm2x16 x y) = (qS16 x).toUInt16 ∧ lane2x16_1 (packSnorm2x16 x y) = (qS16 y).toUInt16 :=
  ⟨asm2x16_lane0 _ _, asm2x16_lane1 _ _⟩
theorem packUnorm4x8_layout (x y z w : F) :
    lane4x8_0 (packUnorm4x8 x y z w) = qU8 x ∧ lane4x8_1 (packUnorm4x8 x y z w) = qU8 y ∧
    lane4x8_2 (packUnorm4x8 x y z w) = qU8 z ∧ lane4x8_3 (packUnorm4x8 x y z w) = qU8 w :=
  ⟨asm4x8_lane0 _ _ _ _, asm4x8_lane1 _ _ _ _, asm4x8_lane2 _ _ _ _, asm4x8_lane3 _ _ _ _⟩
theorem packSnorm4x8_layout (x y z w : F) :
    lane4x8_0 (packSnorm4x8 x y z w) = (qS8 x).toUInt8 ∧ lane4x8_1 (packSnorm4x8 x y z w) = (qS8 y).toUInt8 ∧
    lane4x8_2 (packSnorm4x8 x y z w) = (qS8 z).toUInt8 ∧ lane4x8_3 (packSnorm4x8 x y z w) = (qS8 w).toUInt8 :=
  ⟨asm4x8_lane0 _ _ _ _, asm4x8_lane1 _ _ _ _, asm4x8_lane2 _ _ _ _, asm4x8_lane3 _ _ _ _⟩
theorem packUnorm2x8_layout (x y : F) :
    lane2x8_0 (packUnorm2x8 x y) = qU8 x ∧ lane2x8_1 (packUnorm2x8 x y) = qU8 y :=
  ⟨asm2x8_lane0 _ _, asm2x8_lane1 _ _⟩
theorem packSnorm2x8_layout (x y : F) :
    lane2x8_0 (packSnorm2x8 x y) = (qS8 x).toUInt8 ∧ lane2x8_1 (packSnorm2x8 x y) = (qS8 y).toUInt8 :=
  ⟨asm2x8_lane0 _ _, asm2x8_lane1 _ _⟩
theorem packUnorm4x16_layout (x y z w : F) :
    lane4x16_0 (packUnorm4x16 x y z w) = qU16 x ∧ lane4x16_1 (packUnorm4x16 x y z w) = qU16 y ∧
    lane4x16_2 (packUnorm4x16 x y z w) = qU16 z ∧ lane4x16_3 (packUnorm4x16 x y z w) = qU16 w :=
  ⟨asm4x16_lane0 _ _ _ _, asm4x16_lane1 _ _ _ _, asm4x16_lane2 _ _ _ _, asm4x16_lane3 _ _ _ _⟩
theorem packSnorm4x16_layout (x y z w : F) :
    lane4x16_0 (packSnorm4x16 x y z w) = (qS16 x).toUInt16 ∧ lane4x16_1 (packSnorm4x16 x y z w) = (qS16 y).toUInt16 ∧
    lane4x16_2 (packSnorm4x16 x y z w) = (qS16 z).toUInt16 ∧ lane4x16_3 (packSnorm4x16 x y z w) = (qS16 w).toUInt16 :=
  ⟨asm4x16_lane0 _ _ _ _, asm4x16_lane1 _ _ _ _, asm4x16_lane2 _ _ _ _, asm4x16_lane3 _ _ _ _⟩
theorem packUnorm3x10_1x2_layout (x y z w : F) :
    fld_u1010102_x (packUnorm3x10_1x2 x y z w) = qUn 1023 x &&& 0x3ff ∧
    fld_u1010102_y (packUnorm3x10_1x2 x y z w) = qUn 1023 y &&& 0x3ff ∧
    fld_u1010102_z (packUnorm3x10_1x2 x y z w) = qUn 1023 z &&& 0x3ff ∧
    fld_u1010102_w (packUnorm3x10_1x2 x y z w) = qUn 3 w &&& 0x3 :=
  ⟨u1010102_x _ _ _ _, u1010102_y _ _ _ _, u1010102_z _ _ _ _, u1010102_w _ _ _ _⟩
theorem packSnorm3x10_1x2_layout (x y z w : F) :
    fld_i1010102_x (packSnorm3x10_1x2 x y z w) = (qSn 511 x <<< 22) >>> 22 ∧
    fld_i1010102_y (packSnorm3x10_1x2 x y z w) = (qSn 511 y <<< 22) >>> 22 ∧
    fld_i1010102_z (packSnorm3x10_1x2 x y z w) = (qSn 511 z <<< 22) >>> 22 ∧
    fld_i1010102_w (packSnorm3x10_1x2 x y z w) = (qSn 1 w <<< 30) >>> 30 :=
  ⟨i1010102_x _ _ _ _, i1010102_y _ _ _ _, i1010102_z _ _ _ _, i1010102_w _ _ _ _⟩
theorem packUnorm2x4_layout (x y : F) :
    fld_u4u4_x (packUnorm2x4 x y) = qUn 15 x &&& 0xf ∧ fld_u4u4_y (packUnorm2x4 x y) = qUn 15 y &&& 0xf :=
  ⟨u4u4_x _ _, u4u4_y _ _⟩
theorem packUnorm4x4_layout (x y z w : F) :
    fld_u4x4_x (packUnorm4x4 x y z w) = qUn 15 x &&& 0xf ∧ fld_u4x4_y (packUnorm4x4 x y z w) = qUn 15 y &&& 0xf ∧
    fld_u4x4_z (packUnorm4x4 x y z w) = qUn 15 z &&& 0xf ∧ fld_u4x4_w (packUnorm4x4 x y z w) = qUn 15 w &&& 0xf :=
  ⟨u4x4_x _ _ _ _, u4x4_y _ _ _ _, u4x4_z _ _ _ _, u4x4_w _ _ _ _⟩
theorem packUnorm1x5_1x6_1x5_layout (x y z : F) :
    fld_u565_x (packUnorm1x5_1x6_1x5 x y z) = qUn 31 x &&& 0x1f ∧
    fld_u565_y (packUnorm1x5_1x6_1x5 x y z) = qUn 63 y &&& 0x3f ∧
    fld_u565_z (packUnorm1x5_1x6_1x5 x y z) = qUn 31 z &&& 0x1f :=
  ⟨u565_x _ _ _, u565_y _ _ _, u565_z _ _ _⟩
theorem packUnorm3x5_1x1_layout (x y z w : F) :
    fld_u5551_x (packUnorm3x5_1x1 x y z w) = qUn 31 x &&& 0x1f ∧ fld_u5551_y (packUnorm3x5_1x1 x y z w) = qUn 31 y &&& 0x1f ∧
    fld_u5551_z (packUnorm3x5_1x1 x y z w) = qUn 31 z &&& 0x1f ∧ fld_u5551_w (packUnorm3x5_1x1 x y z w) = qUn 1 w &&& 0x1 :=
  ⟨u5551_x _ _ _ _, u5551_y _ _ _ _, u5551_z _ _ _ _, u5551_w _ _ _ _⟩
theorem packUnorm2x3_1x2_layout (x y z : F) :
    fld_u332_x (packUnorm2x3_1x2 x y z) = qUn 7 x &&& 0x7 ∧ fld_u332_y (packUnorm2x3_1x2 x y z) = qUn 7 y &&& 0x7 ∧
    fld_u332_z (packUnorm2x3_1x2 x y z) = qUn 3 z &&& 0x3 :=
  ⟨u332_x _ _ _, u332_y _ _ _, u332_z _ _ _⟩
end layout

/-! ### shared-exponent decode (specification side; the encoder uses libm and is only validated) -/
/-- the decode specification `c·2^(w-24)` is exact (9-bit mantissa): its pattern has the low 14
mantissa bits clear, is finite, and is zero iff `c = 0`; checked for all 512·32 (c, w) pairs -/
theorem f3x9_decode_exact : allPow (fun n =>
    let c := n % 512; let w := n / 512
    let b := Spec.f3x9Decode c w
    b % 2^14 == 0 && b < 0x7f800000 && (b == 0) == (c == 0) &&
    -- value check: sig · 2^qexp = c · 2^(w + 125)   (both sides scaled by 2^149)
    (Soft.sig b * 2^(Soft.qexp b) == c * 2^(w + 125))) 14 0 = true := by decide +kernel
/-- largest value of the format is 511·2^7 = 65408 (the repaired `SharedExpMax`), not 32768 -/
theorem f3x9_max : Spec.f3x9Decode 511 31 = 0x477f8000 ∧ Soft.roundPack 65408 Soft.ebias = 0x477f8000 := by
  decide +kernel

example : packUnorm4x8 (F := SF) ⟨0x3f800000⟩ ⟨0⟩ ⟨0x3f000000⟩ ⟨0xbf800000⟩ = 0x008000ff := by decide +kernel
example : (unpackUnorm4x8_z (F := SF) 0x008000ff).bits = 0x3f008081 := by decide +kernel
example : canon16 0x8000 = 0x8001 ∧ canon16 7 = 7 := by decide
end Glm.Props.C06
