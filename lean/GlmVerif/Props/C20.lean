import GlmVerif.Props.C05
import GlmVerif.Props.C11
import GlmVerif.Props.C12
import GlmVerif.Props.C13
import GlmVerif.Props.C14
/-!
# C20 — no undefined behaviour inside the documented domains (the part a theorem can carry)

The arithmetic guards of the modelled code, collected from the properties whose models carry them; each is
proved for **all** inputs of the documented domain:
* shifts of `bitfieldExtract` / `bitfieldInsert` stay below the width on the GLSL domain
  `0 ≤ offset, 0 ≤ bits, offset + bits ≤ w` (8/16/32/64 bit) — C05;
* the float → integer conversion of `iround` / `uround` is in range on their documented domain — C11;
* `floatDistance` never overflows its signed result — C14;
* `refract` (vector and scalar), `slerp` (also with spins) evaluate `sqrt` / `acos` only inside their domains on the
  path they take — C12, C13 (model regenerated from /repo).
Memory-safety and aliasing UB, and anything the models do not contain, are covered only by the sanitizer replay of
`check.py C20` (see DESIGN.md §6 C20).
-/
namespace Glm.Props.C20

theorem bitfield_shifts_in_range_8 : type_of% @GlmVerif.C05.field8_shift_in_range := @GlmVerif.C05.field8_shift_in_range
theorem bitfield_shifts_in_range_16 : type_of% @GlmVerif.C05.field16_shift_in_range := @GlmVerif.C05.field16_shift_in_range
theorem bitfield_shifts_in_range_32 : type_of% @GlmVerif.C05.field32_shift_in_range := @GlmVerif.C05.field32_shift_in_range
theorem bitfield_shifts_in_range_64 : type_of% @GlmVerif.C05.field64_shift_in_range := @GlmVerif.C05.field64_shift_in_range
theorem iround_conversion_defined : type_of% @GlmVerif.C11.iround_defined := @GlmVerif.C11.iround_defined
theorem uround_conversion_defined : type_of% @GlmVerif.C11.uround_defined := @GlmVerif.C11.uround_defined
theorem floatDistance32_no_signed_overflow : type_of% @Glm.Props.C14.floatDistance32_no_overflow := @Glm.Props.C14.floatDistance32_no_overflow
theorem floatDistance64_no_signed_overflow : type_of% @Glm.Props.C14.floatDistance64_no_overflow := @Glm.Props.C14.floatDistance64_no_overflow
theorem refract_no_invalid_sqrt : type_of% @Glm.Props.C12.refract_defined := @Glm.Props.C12.refract_defined
theorem scalar_refract_no_invalid_sqrt : type_of% @Glm.Props.C12.srefract_defined := @Glm.Props.C12.srefract_defined
theorem slerp_no_invalid_acos : type_of% @Glm.Props.C13.slerp_defined := @Glm.Props.C13.slerp_defined
theorem slerp_spin_no_invalid_acos : type_of% @Glm.Props.C13.slerp_spin_defined := @Glm.Props.C13.slerp_spin_defined

end Glm.Props.C20
