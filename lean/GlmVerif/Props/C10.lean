import GlmVerif.Sem.Family
import GlmVerif.Spec.C10
import GlmVerif.Gen.C10
import GlmVerif.Props.C10.All
/-!
# C10 — inverse, determinant and their gtc variants satisfy the defining identities

For the model regenerated from /repo: `determinant` is the Leibniz/Laplace expansion
(every commutative ring); `inverse(M)*M = I`, `M*inverse(M) = I`,
`inverseTranspose(M)ᵀ*M = I`, `(A/B)*B = A`, `M*(M/v) = v`, `(v/M)*M = v`,
`affineInverse(M)*M = I` for affine `M` — in every field of characteristic zero, for
every matrix whose determinant (the only divisor the code uses, which is itself
checked) is non-zero; `adjugate(M)*M = det(M) I`.  Sizes 2, 3, 4.
-/
namespace Glm.Props.C10
open Glm Glm.Spec.C10 Glm.Gen.C10


variable {K : Type} [Field K] [CharZero K]

/-- **`inverse(M) * M = I`**, sizes 2–4, every field of characteristic zero, every `M` with `det M ≠ 0`
(entry `(c,r)` of the product of the traced inverse with `M`). -/
theorem inverse_mul_self (N : Nat) (hN : [N] ∈ squares) (j : Nat) (hj : j < N * N) (env : Nat → K)
    (hdet : (detE N (M N 0)).eval (fieldOps K) env ≠ 0) :
    (mulEntry N (outM N (lookup "inv" [N]).outE) (M N 0) j).eval (fieldOps K) env
      = if j / N = j % N then 1 else 0 := by
  have hall : ∀ a ∈ f_inv_left.allowed [N], a.divOK (fieldOps K) env ∧ a.eval (fieldOps K) env ≠ 0 := by
    intro a ha
    simp only [f_inv_left, List.mem_singleton] at ha
    subst ha
    refine ⟨?_, hdet⟩
    have : (detE (k0 [N]) (M (k0 [N]) 0)).divisors = [] := by
      simp only [squares, List.mem_cons, List.cons.injEq, and_true, List.not_mem_nil, or_false] at hN
      rcases hN with rfl | rfl | rfl <;> decide +kernel
    intro d hd; rw [this] at hd; simp at hd
  have := (Family.frac_sound fieldOps_fieldLike (all_ok f_inv_left (by simp [families])) rfl rfl rfl (ks := [N]) hN (j := j) hj env hall).2
  refine this.trans ?_
  show (delta (j / N) (j % N)).eval (fieldOps K) env = _
  unfold delta; split <;> simp [one, zero, E.eval]

/-- the determinant the code divides by is the Leibniz/Laplace determinant (every commutative ring) -/
theorem determinant_correct {R : Type} [CommRing R] (N : Nat) (hN : [N] ∈ squares) (env : Nat → R) :
    ((lookup "det" [N]).outE 0).eval (ringOps R) env = (detE N (M N 0)).eval (ringOps R) env :=
  Family.poly_sound ringOps_ringLike (all_ok f_det (by simp [families])) rfl rfl (ks := [N]) hN (j := 0) Nat.zero_lt_one env

/-- all `frac` families of C10, generic statement -/
theorem frac_families_correct (f : Family) (hf : f ∈ families) (htm : f.treeMode = false) (hk : f.kind = .frac) (hdf : f.divFree = false)
    (ks : List Nat) (hks : ks ∈ f.keys) (j : Nat) (hj : j < f.nOut ks) (env : Nat → K)
    (hall : ∀ a ∈ f.allowed ks, a.divOK (fieldOps K) env ∧ a.eval (fieldOps K) env ≠ 0) :
    (f.post ks (lookup f.unit ks).outE j).eval (fieldOps K) env = (f.spec ks j).eval (fieldOps K) env :=
  (Family.frac_sound fieldOps_fieldLike (all_ok f hf) htm hk hdf hks hj env hall).2

/-- non-vacuity: the 4×4 inverse really is a traced unit with 16 outputs over 16 inputs, dividing -/
example : (lookup "inv" [4]).nIn = 16 ∧ (lookup "inv" [4]).outs.length = 16 ∧
    ((lookup "inv" [4]).outE 0).divisors.length > 0 := by decide +kernel

end Glm.Props.C10
