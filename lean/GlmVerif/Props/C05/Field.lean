/-
  C05 — bitfieldReverse, bitfieldExtract, bitfieldInsert: model = specification on the documented domain
  Generated once from h/C05/gen_props.py (same statement for each of the eight element types); reviewed artefact.
  Every theorem: model (Hand/C05.lean, mirrors glm/detail/func_integer.inl) = executable specification (Spec.*,
  written from the GLSL text), for ALL inputs of the type.  `bv_decide` theorems are whitelisted in checks/c05.py.
-/
import Std.Tactic.BVDecide
import GlmVerif.Hand.C05
namespace GlmVerif.C05
open Spec
set_option linter.unusedSimpArgs false


theorem fld_w8 : Nat.toUInt64 8 = 8 := rfl
theorem fld_w16 : Nat.toUInt64 16 = 16 := rfl
theorem fld_w32 : Nat.toUInt64 32 = 32 := rfl
theorem fld_w64 : Nat.toUInt64 64 = 64 := rfl


/-- bitfieldReverse<UInt8>: bit n of the result is bit 7-n of the argument -/
theorem bitfieldReverse_U8_ok (v : UInt8) : (bitfieldReverse_U8 v).toUInt64 = Spec.reverse 8 v.toUInt64 := by
  simp only [bitfieldReverse_I8, bitfieldReverse_U8, revStep8, Spec.reverse, reverseFrom, bit, fld_w8, fld_w16, fld_w32, fld_w64]
  bv_decide (config := { timeout := 180 })

/-- bitfieldExtract<UInt8>: for 0 ≤ offset, 0 ≤ bits, offset+bits ≤ 8 the result is the field, zero-extended -/
theorem bitfieldExtract_U8_ok (v : UInt8) (o b : Int32) (h : inDomain 8 o b = true) :
    (bitfieldExtract_U8 v o b).toUInt64 = Spec.extract false 8 v.toUInt64 o.toUInt32.toUInt64 b.toUInt32.toUInt64 := by
  simp only [inDomain] at h
  simp only [bitfieldExtract_U8, Spec.extract, extractFrom, extractBit, bit, Bool.true_and, Bool.false_and]
  bv_decide (config := { timeout := 180 })

/-- bitfieldInsert<UInt8>: on the same domain, bits [offset, offset+bits) come from insert, the others from base -/
theorem bitfieldInsert_U8_ok (x y : UInt8) (o b : Int32) (h : inDomain 8 o b = true) :
    (bitfieldInsert_U8 x y o b).toUInt64 = Spec.insert 8 x.toUInt64 y.toUInt64 o.toUInt32.toUInt64 b.toUInt32.toUInt64 := by
  simp only [inDomain] at h
  simp only [bitfieldInsert_I8, bitfieldInsert_U8, mask_U8, Spec.insert, insertFrom, insertBit, bit]
  bv_decide (config := { timeout := 180 })

/-- bitfieldReverse<Int8>: bit n of the result is bit 7-n of the argument -/
theorem bitfieldReverse_I8_ok (v : Int8) : (bitfieldReverse_I8 v).toUInt8.toUInt64 = Spec.reverse 8 v.toUInt8.toUInt64 := by
  simp only [bitfieldReverse_I8, bitfieldReverse_U8, revStep8, Spec.reverse, reverseFrom, bit, fld_w8, fld_w16, fld_w32, fld_w64]
  bv_decide (config := { timeout := 180 })

/-- bitfieldExtract<Int8>: for 0 ≤ offset, 0 ≤ bits, offset+bits ≤ 8 the result is the field, sign-extended (0 for bits = 0) -/
theorem bitfieldExtract_I8_ok (v : Int8) (o b : Int32) (h : inDomain 8 o b = true) :
    (bitfieldExtract_I8 v o b).toUInt8.toUInt64 = Spec.extract true 8 v.toUInt8.toUInt64 o.toUInt32.toUInt64 b.toUInt32.toUInt64 := by
  simp only [inDomain] at h
  simp only [bitfieldExtract_I8, Spec.extract, extractFrom, extractBit, bit, Bool.true_and, Bool.false_and]
  bv_decide (config := { timeout := 180 })

/-- bitfieldInsert<Int8>: on the same domain, bits [offset, offset+bits) come from insert, the others from base -/
theorem bitfieldInsert_I8_ok (x y : Int8) (o b : Int32) (h : inDomain 8 o b = true) :
    (bitfieldInsert_I8 x y o b).toUInt8.toUInt64 = Spec.insert 8 x.toUInt8.toUInt64 y.toUInt8.toUInt64 o.toUInt32.toUInt64 b.toUInt32.toUInt64 := by
  simp only [inDomain] at h
  simp only [bitfieldInsert_I8, bitfieldInsert_U8, mask_U8, Spec.insert, insertFrom, insertBit, bit]
  bv_decide (config := { timeout := 180 })

/-- on the domain, with bits > 0 (bits = 0 returns early), every shift count of bitfieldExtract/Insert<8-bit> is below 8:
    no shift by the full width (undefined behaviour in C++) is executed -/
theorem field8_shift_in_range (o b : Int32) (h : inDomain 8 o b = true) (hb : (b ≤ 0) = false) :
    ((8 - o - b).toInt8.toUInt8 < 8 ∧ (8 - b).toInt8.toUInt8 < 8 ∧ o.toInt8.toUInt8 < 8) := by
  simp only [inDomain] at h
  bv_decide (config := { timeout := 180 })

/-- bitfieldReverse<UInt16>: bit n of the result is bit 15-n of the argument -/
theorem bitfieldReverse_U16_ok (v : UInt16) : (bitfieldReverse_U16 v).toUInt64 = Spec.reverse 16 v.toUInt64 := by
  simp only [bitfieldReverse_I16, bitfieldReverse_U16, revStep16, Spec.reverse, reverseFrom, bit, fld_w8, fld_w16, fld_w32, fld_w64]
  bv_decide (config := { timeout := 180 })

/-- bitfieldExtract<UInt16>: for 0 ≤ offset, 0 ≤ bits, offset+bits ≤ 16 the result is the field, zero-extended -/
theorem bitfieldExtract_U16_ok (v : UInt16) (o b : Int32) (h : inDomain 16 o b = true) :
    (bitfieldExtract_U16 v o b).toUInt64 = Spec.extract false 16 v.toUInt64 o.toUInt32.toUInt64 b.toUInt32.toUInt64 := by
  simp only [inDomain] at h
  simp only [bitfieldExtract_U16, Spec.extract, extractFrom, extractBit, bit, Bool.true_and, Bool.false_and]
  bv_decide (config := { timeout := 180 })

/-- bitfieldInsert<UInt16>: on the same domain, bits [offset, offset+bits) come from insert, the others from base -/
theorem bitfieldInsert_U16_ok (x y : UInt16) (o b : Int32) (h : inDomain 16 o b = true) :
    (bitfieldInsert_U16 x y o b).toUInt64 = Spec.insert 16 x.toUInt64 y.toUInt64 o.toUInt32.toUInt64 b.toUInt32.toUInt64 := by
  simp only [inDomain] at h
  simp only [bitfieldInsert_I16, bitfieldInsert_U16, mask_U16, Spec.insert, insertFrom, insertBit, bit]
  bv_decide (config := { timeout := 180 })

/-- bitfieldReverse<Int16>: bit n of the result is bit 15-n of the argument -/
theorem bitfieldReverse_I16_ok (v : Int16) : (bitfieldReverse_I16 v).toUInt16.toUInt64 = Spec.reverse 16 v.toUInt16.toUInt64 := by
  simp only [bitfieldReverse_I16, bitfieldReverse_U16, revStep16, Spec.reverse, reverseFrom, bit, fld_w8, fld_w16, fld_w32, fld_w64]
  bv_decide (config := { timeout := 180 })

/-- bitfieldExtract<Int16>: for 0 ≤ offset, 0 ≤ bits, offset+bits ≤ 16 the result is the field, sign-extended (0 for bits = 0) -/
theorem bitfieldExtract_I16_ok (v : Int16) (o b : Int32) (h : inDomain 16 o b = true) :
    (bitfieldExtract_I16 v o b).toUInt16.toUInt64 = Spec.extract true 16 v.toUInt16.toUInt64 o.toUInt32.toUInt64 b.toUInt32.toUInt64 := by
  simp only [inDomain] at h
  simp only [bitfieldExtract_I16, Spec.extract, extractFrom, extractBit, bit, Bool.true_and, Bool.false_and]
  bv_decide (config := { timeout := 180 })

/-- bitfieldInsert<Int16>: on the same domain, bits [offset, offset+bits) come from insert, the others from base -/
theorem bitfieldInsert_I16_ok (x y : Int16) (o b : Int32) (h : inDomain 16 o b = true) :
    (bitfieldInsert_I16 x y o b).toUInt16.toUInt64 = Spec.insert 16 x.toUInt16.toUInt64 y.toUInt16.toUInt64 o.toUInt32.toUInt64 b.toUInt32.toUInt64 := by
  simp only [inDomain] at h
  simp only [bitfieldInsert_I16, bitfieldInsert_U16, mask_U16, Spec.insert, insertFrom, insertBit, bit]
  bv_decide (config := { timeout := 180 })

/-- on the domain, with bits > 0 (bits = 0 returns early), every shift count of bitfieldExtract/Insert<16-bit> is below 16:
    no shift by the full width (undefined behaviour in C++) is executed -/
theorem field16_shift_in_range (o b : Int32) (h : inDomain 16 o b = true) (hb : (b ≤ 0) = false) :
    ((16 - o - b).toInt16.toUInt16 < 16 ∧ (16 - b).toInt16.toUInt16 < 16 ∧ o.toInt16.toUInt16 < 16) := by
  simp only [inDomain] at h
  bv_decide (config := { timeout := 180 })

/-- bitfieldReverse<UInt32>: bit n of the result is bit 31-n of the argument -/
theorem bitfieldReverse_U32_ok (v : UInt32) : (bitfieldReverse_U32 v).toUInt64 = Spec.reverse 32 v.toUInt64 := by
  simp only [bitfieldReverse_I32, bitfieldReverse_U32, revStep32, Spec.reverse, reverseFrom, bit, fld_w8, fld_w16, fld_w32, fld_w64]
  bv_decide (config := { timeout := 180 })

/-- bitfieldExtract<UInt32>: for 0 ≤ offset, 0 ≤ bits, offset+bits ≤ 32 the result is the field, zero-extended -/
theorem bitfieldExtract_U32_ok (v : UInt32) (o b : Int32) (h : inDomain 32 o b = true) :
    (bitfieldExtract_U32 v o b).toUInt64 = Spec.extract false 32 v.toUInt64 o.toUInt32.toUInt64 b.toUInt32.toUInt64 := by
  simp only [inDomain] at h
  simp only [bitfieldExtract_U32, Spec.extract, extractFrom, extractBit, bit, Bool.true_and, Bool.false_and]
  bv_decide (config := { timeout := 180 })

/-- bitfieldInsert<UInt32>: on the same domain, bits [offset, offset+bits) come from insert, the others from base -/
theorem bitfieldInsert_U32_ok (x y : UInt32) (o b : Int32) (h : inDomain 32 o b = true) :
    (bitfieldInsert_U32 x y o b).toUInt64 = Spec.insert 32 x.toUInt64 y.toUInt64 o.toUInt32.toUInt64 b.toUInt32.toUInt64 := by
  simp only [inDomain] at h
  simp only [bitfieldInsert_I32, bitfieldInsert_U32, mask_U32, Spec.insert, insertFrom, insertBit, bit]
  bv_decide (config := { timeout := 180 })

/-- bitfieldReverse<Int32>: bit n of the result is bit 31-n of the argument -/
theorem bitfieldReverse_I32_ok (v : Int32) : (bitfieldReverse_I32 v).toUInt32.toUInt64 = Spec.reverse 32 v.toUInt32.toUInt64 := by
  simp only [bitfieldReverse_I32, bitfieldReverse_U32, revStep32, Spec.reverse, reverseFrom, bit, fld_w8, fld_w16, fld_w32, fld_w64]
  bv_decide (config := { timeout := 180 })

/-- bitfieldExtract<Int32>: for 0 ≤ offset, 0 ≤ bits, offset+bits ≤ 32 the result is the field, sign-extended (0 for bits = 0) -/
theorem bitfieldExtract_I32_ok (v : Int32) (o b : Int32) (h : inDomain 32 o b = true) :
    (bitfieldExtract_I32 v o b).toUInt32.toUInt64 = Spec.extract true 32 v.toUInt32.toUInt64 o.toUInt32.toUInt64 b.toUInt32.toUInt64 := by
  simp only [inDomain] at h
  simp only [bitfieldExtract_I32, Spec.extract, extractFrom, extractBit, bit, Bool.true_and, Bool.false_and]
  bv_decide (config := { timeout := 180 })

/-- bitfieldInsert<Int32>: on the same domain, bits [offset, offset+bits) come from insert, the others from base -/
theorem bitfieldInsert_I32_ok (x y : Int32) (o b : Int32) (h : inDomain 32 o b = true) :
    (bitfieldInsert_I32 x y o b).toUInt32.toUInt64 = Spec.insert 32 x.toUInt32.toUInt64 y.toUInt32.toUInt64 o.toUInt32.toUInt64 b.toUInt32.toUInt64 := by
  simp only [inDomain] at h
  simp only [bitfieldInsert_I32, bitfieldInsert_U32, mask_U32, Spec.insert, insertFrom, insertBit, bit]
  bv_decide (config := { timeout := 180 })

/-- on the domain, with bits > 0 (bits = 0 returns early), every shift count of bitfieldExtract/Insert<32-bit> is below 32:
    no shift by the full width (undefined behaviour in C++) is executed -/
theorem field32_shift_in_range (o b : Int32) (h : inDomain 32 o b = true) (hb : (b ≤ 0) = false) :
    ((32 - o - b).toUInt32 < 32 ∧ (32 - b).toUInt32 < 32 ∧ o.toUInt32 < 32) := by
  simp only [inDomain] at h
  bv_decide (config := { timeout := 180 })

/-- bitfieldReverse<UInt64>: bit n of the result is bit 63-n of the argument -/
theorem bitfieldReverse_U64_ok (v : UInt64) : (bitfieldReverse_U64 v) = Spec.reverse 64 v := by
  simp only [bitfieldReverse_I64, bitfieldReverse_U64, revStep64, Spec.reverse, reverseFrom, bit, fld_w8, fld_w16, fld_w32, fld_w64]
  bv_decide (config := { timeout := 180 })

/-- bitfieldExtract<UInt64>: for 0 ≤ offset, 0 ≤ bits, offset+bits ≤ 64 the result is the field, zero-extended -/
theorem bitfieldExtract_U64_ok (v : UInt64) (o b : Int32) (h : inDomain 64 o b = true) :
    (bitfieldExtract_U64 v o b) = Spec.extract false 64 v o.toUInt32.toUInt64 b.toUInt32.toUInt64 := by
  simp only [inDomain] at h
  simp only [bitfieldExtract_U64, Spec.extract, extractFrom, extractBit, bit, Bool.true_and, Bool.false_and]
  bv_decide (config := { timeout := 180 })

/-- bitfieldInsert<UInt64>: on the same domain, bits [offset, offset+bits) come from insert, the others from base -/
theorem bitfieldInsert_U64_ok (x y : UInt64) (o b : Int32) (h : inDomain 64 o b = true) :
    (bitfieldInsert_U64 x y o b) = Spec.insert 64 x y o.toUInt32.toUInt64 b.toUInt32.toUInt64 := by
  simp only [inDomain] at h
  simp only [bitfieldInsert_I64, bitfieldInsert_U64, mask_U64, Spec.insert, insertFrom, insertBit, bit]
  bv_decide (config := { timeout := 180 })

/-- bitfieldReverse<Int64>: bit n of the result is bit 63-n of the argument -/
theorem bitfieldReverse_I64_ok (v : Int64) : (bitfieldReverse_I64 v).toUInt64 = Spec.reverse 64 v.toUInt64 := by
  simp only [bitfieldReverse_I64, bitfieldReverse_U64, revStep64, Spec.reverse, reverseFrom, bit, fld_w8, fld_w16, fld_w32, fld_w64]
  bv_decide (config := { timeout := 180 })

/-- bitfieldExtract<Int64>: for 0 ≤ offset, 0 ≤ bits, offset+bits ≤ 64 the result is the field, sign-extended (0 for bits = 0) -/
theorem bitfieldExtract_I64_ok (v : Int64) (o b : Int32) (h : inDomain 64 o b = true) :
    (bitfieldExtract_I64 v o b).toUInt64 = Spec.extract true 64 v.toUInt64 o.toUInt32.toUInt64 b.toUInt32.toUInt64 := by
  simp only [inDomain] at h
  simp only [bitfieldExtract_I64, Spec.extract, extractFrom, extractBit, bit, Bool.true_and, Bool.false_and]
  bv_decide (config := { timeout := 180 })

/-- bitfieldInsert<Int64>: on the same domain, bits [offset, offset+bits) come from insert, the others from base -/
theorem bitfieldInsert_I64_ok (x y : Int64) (o b : Int32) (h : inDomain 64 o b = true) :
    (bitfieldInsert_I64 x y o b).toUInt64 = Spec.insert 64 x.toUInt64 y.toUInt64 o.toUInt32.toUInt64 b.toUInt32.toUInt64 := by
  simp only [inDomain] at h
  simp only [bitfieldInsert_I64, bitfieldInsert_U64, mask_U64, Spec.insert, insertFrom, insertBit, bit]
  bv_decide (config := { timeout := 180 })

/-- on the domain, with bits > 0 (bits = 0 returns early), every shift count of bitfieldExtract/Insert<64-bit> is below 64:
    no shift by the full width (undefined behaviour in C++) is executed -/
theorem field64_shift_in_range (o b : Int32) (h : inDomain 64 o b = true) (hb : (b ≤ 0) = false) :
    ((64 - o - b).toInt64.toUInt64 < 64 ∧ (64 - b).toInt64.toUInt64 < 64 ∧ o.toInt64.toUInt64 < 64) := by
  simp only [inDomain] at h
  bv_decide (config := { timeout := 180 })

end GlmVerif.C05
