/-
  C05 — uaddCarry, usubBorrow, umulExtended, imulExtended: model = specification in ℕ / ℤ
  (carry = (x+y) / 2^32, borrow = [x < y], difference mod 2^32, the 64-bit product split in high and low word),
  scalar forms and the separately coded vector forms (per component).
  usubBorrow: glm returns y − x instead of x − y (its own test core_func_integer.cpp:1195-1243 expects
  usubBorrow(16,17) = 1, so this cannot be repaired without breaking the suite): negation with witness,
  the exact set of arguments on which the result is right, and what the code computes instead.
-/
import Std.Tactic.BVDecide
import GlmVerif.Hand.C05
namespace GlmVerif.C05
open Spec

theorem max32_val : (((1 : UInt64) <<< 32) - 1) = 4294967295 := by decide

/-! ### vector components = scalar function (so every theorem below holds for both forms) -/
theorem uaddCarryV_res_eq (x y : UInt32) : uaddCarryV_res x y = uaddCarry_res x y := rfl
theorem uaddCarryV_carry_eq (x y : UInt32) : uaddCarryV_carry x y = uaddCarry_carry x y := by
  simp only [uaddCarryV_carry, uaddCarry_carry]
  bv_decide (config := { timeout := 180 })
theorem usubBorrowV_borrow_eq (x y : UInt32) : usubBorrowV_borrow x y = usubBorrow_borrow x y := by
  simp only [usubBorrowV_borrow, usubBorrow_borrow]
  bv_decide (config := { timeout := 180 })
theorem usubBorrowV_res_eq (x y : UInt32) : usubBorrowV_res x y = usubBorrow_res x y := by
  simp only [usubBorrowV_res, usubBorrow_res]
  bv_decide (config := { timeout := 180 })
theorem umulExtendedV_msb_eq (x y : UInt32) : umulExtendedV_msb x y = umulExtended_msb x y := rfl
theorem umulExtendedV_lsb_eq (x y : UInt32) : umulExtendedV_lsb x y = umulExtended_lsb x y := rfl
/-- the vector form masks with 0xFFFFFFFF before narrowing to int: same low 32 bits -/
theorem imulExtendedV_msb_eq (x y : Int32) : imulExtendedV_msb x y = imulExtended_msb x y := by
  simp only [imulExtendedV_msb, imulExtended_msb]
  bv_decide (config := { timeout := 180 })
theorem imulExtendedV_lsb_eq (x y : Int32) : imulExtendedV_lsb x y = imulExtended_lsb x y := by
  simp only [imulExtendedV_lsb, imulExtended_lsb]
  bv_decide (config := { timeout := 180 })

/-! ### uaddCarry -/
/-- closed bit-vector form of the two outputs (SAT-checked), from which the ℕ statements follow -/
theorem uaddCarry_res_bv (x y : UInt32) : uaddCarry_res x y = x + y := by
  simp only [uaddCarry_res]
  bv_decide (config := { timeout := 180 })
theorem uaddCarry_carry_bv (x y : UInt32) : uaddCarry_carry x y = if x + y < x then 1 else 0 := by
  simp only [uaddCarry_carry]
  bv_decide (config := { timeout := 180 })

/-- "returning the sum modulo pow(2, 32)" -/
theorem uaddCarry_res_ok (x y : UInt32) : (uaddCarry_res x y).toNat = Spec.uaddSum x.toNat y.toNat := by
  rw [uaddCarry_res_bv, UInt32.toNat_add]; rfl

/-- "carry is set to 0 if the sum was less than pow(2, 32), or to 1 otherwise" -/
theorem uaddCarry_carry_ok (x y : UInt32) : (uaddCarry_carry x y).toNat = Spec.uaddCarry x.toNat y.toNat := by
  have hx := x.toNat_lt; have hy := y.toNat_lt
  rw [uaddCarry_carry_bv]
  simp only [Spec.uaddCarry, UInt32.lt_iff_toNat_lt, UInt32.toNat_add]
  split <;> rename_i h <;> simp at h ⊢ <;> omega

/-! ### usubBorrow -/
/-- "borrow is set to 0 if x >= y, or to 1 otherwise" — holds -/
theorem usubBorrow_borrow_ok (x y : UInt32) : (usubBorrow_borrow x y).toNat = Spec.usubBorrow x.toNat y.toNat := by
  simp only [usubBorrow_borrow, Spec.usubBorrow, ge_iff_le, UInt32.le_iff_toNat_le]
  split <;> simp

/-- what the code computes: y − x (mod 2^32), for every x, y -/
theorem usubBorrow_res_bv (x y : UInt32) : usubBorrow_res x y = y - x := by
  simp only [usubBorrow_res]
  bv_decide (config := { timeout := 180 })

/-- … i.e. the specified difference with the operands exchanged -/
theorem usubBorrow_res_swapped (x y : UInt32) : (usubBorrow_res x y).toNat = Spec.usubDiff y.toNat x.toNat := by
  have hx := x.toNat_lt; have hy := y.toNat_lt
  rw [usubBorrow_res_bv, UInt32.toNat_sub]
  simp only [Spec.usubDiff]
  split <;> omega

/-- the specified difference as a machine subtraction -/
theorem usubDiff_eq_sub (x y : UInt32) : Spec.usubDiff x.toNat y.toNat = (x - y).toNat := by
  have hx := x.toNat_lt; have hy := y.toNat_lt
  rw [UInt32.toNat_sub]
  simp only [Spec.usubDiff]
  split <;> omega

/-- KNOWN FINDING (negation, concrete witness): usubBorrow(16,17) returns 1, the specification says 2^32 − 1 -/
theorem usubBorrow_res_violation :
    ¬ ∀ x y : UInt32, (usubBorrow_res x y).toNat = Spec.usubDiff x.toNat y.toNat := by
  intro h
  exact absurd (h 16 17) (by decide)

/-- exactly where the returned difference is right: x − y = y − x (mod 2^32), i.e. x − y ∈ {0, 2^31} -/
theorem usubBorrow_res_partial (x y : UInt32) :
    (usubBorrow_res x y).toNat = Spec.usubDiff x.toNat y.toNat ↔ x - y = y - x := by
  rw [usubBorrow_res_bv, usubDiff_eq_sub]
  constructor
  · intro h; exact (UInt32.toNat_inj.mp h).symm
  · intro h; rw [h]

/-- the same class as a bit condition (this is the predicate `usub_wrong` of checks/c05.py, negated) -/
theorem usubBorrow_class (x y : UInt32) : (x - y = y - x) ↔ ((x - y) <<< 1 = 0) := by
  constructor
  · intro h; bv_decide (config := { timeout := 180 })
  · intro h; bv_decide (config := { timeout := 180 })

/-! ### umulExtended -/
theorem umul_lt (x y : UInt32) : x.toNat * y.toNat < 2^64 := by
  have hx := x.toNat_lt; have hy := y.toNat_lt
  calc x.toNat * y.toNat < 2^32 * 2^32 := Nat.mul_lt_mul'' hx hy
    _ = 2^64 := by decide

/-- "The 32 most-significant bits are returned in msb" -/
theorem umulExtended_msb_ok (x y : UInt32) : (umulExtended_msb x y).toNat = Spec.umulMsb x.toNat y.toNat := by
  have h := umul_lt x y
  simp only [umulExtended_msb, Spec.umulMsb, UInt64.toNat_toUInt32, UInt64.toNat_shiftRight, UInt64.toNat_mul,
    UInt32.toNat_toUInt64, Nat.shiftRight_eq_div_pow]
  generalize x.toNat * y.toNat = p at h ⊢
  simp
  omega

/-- "The 32 least-significant bits are returned in lsb" -/
theorem umulExtended_lsb_ok (x y : UInt32) : (umulExtended_lsb x y).toNat = Spec.umulLsb x.toNat y.toNat := by
  have h := umul_lt x y
  simp only [umulExtended_lsb, Spec.umulLsb, UInt64.toNat_toUInt32, UInt64.toNat_mul, UInt32.toNat_toUInt64]
  generalize x.toNat * y.toNat = p at h ⊢
  omega

/-- the two words together are the exact product -/
theorem umulExtended_product (x y : UInt32) :
    x.toNat * y.toNat = (umulExtended_msb x y).toNat * 2^32 + (umulExtended_lsb x y).toNat := by
  rw [umulExtended_msb_ok, umulExtended_lsb_ok]
  simp only [Spec.umulMsb, Spec.umulLsb]
  omega

/-! ### imulExtended -/
theorem imul_bounds (x y : Int32) : -(2^62) ≤ x.toInt * y.toInt ∧ x.toInt * y.toInt ≤ 2^62 := by
  have hx1 := x.le_toInt; have hx2 := x.toInt_lt
  have hy1 := y.le_toInt; have hy2 := y.toInt_lt
  have ha : x.toInt.natAbs ≤ 2^31 := by omega
  have hb : y.toInt.natAbs ≤ 2^31 := by omega
  have hm : (x.toInt * y.toInt).natAbs = x.toInt.natAbs * y.toInt.natAbs := Int.natAbs_mul _ _
  have hp : x.toInt.natAbs * y.toInt.natAbs ≤ 2^31 * 2^31 := Nat.mul_le_mul ha hb
  generalize x.toInt * y.toInt = p at hm ⊢
  generalize x.toInt.natAbs * y.toInt.natAbs = q at hm hp
  omega

/-- the 64-bit intermediate holds the exact product -/
theorem imul_value64 (x y : Int32) : (x.toInt64 * y.toInt64).toInt = x.toInt * y.toInt := by
  have h := imul_bounds x y
  rw [Int64.toInt_mul, Int32.toInt_toInt64, Int32.toInt_toInt64]
  generalize x.toInt * y.toInt = p at h ⊢
  simp only [Int.bmod]
  omega

/-- arithmetic shift of the 64-bit intermediate by the literal 32 = floor division by 2^32 -/
theorem int64_shr32 (a : Int64) : (a >>> 32).toInt = a.toInt / 2^32 := by
  have h : ((32 : Int64).toBitVec.smod 64).toNat = 32 := by decide
  rw [← Int64.toInt_toBitVec, Int64.toBitVec_shiftRight, BitVec.toInt_sshiftRight', h, Int64.toInt_toBitVec,
    Int.shiftRight_eq_div_pow]
  rfl

/-- unsigned value of the bits of an int -/
theorem int32_bits (a : Int32) : (a.toUInt32.toNat : Int) = a.toInt % 2^32 := by
  have h1 := a.toNat_toBitVec
  have h2 := a.toInt_toBitVec
  have h3 := BitVec.toInt_eq_toNat_cond a.toBitVec
  have h4 := a.toBitVec.isLt
  rw [← h1, ← h2, h3]
  split <;> omega

/-- msb = ⌊x·y / 2^32⌋ (the 32 most-significant bits of the two's-complement product) -/
theorem imulExtended_msb_ok (x y : Int32) : (imulExtended_msb x y).toInt = Spec.imulMsb x.toInt y.toInt := by
  have h := imul_bounds x y
  have hv := imul_value64 x y
  simp only [imulExtended_msb, Spec.imulMsb]
  rw [Int64.toInt_toInt32, int64_shr32, hv]
  generalize x.toInt * y.toInt = p at h ⊢
  simp only [Int.bmod]
  omega

/-- lsb = x·y mod 2^32 (as the unsigned value of the returned int's bits) -/
theorem imulExtended_lsb_ok (x y : Int32) :
    ((imulExtended_lsb x y).toUInt32.toNat : Int) = Spec.imulLsb x.toInt y.toInt := by
  have hv := imul_value64 x y
  have hr : (imulExtended_lsb x y).toInt = (x.toInt * y.toInt).bmod (2^32) := by
    simp only [imulExtended_lsb]; rw [Int64.toInt_toInt32, hv]
  rw [int32_bits, hr]
  simp only [Spec.imulLsb]
  generalize x.toInt * y.toInt = p
  simp only [Int.bmod]
  omega

/-- the two words together are the exact product in ℤ -/
theorem imulExtended_product (x y : Int32) :
    x.toInt * y.toInt = (imulExtended_msb x y).toInt * 2^32 + ((imulExtended_lsb x y).toUInt32.toNat : Int) := by
  rw [imulExtended_msb_ok, imulExtended_lsb_ok]
  simp only [Spec.imulMsb, Spec.imulLsb]
  omega

end GlmVerif.C05
