/-
  C05 — bitCount, findLSB, findMSB: model = specification
  Generated once from h/C05/gen_props.py (same statement for each of the eight element types); reviewed artefact.
  Every theorem: model (Hand/C05.lean, mirrors glm/detail/func_integer.inl) = executable specification (Spec.*,
  written from the GLSL text), for ALL inputs of the type.  `bv_decide` theorems are whitelisted in checks/c05.py.
-/
import Std.Tactic.BVDecide
import GlmVerif.Hand.C05
namespace GlmVerif.C05
open Spec
set_option linter.unusedSimpArgs false


theorem cnt_w8 : Nat.toUInt64 8 = 8 := rfl
theorem cnt_w16 : Nat.toUInt64 16 = 16 := rfl
theorem cnt_w32 : Nat.toUInt64 32 = 32 := rfl
theorem cnt_w64 : Nat.toUInt64 64 = 64 := rfl


/-- bitCount<UInt8>: the SWAR ladder returns the number of set bits -/
theorem bitCount_U8_ok (v : UInt8) : bitCount_U8 v = Spec.bitCount 8 v.toUInt64 := by
  simp only [bitCount_I8, bitCount_U8, bcStep8, Spec.bitCount, countFrom, bit]
  bv_decide (config := { timeout := 180 })

/-- findLSB<UInt8>: position of the lowest set bit, -1 for 0 -/
theorem findLSB_U8_ok (v : UInt8) : findLSB_U8 v = Spec.findLSB 8 v.toUInt64 := by
  simp only [findLSB_U8, bitCount_I32, bitCount_U32, bcStep32, Spec.findLSB, lowestFrom, bit]
  bv_decide (config := { timeout := 180 })

/-- findMSB<UInt8>: position of the highest set bit, -1 for 0 -/
theorem findMSB_U8_ok (v : UInt8) : findMSB_U8 v = Spec.findMSB false 8 v.toUInt64 := by
  simp only [findMSB_U8, findMSBvec_U8, msbStepU8, bitCount_I8, bitCount_U8, bcStep8, Spec.findMSB, highestBelow, bit, cnt_w8, cnt_w16, cnt_w32, cnt_w64,
    Bool.true_and, Bool.false_and]
  bv_decide (config := { timeout := 180 })

/-- bitCount<Int8>: the SWAR ladder returns the number of set bits -/
theorem bitCount_I8_ok (v : Int8) : bitCount_I8 v = Spec.bitCount 8 v.toUInt8.toUInt64 := by
  simp only [bitCount_I8, bitCount_U8, bcStep8, Spec.bitCount, countFrom, bit]
  bv_decide (config := { timeout := 180 })

/-- findLSB<Int8>: position of the lowest set bit, -1 for 0 -/
theorem findLSB_I8_ok (v : Int8) : findLSB_I8 v = Spec.findLSB 8 v.toUInt8.toUInt64 := by
  simp only [findLSB_I8, bitCount_I32, bitCount_U32, bcStep32, Spec.findLSB, lowestFrom, bit]
  bv_decide (config := { timeout := 180 })

/-- findMSB<Int8>: highest set bit of a non-negative value, highest clear bit of a negative one, -1 for 0 and -1 -/
theorem findMSB_I8_ok (v : Int8) : findMSB_I8 v = Spec.findMSB true 8 v.toUInt8.toUInt64 := by
  simp only [findMSB_I8, findMSBvec_I8, msbStepI8, bitCount_I8, bitCount_U8, bcStep8, Spec.findMSB, highestBelow, bit, cnt_w8, cnt_w16, cnt_w32, cnt_w64,
    Bool.true_and, Bool.false_and]
  bv_decide (config := { timeout := 180 })

/-- bitCount<UInt16>: the SWAR ladder returns the number of set bits -/
theorem bitCount_U16_ok (v : UInt16) : bitCount_U16 v = Spec.bitCount 16 v.toUInt64 := by
  simp only [bitCount_I16, bitCount_U16, bcStep16, Spec.bitCount, countFrom, bit]
  bv_decide (config := { timeout := 180 })

/-- findLSB<UInt16>: position of the lowest set bit, -1 for 0 -/
theorem findLSB_U16_ok (v : UInt16) : findLSB_U16 v = Spec.findLSB 16 v.toUInt64 := by
  simp only [findLSB_U16, bitCount_I32, bitCount_U32, bcStep32, Spec.findLSB, lowestFrom, bit]
  bv_decide (config := { timeout := 180 })

/-- findMSB<UInt16>: position of the highest set bit, -1 for 0 -/
theorem findMSB_U16_ok (v : UInt16) : findMSB_U16 v = Spec.findMSB false 16 v.toUInt64 := by
  simp only [findMSB_U16, findMSBvec_U16, msbStepU16, bitCount_I16, bitCount_U16, bcStep16, Spec.findMSB, highestBelow, bit, cnt_w8, cnt_w16, cnt_w32, cnt_w64,
    Bool.true_and, Bool.false_and]
  bv_decide (config := { timeout := 180 })

/-- bitCount<Int16>: the SWAR ladder returns the number of set bits -/
theorem bitCount_I16_ok (v : Int16) : bitCount_I16 v = Spec.bitCount 16 v.toUInt16.toUInt64 := by
  simp only [bitCount_I16, bitCount_U16, bcStep16, Spec.bitCount, countFrom, bit]
  bv_decide (config := { timeout := 180 })

/-- findLSB<Int16>: position of the lowest set bit, -1 for 0 -/
theorem findLSB_I16_ok (v : Int16) : findLSB_I16 v = Spec.findLSB 16 v.toUInt16.toUInt64 := by
  simp only [findLSB_I16, bitCount_I32, bitCount_U32, bcStep32, Spec.findLSB, lowestFrom, bit]
  bv_decide (config := { timeout := 180 })

/-- findMSB<Int16>: highest set bit of a non-negative value, highest clear bit of a negative one, -1 for 0 and -1 -/
theorem findMSB_I16_ok (v : Int16) : findMSB_I16 v = Spec.findMSB true 16 v.toUInt16.toUInt64 := by
  simp only [findMSB_I16, findMSBvec_I16, msbStepI16, bitCount_I16, bitCount_U16, bcStep16, Spec.findMSB, highestBelow, bit, cnt_w8, cnt_w16, cnt_w32, cnt_w64,
    Bool.true_and, Bool.false_and]
  bv_decide (config := { timeout := 180 })

/-- bitCount<UInt32>: the SWAR ladder returns the number of set bits -/
theorem bitCount_U32_ok (v : UInt32) : bitCount_U32 v = Spec.bitCount 32 v.toUInt64 := by
  simp only [bitCount_I32, bitCount_U32, bcStep32, Spec.bitCount, countFrom, bit]
  bv_decide (config := { timeout := 180 })

/-- findLSB<UInt32>: position of the lowest set bit, -1 for 0 -/
theorem findLSB_U32_ok (v : UInt32) : findLSB_U32 v = Spec.findLSB 32 v.toUInt64 := by
  simp only [findLSB_U32, bitCount_I32, bitCount_U32, bcStep32, Spec.findLSB, lowestFrom, bit]
  bv_decide (config := { timeout := 180 })

/-- findMSB<UInt32>: position of the highest set bit, -1 for 0 -/
theorem findMSB_U32_ok (v : UInt32) : findMSB_U32 v = Spec.findMSB false 32 v.toUInt64 := by
  simp only [findMSB_U32, findMSBvec_U32, msbStepU32, bitCount_I32, bitCount_U32, bcStep32, Spec.findMSB, highestBelow, bit, cnt_w8, cnt_w16, cnt_w32, cnt_w64,
    Bool.true_and, Bool.false_and]
  bv_decide (config := { timeout := 180 })

/-- bitCount<Int32>: the SWAR ladder returns the number of set bits -/
theorem bitCount_I32_ok (v : Int32) : bitCount_I32 v = Spec.bitCount 32 v.toUInt32.toUInt64 := by
  simp only [bitCount_I32, bitCount_U32, bcStep32, Spec.bitCount, countFrom, bit]
  bv_decide (config := { timeout := 180 })

/-- findLSB<Int32>: position of the lowest set bit, -1 for 0 -/
theorem findLSB_I32_ok (v : Int32) : findLSB_I32 v = Spec.findLSB 32 v.toUInt32.toUInt64 := by
  simp only [findLSB_I32, bitCount_I32, bitCount_U32, bcStep32, Spec.findLSB, lowestFrom, bit]
  bv_decide (config := { timeout := 180 })

/-- findMSB<Int32>: highest set bit of a non-negative value, highest clear bit of a negative one, -1 for 0 and -1 -/
theorem findMSB_I32_ok (v : Int32) : findMSB_I32 v = Spec.findMSB true 32 v.toUInt32.toUInt64 := by
  simp only [findMSB_I32, findMSBvec_I32, msbStepI32, bitCount_I32, bitCount_U32, bcStep32, Spec.findMSB, highestBelow, bit, cnt_w8, cnt_w16, cnt_w32, cnt_w64,
    Bool.true_and, Bool.false_and]
  bv_decide (config := { timeout := 180 })

/-- bitCount<UInt64>: the SWAR ladder returns the number of set bits -/
theorem bitCount_U64_ok (v : UInt64) : bitCount_U64 v = Spec.bitCount 64 v := by
  simp only [bitCount_I64, bitCount_U64, bcStep64, Spec.bitCount, countFrom, bit]
  bv_decide (config := { timeout := 180 })

/-- findLSB<UInt64>: position of the lowest set bit, -1 for 0 -/
theorem findLSB_U64_ok (v : UInt64) : findLSB_U64 v = Spec.findLSB 64 v := by
  simp only [findLSB_U64, bitCount_I64, bitCount_U64, bcStep64, Spec.findLSB, lowestFrom, bit]
  bv_decide (config := { timeout := 180 })

/-- findMSB<UInt64>: position of the highest set bit, -1 for 0 -/
theorem findMSB_U64_ok (v : UInt64) : findMSB_U64 v = Spec.findMSB false 64 v := by
  simp only [findMSB_U64, findMSBvec_U64, msbStepU64, bitCount_I64, bitCount_U64, bcStep64, Spec.findMSB, highestBelow, bit, cnt_w8, cnt_w16, cnt_w32, cnt_w64,
    Bool.true_and, Bool.false_and]
  bv_decide (config := { timeout := 180 })

/-- bitCount<Int64>: the SWAR ladder returns the number of set bits -/
theorem bitCount_I64_ok (v : Int64) : bitCount_I64 v = Spec.bitCount 64 v.toUInt64 := by
  simp only [bitCount_I64, bitCount_U64, bcStep64, Spec.bitCount, countFrom, bit]
  bv_decide (config := { timeout := 180 })

/-- findLSB<Int64>: position of the lowest set bit, -1 for 0 -/
theorem findLSB_I64_ok (v : Int64) : findLSB_I64 v = Spec.findLSB 64 v.toUInt64 := by
  simp only [findLSB_I64, bitCount_I64, bitCount_U64, bcStep64, Spec.findLSB, lowestFrom, bit]
  bv_decide (config := { timeout := 180 })

/-- findMSB<Int64>: highest set bit of a non-negative value, highest clear bit of a negative one, -1 for 0 and -1 -/
theorem findMSB_I64_ok (v : Int64) : findMSB_I64 v = Spec.findMSB true 64 v.toUInt64 := by
  simp only [findMSB_I64, findMSBvec_I64, msbStepI64, bitCount_I64, bitCount_U64, bcStep64, Spec.findMSB, highestBelow, bit, cnt_w8, cnt_w16, cnt_w32, cnt_w64,
    Bool.true_and, Bool.false_and]
  bv_decide (config := { timeout := 180 })

end GlmVerif.C05
