/-
  C05 — the 8-bit instances once more by kernel evaluation (`decide +kernel`: no SAT certificate, no extra axiom):
  all 256 values of int8_t / uint8_t, and for bitfieldExtract all 45 (offset, bits) pairs of the domain.
-/
import GlmVerif.Hand.C05
namespace GlmVerif.C05
open Spec


theorem bitCount_I8_dec : ∀ v : BitVec 8, bitCount_I8 (Int8.ofBitVec v) = Spec.bitCount 8 (UInt8.ofBitVec v).toUInt64 := by decide +kernel
theorem findLSB_I8_dec : ∀ v : BitVec 8, findLSB_I8 (Int8.ofBitVec v) = Spec.findLSB 8 (UInt8.ofBitVec v).toUInt64 := by decide +kernel
theorem findMSB_I8_dec : ∀ v : BitVec 8, findMSB_I8 (Int8.ofBitVec v) = Spec.findMSB true 8 (UInt8.ofBitVec v).toUInt64 := by decide +kernel
theorem bitfieldReverse_I8_dec : ∀ v : BitVec 8, (bitfieldReverse_I8 (Int8.ofBitVec v)).toUInt8.toUInt64 = Spec.reverse 8 (UInt8.ofBitVec v).toUInt64 := by decide +kernel
theorem bitfieldExtract_I8_dec : ∀ v : BitVec 8, ∀ o b : Fin 9, o.val + b.val ≤ 8 →
    (bitfieldExtract_I8 (Int8.ofBitVec v) (Int32.ofNat o.val) (Int32.ofNat b.val)).toUInt8.toUInt64 = Spec.extract true 8 (UInt8.ofBitVec v).toUInt64 (UInt64.ofNat o.val) (UInt64.ofNat b.val) := by decide +kernel

end GlmVerif.C05
