import GlmVerif.Spec.C12
import GlmVerif.Gen.C12.l1norm2
/-! table check of family `l1norm2` against the model of its units generated from /repo (kernel evaluation) -/
namespace Glm.Props.C12
open Glm Glm.Spec.C12 Glm.Gen.C12
set_option maxHeartbeats 4000000 in
theorem l1norm2_ok : f_l1norm2.ok (fun _ ks => l1norm2_L ks) = true := by decide +kernel
end Glm.Props.C12
