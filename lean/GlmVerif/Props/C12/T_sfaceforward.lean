import GlmVerif.Spec.C12
import GlmVerif.Gen.C12.sfaceforward
/-! table check of family `sfaceforward` against the model of its units generated from /repo (kernel evaluation) -/
namespace Glm.Props.C12
open Glm Glm.Spec.C12 Glm.Gen.C12
set_option maxHeartbeats 4000000 in
theorem sfaceforward_ok : f_sfaceforward.ok (fun _ ks => sfaceforward_L ks) = true := by decide +kernel
end Glm.Props.C12
