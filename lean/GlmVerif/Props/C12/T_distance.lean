import GlmVerif.Spec.C12
import GlmVerif.Gen.C12
/-! table check of family `distance` against the model generated from /repo (kernel evaluation) -/
namespace Glm.Props.C12
open Glm Glm.Spec.C12 Glm.Gen.C12
theorem distance_ok : f_distance.ok lookup = true := by decide +kernel
end Glm.Props.C12
