import GlmVerif.Spec.C12
import GlmVerif.Gen.C12.srefract
/-! table check of family `srefract` against the model of its units generated from /repo (kernel evaluation) -/
namespace Glm.Props.C12
open Glm Glm.Spec.C12 Glm.Gen.C12
set_option maxHeartbeats 4000000 in
theorem srefract_ok : f_srefract.ok (fun _ ks => srefract_L ks) = true := by decide +kernel
end Glm.Props.C12
