import GlmVerif.Spec.C12
import GlmVerif.Gen.C12.lmaxnorm
/-! table check of family `lmaxnorm` against the model of its units generated from /repo (kernel evaluation) -/
namespace Glm.Props.C12
open Glm Glm.Spec.C12 Glm.Gen.C12
set_option maxHeartbeats 4000000 in
theorem lmaxnorm_ok : f_lmaxnorm.ok (fun _ ks => lmaxnorm_L ks) = true := by decide +kernel
end Glm.Props.C12
