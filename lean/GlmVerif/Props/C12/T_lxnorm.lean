import GlmVerif.Spec.C12
import GlmVerif.Gen.C12.lxnorm
/-! table check of family `lxnorm` against the model of its units generated from /repo (kernel evaluation) -/
namespace Glm.Props.C12
open Glm Glm.Spec.C12 Glm.Gen.C12
set_option maxHeartbeats 4000000 in
theorem lxnorm_ok : f_lxnorm.ok (fun _ ks => lxnorm_L ks) = true := by decide +kernel
end Glm.Props.C12
