import GlmVerif.Gen.C12
import GlmVerif.Props.C12.T_dot
import GlmVerif.Props.C12.T_length
import GlmVerif.Props.C12.T_distance
import GlmVerif.Props.C12.T_length2
import GlmVerif.Props.C12.T_distance2
import GlmVerif.Props.C12.T_normalize
import GlmVerif.Props.C12.T_normalize_unit
import GlmVerif.Props.C12.T_faceforward
import GlmVerif.Props.C12.T_reflect
import GlmVerif.Props.C12.T_reflect_len
import GlmVerif.Props.C12.T_reflect_inv
import GlmVerif.Props.C12.T_refract
import GlmVerif.Props.C12.T_sdot
import GlmVerif.Props.C12.T_slength
import GlmVerif.Props.C12.T_sdistance
import GlmVerif.Props.C12.T_sfaceforward
import GlmVerif.Props.C12.T_sreflect
import GlmVerif.Props.C12.T_srefract
import GlmVerif.Props.C12.T_cross
import GlmVerif.Props.C12.T_cross_orth
import GlmVerif.Props.C12.T_cross2
import GlmVerif.Props.C12.T_mixed
import GlmVerif.Props.C12.T_proj
import GlmVerif.Props.C12.T_perp
import GlmVerif.Props.C12.T_perp_orth
import GlmVerif.Props.C12.T_angle
import GlmVerif.Props.C12.T_trinormal
import GlmVerif.Props.C12.T_closest
import GlmVerif.Props.C12.T_sangle
import GlmVerif.Props.C12.T_orientedangle2
import GlmVerif.Props.C12.T_orientedangle3
import GlmVerif.Props.C12.T_l1norm
import GlmVerif.Props.C12.T_l1norm2
import GlmVerif.Props.C12.T_l2norm
import GlmVerif.Props.C12.T_lmaxnorm
import GlmVerif.Props.C12.T_orthonormalize
import GlmVerif.Props.C12.T_l2norm2
import GlmVerif.Props.C12.T_lmaxnorm2
import GlmVerif.Props.C12.T_lxnorm
import GlmVerif.Props.C12.T_lxnorm2
/-! every family table of C12 holds for the model generated from the current /repo -/
namespace Glm.Props.C12
open Glm Glm.Spec.C12 Glm.Gen.C12
theorem all_ok : ∀ f ∈ families, f.ok lookup = true := by
  simp only [families, List.mem_cons, List.not_mem_nil, or_false, forall_eq_or_imp, forall_eq]
  exact ⟨(Family.ok_congr f_dot (fun ks => by rw [show f_dot.unit = "dot" from rfl, lookup_dot])).trans dot_ok,
    (Family.ok_congr f_length (fun ks => by rw [show f_length.unit = "length" from rfl, lookup_length])).trans length_ok,
    (Family.ok_congr f_distance (fun ks => by rw [show f_distance.unit = "distance" from rfl, lookup_distance])).trans distance_ok,
    (Family.ok_congr f_length2 (fun ks => by rw [show f_length2.unit = "length2" from rfl, lookup_length2])).trans length2_ok,
    (Family.ok_congr f_distance2 (fun ks => by rw [show f_distance2.unit = "distance2" from rfl, lookup_distance2])).trans distance2_ok,
    (Family.ok_congr f_normalize (fun ks => by rw [show f_normalize.unit = "normalize" from rfl, lookup_normalize])).trans normalize_ok,
    (Family.ok_congr f_normalize_unit (fun ks => by rw [show f_normalize_unit.unit = "normalize" from rfl, lookup_normalize])).trans normalize_unit_ok,
    (Family.ok_congr f_faceforward (fun ks => by rw [show f_faceforward.unit = "faceforward" from rfl, lookup_faceforward])).trans faceforward_ok,
    (Family.ok_congr f_reflect (fun ks => by rw [show f_reflect.unit = "reflect" from rfl, lookup_reflect])).trans reflect_ok,
    (Family.ok_congr f_reflect_len (fun ks => by rw [show f_reflect_len.unit = "reflect" from rfl, lookup_reflect])).trans reflect_len_ok,
    (Family.ok_congr f_reflect_inv (fun ks => by rw [show f_reflect_inv.unit = "reflect" from rfl, lookup_reflect])).trans reflect_inv_ok,
    (Family.ok_congr f_refract (fun ks => by rw [show f_refract.unit = "refract" from rfl, lookup_refract])).trans refract_ok,
    (Family.ok_congr f_sdot (fun ks => by rw [show f_sdot.unit = "sdot" from rfl, lookup_sdot])).trans sdot_ok,
    (Family.ok_congr f_slength (fun ks => by rw [show f_slength.unit = "slength" from rfl, lookup_slength])).trans slength_ok,
    (Family.ok_congr f_sdistance (fun ks => by rw [show f_sdistance.unit = "sdistance" from rfl, lookup_sdistance])).trans sdistance_ok,
    (Family.ok_congr f_sfaceforward (fun ks => by rw [show f_sfaceforward.unit = "sfaceforward" from rfl, lookup_sfaceforward])).trans sfaceforward_ok,
    (Family.ok_congr f_sreflect (fun ks => by rw [show f_sreflect.unit = "sreflect" from rfl, lookup_sreflect])).trans sreflect_ok,
    (Family.ok_congr f_srefract (fun ks => by rw [show f_srefract.unit = "srefract" from rfl, lookup_srefract])).trans srefract_ok,
    (Family.ok_congr f_cross (fun ks => by rw [show f_cross.unit = "cross" from rfl, lookup_cross])).trans cross_ok,
    (Family.ok_congr f_cross_orth (fun ks => by rw [show f_cross_orth.unit = "cross" from rfl, lookup_cross])).trans cross_orth_ok,
    (Family.ok_congr f_cross2 (fun ks => by rw [show f_cross2.unit = "cross" from rfl, lookup_cross])).trans cross2_ok,
    (Family.ok_congr f_mixed (fun ks => by rw [show f_mixed.unit = "mixed" from rfl, lookup_mixed])).trans mixed_ok,
    (Family.ok_congr f_proj (fun ks => by rw [show f_proj.unit = "proj" from rfl, lookup_proj])).trans proj_ok,
    (Family.ok_congr f_perp (fun ks => by rw [show f_perp.unit = "perp" from rfl, lookup_perp])).trans perp_ok,
    (Family.ok_congr f_perp_orth (fun ks => by rw [show f_perp_orth.unit = "perp" from rfl, lookup_perp])).trans perp_orth_ok,
    (Family.ok_congr f_angle (fun ks => by rw [show f_angle.unit = "angle" from rfl, lookup_angle])).trans angle_ok,
    (Family.ok_congr f_trinormal (fun ks => by rw [show f_trinormal.unit = "trinormal" from rfl, lookup_trinormal])).trans trinormal_ok,
    (Family.ok_congr f_closest (fun ks => by rw [show f_closest.unit = "closest" from rfl, lookup_closest])).trans closest_ok,
    (Family.ok_congr f_sangle (fun ks => by rw [show f_sangle.unit = "sangle" from rfl, lookup_sangle])).trans sangle_ok,
    (Family.ok_congr f_orientedangle2 (fun ks => by rw [show f_orientedangle2.unit = "orientedangle" from rfl, lookup_orientedangle])).trans orientedangle2_ok,
    (Family.ok_congr f_orientedangle3 (fun ks => by rw [show f_orientedangle3.unit = "orientedangle" from rfl, lookup_orientedangle])).trans orientedangle3_ok,
    (Family.ok_congr f_l1norm (fun ks => by rw [show f_l1norm.unit = "l1norm" from rfl, lookup_l1norm])).trans l1norm_ok,
    (Family.ok_congr f_l1norm2 (fun ks => by rw [show f_l1norm2.unit = "l1norm2" from rfl, lookup_l1norm2])).trans l1norm2_ok,
    (Family.ok_congr f_l2norm (fun ks => by rw [show f_l2norm.unit = "l2norm" from rfl, lookup_l2norm])).trans l2norm_ok,
    (Family.ok_congr f_lmaxnorm (fun ks => by rw [show f_lmaxnorm.unit = "lmaxnorm" from rfl, lookup_lmaxnorm])).trans lmaxnorm_ok,
    (Family.ok_congr f_orthonormalize (fun ks => by rw [show f_orthonormalize.unit = "orthonormalize_v" from rfl, lookup_orthonormalize_v])).trans orthonormalize_ok,
    (Family.ok_congr f_l2norm2 (fun ks => by rw [show f_l2norm2.unit = "l2norm2" from rfl, lookup_l2norm2])).trans l2norm2_ok,
    (Family.ok_congr f_lmaxnorm2 (fun ks => by rw [show f_lmaxnorm2.unit = "lmaxnorm2" from rfl, lookup_lmaxnorm2])).trans lmaxnorm2_ok,
    (Family.ok_congr f_lxnorm (fun ks => by rw [show f_lxnorm.unit = "lxnorm" from rfl, lookup_lxnorm])).trans lxnorm_ok,
    (Family.ok_congr f_lxnorm2 (fun ks => by rw [show f_lxnorm2.unit = "lxnorm2" from rfl, lookup_lxnorm2])).trans lxnorm2_ok⟩
end Glm.Props.C12
