import GlmVerif.Spec.C12
import GlmVerif.Gen.C12
/-! table check of family `refract` against the model generated from /repo (kernel evaluation) -/
namespace Glm.Props.C12
open Glm Glm.Spec.C12 Glm.Gen.C12
theorem refract_ok : f_refract.ok lookup = true := by decide +kernel
end Glm.Props.C12
