import GlmVerif.Spec.C12
import GlmVerif.Gen.C12.refract
/-! table check of family `refract` against the model of its units generated from /repo (kernel evaluation) -/
namespace Glm.Props.C12
open Glm Glm.Spec.C12 Glm.Gen.C12
set_option maxHeartbeats 4000000 in
theorem refract_ok : f_refract.ok (fun _ ks => refract_L ks) = true := by decide +kernel
end Glm.Props.C12
