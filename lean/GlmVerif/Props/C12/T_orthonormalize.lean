import GlmVerif.Spec.C12
import GlmVerif.Gen.C12.orthonormalize_v
/-! table check of family `orthonormalize` against the model of its units generated from /repo (kernel evaluation) -/
namespace Glm.Props.C12
open Glm Glm.Spec.C12 Glm.Gen.C12
set_option maxHeartbeats 4000000 in
theorem orthonormalize_ok : f_orthonormalize.ok (fun _ ks => orthonormalize_v_L ks) = true := by decide +kernel
end Glm.Props.C12
