import GlmVerif.Spec.C12
import GlmVerif.Gen.C12.lxnorm2
/-! table check of family `lxnorm2` against the model of its units generated from /repo (kernel evaluation) -/
namespace Glm.Props.C12
open Glm Glm.Spec.C12 Glm.Gen.C12
set_option maxHeartbeats 4000000 in
theorem lxnorm2_ok : f_lxnorm2.ok (fun _ ks => lxnorm2_L ks) = true := by decide +kernel
end Glm.Props.C12
