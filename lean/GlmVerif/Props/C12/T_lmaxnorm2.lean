import GlmVerif.Spec.C12
import GlmVerif.Gen.C12.lmaxnorm2
/-! table check of family `lmaxnorm2` against the model of its units generated from /repo (kernel evaluation) -/
namespace Glm.Props.C12
open Glm Glm.Spec.C12 Glm.Gen.C12
set_option maxHeartbeats 4000000 in
theorem lmaxnorm2_ok : f_lmaxnorm2.ok (fun _ ks => lmaxnorm2_L ks) = true := by decide +kernel
end Glm.Props.C12
