import GlmVerif.Spec.C12
import GlmVerif.Gen.C12.reflect
/-! table check of family `reflect_len` against the model of its units generated from /repo (kernel evaluation) -/
namespace Glm.Props.C12
open Glm Glm.Spec.C12 Glm.Gen.C12
set_option maxHeartbeats 4000000 in
theorem reflect_len_ok : f_reflect_len.ok (fun _ ks => reflect_L ks) = true := by decide +kernel
end Glm.Props.C12
