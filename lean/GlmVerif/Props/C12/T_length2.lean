import GlmVerif.Spec.C12
import GlmVerif.Gen.C12
/-! table check of family `length2` against the model generated from /repo (kernel evaluation) -/
namespace Glm.Props.C12
open Glm Glm.Spec.C12 Glm.Gen.C12
theorem length2_ok : f_length2.ok lookup = true := by decide +kernel
end Glm.Props.C12
