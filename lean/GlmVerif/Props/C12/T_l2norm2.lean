import GlmVerif.Spec.C12
import GlmVerif.Gen.C12.l2norm2
/-! table check of family `l2norm2` against the model of its units generated from /repo (kernel evaluation) -/
namespace Glm.Props.C12
open Glm Glm.Spec.C12 Glm.Gen.C12
set_option maxHeartbeats 4000000 in
theorem l2norm2_ok : f_l2norm2.ok (fun _ ks => l2norm2_L ks) = true := by decide +kernel
end Glm.Props.C12
