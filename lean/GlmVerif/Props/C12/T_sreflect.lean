import GlmVerif.Spec.C12
import GlmVerif.Gen.C12.sreflect
/-! table check of family `sreflect` against the model of its units generated from /repo (kernel evaluation) -/
namespace Glm.Props.C12
open Glm Glm.Spec.C12 Glm.Gen.C12
set_option maxHeartbeats 4000000 in
theorem sreflect_ok : f_sreflect.ok (fun _ ks => sreflect_L ks) = true := by decide +kernel
end Glm.Props.C12
