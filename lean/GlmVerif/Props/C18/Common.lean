import Std.Tactic.BVDecide
import GlmVerif.Hand.C18
/-! C18 — shared tactic: unfold the hand model and the executable specification at a literal width so that
    `bv_decide` sees plain `BitVec n` terms (loops are unrolled by the equation lemmas, width tests decided). -/
namespace GlmVerif.C18.Props
open GlmVerif.C18

macro "c18_unfold" : tactic => `(tactic| simp only [
  sx, zx, tr, b2v, absS, signS, smearU, smearS, bitCount, findMSBU, findMSBS, findMSBpubS,
  isPowerOfTwoU, isPowerOfTwoS, isPowerOfTwoVU, isPowerOfTwoVS, ceilPowerOfTwoU, ceilPowerOfTwoS, floorPowerOfTwoU, floorPowerOfTwoS,
  roundPowerOfTwoU, roundPowerOfTwoS, hbvLoop, highestBitValue, lowestBitValue,
  powerOfTwoAboveU, powerOfTwoAboveS, powerOfTwoBelowU, powerOfTwoBelowS, powerOfTwoNearestU, powerOfTwoNearestS,
  log2U, log2S, nlz,
  findNSBLoop, findNSB, maskU, maskS, bitfieldRotateRightU, bitfieldRotateRightS, bitfieldRotateLeftU, bitfieldRotateLeftS,
  bitfieldFillOneU, bitfieldFillOneS, bitfieldFillZeroU, bitfieldFillZeroS,
  Spec.bit, Spec.oneAt, Spec.bitAt, Spec.oneAtV, Spec.isPow2, Spec.ceilPow2, Spec.floorPow2, Spec.isNearestPow2, Spec.highestBit,
  Spec.lowestSet, Spec.nlz, Spec.nthSetBit, Spec.findNSB, Spec.mask, Spec.range, Spec.fillOne, Spec.fillZero, Spec.rotr, Spec.rotl,
  Nat.reduceLeDiff, Nat.reduceSub, Nat.reduceAdd, Nat.reduceMul, Nat.reduceDiv, reduceIte, Nat.reduceLT,
  Bool.not_eq_true', Bool.not_true, Bool.not_false] at *)

end GlmVerif.C18.Props
