import Std.Tactic.BVDecide
import GlmVerif.Hand.C18
import GlmVerif.Props.C18.Common
import GlmVerif.Props.C18.Multiple
/-!
C18 — gtx/integer.inl: pow, mod, factorial, nlz (sqrt: Props/C18/Sqrt.lean).

* `nlz` = number of leading zeros, all 2^32 inputs (bv_decide).
* `pow(uint,uint)` = x^y modulo 2^32 for ALL x, y (induction on the loop); `pow(int,uint)`: the same for y ≠ 0 or
  x ≥ 0 (`powS_partial`); KNOWN FINDING `powS_violates`: pow(x, 0) = -1 for negative x (glm's gtx_integer test
  expects exactly that, so it is recorded, not repaired).
* `mod(uint,uint)` = x mod y; `mod(int,int)` = x - y·⌊x/y⌋ (characterised as the residue with the sign of y) whenever
  the intermediate `(x % y) + y` does not overflow.
* `factorial<T>` = n! for every n whose factorial is representable in T (by evaluation: finitely many n).
* `sqrt`: see Props/C18/Sqrt.lean (all inputs).
-/
set_option maxRecDepth 8192
namespace GlmVerif.C18.Props
open GlmVerif.C18 GlmVerif.C18.Spec

theorem nlz_ok (x : BitVec 32) : nlz x = Spec.nlz x := by
  c18_unfold; bv_decide (config := { timeout := 600 })
example : nlz 1 = 31 ∧ nlz 0 = 32 ∧ nlz 0x80000000#32 = 0 ∧ Spec.nlz 0x00010000#32 = 15 := by decide

/-- the loop multiplies the accumulator by x, n times -/
theorem powLoop_eq (x : BitVec 32) (n : Nat) (r : BitVec 32) : powLoop x n r = r * x ^ n := by
  induction n generalizing r with
  | zero => simp [powLoop]
  | succ k ih => rw [powLoop, ih, BitVec.pow_succ, BitVec.mul_assoc, BitVec.mul_comm x (x ^ k)]

theorem pow_tail (x y : BitVec 32) (hy : y ≠ 0) : powLoop x (y.toNat - 1) x = x ^ y.toNat := by
  have hpos : 0 < y.toNat := by
    rcases Nat.eq_zero_or_pos y.toNat with h | h
    · exact absurd (BitVec.eq_of_toNat_eq (by simpa using h)) hy
    · exact h
  rw [powLoop_eq]
  have e : y.toNat = (y.toNat - 1) + 1 := by omega
  conv => rhs; rw [e, BitVec.pow_succ]
  rw [BitVec.mul_comm]

/-- pow(uint x, uint y) = x^y (mod 2^32), all x and y -/
theorem powU_ok (x y : BitVec 32) : powU x y = x ^ y.toNat := by
  unfold powU
  by_cases hy : y = 0
  · subst hy; simp
  · have : (y == 0) = false := by rw [beq_eq_false_iff_ne]; exact hy
    rw [this]; simp only [Bool.false_eq_true, if_false]
    exact pow_tail x y hy

/-- pow(int x, uint y) = x^y (wrapping like the code) unless y = 0 and x < 0 -/
theorem powS_partial (x y : BitVec 32) (h : y ≠ 0 ∨ BitVec.sle 0 x = true) : powS x y = x ^ y.toNat := by
  unfold powS
  by_cases hy : y = 0
  · subst hy
    have hx : BitVec.sle 0 x = true := by
      rcases h with h | h
      · exact absurd rfl h
      · exact h
    have hn : x.slt (0 : BitVec 32) = false := by
      rw [← Bool.not_eq_true, BitVec.slt_iff_toInt_lt]; rw [BitVec.sle_iff_toInt_le] at hx; omega
    rw [hn]; simp
  · have : (y == 0) = false := by rw [beq_eq_false_iff_ne]; exact hy
    rw [this]; simp only [Bool.false_eq_true, if_false]
    exact pow_tail x y hy
/-- KNOWN FINDING: glm::pow(-2, 0u) = -1, whereas (-2)^0 = 1 -/
theorem powS_violates : powS (-2) 0 = -1 ∧ (-2 : BitVec 32) ^ (0 : Nat) = 1 ∧ (-2 : Int) ^ (0 : Nat) = 1 := by decide
example : powU 3 4 = 81 ∧ powS (-2) 3 = -8 ∧ powS 7 0 = 1 := by decide

theorem modU_ok (x y : BitVec 32) : modU x y = x % y := by
  unfold modU
  apply BitVec.eq_of_toNat_eq
  have h1 : y.toNat * (x.toNat / y.toNat) ≤ x.toNat := Nat.mul_div_le _ _
  have hx := x.isLt
  have e1 : (y * (x / y)).toNat = y.toNat * (x.toNat / y.toNat) := by
    rw [BitVec.toNat_mul, BitVec.toNat_udiv]; exact Nat.mod_eq_of_lt (by omega)
  rw [BitVec.toNat_sub_of_le (BitVec.le_def.mpr (by rw [e1]; exact h1)), e1, BitVec.toNat_umod, Nat.mod_def]

/-- ((x % y) + y) % y with C++'s truncating % is the floored modulus -/
theorem floorMod_formula {x y : Int} (hy : y ≠ 0) : IsFloorMod x y ((x.tmod y + y).tmod y) := by
  have d1 : y ∣ x - x.tmod y := Int.dvd_self_sub_tmod
  have d2 : y ∣ (x.tmod y + y) - (x.tmod y + y).tmod y := Int.dvd_self_sub_tmod
  have hd : y ∣ x - (x.tmod y + y).tmod y := by
    have e : x - (x.tmod y + y).tmod y = (x - x.tmod y) + ((x.tmod y + y) - (x.tmod y + y).tmod y) - y := by omega
    rw [e]; exact Int.dvd_sub (Int.dvd_add d1 d2) (Int.dvd_refl y)
  refine ⟨hd, ?_⟩
  by_cases hpos : 0 < y
  · left
    have a1 : -y < x.tmod y := Int.lt_tmod_of_pos _ hpos
    exact ⟨hpos, Int.tmod_nonneg _ (by omega), Int.tmod_lt_of_pos _ hpos⟩
  · right
    have hneg : y < 0 := by omega
    have a1 : x.tmod y < -y := by
      have := Int.tmod_lt_of_pos x (show 0 < -y by omega); rwa [Int.tmod_neg] at this
    have hle : (x.tmod y + y).tmod y ≤ 0 := by
      have := Int.tmod_nonneg y (show 0 ≤ -(x.tmod y + y) by omega)
      rw [Int.neg_tmod] at this; omega
    have hgt : y < (x.tmod y + y).tmod y := by
      have := Int.lt_tmod_of_pos (x.tmod y + y) (show 0 < -y by omega); rw [Int.tmod_neg] at this; omega
    exact ⟨hneg, hgt, hle⟩
theorem floorMod_unique {x y r r' : Int} (h : IsFloorMod x y r) (h' : IsFloorMod x y r') : r = r' := by
  obtain ⟨d, a⟩ := h; obtain ⟨d', a'⟩ := h'
  have hz := Int.eq_zero_of_dvd_of_natAbs_lt_natAbs (show y ∣ r - r' by
    have e : r - r' = (x - r') - (x - r) := by omega
    rw [e]; exact Int.dvd_sub d' d) (by omega)
  omega
/-- the executable form used by the driver is the characterised value -/
theorem floorMod_spec {x y : Int} (hy : y ≠ 0) : IsFloorMod x y (Spec.floorMod x y) := by
  have e : Spec.floorMod x y = x.fmod y := by unfold Spec.floorMod; rw [Int.fmod_def]
  rw [e]
  have hd : y ∣ x - x.fmod y := by
    have := Int.dvd_sub_self_of_fmod_eq (a := x) (b := y) rfl
    have e2 : x - x.fmod y = -(x.fmod y - x) := by omega
    rw [e2]; exact Int.dvd_neg.mpr this
  refine ⟨hd, ?_⟩
  by_cases hpos : 0 < y
  · exact Or.inl ⟨hpos, Int.fmod_nonneg_of_pos _ hpos, Int.fmod_lt_of_pos _ hpos⟩
  · right
    have hneg : y < 0 := by omega
    have h1 := Int.fmod_nonneg_of_pos (-x) (show 0 < -y by omega)
    have h2 := Int.fmod_lt_of_pos (-x) (show 0 < -y by omega)
    rw [Int.neg_fmod_neg] at h1 h2
    exact ⟨hneg, by omega, by omega⟩

/-- mod(int x, int y): the floored modulus, whenever `(x % y) + y` does not overflow -/
theorem modS_ok (x y : BitVec 32) (hy : y ≠ 0)
    (hov : -2147483648 ≤ x.toInt.tmod y.toInt + y.toInt ∧ x.toInt.tmod y.toInt + y.toInt < 2147483648) :
    IsFloorMod x.toInt y.toInt (modS x y).toInt := by
  have hy' : y.toInt ≠ 0 := fun h => hy (BitVec.eq_of_toInt_eq (by rw [h]; rfl))
  have e1 : (x.srem y + y).toInt = x.toInt.tmod y.toInt + y.toInt := by
    rw [toInt_add_range (by decide) _ _ (by rw [BitVec.toInt_srem]; simpa using hov.1) (by rw [BitVec.toInt_srem]; simpa using hov.2),
        BitVec.toInt_srem]
  unfold modS
  rw [BitVec.toInt_srem, e1]
  exact floorMod_formula hy'
example : (modS (-7) 3).toInt = 2 ∧ (modS 7 (-3)).toInt = -2 ∧ modU 7 3 = 1 ∧ Spec.floorMod (-7) 3 = 2 ∧ Spec.floorMod 7 (-3) = -2 := by decide

/-! factorial<T>: every n whose factorial is representable -/
theorem factorialU_8 : ∀ n : Fin 6, factorialU 8 (BitVec.ofNat 8 n) = BitVec.ofNat 8 (Spec.fact n) := by decide
theorem factorialS_8 : ∀ n : Fin 6, factorialS 8 (BitVec.ofNat 8 n) = BitVec.ofNat 8 (Spec.fact n) := by decide
theorem factorialU_16 : ∀ n : Fin 9, factorialU 16 (BitVec.ofNat 16 n) = BitVec.ofNat 16 (Spec.fact n) := by decide
theorem factorialS_16 : ∀ n : Fin 8, factorialS 16 (BitVec.ofNat 16 n) = BitVec.ofNat 16 (Spec.fact n) := by decide
theorem factorialU_32 : ∀ n : Fin 13, factorialU 32 (BitVec.ofNat 32 n) = BitVec.ofNat 32 (Spec.fact n) := by decide
theorem factorialS_32 : ∀ n : Fin 13, factorialS 32 (BitVec.ofNat 32 n) = BitVec.ofNat 32 (Spec.fact n) := by decide
theorem factorialU_64 : ∀ n : Fin 21, factorialU 64 (BitVec.ofNat 64 n) = BitVec.ofNat 64 (Spec.fact n) := by decide
theorem factorialS_64 : ∀ n : Fin 21, factorialS 64 (BitVec.ofNat 64 n) = BitVec.ofNat 64 (Spec.fact n) := by decide
example : Spec.fact 12 = 479001600 ∧ Spec.fact 13 > 4294967295 ∧ Spec.fact 5 = 120 ∧ Spec.fact 20 < 2 ^ 63 ∧ Spec.fact 21 > 2 ^ 64 := by decide

end GlmVerif.C18.Props
