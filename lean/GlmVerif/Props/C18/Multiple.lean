import GlmVerif.Hand.C18
/-!
C18 — ceil/next-, floor/prev-, roundMultiple and isMultiple on integers (ext/scalar_integer.inl, gtc/round.inl, with the
fix patches of h/C18 applied): the model's result IS the nearest multiple in the named direction.

The theorems are proved for EVERY width w and every evaluation width c ≥ w at once (c is the width of `int` for the
promoted 8/16-bit types, c = w otherwise), by arithmetic on ℤ/ℕ — no SAT solver, no enumeration — and then
instantiated at the eight machine types.  Structure: (1) the formula of each branch satisfies the specification on ℤ
(`ceil_pos`, `floor_neg`, `ceil_nat` …); the specification determines the value (`ceil_unique`, `floor_unique`);
(2) no operator of the model wraps when the exact result is representable in T (`toInt_add_range`, `toNat_tr` …).
Hypotheses: Multiple > 0 (documented), the exact result representable in T, and for ceilMultiple on int32/int64
Source ≠ INT_MIN (`-Source` overflows there: undefined behaviour, C20).
-/
namespace GlmVerif.C18.Props
open GlmVerif.C18 GlmVerif.C18.Spec

/-! ## the arithmetic of the formulas, on ℤ -/
theorem ceil_pos {x m : Int} (hm : 0 < m) (hx : 0 < x) :
    IsCeilMultiple x m ((x - 1) + (m - (x - 1).tmod m)) := by
  have h0 : 0 ≤ (x - 1).tmod m := Int.tmod_nonneg _ (by omega)
  have h1 : (x - 1).tmod m < m := Int.tmod_lt_of_pos _ hm
  have hd : m ∣ (x - 1) - (x - 1).tmod m := Int.dvd_self_sub_tmod
  refine ⟨?_, by omega, by omega⟩
  have e : (x - 1) + (m - (x - 1).tmod m) = ((x - 1) - (x - 1).tmod m) + m := by omega
  rw [e]; exact Int.dvd_add hd (Int.dvd_refl m)

theorem ceil_nonpos {x m : Int} (hm : 0 < m) (hx : x ≤ 0) :
    IsCeilMultiple x m (x + (-x).tmod m) := by
  have h0 : 0 ≤ (-x).tmod m := Int.tmod_nonneg _ (by omega)
  have h1 : (-x).tmod m < m := Int.tmod_lt_of_pos _ hm
  have hd : m ∣ (-x) - (-x).tmod m := Int.dvd_self_sub_tmod
  refine ⟨?_, by omega, by omega⟩
  have e : x + (-x).tmod m = -((-x) - (-x).tmod m) := by omega
  rw [e]; exact Int.dvd_neg.mpr hd

theorem ceil_rem {x m : Int} (hm : 0 < m) (hx : 0 ≤ x) :
    IsCeilMultiple x m (if 0 < x.tmod m then x + (m - x.tmod m) else x) := by
  have h0 : 0 ≤ x.tmod m := Int.tmod_nonneg _ hx
  have h1 : x.tmod m < m := Int.tmod_lt_of_pos _ hm
  have hd : m ∣ x - x.tmod m := Int.dvd_self_sub_tmod
  split
  · refine ⟨?_, by omega, by omega⟩
    have e : x + (m - x.tmod m) = (x - x.tmod m) + m := by omega
    rw [e]; exact Int.dvd_add hd (Int.dvd_refl m)
  · have : x.tmod m = 0 := by omega
    rw [this] at hd
    exact ⟨by simpa using hd, by omega, by omega⟩

theorem floor_nonneg {x m : Int} (hm : 0 < m) (hx : 0 ≤ x) : IsFloorMultiple x m (x - x.tmod m) := by
  have h0 : 0 ≤ x.tmod m := Int.tmod_nonneg _ hx
  have h1 : x.tmod m < m := Int.tmod_lt_of_pos _ hm
  exact ⟨Int.dvd_self_sub_tmod, by omega, by omega⟩

theorem floor_neg {x m : Int} (hm : 0 < m) (hx : x < 0) : IsFloorMultiple x m ((x + 1) - (x + 1).tmod m - m) := by
  have h0 : (x + 1).tmod m ≤ 0 := by
    have := Int.tmod_nonneg m (show 0 ≤ -(x + 1) by omega)
    rw [Int.neg_tmod] at this; omega
  have h1 : -m < (x + 1).tmod m := Int.lt_tmod_of_pos _ hm
  have hd : m ∣ (x + 1) - (x + 1).tmod m := Int.dvd_self_sub_tmod
  exact ⟨Int.dvd_sub hd (Int.dvd_refl m), by omega, by omega⟩

theorem round_of_floor {x m l : Int} (hl : IsFloorMultiple x m l) :
    IsRoundMultiple x m (if x - l < m - (x - l) then l else l + m) := by
  obtain ⟨hd, h1, h2⟩ := hl
  split
  · exact ⟨hd, by omega, by omega⟩
  · exact ⟨Int.dvd_add hd (Int.dvd_refl m), by omega, by omega⟩

/-- the specifications determine the result -/
theorem ceil_unique {x m r r' : Int} (h : IsCeilMultiple x m r) (h' : IsCeilMultiple x m r') : r = r' := by
  obtain ⟨d, a, b⟩ := h; obtain ⟨d', a', b'⟩ := h'
  have hz := Int.eq_zero_of_dvd_of_natAbs_lt_natAbs (Int.dvd_sub d d') (by omega)
  omega
theorem floor_unique {x m r r' : Int} (h : IsFloorMultiple x m r) (h' : IsFloorMultiple x m r') : r = r' := by
  obtain ⟨d, a, b⟩ := h; obtain ⟨d', a', b'⟩ := h'
  have hz := Int.eq_zero_of_dvd_of_natAbs_lt_natAbs (Int.dvd_sub d d') (by omega)
  omega
theorem two_pow_posI (n : Nat) : (0 : Int) < 2 ^ n := Int.pow_pos (by decide)
theorem two_pow_leI {a b : Nat} (h : a ≤ b) : (2 : Int) ^ a ≤ 2 ^ b := by
  have := Nat.pow_le_pow_right (show 0 < 2 by decide) h
  exact_mod_cast this
theorem two_pow_succ_pred {c : Nat} (hc : 0 < c) : (2 : Int) ^ c = 2 * 2 ^ (c - 1) := by
  have : c = (c - 1) + 1 := by omega
  rw [this, Int.pow_succ]; simp; omega

theorem bmod_two_pow {n : Int} {c : Nat} (hc : 0 < c) (h1 : -(2 : Int) ^ (c - 1) ≤ n) (h2 : n < (2 : Int) ^ (c - 1)) :
    n.bmod (2 ^ c) = n := by
  have e := two_pow_succ_pred hc
  apply Int.bmod_eq_of_le_mul_two <;> (simp only [Int.natCast_pow, Int.cast_ofNat_Int]; omega)

theorem toInt_range {w : Nat} (x : BitVec w) : -(2 : Int) ^ (w - 1) ≤ x.toInt ∧ x.toInt < (2 : Int) ^ (w - 1) :=
  ⟨BitVec.le_toInt x, BitVec.toInt_lt⟩

theorem toInt_add_range {c : Nat} (hc : 0 < c) (a b : BitVec c)
    (h1 : -(2 : Int) ^ (c - 1) ≤ a.toInt + b.toInt) (h2 : a.toInt + b.toInt < (2 : Int) ^ (c - 1)) :
    (a + b).toInt = a.toInt + b.toInt := by rw [BitVec.toInt_add, bmod_two_pow hc h1 h2]
theorem toInt_sub_range {c : Nat} (hc : 0 < c) (a b : BitVec c)
    (h1 : -(2 : Int) ^ (c - 1) ≤ a.toInt - b.toInt) (h2 : a.toInt - b.toInt < (2 : Int) ^ (c - 1)) :
    (a - b).toInt = a.toInt - b.toInt := by rw [BitVec.toInt_sub, bmod_two_pow hc h1 h2]
theorem toInt_neg_range {c : Nat} (hc : 0 < c) (a : BitVec c)
    (h1 : -(2 : Int) ^ (c - 1) ≤ -a.toInt) (h2 : -a.toInt < (2 : Int) ^ (c - 1)) :
    (-a).toInt = -a.toInt := by rw [BitVec.toInt_neg, bmod_two_pow hc h1 h2]
theorem toInt_sx {w c : Nat} (h : w ≤ c) (x : BitVec w) : (sx c x).toInt = x.toInt := by
  unfold sx; exact BitVec.toInt_signExtend_of_le h
theorem toInt_tr {w c : Nat} (hw : 0 < w) (h : w ≤ c) (v : BitVec c)
    (h1 : -(2 : Int) ^ (w - 1) ≤ v.toInt) (h2 : v.toInt < (2 : Int) ^ (w - 1)) : (tr w v).toInt = v.toInt := by
  unfold tr
  rw [← BitVec.signExtend_eq_setWidth_of_le v h, BitVec.toInt_signExtend_eq_toInt_bmod_of_le v h, bmod_two_pow hw h1 h2]
theorem toInt_zeroB (c : Nat) : (0 : BitVec c).toInt = 0 := BitVec.toInt_zero
theorem toInt_oneB {c : Nat} (hc : 1 < c) : (1 : BitVec c).toInt = 1 := BitVec.toInt_one hc

/-- ceilMultiple, signed T of any width w evaluated at width c ≥ w -/
theorem ceilMultipleS_ok {w c : Nat} (hw : 1 < w) (hwc : w ≤ c) (s m : BitVec w) (hm : 0 < m.toInt)
    (hrep : ∃ r, IsCeilMultiple s.toInt m.toInt r ∧ r < (2 : Int) ^ (w - 1)) :
    IsCeilMultiple s.toInt m.toInt (ceilMultipleS w c s m).toInt := by
  obtain ⟨r, hr, hrlt⟩ := hrep
  have hc : 0 < c := by omega
  have hc1 : 1 < c := by omega
  have hPQ : (2 : Int) ^ (w - 1) ≤ 2 ^ (c - 1) := two_pow_leI (by omega)
  have hPQ' : w < c → 2 * (2 : Int) ^ (w - 1) ≤ 2 ^ (c - 1) := fun h => by
    have := two_pow_leI (show w ≤ c - 1 by omega)
    rw [two_pow_succ_pred (show 0 < w by omega)] at this; exact this
  obtain ⟨hs1, hs2⟩ := toInt_range s
  obtain ⟨hm1, hm2⟩ := toInt_range m
  have hS : (sx c s).toInt = s.toInt := toInt_sx hwc s
  have hM : (sx c m).toInt = m.toInt := toInt_sx hwc m
  unfold ceilMultipleS
  simp only
  by_cases hpos : 0 < s.toInt
  · have hcond : BitVec.slt 0 (sx c s) = true := by
      rw [BitVec.slt_iff_toInt_lt, hS, toInt_zeroB c]; exact hpos
    rw [if_pos hcond]
    have hv := ceil_pos hm hpos
    have hvr : (s.toInt - 1) + (m.toInt - (s.toInt - 1).tmod m.toInt) = r := ceil_unique hv hr
    have h0 : 0 ≤ (s.toInt - 1).tmod m.toInt := Int.tmod_nonneg _ (by omega)
    have h1 : (s.toInt - 1).tmod m.toInt < m.toInt := Int.tmod_lt_of_pos _ hm
    have e1 : (sx c s - 1).toInt = s.toInt - 1 := by
      rw [toInt_sub_range hc _ _ (by rw [hS, toInt_oneB hc1]; omega) (by rw [hS, toInt_oneB hc1]; omega), hS, toInt_oneB hc1]
    have e2 : (tr w (sx c s - 1)).toInt = s.toInt - 1 := by
      rw [toInt_tr (by omega) hwc _ (by rw [e1]; omega) (by rw [e1]; omega), e1]
    have e3 : (sx c (tr w (sx c s - 1) : BitVec w)).toInt = s.toInt - 1 := by rw [toInt_sx hwc, e2]
    have e4 : ((sx c (tr w (sx c s - 1) : BitVec w)).srem (sx c m)).toInt = (s.toInt - 1).tmod m.toInt := by
      rw [BitVec.toInt_srem, e3, hM]
    have e5 : (sx c m - (sx c (tr w (sx c s - 1) : BitVec w)).srem (sx c m)).toInt = m.toInt - (s.toInt - 1).tmod m.toInt := by
      rw [toInt_sub_range hc _ _ (by rw [hM, e4]; omega) (by rw [hM, e4]; omega), hM, e4]
    have e6 : (sx c (tr w (sx c s - 1) : BitVec w) + (sx c m - (sx c (tr w (sx c s - 1) : BitVec w)).srem (sx c m))).toInt
        = (s.toInt - 1) + (m.toInt - (s.toInt - 1).tmod m.toInt) := by
      rw [toInt_add_range hc _ _ (by rw [e3, e5]; omega) (by rw [e3, e5]; omega), e3, e5]
    rw [toInt_tr (by omega) hwc _ (by rw [e6]; omega) (by rw [e6]; omega), e6]
    exact hv
  · have hcond : ¬ (BitVec.slt 0 (sx c s) = true) := by
      rw [BitVec.slt_iff_toInt_lt, hS, toInt_zeroB c]; exact hpos
    rw [if_neg hcond]
    have hx : s.toInt ≤ 0 := by omega
    have hv := ceil_nonpos hm hx
    have hvr : s.toInt + (-s.toInt).tmod m.toInt = r := ceil_unique hv hr
    have h0 : 0 ≤ (-s.toInt).tmod m.toInt := Int.tmod_nonneg _ (by omega)
    have h1 : (-s.toInt).tmod m.toInt < m.toInt := Int.tmod_lt_of_pos _ hm
    have e2 : ((sx c s).srem (sx c m)).toInt = s.toInt.tmod m.toInt := by rw [BitVec.toInt_srem, hS, hM]
    have hneg_tmod : (-s.toInt).tmod m.toInt = -(s.toInt.tmod m.toInt) := Int.neg_tmod _ _
    have e3 : (sx c s - (sx c s).srem (sx c m)).toInt = s.toInt + (-s.toInt).tmod m.toInt := by
      rw [toInt_sub_range hc _ _ (by rw [hS, e2]; omega) (by rw [hS, e2]; omega), hS, e2]; omega
    rw [toInt_tr (by omega) hwc _ (by rw [e3]; omega) (by rw [e3]; omega), e3]
    exact hv

/-- floorMultiple, signed T -/
theorem floorMultipleS_ok {w c : Nat} (hw : 1 < w) (hwc : w ≤ c) (s m : BitVec w) (hm : 0 < m.toInt)
    (hrep : ∃ r, IsFloorMultiple s.toInt m.toInt r ∧ -(2 : Int) ^ (w - 1) ≤ r) :
    IsFloorMultiple s.toInt m.toInt (floorMultipleS w c s m).toInt := by
  obtain ⟨r, hr, hrge⟩ := hrep
  have hc : 0 < c := by omega
  have hc1 : 1 < c := by omega
  have hPQ : (2 : Int) ^ (w - 1) ≤ 2 ^ (c - 1) := two_pow_leI (by omega)
  obtain ⟨hs1, hs2⟩ := toInt_range s
  obtain ⟨hm1, hm2⟩ := toInt_range m
  have hS : (sx c s).toInt = s.toInt := toInt_sx hwc s
  have hM : (sx c m).toInt = m.toInt := toInt_sx hwc m
  unfold floorMultipleS
  simp only
  by_cases hneg : s.toInt < 0
  · have hcond : (sx c s).slt 0 = true := by
      rw [BitVec.slt_iff_toInt_lt, hS, toInt_zeroB c]; exact hneg
    simp only [hcond, Bool.not_true, Bool.false_eq_true, if_false]
    have hv := floor_neg hm hneg
    have hvr : (s.toInt + 1) - (s.toInt + 1).tmod m.toInt - m.toInt = r := floor_unique hv hr
    have h0 : (s.toInt + 1).tmod m.toInt ≤ 0 := by
      have := Int.tmod_nonneg m.toInt (show 0 ≤ -(s.toInt + 1) by omega)
      rw [Int.neg_tmod] at this; omega
    have h1 : -m.toInt < (s.toInt + 1).tmod m.toInt := Int.lt_tmod_of_pos _ hm
    have e1 : (sx c s + 1).toInt = s.toInt + 1 := by
      rw [toInt_add_range hc _ _ (by rw [hS, toInt_oneB hc1]; omega) (by rw [hS, toInt_oneB hc1]; omega), hS, toInt_oneB hc1]
    have e2 : (tr w (sx c s + 1)).toInt = s.toInt + 1 := by
      rw [toInt_tr (by omega) hwc _ (by rw [e1]; omega) (by rw [e1]; omega), e1]
    have e3 : (sx c (tr w (sx c s + 1) : BitVec w)).toInt = s.toInt + 1 := by rw [toInt_sx hwc, e2]
    have e4 : ((sx c (tr w (sx c s + 1) : BitVec w)).srem (sx c m)).toInt = (s.toInt + 1).tmod m.toInt := by
      rw [BitVec.toInt_srem, e3, hM]
    have e5 : (sx c (tr w (sx c s + 1) : BitVec w) - (sx c (tr w (sx c s + 1) : BitVec w)).srem (sx c m)).toInt
        = (s.toInt + 1) - (s.toInt + 1).tmod m.toInt := by
      rw [toInt_sub_range hc _ _ (by rw [e3, e4]; omega) (by rw [e3, e4]; omega), e3, e4]
    have e6 : (sx c (tr w (sx c s + 1) : BitVec w) - (sx c (tr w (sx c s + 1) : BitVec w)).srem (sx c m) - sx c m).toInt
        = (s.toInt + 1) - (s.toInt + 1).tmod m.toInt - m.toInt := by
      rw [toInt_sub_range hc _ _ (by rw [e5, hM]; omega) (by rw [e5, hM]; omega), e5, hM]
    rw [toInt_tr (by omega) hwc _ (by rw [e6]; omega) (by rw [e6]; omega), e6]
    exact hv
  · have hcond : (sx c s).slt 0 = false := by
      rw [← Bool.not_eq_true, BitVec.slt_iff_toInt_lt, hS, toInt_zeroB c]; exact hneg
    simp only [hcond, Bool.not_false, if_true]
    have hx : 0 ≤ s.toInt := by omega
    have hv := floor_nonneg hm hx
    have h0 : 0 ≤ s.toInt.tmod m.toInt := Int.tmod_nonneg _ hx
    have h1 : s.toInt.tmod m.toInt < m.toInt := Int.tmod_lt_of_pos _ hm
    have e1 : ((sx c s).srem (sx c m)).toInt = s.toInt.tmod m.toInt := by rw [BitVec.toInt_srem, hS, hM]
    have e2 : (sx c s - (sx c s).srem (sx c m)).toInt = s.toInt - s.toInt.tmod m.toInt := by
      rw [toInt_sub_range hc _ _ (by rw [hS, e1]; omega) (by rw [hS, e1]; omega), hS, e1]
    rw [toInt_tr (by omega) hwc _ (by rw [e2]; omega) (by rw [e2]; omega), e2]
    exact hv

/-- roundMultiple, signed T: the lower neighbour must be representable, and so must the upper one unless the lower
    one is strictly nearer -/
theorem roundMultipleS_ok {w c : Nat} (hw : 1 < w) (hwc : w ≤ c) (s m : BitVec w) (hm : 0 < m.toInt)
    (hrep : ∃ l, IsFloorMultiple s.toInt m.toInt l ∧ -(2 : Int) ^ (w - 1) ≤ l ∧
                 (2 * (s.toInt - l) < m.toInt ∨ l + m.toInt < (2 : Int) ^ (w - 1))) :
    IsRoundMultiple s.toInt m.toInt (roundMultipleS w c s m).toInt := by
  obtain ⟨l, hl, hlge, hup⟩ := hrep
  have hc : 0 < c := by omega
  have hPQ : (2 : Int) ^ (w - 1) ≤ 2 ^ (c - 1) := two_pow_leI (by omega)
  obtain ⟨hs1, hs2⟩ := toInt_range s
  obtain ⟨hm1, hm2⟩ := toInt_range m
  have hS : (sx c s).toInt = s.toInt := toInt_sx hwc s
  have hM : (sx c m).toInt = m.toInt := toInt_sx hwc m
  have hF := floorMultipleS_ok hw hwc s m hm ⟨l, hl, hlge⟩
  have hLl : (floorMultipleS w c s m).toInt = l := floor_unique hF hl
  obtain ⟨hd, hle, hlt⟩ := hl
  have hL : (sx c (floorMultipleS w c s m)).toInt = l := by rw [toInt_sx hwc, hLl]
  have e1 : (sx c s - sx c (floorMultipleS w c s m)).toInt = s.toInt - l := by
    rw [toInt_sub_range hc _ _ (by rw [hS, hL]; omega) (by rw [hS, hL]; omega), hS, hL]
  have e2 : (tr w (sx c s - sx c (floorMultipleS w c s m)) : BitVec w).toInt = s.toInt - l := by
    rw [toInt_tr (by omega) hwc _ (by rw [e1]; omega) (by rw [e1]; omega), e1]
  have e3 : (sx c (tr w (sx c s - sx c (floorMultipleS w c s m)) : BitVec w)).toInt = s.toInt - l := by rw [toInt_sx hwc, e2]
  have e4 : (sx c m - sx c (tr w (sx c s - sx c (floorMultipleS w c s m)) : BitVec w)).toInt = m.toInt - (s.toInt - l) := by
    rw [toInt_sub_range hc _ _ (by rw [hM, e3]; omega) (by rw [hM, e3]; omega), hM, e3]
  have hR := round_of_floor (x := s.toInt) (m := m.toInt) (l := l) ⟨hd, hle, hlt⟩
  unfold roundMultipleS
  simp only
  by_cases hlow : s.toInt - l < m.toInt - (s.toInt - l)
  · have hcond : (sx c (tr w (sx c s - sx c (floorMultipleS w c s m)) : BitVec w)).slt
        (sx c m - sx c (tr w (sx c s - sx c (floorMultipleS w c s m)) : BitVec w)) = true := by
      rw [BitVec.slt_iff_toInt_lt, e3, e4]; exact hlow
    rw [if_pos hcond, hLl]
    rw [if_pos hlow] at hR; exact hR
  · have hcond : ¬ ((sx c (tr w (sx c s - sx c (floorMultipleS w c s m)) : BitVec w)).slt
        (sx c m - sx c (tr w (sx c s - sx c (floorMultipleS w c s m)) : BitVec w)) = true) := by
      rw [BitVec.slt_iff_toInt_lt, e3, e4]; exact hlow
    rw [if_neg hcond]
    have hupper : l + m.toInt < (2 : Int) ^ (w - 1) := by
      rcases hup with h | h
      · omega
      · exact h
    have e5 : (sx c (floorMultipleS w c s m) + sx c m).toInt = l + m.toInt := by
      rw [toInt_add_range hc _ _ (by rw [hL, hM]; omega) (by rw [hL, hM]; omega), hL, hM]
    rw [toInt_tr (by omega) hwc _ (by rw [e5]; omega) (by rw [e5]; omega), e5]
    rw [if_neg hlow] at hR; exact hR

/-- isMultiple, signed T, Multiple > 0 -/
theorem isMultipleS_ok {w c : Nat} (hw : 1 < w) (hwc : w ≤ c) (s m : BitVec w) (hm : 0 < m.toInt) :
    isMultipleS w c s m = decide (m.toInt ∣ s.toInt) := by
  obtain ⟨hs1, hs2⟩ := toInt_range s
  obtain ⟨hm1, hm2⟩ := toInt_range m
  have hS : (sx c s).toInt = s.toInt := toInt_sx hwc s
  have hM : (sx c m).toInt = m.toInt := toInt_sx hwc m
  have e1 : ((sx c s).srem (sx c m)).toInt = s.toInt.tmod m.toInt := by rw [BitVec.toInt_srem, hS, hM]
  have h0 : -m.toInt < s.toInt.tmod m.toInt := Int.lt_tmod_of_pos _ hm
  have h1 : s.toInt.tmod m.toInt < m.toInt := Int.tmod_lt_of_pos _ hm
  have e2 : (tr w ((sx c s).srem (sx c m)) : BitVec w).toInt = s.toInt.tmod m.toInt := by
    rw [toInt_tr (by omega) hwc _ (by rw [e1]; omega) (by rw [e1]; omega), e1]
  unfold isMultipleS
  by_cases hd : m.toInt ∣ s.toInt
  · have hz : s.toInt.tmod m.toInt = 0 := Int.tmod_eq_zero_of_dvd hd
    have : (tr w ((sx c s).srem (sx c m)) : BitVec w) = 0 := by
      apply BitVec.eq_of_toInt_eq; rw [e2, hz, toInt_zeroB w]
    have hb : ((tr w ((sx c s).srem (sx c m)) : BitVec w) == (0 : BitVec w)) = true := by rw [beq_iff_eq]; exact this
    rw [hb]; simp [hd]
  · have hz : s.toInt.tmod m.toInt ≠ 0 := fun h => hd (Int.dvd_of_tmod_eq_zero h)
    have : (tr w ((sx c s).srem (sx c m)) : BitVec w) ≠ 0 := by
      intro h; apply hz; rw [← e2, h, toInt_zeroB w]
    have hb : ((tr w ((sx c s).srem (sx c m)) : BitVec w) == (0 : BitVec w)) = false := by rw [beq_eq_false_iff_ne]; exact this
    rw [hb]; simp [hd]

/-! ## unsigned T: values are read with `toNat` -/
theorem two_pow_le_nat {a b : Nat} (h : a ≤ b) : 2 ^ a ≤ 2 ^ b := Nat.pow_le_pow_right (by decide) h
theorem toNat_zx {w c : Nat} (h : w ≤ c) (x : BitVec w) : (zx c x).toNat = x.toNat := by
  unfold zx; rw [BitVec.toNat_setWidth]; exact Nat.mod_eq_of_lt (Nat.lt_of_lt_of_le x.isLt (two_pow_le_nat h))
theorem toNat_tr {w c : Nat} (v : BitVec c) (h : v.toNat < 2 ^ w) : (tr w v).toNat = v.toNat := by
  unfold tr; rw [BitVec.toNat_setWidth]; exact Nat.mod_eq_of_lt h
theorem toNat_add_lt {c : Nat} (a b : BitVec c) (h : a.toNat + b.toNat < 2 ^ c) : (a + b).toNat = a.toNat + b.toNat := by
  rw [BitVec.toNat_add]; exact Nat.mod_eq_of_lt h
theorem toNat_sub_le {c : Nat} (a b : BitVec c) (h : b.toNat ≤ a.toNat) : (a - b).toNat = a.toNat - b.toNat :=
  BitVec.toNat_sub_of_le (BitVec.le_def.mpr h)

theorem ceil_nat {S M : Nat} (hM : 0 < M) :
    IsCeilMultiple (S : Int) (M : Int) ((if 0 < S % M then S + (M - S % M) else S : Nat) : Int) := by
  have h1 : S % M < M := Nat.mod_lt _ hM
  have h2 : S % M ≤ S := Nat.mod_le _ _
  have hd : M ∣ S - S % M := Nat.dvd_sub_mod S
  split
  · refine ⟨?_, by omega, by omega⟩
    have e : S + (M - S % M) = (S - S % M) + M := by omega
    rw [e]; exact Int.natCast_dvd_natCast.mpr (Nat.dvd_add hd (Nat.dvd_refl M))
  · have hz : S % M = 0 := by omega
    rw [hz] at hd
    exact ⟨Int.natCast_dvd_natCast.mpr (by simpa using hd), by omega, by omega⟩

theorem floor_nat {S M : Nat} (hM : 0 < M) : IsFloorMultiple (S : Int) (M : Int) ((S - S % M : Nat) : Int) := by
  have h1 : S % M < M := Nat.mod_lt _ hM
  have h2 : S % M ≤ S := Nat.mod_le _ _
  exact ⟨Int.natCast_dvd_natCast.mpr (Nat.dvd_sub_mod S), by omega, by omega⟩

theorem round_nat {S M : Nat} (hM : 0 < M) :
    IsRoundMultiple (S : Int) (M : Int) ((if S % M < M - S % M then S - S % M else S - S % M + M : Nat) : Int) := by
  have h1 : S % M < M := Nat.mod_lt _ hM
  have h2 : S % M ≤ S := Nat.mod_le _ _
  have hd : M ∣ S - S % M := Nat.dvd_sub_mod S
  split
  · exact ⟨Int.natCast_dvd_natCast.mpr hd, by omega, by omega⟩
  · exact ⟨Int.natCast_dvd_natCast.mpr (Nat.dvd_add hd (Nat.dvd_refl M)), by omega, by omega⟩

/-- ceilMultiple (patched), unsigned T -/
theorem ceilMultipleU_ok {w c : Nat} (hwc : w ≤ c) (s m : BitVec w) (hm : 0 < m.toNat)
    (hrep : ∃ r, IsCeilMultiple (s.toNat : Int) (m.toNat : Int) r ∧ r < (2 : Int) ^ w) :
    IsCeilMultiple (s.toNat : Int) (m.toNat : Int) ((ceilMultipleU w c s m).toNat : Int) := by
  obtain ⟨r, hr, hrlt⟩ := hrep
  have hv := ceil_nat (S := s.toNat) hm
  have hvr := ceil_unique hv hr
  have hS := toNat_zx hwc s; have hM := toNat_zx hwc m
  have hs := s.isLt
  have h1 : s.toNat % m.toNat < m.toNat := Nat.mod_lt _ hm
  have h2 : s.toNat % m.toNat ≤ s.toNat := Nat.mod_le _ _
  have hwc2 : 2 ^ w ≤ 2 ^ c := two_pow_le_nat hwc
  have e1 : (zx c s % zx c m).toNat = s.toNat % m.toNat := by rw [BitVec.toNat_umod, hS, hM]
  have e2 : (tr w (zx c s % zx c m) : BitVec w).toNat = s.toNat % m.toNat := by
    rw [toNat_tr _ (by rw [e1]; omega), e1]
  unfold ceilMultipleU
  simp only
  by_cases hpos : 0 < s.toNat % m.toNat
  · have hcond : (0 : BitVec w).ult (tr w (zx c s % zx c m)) = true := by
      rw [BitVec.ult_iff_toNat_lt, e2]; simpa using hpos
    rw [if_pos hcond]
    rw [if_pos hpos] at hv hvr
    have hlt : s.toNat + (m.toNat - s.toNat % m.toNat) < 2 ^ w := by
      have : ((s.toNat + (m.toNat - s.toNat % m.toNat) : Nat) : Int) < (2 : Int) ^ w := by rw [hvr]; exact hrlt
      exact_mod_cast this
    have e3 : (zx c (tr w (zx c s % zx c m) : BitVec w)).toNat = s.toNat % m.toNat := by rw [toNat_zx hwc, e2]
    have e4 : (zx c m - zx c (tr w (zx c s % zx c m) : BitVec w)).toNat = m.toNat - s.toNat % m.toNat := by
      rw [toNat_sub_le _ _ (by rw [e3, hM]; omega), hM, e3]
    have e5 : (zx c s + (zx c m - zx c (tr w (zx c s % zx c m) : BitVec w))).toNat = s.toNat + (m.toNat - s.toNat % m.toNat) := by
      rw [toNat_add_lt _ _ (by rw [hS, e4]; omega), hS, e4]
    rw [toNat_tr _ (by rw [e5]; exact hlt), e5]
    exact hv
  · have hcond : ¬ ((0 : BitVec w).ult (tr w (zx c s % zx c m)) = true) := by
      rw [BitVec.ult_iff_toNat_lt, e2]; simpa using hpos
    rw [if_neg hcond]
    rw [if_neg hpos] at hv
    exact hv

/-- floorMultiple, unsigned T: no side condition at all -/
theorem floorMultipleU_toNat {w c : Nat} (hwc : w ≤ c) (s m : BitVec w) :
    (floorMultipleU w c s m).toNat = s.toNat - s.toNat % m.toNat := by
  have hS := toNat_zx hwc s; have hM := toNat_zx hwc m
  have hs := s.isLt
  have h2 : s.toNat % m.toNat ≤ s.toNat := Nat.mod_le _ _
  have e1 : (zx c s % zx c m).toNat = s.toNat % m.toNat := by rw [BitVec.toNat_umod, hS, hM]
  have e2 : (zx c s - zx c s % zx c m).toNat = s.toNat - s.toNat % m.toNat := by
    rw [toNat_sub_le _ _ (by rw [e1, hS]; exact h2), hS, e1]
  unfold floorMultipleU
  rw [toNat_tr _ (by rw [e2]; omega), e2]
theorem floorMultipleU_ok {w c : Nat} (hwc : w ≤ c) (s m : BitVec w) (hm : 0 < m.toNat) :
    IsFloorMultiple (s.toNat : Int) (m.toNat : Int) ((floorMultipleU w c s m).toNat : Int) := by
  rw [floorMultipleU_toNat hwc]; exact floor_nat hm

/-- roundMultiple (patched), unsigned T: the upper neighbour must be representable unless the lower one is strictly nearer -/
theorem roundMultipleU_ok {w c : Nat} (hwc : w ≤ c) (s m : BitVec w) (hm : 0 < m.toNat)
    (hrep : 2 * (s.toNat % m.toNat) < m.toNat ∨ s.toNat - s.toNat % m.toNat + m.toNat < 2 ^ w) :
    IsRoundMultiple (s.toNat : Int) (m.toNat : Int) ((roundMultipleU w c s m).toNat : Int) := by
  have hv := round_nat (S := s.toNat) hm
  have hS := toNat_zx hwc s; have hM := toNat_zx hwc m
  have hs := s.isLt; have hml := m.isLt
  have h1 : s.toNat % m.toNat < m.toNat := Nat.mod_lt _ hm
  have h2 : s.toNat % m.toNat ≤ s.toNat := Nat.mod_le _ _
  have hwc2 : 2 ^ w ≤ 2 ^ c := two_pow_le_nat hwc
  have hL := floorMultipleU_toNat hwc s m
  have hLz : (zx c (floorMultipleU w c s m)).toNat = s.toNat - s.toNat % m.toNat := by rw [toNat_zx hwc, hL]
  have e1 : (zx c s - zx c (floorMultipleU w c s m)).toNat = s.toNat % m.toNat := by
    rw [toNat_sub_le _ _ (by rw [hLz, hS]; omega), hS, hLz]; omega
  have e2 : (tr w (zx c s - zx c (floorMultipleU w c s m)) : BitVec w).toNat = s.toNat % m.toNat := by
    rw [toNat_tr _ (by rw [e1]; omega), e1]
  have e3 : (zx c (tr w (zx c s - zx c (floorMultipleU w c s m)) : BitVec w)).toNat = s.toNat % m.toNat := by
    rw [toNat_zx hwc, e2]
  have e4 : (zx c m - zx c (tr w (zx c s - zx c (floorMultipleU w c s m)) : BitVec w)).toNat = m.toNat - s.toNat % m.toNat := by
    rw [toNat_sub_le _ _ (by rw [e3, hM]; omega), hM, e3]
  have hlt : (if w < c then (zx c (tr w (zx c s - zx c (floorMultipleU w c s m)) : BitVec w)).slt
                  (zx c m - zx c (tr w (zx c s - zx c (floorMultipleU w c s m)) : BitVec w))
              else (zx c (tr w (zx c s - zx c (floorMultipleU w c s m)) : BitVec w)).ult
                  (zx c m - zx c (tr w (zx c s - zx c (floorMultipleU w c s m)) : BitVec w))) = true
        ↔ s.toNat % m.toNat < m.toNat - s.toNat % m.toNat := by
    split
    · rename_i hlt'
      have hcc : 2 * 2 ^ w ≤ 2 ^ c := by
        have := two_pow_le_nat (show w + 1 ≤ c by omega); rw [Nat.pow_succ] at this; omega
      rw [BitVec.slt_iff_toInt_lt, BitVec.toInt_eq_toNat_of_lt (by rw [e3]; omega),
          BitVec.toInt_eq_toNat_of_lt (by rw [e4]; omega), e3, e4]
      omega
    · rw [BitVec.ult_iff_toNat_lt, e3, e4]
  unfold roundMultipleU
  simp only
  by_cases hlow : s.toNat % m.toNat < m.toNat - s.toNat % m.toNat
  · rw [if_pos (hlt.mpr hlow), hL]
    rw [if_pos hlow] at hv; exact hv
  · rw [if_neg (fun h => hlow (hlt.mp h))]
    have hup : s.toNat - s.toNat % m.toNat + m.toNat < 2 ^ w := by
      rcases hrep with h | h
      · omega
      · exact h
    have e5 : (zx c (floorMultipleU w c s m) + zx c m).toNat = s.toNat - s.toNat % m.toNat + m.toNat := by
      rw [toNat_add_lt _ _ (by rw [hLz, hM]; omega), hLz, hM]
    rw [toNat_tr _ (by rw [e5]; exact hup), e5]
    rw [if_neg hlow] at hv; exact hv

/-- isMultiple, unsigned T -/
theorem isMultipleU_ok {w c : Nat} (hwc : w ≤ c) (s m : BitVec w) (_hm : 0 < m.toNat) :
    isMultipleU w c s m = decide (m.toNat ∣ s.toNat) := by
  have hS := toNat_zx hwc s; have hM := toNat_zx hwc m
  have hs := s.isLt
  have h2 : s.toNat % m.toNat ≤ s.toNat := Nat.mod_le _ _
  have e1 : (zx c s % zx c m).toNat = s.toNat % m.toNat := by rw [BitVec.toNat_umod, hS, hM]
  have e2 : (tr w (zx c s % zx c m) : BitVec w).toNat = s.toNat % m.toNat := by
    rw [toNat_tr _ (by rw [e1]; omega), e1]
  unfold isMultipleU
  by_cases hd : m.toNat ∣ s.toNat
  · have hz : s.toNat % m.toNat = 0 := Nat.mod_eq_zero_of_dvd hd
    have : (tr w (zx c s % zx c m) : BitVec w) = 0 := by
      apply BitVec.eq_of_toNat_eq; rw [e2, hz]; rfl
    have hb : ((tr w (zx c s % zx c m) : BitVec w) == (0 : BitVec w)) = true := by rw [beq_iff_eq]; exact this
    rw [hb]; simp [hd]
  · have hz : s.toNat % m.toNat ≠ 0 := fun h => hd (Nat.dvd_of_mod_eq_zero h)
    have : (tr w (zx c s % zx c m) : BitVec w) ≠ 0 := by
      intro h; apply hz; rw [← e2, h]; rfl
    have hb : ((tr w (zx c s % zx c m) : BitVec w) == (0 : BitVec w)) = false := by rw [beq_eq_false_iff_ne]; exact this
    rw [hb]; simp [hd]

/-! ## the eight machine types -/

theorem ceilMultipleS_8 (s m : BitVec 8) (hm : 0 < m.toInt)
    (hrep : ∃ r, IsCeilMultiple s.toInt m.toInt r ∧ r < 128) :
    IsCeilMultiple s.toInt m.toInt (ceilMultipleS 8 32 s m).toInt :=
  ceilMultipleS_ok (by decide) (by decide) s m hm (by simpa using hrep)
theorem floorMultipleS_8 (s m : BitVec 8) (hm : 0 < m.toInt)
    (hrep : ∃ r, IsFloorMultiple s.toInt m.toInt r ∧ -128 ≤ r) :
    IsFloorMultiple s.toInt m.toInt (floorMultipleS 8 32 s m).toInt :=
  floorMultipleS_ok (by decide) (by decide) s m hm (by simpa using hrep)
theorem roundMultipleS_8 (s m : BitVec 8) (hm : 0 < m.toInt)
    (hrep : ∃ l, IsFloorMultiple s.toInt m.toInt l ∧ -128 ≤ l ∧ (2 * (s.toInt - l) < m.toInt ∨ l + m.toInt < 128)) :
    IsRoundMultiple s.toInt m.toInt (roundMultipleS 8 32 s m).toInt :=
  roundMultipleS_ok (by decide) (by decide) s m hm (by simpa using hrep)
theorem isMultipleS_8 (s m : BitVec 8) (hm : 0 < m.toInt) :
    isMultipleS 8 32 s m = decide (m.toInt ∣ s.toInt) :=
  isMultipleS_ok (by decide) (by decide) s m hm
theorem ceilMultipleU_8 (s m : BitVec 8) (hm : 0 < m.toNat)
    (hrep : ∃ r, IsCeilMultiple (s.toNat : Int) (m.toNat : Int) r ∧ r < 256) :
    IsCeilMultiple (s.toNat : Int) (m.toNat : Int) ((ceilMultipleU 8 32 s m).toNat : Int) :=
  ceilMultipleU_ok (by decide) s m hm (by simpa using hrep)
theorem floorMultipleU_8 (s m : BitVec 8) (hm : 0 < m.toNat) :
    IsFloorMultiple (s.toNat : Int) (m.toNat : Int) ((floorMultipleU 8 32 s m).toNat : Int) :=
  floorMultipleU_ok (by decide) s m hm
theorem roundMultipleU_8 (s m : BitVec 8) (hm : 0 < m.toNat)
    (hrep : 2 * (s.toNat % m.toNat) < m.toNat ∨ s.toNat - s.toNat % m.toNat + m.toNat < 256) :
    IsRoundMultiple (s.toNat : Int) (m.toNat : Int) ((roundMultipleU 8 32 s m).toNat : Int) :=
  roundMultipleU_ok (by decide) s m hm (by simpa using hrep)
theorem isMultipleU_8 (s m : BitVec 8) (hm : 0 < m.toNat) :
    isMultipleU 8 32 s m = decide (m.toNat ∣ s.toNat) :=
  isMultipleU_ok (by decide) s m hm
example : (ceilMultipleS 8 32 (-7) 4).toInt = -4 ∧ (ceilMultipleS 8 32 7 4).toInt = 8 ∧ (ceilMultipleS 8 32 8 4).toInt = 8 := by decide
example : (floorMultipleS 8 32 (-7) 4).toInt = -8 ∧ (floorMultipleS 8 32 7 4).toInt = 4 ∧ (floorMultipleS 8 32 (-8) 4).toInt = -8 := by decide
example : (roundMultipleS 8 32 7 4).toInt = 8 ∧ (roundMultipleS 8 32 5 4).toInt = 4 ∧ (roundMultipleS 8 32 (-7) 4).toInt = -8 ∧ (roundMultipleS 8 32 (-5) 4).toInt = -4 := by decide
example : (ceilMultipleU 8 32 0 3).toNat = 0 ∧ (ceilMultipleU 8 32 7 3).toNat = 9 ∧ (floorMultipleU 8 32 7 3).toNat = 6 ∧ (roundMultipleU 8 32 7 3).toNat = 6 ∧ (roundMultipleU 8 32 8 3).toNat = 9 := by decide
example : isMultipleS 8 32 (-6) 3 = true ∧ isMultipleS 8 32 7 3 = false ∧ isMultipleU 8 32 6 3 = true := by decide

theorem ceilMultipleS_16 (s m : BitVec 16) (hm : 0 < m.toInt)
    (hrep : ∃ r, IsCeilMultiple s.toInt m.toInt r ∧ r < 32768) :
    IsCeilMultiple s.toInt m.toInt (ceilMultipleS 16 32 s m).toInt :=
  ceilMultipleS_ok (by decide) (by decide) s m hm (by simpa using hrep)
theorem floorMultipleS_16 (s m : BitVec 16) (hm : 0 < m.toInt)
    (hrep : ∃ r, IsFloorMultiple s.toInt m.toInt r ∧ -32768 ≤ r) :
    IsFloorMultiple s.toInt m.toInt (floorMultipleS 16 32 s m).toInt :=
  floorMultipleS_ok (by decide) (by decide) s m hm (by simpa using hrep)
theorem roundMultipleS_16 (s m : BitVec 16) (hm : 0 < m.toInt)
    (hrep : ∃ l, IsFloorMultiple s.toInt m.toInt l ∧ -32768 ≤ l ∧ (2 * (s.toInt - l) < m.toInt ∨ l + m.toInt < 32768)) :
    IsRoundMultiple s.toInt m.toInt (roundMultipleS 16 32 s m).toInt :=
  roundMultipleS_ok (by decide) (by decide) s m hm (by simpa using hrep)
theorem isMultipleS_16 (s m : BitVec 16) (hm : 0 < m.toInt) :
    isMultipleS 16 32 s m = decide (m.toInt ∣ s.toInt) :=
  isMultipleS_ok (by decide) (by decide) s m hm
theorem ceilMultipleU_16 (s m : BitVec 16) (hm : 0 < m.toNat)
    (hrep : ∃ r, IsCeilMultiple (s.toNat : Int) (m.toNat : Int) r ∧ r < 65536) :
    IsCeilMultiple (s.toNat : Int) (m.toNat : Int) ((ceilMultipleU 16 32 s m).toNat : Int) :=
  ceilMultipleU_ok (by decide) s m hm (by simpa using hrep)
theorem floorMultipleU_16 (s m : BitVec 16) (hm : 0 < m.toNat) :
    IsFloorMultiple (s.toNat : Int) (m.toNat : Int) ((floorMultipleU 16 32 s m).toNat : Int) :=
  floorMultipleU_ok (by decide) s m hm
theorem roundMultipleU_16 (s m : BitVec 16) (hm : 0 < m.toNat)
    (hrep : 2 * (s.toNat % m.toNat) < m.toNat ∨ s.toNat - s.toNat % m.toNat + m.toNat < 65536) :
    IsRoundMultiple (s.toNat : Int) (m.toNat : Int) ((roundMultipleU 16 32 s m).toNat : Int) :=
  roundMultipleU_ok (by decide) s m hm (by simpa using hrep)
theorem isMultipleU_16 (s m : BitVec 16) (hm : 0 < m.toNat) :
    isMultipleU 16 32 s m = decide (m.toNat ∣ s.toNat) :=
  isMultipleU_ok (by decide) s m hm
example : (ceilMultipleS 16 32 (-7) 4).toInt = -4 ∧ (ceilMultipleS 16 32 7 4).toInt = 8 ∧ (ceilMultipleS 16 32 8 4).toInt = 8 := by decide
example : (floorMultipleS 16 32 (-7) 4).toInt = -8 ∧ (floorMultipleS 16 32 7 4).toInt = 4 ∧ (floorMultipleS 16 32 (-8) 4).toInt = -8 := by decide
example : (roundMultipleS 16 32 7 4).toInt = 8 ∧ (roundMultipleS 16 32 5 4).toInt = 4 ∧ (roundMultipleS 16 32 (-7) 4).toInt = -8 ∧ (roundMultipleS 16 32 (-5) 4).toInt = -4 := by decide
example : (ceilMultipleU 16 32 0 3).toNat = 0 ∧ (ceilMultipleU 16 32 7 3).toNat = 9 ∧ (floorMultipleU 16 32 7 3).toNat = 6 ∧ (roundMultipleU 16 32 7 3).toNat = 6 ∧ (roundMultipleU 16 32 8 3).toNat = 9 := by decide
example : isMultipleS 16 32 (-6) 3 = true ∧ isMultipleS 16 32 7 3 = false ∧ isMultipleU 16 32 6 3 = true := by decide

theorem ceilMultipleS_32 (s m : BitVec 32) (hm : 0 < m.toInt)
    (hrep : ∃ r, IsCeilMultiple s.toInt m.toInt r ∧ r < 2147483648) :
    IsCeilMultiple s.toInt m.toInt (ceilMultipleS 32 32 s m).toInt :=
  ceilMultipleS_ok (by decide) (by decide) s m hm (by simpa using hrep)
theorem floorMultipleS_32 (s m : BitVec 32) (hm : 0 < m.toInt)
    (hrep : ∃ r, IsFloorMultiple s.toInt m.toInt r ∧ -2147483648 ≤ r) :
    IsFloorMultiple s.toInt m.toInt (floorMultipleS 32 32 s m).toInt :=
  floorMultipleS_ok (by decide) (by decide) s m hm (by simpa using hrep)
theorem roundMultipleS_32 (s m : BitVec 32) (hm : 0 < m.toInt)
    (hrep : ∃ l, IsFloorMultiple s.toInt m.toInt l ∧ -2147483648 ≤ l ∧ (2 * (s.toInt - l) < m.toInt ∨ l + m.toInt < 2147483648)) :
    IsRoundMultiple s.toInt m.toInt (roundMultipleS 32 32 s m).toInt :=
  roundMultipleS_ok (by decide) (by decide) s m hm (by simpa using hrep)
theorem isMultipleS_32 (s m : BitVec 32) (hm : 0 < m.toInt) :
    isMultipleS 32 32 s m = decide (m.toInt ∣ s.toInt) :=
  isMultipleS_ok (by decide) (by decide) s m hm
theorem ceilMultipleU_32 (s m : BitVec 32) (hm : 0 < m.toNat)
    (hrep : ∃ r, IsCeilMultiple (s.toNat : Int) (m.toNat : Int) r ∧ r < 4294967296) :
    IsCeilMultiple (s.toNat : Int) (m.toNat : Int) ((ceilMultipleU 32 32 s m).toNat : Int) :=
  ceilMultipleU_ok (by decide) s m hm (by simpa using hrep)
theorem floorMultipleU_32 (s m : BitVec 32) (hm : 0 < m.toNat) :
    IsFloorMultiple (s.toNat : Int) (m.toNat : Int) ((floorMultipleU 32 32 s m).toNat : Int) :=
  floorMultipleU_ok (by decide) s m hm
theorem roundMultipleU_32 (s m : BitVec 32) (hm : 0 < m.toNat)
    (hrep : 2 * (s.toNat % m.toNat) < m.toNat ∨ s.toNat - s.toNat % m.toNat + m.toNat < 4294967296) :
    IsRoundMultiple (s.toNat : Int) (m.toNat : Int) ((roundMultipleU 32 32 s m).toNat : Int) :=
  roundMultipleU_ok (by decide) s m hm (by simpa using hrep)
theorem isMultipleU_32 (s m : BitVec 32) (hm : 0 < m.toNat) :
    isMultipleU 32 32 s m = decide (m.toNat ∣ s.toNat) :=
  isMultipleU_ok (by decide) s m hm
example : (ceilMultipleS 32 32 (-7) 4).toInt = -4 ∧ (ceilMultipleS 32 32 7 4).toInt = 8 ∧ (ceilMultipleS 32 32 8 4).toInt = 8 := by decide
example : (floorMultipleS 32 32 (-7) 4).toInt = -8 ∧ (floorMultipleS 32 32 7 4).toInt = 4 ∧ (floorMultipleS 32 32 (-8) 4).toInt = -8 := by decide
example : (roundMultipleS 32 32 7 4).toInt = 8 ∧ (roundMultipleS 32 32 5 4).toInt = 4 ∧ (roundMultipleS 32 32 (-7) 4).toInt = -8 ∧ (roundMultipleS 32 32 (-5) 4).toInt = -4 := by decide
example : (ceilMultipleU 32 32 0 3).toNat = 0 ∧ (ceilMultipleU 32 32 7 3).toNat = 9 ∧ (floorMultipleU 32 32 7 3).toNat = 6 ∧ (roundMultipleU 32 32 7 3).toNat = 6 ∧ (roundMultipleU 32 32 8 3).toNat = 9 := by decide
example : isMultipleS 32 32 (-6) 3 = true ∧ isMultipleS 32 32 7 3 = false ∧ isMultipleU 32 32 6 3 = true := by decide

theorem ceilMultipleS_64 (s m : BitVec 64) (hm : 0 < m.toInt)
    (hrep : ∃ r, IsCeilMultiple s.toInt m.toInt r ∧ r < 9223372036854775808) :
    IsCeilMultiple s.toInt m.toInt (ceilMultipleS 64 64 s m).toInt :=
  ceilMultipleS_ok (by decide) (by decide) s m hm (by simpa using hrep)
theorem floorMultipleS_64 (s m : BitVec 64) (hm : 0 < m.toInt)
    (hrep : ∃ r, IsFloorMultiple s.toInt m.toInt r ∧ -9223372036854775808 ≤ r) :
    IsFloorMultiple s.toInt m.toInt (floorMultipleS 64 64 s m).toInt :=
  floorMultipleS_ok (by decide) (by decide) s m hm (by simpa using hrep)
theorem roundMultipleS_64 (s m : BitVec 64) (hm : 0 < m.toInt)
    (hrep : ∃ l, IsFloorMultiple s.toInt m.toInt l ∧ -9223372036854775808 ≤ l ∧ (2 * (s.toInt - l) < m.toInt ∨ l + m.toInt < 9223372036854775808)) :
    IsRoundMultiple s.toInt m.toInt (roundMultipleS 64 64 s m).toInt :=
  roundMultipleS_ok (by decide) (by decide) s m hm (by simpa using hrep)
theorem isMultipleS_64 (s m : BitVec 64) (hm : 0 < m.toInt) :
    isMultipleS 64 64 s m = decide (m.toInt ∣ s.toInt) :=
  isMultipleS_ok (by decide) (by decide) s m hm
theorem ceilMultipleU_64 (s m : BitVec 64) (hm : 0 < m.toNat)
    (hrep : ∃ r, IsCeilMultiple (s.toNat : Int) (m.toNat : Int) r ∧ r < 18446744073709551616) :
    IsCeilMultiple (s.toNat : Int) (m.toNat : Int) ((ceilMultipleU 64 64 s m).toNat : Int) :=
  ceilMultipleU_ok (by decide) s m hm (by simpa using hrep)
theorem floorMultipleU_64 (s m : BitVec 64) (hm : 0 < m.toNat) :
    IsFloorMultiple (s.toNat : Int) (m.toNat : Int) ((floorMultipleU 64 64 s m).toNat : Int) :=
  floorMultipleU_ok (by decide) s m hm
theorem roundMultipleU_64 (s m : BitVec 64) (hm : 0 < m.toNat)
    (hrep : 2 * (s.toNat % m.toNat) < m.toNat ∨ s.toNat - s.toNat % m.toNat + m.toNat < 18446744073709551616) :
    IsRoundMultiple (s.toNat : Int) (m.toNat : Int) ((roundMultipleU 64 64 s m).toNat : Int) :=
  roundMultipleU_ok (by decide) s m hm (by simpa using hrep)
theorem isMultipleU_64 (s m : BitVec 64) (hm : 0 < m.toNat) :
    isMultipleU 64 64 s m = decide (m.toNat ∣ s.toNat) :=
  isMultipleU_ok (by decide) s m hm
example : (ceilMultipleS 64 64 (-7) 4).toInt = -4 ∧ (ceilMultipleS 64 64 7 4).toInt = 8 ∧ (ceilMultipleS 64 64 8 4).toInt = 8 := by decide
example : (floorMultipleS 64 64 (-7) 4).toInt = -8 ∧ (floorMultipleS 64 64 7 4).toInt = 4 ∧ (floorMultipleS 64 64 (-8) 4).toInt = -8 := by decide
example : (roundMultipleS 64 64 7 4).toInt = 8 ∧ (roundMultipleS 64 64 5 4).toInt = 4 ∧ (roundMultipleS 64 64 (-7) 4).toInt = -8 ∧ (roundMultipleS 64 64 (-5) 4).toInt = -4 := by decide
example : (ceilMultipleU 64 64 0 3).toNat = 0 ∧ (ceilMultipleU 64 64 7 3).toNat = 9 ∧ (floorMultipleU 64 64 7 3).toNat = 6 ∧ (roundMultipleU 64 64 7 3).toNat = 6 ∧ (roundMultipleU 64 64 8 3).toNat = 9 := by decide
example : isMultipleS 64 64 (-6) 3 = true ∧ isMultipleS 64 64 7 3 = false ∧ isMultipleU 64 64 6 3 = true := by decide

/-- the specifications are not vacuous and exclude the neighbours -/
example : IsCeilMultiple 7 4 8 ∧ ¬ IsCeilMultiple 7 4 4 ∧ ¬ IsCeilMultiple 8 4 12 ∧ IsFloorMultiple (-7) 4 (-8) ∧ ¬ IsFloorMultiple (-8) 4 (-12) ∧
    IsRoundMultiple 7 4 8 ∧ ¬ IsRoundMultiple 7 4 4 ∧ IsRoundMultiple 6 4 4 ∧ IsRoundMultiple 6 4 8 := by
  refine ⟨⟨⟨2, rfl⟩, by decide, by decide⟩, ?_, ?_, ⟨⟨-2, rfl⟩, by decide, by decide⟩, ?_, ⟨⟨2, rfl⟩, by decide, by decide⟩, ?_,
    ⟨⟨1, rfl⟩, by decide, by decide⟩, ⟨⟨2, rfl⟩, by decide, by decide⟩⟩
  · rintro ⟨_, h, _⟩; exact absurd h (by decide)
  · rintro ⟨_, _, h⟩; exact absurd h (by decide)
  · rintro ⟨_, _, h⟩; exact absurd h (by decide)
  · rintro ⟨_, _, h⟩; exact absurd h (by decide)

end GlmVerif.C18.Props
