import Mathlib.Tactic.Linarith
import Mathlib.Tactic.Ring
import Mathlib.Tactic.NormNum
import Mathlib.Tactic.Zify
import GlmVerif.Hand.C18
/-!
C18 — gtx/integer.inl sqrt(uint), sqrt(int) (Musial's Newton iteration from x/2): the result is ⌊√x⌋ for ALL inputs
(x ≥ 0 for the signed overload; a negative x is returned unchanged by `if(x <= 1) return x;`).

Proof: (`newton_ge`) a Newton step from any n > 0 never drops below any k with k² ≤ x, so "no k with k² ≤ x exceeds the
trial" is a loop invariant; (`newton_stop`) when the step does not decrease, n² ≤ x; the invariant then gives
(n+1)² > x.  The trial strictly decreases while the loop runs, hence the model's fuel (= x) is never exhausted, and
n + x/n stays below 2^31 + 2^16 + 1 (no wrap-around; for the signed version every value stays below 2^31 so that
sdiv, the arithmetic shift and the signed comparison act like the unsigned ones).
-/
namespace GlmVerif.C18.Props
open GlmVerif.C18

/-- one Newton step never drops below the integer square root -/
theorem newton_ge {x n k : Nat} (hn : 0 < n) (hk : k * k ≤ x) : k ≤ (n + x / n) / 2 := by
  rw [Nat.le_div_iff_mul_le (by decide)]
  by_cases h : k * 2 ≤ n
  · have := Nat.zero_le (x / n); omega
  · have h2 : n ≤ k * 2 := by omega
    have : k * 2 - n ≤ x / n := by
      rw [Nat.le_div_iff_mul_le hn]
      have e : (k * 2 - n) * n ≤ k * k := by
        zify [h2]
        nlinarith [sq_nonneg ((k : Int) - n)]
      omega
    omega
/-- if the step does not decrease, the trial is already a lower root -/
theorem newton_stop {x n : Nat} (hn : 0 < n) (h : n ≤ (n + x / n) / 2) : n * n ≤ x := by
  have h1 : n * 2 ≤ n + x / n := by
    have := (Nat.le_div_iff_mul_le (show 0 < 2 by decide)).mp h; omega
  have h2 : n ≤ x / n := by omega
  exact (Nat.le_div_iff_mul_le hn).mp h2

/-- the loop of sqrt(uint): with the invariant "no smaller number squares above x" the result is ⌊√x⌋ -/
theorem sqrtLoopU_ok (x : BitVec 32) (hx : 0 < x.toNat) :
    ∀ (fuel : Nat) (nx : BitVec 32), 0 < nx.toNat → nx.toNat ≤ fuel → nx.toNat < 2 ^ 31 →
      (∀ k : Nat, k * k ≤ x.toNat → k ≤ nx.toNat) →
      (sqrtLoopU x fuel nx).toNat * (sqrtLoopU x fuel nx).toNat ≤ x.toNat ∧
      x.toNat < ((sqrtLoopU x fuel nx).toNat + 1) * ((sqrtLoopU x fuel nx).toNat + 1) := by
  intro fuel
  induction fuel with
  | zero => intro nx h1 h2; omega
  | succ f ih =>
    intro nx hn hf hlt hinv
    have hX := x.isLt
    -- x / n is small: either n ≥ 2^16, or (n+1)^2 > x
    have hq : x.toNat / nx.toNat ≤ 2 ^ 16 + 1 := by
      by_cases hbig : 2 ^ 16 ≤ nx.toNat
      · have : x.toNat / nx.toNat < 2 ^ 16 := by
          rw [Nat.div_lt_iff_lt_mul hn]
          calc x.toNat < 2 ^ 32 := hX
            _ = 2 ^ 16 * 2 ^ 16 := by norm_num
            _ ≤ 2 ^ 16 * nx.toNat := Nat.mul_le_mul_left _ hbig
        omega
      · have hnot : ¬ ((nx.toNat + 1) * (nx.toNat + 1) ≤ x.toNat) := fun h => by have := hinv _ h; omega
        have : x.toNat / nx.toNat ≤ nx.toNat + 2 := by
          have : x.toNat / nx.toNat < nx.toNat + 3 := by
            rw [Nat.div_lt_iff_lt_mul hn]; nlinarith
          omega
        omega
    have e1 : (x / nx).toNat = x.toNat / nx.toNat := BitVec.toNat_udiv
    have e2 : (nx + x / nx).toNat = nx.toNat + x.toNat / nx.toNat := by
      rw [BitVec.toNat_add, e1]; exact Nat.mod_eq_of_lt (by omega)
    have e3 : ((nx + x / nx) >>> 1).toNat = (nx.toNat + x.toNat / nx.toNat) / 2 := by
      rw [BitVec.toNat_ushiftRight, e2]; rfl
    unfold sqrtLoopU
    simp only
    by_cases hdec : (nx.toNat + x.toNat / nx.toNat) / 2 < nx.toNat
    · have hc : ((nx + x / nx) >>> 1).ult nx = true := by rw [BitVec.ult_iff_toNat_lt, e3]; exact hdec
      rw [if_pos hc]
      have hpos' : 0 < ((nx + x / nx) >>> 1).toNat := by
        rw [e3]; exact newton_ge hn (show 1 * 1 ≤ x.toNat by omega)
      exact ih _ hpos' (by rw [e3]; omega) (by rw [e3]; omega) (fun k hk => by rw [e3]; exact newton_ge hn hk)
    · have hc : ¬ (((nx + x / nx) >>> 1).ult nx = true) := by rw [BitVec.ult_iff_toNat_lt, e3]; exact hdec
      rw [if_neg hc]
      refine ⟨newton_stop hn (by omega), ?_⟩
      by_contra hcon
      have := hinv (nx.toNat + 1) (by omega)
      omega

/-- sqrt(uint x) = ⌊√x⌋ for ALL x -/
theorem sqrtU_ok (x : BitVec 32) : Spec.IsSqrt (x.toNat : Int) ((sqrtU x).toNat : Int) := by
  unfold sqrtU Spec.IsSqrt
  by_cases h1 : x.ule 1 = true
  · rw [if_pos h1]
    rw [BitVec.ule_iff_toNat_le] at h1
    have : x.toNat = 0 ∨ x.toNat = 1 := by
      have : x.toNat ≤ 1 := by simpa using h1
      omega
    rcases this with h | h <;> simp [h]
  · rw [if_neg h1]
    rw [BitVec.ule_iff_toNat_le] at h1
    have hx2 : 2 ≤ x.toNat := by
      have : ¬ x.toNat ≤ 1 := by simpa using h1
      omega
    have hX := x.isLt
    have e0 : (x >>> 1).toNat = x.toNat / 2 := by rw [BitVec.toNat_ushiftRight]; rfl
    have := sqrtLoopU_ok x (by omega) x.toNat (x >>> 1) (by rw [e0]; omega) (by rw [e0]; omega) (by rw [e0]; omega)
      (fun k hk => by
        rw [e0]
        by_contra hc
        have hk2 : x.toNat / 2 + 1 ≤ k := by omega
        have : x.toNat < k * 2 := by omega
        have : 2 ≤ k := by omega
        nlinarith)
    obtain ⟨a, b⟩ := this
    refine ⟨by omega, ?_, ?_⟩
    · exact_mod_cast a
    · exact_mod_cast b

theorem msb_false_of_lt {a : BitVec 32} (h : a.toNat < 2 ^ 31) : a.msb = false :=
  BitVec.msb_eq_false_iff_two_mul_lt.mpr (by omega)
theorem sdiv_toNat_of_nonneg {a b : BitVec 32} (ha : a.toNat < 2 ^ 31) (hb : b.toNat < 2 ^ 31) :
    (a.sdiv b).toNat = a.toNat / b.toNat := by
  rw [BitVec.sdiv_eq, msb_false_of_lt ha, msb_false_of_lt hb]; rfl
theorem slt_of_nonneg {a b : BitVec 32} (ha : a.toNat < 2 ^ 31) (hb : b.toNat < 2 ^ 31) :
    a.slt b = true ↔ a.toNat < b.toNat := by
  rw [BitVec.slt_iff_toInt_lt, BitVec.toInt_eq_toNat_of_msb (msb_false_of_lt ha), BitVec.toInt_eq_toNat_of_msb (msb_false_of_lt hb)]
  omega

/-- the loop of sqrt(int) on a positive x: every value stays below 2^31, so the signed operators act like the
    unsigned ones -/
theorem sqrtLoopS_ok (x : BitVec 32) (hx : 0 < x.toNat) (hxs : x.toNat < 2 ^ 31) :
    ∀ (fuel : Nat) (nx : BitVec 32), 0 < nx.toNat → nx.toNat ≤ fuel → nx.toNat < 2 ^ 30 →
      (∀ k : Nat, k * k ≤ x.toNat → k ≤ nx.toNat) →
      (sqrtLoopS x fuel nx).toNat * (sqrtLoopS x fuel nx).toNat ≤ x.toNat ∧
      x.toNat < ((sqrtLoopS x fuel nx).toNat + 1) * ((sqrtLoopS x fuel nx).toNat + 1) ∧
      (sqrtLoopS x fuel nx).toNat < 2 ^ 30 := by
  intro fuel
  induction fuel with
  | zero => intro nx h1 h2; omega
  | succ f ih =>
    intro nx hn hf hlt hinv
    have hq : x.toNat / nx.toNat ≤ 2 ^ 16 + 1 := by
      by_cases hbig : 2 ^ 16 ≤ nx.toNat
      · have : x.toNat / nx.toNat < 2 ^ 16 := by
          rw [Nat.div_lt_iff_lt_mul hn]
          calc x.toNat < 2 ^ 32 := by omega
            _ = 2 ^ 16 * 2 ^ 16 := by norm_num
            _ ≤ 2 ^ 16 * nx.toNat := Nat.mul_le_mul_left _ hbig
        omega
      · have hnot : ¬ ((nx.toNat + 1) * (nx.toNat + 1) ≤ x.toNat) := fun h => by have := hinv _ h; omega
        have : x.toNat / nx.toNat < nx.toNat + 3 := by
          rw [Nat.div_lt_iff_lt_mul hn]; nlinarith
        omega
    have e1 : (x.sdiv nx).toNat = x.toNat / nx.toNat := sdiv_toNat_of_nonneg hxs (by omega)
    have e2 : (nx + x.sdiv nx).toNat = nx.toNat + x.toNat / nx.toNat := by
      rw [BitVec.toNat_add, e1]; exact Nat.mod_eq_of_lt (by omega)
    have e3 : ((nx + x.sdiv nx).sshiftRight 1).toNat = (nx.toNat + x.toNat / nx.toNat) / 2 := by
      rw [BitVec.sshiftRight_eq_of_msb_false (msb_false_of_lt (by rw [e2]; omega)), BitVec.toNat_ushiftRight, e2]; rfl
    have hlt3 : ((nx + x.sdiv nx).sshiftRight 1).toNat < 2 ^ 31 := by rw [e3]; omega
    unfold sqrtLoopS
    simp only
    by_cases hdec : (nx.toNat + x.toNat / nx.toNat) / 2 < nx.toNat
    · have hc : ((nx + x.sdiv nx).sshiftRight 1).slt nx = true := by
        rw [slt_of_nonneg hlt3 (by omega), e3]; exact hdec
      rw [if_pos hc]
      have hpos' : 0 < ((nx + x.sdiv nx).sshiftRight 1).toNat := by
        rw [e3]; exact newton_ge hn (show 1 * 1 ≤ x.toNat by omega)
      exact ih _ hpos' (by rw [e3]; omega) (by rw [e3]; omega) (fun k hk => by rw [e3]; exact newton_ge hn hk)
    · have hc : ¬ (((nx + x.sdiv nx).sshiftRight 1).slt nx = true) := by
        rw [slt_of_nonneg hlt3 (by omega), e3]; exact hdec
      rw [if_neg hc]
      refine ⟨newton_stop hn (by omega), ?_, hlt⟩
      by_contra hcon
      have := hinv (nx.toNat + 1) (by omega)
      omega

/-- sqrt(int x) = ⌊√x⌋ for ALL x ≥ 0 -/
theorem sqrtS_ok (x : BitVec 32) (hx : 0 ≤ x.toInt) : Spec.IsSqrt x.toInt (sqrtS x).toInt := by
  have hxs : x.toNat < 2 ^ 31 := by
    have := x.isLt
    rw [BitVec.toInt_eq_toNat_cond] at hx
    split at hx <;> omega
  have hxi : x.toInt = x.toNat := BitVec.toInt_eq_toNat_of_msb (msb_false_of_lt hxs)
  unfold sqrtS Spec.IsSqrt
  by_cases h1 : x.sle 1 = true
  · rw [if_pos h1]
    rw [BitVec.sle_iff_toInt_le, hxi] at h1
    have h1' : (x.toNat : Int) ≤ 1 := by simpa using h1
    have : x.toNat = 0 ∨ x.toNat = 1 := by omega
    rw [hxi]
    rcases this with h | h <;> simp [h]
  · rw [if_neg h1]
    rw [BitVec.sle_iff_toInt_le, hxi] at h1
    have hx2 : 2 ≤ x.toNat := by
      have : ¬ (x.toNat : Int) ≤ 1 := by simpa using h1
      omega
    have e0 : (x.sshiftRight 1).toNat = x.toNat / 2 := by
      rw [BitVec.sshiftRight_eq_of_msb_false (msb_false_of_lt hxs), BitVec.toNat_ushiftRight]; rfl
    have := sqrtLoopS_ok x (by omega) hxs x.toNat (x.sshiftRight 1) (by rw [e0]; omega) (by rw [e0]; omega) (by rw [e0]; omega)
      (fun k hk => by
        rw [e0]
        by_contra hc
        have hk2 : x.toNat / 2 + 1 ≤ k := by omega
        have : x.toNat < k * 2 := by omega
        have : 2 ≤ k := by omega
        nlinarith)
    obtain ⟨a, b, c⟩ := this
    have hri : (sqrtLoopS x x.toNat (x.sshiftRight 1)).toInt = (sqrtLoopS x x.toNat (x.sshiftRight 1)).toNat :=
      BitVec.toInt_eq_toNat_of_msb (msb_false_of_lt (by omega))
    rw [hri, hxi]
    refine ⟨by omega, ?_, ?_⟩
    · exact_mod_cast a
    · exact_mod_cast b
example : sqrtU 0xFFFFFFFF#32 = 65535 ∧ sqrtS 0x7FFFFFFF#32 = 46340 ∧ sqrtU 16 = 4 ∧ sqrtU 15 = 3 := by decide +kernel
example : Spec.IsSqrt 15 3 ∧ ¬ Spec.IsSqrt 16 3 := by unfold Spec.IsSqrt; omega
end GlmVerif.C18.Props
