import Std.Tactic.BVDecide
import GlmVerif.Hand.C18
/-!
C18 — bitfieldInterleave / bitfieldDeinterleave (gtc/bitfield.inl).

For every overload: the magic-mask ladder equals the bit-by-bit specification "bit i of the k-th of n arguments lands
at bit n·i + k" (`Spec.interleave2/3/4`), for ALL inputs; `bitfieldDeinterleave` equals "bit i of component k is bit
2·i + k" and inverts the two-operand interleave.  The 3×32 overload returns 64 bits: bits that would land beyond bit
63 are dropped (x keeps bits 0…21, y and z bits 0…20) — that is what `Spec.interleave3 32` says, too.
The signed and the vector overloads only reinterpret the bits (unions) and call these; they are covered by the
correspondence (diff/C18.cpp ops il*@i, il*@v).
-/
namespace GlmVerif.C18.Props
open GlmVerif.C18

macro "il_unfold" : tactic => `(tactic| simp only [
  interleave2x8, interleave2x16, interleave2x32, spread3x8, interleave3x8, spread3x32, interleave3x32, interleave3x16,
  spread4x8, interleave4x8, spread4x16, interleave4x16,
  squeeze16, squeeze32, squeeze64, deinterleave16x, deinterleave16y, deinterleave32x, deinterleave32y, deinterleave64x, deinterleave64y,
  Spec.spreadArg, Spec.interleave2, Spec.interleave3, Spec.interleave4, Spec.gather2,
  Nat.reduceLeDiff, Nat.reduceSub, Nat.reduceAdd, Nat.reduceMul, Nat.reduceDiv, reduceIte, Nat.reduceLT, Nat.toUInt64_eq, UInt64.reduceOfNat] at *)

theorem interleave2x8_ok (x y : UInt8) : (interleave2x8 x y).toUInt64 = Spec.interleave2 8 x.toUInt64 y.toUInt64 := by
  il_unfold; bv_decide (config := { timeout := 600 })
theorem interleave2x16_ok (x y : UInt16) : (interleave2x16 x y).toUInt64 = Spec.interleave2 16 x.toUInt64 y.toUInt64 := by
  il_unfold; bv_decide (config := { timeout := 600 })
theorem interleave2x32_ok (x y : UInt32) : interleave2x32 x y = Spec.interleave2 32 x.toUInt64 y.toUInt64 := by
  il_unfold; bv_decide (config := { timeout := 600 })
theorem interleave3x8_ok (x y z : UInt8) : (interleave3x8 x y z).toUInt64 = Spec.interleave3 8 x.toUInt64 y.toUInt64 z.toUInt64 := by
  il_unfold; bv_decide (config := { timeout := 600 })
theorem interleave3x16_ok (x y z : UInt16) : interleave3x16 x y z = Spec.interleave3 16 x.toUInt64 y.toUInt64 z.toUInt64 := by
  il_unfold; bv_decide (config := { timeout := 600 })
theorem interleave3x32_ok (x y z : UInt32) : interleave3x32 x y z = Spec.interleave3 32 x.toUInt64 y.toUInt64 z.toUInt64 := by
  il_unfold; bv_decide (config := { timeout := 600 })
theorem interleave4x8_ok (x y z w : UInt8) :
    (interleave4x8 x y z w).toUInt64 = Spec.interleave4 8 x.toUInt64 y.toUInt64 z.toUInt64 w.toUInt64 := by
  il_unfold; bv_decide (config := { timeout := 600 })
theorem interleave4x16_ok (x y z w : UInt16) :
    interleave4x16 x y z w = Spec.interleave4 16 x.toUInt64 y.toUInt64 z.toUInt64 w.toUInt64 := by
  il_unfold; bv_decide (config := { timeout := 600 })

example : interleave2x8 0xFF 0x00 = 0x5555 ∧ interleave2x8 0x00 0xFF = 0xAAAA ∧ interleave2x8 0x0F 0x01 = 0x0057 := by decide
example : Spec.interleave2 8 0x0F 0x01 = 0x57 ∧ Spec.interleave3 8 1 1 1 = 7 ∧ Spec.interleave4 8 2 0 0 2 = 0x90 := by decide
example : interleave3x32 0x200000 0 0 = 0x8000000000000000 ∧ interleave3x32 0x400000 0 0 = 0 ∧ interleave3x32 0 0x200000 0 = 0 := by decide

theorem deinterleave16_ok (v : UInt16) :
    (deinterleave16x v).toUInt64 = Spec.gather2 0 v.toUInt64 8 ∧ (deinterleave16y v).toUInt64 = Spec.gather2 1 v.toUInt64 8 := by
  il_unfold; constructor <;> bv_decide (config := { timeout := 600 })
theorem deinterleave32_ok (v : UInt32) :
    (deinterleave32x v).toUInt64 = Spec.gather2 0 v.toUInt64 16 ∧ (deinterleave32y v).toUInt64 = Spec.gather2 1 v.toUInt64 16 := by
  il_unfold; constructor <;> bv_decide (config := { timeout := 600 })
theorem deinterleave64_ok (v : UInt64) :
    (deinterleave64x v).toUInt64 = Spec.gather2 0 v 32 ∧ (deinterleave64y v).toUInt64 = Spec.gather2 1 v 32 := by
  il_unfold; constructor <;> bv_decide (config := { timeout := 600 })

/-- bitfieldDeinterleave ∘ bitfieldInterleave = id -/
theorem deinterleave_interleave_8 (x y : UInt8) :
    deinterleave16x (interleave2x8 x y) = x ∧ deinterleave16y (interleave2x8 x y) = y := by
  il_unfold; constructor <;> bv_decide (config := { timeout := 600 })
theorem deinterleave_interleave_16 (x y : UInt16) :
    deinterleave32x (interleave2x16 x y) = x ∧ deinterleave32y (interleave2x16 x y) = y := by
  il_unfold; constructor <;> bv_decide (config := { timeout := 600 })
theorem deinterleave_interleave_32 (x y : UInt32) :
    deinterleave64x (interleave2x32 x y) = x ∧ deinterleave64y (interleave2x32 x y) = y := by
  il_unfold; constructor <;> bv_decide (config := { timeout := 600 })
/-- and the other way round: interleave ∘ deinterleave = id -/
theorem interleave_deinterleave_16 (v : UInt16) : interleave2x8 (deinterleave16x v) (deinterleave16y v) = v := by
  il_unfold; bv_decide (config := { timeout := 600 })
theorem interleave_deinterleave_32 (v : UInt32) : interleave2x16 (deinterleave32x v) (deinterleave32y v) = v := by
  il_unfold; bv_decide (config := { timeout := 600 })
theorem interleave_deinterleave_64 (v : UInt64) : interleave2x32 (deinterleave64x v) (deinterleave64y v) = v := by
  il_unfold; bv_decide (config := { timeout := 600 })

example : deinterleave16x 0x0057 = 0x0F ∧ deinterleave16y 0x0057 = 0x01 := by decide

end GlmVerif.C18.Props
