/-
  C05 — GLSL integer and bit-field functions return the specified exact result.

  The theorems live in the sub-modules (built in parallel):
    Props/C05/Count.lean   bitCount, findLSB, findMSB            (8 element types each, bv_decide (config := { timeout := 180 }))
    Props/C05/Field.lean   bitfieldReverse, bitfieldExtract, bitfieldInsert (8 types each, bv_decide (config := { timeout := 180 }); documented
                           domain of (offset, bits) as hypothesis) + "no shift by the full width on the domain"
    Props/C05/Carry.lean   uaddCarry, usubBorrow, umulExtended, imulExtended in ℕ / ℤ, scalar and vector forms;
                           the usubBorrow defect (negation + exact partial statement)
    Props/C05/Dec8U.lean, Dec8I.lean   the 8-bit instances again by kernel evaluation (no SAT certificate)
  This file: the domain predicate in ℤ, sanity of the specification itself, and one non-vacuity example per theorem
  family (the hypotheses are satisfiable and the functions are not constant on them).
-/
import GlmVerif.Props.C05.Count
import GlmVerif.Props.C05.Field
import GlmVerif.Props.C05.Carry
import GlmVerif.Props.C05.Dec8U
import GlmVerif.Props.C05.Dec8I
namespace GlmVerif.C05
open Spec

/-- `Spec.inDomain` is the documented domain "0 ≤ offset, 0 ≤ bits, offset + bits ≤ w" stated in ℤ (w ≤ 64) -/
theorem inDomain_iff (w o b : Int32) (hw0 : 0 ≤ w.toInt) (hw : w.toInt ≤ 64) :
    inDomain w o b = true ↔ (0 ≤ o.toInt ∧ 0 ≤ b.toInt ∧ o.toInt + b.toInt ≤ w.toInt) := by
  have ho1 := o.le_toInt; have ho2 := o.toInt_lt
  have hb1 := b.le_toInt; have hb2 := b.toInt_lt
  simp only [inDomain, Bool.and_eq_true, decide_eq_true_eq, Int32.le_iff_toInt_le, Int32.toInt_zero]
  constructor
  · rintro ⟨⟨⟨⟨h1, h2⟩, h3⟩, h4⟩, h5⟩
    rw [Int32.toInt_add] at h5
    have : (o.toInt + b.toInt).bmod (2^32) = o.toInt + b.toInt := by
      simp only [Int.bmod]; omega
    omega
  · rintro ⟨h1, h2, h3⟩
    have : (o.toInt + b.toInt).bmod (2^32) = o.toInt + b.toInt := by
      simp only [Int.bmod]; omega
    rw [Int32.toInt_add, this]
    omega

/-! ### the specification computes what the GLSL text says on hand-checked values -/
example : Spec.bitCount 8 0xF1 = 5 ∧ Spec.bitCount 64 0xFFFFFFFFFFFFFFFF = 64 ∧ Spec.bitCount 32 0 = 0 := by decide +kernel
example : Spec.findLSB 32 0x80000000 = 31 ∧ Spec.findLSB 16 0 = -1 ∧ Spec.findLSB 8 0x0C = 2 := by decide +kernel
example : Spec.findMSB false 32 0xFFFFFFFE = 31 ∧ Spec.findMSB true 32 0xFFFFFFFE = 0 ∧
    Spec.findMSB true 32 0xFFFFFFFF = -1 ∧ Spec.findMSB true 32 0 = -1 ∧ Spec.findMSB true 8 0x7F = 6 ∧
    Spec.findMSB true 64 0xFFFFFFFFFFFFFFFB = 2 := by decide +kernel
example : Spec.reverse 8 0x13 = 0xC8 ∧ Spec.reverse 32 0x80000000 = 1 ∧ Spec.reverse 16 0x0001 = 0x8000 := by decide +kernel
example : Spec.extract false 32 0xF0 4 4 = 0xF ∧ Spec.extract true 32 0xF0 4 4 = 0xFFFFFFFF ∧
    Spec.extract true 8 0xF0 4 0 = 0 ∧ Spec.extract false 64 0xFFFFFFFFFFFFFFFF 0 33 = 0x1FFFFFFFF ∧
    Spec.extract true 32 0x70 4 4 = 7 ∧ Spec.extract false 32 0xFFFFFFFF 32 0 = 0 := by decide +kernel
example : Spec.insert 32 0x12345678 0xFFFFFFFF 8 8 = 0x1234FF78 ∧ Spec.insert 32 0x12345678 0xFFFFFFFF 32 0 = 0x12345678 ∧
    Spec.insert 8 0 0xFF 0 8 = 0xFF ∧ Spec.insert 16 0xFFFF 0 4 8 = 0xF00F := by decide +kernel
example : Spec.uaddSum 0xFFFFFFFF 1 = 0 ∧ Spec.uaddCarry 0xFFFFFFFF 1 = 1 ∧ Spec.uaddCarry 1 2 = 0 := by decide +kernel
example : Spec.usubDiff 16 17 = 0xFFFFFFFF ∧ Spec.usubBorrow 16 17 = 1 ∧ Spec.usubDiff 17 16 = 1 ∧ Spec.usubBorrow 17 16 = 0 := by decide +kernel
example : Spec.umulMsb 0xFFFFFFFF 0xFFFFFFFF = 0xFFFFFFFE ∧ Spec.umulLsb 0xFFFFFFFF 0xFFFFFFFF = 1 := by decide +kernel
example : Spec.imulMsb (-3) 5 = -1 ∧ Spec.imulLsb (-3) 5 = 0xFFFFFFF1 := by decide +kernel

/-! ### non-vacuity: the model on concrete arguments (these are also the probes run on the real code) -/
example : bitCount_I8 (-1) = 8 ∧ bitCount_U64 0xFFFFFFFFFFFFFFFF = 64 ∧ bitCount_U16 0x0101 = 2 := by decide +kernel
example : findLSB_I32 (-2147483648) = 31 ∧ findLSB_I8 (-128) = 7 ∧ findLSB_U8 0 = -1 := by decide +kernel
example : findMSB_I32 (-2) = 0 ∧ findMSB_I32 (-1) = -1 ∧ findMSB_I64 (-5) = 2 ∧ findMSB_U32 0x80000000 = 31 ∧
    findMSB_I8 0 = -1 := by decide +kernel
example : bitfieldReverse_I32 (-2147483648) = 1 ∧ bitfieldReverse_I8 (-128) = 1 ∧ bitfieldReverse_U8 0x13 = 0xC8 := by decide +kernel
example : inDomain 32 4 4 = true ∧ bitfieldExtract_I32 0xF0 4 4 = -1 ∧ bitfieldExtract_U32 0xF0 4 4 = 15 ∧
    inDomain 64 0 33 = true ∧ bitfieldExtract_U64 0xFFFFFFFFFFFFFFFF 0 33 = 0x1FFFFFFFF ∧
    inDomain 32 32 0 = true ∧ bitfieldExtract_U32 0xFFFFFFFF 32 0 = 0 ∧
    inDomain 32 0 32 = true ∧ bitfieldExtract_U32 0xFFFFFFFF 0 32 = 0xFFFFFFFF := by decide +kernel
example : inDomain 32 8 8 = true ∧ bitfieldInsert_U32 0x12345678 0xFFFFFFFF 8 8 = 0x1234FF78 ∧
    inDomain 8 0 8 = true ∧ bitfieldInsert_I8 0 (-1) 0 8 = -1 ∧
    inDomain 64 64 0 = true ∧ bitfieldInsert_U64 5 0xFFFFFFFFFFFFFFFF 64 0 = 5 := by decide +kernel
example : inDomain 32 33 0 = false ∧ inDomain 32 (-1) 2 = false ∧ inDomain 32 2147483647 2147483647 = false := by decide +kernel
example : (decide ((4 : Int32) ≤ 0)) = false ∧ inDomain 32 28 4 = true := by decide +kernel
example : uaddCarry_res 0xFFFFFFFF 2 = 1 ∧ uaddCarry_carry 0xFFFFFFFF 2 = 1 ∧ uaddCarry_carry 1 2 = 0 := by decide +kernel
example : usubBorrow_res 16 17 = 1 ∧ usubBorrow_borrow 16 17 = 1 ∧ usubBorrow_res 17 16 = 0xFFFFFFFF := by decide +kernel
example : umulExtended_msb 0xFFFFFFFF 0xFFFFFFFF = 0xFFFFFFFE ∧ umulExtended_lsb 0xFFFFFFFF 0xFFFFFFFF = 1 := by decide +kernel
example : imulExtended_msb (-3) 5 = -1 ∧ imulExtended_lsb (-3) 5 = -15 ∧ imulExtendedV_msb (-3) 5 = -1 := by decide +kernel

end GlmVerif.C05
