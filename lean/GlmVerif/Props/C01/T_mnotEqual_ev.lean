import GlmVerif.Spec.C01
import GlmVerif.Gen.C01.mnotEqual_ev
/-! table check of family `mnotEqual_ev` against the model of its units generated from /repo (kernel evaluation) -/
namespace Glm.Props.C01
open Glm Glm.Spec.C01 Glm.Gen.C01
set_option maxHeartbeats 4000000 in
theorem mnotEqual_ev_ok : f_mnotEqual_ev.ok (fun _ ks => mnotEqual_ev_L ks) = true := by decide +kernel
end Glm.Props.C01
