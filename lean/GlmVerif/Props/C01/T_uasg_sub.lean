import GlmVerif.Spec.C01
import GlmVerif.Gen.C01.uasg_sub
/-! table check of family `uasg_sub` against the model of its units generated from /repo (kernel evaluation) -/
namespace Glm.Props.C01
open Glm Glm.Spec.C01 Glm.Gen.C01
set_option maxHeartbeats 4000000 in
theorem uasg_sub_ok : f_uasg_sub.ok (fun _ ks => uasg_sub_L ks) = true := by decide +kernel
end Glm.Props.C01
