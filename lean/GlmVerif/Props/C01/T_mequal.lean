import GlmVerif.Spec.C01
import GlmVerif.Gen.C01.mequal
/-! table check of family `mequal` against the model of its units generated from /repo (kernel evaluation) -/
namespace Glm.Props.C01
open Glm Glm.Spec.C01 Glm.Gen.C01
set_option maxHeartbeats 4000000 in
theorem mequal_ok : f_mequal.ok (fun _ ks => mequal_L ks) = true := by decide +kernel
end Glm.Props.C01
