import GlmVerif.Gen.C01
import GlmVerif.Props.C01.T_op_add
import GlmVerif.Props.C01.T_op_sub
import GlmVerif.Props.C01.T_op_mul
import GlmVerif.Props.C01.T_op_div
import GlmVerif.Props.C01.T_asg_add
import GlmVerif.Props.C01.T_asg_sub
import GlmVerif.Props.C01.T_asg_mul
import GlmVerif.Props.C01.T_asg_div
import GlmVerif.Props.C01.T_op_neg
import GlmVerif.Props.C01.T_op_preinc
import GlmVerif.Props.C01.T_op_postdec
import GlmVerif.Props.C01.T_rel_lessThan
import GlmVerif.Props.C01.T_rel_lessThanEqual
import GlmVerif.Props.C01.T_rel_greaterThan
import GlmVerif.Props.C01.T_rel_greaterThanEqual
import GlmVerif.Props.C01.T_rel_equal
import GlmVerif.Props.C01.T_rel_notEqual
import GlmVerif.Props.C01.T_iop_add
import GlmVerif.Props.C01.T_iop_sub
import GlmVerif.Props.C01.T_iop_mul
import GlmVerif.Props.C01.T_iop_and
import GlmVerif.Props.C01.T_iop_or
import GlmVerif.Props.C01.T_iop_xor
import GlmVerif.Props.C01.T_iop_shl
import GlmVerif.Props.C01.T_iop_shr
import GlmVerif.Props.C01.T_uop_add
import GlmVerif.Props.C01.T_uop_sub
import GlmVerif.Props.C01.T_uop_mul
import GlmVerif.Props.C01.T_uop_and
import GlmVerif.Props.C01.T_uop_or
import GlmVerif.Props.C01.T_uop_xor
import GlmVerif.Props.C01.T_uop_shl
import GlmVerif.Props.C01.T_uop_shr
import GlmVerif.Props.C01.T_iop_neg
import GlmVerif.Props.C01.T_iop_not
import GlmVerif.Props.C01.T_iop_mod
import GlmVerif.Props.C01.T_iasg_add
import GlmVerif.Props.C01.T_iasg_sub
import GlmVerif.Props.C01.T_iasg_mul
import GlmVerif.Props.C01.T_iasg_and
import GlmVerif.Props.C01.T_iasg_or
import GlmVerif.Props.C01.T_iasg_xor
import GlmVerif.Props.C01.T_iasg_shl
import GlmVerif.Props.C01.T_iasg_shr
import GlmVerif.Props.C01.T_iasg_mod
import GlmVerif.Props.C01.T_uop_mod
import GlmVerif.Props.C01.T_uasg_add
import GlmVerif.Props.C01.T_uasg_sub
import GlmVerif.Props.C01.T_uasg_mul
import GlmVerif.Props.C01.T_uasg_and
import GlmVerif.Props.C01.T_uasg_or
import GlmVerif.Props.C01.T_uasg_xor
import GlmVerif.Props.C01.T_uasg_shl
import GlmVerif.Props.C01.T_uasg_shr
import GlmVerif.Props.C01.T_uasg_mod
import GlmVerif.Props.C01.T_mabs
import GlmVerif.Props.C01.T_mabsJ
import GlmVerif.Props.C01.T_mequal
import GlmVerif.Props.C01.T_mnotEqual
import GlmVerif.Props.C01.T_mequal_e
import GlmVerif.Props.C01.T_mnotEqual_e
import GlmVerif.Props.C01.T_mequal_ev
import GlmVerif.Props.C01.T_mnotEqual_ev
import GlmVerif.Props.C01.T_mequalJ
import GlmVerif.Props.C01.T_mnotEqualJ
import GlmVerif.Props.C01.T_mequalJ_e
import GlmVerif.Props.C01.T_mnotEqualJ_e
import GlmVerif.Props.C01.T_mequalJ_ev
import GlmVerif.Props.C01.T_mnotEqualJ_ev
import GlmVerif.Props.C01.T_mmixs
import GlmVerif.Props.C01.T_mmixm
/-! every family table of C01 holds for the model generated from the current /repo -/
namespace Glm.Props.C01
open Glm Glm.Spec.C01 Glm.Gen.C01
theorem all_ok : ∀ f ∈ families, f.ok lookup = true := by
  simp only [families, List.mem_cons, List.not_mem_nil, or_false, forall_eq_or_imp, forall_eq]
  exact ⟨(Family.ok_congr f_op_add (fun ks => by rw [show f_op_add.unit = "op_add" from rfl, lookup_op_add])).trans op_add_ok,
    (Family.ok_congr f_op_sub (fun ks => by rw [show f_op_sub.unit = "op_sub" from rfl, lookup_op_sub])).trans op_sub_ok,
    (Family.ok_congr f_op_mul (fun ks => by rw [show f_op_mul.unit = "op_mul" from rfl, lookup_op_mul])).trans op_mul_ok,
    (Family.ok_congr f_op_div (fun ks => by rw [show f_op_div.unit = "op_div" from rfl, lookup_op_div])).trans op_div_ok,
    (Family.ok_congr f_asg_add (fun ks => by rw [show f_asg_add.unit = "asg_add" from rfl, lookup_asg_add])).trans asg_add_ok,
    (Family.ok_congr f_asg_sub (fun ks => by rw [show f_asg_sub.unit = "asg_sub" from rfl, lookup_asg_sub])).trans asg_sub_ok,
    (Family.ok_congr f_asg_mul (fun ks => by rw [show f_asg_mul.unit = "asg_mul" from rfl, lookup_asg_mul])).trans asg_mul_ok,
    (Family.ok_congr f_asg_div (fun ks => by rw [show f_asg_div.unit = "asg_div" from rfl, lookup_asg_div])).trans asg_div_ok,
    (Family.ok_congr f_op_neg (fun ks => by rw [show f_op_neg.unit = "op_neg" from rfl, lookup_op_neg])).trans op_neg_ok,
    (Family.ok_congr f_op_preinc (fun ks => by rw [show f_op_preinc.unit = "op_preinc" from rfl, lookup_op_preinc])).trans op_preinc_ok,
    (Family.ok_congr f_op_postdec (fun ks => by rw [show f_op_postdec.unit = "op_postdec" from rfl, lookup_op_postdec])).trans op_postdec_ok,
    (Family.ok_congr f_rel_lessThan (fun ks => by rw [show f_rel_lessThan.unit = "rel_lessThan" from rfl, lookup_rel_lessThan])).trans rel_lessThan_ok,
    (Family.ok_congr f_rel_lessThanEqual (fun ks => by rw [show f_rel_lessThanEqual.unit = "rel_lessThanEqual" from rfl, lookup_rel_lessThanEqual])).trans rel_lessThanEqual_ok,
    (Family.ok_congr f_rel_greaterThan (fun ks => by rw [show f_rel_greaterThan.unit = "rel_greaterThan" from rfl, lookup_rel_greaterThan])).trans rel_greaterThan_ok,
    (Family.ok_congr f_rel_greaterThanEqual (fun ks => by rw [show f_rel_greaterThanEqual.unit = "rel_greaterThanEqual" from rfl, lookup_rel_greaterThanEqual])).trans rel_greaterThanEqual_ok,
    (Family.ok_congr f_rel_equal (fun ks => by rw [show f_rel_equal.unit = "rel_equal" from rfl, lookup_rel_equal])).trans rel_equal_ok,
    (Family.ok_congr f_rel_notEqual (fun ks => by rw [show f_rel_notEqual.unit = "rel_notEqual" from rfl, lookup_rel_notEqual])).trans rel_notEqual_ok,
    (Family.ok_congr f_iop_add (fun ks => by rw [show f_iop_add.unit = "iop_add" from rfl, lookup_iop_add])).trans iop_add_ok,
    (Family.ok_congr f_iop_sub (fun ks => by rw [show f_iop_sub.unit = "iop_sub" from rfl, lookup_iop_sub])).trans iop_sub_ok,
    (Family.ok_congr f_iop_mul (fun ks => by rw [show f_iop_mul.unit = "iop_mul" from rfl, lookup_iop_mul])).trans iop_mul_ok,
    (Family.ok_congr f_iop_and (fun ks => by rw [show f_iop_and.unit = "iop_and" from rfl, lookup_iop_and])).trans iop_and_ok,
    (Family.ok_congr f_iop_or (fun ks => by rw [show f_iop_or.unit = "iop_or" from rfl, lookup_iop_or])).trans iop_or_ok,
    (Family.ok_congr f_iop_xor (fun ks => by rw [show f_iop_xor.unit = "iop_xor" from rfl, lookup_iop_xor])).trans iop_xor_ok,
    (Family.ok_congr f_iop_shl (fun ks => by rw [show f_iop_shl.unit = "iop_shl" from rfl, lookup_iop_shl])).trans iop_shl_ok,
    (Family.ok_congr f_iop_shr (fun ks => by rw [show f_iop_shr.unit = "iop_shr" from rfl, lookup_iop_shr])).trans iop_shr_ok,
    (Family.ok_congr f_uop_add (fun ks => by rw [show f_uop_add.unit = "uop_add" from rfl, lookup_uop_add])).trans uop_add_ok,
    (Family.ok_congr f_uop_sub (fun ks => by rw [show f_uop_sub.unit = "uop_sub" from rfl, lookup_uop_sub])).trans uop_sub_ok,
    (Family.ok_congr f_uop_mul (fun ks => by rw [show f_uop_mul.unit = "uop_mul" from rfl, lookup_uop_mul])).trans uop_mul_ok,
    (Family.ok_congr f_uop_and (fun ks => by rw [show f_uop_and.unit = "uop_and" from rfl, lookup_uop_and])).trans uop_and_ok,
    (Family.ok_congr f_uop_or (fun ks => by rw [show f_uop_or.unit = "uop_or" from rfl, lookup_uop_or])).trans uop_or_ok,
    (Family.ok_congr f_uop_xor (fun ks => by rw [show f_uop_xor.unit = "uop_xor" from rfl, lookup_uop_xor])).trans uop_xor_ok,
    (Family.ok_congr f_uop_shl (fun ks => by rw [show f_uop_shl.unit = "uop_shl" from rfl, lookup_uop_shl])).trans uop_shl_ok,
    (Family.ok_congr f_uop_shr (fun ks => by rw [show f_uop_shr.unit = "uop_shr" from rfl, lookup_uop_shr])).trans uop_shr_ok,
    (Family.ok_congr f_iop_neg (fun ks => by rw [show f_iop_neg.unit = "iop_neg" from rfl, lookup_iop_neg])).trans iop_neg_ok,
    (Family.ok_congr f_iop_not (fun ks => by rw [show f_iop_not.unit = "iop_not" from rfl, lookup_iop_not])).trans iop_not_ok,
    (Family.ok_congr f_iop_mod (fun ks => by rw [show f_iop_mod.unit = "iop_mod" from rfl, lookup_iop_mod])).trans iop_mod_ok,
    (Family.ok_congr f_iasg_add (fun ks => by rw [show f_iasg_add.unit = "iasg_add" from rfl, lookup_iasg_add])).trans iasg_add_ok,
    (Family.ok_congr f_iasg_sub (fun ks => by rw [show f_iasg_sub.unit = "iasg_sub" from rfl, lookup_iasg_sub])).trans iasg_sub_ok,
    (Family.ok_congr f_iasg_mul (fun ks => by rw [show f_iasg_mul.unit = "iasg_mul" from rfl, lookup_iasg_mul])).trans iasg_mul_ok,
    (Family.ok_congr f_iasg_and (fun ks => by rw [show f_iasg_and.unit = "iasg_and" from rfl, lookup_iasg_and])).trans iasg_and_ok,
    (Family.ok_congr f_iasg_or (fun ks => by rw [show f_iasg_or.unit = "iasg_or" from rfl, lookup_iasg_or])).trans iasg_or_ok,
    (Family.ok_congr f_iasg_xor (fun ks => by rw [show f_iasg_xor.unit = "iasg_xor" from rfl, lookup_iasg_xor])).trans iasg_xor_ok,
    (Family.ok_congr f_iasg_shl (fun ks => by rw [show f_iasg_shl.unit = "iasg_shl" from rfl, lookup_iasg_shl])).trans iasg_shl_ok,
    (Family.ok_congr f_iasg_shr (fun ks => by rw [show f_iasg_shr.unit = "iasg_shr" from rfl, lookup_iasg_shr])).trans iasg_shr_ok,
    (Family.ok_congr f_iasg_mod (fun ks => by rw [show f_iasg_mod.unit = "iasg_mod" from rfl, lookup_iasg_mod])).trans iasg_mod_ok,
    (Family.ok_congr f_uop_mod (fun ks => by rw [show f_uop_mod.unit = "uop_mod" from rfl, lookup_uop_mod])).trans uop_mod_ok,
    (Family.ok_congr f_uasg_add (fun ks => by rw [show f_uasg_add.unit = "uasg_add" from rfl, lookup_uasg_add])).trans uasg_add_ok,
    (Family.ok_congr f_uasg_sub (fun ks => by rw [show f_uasg_sub.unit = "uasg_sub" from rfl, lookup_uasg_sub])).trans uasg_sub_ok,
    (Family.ok_congr f_uasg_mul (fun ks => by rw [show f_uasg_mul.unit = "uasg_mul" from rfl, lookup_uasg_mul])).trans uasg_mul_ok,
    (Family.ok_congr f_uasg_and (fun ks => by rw [show f_uasg_and.unit = "uasg_and" from rfl, lookup_uasg_and])).trans uasg_and_ok,
    (Family.ok_congr f_uasg_or (fun ks => by rw [show f_uasg_or.unit = "uasg_or" from rfl, lookup_uasg_or])).trans uasg_or_ok,
    (Family.ok_congr f_uasg_xor (fun ks => by rw [show f_uasg_xor.unit = "uasg_xor" from rfl, lookup_uasg_xor])).trans uasg_xor_ok,
    (Family.ok_congr f_uasg_shl (fun ks => by rw [show f_uasg_shl.unit = "uasg_shl" from rfl, lookup_uasg_shl])).trans uasg_shl_ok,
    (Family.ok_congr f_uasg_shr (fun ks => by rw [show f_uasg_shr.unit = "uasg_shr" from rfl, lookup_uasg_shr])).trans uasg_shr_ok,
    (Family.ok_congr f_uasg_mod (fun ks => by rw [show f_uasg_mod.unit = "uasg_mod" from rfl, lookup_uasg_mod])).trans uasg_mod_ok,
    (Family.ok_congr f_mabs (fun ks => by rw [show f_mabs.unit = "mabs" from rfl, lookup_mabs])).trans mabs_ok,
    (Family.ok_congr f_mabsJ (fun ks => by rw [show f_mabsJ.unit = "mabsJ" from rfl, lookup_mabsJ])).trans mabsJ_ok,
    (Family.ok_congr f_mequal (fun ks => by rw [show f_mequal.unit = "mequal" from rfl, lookup_mequal])).trans mequal_ok,
    (Family.ok_congr f_mnotEqual (fun ks => by rw [show f_mnotEqual.unit = "mnotEqual" from rfl, lookup_mnotEqual])).trans mnotEqual_ok,
    (Family.ok_congr f_mequal_e (fun ks => by rw [show f_mequal_e.unit = "mequal_e" from rfl, lookup_mequal_e])).trans mequal_e_ok,
    (Family.ok_congr f_mnotEqual_e (fun ks => by rw [show f_mnotEqual_e.unit = "mnotEqual_e" from rfl, lookup_mnotEqual_e])).trans mnotEqual_e_ok,
    (Family.ok_congr f_mequal_ev (fun ks => by rw [show f_mequal_ev.unit = "mequal_ev" from rfl, lookup_mequal_ev])).trans mequal_ev_ok,
    (Family.ok_congr f_mnotEqual_ev (fun ks => by rw [show f_mnotEqual_ev.unit = "mnotEqual_ev" from rfl, lookup_mnotEqual_ev])).trans mnotEqual_ev_ok,
    (Family.ok_congr f_mequalJ (fun ks => by rw [show f_mequalJ.unit = "mequalJ" from rfl, lookup_mequalJ])).trans mequalJ_ok,
    (Family.ok_congr f_mnotEqualJ (fun ks => by rw [show f_mnotEqualJ.unit = "mnotEqualJ" from rfl, lookup_mnotEqualJ])).trans mnotEqualJ_ok,
    (Family.ok_congr f_mequalJ_e (fun ks => by rw [show f_mequalJ_e.unit = "mequalJ_e" from rfl, lookup_mequalJ_e])).trans mequalJ_e_ok,
    (Family.ok_congr f_mnotEqualJ_e (fun ks => by rw [show f_mnotEqualJ_e.unit = "mnotEqualJ_e" from rfl, lookup_mnotEqualJ_e])).trans mnotEqualJ_e_ok,
    (Family.ok_congr f_mequalJ_ev (fun ks => by rw [show f_mequalJ_ev.unit = "mequalJ_ev" from rfl, lookup_mequalJ_ev])).trans mequalJ_ev_ok,
    (Family.ok_congr f_mnotEqualJ_ev (fun ks => by rw [show f_mnotEqualJ_ev.unit = "mnotEqualJ_ev" from rfl, lookup_mnotEqualJ_ev])).trans mnotEqualJ_ev_ok,
    (Family.ok_congr f_mmixs (fun ks => by rw [show f_mmixs.unit = "mmixs" from rfl, lookup_mmixs])).trans mmixs_ok,
    (Family.ok_congr f_mmixm (fun ks => by rw [show f_mmixm.unit = "mmixm" from rfl, lookup_mmixm])).trans mmixm_ok⟩
end Glm.Props.C01
