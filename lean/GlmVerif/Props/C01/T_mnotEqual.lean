import GlmVerif.Spec.C01
import GlmVerif.Gen.C01.mnotEqual
/-! table check of family `mnotEqual` against the model of its units generated from /repo (kernel evaluation) -/
namespace Glm.Props.C01
open Glm Glm.Spec.C01 Glm.Gen.C01
set_option maxHeartbeats 4000000 in
theorem mnotEqual_ok : f_mnotEqual.ok (fun _ ks => mnotEqual_L ks) = true := by decide +kernel
end Glm.Props.C01
