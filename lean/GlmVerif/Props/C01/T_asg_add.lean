import GlmVerif.Spec.C01
import GlmVerif.Gen.C01.asg_add
/-! table check of family `asg_add` against the model of its units generated from /repo (kernel evaluation) -/
namespace Glm.Props.C01
open Glm Glm.Spec.C01 Glm.Gen.C01
set_option maxHeartbeats 4000000 in
theorem asg_add_ok : f_asg_add.ok (fun _ ks => asg_add_L ks) = true := by decide +kernel
end Glm.Props.C01
