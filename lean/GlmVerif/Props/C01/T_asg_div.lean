import GlmVerif.Spec.C01
import GlmVerif.Gen.C01.asg_div
/-! table check of family `asg_div` against the model of its units generated from /repo (kernel evaluation) -/
namespace Glm.Props.C01
open Glm Glm.Spec.C01 Glm.Gen.C01
set_option maxHeartbeats 4000000 in
theorem asg_div_ok : f_asg_div.ok (fun _ ks => asg_div_L ks) = true := by decide +kernel
end Glm.Props.C01
