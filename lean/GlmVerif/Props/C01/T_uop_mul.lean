import GlmVerif.Spec.C01
import GlmVerif.Gen.C01.uop_mul
/-! table check of family `uop_mul` against the model of its units generated from /repo (kernel evaluation) -/
namespace Glm.Props.C01
open Glm Glm.Spec.C01 Glm.Gen.C01
set_option maxHeartbeats 4000000 in
theorem uop_mul_ok : f_uop_mul.ok (fun _ ks => uop_mul_L ks) = true := by decide +kernel
end Glm.Props.C01
