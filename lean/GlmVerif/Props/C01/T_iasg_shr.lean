import GlmVerif.Spec.C01
import GlmVerif.Gen.C01.iasg_shr
/-! table check of family `iasg_shr` against the model of its units generated from /repo (kernel evaluation) -/
namespace Glm.Props.C01
open Glm Glm.Spec.C01 Glm.Gen.C01
set_option maxHeartbeats 4000000 in
theorem iasg_shr_ok : f_iasg_shr.ok (fun _ ks => iasg_shr_L ks) = true := by decide +kernel
end Glm.Props.C01
