import GlmVerif.Spec.C01
import GlmVerif.Gen.C01
/-! vector overload = renamed scalar overload, for every function, operand-shape mask, length and
component: one kernel evaluation over the model generated from /repo -/
namespace Glm.Props.C01
open Glm Glm.Spec.C01 Glm.Gen.C01
set_option maxHeartbeats 4000000 in
theorem rel_all_ok : relFamilies.all (fun f => f.ok lookup) = true := by decide +kernel
end Glm.Props.C01
