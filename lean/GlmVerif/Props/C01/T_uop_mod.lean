import GlmVerif.Spec.C01
import GlmVerif.Gen.C01.uop_mod
/-! table check of family `uop_mod` against the model of its units generated from /repo (kernel evaluation) -/
namespace Glm.Props.C01
open Glm Glm.Spec.C01 Glm.Gen.C01
set_option maxHeartbeats 4000000 in
theorem uop_mod_ok : f_uop_mod.ok (fun _ ks => uop_mod_L ks) = true := by decide +kernel
end Glm.Props.C01
