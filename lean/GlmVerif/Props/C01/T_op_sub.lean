import GlmVerif.Spec.C01
import GlmVerif.Gen.C01.op_sub
/-! table check of family `op_sub` against the model of its units generated from /repo (kernel evaluation) -/
namespace Glm.Props.C01
open Glm Glm.Spec.C01 Glm.Gen.C01
set_option maxHeartbeats 4000000 in
theorem op_sub_ok : f_op_sub.ok (fun _ ks => op_sub_L ks) = true := by decide +kernel
end Glm.Props.C01
