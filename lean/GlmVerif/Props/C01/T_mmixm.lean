import GlmVerif.Spec.C01
import GlmVerif.Gen.C01.mmixm
/-! table check of family `mmixm` against the model of its units generated from /repo (kernel evaluation) -/
namespace Glm.Props.C01
open Glm Glm.Spec.C01 Glm.Gen.C01
set_option maxHeartbeats 4000000 in
theorem mmixm_ok : f_mmixm.ok (fun _ ks => mmixm_L ks) = true := by decide +kernel
end Glm.Props.C01
