import GlmVerif.Spec.C01
import GlmVerif.Gen.C01.rel_lessThan
/-! table check of family `rel_lessThan` against the model of its units generated from /repo (kernel evaluation) -/
namespace Glm.Props.C01
open Glm Glm.Spec.C01 Glm.Gen.C01
set_option maxHeartbeats 4000000 in
theorem rel_lessThan_ok : f_rel_lessThan.ok (fun _ ks => rel_lessThan_L ks) = true := by decide +kernel
end Glm.Props.C01
