import GlmVerif.Spec.C01
import GlmVerif.Gen.C01.uasg_xor
/-! table check of family `uasg_xor` against the model of its units generated from /repo (kernel evaluation) -/
namespace Glm.Props.C01
open Glm Glm.Spec.C01 Glm.Gen.C01
set_option maxHeartbeats 4000000 in
theorem uasg_xor_ok : f_uasg_xor.ok (fun _ ks => uasg_xor_L ks) = true := by decide +kernel
end Glm.Props.C01
