import GlmVerif.Spec.C01
import GlmVerif.Gen.C01.mmixs
/-! table check of family `mmixs` against the model of its units generated from /repo (kernel evaluation) -/
namespace Glm.Props.C01
open Glm Glm.Spec.C01 Glm.Gen.C01
set_option maxHeartbeats 4000000 in
theorem mmixs_ok : f_mmixs.ok (fun _ ks => mmixs_L ks) = true := by decide +kernel
end Glm.Props.C01
