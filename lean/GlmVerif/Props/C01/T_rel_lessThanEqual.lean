import GlmVerif.Spec.C01
import GlmVerif.Gen.C01.rel_lessThanEqual
/-! table check of family `rel_lessThanEqual` against the model of its units generated from /repo (kernel evaluation) -/
namespace Glm.Props.C01
open Glm Glm.Spec.C01 Glm.Gen.C01
set_option maxHeartbeats 4000000 in
theorem rel_lessThanEqual_ok : f_rel_lessThanEqual.ok (fun _ ks => rel_lessThanEqual_L ks) = true := by decide +kernel
end Glm.Props.C01
