import GlmVerif.Spec.C01
import GlmVerif.Gen.C01.uasg_shl
/-! table check of family `uasg_shl` against the model of its units generated from /repo (kernel evaluation) -/
namespace Glm.Props.C01
open Glm Glm.Spec.C01 Glm.Gen.C01
set_option maxHeartbeats 4000000 in
theorem uasg_shl_ok : f_uasg_shl.ok (fun _ ks => uasg_shl_L ks) = true := by decide +kernel
end Glm.Props.C01
