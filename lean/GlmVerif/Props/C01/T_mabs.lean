import GlmVerif.Spec.C01
import GlmVerif.Gen.C01.mabs
/-! table check of family `mabs` against the model of its units generated from /repo (kernel evaluation) -/
namespace Glm.Props.C01
open Glm Glm.Spec.C01 Glm.Gen.C01
set_option maxHeartbeats 4000000 in
theorem mabs_ok : f_mabs.ok (fun _ ks => mabs_L ks) = true := by decide +kernel
end Glm.Props.C01
