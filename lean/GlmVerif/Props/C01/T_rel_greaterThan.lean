import GlmVerif.Spec.C01
import GlmVerif.Gen.C01.rel_greaterThan
/-! table check of family `rel_greaterThan` against the model of its units generated from /repo (kernel evaluation) -/
namespace Glm.Props.C01
open Glm Glm.Spec.C01 Glm.Gen.C01
set_option maxHeartbeats 4000000 in
theorem rel_greaterThan_ok : f_rel_greaterThan.ok (fun _ ks => rel_greaterThan_L ks) = true := by decide +kernel
end Glm.Props.C01
