import GlmVerif.Spec.C01
import GlmVerif.Gen.C01.mnotEqualJ_e
/-! table check of family `mnotEqualJ_e` against the model of its units generated from /repo (kernel evaluation) -/
namespace Glm.Props.C01
open Glm Glm.Spec.C01 Glm.Gen.C01
set_option maxHeartbeats 4000000 in
theorem mnotEqualJ_e_ok : f_mnotEqualJ_e.ok (fun _ ks => mnotEqualJ_e_L ks) = true := by decide +kernel
end Glm.Props.C01
