import GlmVerif.Spec.C01
import GlmVerif.Gen.C01.mnotEqual_e
/-! table check of family `mnotEqual_e` against the model of its units generated from /repo (kernel evaluation) -/
namespace Glm.Props.C01
open Glm Glm.Spec.C01 Glm.Gen.C01
set_option maxHeartbeats 4000000 in
theorem mnotEqual_e_ok : f_mnotEqual_e.ok (fun _ ks => mnotEqual_e_L ks) = true := by decide +kernel
end Glm.Props.C01
