import GlmVerif.Spec.C01
import GlmVerif.Gen.C01.iasg_sub
/-! table check of family `iasg_sub` against the model of its units generated from /repo (kernel evaluation) -/
namespace Glm.Props.C01
open Glm Glm.Spec.C01 Glm.Gen.C01
set_option maxHeartbeats 4000000 in
theorem iasg_sub_ok : f_iasg_sub.ok (fun _ ks => iasg_sub_L ks) = true := by decide +kernel
end Glm.Props.C01
