import GlmVerif.Spec.C01
import GlmVerif.Gen.C01.uasg_shr
/-! table check of family `uasg_shr` against the model of its units generated from /repo (kernel evaluation) -/
namespace Glm.Props.C01
open Glm Glm.Spec.C01 Glm.Gen.C01
set_option maxHeartbeats 4000000 in
theorem uasg_shr_ok : f_uasg_shr.ok (fun _ ks => uasg_shr_L ks) = true := by decide +kernel
end Glm.Props.C01
