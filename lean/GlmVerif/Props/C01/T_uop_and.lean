import GlmVerif.Spec.C01
import GlmVerif.Gen.C01.uop_and
/-! table check of family `uop_and` against the model of its units generated from /repo (kernel evaluation) -/
namespace Glm.Props.C01
open Glm Glm.Spec.C01 Glm.Gen.C01
set_option maxHeartbeats 4000000 in
theorem uop_and_ok : f_uop_and.ok (fun _ ks => uop_and_L ks) = true := by decide +kernel
end Glm.Props.C01
