import GlmVerif.Spec.C01
import GlmVerif.Gen.C01.mnotEqualJ
/-! table check of family `mnotEqualJ` against the model of its units generated from /repo (kernel evaluation) -/
namespace Glm.Props.C01
open Glm Glm.Spec.C01 Glm.Gen.C01
set_option maxHeartbeats 4000000 in
theorem mnotEqualJ_ok : f_mnotEqualJ.ok (fun _ ks => mnotEqualJ_L ks) = true := by decide +kernel
end Glm.Props.C01
