import GlmVerif.Spec.C01
import GlmVerif.Gen.C01.mequalJ_ev
/-! table check of family `mequalJ_ev` against the model of its units generated from /repo (kernel evaluation) -/
namespace Glm.Props.C01
open Glm Glm.Spec.C01 Glm.Gen.C01
set_option maxHeartbeats 4000000 in
theorem mequalJ_ev_ok : f_mequalJ_ev.ok (fun _ ks => mequalJ_ev_L ks) = true := by decide +kernel
end Glm.Props.C01
