import GlmVerif.Spec.C01
import GlmVerif.Gen.C01.rel_notEqual
/-! table check of family `rel_notEqual` against the model of its units generated from /repo (kernel evaluation) -/
namespace Glm.Props.C01
open Glm Glm.Spec.C01 Glm.Gen.C01
set_option maxHeartbeats 4000000 in
theorem rel_notEqual_ok : f_rel_notEqual.ok (fun _ ks => rel_notEqual_L ks) = true := by decide +kernel
end Glm.Props.C01
