import GlmVerif.Props.C11.Select
import GlmVerif.Props.C11.SelectD
import GlmVerif.Props.C11.Round
import GlmVerif.Props.C11.RoundD
import GlmVerif.Props.C11.Glm
import GlmVerif.Props.C11.GlmD
import GlmVerif.Props.C11.Mirror
import GlmVerif.Props.C11.Consts
/-!
# C11 — common functions obey their documented per-value definitions on all floats; constants
are correctly rounded

Model: `GlmVerif/Hand/C11.lean` (core Lean, bit patterns `UInt32`/`UInt64`), mirroring
glm/detail/func_common.inl, detail/compute_common.hpp, ext/scalar_common.inl, ext/vector_common.inl
(with h/C11/fix_roundEven.diff and h/C11/fix_iround.diff applied).  Tie to /repo: `diff/C11.cpp`
+ `DrvC11.lean` (differential correspondence, bit for bit).

| module | content |
|---|---|
| `C11/Select`, `C11/SelectD` | IEEE order on bit patterns; min max clamp step sign abs mix(bool), min/max 3,4, fmin/fmax 2,3,4, fclamp, isnan, isinf, bit casts — float / double |
| `C11/Round`, `C11/RoundD`   | the bit-level floor/ceil/trunc/round/rint specification is the IEEE definition |
| `C11/Glm`, `C11/GlmD`, `C11/Mirror` | roundEven = rint on every float; fract ∈ [0,1]; iround/uround nearest; wrap modes ∈ [0,1] |
| `C11/Consts` | every provable constant is correctly rounded at double and float (Mathlib enclosures) |

Not proved (explored by the correspondence against executable predicates only; see h/C11/NOTES.md):
`mix` with a float interpolator, `smoothstep` ∈ [0,1], `mod` for general divisors, `modf`,
`frexp`/`ldexp`, `fma`, general `a/b`, `a*b` (no soft-float multiplier/divider in the model);
libm's floor/ceil/trunc/round/fmod/fmin/fmax are *modelled* by the specification and compared
with glibc through glm on all floats, not verified; constants `euler`, `ln_ln_two`,
`cos_one_over_two` (both precisions) and `ln_two`, `ln_ten`, `root_ln_four` at double precision
(Mathlib has no tight enough bound) are compared with 40-digit sympy values by the harness only.
-/
