import GlmVerif.Spec.C02
import GlmVerif.Gen.C02.rowmajor_v
/-! table check of family `rowmajor_v` against the model of its units generated from /repo (kernel evaluation) -/
namespace Glm.Props.C02
open Glm Glm.Spec.C02 Glm.Gen.C02
set_option maxHeartbeats 4000000 in
theorem rowmajor_v_ok : f_rowmajor_v.ok (fun _ ks => rowmajor_v_L ks) = true := by decide +kernel
end Glm.Props.C02
