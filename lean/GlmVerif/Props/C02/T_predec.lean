import GlmVerif.Spec.C02
import GlmVerif.Gen.C02
/-! table check of family `predec` against the model generated from /repo (kernel evaluation) -/
namespace Glm.Props.C02
open Glm Glm.Spec.C02 Glm.Gen.C02
theorem predec_ok : f_predec.ok lookup = true := by decide +kernel
end Glm.Props.C02
