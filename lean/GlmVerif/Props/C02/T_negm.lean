import GlmVerif.Spec.C02
import GlmVerif.Gen.C02.negm
/-! table check of family `negm` against the model of its units generated from /repo (kernel evaluation) -/
namespace Glm.Props.C02
open Glm Glm.Spec.C02 Glm.Gen.C02
set_option maxHeartbeats 4000000 in
theorem negm_ok : f_negm.ok (fun _ ks => negm_L ks) = true := by decide +kernel
end Glm.Props.C02
