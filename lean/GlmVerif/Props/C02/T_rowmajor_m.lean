import GlmVerif.Spec.C02
import GlmVerif.Gen.C02.rowmajor_m
/-! table check of family `rowmajor_m` against the model of its units generated from /repo (kernel evaluation) -/
namespace Glm.Props.C02
open Glm Glm.Spec.C02 Glm.Gen.C02
set_option maxHeartbeats 4000000 in
theorem rowmajor_m_ok : f_rowmajor_m.ok (fun _ ks => rowmajor_m_L ks) = true := by decide +kernel
end Glm.Props.C02
