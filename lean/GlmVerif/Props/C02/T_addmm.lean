import GlmVerif.Spec.C02
import GlmVerif.Gen.C02
/-! table check of family `addmm` against the model generated from /repo (kernel evaluation) -/
namespace Glm.Props.C02
open Glm Glm.Spec.C02 Glm.Gen.C02
theorem addmm_ok : f_addmm.ok lookup = true := by decide +kernel
end Glm.Props.C02
