import GlmVerif.Spec.C02
import GlmVerif.Gen.C02.iouter
/-! table check of family `iouter` against the model of its units generated from /repo (kernel evaluation) -/
namespace Glm.Props.C02
open Glm Glm.Spec.C02 Glm.Gen.C02
set_option maxHeartbeats 4000000 in
theorem iouter_ok : f_iouter.ok (fun _ ks => iouter_L ks) = true := by decide +kernel
end Glm.Props.C02
