import GlmVerif.Spec.C02
import GlmVerif.Gen.C02.mulvm
/-! table check of family `mulvm` against the model of its units generated from /repo (kernel evaluation) -/
namespace Glm.Props.C02
open Glm Glm.Spec.C02 Glm.Gen.C02
set_option maxHeartbeats 4000000 in
theorem mulvm_ok : f_mulvm.ok (fun _ ks => mulvm_L ks) = true := by decide +kernel
end Glm.Props.C02
