import GlmVerif.Spec.C02
import GlmVerif.Gen.C02.itranspose
/-! table check of family `itranspose` against the model of its units generated from /repo (kernel evaluation) -/
namespace Glm.Props.C02
open Glm Glm.Spec.C02 Glm.Gen.C02
set_option maxHeartbeats 4000000 in
theorem itranspose_ok : f_itranspose.ok (fun _ ks => itranspose_L ks) = true := by decide +kernel
end Glm.Props.C02
