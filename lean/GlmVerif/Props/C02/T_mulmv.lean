import GlmVerif.Spec.C02
import GlmVerif.Gen.C02.mulmv
/-! table check of family `mulmv` against the model of its units generated from /repo (kernel evaluation) -/
namespace Glm.Props.C02
open Glm Glm.Spec.C02 Glm.Gen.C02
set_option maxHeartbeats 4000000 in
theorem mulmv_ok : f_mulmv.ok (fun _ ks => mulmv_L ks) = true := by decide +kernel
end Glm.Props.C02
