import GlmVerif.Spec.C02
import GlmVerif.Gen.C02.preinc
/-! table check of family `preinc` against the model of its units generated from /repo (kernel evaluation) -/
namespace Glm.Props.C02
open Glm Glm.Spec.C02 Glm.Gen.C02
set_option maxHeartbeats 4000000 in
theorem preinc_ok : f_preinc.ok (fun _ ks => preinc_L ks) = true := by decide +kernel
end Glm.Props.C02
