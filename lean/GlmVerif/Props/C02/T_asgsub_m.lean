import GlmVerif.Spec.C02
import GlmVerif.Gen.C02
/-! table check of family `asgsub_m` against the model generated from /repo (kernel evaluation) -/
namespace Glm.Props.C02
open Glm Glm.Spec.C02 Glm.Gen.C02
theorem asgsub_m_ok : f_asgsub_m.ok lookup = true := by decide +kernel
end Glm.Props.C02
