import GlmVerif.Spec.C02
import GlmVerif.Gen.C02.row_set
/-! table check of family `row_set` against the model of its units generated from /repo (kernel evaluation) -/
namespace Glm.Props.C02
open Glm Glm.Spec.C02 Glm.Gen.C02
set_option maxHeartbeats 4000000 in
theorem row_set_ok : f_row_set.ok (fun _ ks => row_set_L ks) = true := by decide +kernel
end Glm.Props.C02
