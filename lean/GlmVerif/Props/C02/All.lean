import GlmVerif.Gen.C02
import GlmVerif.Props.C02.T_mul
import GlmVerif.Props.C02.T_asgmul_m
import GlmVerif.Props.C02.T_mulmv
import GlmVerif.Props.C02.T_mulvm
import GlmVerif.Props.C02.T_transpose
import GlmVerif.Props.C02.T_outer
import GlmVerif.Props.C02.T_compmult
import GlmVerif.Props.C02.T_addmm
import GlmVerif.Props.C02.T_submm
import GlmVerif.Props.C02.T_addms
import GlmVerif.Props.C02.T_addsm
import GlmVerif.Props.C02.T_subms
import GlmVerif.Props.C02.T_subsm
import GlmVerif.Props.C02.T_mulms
import GlmVerif.Props.C02.T_mulsm
import GlmVerif.Props.C02.T_divms
import GlmVerif.Props.C02.T_divsm
import GlmVerif.Props.C02.T_negm
import GlmVerif.Props.C02.T_posm
import GlmVerif.Props.C02.T_preinc
import GlmVerif.Props.C02.T_predec
import GlmVerif.Props.C02.T_postinc
import GlmVerif.Props.C02.T_postdec
import GlmVerif.Props.C02.T_asgadd_m
import GlmVerif.Props.C02.T_asgsub_m
import GlmVerif.Props.C02.T_asgadd_s
import GlmVerif.Props.C02.T_asgsub_s
import GlmVerif.Props.C02.T_asgmul_s
import GlmVerif.Props.C02.T_asgdiv_s
import GlmVerif.Props.C02.T_asg_m
import GlmVerif.Props.C02.T_row_get
import GlmVerif.Props.C02.T_row_set
import GlmVerif.Props.C02.T_col_get
import GlmVerif.Props.C02.T_col_set
import GlmVerif.Props.C02.T_ctor_diag
import GlmVerif.Props.C02.T_conv
import GlmVerif.Props.C02.T_itranspose
import GlmVerif.Props.C02.T_iouter
import GlmVerif.Props.C02.T_icompmult
import GlmVerif.Props.C02.T_imulmv
import GlmVerif.Props.C02.T_gdiag
import GlmVerif.Props.C02.T_rowmajor_m
import GlmVerif.Props.C02.T_colmajor_m
import GlmVerif.Props.C02.T_rowmajor_v
import GlmVerif.Props.C02.T_colmajor_v
/-! every family table of C02 holds for the model generated from the current /repo -/
namespace Glm.Props.C02
open Glm Glm.Spec.C02 Glm.Gen.C02
theorem all_ok : ∀ f ∈ families, f.ok lookup = true := by
  simp only [families, List.mem_cons, List.not_mem_nil, or_false, forall_eq_or_imp, forall_eq]
  exact ⟨(Family.ok_congr f_mul (fun ks => by rw [show f_mul.unit = "mul" from rfl, lookup_mul])).trans mul_ok,
    (Family.ok_congr f_asgmul_m (fun ks => by rw [show f_asgmul_m.unit = "asgmul_m" from rfl, lookup_asgmul_m])).trans asgmul_m_ok,
    (Family.ok_congr f_mulmv (fun ks => by rw [show f_mulmv.unit = "mulmv" from rfl, lookup_mulmv])).trans mulmv_ok,
    (Family.ok_congr f_mulvm (fun ks => by rw [show f_mulvm.unit = "mulvm" from rfl, lookup_mulvm])).trans mulvm_ok,
    (Family.ok_congr f_transpose (fun ks => by rw [show f_transpose.unit = "transpose" from rfl, lookup_transpose])).trans transpose_ok,
    (Family.ok_congr f_outer (fun ks => by rw [show f_outer.unit = "outer" from rfl, lookup_outer])).trans outer_ok,
    (Family.ok_congr f_compmult (fun ks => by rw [show f_compmult.unit = "compmult" from rfl, lookup_compmult])).trans compmult_ok,
    (Family.ok_congr f_addmm (fun ks => by rw [show f_addmm.unit = "addmm" from rfl, lookup_addmm])).trans addmm_ok,
    (Family.ok_congr f_submm (fun ks => by rw [show f_submm.unit = "submm" from rfl, lookup_submm])).trans submm_ok,
    (Family.ok_congr f_addms (fun ks => by rw [show f_addms.unit = "addms" from rfl, lookup_addms])).trans addms_ok,
    (Family.ok_congr f_addsm (fun ks => by rw [show f_addsm.unit = "addsm" from rfl, lookup_addsm])).trans addsm_ok,
    (Family.ok_congr f_subms (fun ks => by rw [show f_subms.unit = "subms" from rfl, lookup_subms])).trans subms_ok,
    (Family.ok_congr f_subsm (fun ks => by rw [show f_subsm.unit = "subsm" from rfl, lookup_subsm])).trans subsm_ok,
    (Family.ok_congr f_mulms (fun ks => by rw [show f_mulms.unit = "mulms" from rfl, lookup_mulms])).trans mulms_ok,
    (Family.ok_congr f_mulsm (fun ks => by rw [show f_mulsm.unit = "mulsm" from rfl, lookup_mulsm])).trans mulsm_ok,
    (Family.ok_congr f_divms (fun ks => by rw [show f_divms.unit = "divms" from rfl, lookup_divms])).trans divms_ok,
    (Family.ok_congr f_divsm (fun ks => by rw [show f_divsm.unit = "divsm" from rfl, lookup_divsm])).trans divsm_ok,
    (Family.ok_congr f_negm (fun ks => by rw [show f_negm.unit = "negm" from rfl, lookup_negm])).trans negm_ok,
    (Family.ok_congr f_posm (fun ks => by rw [show f_posm.unit = "posm" from rfl, lookup_posm])).trans posm_ok,
    (Family.ok_congr f_preinc (fun ks => by rw [show f_preinc.unit = "preinc" from rfl, lookup_preinc])).trans preinc_ok,
    (Family.ok_congr f_predec (fun ks => by rw [show f_predec.unit = "predec" from rfl, lookup_predec])).trans predec_ok,
    (Family.ok_congr f_postinc (fun ks => by rw [show f_postinc.unit = "postinc" from rfl, lookup_postinc])).trans postinc_ok,
    (Family.ok_congr f_postdec (fun ks => by rw [show f_postdec.unit = "postdec" from rfl, lookup_postdec])).trans postdec_ok,
    (Family.ok_congr f_asgadd_m (fun ks => by rw [show f_asgadd_m.unit = "asgadd_m" from rfl, lookup_asgadd_m])).trans asgadd_m_ok,
    (Family.ok_congr f_asgsub_m (fun ks => by rw [show f_asgsub_m.unit = "asgsub_m" from rfl, lookup_asgsub_m])).trans asgsub_m_ok,
    (Family.ok_congr f_asgadd_s (fun ks => by rw [show f_asgadd_s.unit = "asgadd_s" from rfl, lookup_asgadd_s])).trans asgadd_s_ok,
    (Family.ok_congr f_asgsub_s (fun ks => by rw [show f_asgsub_s.unit = "asgsub_s" from rfl, lookup_asgsub_s])).trans asgsub_s_ok,
    (Family.ok_congr f_asgmul_s (fun ks => by rw [show f_asgmul_s.unit = "asgmul_s" from rfl, lookup_asgmul_s])).trans asgmul_s_ok,
    (Family.ok_congr f_asgdiv_s (fun ks => by rw [show f_asgdiv_s.unit = "asgdiv_s" from rfl, lookup_asgdiv_s])).trans asgdiv_s_ok,
    (Family.ok_congr f_asg_m (fun ks => by rw [show f_asg_m.unit = "asg_m" from rfl, lookup_asg_m])).trans asg_m_ok,
    (Family.ok_congr f_row_get (fun ks => by rw [show f_row_get.unit = "row_get" from rfl, lookup_row_get])).trans row_get_ok,
    (Family.ok_congr f_row_set (fun ks => by rw [show f_row_set.unit = "row_set" from rfl, lookup_row_set])).trans row_set_ok,
    (Family.ok_congr f_col_get (fun ks => by rw [show f_col_get.unit = "col_get" from rfl, lookup_col_get])).trans col_get_ok,
    (Family.ok_congr f_col_set (fun ks => by rw [show f_col_set.unit = "col_set" from rfl, lookup_col_set])).trans col_set_ok,
    (Family.ok_congr f_ctor_diag (fun ks => by rw [show f_ctor_diag.unit = "ctor_diag" from rfl, lookup_ctor_diag])).trans ctor_diag_ok,
    (Family.ok_congr f_conv (fun ks => by rw [show f_conv.unit = "conv" from rfl, lookup_conv])).trans conv_ok,
    (Family.ok_congr f_itranspose (fun ks => by rw [show f_itranspose.unit = "itranspose" from rfl, lookup_itranspose])).trans itranspose_ok,
    (Family.ok_congr f_iouter (fun ks => by rw [show f_iouter.unit = "iouter" from rfl, lookup_iouter])).trans iouter_ok,
    (Family.ok_congr f_icompmult (fun ks => by rw [show f_icompmult.unit = "icompmult" from rfl, lookup_icompmult])).trans icompmult_ok,
    (Family.ok_congr f_imulmv (fun ks => by rw [show f_imulmv.unit = "imulmv" from rfl, lookup_imulmv])).trans imulmv_ok,
    (Family.ok_congr f_gdiag (fun ks => by rw [show f_gdiag.unit = "gdiag" from rfl, lookup_gdiag])).trans gdiag_ok,
    (Family.ok_congr f_rowmajor_m (fun ks => by rw [show f_rowmajor_m.unit = "rowmajor_m" from rfl, lookup_rowmajor_m])).trans rowmajor_m_ok,
    (Family.ok_congr f_colmajor_m (fun ks => by rw [show f_colmajor_m.unit = "colmajor_m" from rfl, lookup_colmajor_m])).trans colmajor_m_ok,
    (Family.ok_congr f_rowmajor_v (fun ks => by rw [show f_rowmajor_v.unit = "rowmajor_v" from rfl, lookup_rowmajor_v])).trans rowmajor_v_ok,
    (Family.ok_congr f_colmajor_v (fun ks => by rw [show f_colmajor_v.unit = "colmajor_v" from rfl, lookup_colmajor_v])).trans colmajor_v_ok⟩
end Glm.Props.C02
