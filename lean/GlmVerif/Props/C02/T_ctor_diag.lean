import GlmVerif.Spec.C02
import GlmVerif.Gen.C02.ctor_diag
/-! table check of family `ctor_diag` against the model of its units generated from /repo (kernel evaluation) -/
namespace Glm.Props.C02
open Glm Glm.Spec.C02 Glm.Gen.C02
set_option maxHeartbeats 4000000 in
theorem ctor_diag_ok : f_ctor_diag.ok (fun _ ks => ctor_diag_L ks) = true := by decide +kernel
end Glm.Props.C02
