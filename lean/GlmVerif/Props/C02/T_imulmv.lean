import GlmVerif.Spec.C02
import GlmVerif.Gen.C02.imulmv
/-! table check of family `imulmv` against the model of its units generated from /repo (kernel evaluation) -/
namespace Glm.Props.C02
open Glm Glm.Spec.C02 Glm.Gen.C02
set_option maxHeartbeats 4000000 in
theorem imulmv_ok : f_imulmv.ok (fun _ ks => imulmv_L ks) = true := by decide +kernel
end Glm.Props.C02
