import GlmVerif.Spec.C02
import GlmVerif.Gen.C02.gdiag
/-! table check of family `gdiag` against the model of its units generated from /repo (kernel evaluation) -/
namespace Glm.Props.C02
open Glm Glm.Spec.C02 Glm.Gen.C02
set_option maxHeartbeats 4000000 in
theorem gdiag_ok : f_gdiag.ok (fun _ ks => gdiag_L ks) = true := by decide +kernel
end Glm.Props.C02
