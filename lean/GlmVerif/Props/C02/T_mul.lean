import GlmVerif.Spec.C02
import GlmVerif.Gen.C02.mul
/-! table check of family `mul` against the model of its units generated from /repo (kernel evaluation) -/
namespace Glm.Props.C02
open Glm Glm.Spec.C02 Glm.Gen.C02
set_option maxHeartbeats 4000000 in
theorem mul_ok : f_mul.ok (fun _ ks => mul_L ks) = true := by decide +kernel
end Glm.Props.C02
