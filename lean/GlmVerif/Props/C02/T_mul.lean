import GlmVerif.Spec.C02
import GlmVerif.Gen.C02
/-! table check of family `mul` against the model generated from /repo (kernel evaluation) -/
namespace Glm.Props.C02
open Glm Glm.Spec.C02 Glm.Gen.C02
theorem mul_ok : f_mul.ok lookup = true := by decide +kernel
end Glm.Props.C02
