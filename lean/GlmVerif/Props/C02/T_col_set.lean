import GlmVerif.Spec.C02
import GlmVerif.Gen.C02.col_set
/-! table check of family `col_set` against the model of its units generated from /repo (kernel evaluation) -/
namespace Glm.Props.C02
open Glm Glm.Spec.C02 Glm.Gen.C02
set_option maxHeartbeats 4000000 in
theorem col_set_ok : f_col_set.ok (fun _ ks => col_set_L ks) = true := by decide +kernel
end Glm.Props.C02
