import GlmVerif.Spec.C02
import GlmVerif.Gen.C02
/-! table check of family `col_set` against the model generated from /repo (kernel evaluation) -/
namespace Glm.Props.C02
open Glm Glm.Spec.C02 Glm.Gen.C02
theorem col_set_ok : f_col_set.ok lookup = true := by decide +kernel
end Glm.Props.C02
