import GlmVerif.Spec.C02
import GlmVerif.Gen.C02.addms
/-! table check of family `addms` against the model of its units generated from /repo (kernel evaluation) -/
namespace Glm.Props.C02
open Glm Glm.Spec.C02 Glm.Gen.C02
set_option maxHeartbeats 4000000 in
theorem addms_ok : f_addms.ok (fun _ ks => addms_L ks) = true := by decide +kernel
end Glm.Props.C02
