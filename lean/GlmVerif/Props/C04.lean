import GlmVerif.Sem.Family
import GlmVerif.Spec.C04
import GlmVerif.Gen.C04
import GlmVerif.Props.C04.All
/-!
# C04 — quaternion, matrix, axis-angle and Euler forms of a rotation agree

Table theorems (`Props/C04/T_*.lean`) for the model regenerated from /repo, each traced under both
quaternion memory orders (default and `GLM_FORCE_QUAT_DATA_WXYZ`) with the same specification:
`q1*q2` is the Hamilton product; `q*v = mat3_cast(q)·v` (and the vec4 / `v*q` forms) as *polynomial*
identities; `mat3_cast`/`mat4_cast` is the documented matrix; **`mat3_cast(q1 q2) = mat3_cast(q1)
mat3_cast(q2)` and `mat3_cast(q) mat3_cast(q)ᵀ = I` modulo `|q|² = 1` (certificates checked in the
kernel)**; `inverse(q) = conjugate(q)/|q|²` and `q * inverse(q) = 1`; `normalize`; `angleAxis`;
`quat(eulerAngles) = qz·qy·qx`; every `eulerAngleA`, `eulerAngleAB`, `eulerAngleABC`, `yawPitchRoll`,
`orientate3/4` equals the product of its single-axis factors (assuming only `cos(-t) = cos t`,
`sin(-t) = -sin t` where the code negates an angle).
-/
namespace Glm.Props.C04
open Glm Glm.Spec.C04 Glm.Gen.C04

variable {R : Type} [CommRing R]

/-- **the matrix of a product is the product of the matrices** for unit quaternions, both memory orders,
every entry, every commutative ring -/
theorem mat3_cast_mul (cfg : Nat) (hc : [cfg] ∈ cfgs) (j : Nat) (hj : j < 9) (env : Nat → R)
    (h1 : (nrm2 0).eval (ringOps R) env = 1) (h2 : (nrm2 4).eval (ringOps R) env = 1) :
    ((lookup "mat3ofprod" [cfg]).outE j).eval (ringOps R) env
      = (sumE ((List.range 3).map fun k => .mul (Mq (qc 0) k (j % 3)) (Mq (qc 4) (j / 3) k))).eval (ringOps R) env := by
  refine Family.polyMod_sound ringOps_ringLike (all_ok f_mat3ofprod (by simp [families])) rfl rfl (ks := [cfg]) hc (j := j) hj env ?_ ?_
  · intro p hp
    simp only [f_mat3ofprod, List.mem_cons, List.not_mem_nil, or_false] at hp
    rcases hp with rfl | rfl
    · simpa [one, E.eval] using h1
    · simpa [one, E.eval] using h2
  · intro p hp; simp [f_mat3ofprod] at hp

/-- **`q * v = mat3_cast(q) * v`** for every quaternion and vector (a polynomial identity) -/
theorem quat_rotate_is_matrix (cfg : Nat) (hc : [cfg] ∈ cfgs) (r : Nat) (hr : r < 3) (env : Nat → R) :
    ((lookup "qmulv3" [cfg]).outE r).eval (ringOps R) env
      = (sumE ((List.range 3).map fun c => .mul (Mq (qc 0) c r) (v (4 + c)))).eval (ringOps R) env :=
  Family.poly_sound ringOps_ringLike (all_ok f_qmulv3 (by simp [families])) rfl rfl (ks := [cfg]) hc (j := r) hr env

/-- all `poly` families at once, any ring-like semantics (cos/sin are atoms) -/
theorem poly_families_correct {o : Ops R} (ho : RingLike o)
    (f : Family) (hf : f ∈ families) (htm : f.treeMode = false) (hk : f.kind = .poly)
    (ks : List Nat) (hks : ks ∈ f.keys) (j : Nat) (hj : j < f.nOut ks) (env : Nat → R) :
    (f.post ks (lookup f.unit ks).outE j).eval o env = (f.spec ks j).eval o env :=
  Family.poly_sound ho (all_ok f hf) htm hk hks hj env

/-- all `polyMod` families (unit-norm identities, Euler products) -/
theorem polyMod_families_correct {o : Ops R} (ho : RingLike o)
    (f : Family) (hf : f ∈ families) (htm : f.treeMode = false) (hk : f.kind = .polyMod)
    (ks : List Nat) (hks : ks ∈ f.keys) (j : Nat) (hj : j < f.nOut ks) (env : Nat → R)
    (hh : ∀ p ∈ f.hyps ks, p.1.eval o env = p.2.eval o env)
    (hrw : ∀ p ∈ f.rw ks, p.1.eval o env = p.2.eval o env) :
    (f.post ks (lookup f.unit ks).outE j).eval o env = (f.spec ks j).eval o env :=
  Family.polyMod_sound ho (all_ok f hf) htm hk hks hj env hh hrw

/-- **`eulerAngles(q)`**: pitch, yaw and roll are the documented `atan2`/`asin` expressions, with roll = 0 and
    pitch = `2 atan2(x, w)` exactly when both `atan2` arguments are within `epsilon` of zero (gimbal lock) — for every
    quaternion, both memory orders, in every ordered-field semantics (`atan2`, `asin` uninterpreted) -/
theorem eulerAngles_correct {K : Type} [Field K] [LinearOrder K] [IsStrictOrderedRing K] {o : Ops K} (ho : OrderedEqLike o)
    (cfg : Nat) (hc : [cfg] ∈ cfgs) (j : Nat) (hj : j < 3) (env : Nat → K) :
    ((lookup "eulerAngles" [cfg]).out j).eval o env = (eulerT j).eval o env :=
  Family.walk_poly_sound ho (all_ok f_eulerAngles (by simp [families])) rfl rfl rfl (ks := [cfg]) hc (j := j) hj env

/-! ### `quat_cast(mat3_cast q) = ±q` -/
set_option maxHeartbeats 4000000 in
set_option maxRecDepth 1000000 in
/-- the table: on every decision path of `quat_cast` each product `r_i r_j` equals `q_i q_j` modulo `s² = arg` and `|q|² = 1` -/
theorem castprod_ok : castOK lookup 0 = true ∧ castOK lookup 1 = true := by decide +kernel

/-- **`quat_cast(mat3_cast(q)) = ±q`** for every unit quaternion: all ten products `r_i r_j` of the result equal `q_i q_j`
    (both memory orders, every ordered-field semantics in which `sqrt` squares back on the four non-negative arguments
    `4w², 4x², 4y², 4z²`; the selected square root must not vanish — it is the largest component, ≥ 1/2 in absolute value) -/
theorem quat_cast_mat3_cast {K : Type} [Field K] [LinearOrder K] [IsStrictOrderedRing K] {o : Ops K} (ho : OrderedEqLike o)
    (cfg : Nat) (hc : cfg = 0 ∨ cfg = 1) (j : Nat) (hj : j < 10) (env : Nat → K)
    (hh : ∀ p ∈ castHyps, p.1.eval o env = p.2.eval o env)
    (hd : (((lookup "castprod" [cfg]).out j).select o env).divOK o env) :
    ((lookup "castprod" [cfg]).out j).eval o env = (castSpec j).eval o env := by
  have hok : castOK lookup cfg = true := by rcases hc with rfl | rfl; exact castprod_ok.1; exact castprod_ok.2
  simp only [castOK, Bool.and_eq_true, List.all_eq_true, List.mem_range] at hok
  obtain ⟨path, _, hl⟩ := treeEqv_sound (implied_sound ho env true) _ _ (hok.2 j hj) (by intro cb hcb; cases hcb)
  rw [Tree.eval_eq_select o env ((lookup "castprod" [cfg]).out j)]
  simp only [Tree.select, castLeafOK, Bool.and_eq_true, List.any_eq_true] at hl
  obtain ⟨_, c, _, hc2⟩ := hl
  have := fracEqMod_sound ho.toFieldLike hc2 env hh hd
    (by intro x hx; simp [castSpec, castPairs, qc, v, E.divisors] at hx)
  simpa [Tree.eval] using this

/-- non-vacuity -/
example : (lookup "mat3ofprod" [1]).nIn = 8 ∧ (lookup "mat3ofprod" [1]).outs.length = 9 ∧
    f_euler3.keys.length = 12 ∧ families.length = 32 := by decide +kernel

/-- **walk-mode families** (the code asks its questions in another order, or uses other but equivalent comparisons, than the
specification tree): for every input the traced tree and the specification tree evaluate alike, in every ordered field —
polynomial leaves unconditionally, -/
theorem walk_families_correct {K : Type} [Field K] [LinearOrder K] [IsStrictOrderedRing K] {o : Ops K} (ho : OrderedEqLike o)
    (f : Family) (hf : f ∈ families) (htm : f.treeMode = true) (hw : f.treeWalk = true) (hk : f.kind = .poly)
    (ks : List Nat) (hks : ks ∈ f.keys) (j : Nat) (hj : j < f.nOut ks) (env : Nat → K) :
    ((lookup f.unit ks).out j).eval o env = (f.specT ks j).eval o env :=
  Family.walk_poly_sound ho (all_ok f hf) htm hw hk hks hj env

/-- rational leaves whenever neither selected leaf divides by zero. -/
theorem walk_frac_families_correct {K : Type} [Field K] [LinearOrder K] [IsStrictOrderedRing K] {o : Ops K} (ho : OrderedEqLike o)
    (f : Family) (hf : f ∈ families) (htm : f.treeMode = true) (hw : f.treeWalk = true) (hk : f.kind = .frac)
    (ks : List Nat) (hks : ks ∈ f.keys) (j : Nat) (hj : j < f.nOut ks) (env : Nat → K)
    (hd1 : (((lookup f.unit ks).out j).select o env).divOK o env) (hd2 : ((f.specT ks j).select o env).divOK o env) :
    ((lookup f.unit ks).out j).eval o env = (f.specT ks j).eval o env :=
  Family.walk_frac_sound ho (all_ok f hf) htm hw hk hks hj env hd1 hd2

end Glm.Props.C04
