import GlmVerif.Sem.Family
import GlmVerif.Spec.C08
import GlmVerif.Gen.C08
import GlmVerif.Props.C08.All
/-!
# C08 — projection builders map the view volume onto the configured clip volume

Table theorems (`Props/C08/T_*.lean`): for ortho / frustum / perspective / perspectiveFov /
infinitePerspective × {RH,LH} × {NO,ZO}, the eight corners of the view volume, multiplied by
the traced matrix and divided by `w`, are the corners of the clip cube; the unsuffixed and
half-suffixed builders traced under each of the four clip-control configurations meet the
specification of exactly the variant `GLM_FORCE_LEFT_HANDED` / `GLM_FORCE_DEPTH_ZERO_TO_ONE`
select; `project` is the viewport transform of the normalised device coordinates under the
matching depth convention.  All as identities of rational functions in every field of
characteristic zero, for every parameter set whose listed divisors are non-zero.
-/
namespace Glm.Props.C08
open Glm Glm.Spec.C08 Glm.Gen.C08

variable {K : Type} [Field K] [CharZero K]

/-- **every builder family, every variant/configuration, every corner and coordinate**: the image of the
view-volume corner under the traced matrix, after the perspective divide, is the clip-cube corner —
whenever the family's divisors (`right-left`, `top-bottom`, `far-near`, `near`, `far`, `aspect·tan`, …)
are non-zero, and then no division by zero is evaluated at all. -/
theorem corners_correct {o : Ops K} (ho : FieldLike o) (f : Family) (hf : f ∈ families)
    (htm : f.treeMode = false) (hk : f.kind = .frac) (hdf : f.divFree = false)
    (ks : List Nat) (hks : ks ∈ f.keys) (j : Nat) (hj : j < f.nOut ks) (env : Nat → K)
    (hall : ∀ a ∈ f.allowed ks, a.divOK o env ∧ a.eval o env ≠ 0) :
    (f.post ks (lookup f.unit ks).outE j).divOK o env ∧
    (f.post ks (lookup f.unit ks).outE j).eval o env = (f.spec ks j).eval o env :=
  Family.frac_sound ho (all_ok f hf) htm hk hdf hks hj env hall

/-- instance: `orthoRH_NO`, near-bottom-left corner `(l, b, -n)` ↦ x = -1 -/
example : f_ortho.spec [0, 0] 0 = .lit (-1) 1 ∧ f_ortho.spec [0, 0] 2 = .lit (-1) 1 ∧ f_ortho.spec [0, 1] 2 = .lit 0 1
    ∧ f_ortho.spec [0, 0] 23 = .lit 1 1 := by decide +kernel

/-- non-vacuity -/
example : (lookup "perspective" [0, 0]).nIn = 4 ∧ (lookup "perspective" [0, 0]).outs.length = 16 ∧
    families.length = 32 ∧ f_ortho_cfg.keys.length = 4 := by decide +kernel

/-- **`unProject(project(p)) = p`** for every projection matrix of the perspective shape (symbolic entries), identity
    model matrix and every viewport, under both depth conventions, in every field of characteristic zero — whenever the
    evaluation divides by zero nowhere -/
theorem unproject_project {K : Type} [Field K] [CharZero K] {o : Ops K} (ho : FieldLike o)
    (d : Nat) (hd : [d] ∈ f_unprojP.keys) (j : Nat) (hj : j < 3) (env : Nat → K)
    (hdiv : ((lookup "unprojP" [d]).outE j).divOK o env) :
    ((lookup "unprojP" [d]).outE j).eval o env = env j :=
  Family.frac_divfree_sound ho (all_ok f_unprojP (by simp [families])) rfl rfl (ks := [d]) hd (j := j) hj env hdiv
    (by intro x hx; simp [f_unprojP, v, E.divisors] at hx)

/-- **walk-mode families** (the code asks its questions in another order, or uses other but equivalent comparisons, than the
specification tree): for every input the traced tree and the specification tree evaluate alike, in every ordered field —
polynomial leaves unconditionally, -/
theorem walk_families_correct {K : Type} [Field K] [LinearOrder K] [IsStrictOrderedRing K] {o : Ops K} (ho : OrderedEqLike o)
    (f : Family) (hf : f ∈ families) (htm : f.treeMode = true) (hw : f.treeWalk = true) (hk : f.kind = .poly)
    (ks : List Nat) (hks : ks ∈ f.keys) (j : Nat) (hj : j < f.nOut ks) (env : Nat → K) :
    ((lookup f.unit ks).out j).eval o env = (f.specT ks j).eval o env :=
  Family.walk_poly_sound ho (all_ok f hf) htm hw hk hks hj env

/-- rational leaves whenever neither selected leaf divides by zero. -/
theorem walk_frac_families_correct {K : Type} [Field K] [LinearOrder K] [IsStrictOrderedRing K] {o : Ops K} (ho : OrderedEqLike o)
    (f : Family) (hf : f ∈ families) (htm : f.treeMode = true) (hw : f.treeWalk = true) (hk : f.kind = .frac)
    (ks : List Nat) (hks : ks ∈ f.keys) (j : Nat) (hj : j < f.nOut ks) (env : Nat → K)
    (hd1 : (((lookup f.unit ks).out j).select o env).divOK o env) (hd2 : ((f.specT ks j).select o env).divOK o env) :
    ((lookup f.unit ks).out j).eval o env = (f.specT ks j).eval o env :=
  Family.walk_frac_sound ho (all_ok f hf) htm hw hk hks hj env hd1 hd2

end Glm.Props.C08
