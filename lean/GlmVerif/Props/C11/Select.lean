import GlmVerif.Props.C11.Tac
/-!
# C11 (1): IEEE order on bit patterns and glm's selection / NaN logic — binary32

Every theorem quantifies over **all** 2^32 bit patterns of every argument (`bv_decide`).
"is an argument" means bit-identical (payload and sign of zero included).
-/
namespace GlmVerif.C11

/-! ### the order predicates are the IEEE-754 order (structure of `key`) -/
theorem lt_irrefl (x : UInt32) : lt x x = false := by c11_bv
theorem lt_trans (x y z : UInt32) (h1 : lt x y = true) (h2 : lt y z = true) : lt x z = true := by c11_bv
theorem lt_trichotomy (x y : UInt32) (hx : isNaN x = false) (hy : isNaN y = false) :
    (lt x y || feq x y || lt y x) = true := by c11_bv
theorem le_iff_lt_or_eq (x y : UInt32) : le x y = (lt x y || feq x y) := by c11_bv
theorem nan_unordered (x y : UInt32) (h : (isNaN x || isNaN y) = true) :
    lt x y = false ∧ le x y = false ∧ feq x y = false := by c11_bv
theorem zeros_equal : feq 0x00000000 0x80000000 = true ∧ lt 0x80000000 0x00000000 = false := by decide
/-- equal values are bit-identical except for the two zeros -/
theorem feq_bits (x y : UInt32) (h : feq x y = true) : x = y ∨ (isZero x && isZero y) = true := by c11_bv
/-- positive floats are ordered like their bit patterns, negative ones in reverse, negative < positive -/
theorem lt_pos (x y : UInt32) (hx : isNaN x = false) (hy : isNaN y = false) (sx : signBit x = false) (sy : signBit y = false) :
    lt x y = decide (x < y) := by c11_bv
theorem lt_neg (x y : UInt32) (hx : isNaN x = false) (hy : isNaN y = false) (sx : signBit x = true) (sy : signBit y = true) :
    lt x y = decide (y < x) := by c11_bv
theorem lt_mixed (x y : UInt32) (hx : isNaN x = false) (hy : isNaN y = false) (sx : signBit x = true) (sy : signBit y = false) :
    lt x y = !(isZero x && isZero y) ∧ lt y x = false := by c11_bv
/-- classification agrees with the field view: exponent all ones, fraction non-zero / zero -/
theorem isnan_fields (x : UInt32) : glmIsnan x = (((x >>> 23) &&& 0xFF) == 0xFF && !((x &&& 0x7FFFFF) == 0)) := by c11_bv
theorem isinf_fields (x : UInt32) : glmIsinf x = (((x >>> 23) &&& 0xFF) == 0xFF && (x &&& 0x7FFFFF) == 0) := by c11_bv

/-! ### min / max : `(y < x) ? y : x`, `(x < y) ? y : x` -/
theorem min_is_arg (x y : UInt32) : min x y = x ∨ min x y = y := by c11_bv
theorem max_is_arg (x y : UInt32) : max x y = x ∨ max x y = y := by c11_bv
theorem min_spec (x y : UInt32) (hx : isNaN x = false) (hy : isNaN y = false) : isMinOf2 (min x y) x y = true := by c11_bv
theorem max_spec (x y : UInt32) (hx : isNaN x = false) (hy : isNaN y = false) : isMaxOf2 (max x y) x y = true := by c11_bv
/-- which argument: the *first* one when the operands are equal (so `min(+0,-0) = +0`,
`min(-0,+0) = -0`) or when either is NaN (so `min(x, NaN) = x` but `min(NaN, y) = NaN`) -/
theorem min_first (x y : UInt32) (h : (feq x y || isNaN x || isNaN y) = true) : min x y = x := by c11_bv
theorem max_first (x y : UInt32) (h : (feq x y || isNaN x || isNaN y) = true) : max x y = x := by c11_bv

/-! ### clamp = min(max(x, lo), hi) -/
theorem clamp_is_arg (x lo hi : UInt32) : clamp x lo hi = x ∨ clamp x lo hi = lo ∨ clamp x lo hi = hi := by c11_bv
theorem clamp_spec (x lo hi : UInt32) (hx : isNaN x = false) (hl : isNaN lo = false) (hh : isNaN hi = false)
    (h : le lo hi = true) : isClampOf (clamp x lo hi) x lo hi = true := by c11_bv
theorem clamp_range (x lo hi : UInt32) (hx : isNaN x = false) (h : le lo hi = true) :
    le lo (clamp x lo hi) = true ∧ le (clamp x lo hi) hi = true := by c11_bv
/-- a NaN `x` is passed through (GLSL leaves it undefined) -/
theorem clamp_nan (x lo hi : UInt32) (hx : isNaN x = true) : clamp x lo hi = x := by c11_bv

/-! ### step, sign, abs, mix(bool) -/
theorem step_range (edge x : UInt32) : step edge x = fZero ∨ step edge x = fOne := by c11_bv
theorem step_spec (edge x : UInt32) : step edge x = if lt x edge then fZero else fOne := by c11_bv
/-- GLSL: sign ∈ {-1, 0, +1}.  glm returns exactly one of the three patterns for *every* input:
+0 for both zeros and for NaN (`0.0f - 0.0f`), never −0. -/
theorem sign_range (x : UInt32) : sign x = fNegOne ∨ sign x = fZero ∨ sign x = fOne := by c11_bv
theorem sign_spec (x : UInt32) :
    sign x = if lt fZero x then fOne else if lt x fZero then fNegOne else fZero := by c11_bv
theorem sign_zero_nan (x : UInt32) (h : (isZero x || isNaN x) = true) : sign x = fZero := by c11_bv
/-- `x >= 0 ? x : -x`: the magnitude is kept; the sign bit is cleared for every non-NaN input
except −0 (`-0 >= 0` is true, so −0 is returned as is: equal to +0 as a value). -/
theorem abs_mag (x : UInt32) : mag (abs x) = mag x := by c11_bv
theorem abs_spec (x : UInt32) (hx : isNaN x = false) : feq (abs x) (mag x) = true ∧ le fZero (abs x) = true := by c11_bv
theorem abs_bits (x : UInt32) (hx : isNaN x = false) (hz : !(x == 0x80000000) = true) : abs x = mag x := by c11_bv
theorem abs_neg_zero : abs 0x80000000 = 0x80000000 := by decide
theorem mixb_spec (x y : UInt32) : mixb x y false = x ∧ mixb x y true = y := by simp [mixb]

/-! ### min / max with 3 and 4 arguments -/
theorem min3_is_arg (a b c : UInt32) : min3 a b c = a ∨ min3 a b c = b ∨ min3 a b c = c := by c11_bv
theorem max3_is_arg (a b c : UInt32) : max3 a b c = a ∨ max3 a b c = b ∨ max3 a b c = c := by c11_bv
theorem min4_is_arg (a b c d : UInt32) : min4 a b c d = a ∨ min4 a b c d = b ∨ min4 a b c d = c ∨ min4 a b c d = d := by c11_bv
theorem max4_is_arg (a b c d : UInt32) : max4 a b c d = a ∨ max4 a b c d = b ∨ max4 a b c d = c ∨ max4 a b c d = d := by c11_bv
theorem min3_spec (a b c : UInt32) (ha : isNaN a = false) (hb : isNaN b = false) (hc : isNaN c = false) :
    isMinOf3 (min3 a b c) a b c = true := by c11_bv
theorem max3_spec (a b c : UInt32) (ha : isNaN a = false) (hb : isNaN b = false) (hc : isNaN c = false) :
    isMaxOf3 (max3 a b c) a b c = true := by c11_bv
theorem min4_spec (a b c d : UInt32) (ha : isNaN a = false) (hb : isNaN b = false) (hc : isNaN c = false) (hd : isNaN d = false) :
    isMinOf4 (min4 a b c d) a b c d = true := by c11_bv
theorem max4_spec (a b c d : UInt32) (ha : isNaN a = false) (hb : isNaN b = false) (hc : isNaN c = false) (hd : isNaN d = false) :
    isMaxOf4 (max4 a b c d) a b c d = true := by c11_bv

/-! ### fmin / fmax / fclamp : NaN only if every operand is NaN; otherwise the extremum of the
non-NaN operands -/
theorem fmin2_is_arg (a b : UInt32) : fmin2 a b = a ∨ fmin2 a b = b := by c11_bv
theorem fmax2_is_arg (a b : UInt32) : fmax2 a b = a ∨ fmax2 a b = b := by c11_bv
theorem fmin2_nan (a b : UInt32) : isNaN (fmin2 a b) = (isNaN a && isNaN b) := by c11_bv
theorem fmax2_nan (a b : UInt32) : isNaN (fmax2 a b) = (isNaN a && isNaN b) := by c11_bv
theorem fmin2_bound (a b : UInt32) (h : (isNaN a && isNaN b) = false) :
    ((isNaN a || le (fmin2 a b) a) && (isNaN b || le (fmin2 a b) b)) = true := by c11_bv
theorem fmax2_bound (a b : UInt32) (h : (isNaN a && isNaN b) = false) :
    ((isNaN a || le a (fmax2 a b)) && (isNaN b || le b (fmax2 a b))) = true := by c11_bv
/-- the pre-C++11 fallback of ext/scalar_common.inl:30-38 returns the same bits -/
theorem fmin2_fallback_eq (a b : UInt32) : fmin2_fallback a b = fmin2 a b := by c11_bv
theorem fmax2_fallback_eq (a b : UInt32) : fmax2_fallback a b = fmax2 a b := by c11_bv

theorem fmin3_is_arg (a b c : UInt32) : fmin3 a b c = a ∨ fmin3 a b c = b ∨ fmin3 a b c = c := by c11_bv
theorem fmax3_is_arg (a b c : UInt32) : fmax3 a b c = a ∨ fmax3 a b c = b ∨ fmax3 a b c = c := by c11_bv
theorem fmin3_nan (a b c : UInt32) : isNaN (fmin3 a b c) = (isNaN a && isNaN b && isNaN c) := by c11_bv
theorem fmax3_nan (a b c : UInt32) : isNaN (fmax3 a b c) = (isNaN a && isNaN b && isNaN c) := by c11_bv
theorem fmin3_bound (a b c : UInt32) (h : (isNaN a && isNaN b && isNaN c) = false) :
    ((isNaN a || le (fmin3 a b c) a) && (isNaN b || le (fmin3 a b c) b) && (isNaN c || le (fmin3 a b c) c)) = true := by c11_bv
theorem fmax3_bound (a b c : UInt32) (h : (isNaN a && isNaN b && isNaN c) = false) :
    ((isNaN a || le a (fmax3 a b c)) && (isNaN b || le b (fmax3 a b c)) && (isNaN c || le c (fmax3 a b c))) = true := by c11_bv

theorem fmin4_is_arg (a b c d : UInt32) :
    fmin4 a b c d = a ∨ fmin4 a b c d = b ∨ fmin4 a b c d = c ∨ fmin4 a b c d = d := by c11_bv
theorem fmax4_is_arg (a b c d : UInt32) :
    fmax4 a b c d = a ∨ fmax4 a b c d = b ∨ fmax4 a b c d = c ∨ fmax4 a b c d = d := by c11_bv
theorem fmin4_nan (a b c d : UInt32) : isNaN (fmin4 a b c d) = (isNaN a && isNaN b && isNaN c && isNaN d) := by c11_bv
theorem fmax4_nan (a b c d : UInt32) : isNaN (fmax4 a b c d) = (isNaN a && isNaN b && isNaN c && isNaN d) := by c11_bv
theorem fmin4_bound (a b c d : UInt32) (h : (isNaN a && isNaN b && isNaN c && isNaN d) = false) :
    ((isNaN a || le (fmin4 a b c d) a) && (isNaN b || le (fmin4 a b c d) b) &&
     (isNaN c || le (fmin4 a b c d) c) && (isNaN d || le (fmin4 a b c d) d)) = true := by c11_bv
theorem fmax4_bound (a b c d : UInt32) (h : (isNaN a && isNaN b && isNaN c && isNaN d) = false) :
    ((isNaN a || le a (fmax4 a b c d)) && (isNaN b || le b (fmax4 a b c d)) &&
     (isNaN c || le c (fmax4 a b c d)) && (isNaN d || le d (fmax4 a b c d))) = true := by c11_bv

/-- the vector overloads (folds of the binary function, ext/vector_common.inl:48-60, 76-88) -/
theorem vfmin3_nan (a b c : UInt32) : isNaN (vfmin3 a b c) = (isNaN a && isNaN b && isNaN c) := by c11_bv
theorem vfmax3_nan (a b c : UInt32) : isNaN (vfmax3 a b c) = (isNaN a && isNaN b && isNaN c) := by c11_bv
theorem vfmin4_nan (a b c d : UInt32) : isNaN (vfmin4 a b c d) = (isNaN a && isNaN b && isNaN c && isNaN d) := by c11_bv
theorem vfmax4_nan (a b c d : UInt32) : isNaN (vfmax4 a b c d) = (isNaN a && isNaN b && isNaN c && isNaN d) := by c11_bv
/-- scalar and vector 3/4-argument forms return equal values (bit-identical up to the sign of zero) -/
theorem vfmin3_eq (a b c : UInt32) : (same (vfmin3 a b c) (fmin3 a b c) || feq (vfmin3 a b c) (fmin3 a b c)) = true := by c11_bv
theorem vfmax3_eq (a b c : UInt32) : (same (vfmax3 a b c) (fmax3 a b c) || feq (vfmax3 a b c) (fmax3 a b c)) = true := by c11_bv
theorem vfmin4_eq (a b c d : UInt32) : (same (vfmin4 a b c d) (fmin4 a b c d) || feq (vfmin4 a b c d) (fmin4 a b c d)) = true := by c11_bv
theorem vfmax4_eq (a b c d : UInt32) : (same (vfmax4 a b c d) (fmax4 a b c d) || feq (vfmax4 a b c d) (fmax4 a b c d)) = true := by c11_bv

theorem fclamp_is_arg (x lo hi : UInt32) : fclamp x lo hi = x ∨ fclamp x lo hi = lo ∨ fclamp x lo hi = hi := by c11_bv
theorem fclamp_nan (x lo hi : UInt32) : isNaN (fclamp x lo hi) = (isNaN x && isNaN lo && isNaN hi) := by c11_bv
/-- on NaN-free bounds with `lo <= hi`: a NaN `x` clamps to `lo`, anything else like `clamp` -/
theorem fclamp_spec (x lo hi : UInt32) (hl : isNaN lo = false) (hh : isNaN hi = false) (h : le lo hi = true) :
    (if isNaN x then fclamp x lo hi == lo else isClampOf (fclamp x lo hi) x lo hi) = true := by c11_bv

/-! ### bit casts are the identity on the 32 bits (lossless both ways) -/
theorem floatBitsToInt_bits (v : UInt32) : (floatBitsToInt v).toUInt32 = v := by c11_bv
theorem floatBitsToUint_bits (v : UInt32) : floatBitsToUint v = v := rfl
theorem intBitsToFloat_bits (v : Int32) : (intBitsToFloat v).toInt32 = v := by c11_bv
theorem uintBitsToFloat_bits (v : UInt32) : uintBitsToFloat v = v := rfl
theorem bitcast_roundtrip (v : UInt32) :
    intBitsToFloat (floatBitsToInt v) = v ∧ uintBitsToFloat (floatBitsToUint v) = v := by c11_bv

/-! ### non-vacuity -/
example : min 0x3F800000 0x40000000 = 0x3F800000 ∧ max 0x3F800000 0x40000000 = 0x40000000 := by decide
example : min 0x3F800000 0x7FC00000 = 0x3F800000 ∧ min 0x7FC00000 0x3F800000 = 0x7FC00000 := by decide
example : fmin3 0x7FC00000 0x7FC00001 0x40000000 = 0x40000000 := by decide
example : clamp 0x40400000 0x00000000 0x3F800000 = 0x3F800000 := by decide
example : sign 0xC0000000 = fNegOne ∧ sign 0x80000000 = fZero ∧ sign 0x7FC00000 = fZero := by decide
example : ∃ x y, isNaN x = false ∧ isNaN y = false ∧ lt x y = true := ⟨0, 1, by decide⟩

end GlmVerif.C11
