import GlmVerif.Props.C11.Tac
/-!
# C11 (3a): the bit-level specification of floor / ceil / trunc / round / rint (roundEven) is the
IEEE-754 / GLSL definition — binary32, all 2^32 patterns (pairs: all 2^64)

`floorS x` is *the greatest integer-valued float ≤ x*, `ceilS x` the least one ≥ x (these two
statements characterise the functions completely); `truncS` is floor or ceil by sign;
`roundS`/`rintS` return an integer-valued float at distance ≤ 1/2 from `x` (stated in exact
2^-24 fixed point, `fix24`), and on a tie the one away from zero / the even one.
These are the functions glm forwards to libm (`using std::floor` …); glibc is compared with
them on every float by the harness.
-/
namespace GlmVerif.C11

/-! ### floor, ceil: order-theoretic characterisation -/
theorem floor_int (x : UInt32) (h : isFinite x = true) : isInt (floorS x) = true := by c11_bv
theorem floor_le (x : UInt32) (h : isNaN x = false) : le (floorS x) x = true := by c11_bv
theorem floor_greatest (x y : UInt32) (hy : isInt y = true) (h : le y x = true) : le y (floorS x) = true := by c11_bv
theorem ceil_int (x : UInt32) (h : isFinite x = true) : isInt (ceilS x) = true := by c11_bv
theorem ceil_ge (x : UInt32) (h : isNaN x = false) : le x (ceilS x) = true := by c11_bv
theorem ceil_least (x y : UInt32) (hy : isInt y = true) (h : le x y = true) : le (ceilS x) y = true := by c11_bv
/-- floor and ceil differ by exactly one unit unless `x` is an integer: `ceil x = floor x + 1`
computed exactly by the soft-float adder -/
theorem ceil_eq_floor_add_one (x : UInt32) (h : isFinite x = true) (hn : isInt x = false) :
    feq (ceilS x) (fadd (floorS x) fOne) = true := by c11_bv
theorem floor_of_int (x : UInt32) (h : isInt x = true) : floorS x = x ∧ ceilS x = x ∧ truncS x = x ∧ roundS x = x ∧ rintS x = x := by c11_bv
theorem floor_neg (x : UInt32) : same (floorS (neg x)) (neg (ceilS x)) = true := by c11_bv

/-! ### trunc -/
theorem trunc_eq (x : UInt32) : truncS x = if signBit x then ceilS x else floorS x := by c11_bv
theorem trunc_neg (x : UInt32) : same (truncS (neg x)) (neg (truncS x)) = true := by c11_bv
theorem trunc_mag_le (x : UInt32) (h : isNaN x = false) : mag (truncS x) ≤ mag x := by c11_bv

/-! ### round (ties away), rint = roundEven (ties to even): nearest integer in exact fixed point -/
/-- small arguments: |x| < 1/2 rounds to a zero with the sign of x -/
theorem round_small (x : UInt32) (h : expo x < 126) : roundS x = (x &&& 0x80000000) ∧ rintS x = (x &&& 0x80000000) := by c11_bv
/-- from 2^23 on every float is an integer (also ±inf): returned unchanged -/
theorem round_large (x : UInt32) (hn : isNaN x = false) (h : expo x ≥ 150) : roundS x = x ∧ rintS x = x := by c11_bv
theorem round_nan (x : UInt32) (h : isNaN x = true) :
    (isNaN (roundS x) && isNaN (rintS x) && isNaN (floorS x) && isNaN (ceilS x) && isNaN (truncS x)) = true := by c11_bv
/-- the sign of the argument is kept (also on a zero result) -/
theorem round_sign (x : UInt32) (hn : isNaN x = false) :
    signBit (roundS x) = signBit x ∧ signBit (rintS x) = signBit x ∧ signBit (truncS x) = signBit x := by c11_bv

/-- distance in units of 2^-24 -/
def dist24 (x r : UInt32) : UInt64 := if fix24 x ≥ fix24 r then fix24 x - fix24 r else fix24 r - fix24 x

/-- 1/2 ≤ |x| < 2^23: the result is an integer at distance ≤ 1/2 -/
theorem round_nearest (x : UInt32) (h1 : expo x ≥ 126) (h2 : expo x < 150) :
    isInt (roundS x) = true ∧ dist24 x (roundS x) ≤ 0x800000 := by
  unfold dist24; c11_bv
theorem rint_nearest (x : UInt32) (h1 : expo x ≥ 126) (h2 : expo x < 150) :
    isInt (rintS x) = true ∧ dist24 x (rintS x) ≤ 0x800000 := by
  unfold dist24; c11_bv
/-- ties: round goes away from zero, rint to the even integer -/
theorem round_tie_away (x : UInt32) (h1 : expo x ≥ 126) (h2 : expo x < 150) (ht : dist24 x (roundS x) = 0x800000) :
    mag (roundS x) > mag x := by
  unfold dist24 at ht; c11_bv
theorem rint_tie_even (x : UInt32) (h1 : expo x ≥ 126) (h2 : expo x < 150) (ht : dist24 x (rintS x) = 0x800000) :
    isEvenInt (rintS x) = true := by
  unfold dist24 at ht; c11_bv
/-- `fix24` is the exact value: it is strictly monotone in the magnitude on its range -/
theorem fix24_mono (x y : UInt32) (hx : expo x ≥ 126) (hx2 : expo x < 165) (hy : expo y ≥ 126) (hy2 : expo y < 165)
    (h : mag x < mag y) : fix24 x < fix24 y := by c11_bv
/-- … and integers are exactly the multiples of 2^24 -/
theorem fix24_int (x : UInt32) (hx : expo x ≥ 126) (hx2 : expo x < 165) : isInt x = (fix24 x &&& 0xFFFFFF == 0) := by c11_bv
theorem fix24_even (x : UInt32) (hx : expo x ≥ 126) (hx2 : expo x < 165) : isEvenInt x = (fix24 x &&& 0x1FFFFFF == 0) := by c11_bv
/-- floor in fixed point: 0 ≤ x − floor x < 1 for positive x, on the range of `fix24` -/
theorem floor_fix (x : UInt32) (s : signBit x = false) (h1 : expo x ≥ 127) (h2 : expo x < 150) :
    fix24 (floorS x) ≤ fix24 x ∧ fix24 x - fix24 (floorS x) < 0x1000000 := by c11_bv

/-- the same "nearest" statement through the soft-float subtraction (exact here): |x − r| ≤ 1/2 -/
theorem round_nearest_sub (x : UInt32) (h : isFinite x = true) : le (abs (fsub x (roundS x))) fHalf = true := by c11_bv
theorem rint_nearest_sub (x : UInt32) (h : isFinite x = true) : le (abs (fsub x (rintS x))) fHalf = true := by c11_bv
theorem rint_tie_even_sub (x : UInt32) (h : isFinite x = true) (ht : feq (abs (fsub x (rintS x))) fHalf = true) :
    isEvenInt (rintS x) = true := by c11_bv
theorem round_tie_away_sub (x : UInt32) (h : isFinite x = true) (ht : feq (abs (fsub x (roundS x))) fHalf = true) :
    mag (roundS x) > mag x := by c11_bv
theorem round_rint_int (x : UInt32) (h : isFinite x = true) : isInt (roundS x) = true ∧ isInt (rintS x) = true ∧ isInt (truncS x) = true := by c11_bv

/-! ### idempotent, monotone, odd -/
theorem idempotent (x : UInt32) :
    floorS (floorS x) = floorS x ∧ ceilS (ceilS x) = ceilS x ∧ truncS (truncS x) = truncS x ∧
    roundS (roundS x) = roundS x ∧ rintS (rintS x) = rintS x := by c11_bv
theorem floor_mono (x y : UInt32) (h : le x y = true) : le (floorS x) (floorS y) = true := by c11_bv
theorem ceil_mono (x y : UInt32) (h : le x y = true) : le (ceilS x) (ceilS y) = true := by c11_bv
theorem trunc_mono (x y : UInt32) (h : le x y = true) : le (truncS x) (truncS y) = true := by c11_bv
theorem round_mono (x y : UInt32) (h : le x y = true) : le (roundS x) (roundS y) = true := by c11_bv
theorem rint_mono (x y : UInt32) (h : le x y = true) : le (rintS x) (rintS y) = true := by c11_bv
theorem round_odd (x : UInt32) : same (roundS (neg x)) (neg (roundS x)) = true ∧ same (rintS (neg x)) (neg (rintS x)) = true := by c11_bv
/-- round and rint lie between floor and ceil and differ only on ties -/
theorem round_between (x : UInt32) (h : isNaN x = false) :
    (le (floorS x) (roundS x) && le (roundS x) (ceilS x) && le (floorS x) (rintS x) && le (rintS x) (ceilS x)) = true := by c11_bv
theorem round_eq_rint_off_ties (x : UInt32) (h : isFinite x = true) (ht : feq (abs (fsub x (rintS x))) fHalf = false) :
    roundS x = rintS x := by c11_bv

/-! ### the soft-float adder: algebraic sanity (the bit-exact tie to hardware is the correspondence) -/
theorem fadd_comm (a b : UInt32) : fadd a b = fadd b a := by c11_bv
theorem fadd_zero (a : UInt32) (h : isNaN a = false) (hz : isZero a = false) : fadd a fZero = a ∧ fadd a 0x80000000 = a := by c11_bv
theorem fadd_neg (a b : UInt32) : same (fadd (neg a) (neg b)) (neg (fadd a b)) = true ∨ (isZero (fadd a b) = true ∧ isZero (fadd (neg a) (neg b)) = true) := by c11_bv
theorem fsub_self (a : UInt32) (h : isFinite a = true) : fsub a a = fZero := by c11_bv
theorem fmul2_eq_fadd (a : UInt32) : same (fmul2 a) (fadd a a) = true := by c11_bv
theorem fdiv2_fmul2 (a : UInt32) (h : isFinite (fmul2 a) = true) : fdiv2 (fmul2 a) = a := by c11_bv

/-! ### non-vacuity -/
example : floorS 0xC0200000 = 0xC0400000 ∧ ceilS 0xC0200000 = 0xC0000000 := by decide   -- -2.5 -> -3, -2
example : roundS 0x40200000 = 0x40400000 ∧ rintS 0x40200000 = 0x40000000 := by decide   -- 2.5 -> 3 / 2
example : rintS 0x40600000 = 0x40800000 ∧ rintS 0x3F000000 = 0 ∧ rintS 0xBF000000 = 0x80000000 := by decide
example : roundS 0x3EFFFFFF = 0 ∧ dist24 0x40200000 (rintS 0x40200000) = 0x800000 := by decide
example : ∃ x, expo x ≥ 126 ∧ expo x < 150 ∧ dist24 x (rintS x) = 0x800000 := ⟨0x40200000, by decide⟩

end GlmVerif.C11
