import GlmVerif.Hand.C11
import GlmVerif.Gen.C11Consts
import Mathlib.Analysis.Real.Pi.Bounds
import Mathlib.Analysis.Complex.ExponentialBounds
/-!
# C11 (5): the constants of ext/scalar_constants.inl and gtc/constants.inl are correctly rounded

`Gen.C11.lit_<name>` is the exact rational value of the decimal literal found in /repo by
`checks/c11.py` at check time.  For each constant `<name>_f64` states that the literal and the
real number it names round to the *same* binary64 number (`CorrectlyRounded64`), and `<name>_f32`
that rounding the literal to binary64 and then to binary32 — what `static_cast<float>` of a double
literal does — gives the binary32 number nearest to the real number (`CorrectlyRounded32`).
The rational work is done by the kernel (`decide +kernel` on `Const.chk64/chk32`, core `Rat`);
that the enclosure contains the real number comes from Mathlib (`Real.pi_gt_d20`,
`Real.exp_one_near_20`, `Real.log_two_near_10`, `Real.log_five_near_10`, squaring for roots).

Not provable with Mathlib v4.33 bounds and therefore compared only numerically (40-digit
sympy values, in the harness): `ln_two`, `ln_ten`, `root_ln_four` at double precision;
`euler` (γ), `ln_ln_two`, `cos_one_over_two` at both precisions.
-/
set_option linter.unnecessarySeqFocus false
set_option linter.unusedTactic false
set_option linter.unreachableTactic false

namespace GlmVerif.C11.Const

/-- real-number version of `Rounds`: Q is strictly inside the rounding interval of m·2^e -/
def RoundsR (p : Nat) (m e : Int) (Q : ℝ) : Prop :=
  (2 : Int) ^ (p - 1) < m ∧ m < (2 : Int) ^ p ∧
  (((((m : ℚ) - 1/2) * pow2 e : ℚ)) : ℝ) < Q ∧ Q < (((((m : ℚ) + 1/2) * pow2 e : ℚ)) : ℝ)

theorem RoundsR.of_encl {p : Nat} {m e : Int} {lo hi : ℚ} {Q : ℝ}
    (h1 : Rounds p m e lo) (h2 : Rounds p m e hi) (hlo : (lo : ℝ) ≤ Q) (hhi : Q ≤ (hi : ℝ)) : RoundsR p m e Q := by
  obtain ⟨a, b, c, _⟩ := h1
  obtain ⟨_, _, _, d⟩ := h2
  refine ⟨a, b, lt_of_lt_of_le ?_ hlo, lt_of_le_of_lt hhi ?_⟩
  · exact_mod_cast c
  · exact_mod_cast d

/-- `double(L)` is the binary64 number nearest to the real `Q` (a normal number: exponent range checked) -/
def CorrectlyRounded64 (L : ℚ) (Q : ℝ) : Prop :=
  ∃ m e : Int, -1074 ≤ e ∧ e ≤ 971 ∧ Rounds 53 m e L ∧ RoundsR 53 m e Q

/-- `float(double(L))` is the binary32 number nearest to the real `Q` -/
def CorrectlyRounded32 (L : ℚ) (Q : ℝ) : Prop :=
  ∃ m e m' e' : Int, -1074 ≤ e ∧ e ≤ 971 ∧ Rounds 53 m e L ∧
    -149 ≤ e' ∧ e' ≤ 104 ∧ Rounds 24 m' e' (value m e) ∧ RoundsR 24 m' e' Q

theorem correctlyRounded64_of_chk {L lo hi : ℚ} {Q : ℝ} (h : chk64 L lo hi = true)
    (hlo : (lo : ℝ) ≤ Q) (hhi : Q ≤ (hi : ℝ)) : CorrectlyRounded64 L Q := by
  simp only [chk64, decide_eq_true_eq] at h
  obtain ⟨hL, h1, h2, he1, he2⟩ := h
  exact ⟨_, _, he1, he2, hL, RoundsR.of_encl h1 h2 hlo hhi⟩

theorem correctlyRounded32_of_chk {L lo hi : ℚ} {Q : ℝ} (h : chk32 L lo hi = true)
    (hlo : (lo : ℝ) ≤ Q) (hhi : Q ≤ (hi : ℝ)) : CorrectlyRounded32 L Q := by
  simp only [chk32, decide_eq_true_eq] at h
  obtain ⟨hL, he1, he2, hd, h1, h2, he1', he2'⟩ := h
  exact ⟨_, _, _, _, he1, he2, hL, he1', he2', hd, RoundsR.of_encl h1 h2 hlo hhi⟩

/-! ### enclosure helpers -/
theorem pi_lo : (314159265358979323846 : ℝ) / 100000000000000000000 < Real.pi := by
  have := Real.pi_gt_d20; norm_num at this ⊢; linarith
theorem pi_hi : Real.pi < (314159265358979323847 : ℝ) / 100000000000000000000 := by
  have := Real.pi_lt_d20; norm_num at this ⊢; linarith
theorem sqrt_encl {y lo hi : ℝ} (hhi : 0 ≤ hi) (h1 : lo ^ 2 ≤ y) (h2 : y ≤ hi ^ 2) :
    lo ≤ Real.sqrt y ∧ Real.sqrt y ≤ hi :=
  ⟨Real.le_sqrt_of_sq_le h1, Real.sqrt_le_iff.mpr ⟨hhi, h2⟩⟩
theorem div_encl {c x a b : ℝ} (hc : 0 ≤ c) (ha : 0 < a) (h1 : a ≤ x) (h2 : x ≤ b) :
    c / b ≤ c / x ∧ c / x ≤ c / a :=
  ⟨div_le_div_of_nonneg_left hc (lt_of_lt_of_le ha h1) h2, div_le_div_of_nonneg_left hc ha h1⟩

/-! ### the constants -/
/-- enclosure of Real.pi -/
theorem pi_encl : (((157079632679489661923 : ℚ) / 50000000000000000000 : ℚ) : ℝ) ≤ Real.pi ∧ Real.pi ≤ (((314159265358979323847 : ℚ) / 100000000000000000000 : ℚ) : ℝ) := by
  constructor <;> (push_cast; linarith [pi_lo, pi_hi])
theorem pi_f64 : CorrectlyRounded64 Gen.C11.lit_pi (Real.pi) :=
  correctlyRounded64_of_chk (lo := (157079632679489661923 : ℚ) / 50000000000000000000) (hi := (314159265358979323847 : ℚ) / 100000000000000000000) (by decide +kernel) pi_encl.1 pi_encl.2
theorem pi_f32 : CorrectlyRounded32 Gen.C11.lit_pi (Real.pi) :=
  correctlyRounded32_of_chk (lo := (157079632679489661923 : ℚ) / 50000000000000000000) (hi := (314159265358979323847 : ℚ) / 100000000000000000000) (by decide +kernel) pi_encl.1 pi_encl.2

/-- enclosure of 2 * Real.pi -/
theorem two_pi_encl : (((157079632679489661923 : ℚ) / 25000000000000000000 : ℚ) : ℝ) ≤ 2 * Real.pi ∧ 2 * Real.pi ≤ (((314159265358979323847 : ℚ) / 50000000000000000000 : ℚ) : ℝ) := by
  constructor <;> (push_cast; linarith [pi_lo, pi_hi])
theorem two_pi_f64 : CorrectlyRounded64 Gen.C11.lit_two_pi (2 * Real.pi) :=
  correctlyRounded64_of_chk (lo := (157079632679489661923 : ℚ) / 25000000000000000000) (hi := (314159265358979323847 : ℚ) / 50000000000000000000) (by decide +kernel) two_pi_encl.1 two_pi_encl.2
theorem two_pi_f32 : CorrectlyRounded32 Gen.C11.lit_two_pi (2 * Real.pi) :=
  correctlyRounded32_of_chk (lo := (157079632679489661923 : ℚ) / 25000000000000000000) (hi := (314159265358979323847 : ℚ) / 50000000000000000000) (by decide +kernel) two_pi_encl.1 two_pi_encl.2

/-- enclosure of Real.pi / 2 -/
theorem half_pi_encl : (((157079632679489661923 : ℚ) / 100000000000000000000 : ℚ) : ℝ) ≤ Real.pi / 2 ∧ Real.pi / 2 ≤ (((314159265358979323847 : ℚ) / 200000000000000000000 : ℚ) : ℝ) := by
  constructor <;> (push_cast; linarith [pi_lo, pi_hi])
theorem half_pi_f64 : CorrectlyRounded64 Gen.C11.lit_half_pi (Real.pi / 2) :=
  correctlyRounded64_of_chk (lo := (157079632679489661923 : ℚ) / 100000000000000000000) (hi := (314159265358979323847 : ℚ) / 200000000000000000000) (by decide +kernel) half_pi_encl.1 half_pi_encl.2
theorem half_pi_f32 : CorrectlyRounded32 Gen.C11.lit_half_pi (Real.pi / 2) :=
  correctlyRounded32_of_chk (lo := (157079632679489661923 : ℚ) / 100000000000000000000) (hi := (314159265358979323847 : ℚ) / 200000000000000000000) (by decide +kernel) half_pi_encl.1 half_pi_encl.2

/-- enclosure of 3 * Real.pi / 2 -/
theorem three_over_two_pi_encl : (((471238898038468985769 : ℚ) / 100000000000000000000 : ℚ) : ℝ) ≤ 3 * Real.pi / 2 ∧ 3 * Real.pi / 2 ≤ (((942477796076937971541 : ℚ) / 200000000000000000000 : ℚ) : ℝ) := by
  constructor <;> (push_cast; linarith [pi_lo, pi_hi])
theorem three_over_two_pi_f64 : CorrectlyRounded64 Gen.C11.lit_three_over_two_pi (3 * Real.pi / 2) :=
  correctlyRounded64_of_chk (lo := (471238898038468985769 : ℚ) / 100000000000000000000) (hi := (942477796076937971541 : ℚ) / 200000000000000000000) (by decide +kernel) three_over_two_pi_encl.1 three_over_two_pi_encl.2
theorem three_over_two_pi_f32 : CorrectlyRounded32 Gen.C11.lit_three_over_two_pi (3 * Real.pi / 2) :=
  correctlyRounded32_of_chk (lo := (471238898038468985769 : ℚ) / 100000000000000000000) (hi := (942477796076937971541 : ℚ) / 200000000000000000000) (by decide +kernel) three_over_two_pi_encl.1 three_over_two_pi_encl.2

/-- enclosure of Real.pi / 4 -/
theorem quarter_pi_encl : (((157079632679489661923 : ℚ) / 200000000000000000000 : ℚ) : ℝ) ≤ Real.pi / 4 ∧ Real.pi / 4 ≤ (((314159265358979323847 : ℚ) / 400000000000000000000 : ℚ) : ℝ) := by
  constructor <;> (push_cast; linarith [pi_lo, pi_hi])
theorem quarter_pi_f64 : CorrectlyRounded64 Gen.C11.lit_quarter_pi (Real.pi / 4) :=
  correctlyRounded64_of_chk (lo := (157079632679489661923 : ℚ) / 200000000000000000000) (hi := (314159265358979323847 : ℚ) / 400000000000000000000) (by decide +kernel) quarter_pi_encl.1 quarter_pi_encl.2
theorem quarter_pi_f32 : CorrectlyRounded32 Gen.C11.lit_quarter_pi (Real.pi / 4) :=
  correctlyRounded32_of_chk (lo := (157079632679489661923 : ℚ) / 200000000000000000000) (hi := (314159265358979323847 : ℚ) / 400000000000000000000) (by decide +kernel) quarter_pi_encl.1 quarter_pi_encl.2

/-- enclosure of 1 / Real.pi -/
theorem one_over_pi_encl : (((318309886183790671537 : ℚ) / 1000000000000000000000 : ℚ) : ℝ) ≤ 1 / Real.pi ∧ 1 / Real.pi ≤ (((3183098861837906715381 : ℚ) / 10000000000000000000000 : ℚ) : ℝ) := by
  have h := div_encl (c := (1 : ℝ)) (by norm_num) (by norm_num) pi_lo.le pi_hi.le
  have hq : 1 / Real.pi = ((1 : ℝ)) / Real.pi := by field_simp
  rw [hq]
  constructor
  · refine le_trans ?_ h.1; push_cast; norm_num
  · refine le_trans h.2 ?_; push_cast; norm_num
theorem one_over_pi_f64 : CorrectlyRounded64 Gen.C11.lit_one_over_pi (1 / Real.pi) :=
  correctlyRounded64_of_chk (lo := (318309886183790671537 : ℚ) / 1000000000000000000000) (hi := (3183098861837906715381 : ℚ) / 10000000000000000000000) (by decide +kernel) one_over_pi_encl.1 one_over_pi_encl.2
theorem one_over_pi_f32 : CorrectlyRounded32 Gen.C11.lit_one_over_pi (1 / Real.pi) :=
  correctlyRounded32_of_chk (lo := (318309886183790671537 : ℚ) / 1000000000000000000000) (hi := (3183098861837906715381 : ℚ) / 10000000000000000000000) (by decide +kernel) one_over_pi_encl.1 one_over_pi_encl.2

/-- enclosure of 1 / (2 * Real.pi) -/
theorem one_over_two_pi_encl : (((318309886183790671537 : ℚ) / 2000000000000000000000 : ℚ) : ℝ) ≤ 1 / (2 * Real.pi) ∧ 1 / (2 * Real.pi) ≤ (((1591549430918953357691 : ℚ) / 10000000000000000000000 : ℚ) : ℝ) := by
  have h := div_encl (c := (1 : ℝ) / 2) (by norm_num) (by norm_num) pi_lo.le pi_hi.le
  have hq : 1 / (2 * Real.pi) = ((1 : ℝ) / 2) / Real.pi := by field_simp
  rw [hq]
  constructor
  · refine le_trans ?_ h.1; push_cast; norm_num
  · refine le_trans h.2 ?_; push_cast; norm_num
theorem one_over_two_pi_f64 : CorrectlyRounded64 Gen.C11.lit_one_over_two_pi (1 / (2 * Real.pi)) :=
  correctlyRounded64_of_chk (lo := (318309886183790671537 : ℚ) / 2000000000000000000000) (hi := (1591549430918953357691 : ℚ) / 10000000000000000000000) (by decide +kernel) one_over_two_pi_encl.1 one_over_two_pi_encl.2
theorem one_over_two_pi_f32 : CorrectlyRounded32 Gen.C11.lit_one_over_two_pi (1 / (2 * Real.pi)) :=
  correctlyRounded32_of_chk (lo := (318309886183790671537 : ℚ) / 2000000000000000000000) (hi := (1591549430918953357691 : ℚ) / 10000000000000000000000) (by decide +kernel) one_over_two_pi_encl.1 one_over_two_pi_encl.2

/-- enclosure of 2 / Real.pi -/
theorem two_over_pi_encl : (((318309886183790671537 : ℚ) / 500000000000000000000 : ℚ) : ℝ) ≤ 2 / Real.pi ∧ 2 / Real.pi ≤ (((6366197723675813430761 : ℚ) / 10000000000000000000000 : ℚ) : ℝ) := by
  have h := div_encl (c := (2 : ℝ)) (by norm_num) (by norm_num) pi_lo.le pi_hi.le
  have hq : 2 / Real.pi = ((2 : ℝ)) / Real.pi := by field_simp
  rw [hq]
  constructor
  · refine le_trans ?_ h.1; push_cast; norm_num
  · refine le_trans h.2 ?_; push_cast; norm_num
theorem two_over_pi_f64 : CorrectlyRounded64 Gen.C11.lit_two_over_pi (2 / Real.pi) :=
  correctlyRounded64_of_chk (lo := (318309886183790671537 : ℚ) / 500000000000000000000) (hi := (6366197723675813430761 : ℚ) / 10000000000000000000000) (by decide +kernel) two_over_pi_encl.1 two_over_pi_encl.2
theorem two_over_pi_f32 : CorrectlyRounded32 Gen.C11.lit_two_over_pi (2 / Real.pi) :=
  correctlyRounded32_of_chk (lo := (318309886183790671537 : ℚ) / 500000000000000000000) (hi := (6366197723675813430761 : ℚ) / 10000000000000000000000) (by decide +kernel) two_over_pi_encl.1 two_over_pi_encl.2

/-- enclosure of 4 / Real.pi -/
theorem four_over_pi_encl : (((318309886183790671537 : ℚ) / 250000000000000000000 : ℚ) : ℝ) ≤ 4 / Real.pi ∧ 4 / Real.pi ≤ (((6366197723675813430761 : ℚ) / 5000000000000000000000 : ℚ) : ℝ) := by
  have h := div_encl (c := (4 : ℝ)) (by norm_num) (by norm_num) pi_lo.le pi_hi.le
  have hq : 4 / Real.pi = ((4 : ℝ)) / Real.pi := by field_simp
  rw [hq]
  constructor
  · refine le_trans ?_ h.1; push_cast; norm_num
  · refine le_trans h.2 ?_; push_cast; norm_num
theorem four_over_pi_f64 : CorrectlyRounded64 Gen.C11.lit_four_over_pi (4 / Real.pi) :=
  correctlyRounded64_of_chk (lo := (318309886183790671537 : ℚ) / 250000000000000000000) (hi := (6366197723675813430761 : ℚ) / 5000000000000000000000) (by decide +kernel) four_over_pi_encl.1 four_over_pi_encl.2
theorem four_over_pi_f32 : CorrectlyRounded32 Gen.C11.lit_four_over_pi (4 / Real.pi) :=
  correctlyRounded32_of_chk (lo := (318309886183790671537 : ℚ) / 250000000000000000000) (hi := (6366197723675813430761 : ℚ) / 5000000000000000000000) (by decide +kernel) four_over_pi_encl.1 four_over_pi_encl.2

/-- enclosure of Real.sqrt Real.pi -/
theorem root_pi_encl : (((17724538509055160271 : ℚ) / 10000000000000000000 : ℚ) : ℝ) ≤ Real.sqrt Real.pi ∧ Real.sqrt Real.pi ≤ (((708981540362206411 : ℚ) / 400000000000000000 : ℚ) : ℝ) := by
  have hq : Real.sqrt Real.pi = Real.sqrt (((1 : ℝ)) * Real.pi) := by congr 1 <;> ring
  rw [hq]
  have h := sqrt_encl (y := ((1 : ℝ)) * Real.pi) (lo := (17724538509055160271 : ℝ) / 10000000000000000000) (hi := (708981540362206411 : ℝ) / 400000000000000000) (by norm_num)
    (by have := pi_lo; norm_num at this ⊢; linarith) (by have := pi_hi; norm_num at this ⊢; linarith)
  constructor
  · refine le_trans ?_ h.1; push_cast; norm_num
  · refine le_trans h.2 ?_; push_cast; norm_num
theorem root_pi_f64 : CorrectlyRounded64 Gen.C11.lit_root_pi (Real.sqrt Real.pi) :=
  correctlyRounded64_of_chk (lo := (17724538509055160271 : ℚ) / 10000000000000000000) (hi := (708981540362206411 : ℚ) / 400000000000000000) (by decide +kernel) root_pi_encl.1 root_pi_encl.2
theorem root_pi_f32 : CorrectlyRounded32 Gen.C11.lit_root_pi (Real.sqrt Real.pi) :=
  correctlyRounded32_of_chk (lo := (17724538509055160271 : ℚ) / 10000000000000000000) (hi := (708981540362206411 : ℚ) / 400000000000000000) (by decide +kernel) root_pi_encl.1 root_pi_encl.2

/-- enclosure of Real.sqrt (Real.pi / 2) -/
theorem root_half_pi_encl : (((12533141373155002511 : ℚ) / 10000000000000000000 : ℚ) : ℝ) ≤ Real.sqrt (Real.pi / 2) ∧ Real.sqrt (Real.pi / 2) ≤ (((6266570686577501257 : ℚ) / 5000000000000000000 : ℚ) : ℝ) := by
  have hq : Real.sqrt (Real.pi / 2) = Real.sqrt (((1 : ℝ) / 2) * Real.pi) := by congr 1 <;> ring
  rw [hq]
  have h := sqrt_encl (y := ((1 : ℝ) / 2) * Real.pi) (lo := (12533141373155002511 : ℝ) / 10000000000000000000) (hi := (6266570686577501257 : ℝ) / 5000000000000000000) (by norm_num)
    (by have := pi_lo; norm_num at this ⊢; linarith) (by have := pi_hi; norm_num at this ⊢; linarith)
  constructor
  · refine le_trans ?_ h.1; push_cast; norm_num
  · refine le_trans h.2 ?_; push_cast; norm_num
theorem root_half_pi_f64 : CorrectlyRounded64 Gen.C11.lit_root_half_pi (Real.sqrt (Real.pi / 2)) :=
  correctlyRounded64_of_chk (lo := (12533141373155002511 : ℚ) / 10000000000000000000) (hi := (6266570686577501257 : ℚ) / 5000000000000000000) (by decide +kernel) root_half_pi_encl.1 root_half_pi_encl.2
theorem root_half_pi_f32 : CorrectlyRounded32 Gen.C11.lit_root_half_pi (Real.sqrt (Real.pi / 2)) :=
  correctlyRounded32_of_chk (lo := (12533141373155002511 : ℚ) / 10000000000000000000) (hi := (6266570686577501257 : ℚ) / 5000000000000000000) (by decide +kernel) root_half_pi_encl.1 root_half_pi_encl.2

/-- enclosure of Real.sqrt (2 * Real.pi) -/
theorem root_two_pi_encl : (((25066282746310005023 : ℚ) / 10000000000000000000 : ℚ) : ℝ) ≤ Real.sqrt (2 * Real.pi) ∧ Real.sqrt (2 * Real.pi) ≤ (((12533141373155002513 : ℚ) / 5000000000000000000 : ℚ) : ℝ) := by
  have hq : Real.sqrt (2 * Real.pi) = Real.sqrt (((2 : ℝ)) * Real.pi) := by congr 1 <;> ring
  rw [hq]
  have h := sqrt_encl (y := ((2 : ℝ)) * Real.pi) (lo := (25066282746310005023 : ℝ) / 10000000000000000000) (hi := (12533141373155002513 : ℝ) / 5000000000000000000) (by norm_num)
    (by have := pi_lo; norm_num at this ⊢; linarith) (by have := pi_hi; norm_num at this ⊢; linarith)
  constructor
  · refine le_trans ?_ h.1; push_cast; norm_num
  · refine le_trans h.2 ?_; push_cast; norm_num
theorem root_two_pi_f64 : CorrectlyRounded64 Gen.C11.lit_root_two_pi (Real.sqrt (2 * Real.pi)) :=
  correctlyRounded64_of_chk (lo := (25066282746310005023 : ℚ) / 10000000000000000000) (hi := (12533141373155002513 : ℚ) / 5000000000000000000) (by decide +kernel) root_two_pi_encl.1 root_two_pi_encl.2
theorem root_two_pi_f32 : CorrectlyRounded32 Gen.C11.lit_root_two_pi (Real.sqrt (2 * Real.pi)) :=
  correctlyRounded32_of_chk (lo := (25066282746310005023 : ℚ) / 10000000000000000000) (hi := (12533141373155002513 : ℚ) / 5000000000000000000) (by decide +kernel) root_two_pi_encl.1 root_two_pi_encl.2

/-- enclosure of 2 / Real.sqrt Real.pi -/
theorem two_over_root_pi_encl : (((2820947917738781434419 : ℚ) / 2500000000000000000000 : ℚ) : ℝ) ≤ 2 / Real.sqrt Real.pi ∧ 2 / Real.sqrt Real.pi ≤ (((176309244858673839691 : ℚ) / 156250000000000000000 : ℚ) : ℝ) := by
  have hs := sqrt_encl (y := Real.pi) (lo := (17724538509055160271 : ℝ) / 10000000000000000000) (hi := (708981540362206411 : ℝ) / 400000000000000000) (by norm_num)
    (by have := pi_lo; norm_num at this ⊢; linarith) (by have := pi_hi; norm_num at this ⊢; linarith)
  have h := div_encl (c := 2) (by norm_num) (by norm_num) hs.1 hs.2
  constructor
  · refine le_trans ?_ h.1; push_cast; norm_num
  · refine le_trans h.2 ?_; push_cast; norm_num
theorem two_over_root_pi_f64 : CorrectlyRounded64 Gen.C11.lit_two_over_root_pi (2 / Real.sqrt Real.pi) :=
  correctlyRounded64_of_chk (lo := (2820947917738781434419 : ℚ) / 2500000000000000000000) (hi := (176309244858673839691 : ℚ) / 156250000000000000000) (by decide +kernel) two_over_root_pi_encl.1 two_over_root_pi_encl.2
theorem two_over_root_pi_f32 : CorrectlyRounded32 Gen.C11.lit_two_over_root_pi (2 / Real.sqrt Real.pi) :=
  correctlyRounded32_of_chk (lo := (2820947917738781434419 : ℚ) / 2500000000000000000000) (hi := (176309244858673839691 : ℚ) / 156250000000000000000) (by decide +kernel) two_over_root_pi_encl.1 two_over_root_pi_encl.2

/-- enclosure of Real.sqrt 2 -/
theorem root_two_encl : (((14142135623730950488016887 : ℚ) / 10000000000000000000000000 : ℚ) : ℝ) ≤ Real.sqrt 2 ∧ Real.sqrt 2 ≤ (((1767766952966368811002111 : ℚ) / 1250000000000000000000000 : ℚ) : ℝ) := by
  have h := sqrt_encl (y := 2) (lo := (14142135623730950488016887 : ℝ) / 10000000000000000000000000) (hi := (1767766952966368811002111 : ℝ) / 1250000000000000000000000) (by norm_num) (by norm_num) (by norm_num)
  constructor
  · refine le_trans ?_ h.1; push_cast; norm_num
  · refine le_trans h.2 ?_; push_cast; norm_num
theorem root_two_f64 : CorrectlyRounded64 Gen.C11.lit_root_two (Real.sqrt 2) :=
  correctlyRounded64_of_chk (lo := (14142135623730950488016887 : ℚ) / 10000000000000000000000000) (hi := (1767766952966368811002111 : ℚ) / 1250000000000000000000000) (by decide +kernel) root_two_encl.1 root_two_encl.2
theorem root_two_f32 : CorrectlyRounded32 Gen.C11.lit_root_two (Real.sqrt 2) :=
  correctlyRounded32_of_chk (lo := (14142135623730950488016887 : ℚ) / 10000000000000000000000000) (hi := (1767766952966368811002111 : ℚ) / 1250000000000000000000000) (by decide +kernel) root_two_encl.1 root_two_encl.2

/-- enclosure of Real.sqrt 3 -/
theorem root_three_encl : (((17320508075688772935274463 : ℚ) / 10000000000000000000000000 : ℚ) : ℝ) ≤ Real.sqrt 3 ∧ Real.sqrt 3 ≤ (((541265877365274154227327 : ℚ) / 312500000000000000000000 : ℚ) : ℝ) := by
  have h := sqrt_encl (y := 3) (lo := (17320508075688772935274463 : ℝ) / 10000000000000000000000000) (hi := (541265877365274154227327 : ℝ) / 312500000000000000000000) (by norm_num) (by norm_num) (by norm_num)
  constructor
  · refine le_trans ?_ h.1; push_cast; norm_num
  · refine le_trans h.2 ?_; push_cast; norm_num
theorem root_three_f64 : CorrectlyRounded64 Gen.C11.lit_root_three (Real.sqrt 3) :=
  correctlyRounded64_of_chk (lo := (17320508075688772935274463 : ℚ) / 10000000000000000000000000) (hi := (541265877365274154227327 : ℚ) / 312500000000000000000000) (by decide +kernel) root_three_encl.1 root_three_encl.2
theorem root_three_f32 : CorrectlyRounded32 Gen.C11.lit_root_three (Real.sqrt 3) :=
  correctlyRounded32_of_chk (lo := (17320508075688772935274463 : ℚ) / 10000000000000000000000000) (hi := (541265877365274154227327 : ℚ) / 312500000000000000000000) (by decide +kernel) root_three_encl.1 root_three_encl.2

/-- enclosure of Real.sqrt 5 -/
theorem root_five_encl : (((2795084971874737120511467 : ℚ) / 1250000000000000000000000 : ℚ) : ℝ) ≤ Real.sqrt 5 ∧ Real.sqrt 5 ≤ (((22360679774997896964091737 : ℚ) / 10000000000000000000000000 : ℚ) : ℝ) := by
  have h := sqrt_encl (y := 5) (lo := (2795084971874737120511467 : ℝ) / 1250000000000000000000000) (hi := (22360679774997896964091737 : ℝ) / 10000000000000000000000000) (by norm_num) (by norm_num) (by norm_num)
  constructor
  · refine le_trans ?_ h.1; push_cast; norm_num
  · refine le_trans h.2 ?_; push_cast; norm_num
theorem root_five_f64 : CorrectlyRounded64 Gen.C11.lit_root_five (Real.sqrt 5) :=
  correctlyRounded64_of_chk (lo := (2795084971874737120511467 : ℚ) / 1250000000000000000000000) (hi := (22360679774997896964091737 : ℚ) / 10000000000000000000000000) (by decide +kernel) root_five_encl.1 root_five_encl.2
theorem root_five_f32 : CorrectlyRounded32 Gen.C11.lit_root_five (Real.sqrt 5) :=
  correctlyRounded32_of_chk (lo := (2795084971874737120511467 : ℚ) / 1250000000000000000000000) (hi := (22360679774997896964091737 : ℚ) / 10000000000000000000000000) (by decide +kernel) root_five_encl.1 root_five_encl.2

/-- enclosure of 1 / Real.sqrt 2 -/
theorem one_over_root_two_encl : (((7071067811865475244008443 : ℚ) / 10000000000000000000000000 : ℚ) : ℝ) ≤ 1 / Real.sqrt 2 ∧ 1 / Real.sqrt 2 ≤ (((1767766952966368811002111 : ℚ) / 2500000000000000000000000 : ℚ) : ℝ) := by
  have hs := sqrt_encl (y := 2) (lo := (14142135623730950488016887 : ℝ) / 10000000000000000000000000) (hi := (1767766952966368811002111 : ℝ) / 1250000000000000000000000) (by norm_num) (by norm_num) (by norm_num)
  have h := div_encl (c := 1) (by norm_num) (by norm_num) hs.1 hs.2
  constructor
  · refine le_trans ?_ h.1; push_cast; norm_num
  · refine le_trans h.2 ?_; push_cast; norm_num
theorem one_over_root_two_f64 : CorrectlyRounded64 Gen.C11.lit_one_over_root_two (1 / Real.sqrt 2) :=
  correctlyRounded64_of_chk (lo := (7071067811865475244008443 : ℚ) / 10000000000000000000000000) (hi := (1767766952966368811002111 : ℚ) / 2500000000000000000000000) (by decide +kernel) one_over_root_two_encl.1 one_over_root_two_encl.2
theorem one_over_root_two_f32 : CorrectlyRounded32 Gen.C11.lit_one_over_root_two (1 / Real.sqrt 2) :=
  correctlyRounded32_of_chk (lo := (7071067811865475244008443 : ℚ) / 10000000000000000000000000) (hi := (1767766952966368811002111 : ℚ) / 2500000000000000000000000) (by decide +kernel) one_over_root_two_encl.1 one_over_root_two_encl.2

/-- enclosure of (1 + Real.sqrt 5) / 2 -/
theorem golden_ratio_encl : (((4045084971874737120511467 : ℚ) / 2500000000000000000000000 : ℚ) : ℝ) ≤ (1 + Real.sqrt 5) / 2 ∧ (1 + Real.sqrt 5) / 2 ≤ (((32360679774997896964091737 : ℚ) / 20000000000000000000000000 : ℚ) : ℝ) := by
  have hs := sqrt_encl (y := 5) (lo := (2795084971874737120511467 : ℝ) / 1250000000000000000000000) (hi := (22360679774997896964091737 : ℝ) / 10000000000000000000000000) (by norm_num) (by norm_num) (by norm_num)
  constructor <;> (push_cast; linarith [hs.1, hs.2])
theorem golden_ratio_f64 : CorrectlyRounded64 Gen.C11.lit_golden_ratio ((1 + Real.sqrt 5) / 2) :=
  correctlyRounded64_of_chk (lo := (4045084971874737120511467 : ℚ) / 2500000000000000000000000) (hi := (32360679774997896964091737 : ℚ) / 20000000000000000000000000) (by decide +kernel) golden_ratio_encl.1 golden_ratio_encl.2
theorem golden_ratio_f32 : CorrectlyRounded32 Gen.C11.lit_golden_ratio ((1 + Real.sqrt 5) / 2) :=
  correctlyRounded32_of_chk (lo := (4045084971874737120511467 : ℚ) / 2500000000000000000000000) (hi := (32360679774997896964091737 : ℚ) / 20000000000000000000000000) (by decide +kernel) golden_ratio_encl.1 golden_ratio_encl.2

/-- enclosure of (1 : ℝ) / 3 -/
theorem third_encl : (((1 : ℚ) / 3 : ℚ) : ℝ) ≤ (1 : ℝ) / 3 ∧ (1 : ℝ) / 3 ≤ (((1 : ℚ) / 3 : ℚ) : ℝ) := by
  constructor <;> (push_cast; norm_num)
theorem third_f64 : CorrectlyRounded64 Gen.C11.lit_third ((1 : ℝ) / 3) :=
  correctlyRounded64_of_chk (lo := (1 : ℚ) / 3) (hi := (1 : ℚ) / 3) (by decide +kernel) third_encl.1 third_encl.2
theorem third_f32 : CorrectlyRounded32 Gen.C11.lit_third ((1 : ℝ) / 3) :=
  correctlyRounded32_of_chk (lo := (1 : ℚ) / 3) (hi := (1 : ℚ) / 3) (by decide +kernel) third_encl.1 third_encl.2

/-- enclosure of (2 : ℝ) / 3 -/
theorem two_thirds_encl : (((2 : ℚ) / 3 : ℚ) : ℝ) ≤ (2 : ℝ) / 3 ∧ (2 : ℝ) / 3 ≤ (((2 : ℚ) / 3 : ℚ) : ℝ) := by
  constructor <;> (push_cast; norm_num)
theorem two_thirds_f64 : CorrectlyRounded64 Gen.C11.lit_two_thirds ((2 : ℝ) / 3) :=
  correctlyRounded64_of_chk (lo := (2 : ℚ) / 3) (hi := (2 : ℚ) / 3) (by decide +kernel) two_thirds_encl.1 two_thirds_encl.2
theorem two_thirds_f32 : CorrectlyRounded32 Gen.C11.lit_two_thirds ((2 : ℝ) / 3) :=
  correctlyRounded32_of_chk (lo := (2 : ℚ) / 3) (hi := (2 : ℚ) / 3) (by decide +kernel) two_thirds_encl.1 two_thirds_encl.2

/-- enclosure of Real.exp 1 -/
theorem e_encl : (((2718281828459045235345831 : ℚ) / 1000000000000000000000000 : ℚ) : ℝ) ≤ Real.exp 1 ∧ Real.exp 1 ≤ (((339785228557380654420729 : ℚ) / 125000000000000000000000 : ℚ) : ℝ) := by
  have h := abs_le.mp Real.exp_one_near_20
  constructor <;> (push_cast; norm_num at h ⊢; linarith [h.1, h.2])
theorem e_f64 : CorrectlyRounded64 Gen.C11.lit_e (Real.exp 1) :=
  correctlyRounded64_of_chk (lo := (2718281828459045235345831 : ℚ) / 1000000000000000000000000) (hi := (339785228557380654420729 : ℚ) / 125000000000000000000000) (by decide +kernel) e_encl.1 e_encl.2
theorem e_f32 : CorrectlyRounded32 Gen.C11.lit_e (Real.exp 1) :=
  correctlyRounded32_of_chk (lo := (2718281828459045235345831 : ℚ) / 1000000000000000000000000) (hi := (339785228557380654420729 : ℚ) / 125000000000000000000000) (by decide +kernel) e_encl.1 e_encl.2

/-- enclosure of Real.log 2 -/
theorem ln_two_encl : (((69314718045773 : ℚ) / 100000000000000 : ℚ) : ℝ) ≤ Real.log 2 ∧ Real.log 2 ≤ (((34657359032887 : ℚ) / 50000000000000 : ℚ) : ℝ) := by
  have h := abs_le.mp Real.log_two_near_10
  constructor <;> (push_cast; norm_num at h ⊢; linarith [h.1, h.2])
theorem ln_two_f32 : CorrectlyRounded32 Gen.C11.lit_ln_two (Real.log 2) :=
  correctlyRounded32_of_chk (lo := (69314718045773 : ℚ) / 100000000000000) (hi := (34657359032887 : ℚ) / 50000000000000) (by decide +kernel) ln_two_encl.1 ln_two_encl.2

/-- enclosure of Real.log 10 -/
theorem ln_ten_encl : (((230258509278773 : ℚ) / 100000000000000 : ℚ) : ℝ) ≤ Real.log 10 ∧ Real.log 10 ≤ (((115129254659387 : ℚ) / 50000000000000 : ℚ) : ℝ) := by
  have h2 := abs_le.mp Real.log_two_near_10
  have h5 := abs_le.mp Real.log_five_near_10
  have h10 : Real.log 10 = Real.log 2 + Real.log 5 := by rw [← Real.log_mul (by norm_num) (by norm_num)]; norm_num
  rw [h10]
  constructor <;> (push_cast; norm_num at h2 h5 ⊢; linarith [h2.1, h2.2, h5.1, h5.2])
theorem ln_ten_f32 : CorrectlyRounded32 Gen.C11.lit_ln_ten (Real.log 10) :=
  correctlyRounded32_of_chk (lo := (230258509278773 : ℚ) / 100000000000000) (hi := (115129254659387 : ℚ) / 50000000000000) (by decide +kernel) ln_ten_encl.1 ln_ten_encl.2

/-- enclosure of Real.sqrt (Real.log 4) -/
theorem root_ln_four_encl : (((1177410022427 : ℚ) / 1000000000000 : ℚ) : ℝ) ≤ Real.sqrt (Real.log 4) ∧ Real.sqrt (Real.log 4) ≤ (((5887050113 : ℚ) / 5000000000 : ℚ) : ℝ) := by
  have h2 := abs_le.mp Real.log_two_near_10
  rw [Real.log_four_eq]
  have h := sqrt_encl (y := 2 * Real.log 2) (lo := (1177410022427 : ℝ) / 1000000000000) (hi := (5887050113 : ℝ) / 5000000000) (by norm_num)
    (by norm_num at h2 ⊢; linarith [h2.1]) (by norm_num at h2 ⊢; linarith [h2.2])
  constructor
  · refine le_trans ?_ h.1; push_cast; norm_num
  · refine le_trans h.2 ?_; push_cast; norm_num
theorem root_ln_four_f32 : CorrectlyRounded32 Gen.C11.lit_root_ln_four (Real.sqrt (Real.log 4)) :=
  correctlyRounded32_of_chk (lo := (1177410022427 : ℚ) / 1000000000000) (hi := (5887050113 : ℚ) / 5000000000) (by decide +kernel) root_ln_four_encl.1 root_ln_four_encl.2

/-! ### exact and structural constants -/
theorem zero_exact : Gen.C11.lit_zero = 0 := by decide +kernel
theorem one_exact : Gen.C11.lit_one = 1 := by decide +kernel
/-- `tau<T>()` forwards to `two_pi<T>()` -/
theorem tau_alias : Gen.C11.alias_tau = "two_pi" := by decide
/-- `epsilon<T>()` is `std::numeric_limits<T>::epsilon()` (value checked by the harness: 2^-23 / 2^-52) -/
theorem epsilon_numeric_limits : Gen.C11.numeric_limits_epsilon = true := by decide
/-- every constant of the two files is accounted for (a new or renamed constant changes this list) -/
theorem names_covered : Gen.C11.names =
    ["epsilon", "pi", "cos_one_over_two", "zero", "one", "two_pi", "tau", "root_pi", "half_pi",
     "three_over_two_pi", "quarter_pi", "one_over_pi", "one_over_two_pi", "two_over_pi", "four_over_pi",
     "two_over_root_pi", "one_over_root_two", "root_half_pi", "root_two_pi", "root_ln_four", "e", "euler",
     "root_two", "root_three", "root_five", "ln_two", "ln_ten", "ln_ln_two", "third", "two_thirds",
     "golden_ratio"] := by decide

/-! ### non-vacuity: the checker rejects a literal that is off by one unit in the 17th digit -/
example : chk64 ((31415926535897936 : ℚ) / 10^16) ((314159265358979323846 : ℚ) / 10^20) ((314159265358979323847 : ℚ) / 10^20) = false := by
  decide +kernel
example : litBits64 Gen.C11.lit_pi = 0x400921FB54442D18 ∧ litBits32 Gen.C11.lit_pi = 0x40490FDB := by decide +kernel

end GlmVerif.C11.Const
