import GlmVerif.Props.C11.Tac
/-!
# C11 (3b, 4): glm's own rounding and wrap code — binary32, all 2^32 patterns

The model (`Hand/C11.lean` §6) mirrors func_common.inl / ext/scalar_common.inl **with
h/C11/fix_roundEven.diff and h/C11/fix_iround.diff applied**.
-/
namespace GlmVerif.C11

/-! ### roundEven = IEEE roundToIntegralTiesToEven, for every float (NaN ↦ NaN, ±inf ↦ ±inf,
sign of zero as `rint`) -/
theorem roundEven_eq_rint (x : UInt32) : same (roundEven x) (rintS x) = true := by c11_bv

/-! ### fract = x − floor x ∈ [0, 1] -/
theorem fract_range (x : UInt32) (h : isFinite x = true) : le fZero (fract x) = true ∧ le (fract x) fOne = true := by c11_bv
/-- for x ≥ 0 the subtraction is exact: floor x + fract x = x, and fract x < 1 -/
theorem fract_exact_nonneg (x : UInt32) (h : isFinite x = true) (s : signBit x = false) :
    feq (fadd (floorS x) (fract x)) x = true ∧ lt (fract x) fOne = true := by c11_bv
/-- `fract x = 1.0` (the closed end of GLSL's [0,1]) happens exactly for the negative floats so
small that `x + 1` rounds to 1: −2^-25 ≤ x < 0 -/
theorem fract_one_iff (x : UInt32) (h : isFinite x = true) :
    (fract x == fOne) = (signBit x && !isZero x && decide (mag x ≤ 0x33000000)) := by c11_bv
theorem fract_int (x : UInt32) (h : isInt x = true) : fract x = fZero := by c11_bv
theorem fract_nonfinite (x : UInt32) (h : isFinite x = false) : isNaN (fract x) = true := by c11_bv

/-! ### modf: the parts recombine exactly and carry the sign of x -/
theorem modf_spec (x : UInt32) (h : isFinite x = true) :
    isInt (modfInt x) = true ∧ lt (mag (modfFrac x)) fOne = true ∧
    feq (fadd (modfInt x) (modfFrac x)) x = true ∧
    signBit (modfInt x) = signBit x ∧ signBit (modfFrac x) = signBit x := by c11_bv

/-! ### iround / uround (fixed): the nearest integer, whenever the argument is in the documented
domain `x ≥ 0` and the result is representable -/
/-- |x − n| in units of 2^-24, for an integer n -/
def idist24 (x : UInt32) (n : UInt64) : UInt64 :=
  if fix24 x ≥ (n <<< 24) then fix24 x - (n <<< 24) else (n <<< 24) - fix24 x
theorem iround_nearest (x : UInt32) (h0 : le fZero x = true) (h1 : expo x < 158) :
    (iround x).toUInt32 < 0x80000000 ∧ (expo x < 126 → iround x = 0) ∧
    (expo x ≥ 126 → idist24 x (iround x).toUInt32.toUInt64 ≤ 0x800000) := by
  unfold idist24; c11_bv
theorem uround_nearest (x : UInt32) (h0 : le fZero x = true) (h1 : expo x < 159) :
    (expo x < 126 → uround x = 0) ∧ (expo x ≥ 126 → idist24 x (uround x).toUInt64 ≤ 0x800000) := by
  unfold idist24; c11_bv
theorem iround_defined (x : UInt32) (h0 : le fZero x = true) (h1 : expo x < 158) : f2iDefined (roundS x) = true := by c11_bv
theorem uround_defined (x : UInt32) (h0 : le fZero x = true) (h1 : expo x < 159) : f2uDefined (roundS x) = true := by c11_bv
theorem iround_eq_uround (x : UInt32) (h0 : le fZero x = true) (h1 : expo x < 158) : (iround x).toUInt32 = uround x := by c11_bv

/-- **The defect repaired by fix_iround.diff**: `static_cast<int>(x + 0.5f)` is one too large
exactly on 0.49999997f (0.5 − ulp/2, where x + 0.5 rounds up to 1) and on the odd integers of
[2^23, 2^24) (where x + 0.5 is a tie that rounds to the even neighbour x + 1). -/
theorem iroundOld_witness : iroundOld 0x3EFFFFFF = 1 ∧ iround 0x3EFFFFFF = 0 ∧
    iroundOld 0x4B000001 = 8388610 ∧ iround 0x4B000001 = 8388609 := by decide
theorem iroundOld_exception_set (x : UInt32) (h0 : le fZero x = true) (h1 : expo x < 158) :
    iroundOld x = if x == 0x3EFFFFFF || (expo x == 150 && (x &&& 1) == 1) then iround x + 1 else iround x := by c11_bv

/-! ### texture-coordinate wrap modes return coordinates in [0, 1] -/
theorem wrapClamp_range (x : UInt32) (h : isNaN x = false) :
    le fZero (wrapClamp x) = true ∧ le (wrapClamp x) fOne = true := by c11_bv
theorem wrapClamp_id (x : UInt32) (h0 : le fZero x = true) (h1 : le x fOne = true) : wrapClamp x = x := by c11_bv
theorem wrapRepeat_range (x : UInt32) (h : isFinite x = true) :
    le fZero (wrapRepeat x) = true ∧ le (wrapRepeat x) fOne = true := by c11_bv
theorem mirrorClamp_range (x : UInt32) (h : isFinite x = true) :
    le fZero (mirrorClamp x) = true ∧ lt (mirrorClamp x) fOne = true := by c11_bv
theorem mirrorRepeat_range (x : UInt32) (h : isFinite x = true) :
    le fZero (mirrorRepeat x) = true ∧ le (mirrorRepeat x) fOne = true := by c11_bv
/-- `mod(a, 2)` of a non-negative integer-valued float is its parity -/
theorem mod2_parity (a : UInt32) (h : isInt a = true) (s : signBit a = false) :
    mod2 a = if isEvenInt a then fZero else fOne := by c11_bv

/-! ### non-vacuity -/
example : roundEven 0x40200000 = 0x40000000 ∧ roundEven 0x40600000 = 0x40800000 ∧ roundEven 0xBF000000 = 0x80000000 := by decide
example : roundEven 0x7F800000 = 0x7F800000 ∧ isNaN (roundEven 0x7FC00000) = true := by decide
example : fract 0xAF000000 = fOne ∧ fract 0x40200000 = 0x3F000000 := by decide
example : idist24 0x40200000 3 = 0x800000 := by decide
example : iround 0x40200000 = 3 ∧ uround 0x4F000000 = 2147483648 := by decide
example : mirrorRepeat 0x3FC00000 = 0x3F000000 := by decide   -- 1.5 -> 0.5

end GlmVerif.C11
