import GlmVerif.Props.C11.Tac
/-!
# C11 (4): mirrorRepeat is the identity on [0, 1) (own module: the SAT call takes ~1 min)
-/
namespace GlmVerif.C11
theorem mirrorRepeat_first (x : UInt32) (h0 : le fZero x = true) (h1 : lt x fOne = true) :
    feq (mirrorRepeat x) x = true := by
  c11_unfold; bv_decide (config := {timeout := 900})
example : mirrorRepeat 0x3F000000 = 0x3F000000 := by decide
end GlmVerif.C11
