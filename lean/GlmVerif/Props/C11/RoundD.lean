import GlmVerif.Props.C11.Tac
/-!
# C11 (3a'): binary64 version — the bit-level specification of floor / ceil / trunc / round / rint (roundEven) is the
IEEE-754 / GLSL definition — binary64, all 2^64 patterns (pairs: all 2^128)

`floorS x` is *the greatest integer-valued float ≤ x*, `ceilS x` the least one ≥ x (these two
statements characterise the functions completely); `truncS` is floor or ceil by sign;
`roundS`/`rintS` return an integer-valued float at distance ≤ 1/2 from `x` (stated through the exact soft-float difference), and on a tie the one away from zero / the even one.
These are the functions glm forwards to libm (`using std::floor` …); glibc is compared with
them on every float by the harness.
-/
namespace GlmVerif.C11.D

/-! ### floor, ceil: order-theoretic characterisation -/
theorem floor_int (x : UInt64) (h : isFinite x = true) : isInt (floorS x) = true := by c11d_bv
theorem floor_le (x : UInt64) (h : isNaN x = false) : le (floorS x) x = true := by c11d_bv
theorem floor_greatest (x y : UInt64) (hy : isInt y = true) (h : le y x = true) : le y (floorS x) = true := by c11d_bv
theorem ceil_int (x : UInt64) (h : isFinite x = true) : isInt (ceilS x) = true := by c11d_bv
theorem ceil_ge (x : UInt64) (h : isNaN x = false) : le x (ceilS x) = true := by c11d_bv
theorem ceil_least (x y : UInt64) (hy : isInt y = true) (h : le x y = true) : le (ceilS x) y = true := by c11d_bv
/-- floor and ceil differ by exactly one unit unless `x` is an integer: `ceil x = floor x + 1`
computed exactly by the soft-float adder -/
theorem ceil_eq_floor_add_one (x : UInt64) (h : isFinite x = true) (hn : isInt x = false) :
    feq (ceilS x) (fadd (floorS x) fOne) = true := by c11d_bv
theorem floor_of_int (x : UInt64) (h : isInt x = true) : floorS x = x ∧ ceilS x = x ∧ truncS x = x ∧ roundS x = x ∧ rintS x = x := by c11d_bv
theorem floor_neg (x : UInt64) : same (floorS (neg x)) (neg (ceilS x)) = true := by c11d_bv

/-! ### trunc -/
theorem trunc_eq (x : UInt64) : truncS x = if signBit x then ceilS x else floorS x := by c11d_bv
theorem trunc_neg (x : UInt64) : same (truncS (neg x)) (neg (truncS x)) = true := by c11d_bv
theorem trunc_mag_le (x : UInt64) (h : isNaN x = false) : mag (truncS x) ≤ mag x := by c11d_bv

/-! ### round (ties away), rint = roundEven (ties to even): nearest integer in exact fixed point -/
/-- small arguments: |x| < 1/2 rounds to a zero with the sign of x -/
theorem round_small (x : UInt64) (h : expo x < 1022) : roundS x = (x &&& 0x8000000000000000) ∧ rintS x = (x &&& 0x8000000000000000) := by c11d_bv
/-- from 2^23 on every float is an integer (also ±inf): returned unchanged -/
theorem round_large (x : UInt64) (hn : isNaN x = false) (h : expo x ≥ 1075) : roundS x = x ∧ rintS x = x := by c11d_bv
theorem round_nan (x : UInt64) (h : isNaN x = true) :
    (isNaN (roundS x) && isNaN (rintS x) && isNaN (floorS x) && isNaN (ceilS x) && isNaN (truncS x)) = true := by c11d_bv
/-- the sign of the argument is kept (also on a zero result) -/
theorem round_sign (x : UInt64) (hn : isNaN x = false) :
    signBit (roundS x) = signBit x ∧ signBit (rintS x) = signBit x ∧ signBit (truncS x) = signBit x := by c11d_bv

/-- the same "nearest" statement through the soft-float subtraction (exact here): |x − r| ≤ 1/2 -/
theorem round_nearest_sub (x : UInt64) (h : isFinite x = true) : le (abs (fsub x (roundS x))) fHalf = true := by c11d_bv
theorem rint_nearest_sub (x : UInt64) (h : isFinite x = true) : le (abs (fsub x (rintS x))) fHalf = true := by c11d_bv
theorem rint_tie_even_sub (x : UInt64) (h : isFinite x = true) (ht : feq (abs (fsub x (rintS x))) fHalf = true) :
    isEvenInt (rintS x) = true := by c11d_bv
theorem round_tie_away_sub (x : UInt64) (h : isFinite x = true) (ht : feq (abs (fsub x (roundS x))) fHalf = true) :
    mag (roundS x) > mag x := by c11d_bv
theorem round_rint_int (x : UInt64) (h : isFinite x = true) : isInt (roundS x) = true ∧ isInt (rintS x) = true ∧ isInt (truncS x) = true := by c11d_bv

/-! ### idempotent, monotone, odd -/
theorem idempotent (x : UInt64) :
    floorS (floorS x) = floorS x ∧ ceilS (ceilS x) = ceilS x ∧ truncS (truncS x) = truncS x ∧
    roundS (roundS x) = roundS x ∧ rintS (rintS x) = rintS x := by c11d_bv
theorem floor_mono (x y : UInt64) (h : le x y = true) : le (floorS x) (floorS y) = true := by c11d_bv
theorem ceil_mono (x y : UInt64) (h : le x y = true) : le (ceilS x) (ceilS y) = true := by c11d_bv
theorem trunc_mono (x y : UInt64) (h : le x y = true) : le (truncS x) (truncS y) = true := by c11d_bv
theorem round_mono (x y : UInt64) (h : le x y = true) : le (roundS x) (roundS y) = true := by c11d_bv
theorem rint_mono (x y : UInt64) (h : le x y = true) : le (rintS x) (rintS y) = true := by c11d_bv
theorem round_odd (x : UInt64) : same (roundS (neg x)) (neg (roundS x)) = true ∧ same (rintS (neg x)) (neg (rintS x)) = true := by c11d_bv
/-- round and rint lie between floor and ceil and differ only on ties -/
theorem round_between (x : UInt64) (h : isNaN x = false) :
    (le (floorS x) (roundS x) && le (roundS x) (ceilS x) && le (floorS x) (rintS x) && le (rintS x) (ceilS x)) = true := by c11d_bv
theorem round_eq_rint_off_ties (x : UInt64) (h : isFinite x = true) (ht : feq (abs (fsub x (rintS x))) fHalf = false) :
    roundS x = rintS x := by c11d_bv

/-! ### the soft-float adder: algebraic sanity (the bit-exact tie to hardware is the correspondence) -/
theorem fadd_zero (a : UInt64) (h : isNaN a = false) (hz : isZero a = false) : fadd a fZero = a ∧ fadd a 0x8000000000000000 = a := by c11d_bv
theorem fsub_self (a : UInt64) (h : isFinite a = true) : fsub a a = fZero := by c11d_bv
theorem fmul2_eq_fadd (a : UInt64) : same (fmul2 a) (fadd a a) = true := by c11d_bv
theorem fdiv2_fmul2 (a : UInt64) (h : isFinite (fmul2 a) = true) : fdiv2 (fmul2 a) = a := by c11d_bv

/-! ### non-vacuity -/
example : floorS 0xC004000000000000 = 0xC008000000000000 ∧ ceilS 0xC004000000000000 = 0xC000000000000000 := by decide   -- -2.5 -> -3, -2
example : roundS 0x4004000000000000 = 0x4008000000000000 ∧ rintS 0x4004000000000000 = 0x4000000000000000 := by decide   -- 2.5 -> 3 / 2
example : rintS 0x41E0000000100000 = 0x41E0000000000000 := by decide   -- 2147483648.5 -> 2147483648

end GlmVerif.C11.D
