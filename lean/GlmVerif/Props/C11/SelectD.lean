import GlmVerif.Props.C11.Tac
/-!
# C11 (1'): IEEE order on bit patterns and glm's selection / NaN logic — binary64 (`double` instantiation)

Every theorem quantifies over **all** 2^64 bit patterns of every argument (`bv_decide`).
"is an argument" means bit-identical (payload and sign of zero included).
-/
namespace GlmVerif.C11.D

/-! ### the order predicates are the IEEE-754 order (structure of `key`) -/
theorem lt_irrefl (x : UInt64) : lt x x = false := by c11d_bv
theorem lt_trans (x y z : UInt64) (h1 : lt x y = true) (h2 : lt y z = true) : lt x z = true := by c11d_bv
theorem lt_trichotomy (x y : UInt64) (hx : isNaN x = false) (hy : isNaN y = false) :
    (lt x y || feq x y || lt y x) = true := by c11d_bv
theorem le_iff_lt_or_eq (x y : UInt64) : le x y = (lt x y || feq x y) := by c11d_bv
theorem nan_unordered (x y : UInt64) (h : (isNaN x || isNaN y) = true) :
    lt x y = false ∧ le x y = false ∧ feq x y = false := by c11d_bv
theorem zeros_equal : feq 0x0000000000000000 0x8000000000000000 = true ∧ lt 0x8000000000000000 0x0000000000000000 = false := by decide
/-- equal values are bit-identical except for the two zeros -/
theorem feq_bits (x y : UInt64) (h : feq x y = true) : x = y ∨ (isZero x && isZero y) = true := by c11d_bv
/-- positive floats are ordered like their bit patterns, negative ones in reverse, negative < positive -/
theorem lt_pos (x y : UInt64) (hx : isNaN x = false) (hy : isNaN y = false) (sx : signBit x = false) (sy : signBit y = false) :
    lt x y = decide (x < y) := by c11d_bv
theorem lt_neg (x y : UInt64) (hx : isNaN x = false) (hy : isNaN y = false) (sx : signBit x = true) (sy : signBit y = true) :
    lt x y = decide (y < x) := by c11d_bv
theorem lt_mixed (x y : UInt64) (hx : isNaN x = false) (hy : isNaN y = false) (sx : signBit x = true) (sy : signBit y = false) :
    lt x y = !(isZero x && isZero y) ∧ lt y x = false := by c11d_bv
/-- classification agrees with the field view: exponent all ones, fraction non-zero / zero -/
theorem isnan_fields (x : UInt64) : isNaN x = (((x >>> 52) &&& 0x7FF) == 0x7FF && !((x &&& 0xFFFFFFFFFFFFF) == 0)) := by c11d_bv
theorem isinf_fields (x : UInt64) : isInf x = (((x >>> 52) &&& 0x7FF) == 0x7FF && (x &&& 0xFFFFFFFFFFFFF) == 0) := by c11d_bv

/-! ### min / max : `(y < x) ? y : x`, `(x < y) ? y : x` -/
theorem min_is_arg (x y : UInt64) : min x y = x ∨ min x y = y := by c11d_bv
theorem max_is_arg (x y : UInt64) : max x y = x ∨ max x y = y := by c11d_bv
theorem min_spec (x y : UInt64) (hx : isNaN x = false) (hy : isNaN y = false) : isMinOf2 (min x y) x y = true := by c11d_bv
theorem max_spec (x y : UInt64) (hx : isNaN x = false) (hy : isNaN y = false) : isMaxOf2 (max x y) x y = true := by c11d_bv
/-- which argument: the *first* one when the operands are equal (so `min(+0,-0) = +0`,
`min(-0,+0) = -0`) or when either is NaN (so `min(x, NaN) = x` but `min(NaN, y) = NaN`) -/
theorem min_first (x y : UInt64) (h : (feq x y || isNaN x || isNaN y) = true) : min x y = x := by c11d_bv
theorem max_first (x y : UInt64) (h : (feq x y || isNaN x || isNaN y) = true) : max x y = x := by c11d_bv

/-! ### clamp = min(max(x, lo), hi) -/
theorem clamp_is_arg (x lo hi : UInt64) : clamp x lo hi = x ∨ clamp x lo hi = lo ∨ clamp x lo hi = hi := by c11d_bv
theorem clamp_spec (x lo hi : UInt64) (hx : isNaN x = false) (hl : isNaN lo = false) (hh : isNaN hi = false)
    (h : le lo hi = true) : isClampOf (clamp x lo hi) x lo hi = true := by c11d_bv
theorem clamp_range (x lo hi : UInt64) (hx : isNaN x = false) (h : le lo hi = true) :
    le lo (clamp x lo hi) = true ∧ le (clamp x lo hi) hi = true := by c11d_bv
/-- a NaN `x` is passed through (GLSL leaves it undefined) -/
theorem clamp_nan (x lo hi : UInt64) (hx : isNaN x = true) : clamp x lo hi = x := by c11d_bv

/-! ### step, sign, abs, mix(bool) -/
theorem step_range (edge x : UInt64) : step edge x = fZero ∨ step edge x = fOne := by c11d_bv
theorem step_spec (edge x : UInt64) : step edge x = if lt x edge then fZero else fOne := by c11d_bv
/-- GLSL: sign ∈ {-1, 0, +1}.  glm returns exactly one of the three patterns for *every* input:
+0 for both zeros and for NaN (`0.0f - 0.0f`), never −0. -/
theorem sign_range (x : UInt64) : sign x = fNegOne ∨ sign x = fZero ∨ sign x = fOne := by c11d_bv
theorem sign_spec (x : UInt64) :
    sign x = if lt fZero x then fOne else if lt x fZero then fNegOne else fZero := by c11d_bv
theorem sign_zero_nan (x : UInt64) (h : (isZero x || isNaN x) = true) : sign x = fZero := by c11d_bv
/-- `x >= 0 ? x : -x`: the magnitude is kept; the sign bit is cleared for every non-NaN input
except −0 (`-0 >= 0` is true, so −0 is returned as is: equal to +0 as a value). -/
theorem abs_mag (x : UInt64) : mag (abs x) = mag x := by c11d_bv
theorem abs_spec (x : UInt64) (hx : isNaN x = false) : feq (abs x) (mag x) = true ∧ le fZero (abs x) = true := by c11d_bv
theorem abs_bits (x : UInt64) (hx : isNaN x = false) (hz : !(x == 0x8000000000000000) = true) : abs x = mag x := by c11d_bv
theorem abs_neg_zero : abs 0x8000000000000000 = 0x8000000000000000 := by decide
theorem mixb_spec (x y : UInt64) : mixb x y false = x ∧ mixb x y true = y := by simp [mixb]

/-! ### min / max with 3 and 4 arguments -/
theorem min3_is_arg (a b c : UInt64) : min3 a b c = a ∨ min3 a b c = b ∨ min3 a b c = c := by c11d_bv
theorem max3_is_arg (a b c : UInt64) : max3 a b c = a ∨ max3 a b c = b ∨ max3 a b c = c := by c11d_bv
theorem min4_is_arg (a b c d : UInt64) : min4 a b c d = a ∨ min4 a b c d = b ∨ min4 a b c d = c ∨ min4 a b c d = d := by c11d_bv
theorem max4_is_arg (a b c d : UInt64) : max4 a b c d = a ∨ max4 a b c d = b ∨ max4 a b c d = c ∨ max4 a b c d = d := by c11d_bv
theorem min3_spec (a b c : UInt64) (ha : isNaN a = false) (hb : isNaN b = false) (hc : isNaN c = false) :
    isMinOf3 (min3 a b c) a b c = true := by c11d_bv
theorem max3_spec (a b c : UInt64) (ha : isNaN a = false) (hb : isNaN b = false) (hc : isNaN c = false) :
    isMaxOf3 (max3 a b c) a b c = true := by c11d_bv
theorem min4_spec (a b c d : UInt64) (ha : isNaN a = false) (hb : isNaN b = false) (hc : isNaN c = false) (hd : isNaN d = false) :
    isMinOf4 (min4 a b c d) a b c d = true := by c11d_bv
theorem max4_spec (a b c d : UInt64) (ha : isNaN a = false) (hb : isNaN b = false) (hc : isNaN c = false) (hd : isNaN d = false) :
    isMaxOf4 (max4 a b c d) a b c d = true := by c11d_bv

/-! ### fmin / fmax / fclamp : NaN only if every operand is NaN; otherwise the extremum of the
non-NaN operands -/
theorem fmin2_is_arg (a b : UInt64) : fmin2 a b = a ∨ fmin2 a b = b := by c11d_bv
theorem fmax2_is_arg (a b : UInt64) : fmax2 a b = a ∨ fmax2 a b = b := by c11d_bv
theorem fmin2_nan (a b : UInt64) : isNaN (fmin2 a b) = (isNaN a && isNaN b) := by c11d_bv
theorem fmax2_nan (a b : UInt64) : isNaN (fmax2 a b) = (isNaN a && isNaN b) := by c11d_bv
theorem fmin2_bound (a b : UInt64) (h : (isNaN a && isNaN b) = false) :
    ((isNaN a || le (fmin2 a b) a) && (isNaN b || le (fmin2 a b) b)) = true := by c11d_bv
theorem fmax2_bound (a b : UInt64) (h : (isNaN a && isNaN b) = false) :
    ((isNaN a || le a (fmax2 a b)) && (isNaN b || le b (fmax2 a b))) = true := by c11d_bv

theorem fmin3_is_arg (a b c : UInt64) : fmin3 a b c = a ∨ fmin3 a b c = b ∨ fmin3 a b c = c := by c11d_bv
theorem fmax3_is_arg (a b c : UInt64) : fmax3 a b c = a ∨ fmax3 a b c = b ∨ fmax3 a b c = c := by c11d_bv
theorem fmin3_nan (a b c : UInt64) : isNaN (fmin3 a b c) = (isNaN a && isNaN b && isNaN c) := by c11d_bv
theorem fmax3_nan (a b c : UInt64) : isNaN (fmax3 a b c) = (isNaN a && isNaN b && isNaN c) := by c11d_bv
theorem fmin3_bound (a b c : UInt64) (h : (isNaN a && isNaN b && isNaN c) = false) :
    ((isNaN a || le (fmin3 a b c) a) && (isNaN b || le (fmin3 a b c) b) && (isNaN c || le (fmin3 a b c) c)) = true := by c11d_bv
theorem fmax3_bound (a b c : UInt64) (h : (isNaN a && isNaN b && isNaN c) = false) :
    ((isNaN a || le a (fmax3 a b c)) && (isNaN b || le b (fmax3 a b c)) && (isNaN c || le c (fmax3 a b c))) = true := by c11d_bv

theorem fmin4_is_arg (a b c d : UInt64) :
    fmin4 a b c d = a ∨ fmin4 a b c d = b ∨ fmin4 a b c d = c ∨ fmin4 a b c d = d := by c11d_bv
theorem fmax4_is_arg (a b c d : UInt64) :
    fmax4 a b c d = a ∨ fmax4 a b c d = b ∨ fmax4 a b c d = c ∨ fmax4 a b c d = d := by c11d_bv
theorem fmin4_nan (a b c d : UInt64) : isNaN (fmin4 a b c d) = (isNaN a && isNaN b && isNaN c && isNaN d) := by c11d_bv
theorem fmax4_nan (a b c d : UInt64) : isNaN (fmax4 a b c d) = (isNaN a && isNaN b && isNaN c && isNaN d) := by c11d_bv
theorem fmin4_bound (a b c d : UInt64) (h : (isNaN a && isNaN b && isNaN c && isNaN d) = false) :
    ((isNaN a || le (fmin4 a b c d) a) && (isNaN b || le (fmin4 a b c d) b) &&
     (isNaN c || le (fmin4 a b c d) c) && (isNaN d || le (fmin4 a b c d) d)) = true := by c11d_bv
theorem fmax4_bound (a b c d : UInt64) (h : (isNaN a && isNaN b && isNaN c && isNaN d) = false) :
    ((isNaN a || le a (fmax4 a b c d)) && (isNaN b || le b (fmax4 a b c d)) &&
     (isNaN c || le c (fmax4 a b c d)) && (isNaN d || le d (fmax4 a b c d))) = true := by c11d_bv

/-- the vector overloads (folds of the binary function, ext/vector_common.inl:48-60, 76-88) -/
theorem vfmin3_nan (a b c : UInt64) : isNaN (vfmin3 a b c) = (isNaN a && isNaN b && isNaN c) := by c11d_bv
theorem vfmax3_nan (a b c : UInt64) : isNaN (vfmax3 a b c) = (isNaN a && isNaN b && isNaN c) := by c11d_bv
theorem vfmin4_nan (a b c d : UInt64) : isNaN (vfmin4 a b c d) = (isNaN a && isNaN b && isNaN c && isNaN d) := by c11d_bv
theorem vfmax4_nan (a b c d : UInt64) : isNaN (vfmax4 a b c d) = (isNaN a && isNaN b && isNaN c && isNaN d) := by c11d_bv
/-- scalar and vector 3/4-argument forms return equal values (bit-identical up to the sign of zero) -/
theorem vfmin3_eq (a b c : UInt64) : (same (vfmin3 a b c) (fmin3 a b c) || feq (vfmin3 a b c) (fmin3 a b c)) = true := by c11d_bv
theorem vfmax3_eq (a b c : UInt64) : (same (vfmax3 a b c) (fmax3 a b c) || feq (vfmax3 a b c) (fmax3 a b c)) = true := by c11d_bv
theorem vfmin4_eq (a b c d : UInt64) : (same (vfmin4 a b c d) (fmin4 a b c d) || feq (vfmin4 a b c d) (fmin4 a b c d)) = true := by c11d_bv
theorem vfmax4_eq (a b c d : UInt64) : (same (vfmax4 a b c d) (fmax4 a b c d) || feq (vfmax4 a b c d) (fmax4 a b c d)) = true := by c11d_bv

theorem fclamp_is_arg (x lo hi : UInt64) : fclamp x lo hi = x ∨ fclamp x lo hi = lo ∨ fclamp x lo hi = hi := by c11d_bv
theorem fclamp_nan (x lo hi : UInt64) : isNaN (fclamp x lo hi) = (isNaN x && isNaN lo && isNaN hi) := by c11d_bv
/-- on NaN-free bounds with `lo <= hi`: a NaN `x` clamps to `lo`, anything else like `clamp` -/
theorem fclamp_spec (x lo hi : UInt64) (hl : isNaN lo = false) (hh : isNaN hi = false) (h : le lo hi = true) :
    (if isNaN x then fclamp x lo hi == lo else isClampOf (fclamp x lo hi) x lo hi) = true := by c11d_bv

/-! ### non-vacuity -/
example : min 0x3FF0000000000000 0x4000000000000000 = 0x3FF0000000000000 ∧ max 0x3FF0000000000000 0x4000000000000000 = 0x4000000000000000 := by decide
example : min 0x3FF0000000000000 0x7FF8000000000000 = 0x3FF0000000000000 ∧ min 0x7FF8000000000000 0x3FF0000000000000 = 0x7FF8000000000000 := by decide
example : fmin3 0x7FF8000000000000 0x7FF8000000000001 0x4000000000000000 = 0x4000000000000000 := by decide
example : sign 0xC000000000000000 = fNegOne ∧ sign 0x8000000000000000 = fZero ∧ sign 0x7FF8000000000000 = fZero := by decide

end GlmVerif.C11.D
