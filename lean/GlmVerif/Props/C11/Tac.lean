import GlmVerif.Hand.C11
import Std.Tactic.BVDecide
/-!
Tactic used by all C11 bit-level theorems: unfold the model down to `UInt32`/`UInt64` operations
and hand the goal to `bv_decide` (LRAT-checked SAT certificate).
-/
namespace GlmVerif.C11

/-- unfold every definition of `Hand/C11.lean` (32-bit part) -/
macro "c11_unfold" : tactic => `(tactic|
  simp -zeta only [min, max, clamp, mixb, step, abs, ofBool, sub01, sign, min3, min4, max3, max4,
    fmin2, fmax2, fmin2_fallback, fmax2_fallback, fmin3, fmin4, fmax3, fmax4, fclamp,
    vfmin3, vfmin4, vfmax3, vfmax4, glmIsnan, glmIsinf,
    isMinOf2, isMaxOf2, isMinOf3, isMaxOf3, isMinOf4, isMaxOf4, isClampOf,
    floatBitsToInt, floatBitsToUint, intBitsToFloat, uintBitsToFloat,
    fadd, fsub, fmul2, fdiv2, roundPack, clz27, f2i, f2iDefined, f2u, f2uDefined,
    fract, fmod2IsZero, modfInt, modfFrac, roundEven, iround, uround, iroundOld, wrapClamp, wrapRepeat, mirrorClamp, mod2, mirrorRepeat,
    truncS, floorS, ceilS, roundS, rintS, isInt, isEvenInt, fix24, fracMask,
    lt, le, feq, gt, ge, same, isNaN, isInf, isFinite, isZero, signBit, neg, key, mag,
    expo, sig, eff, fZero, fOne, fNegOne, fHalf, fTwo, fNaN] at *)

/-- unfold every definition of the binary64 part (`GlmVerif.C11.D`) -/
macro "c11d_unfold" : tactic => `(tactic|
  simp -zeta only [D.min, D.max, D.clamp, D.mixb, D.step, D.abs, D.sub01, D.sign, D.min3, D.min4, D.max3, D.max4,
    D.fmin2, D.fmax2, D.fmin3, D.fmin4, D.fmax3, D.fmax4, D.fclamp,
    D.vfmin3, D.vfmin4, D.vfmax3, D.vfmax4,
    D.isMinOf2, D.isMaxOf2, D.isMinOf3, D.isMaxOf3, D.isMinOf4, D.isMaxOf4, D.isClampOf,
    D.fadd, D.fsub, D.fmul2, D.fdiv2, D.roundPack, D.clz56, D.f2i, D.f2iDefined, D.f2u, D.f2uDefined,
    D.fract, D.fmod2IsZero, D.modfInt, D.modfFrac, D.roundEven, D.iround, D.uround, D.wrapClamp, D.wrapRepeat, D.mirrorClamp, D.mod2, D.mirrorRepeat,
    D.truncS, D.floorS, D.ceilS, D.roundS, D.rintS, D.isInt, D.isEvenInt, D.fracMask,
    D.lt, D.le, D.feq, D.gt, D.ge, D.same, D.isNaN, D.isInf, D.isFinite, D.isZero, D.signBit, D.neg, D.key, D.mag,
    D.expo, D.sig, D.eff, D.fZero, D.fOne, D.fNegOne, D.fHalf, D.fTwo, D.fNaN] at *)

macro "c11d_bv" : tactic => `(tactic| (c11d_unfold <;> bv_decide (config := { timeout := 900 })))

macro "c11_bv" : tactic => `(tactic| (c11_unfold <;> bv_decide (config := { timeout := 900 })))

end GlmVerif.C11
