import GlmVerif.Hand.C11
import Std.Tactic.BVDecide
/-!
Tactic used by all C11 bit-level theorems: unfold the model down to `UInt32`/`UInt64` operations
and hand the goal to `bv_decide` (LRAT-checked SAT certificate).
-/
namespace GlmVerif.C11

/-- unfold every definition of `Hand/C11.lean` (32-bit part) -/
macro "c11_unfold" : tactic => `(tactic|
  simp only [min, max, clamp, mixb, step, abs, ofBool, sub01, sign, min3, min4, max3, max4,
    fmin2, fmax2, fmin2_fallback, fmax2_fallback, fmin3, fmin4, fmax3, fmax4, fclamp,
    vfmin3, vfmin4, vfmax3, vfmax4, glmIsnan, glmIsinf,
    isMinOf2, isMaxOf2, isMinOf3, isMaxOf3, isMinOf4, isMaxOf4, isClampOf,
    floatBitsToInt, floatBitsToUint, intBitsToFloat, uintBitsToFloat,
    fadd, fsub, fmul2, fdiv2, roundPack, clz27, f2i, f2iDefined, f2u, f2uDefined,
    fract, fmod2IsZero, roundEven, iround, uround, iroundOld, wrapClamp, wrapRepeat, mirrorClamp, mod2, mirrorRepeat,
    truncS, floorS, ceilS, roundS, rintS, isInt, isEvenInt, fix24, fracMask,
    lt, le, feq, gt, ge, same, isNaN, isInf, isFinite, isZero, signBit, neg, key, mag,
    expo, sig, eff, fZero, fOne, fNegOne, fHalf, fTwo, fNaN] at *)

macro "c11_bv" : tactic => `(tactic| (c11_unfold; bv_decide))

end GlmVerif.C11
