import GlmVerif.Props.C11.Tac
/-!
# C11 (3b', 4'): glm's own rounding and wrap code at `double` — all 2^64 patterns

(`iround`/`uround` at double: the model is `static_cast<int>(round(x))` with `round` = `roundS`,
characterised in `RoundD.lean`; the integer-level "nearest" statement is proved for binary32 only
and explored by the harness for double.)
-/
namespace GlmVerif.C11.D

theorem roundEven_eq_rint (x : UInt64) : same (roundEven x) (rintS x) = true := by c11d_bv
theorem fract_range (x : UInt64) (h : isFinite x = true) : le fZero (fract x) = true ∧ le (fract x) fOne = true := by c11d_bv
theorem fract_exact_nonneg (x : UInt64) (h : isFinite x = true) (s : signBit x = false) :
    feq (fadd (floorS x) (fract x)) x = true ∧ lt (fract x) fOne = true := by c11d_bv
/-- `fract x = 1.0` exactly for −2^-54 ≤ x < 0 -/
theorem fract_one_iff (x : UInt64) (h : isFinite x = true) :
    (fract x == fOne) = (signBit x && !isZero x && decide (mag x ≤ 0x3C90000000000000)) := by c11d_bv
theorem fract_int (x : UInt64) (h : isInt x = true) : fract x = fZero := by c11d_bv
theorem fract_nonfinite (x : UInt64) (h : isFinite x = false) : isNaN (fract x) = true := by c11d_bv
theorem iround_eq_uround (x : UInt64) (h0 : le fZero x = true) (h1 : f2iDefined (roundS x) = true) :
    (iround x).toUInt32 = uround x := by c11d_bv
theorem wrapClamp_range (x : UInt64) (h : isNaN x = false) :
    le fZero (wrapClamp x) = true ∧ le (wrapClamp x) fOne = true := by c11d_bv
theorem wrapRepeat_range (x : UInt64) (h : isFinite x = true) :
    le fZero (wrapRepeat x) = true ∧ le (wrapRepeat x) fOne = true := by c11d_bv
theorem mirrorClamp_range (x : UInt64) (h : isFinite x = true) :
    le fZero (mirrorClamp x) = true ∧ lt (mirrorClamp x) fOne = true := by c11d_bv
theorem mirrorRepeat_range (x : UInt64) (h : isFinite x = true) :
    le fZero (mirrorRepeat x) = true ∧ le (mirrorRepeat x) fOne = true := by c11d_bv
theorem mod2_parity (a : UInt64) (h : isInt a = true) (s : signBit a = false) :
    mod2 a = if isEvenInt a then fZero else fOne := by c11d_bv

/-- the finite double on which the unfixed roundEven returned −2147483648 -/
example : roundEven 0x41E0000000100000 = 0x41E0000000000000 := by decide
example : roundEven 0x4004000000000000 = 0x4000000000000000 ∧ roundEven 0x7FF0000000000000 = 0x7FF0000000000000 := by decide
example : fract 0xBC00000000000000 = fOne := by decide

end GlmVerif.C11.D
