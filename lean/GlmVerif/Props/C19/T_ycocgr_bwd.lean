import GlmVerif.Spec.C19
import GlmVerif.Gen.C19.ycocgr_bwd
/-! table check of family `ycocgr_bwd` against the model of its units generated from /repo (kernel evaluation) -/
namespace Glm.Props.C19
open Glm Glm.Spec.C19 Glm.Gen.C19
set_option maxHeartbeats 4000000 in
theorem ycocgr_bwd_ok : f_ycocgr_bwd.ok (fun _ ks => ycocgr_bwd_L ks) = true := by decide +kernel
end Glm.Props.C19
