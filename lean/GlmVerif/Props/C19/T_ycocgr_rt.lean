import GlmVerif.Spec.C19
import GlmVerif.Gen.C19.ycocgr_rt
/-! table check of family `ycocgr_rt` against the model of its units generated from /repo (kernel evaluation) -/
namespace Glm.Props.C19
open Glm Glm.Spec.C19 Glm.Gen.C19
set_option maxHeartbeats 4000000 in
theorem ycocgr_rt_ok : f_ycocgr_rt.ok (fun _ ks => ycocgr_rt_L ks) = true := by decide +kernel
end Glm.Props.C19
