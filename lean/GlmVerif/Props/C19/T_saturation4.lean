import GlmVerif.Spec.C19
import GlmVerif.Gen.C19.saturation4
/-! table check of family `saturation4` against the model of its units generated from /repo (kernel evaluation) -/
namespace Glm.Props.C19
open Glm Glm.Spec.C19 Glm.Gen.C19
set_option maxHeartbeats 4000000 in
theorem saturation4_ok : f_saturation4.ok (fun _ ks => saturation4_L ks) = true := by decide +kernel
end Glm.Props.C19
