import GlmVerif.Spec.C19
import GlmVerif.Gen.C19.saturation
/-! table check of family `saturation_grey` against the model of its units generated from /repo (kernel evaluation) -/
namespace Glm.Props.C19
open Glm Glm.Spec.C19 Glm.Gen.C19
set_option maxHeartbeats 4000000 in
theorem saturation_grey_ok : f_saturation_grey.ok (fun _ ks => saturation_L ks) = true := by decide +kernel
end Glm.Props.C19
