import GlmVerif.Spec.C19
import GlmVerif.Gen.C19.luminosity
/-! table check of family `luminosity` against the model of its units generated from /repo (kernel evaluation) -/
namespace Glm.Props.C19
open Glm Glm.Spec.C19 Glm.Gen.C19
set_option maxHeartbeats 4000000 in
theorem luminosity_ok : f_luminosity.ok (fun _ ks => luminosity_L ks) = true := by decide +kernel
end Glm.Props.C19
