import GlmVerif.Spec.C19
import GlmVerif.Gen.C19.ycocg_bwd
/-! table check of family `ycocg_bwd` against the model of its units generated from /repo (kernel evaluation) -/
namespace Glm.Props.C19
open Glm Glm.Spec.C19 Glm.Gen.C19
set_option maxHeartbeats 4000000 in
theorem ycocg_bwd_ok : f_ycocg_bwd.ok (fun _ ks => ycocg_bwd_L ks) = true := by decide +kernel
end Glm.Props.C19
