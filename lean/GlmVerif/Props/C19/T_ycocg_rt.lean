import GlmVerif.Spec.C19
import GlmVerif.Gen.C19.ycocg_rt
/-! table check of family `ycocg_rt` against the model of its units generated from /repo (kernel evaluation) -/
namespace Glm.Props.C19
open Glm Glm.Spec.C19 Glm.Gen.C19
set_option maxHeartbeats 4000000 in
theorem ycocg_rt_ok : f_ycocg_rt.ok (fun _ ks => ycocg_rt_L ks) = true := by decide +kernel
end Glm.Props.C19
