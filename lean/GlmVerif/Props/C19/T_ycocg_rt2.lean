import GlmVerif.Spec.C19
import GlmVerif.Gen.C19.ycocg_rt2
/-! table check of family `ycocg_rt2` against the model of its units generated from /repo (kernel evaluation) -/
namespace Glm.Props.C19
open Glm Glm.Spec.C19 Glm.Gen.C19
set_option maxHeartbeats 4000000 in
theorem ycocg_rt2_ok : f_ycocg_rt2.ok (fun _ ks => ycocg_rt2_L ks) = true := by decide +kernel
end Glm.Props.C19
