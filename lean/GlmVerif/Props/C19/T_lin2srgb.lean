import GlmVerif.Spec.C19
import GlmVerif.Gen.C19.lin2srgb
/-! table check of family `lin2srgb` against the model of its units generated from /repo (kernel evaluation) -/
namespace Glm.Props.C19
open Glm Glm.Spec.C19 Glm.Gen.C19
set_option maxHeartbeats 4000000 in
theorem lin2srgb_ok : f_lin2srgb.ok (fun _ ks => lin2srgb_L ks) = true := by decide +kernel
end Glm.Props.C19
