import GlmVerif.Spec.C19
import GlmVerif.Gen.C19.ycocg_fwd
/-! table check of family `ycocg_fwd` against the model of its units generated from /repo (kernel evaluation) -/
namespace Glm.Props.C19
open Glm Glm.Spec.C19 Glm.Gen.C19
set_option maxHeartbeats 4000000 in
theorem ycocg_fwd_ok : f_ycocg_fwd.ok (fun _ ks => ycocg_fwd_L ks) = true := by decide +kernel
end Glm.Props.C19
