import GlmVerif.Gen.C19
import GlmVerif.Props.C19.T_ycocgr_rt
import GlmVerif.Props.C19.T_ycocgr_fwd
import GlmVerif.Props.C19.T_ycocgr_bwd
import GlmVerif.Props.C19.T_ycocg_fwd
import GlmVerif.Props.C19.T_ycocg_bwd
import GlmVerif.Props.C19.T_ycocg_rt
import GlmVerif.Props.C19.T_ycocg_rt2
import GlmVerif.Props.C19.T_ycocgrf_rt
import GlmVerif.Props.C19.T_ycocgrf_rt2
import GlmVerif.Props.C19.T_lin2srgb
import GlmVerif.Props.C19.T_lin2srgb_g
import GlmVerif.Props.C19.T_srgb2lin
import GlmVerif.Props.C19.T_srgb2lin_g
import GlmVerif.Props.C19.T_saturation_grey
import GlmVerif.Props.C19.T_luminosity
import GlmVerif.Props.C19.T_rgbColor
import GlmVerif.Props.C19.T_hsvColor
import GlmVerif.Props.C19.T_saturation3
import GlmVerif.Props.C19.T_saturation4
/-! every family table of C19 holds for the model generated from the current /repo -/
namespace Glm.Props.C19
open Glm Glm.Spec.C19 Glm.Gen.C19
theorem all_ok : ∀ f ∈ families, f.ok lookup = true := by
  simp only [families, List.mem_cons, List.not_mem_nil, or_false, forall_eq_or_imp, forall_eq]
  exact ⟨(Family.ok_congr f_ycocgr_rt (fun ks => by rw [show f_ycocgr_rt.unit = "ycocgr_rt" from rfl, lookup_ycocgr_rt])).trans ycocgr_rt_ok,
    (Family.ok_congr f_ycocgr_fwd (fun ks => by rw [show f_ycocgr_fwd.unit = "ycocgr_fwd" from rfl, lookup_ycocgr_fwd])).trans ycocgr_fwd_ok,
    (Family.ok_congr f_ycocgr_bwd (fun ks => by rw [show f_ycocgr_bwd.unit = "ycocgr_bwd" from rfl, lookup_ycocgr_bwd])).trans ycocgr_bwd_ok,
    (Family.ok_congr f_ycocg_fwd (fun ks => by rw [show f_ycocg_fwd.unit = "ycocg_fwd" from rfl, lookup_ycocg_fwd])).trans ycocg_fwd_ok,
    (Family.ok_congr f_ycocg_bwd (fun ks => by rw [show f_ycocg_bwd.unit = "ycocg_bwd" from rfl, lookup_ycocg_bwd])).trans ycocg_bwd_ok,
    (Family.ok_congr f_ycocg_rt (fun ks => by rw [show f_ycocg_rt.unit = "ycocg_rt" from rfl, lookup_ycocg_rt])).trans ycocg_rt_ok,
    (Family.ok_congr f_ycocg_rt2 (fun ks => by rw [show f_ycocg_rt2.unit = "ycocg_rt2" from rfl, lookup_ycocg_rt2])).trans ycocg_rt2_ok,
    (Family.ok_congr f_ycocgrf_rt (fun ks => by rw [show f_ycocgrf_rt.unit = "ycocgrf_rt" from rfl, lookup_ycocgrf_rt])).trans ycocgrf_rt_ok,
    (Family.ok_congr f_ycocgrf_rt2 (fun ks => by rw [show f_ycocgrf_rt2.unit = "ycocgrf_rt2" from rfl, lookup_ycocgrf_rt2])).trans ycocgrf_rt2_ok,
    (Family.ok_congr f_lin2srgb (fun ks => by rw [show f_lin2srgb.unit = "lin2srgb" from rfl, lookup_lin2srgb])).trans lin2srgb_ok,
    (Family.ok_congr f_lin2srgb_g (fun ks => by rw [show f_lin2srgb_g.unit = "lin2srgb_g" from rfl, lookup_lin2srgb_g])).trans lin2srgb_g_ok,
    (Family.ok_congr f_srgb2lin (fun ks => by rw [show f_srgb2lin.unit = "srgb2lin" from rfl, lookup_srgb2lin])).trans srgb2lin_ok,
    (Family.ok_congr f_srgb2lin_g (fun ks => by rw [show f_srgb2lin_g.unit = "srgb2lin_g" from rfl, lookup_srgb2lin_g])).trans srgb2lin_g_ok,
    (Family.ok_congr f_saturation_grey (fun ks => by rw [show f_saturation_grey.unit = "saturation" from rfl, lookup_saturation])).trans saturation_grey_ok,
    (Family.ok_congr f_luminosity (fun ks => by rw [show f_luminosity.unit = "luminosity" from rfl, lookup_luminosity])).trans luminosity_ok,
    (Family.ok_congr f_rgbColor (fun ks => by rw [show f_rgbColor.unit = "rgbColor" from rfl, lookup_rgbColor])).trans rgbColor_ok,
    (Family.ok_congr f_hsvColor (fun ks => by rw [show f_hsvColor.unit = "hsvColor" from rfl, lookup_hsvColor])).trans hsvColor_ok,
    (Family.ok_congr f_saturation3 (fun ks => by rw [show f_saturation3.unit = "saturation3" from rfl, lookup_saturation3])).trans saturation3_ok,
    (Family.ok_congr f_saturation4 (fun ks => by rw [show f_saturation4.unit = "saturation4" from rfl, lookup_saturation4])).trans saturation4_ok⟩
end Glm.Props.C19
