import GlmVerif.Spec.C19
import GlmVerif.Gen.C19.hsvColor
/-! table check of family `hsvColor` against the model of its units generated from /repo (kernel evaluation) -/
namespace Glm.Props.C19
open Glm Glm.Spec.C19 Glm.Gen.C19
set_option maxHeartbeats 4000000 in
theorem hsvColor_ok : f_hsvColor.ok (fun _ ks => hsvColor_L ks) = true := by decide +kernel
end Glm.Props.C19
