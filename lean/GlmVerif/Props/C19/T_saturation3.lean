import GlmVerif.Spec.C19
import GlmVerif.Gen.C19.saturation3
/-! table check of family `saturation3` against the model of its units generated from /repo (kernel evaluation) -/
namespace Glm.Props.C19
open Glm Glm.Spec.C19 Glm.Gen.C19
set_option maxHeartbeats 4000000 in
theorem saturation3_ok : f_saturation3.ok (fun _ ks => saturation3_L ks) = true := by decide +kernel
end Glm.Props.C19
