import GlmVerif.Spec.C19
import GlmVerif.Gen.C19.rgbColor
/-! table check of family `rgbColor` against the model of its units generated from /repo (kernel evaluation) -/
namespace Glm.Props.C19
open Glm Glm.Spec.C19 Glm.Gen.C19
set_option maxHeartbeats 4000000 in
theorem rgbColor_ok : f_rgbColor.ok (fun _ ks => rgbColor_L ks) = true := by decide +kernel
end Glm.Props.C19
