import GlmVerif.Spec.C19
import GlmVerif.Gen.C19.srgb2lin
/-! table check of family `srgb2lin` against the model of its units generated from /repo (kernel evaluation) -/
namespace Glm.Props.C19
open Glm Glm.Spec.C19 Glm.Gen.C19
set_option maxHeartbeats 4000000 in
theorem srgb2lin_ok : f_srgb2lin.ok (fun _ ks => srgb2lin_L ks) = true := by decide +kernel
end Glm.Props.C19
