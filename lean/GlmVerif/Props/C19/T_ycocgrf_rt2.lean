import GlmVerif.Spec.C19
import GlmVerif.Gen.C19.ycocgrf_rt2
/-! table check of family `ycocgrf_rt2` against the model of its units generated from /repo (kernel evaluation) -/
namespace Glm.Props.C19
open Glm Glm.Spec.C19 Glm.Gen.C19
set_option maxHeartbeats 4000000 in
theorem ycocgrf_rt2_ok : f_ycocgrf_rt2.ok (fun _ ks => ycocgrf_rt2_L ks) = true := by decide +kernel
end Glm.Props.C19
