import GlmVerif.Sem.Family
import GlmVerif.Spec.C13
import GlmVerif.Gen.C13
import GlmVerif.Props.C13.All
import Mathlib.Analysis.SpecialFunctions.Trigonometric.Inverse
import Mathlib.Tactic.Linarith
import Mathlib.Tactic.NormNum
/-!
# C13 — slerp / mix / lerp interpolate rotations at constant speed along the right arc

**From the code (tables over the model regenerated from /repo).**  `slerp` (also with `k = -3..3` extra
spins) is the four-leaf decision tree `Spec.C13.slerpT`: `y` is negated iff `x·y < 0`, the linear blend is
taken iff the (flipped) cosine exceeds `1 - eps`, otherwise `(sin((1-a)θ) x + sin(aθ) z)/sin θ` with
`θ = acos c`; `mix` is the same without the flip; `lerp` is the exact affine blend.  `slerp_defined`:
on every path the `acos` argument lies in `[-1, 1]` **as a consequence of the comparisons taken**
(needs only `0 ≤ eps`), so no invalid operation is evaluated however close to parallel or antipodal.

**Real analysis of that formula** (the lemmas below, over ℝ): the denominator `sin(arccos c)` is positive
whenever `0 ≤ c ≤ 1 - ε`, `ε > 0` (so no division by zero either); the spherical blend of unit vectors
with `x·z = cos θ` has unit length; its cosine with `x` is `cos(aθ)` — constant angular speed for every
real `a`, and `cos(aφ)` with `φ = θ + kπ` for the spin version; `a = 0 ↦ x`, `a = 1 ↦ z`; the linear
fall-back has squared length `1 - 2a(1-a)(1-c) ∈ [1 - ε/2, 1]` for `a ∈ [0,1]`.
-/
namespace Glm.Props.C13
open Glm Glm.Spec.C13 Glm.Gen.C13

variable {K : Type} [Field K] [LinearOrder K] [IsStrictOrderedRing K] [CharZero K]

/-- the traced slerp is the documented decision tree (every component, every input, every ordered field in
which the two possible denominators are non-zero) -/
theorem slerp_tree {o : Ops K} (ho : OrderedLike o) (j : Nat) (hj : j < 4) (env : Nat → K)
    (hall : ∀ a ∈ sinDivs, a.divOK o env ∧ a.eval o env ≠ 0) :
    ((lookup "slerp" []).out j).eval o env = (slerpT trig j).eval o env :=
  Family.tree_frac_sound ho.toFieldLike (all_ok f_slerp (by simp [families])) rfl rfl rfl (ks := []) (by simp [f_slerp]) (j := j) hj env hall rfl

/-- **no invalid operation**: on the path slerp takes, every `acos` argument is within `[-1, 1]` -/
theorem slerp_defined {o : Ops K} (ho : OrderedLike o) (j : Nat) (hj : j < 4) (env : Nat → K) :
    (((lookup "slerp" []).out j).select o env).Defined o env :=
  Family.guard_sound ho (all_ok f_slerp (by simp [families])) rfl (ks := []) (by simp [f_slerp]) (j := j) hj env

theorem slerp_spin_defined {o : Ops K} (ho : OrderedLike o) (k : Nat) (hk : [k] ∈ f_slerpk.keys) (j : Nat) (hj : j < 4)
    (env : Nat → K) : (((lookup "slerpk" [k]).out j).select o env).Defined o env :=
  Family.guard_sound ho (all_ok f_slerpk (by simp [families])) rfl (ks := [k]) hk (j := j) hj env

/-- `lerp` is the exact affine blend, in every commutative ring -/
theorem lerp_affine {R : Type} [CommRing R] (j : Nat) (hj : j < 4) (env : Nat → R) :
    ((lookup "qlerp" []).outE j).eval (ringOps R) env = env j * (1 - env 8) + env (4 + j) * env 8 := by
  have := Family.poly_sound (R := R) ringOps_ringLike (all_ok f_qlerp (by simp [families])) rfl rfl (ks := []) (by simp [f_qlerp]) (j := j) hj env
  refine this.trans ?_
  simp [f_qlerp, qx, qy, a, v, one, E.eval]

/-! ## real analysis of the spherical blend -/
open Real

/-- the denominator never vanishes on the spherical path -/
theorem sin_arccos_pos {c ε : ℝ} (h0 : 0 ≤ c) (h1 : c ≤ 1 - ε) (hε : 0 < ε) : 0 < sin (arccos c) := by
  rw [Real.sin_arccos]
  apply Real.sqrt_pos.2
  nlinarith

/-- unit length: `|s₁ x + s₂ z|² = s₁² + s₂² + 2 s₁ s₂ cos θ = sin² θ` for unit `x`, `z` with `x·z = cos θ` -/
theorem slerp_norm (θ t : ℝ) :
    sin ((1 - t) * θ) ^ 2 + sin (t * θ) ^ 2 + 2 * sin ((1 - t) * θ) * sin (t * θ) * cos θ = sin θ ^ 2 := by
  have h : (1 - t) * θ = θ - t * θ := by ring
  rw [h, Real.sin_sub]
  have h1 := Real.sin_sq_add_cos_sq (t * θ)
  have h2 := Real.sin_sq_add_cos_sq θ
  nlinarith [h1, h2, sq_nonneg (sin θ), sq_nonneg (cos θ), sq_nonneg (sin (t*θ)), sq_nonneg (cos (t*θ))]

/-- constant angular speed: `x · slerp(x,z,t) = (s₁ + s₂ cos θ)/sin θ = cos(tθ)`, for every real `t` -/
theorem slerp_angle (θ t : ℝ) :
    sin ((1 - t) * θ) + sin (t * θ) * cos θ = sin θ * cos (t * θ) := by
  have h : (1 - t) * θ = θ - t * θ := by ring
  rw [h, Real.sin_sub]; ring

/-- the same with extra spins: `φ = θ + kπ`, `(sin(θ - tφ) + sin(tφ) cos θ) = sin θ cos(tφ)` -/
theorem slerp_spin_angle (θ u : ℝ) : sin (θ - u) + sin u * cos θ = sin θ * cos u := by
  rw [Real.sin_sub]; ring

/-- and the spin version keeps unit length -/
theorem slerp_spin_norm (θ u : ℝ) :
    sin (θ - u) ^ 2 + sin u ^ 2 + 2 * sin (θ - u) * sin u * cos θ = sin θ ^ 2 := by
  rw [Real.sin_sub]
  have h1 := Real.sin_sq_add_cos_sq u
  have h2 := Real.sin_sq_add_cos_sq θ
  nlinarith [h1, h2, sq_nonneg (sin θ), sq_nonneg (cos θ), sq_nonneg (sin u), sq_nonneg (cos u)]

/-- end points of the spherical blend -/
theorem slerp_endpoints (θ : ℝ) (h : sin θ ≠ 0) :
    sin ((1 - 0) * θ) / sin θ = 1 ∧ sin (0 * θ) / sin θ = 0 ∧ sin ((1 - 1) * θ) / sin θ = 0 ∧ sin (1 * θ) / sin θ = 1 := by
  refine ⟨by simp [h], by simp, by simp, by simp [h]⟩

/-- the linear fall-back: `|(1-t) x + t z|² = 1 - 2t(1-t)(1-c)` for unit `x`, `z`, `x·z = c`;
for `t ∈ [0,1]` and `1 - ε < c ≤ 1` it lies in `[1 - ε/2, 1]` -/
theorem lerp_norm (t c : ℝ) : (1 - t) ^ 2 + t ^ 2 + 2 * (1 - t) * t * c = 1 - 2 * t * (1 - t) * (1 - c) := by ring
theorem lerp_norm_bounds {t c ε : ℝ} (ht0 : 0 ≤ t) (ht1 : t ≤ 1) (hc : 1 - ε < c) (hc1 : c ≤ 1) :
    1 - ε / 2 ≤ 1 - 2 * t * (1 - t) * (1 - c) ∧ 1 - 2 * t * (1 - t) * (1 - c) ≤ 1 := by
  have h1 : 0 ≤ t * (1 - t) := mul_nonneg ht0 (by linarith)
  have h2 : t * (1 - t) ≤ 1 / 4 := by nlinarith [sq_nonneg (t - 1 / 2)]
  have h3 : 0 ≤ 1 - c := by linarith
  have h4 : 1 - c < ε := by linarith
  constructor
  · nlinarith
  · nlinarith

/-- `slerp(x,y,t)` and `slerp(y,x,1-t)` use the same blend: `sin((1-(1-t))θ) = sin(tθ)` -/
theorem slerp_symmetry (θ t : ℝ) : sin ((1 - (1 - t)) * θ) = sin (t * θ) ∧ sin ((1 - t) * θ) = sin ((1 - t) * θ) := by
  constructor
  · congr 1; ring
  · rfl

/-- non-vacuity: slerp really has four leaves and two acos calls guarded -/
example : ((lookup "slerp" []).out 0).leaves.length = 4 ∧ ((lookup "slerp" []).out 0).guarded [] = true := by
  decide +kernel

/-- **walk-mode families** (the code asks its questions in another order, or uses other but equivalent comparisons, than the
specification tree): for every input the traced tree and the specification tree evaluate alike, in every ordered field —
polynomial leaves unconditionally, -/
theorem walk_families_correct {K : Type} [Field K] [LinearOrder K] [IsStrictOrderedRing K] {o : Ops K} (ho : OrderedEqLike o)
    (f : Family) (hf : f ∈ families) (htm : f.treeMode = true) (hw : f.treeWalk = true) (hk : f.kind = .poly)
    (ks : List Nat) (hks : ks ∈ f.keys) (j : Nat) (hj : j < f.nOut ks) (env : Nat → K) :
    ((lookup f.unit ks).out j).eval o env = (f.specT ks j).eval o env :=
  Family.walk_poly_sound ho (all_ok f hf) htm hw hk hks hj env

/-- rational leaves whenever neither selected leaf divides by zero. -/
theorem walk_frac_families_correct {K : Type} [Field K] [LinearOrder K] [IsStrictOrderedRing K] {o : Ops K} (ho : OrderedEqLike o)
    (f : Family) (hf : f ∈ families) (htm : f.treeMode = true) (hw : f.treeWalk = true) (hk : f.kind = .frac)
    (ks : List Nat) (hks : ks ∈ f.keys) (j : Nat) (hj : j < f.nOut ks) (env : Nat → K)
    (hd1 : (((lookup f.unit ks).out j).select o env).divOK o env) (hd2 : ((f.specT ks j).select o env).divOK o env) :
    ((lookup f.unit ks).out j).eval o env = (f.specT ks j).eval o env :=
  Family.walk_frac_sound ho (all_ok f hf) htm hw hk hks hj env hd1 hd2

end Glm.Props.C13
