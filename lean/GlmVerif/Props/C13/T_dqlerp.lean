import GlmVerif.Spec.C13
import GlmVerif.Gen.C13.dqlerp
/-! table check of family `dqlerp` against the model of its units generated from /repo (kernel evaluation) -/
namespace Glm.Props.C13
open Glm Glm.Spec.C13 Glm.Gen.C13
set_option maxHeartbeats 4000000 in
theorem dqlerp_ok : f_dqlerp.ok (fun _ ks => dqlerp_L ks) = true := by decide +kernel
end Glm.Props.C13
