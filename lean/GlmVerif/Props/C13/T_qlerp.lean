import GlmVerif.Spec.C13
import GlmVerif.Gen.C13.qlerp
/-! table check of family `qlerp` against the model of its units generated from /repo (kernel evaluation) -/
namespace Glm.Props.C13
open Glm Glm.Spec.C13 Glm.Gen.C13
set_option maxHeartbeats 4000000 in
theorem qlerp_ok : f_qlerp.ok (fun _ ks => qlerp_L ks) = true := by decide +kernel
end Glm.Props.C13
