import GlmVerif.Spec.C13
import GlmVerif.Gen.C13.qmix
/-! table check of family `qmix` against the model of its units generated from /repo (kernel evaluation) -/
namespace Glm.Props.C13
open Glm Glm.Spec.C13 Glm.Gen.C13
set_option maxHeartbeats 4000000 in
theorem qmix_ok : f_qmix.ok (fun _ ks => qmix_L ks) = true := by decide +kernel
end Glm.Props.C13
