import GlmVerif.Gen.C13
import GlmVerif.Props.C13.T_slerp
import GlmVerif.Props.C13.T_slerpk
import GlmVerif.Props.C13.T_qmix
import GlmVerif.Props.C13.T_qlerp
import GlmVerif.Props.C13.T_shortMix
import GlmVerif.Props.C13.T_fastMix
import GlmVerif.Props.C13.T_dqlerp
/-! every family table of C13 holds for the model generated from the current /repo -/
namespace Glm.Props.C13
open Glm Glm.Spec.C13 Glm.Gen.C13
theorem all_ok : ∀ f ∈ families, f.ok lookup = true := by
  simp only [families, List.mem_cons, List.not_mem_nil, or_false, forall_eq_or_imp, forall_eq]
  exact ⟨(Family.ok_congr f_slerp (fun ks => by rw [show f_slerp.unit = "slerp" from rfl, lookup_slerp])).trans slerp_ok,
    (Family.ok_congr f_slerpk (fun ks => by rw [show f_slerpk.unit = "slerpk" from rfl, lookup_slerpk])).trans slerpk_ok,
    (Family.ok_congr f_qmix (fun ks => by rw [show f_qmix.unit = "qmix" from rfl, lookup_qmix])).trans qmix_ok,
    (Family.ok_congr f_qlerp (fun ks => by rw [show f_qlerp.unit = "qlerp" from rfl, lookup_qlerp])).trans qlerp_ok,
    (Family.ok_congr f_shortMix (fun ks => by rw [show f_shortMix.unit = "shortMix" from rfl, lookup_shortMix])).trans shortMix_ok,
    (Family.ok_congr f_fastMix (fun ks => by rw [show f_fastMix.unit = "fastMix" from rfl, lookup_fastMix])).trans fastMix_ok,
    (Family.ok_congr f_dqlerp (fun ks => by rw [show f_dqlerp.unit = "dqlerp" from rfl, lookup_dqlerp])).trans dqlerp_ok⟩
end Glm.Props.C13
