import GlmVerif.Sem.Family
import GlmVerif.Spec.C19
import GlmVerif.Gen.C19
import GlmVerif.Props.C19.All
/-!
# C19 — colour-space conversions are mutually inverse and range-preserving (what is proved)

* **Integer YCoCg-R is exactly lossless** (`ycocgr_lossless`): `YCoCgR2rgb(rgb2YCoCgR(c)) = c` as an
  identity over the atoms `x >> 1`, hence in every commutative ring and for *every* interpretation of
  the shift — in particular in `ℤ/2^w` for every colour depth and signedness, wrap-around included.
* floating `rgb2YCoCg`/`YCoCg2rgb` and the floating YCoCg-R pair invert each other (both directions) in
  every field of characteristic zero; the forward formulas are the documented ones.
* sRGB: each colour component of `convertLinearToSRGB` / `convertSRGBToLinear` (default and explicit
  gamma, vec3 and vec4) is the documented piecewise curve on the clamped input, and **the alpha component
  of the vec4 overloads is the input alpha**.
* `saturation(s)` maps a grey `(g,g,g,a)` to `(g·(s+(1-s)W), …, a)` where `W` is the sum of the source's
  luminance weights, and `|W - 1| = 3·2^-56` (`weights_sum`): greys are preserved up to the rounding of the
  three literals.  `luminosity` uses the documented weights (0.33, 0.59, 0.11); that it then does *not*
  preserve greys is the recorded finding `Findings.C19`.
Not proved here: monotonicity / range / mutual inverse accuracy of the sRGB curves (real analysis of
`pow`), HSV↔RGB (`rgbColor` converts a float to `int`, `hsvColor` is traced and validated only).
-/
namespace Glm.Props.C19
open Glm Glm.Spec.C19 Glm.Gen.C19

/-- **exactly lossless**, signed (`cfg = 0`) and unsigned (`cfg = 1`), every commutative ring, every
interpretation `o.shr` of `>>` -/
theorem ycocgr_lossless {R : Type} [CommRing R] {o : Ops R} (ho : RingLike o) (cfg : Nat) (hc : [cfg] ∈ [[0],[1]])
    (j : Nat) (hj : j < 3) (env : Nat → R) :
    ((lookup "ycocgr_rt" [cfg]).outE j).eval o env = env j :=
  Family.poly_sound ho (all_ok f_ycocgr_rt (by simp [families])) rfl rfl (ks := [cfg]) hc (j := j) hj env

/-- the three luminance weights of `saturation`, as the exact values of the `double` literals, sum to
`1 - 3/2^56` -/
theorem weights_sum : (1914930561557935 : ℚ) / 9007199254740992 + 6441948906990757 / 9007199254740992
    + 5202558289538397 / 72057594037927936 = 1 - 3 / 72057594037927936 := by norm_num

theorem families_poly {R : Type} [CommRing R] {o : Ops R} (ho : RingLike o)
    (f : Family) (hf : f ∈ families) (htm : f.treeMode = false) (hk : f.kind = .poly)
    (ks : List Nat) (hks : ks ∈ f.keys) (j : Nat) (hj : j < f.nOut ks) (env : Nat → R) :
    (f.post ks (lookup f.unit ks).outE j).eval o env = (f.spec ks j).eval o env :=
  Family.poly_sound ho (all_ok f hf) htm hk hks hj env

theorem families_frac {K : Type} [Field K] [CharZero K] {o : Ops K} (ho : FieldLike o)
    (f : Family) (hf : f ∈ families) (htm : f.treeMode = false) (hk : f.kind = .frac) (hdf : f.divFree = false)
    (ks : List Nat) (hks : ks ∈ f.keys) (j : Nat) (hj : j < f.nOut ks) (env : Nat → K)
    (hall : ∀ a ∈ f.allowed ks, a.divOK o env ∧ a.eval o env ≠ 0) :
    (f.post ks (lookup f.unit ks).outE j).eval o env = (f.spec ks j).eval o env :=
  (Family.frac_sound ho (all_ok f hf) htm hk hdf hks hj env hall).2

/-- sRGB curves (tree mode): the traced decision tree is the documented piecewise formula; component 3 of
the vec4 overloads is the leaf `alpha` -/
theorem curves_correct {R : Type} [CommRing R] {o : Ops R} (ho : RingLike o)
    (f : Family) (hf : f ∈ families) (htm : f.treeMode = true) (hw : f.treeWalk = false) (hk : f.kind = .poly)
    (ks : List Nat) (hks : ks ∈ f.keys) (j : Nat) (hj : j < f.nOut ks) (env : Nat → R) :
    ((lookup f.unit ks).out j).eval o env = (f.specT ks j).eval o env :=
  Family.tree_poly_sound ho (all_ok f hf) htm hw hk hks hj env

theorem srgb_alpha_untouched {R : Type} [CommRing R] {o : Ops R} (ho : RingLike o) (env : Nat → R) :
    ((lookup "lin2srgb" [4]).out 3).eval o env = env 3 ∧ ((lookup "srgb2lin" [4]).out 3).eval o env = env 3 := by
  constructor
  · exact Family.tree_poly_sound ho (all_ok f_lin2srgb (by simp [families])) rfl rfl rfl (ks := [4]) (by simp [f_lin2srgb, mkCurve]) (j := 3) (by decide) env
  · exact Family.tree_poly_sound ho (all_ok f_srgb2lin (by simp [families])) rfl rfl rfl (ks := [4]) (by simp [f_srgb2lin, mkCurve]) (j := 3) (by decide) env

/-- non-vacuity -/
example : (lookup "ycocgr_rt" [0]).ty = .i32 ∧ (lookup "ycocgr_rt" [1]).ty = .u32 ∧
    ((lookup "lin2srgb" [3]).out 0).leaves.length = 4 := by decide +kernel

/-- **walk-mode families** (the code asks its questions in another order, or uses other but equivalent comparisons, than the
specification tree): for every input the traced tree and the specification tree evaluate alike, in every ordered field —
polynomial leaves unconditionally, -/
theorem walk_families_correct {K : Type} [Field K] [LinearOrder K] [IsStrictOrderedRing K] {o : Ops K} (ho : OrderedEqLike o)
    (f : Family) (hf : f ∈ families) (htm : f.treeMode = true) (hw : f.treeWalk = true) (hk : f.kind = .poly)
    (ks : List Nat) (hks : ks ∈ f.keys) (j : Nat) (hj : j < f.nOut ks) (env : Nat → K) :
    ((lookup f.unit ks).out j).eval o env = (f.specT ks j).eval o env :=
  Family.walk_poly_sound ho (all_ok f hf) htm hw hk hks hj env

/-- rational leaves whenever neither selected leaf divides by zero. -/
theorem walk_frac_families_correct {K : Type} [Field K] [LinearOrder K] [IsStrictOrderedRing K] {o : Ops K} (ho : OrderedEqLike o)
    (f : Family) (hf : f ∈ families) (htm : f.treeMode = true) (hw : f.treeWalk = true) (hk : f.kind = .frac)
    (ks : List Nat) (hks : ks ∈ f.keys) (j : Nat) (hj : j < f.nOut ks) (env : Nat → K)
    (hd1 : (((lookup f.unit ks).out j).select o env).divOK o env) (hd2 : ((f.specT ks j).select o env).divOK o env) :
    ((lookup f.unit ks).out j).eval o env = (f.specT ks j).eval o env :=
  Family.walk_frac_sound ho (all_ok f hf) htm hw hk hks hj env hd1 hd2

end Glm.Props.C19
