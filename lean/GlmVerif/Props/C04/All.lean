import GlmVerif.Gen.C04
import GlmVerif.Props.C04.T_qmul
import GlmVerif.Props.C04.T_qcross
import GlmVerif.Props.C04.T_qmulv3
import GlmVerif.Props.C04.T_qmulv4
import GlmVerif.Props.C04.T_vmulq3
import GlmVerif.Props.C04.T_mat3cast
import GlmVerif.Props.C04.T_mat4cast
import GlmVerif.Props.C04.T_mat3ofprod
import GlmVerif.Props.C04.T_mat3orth
import GlmVerif.Props.C04.T_conjugate
import GlmVerif.Props.C04.T_qinverse
import GlmVerif.Props.C04.T_qinverse_id
import GlmVerif.Props.C04.T_qdot
import GlmVerif.Props.C04.T_qlength
import GlmVerif.Props.C04.T_qnormalize
import GlmVerif.Props.C04.T_qadd
import GlmVerif.Props.C04.T_qsub
import GlmVerif.Props.C04.T_qneg
import GlmVerif.Props.C04.T_qmuls
import GlmVerif.Props.C04.T_qdivs
import GlmVerif.Props.C04.T_angleAxis
import GlmVerif.Props.C04.T_quatEuler
import GlmVerif.Props.C04.T_euler1
import GlmVerif.Props.C04.T_euler2
import GlmVerif.Props.C04.T_euler3
import GlmVerif.Props.C04.T_yawPitchRoll
import GlmVerif.Props.C04.T_orientate4
import GlmVerif.Props.C04.T_orientate3
import GlmVerif.Props.C04.T_eulerAngles
import GlmVerif.Props.C04.T_qangle
import GlmVerif.Props.C04.T_qaxis
import GlmVerif.Props.C04.T_quatcast
/-! every family table of C04 holds for the model generated from the current /repo -/
namespace Glm.Props.C04
open Glm Glm.Spec.C04 Glm.Gen.C04
theorem all_ok : ∀ f ∈ families, f.ok lookup = true := by
  simp only [families, List.mem_cons, List.not_mem_nil, or_false, forall_eq_or_imp, forall_eq]
  exact ⟨(Family.ok_congr f_qmul (fun ks => by rw [show f_qmul.unit = "qmul" from rfl, lookup_qmul])).trans qmul_ok,
    (Family.ok_congr f_qcross (fun ks => by rw [show f_qcross.unit = "qcross" from rfl, lookup_qcross])).trans qcross_ok,
    (Family.ok_congr f_qmulv3 (fun ks => by rw [show f_qmulv3.unit = "qmulv3" from rfl, lookup_qmulv3])).trans qmulv3_ok,
    (Family.ok_congr f_qmulv4 (fun ks => by rw [show f_qmulv4.unit = "qmulv4" from rfl, lookup_qmulv4])).trans qmulv4_ok,
    (Family.ok_congr f_vmulq3 (fun ks => by rw [show f_vmulq3.unit = "vmulq3" from rfl, lookup_vmulq3])).trans vmulq3_ok,
    (Family.ok_congr f_mat3cast (fun ks => by rw [show f_mat3cast.unit = "mat3cast" from rfl, lookup_mat3cast])).trans mat3cast_ok,
    (Family.ok_congr f_mat4cast (fun ks => by rw [show f_mat4cast.unit = "mat4cast" from rfl, lookup_mat4cast])).trans mat4cast_ok,
    (Family.ok_congr f_mat3ofprod (fun ks => by rw [show f_mat3ofprod.unit = "mat3ofprod" from rfl, lookup_mat3ofprod])).trans mat3ofprod_ok,
    (Family.ok_congr f_mat3orth (fun ks => by rw [show f_mat3orth.unit = "mat3cast" from rfl, lookup_mat3cast])).trans mat3orth_ok,
    (Family.ok_congr f_conjugate (fun ks => by rw [show f_conjugate.unit = "conjugate" from rfl, lookup_conjugate])).trans conjugate_ok,
    (Family.ok_congr f_qinverse (fun ks => by rw [show f_qinverse.unit = "qinverse" from rfl, lookup_qinverse])).trans qinverse_ok,
    (Family.ok_congr f_qinverse_id (fun ks => by rw [show f_qinverse_id.unit = "qinverse" from rfl, lookup_qinverse])).trans qinverse_id_ok,
    (Family.ok_congr f_qdot (fun ks => by rw [show f_qdot.unit = "qdot" from rfl, lookup_qdot])).trans qdot_ok,
    (Family.ok_congr f_qlength (fun ks => by rw [show f_qlength.unit = "qlength" from rfl, lookup_qlength])).trans qlength_ok,
    (Family.ok_congr f_qnormalize (fun ks => by rw [show f_qnormalize.unit = "qnormalize" from rfl, lookup_qnormalize])).trans qnormalize_ok,
    (Family.ok_congr f_qadd (fun ks => by rw [show f_qadd.unit = "qadd" from rfl, lookup_qadd])).trans qadd_ok,
    (Family.ok_congr f_qsub (fun ks => by rw [show f_qsub.unit = "qsub" from rfl, lookup_qsub])).trans qsub_ok,
    (Family.ok_congr f_qneg (fun ks => by rw [show f_qneg.unit = "qneg" from rfl, lookup_qneg])).trans qneg_ok,
    (Family.ok_congr f_qmuls (fun ks => by rw [show f_qmuls.unit = "qmuls" from rfl, lookup_qmuls])).trans qmuls_ok,
    (Family.ok_congr f_qdivs (fun ks => by rw [show f_qdivs.unit = "qdivs" from rfl, lookup_qdivs])).trans qdivs_ok,
    (Family.ok_congr f_angleAxis (fun ks => by rw [show f_angleAxis.unit = "angleAxis" from rfl, lookup_angleAxis])).trans angleAxis_ok,
    (Family.ok_congr f_quatEuler (fun ks => by rw [show f_quatEuler.unit = "quatEuler" from rfl, lookup_quatEuler])).trans quatEuler_ok,
    (Family.ok_congr f_euler1 (fun ks => by rw [show f_euler1.unit = "euler1" from rfl, lookup_euler1])).trans euler1_ok,
    (Family.ok_congr f_euler2 (fun ks => by rw [show f_euler2.unit = "euler2" from rfl, lookup_euler2])).trans euler2_ok,
    (Family.ok_congr f_euler3 (fun ks => by rw [show f_euler3.unit = "euler3" from rfl, lookup_euler3])).trans euler3_ok,
    (Family.ok_congr f_yawPitchRoll (fun ks => by rw [show f_yawPitchRoll.unit = "yawPitchRoll" from rfl, lookup_yawPitchRoll])).trans yawPitchRoll_ok,
    (Family.ok_congr f_orientate4 (fun ks => by rw [show f_orientate4.unit = "orientate4" from rfl, lookup_orientate4])).trans orientate4_ok,
    (Family.ok_congr f_orientate3 (fun ks => by rw [show f_orientate3.unit = "orientate3" from rfl, lookup_orientate3])).trans orientate3_ok,
    (Family.ok_congr f_eulerAngles (fun ks => by rw [show f_eulerAngles.unit = "eulerAngles" from rfl, lookup_eulerAngles])).trans eulerAngles_ok,
    (Family.ok_congr f_qangle (fun ks => by rw [show f_qangle.unit = "qangle" from rfl, lookup_qangle])).trans qangle_ok,
    (Family.ok_congr f_qaxis (fun ks => by rw [show f_qaxis.unit = "qaxis" from rfl, lookup_qaxis])).trans qaxis_ok,
    (Family.ok_congr f_quatcast (fun ks => by rw [show f_quatcast.unit = "quatcast" from rfl, lookup_quatcast])).trans quatcast_ok⟩
end Glm.Props.C04
