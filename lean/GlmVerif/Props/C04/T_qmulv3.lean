import GlmVerif.Spec.C04
import GlmVerif.Gen.C04.qmulv3
/-! table check of family `qmulv3` against the model of its units generated from /repo (kernel evaluation) -/
namespace Glm.Props.C04
open Glm Glm.Spec.C04 Glm.Gen.C04
set_option maxHeartbeats 4000000 in
theorem qmulv3_ok : f_qmulv3.ok (fun _ ks => qmulv3_L ks) = true := by decide +kernel
end Glm.Props.C04
