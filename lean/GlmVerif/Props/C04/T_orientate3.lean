import GlmVerif.Spec.C04
import GlmVerif.Gen.C04.orientate3
/-! table check of family `orientate3` against the model of its units generated from /repo (kernel evaluation) -/
namespace Glm.Props.C04
open Glm Glm.Spec.C04 Glm.Gen.C04
set_option maxHeartbeats 4000000 in
theorem orientate3_ok : f_orientate3.ok (fun _ ks => orientate3_L ks) = true := by decide +kernel
end Glm.Props.C04
