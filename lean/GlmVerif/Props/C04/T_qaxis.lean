import GlmVerif.Spec.C04
import GlmVerif.Gen.C04.qaxis
/-! table check of family `qaxis` against the model of its units generated from /repo (kernel evaluation) -/
namespace Glm.Props.C04
open Glm Glm.Spec.C04 Glm.Gen.C04
set_option maxHeartbeats 4000000 in
theorem qaxis_ok : f_qaxis.ok (fun _ ks => qaxis_L ks) = true := by decide +kernel
end Glm.Props.C04
