import GlmVerif.Spec.C04
import GlmVerif.Gen.C04.orientate4
/-! table check of family `orientate4` against the model of its units generated from /repo (kernel evaluation) -/
namespace Glm.Props.C04
open Glm Glm.Spec.C04 Glm.Gen.C04
set_option maxHeartbeats 4000000 in
theorem orientate4_ok : f_orientate4.ok (fun _ ks => orientate4_L ks) = true := by decide +kernel
end Glm.Props.C04
