import GlmVerif.Spec.C04
import GlmVerif.Gen.C04.qmul
/-! table check of family `qmul` against the model of its units generated from /repo (kernel evaluation) -/
namespace Glm.Props.C04
open Glm Glm.Spec.C04 Glm.Gen.C04
set_option maxHeartbeats 4000000 in
theorem qmul_ok : f_qmul.ok (fun _ ks => qmul_L ks) = true := by decide +kernel
end Glm.Props.C04
