import GlmVerif.Spec.C04
import GlmVerif.Gen.C04.qangle
/-! table check of family `qangle` against the model of its units generated from /repo (kernel evaluation) -/
namespace Glm.Props.C04
open Glm Glm.Spec.C04 Glm.Gen.C04
set_option maxHeartbeats 4000000 in
theorem qangle_ok : f_qangle.ok (fun _ ks => qangle_L ks) = true := by decide +kernel
end Glm.Props.C04
