import GlmVerif.Spec.C04
import GlmVerif.Gen.C04.qcross
/-! table check of family `qcross` against the model of its units generated from /repo (kernel evaluation) -/
namespace Glm.Props.C04
open Glm Glm.Spec.C04 Glm.Gen.C04
set_option maxHeartbeats 4000000 in
theorem qcross_ok : f_qcross.ok (fun _ ks => qcross_L ks) = true := by decide +kernel
end Glm.Props.C04
