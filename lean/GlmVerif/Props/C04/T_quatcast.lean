import GlmVerif.Spec.C04
import GlmVerif.Gen.C04.quatcast
/-! table check of family `quatcast` against the model of its units generated from /repo (kernel evaluation) -/
namespace Glm.Props.C04
open Glm Glm.Spec.C04 Glm.Gen.C04
set_option maxHeartbeats 4000000 in
theorem quatcast_ok : f_quatcast.ok (fun _ ks => quatcast_L ks) = true := by decide +kernel
end Glm.Props.C04
