import GlmVerif.Spec.C04
import GlmVerif.Gen.C04.euler2
/-! table check of family `euler2` against the model of its units generated from /repo (kernel evaluation) -/
namespace Glm.Props.C04
open Glm Glm.Spec.C04 Glm.Gen.C04
set_option maxHeartbeats 4000000 in
theorem euler2_ok : f_euler2.ok (fun _ ks => euler2_L ks) = true := by decide +kernel
end Glm.Props.C04
