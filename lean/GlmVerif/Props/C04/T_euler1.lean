import GlmVerif.Spec.C04
import GlmVerif.Gen.C04.euler1
/-! table check of family `euler1` against the model of its units generated from /repo (kernel evaluation) -/
namespace Glm.Props.C04
open Glm Glm.Spec.C04 Glm.Gen.C04
set_option maxHeartbeats 4000000 in
theorem euler1_ok : f_euler1.ok (fun _ ks => euler1_L ks) = true := by decide +kernel
end Glm.Props.C04
