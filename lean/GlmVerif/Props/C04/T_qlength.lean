import GlmVerif.Spec.C04
import GlmVerif.Gen.C04.qlength
/-! table check of family `qlength` against the model of its units generated from /repo (kernel evaluation) -/
namespace Glm.Props.C04
open Glm Glm.Spec.C04 Glm.Gen.C04
set_option maxHeartbeats 4000000 in
theorem qlength_ok : f_qlength.ok (fun _ ks => qlength_L ks) = true := by decide +kernel
end Glm.Props.C04
