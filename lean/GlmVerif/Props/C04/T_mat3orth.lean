import GlmVerif.Spec.C04
import GlmVerif.Gen.C04.mat3cast
/-! table check of family `mat3orth` against the model of its units generated from /repo (kernel evaluation) -/
namespace Glm.Props.C04
open Glm Glm.Spec.C04 Glm.Gen.C04
set_option maxHeartbeats 4000000 in
theorem mat3orth_ok : f_mat3orth.ok (fun _ ks => mat3cast_L ks) = true := by decide +kernel
end Glm.Props.C04
