import GlmVerif.Spec.C04
import GlmVerif.Gen.C04.qinverse
/-! table check of family `qinverse_id` against the model of its units generated from /repo (kernel evaluation) -/
namespace Glm.Props.C04
open Glm Glm.Spec.C04 Glm.Gen.C04
set_option maxHeartbeats 4000000 in
theorem qinverse_id_ok : f_qinverse_id.ok (fun _ ks => qinverse_L ks) = true := by decide +kernel
end Glm.Props.C04
