import GlmVerif.Spec.C04
import GlmVerif.Gen.C04.qdivs
/-! table check of family `qdivs` against the model of its units generated from /repo (kernel evaluation) -/
namespace Glm.Props.C04
open Glm Glm.Spec.C04 Glm.Gen.C04
set_option maxHeartbeats 4000000 in
theorem qdivs_ok : f_qdivs.ok (fun _ ks => qdivs_L ks) = true := by decide +kernel
end Glm.Props.C04
