import GlmVerif.Spec.C04
import GlmVerif.Gen.C04.mat3ofprod
/-! table check of family `mat3ofprod` against the model of its units generated from /repo (kernel evaluation) -/
namespace Glm.Props.C04
open Glm Glm.Spec.C04 Glm.Gen.C04
set_option maxHeartbeats 4000000 in
theorem mat3ofprod_ok : f_mat3ofprod.ok (fun _ ks => mat3ofprod_L ks) = true := by decide +kernel
end Glm.Props.C04
