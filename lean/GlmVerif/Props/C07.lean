import GlmVerif.Hand.C07
import Std.Tactic.BVDecide
/-!
# C07 — float ↔ half conversion is exact one way and round-to-nearest the other

All theorems are about the hand model `Glm.Hand.C07.toFloat32 / toFloat16` (a line-by-line
transcription of `/repo/glm/detail/type_half.inl`, tied to the real code by the exhaustive
correspondence of `checks/c07.py`) and quantify over **all** 2^16 half patterns / **all** 2^32
float patterns.  Values are compared as exact fixed-point integers (`f32Mag`, `f16Mag`:
magnitude·2^149 in 288 bits — exact for every finite binary32/binary16), written from the IEEE-754
format definition, not from the code.

Every theorem is closed by `bv_decide` (bit-blasting + LRAT-checked SAT certificate) after
unfolding the definitions; the concrete witnesses and non-vacuity examples by `decide +kernel`
(kernel evaluation, no axioms).
-/
namespace Glm.Props.C07
open Glm.Hand.C07

set_option linter.unusedSimpArgs false
set_option exponentiation.threshold 300

/-- unfold model and specification down to machine-integer/bit-vector operations -/
macro "c07_unfold" : tactic => `(tactic|
  simp only [specF16, specF32, closerOrEqual, absDiff, ovfThreshold, halfMinSub,
    f32IsNaN, f32IsInf, f32IsFinite, f32Sign, f32Exp, f32Man, f32Mag,
    f16IsNaN, f16IsInf, f16IsFinite, f16Sign, f16Exp, f16Man, f16Mag, key32, key16,
    packHalf1x16, unpackHalf1x16, packHalf2x16, unpackHalf2x16_x, unpackHalf2x16_y,
    packHalf4x16, unpackHalf4x16_k,
    toFloat16, toFloat32, renormM10, renormE10, renormM, renormE] at *)

macro "c07_bv" : tactic => `(tactic| (c07_unfold; bv_decide (config := { timeout := 300 })))

/-! ## the unrolled loop is the loop -/

/-- `while(!(m & 0x400))` of toFloat32 (l.55-59) is entered with `0 < m < 0x400` (`e == 0`, `m != 0`);
after the 10 unrolled iterations the loop condition is false, i.e. the real loop has terminated and
further iterations are the identity: unrolling to 10 is exact. -/
theorem toFloat32_loop_terminates (m : Int32) (h0 : !(m == 0)) (h1 : (m &&& ~~~0x3ff) == 0) :
    !((renormM10 m &&& 0x400) == 0) := by
  c07_bv

/-- …and then a further iteration changes neither `m` nor `e` -/
theorem toFloat32_loop_fixpoint (m e : Int32) (h0 : !(m == 0)) (h1 : (m &&& ~~~0x3ff) == 0) :
    renormM (renormM10 m) = renormM10 m ∧ renormE (renormM10 m) (renormE10 m e) = renormE10 m e := by
  c07_bv

/-- the bound 10 is attained (m = 1 needs all ten shifts), so it is also the least bound -/
example : (renormM (renormM (renormM (renormM (renormM (renormM (renormM (renormM (renormM (1 : Int32)))))))))
    &&& 0x400) = 0 := by decide +kernel
example : renormM10 1 = 0x400 ∧ renormE10 1 0 = -10 := by decide +kernel

/-! ## half → float is exact -/

/-- **all 65536 patterns**: `toFloat32 h` is finite/inf/NaN exactly when `h` is, has the sign of `h`
(so signed zeros and infinities keep their sign, NaN keeps its sign), and for finite `h` its
value is exactly the binary16 value of `h` (subnormals included). -/
theorem toFloat32_exact (h : UInt16) : specF32 h (toFloat32 h) = true := by
  c07_bv

/-- the same, spelled out for finite `h` -/
theorem toFloat32_value (h : UInt16) (hf : f16IsFinite h = true) :
    f32IsFinite (toFloat32 h) = true ∧ f32Sign (toFloat32 h) = f16Sign h ∧ f32Mag (toFloat32 h) = f16Mag h := by
  c07_bv

/-- zeros and infinities, bit for bit -/
theorem toFloat32_zero_inf :
    toFloat32 0x0000 = 0x00000000 ∧ toFloat32 0x8000 = 0x80000000 ∧
    toFloat32 0x7c00 = 0x7f800000 ∧ toFloat32 0xfc00 = 0xff800000 := by decide +kernel

/-- NaN ↦ NaN, sign kept, the 10 payload bits kept in the top 10 bits of the binary32 payload -/
theorem toFloat32_nan (h : UInt16) (hn : f16IsNaN h = true) :
    toFloat32 h = (((h &&& 0x8000).toUInt32 <<< (16 : UInt32)) ||| (0x7f800000 : UInt32) ||| ((h &&& 0x3ff).toUInt32 <<< (13 : UInt32))) := by
  c07_bv

/-- the result is never a binary32 subnormal and always has its 13 low significand bits clear
(it is one of the 65536 floats representable as half) -/
theorem toFloat32_low_bits (h : UInt16) : toFloat32 h &&& 0x1fff = 0 := by
  c07_bv

/-- **round trip, all 65536 patterns, NaN payloads included** -/
theorem roundtrip (h : UInt16) : toFloat16 (toFloat32 h) = h := by
  c07_bv

example : f16IsFinite 0x0001 = true ∧ f16IsNaN 0x7e01 = true ∧ toFloat32 0x0001 = 0x33800000 ∧
    toFloat32 0x03ff = 0x387fc000 ∧ toFloat32 0xfe01 = 0xffc02000 := by decide +kernel

/-! ## float → half -/

/-- **sign symmetry, all 2^32 patterns** (NaN included) -/
theorem toFloat16_sign_symm (f : UInt32) : toFloat16 (f ^^^ 0x80000000) = toFloat16 f ^^^ 0x8000 := by
  c07_bv

/-- the sign bit is always copied -/
theorem toFloat16_sign (f : UInt32) : f16Sign (toFloat16 f) = f32Sign f := by
  c07_bv

/-- **nearest, all finite floats below the overflow threshold × all finite halves**: the result is a
finite half with the sign of `f` and no finite half `h'` is strictly closer to `f`
(so on an exact tie either neighbour would be admissible; which one glm takes: `toFloat16_tie_away`). -/
theorem toFloat16_nearest (f : UInt32) (h' : UInt16) (hf : f32IsFinite f = true)
    (hr : f32Mag f < ovfThreshold) (hh : f16IsFinite h' = true) :
    f16IsFinite (toFloat16 f) = true ∧ closerOrEqual f (toFloat16 f) h' = true := by
  c07_bv

/-- **overflow**: every finite float with |f| ≥ 65520 (the midpoint between the largest half 65504
and 2^16) becomes the infinity of its sign -/
theorem toFloat16_overflow (f : UInt32) (hf : f32IsFinite f = true) (hr : f32Mag f ≥ ovfThreshold) :
    toFloat16 f = (((f >>> 16) &&& 0x8000).toUInt16 ||| 0x7c00) := by
  c07_bv

/-- **underflow**: every float with |f| < 2^-25 (half the smallest subnormal; binary32 subnormals and
zeros included) becomes the zero of its sign -/
theorem toFloat16_underflow (f : UInt32) (hf : f32IsFinite f = true) (hr : f32Mag f < halfMinSub) :
    toFloat16 f = ((f >>> 16) &&& 0x8000).toUInt16 := by
  c07_bv

/-- what glm does **at** |f| = 2^-25 exactly (a tie between 0 and the smallest subnormal 2^-24):
it rounds away from zero, to ±2^-24.  Admissible ("either neighbour on an exact tie"); IEEE
round-to-nearest-even (and F16C) return ±0 here. -/
theorem toFloat16_at_half_min_subnormal :
    f32Mag 0x33000000 = halfMinSub ∧ toFloat16 0x33000000 = 0x0001 ∧ toFloat16 0xb3000000 = 0x8001 ∧
    toFloat16 0x32ffffff = 0x0000 ∧ toFloat16 0xb2ffffff = 0x8000 := by decide +kernel

/-- the overflow boundary in bit patterns: 65520 = 0x477ff000 ↦ inf, its predecessor ↦ 65504 -/
theorem toFloat16_at_overflow_boundary :
    f32Mag 0x477ff000 = ovfThreshold ∧ toFloat16 0x477ff000 = 0x7c00 ∧ toFloat16 0x477fefff = 0x7bff ∧
    toFloat16 0xc77ff000 = 0xfc00 ∧ toFloat16 0xc77fefff = 0xfbff := by decide +kernel

/-- infinities are kept -/
theorem toFloat16_inf : toFloat16 0x7f800000 = 0x7c00 ∧ toFloat16 0xff800000 = 0xfc00 := by decide +kernel

/-- **NaN ↦ NaN, never an infinity**, sign kept; the top 10 payload bits are kept, and when they are
all zero the lowest payload bit is set instead -/
theorem toFloat16_nan (f : UInt32) (hn : f32IsNaN f = true) :
    f16IsNaN (toFloat16 f) = true ∧ f16Sign (toFloat16 f) = f32Sign f ∧
    f16Man (toFloat16 f) = (if ((f >>> 13) &&& 0x3ff) == 0 then (1 : UInt16) else ((f >>> 13) &&& 0x3ff).toUInt16) := by
  c07_bv

/-- non-NaN never becomes NaN (a finite float or an infinity gives a finite half or an infinity) -/
theorem toFloat16_not_nan (f : UInt32) (hn : f32IsNaN f = false) : f16IsNaN (toFloat16 f) = false := by
  c07_bv

/-- **the executable specification accepts the model on all 2^32 patterns** -/
theorem toFloat16_spec (f : UInt32) : specF16 f (toFloat16 f) = true := by
  c07_bv

/-- **ties go away from zero** ("round 0.5 up", l.154/206): whenever another finite half `h'` with a
different value is exactly as close to `f` as the result, the result is the one of larger magnitude -/
theorem toFloat16_tie_away (f : UInt32) (h' : UInt16) (hf : f32IsFinite f = true)
    (hr : f32Mag f < ovfThreshold) (hh : f16IsFinite h' = true)
    (hne : !(f16Mag h' == f16Mag (toFloat16 f)))
    (htie : absDiff (f32Mag f) (f16Mag h') == absDiff (f32Mag f) (f16Mag (toFloat16 f))) :
    f16Mag h' < f16Mag (toFloat16 f) := by
  c07_bv

/-- a tie exists (non-vacuity of `toFloat16_tie_away`): 1 + 2^-11 lies midway between the halves
1 = 0x3c00 and 1 + 2^-10 = 0x3c01; glm returns 0x3c01, round-to-nearest-even would return 0x3c00 -/
example : toFloat16 0x3f801000 = 0x3c01 ∧
    absDiff (f32Mag 0x3f801000) (f16Mag 0x3c00) = absDiff (f32Mag 0x3f801000) (f16Mag 0x3c01) := by decide +kernel

/-! ### order -/

/-- the bit pattern order of finite/infinite same-sign floats is the order of their values
(so the bit-pattern formulation of monotonicity below is the value formulation) -/
theorem f32Mag_mono (f g : UInt32) (hf : f32IsFinite f = true) (hg : f32IsFinite g = true) :
    ((f &&& 0x7fffffff) ≤ (g &&& 0x7fffffff)) ↔ (f32Mag f ≤ f32Mag g) := by
  c07_bv

/-- likewise for halves: strictly increasing in the bit pattern within a sign.  (This is also why
checking the two neighbouring patterns in `specF16` is checking all halves.) -/
theorem f16Mag_strictMono (a b : UInt16) (ha : f16IsFinite a = true) (hb : f16IsFinite b = true) :
    ((a &&& 0x7fff) < (b &&& 0x7fff)) ↔ (f16Mag a < f16Mag b) := by
  c07_bv

/-- **monotone on magnitudes, all pairs of non-NaN floats** (finite or infinite) -/
theorem toFloat16_monotone_mag (f g : UInt32) (hf : f32IsNaN f = false) (hg : f32IsNaN g = false)
    (hle : (f &&& 0x7fffffff) ≤ (g &&& 0x7fffffff)) :
    (toFloat16 f &&& 0x7fff) ≤ (toFloat16 g &&& 0x7fff) := by
  c07_bv

/-- **monotone, all pairs of non-NaN floats of either sign**, in the total order
−inf < … < −0 < +0 < … < +inf (`key32`/`key16` are the usual order-preserving maps of
sign-magnitude patterns to unsigned integers) -/
theorem toFloat16_monotone (f g : UInt32) (hf : f32IsNaN f = false) (hg : f32IsNaN g = false)
    (hle : key32 f ≤ key32 g) : key16 (toFloat16 f) ≤ key16 (toFloat16 g) := by
  c07_bv

example : f32IsNaN 0xc0000000 = false ∧ f32IsNaN 0x3f800000 = false ∧ key32 0xc0000000 ≤ key32 0x3f800000 ∧
    key16 (toFloat16 0xc0000000) < key16 (toFloat16 0x3f800000) := by decide +kernel

/-! ### the executable specification is the property -/

/-- whatever `specF16` accepts for a finite in-range `f` is a nearest finite half among **all** finite
halves (not only the two neighbours it looks at) -/
theorem specF16_sound (f : UInt32) (r h' : UInt16) (hs : specF16 f r = true) (hf : f32IsFinite f = true)
    (hr : f32Mag f < ovfThreshold) (hh : f16IsFinite h' = true) :
    f16IsFinite r = true ∧ f16Sign r = f32Sign f ∧ closerOrEqual f r h' = true := by
  c07_bv

/-- …and it determines the result up to the tie: anything it accepts other than glm's result is the
other, smaller-magnitude neighbour at an exact tie, or differs only in a NaN payload -/
theorem specF16_unique (f : UInt32) (r : UInt16) (hs : specF16 f r = true) (hn : f32IsNaN f = false)
    (hne : !(r == toFloat16 f)) :
    f32IsFinite f = true ∧ f16IsFinite r = true ∧ f16Mag r < f16Mag (toFloat16 f) ∧
    absDiff (f32Mag f) (f16Mag r) = absDiff (f32Mag f) (f16Mag (toFloat16 f)) := by
  c07_bv

example : specF16 0x3f801000 0x3c00 = true ∧ specF16 0x3f801000 0x3c01 = true ∧
    specF16 0x3f801000 0x3c02 = false ∧ specF16 0x3f801001 0x3c00 = false ∧
    specF16 0x33000000 0 = true ∧ specF16 0x33000000 1 = true ∧ specF16 0x33000001 0 = false ∧
    specF16 0x477ff000 0x7bff = false ∧ specF16 0x7fc00000 0x7c00 = false := by decide +kernel

/-! ## pack / unpack wrappers -/

theorem packHalf1x16_unpack (h : UInt16) : packHalf1x16 (unpackHalf1x16 h) = h := by
  c07_bv

/-- components of packHalf2x16: `.x` in the low half-word -/
theorem packHalf2x16_layout (x y : UInt32) :
    (packHalf2x16 x y).toUInt16 = toFloat16 x ∧ (packHalf2x16 x y >>> 16).toUInt16 = toFloat16 y := by
  c07_bv

/-- all 2^32 packed words -/
theorem packHalf2x16_unpack (v : UInt32) : packHalf2x16 (unpackHalf2x16_x v) (unpackHalf2x16_y v) = v := by
  c07_bv

/-- all 2^64 packed words -/
theorem packHalf4x16_unpack (v : UInt64) :
    packHalf4x16 (unpackHalf4x16_k 0 v) (unpackHalf4x16_k 1 v) (unpackHalf4x16_k 2 v) (unpackHalf4x16_k 3 v) = v := by
  c07_bv

theorem packHalf4x16_layout (x y z w : UInt32) :
    (packHalf4x16 x y z w).toUInt16 = toFloat16 x ∧ (packHalf4x16 x y z w >>> 16).toUInt16 = toFloat16 y ∧
    (packHalf4x16 x y z w >>> 32).toUInt16 = toFloat16 z ∧ (packHalf4x16 x y z w >>> 48).toUInt16 = toFloat16 w := by
  c07_bv

/-- `packHalf<L>(unpackHalf<L>(v)) = v` for every length -/
theorem packHalfV_unpack (v : Array UInt16) : packHalfV (unpackHalfV v) = v := by
  simp only [packHalfV, unpackHalfV, Array.map_map]
  have : (toFloat16 ∘ toFloat32) = id := funext roundtrip
  rw [this, Array.map_id]

end Glm.Props.C07
