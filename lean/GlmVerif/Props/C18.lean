import GlmVerif.Props.C18.Pow2U
import GlmVerif.Props.C18.Pow2U64
import GlmVerif.Props.C18.Pow2S
import GlmVerif.Props.C18.Pow2S64
import GlmVerif.Props.C18.Multiple
import GlmVerif.Props.C18.Bits
import GlmVerif.Props.C18.Bits64
import GlmVerif.Props.C18.Rotate
import GlmVerif.Props.C18.Interleave
import GlmVerif.Props.C18.Gtx
import GlmVerif.Props.C18.Sqrt
/-!
# C18 — power-of-two, multiple and bit-field utilities return the documented integer

Model: `GlmVerif/Hand/C18.lean` (one definition per glm template, parametrised by the width; the tree WITH the fix
patches of h/C18).  Specification: `GlmVerif.C18.Spec` (bit-by-bit recursions; relations on ℤ for the multiples).
The theorems live in the modules imported above:

* `Pow2U`, `Pow2S`  isPowerOfTwo, ceil/next-, floor/prev-, roundPowerOfTwo, gtx/bit highest/lowestBitValue,
                    powerOfTwoAbove/Below/Nearest, gtc log2 — per width 8/16/32/64 (`decide` for 8 bit, `bv_decide`
                    otherwise); zero excluded by hypothesis; signed: x > 0 (the documentation is silent on negatives)
* `Multiple`        ceil/next-, floor/prev-, roundMultiple, isMultiple — for EVERY width at once, by arithmetic
* `Bits`            findNSB (8/16 bit), mask, bitfieldFillOne/Zero
* `Rotate`          KNOWN FINDING: bitfieldRotateRight/Left are swapped — negation on a witness + `_partial` theorems
* `Interleave`      every bitfieldInterleave overload = "bit i of argument k at n·i+k"; deinterleave ∘ interleave = id
* `Gtx`             nlz, pow (KNOWN FINDING pow(x<0, 0) = -1), mod, factorial
* `Sqrt`            sqrt(uint), sqrt(int) = ⌊√x⌋ for all inputs (Newton iteration, by induction; Mathlib tactics)

The summary theorem below only ties a few of them together so that this module has content of its own.
-/
namespace GlmVerif.C18.Props
open GlmVerif.C18

/-- bitfieldDeinterleave inverts bitfieldInterleave at all three widths -/
theorem deinterleave_interleave :
    (∀ x y : UInt8, deinterleave16x (interleave2x8 x y) = x ∧ deinterleave16y (interleave2x8 x y) = y) ∧
    (∀ x y : UInt16, deinterleave32x (interleave2x16 x y) = x ∧ deinterleave32y (interleave2x16 x y) = y) ∧
    (∀ x y : UInt32, deinterleave64x (interleave2x32 x y) = x ∧ deinterleave64y (interleave2x32 x y) = y) :=
  ⟨deinterleave_interleave_8, deinterleave_interleave_16, deinterleave_interleave_32⟩

end GlmVerif.C18.Props
