import GlmVerif.Gen.C16
import GlmVerif.Props.C16.T_rt_vec
import GlmVerif.Props.C16.T_rt_mat
import GlmVerif.Props.C16.T_vp_mat
import GlmVerif.Props.C16.T_rt_quat
import GlmVerif.Props.C16.T_vp_quat
import GlmVerif.Props.C16.T_rt_mata
import GlmVerif.Props.C16.T_mkvec
/-! every family table of C16 holds for the model generated from the current /repo -/
namespace Glm.Props.C16
open Glm Glm.Spec.C16 Glm.Gen.C16
theorem all_ok : ∀ f ∈ families, f.ok lookup = true := by
  simp only [families, List.mem_cons, List.not_mem_nil, or_false, forall_eq_or_imp, forall_eq]
  exact ⟨(Family.ok_congr f_rt_vec (fun ks => by rw [show f_rt_vec.unit = "rt_vec" from rfl, lookup_rt_vec])).trans rt_vec_ok,
    (Family.ok_congr f_rt_mat (fun ks => by rw [show f_rt_mat.unit = "rt_mat" from rfl, lookup_rt_mat])).trans rt_mat_ok,
    (Family.ok_congr f_vp_mat (fun ks => by rw [show f_vp_mat.unit = "vp_mat" from rfl, lookup_vp_mat])).trans vp_mat_ok,
    (Family.ok_congr f_rt_quat (fun ks => by rw [show f_rt_quat.unit = "rt_quat" from rfl, lookup_rt_quat])).trans rt_quat_ok,
    (Family.ok_congr f_vp_quat (fun ks => by rw [show f_vp_quat.unit = "vp_quat" from rfl, lookup_vp_quat])).trans vp_quat_ok,
    (Family.ok_congr f_rt_mata (fun ks => by rw [show f_rt_mata.unit = "rt_mata" from rfl, lookup_rt_mata])).trans rt_mata_ok,
    (Family.ok_congr f_mkvec (fun ks => by rw [show f_mkvec.unit = "mkvec" from rfl, lookup_mkvec])).trans mkvec_ok⟩
end Glm.Props.C16
