import GlmVerif.Gen.C16.rows_2
/-! layout contract on the rows measured under configuration 2 (see extract/layout_probe.py CONFIGS) -/
namespace Glm.Props.C16
open Glm.Layout Glm.Gen.C16
set_option maxHeartbeats 4000000 in
theorem rows_2_ok : rows_2.all Row.ok = true := by decide +kernel
end Glm.Props.C16
