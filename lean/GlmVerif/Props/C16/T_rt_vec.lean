import GlmVerif.Spec.C16
import GlmVerif.Gen.C16.rt_vec
/-! table check of family `rt_vec` against the model of its units generated from /repo (kernel evaluation) -/
namespace Glm.Props.C16
open Glm Glm.Spec.C16 Glm.Gen.C16
set_option maxHeartbeats 4000000 in
theorem rt_vec_ok : f_rt_vec.ok (fun _ ks => rt_vec_L ks) = true := by decide +kernel
end Glm.Props.C16
