import GlmVerif.Spec.C16
import GlmVerif.Gen.C16.vp_mat
/-! table check of family `vp_mat` against the model of its units generated from /repo (kernel evaluation) -/
namespace Glm.Props.C16
open Glm Glm.Spec.C16 Glm.Gen.C16
set_option maxHeartbeats 4000000 in
theorem vp_mat_ok : f_vp_mat.ok (fun _ ks => vp_mat_L ks) = true := by decide +kernel
end Glm.Props.C16
