import GlmVerif.Spec.C16
import GlmVerif.Gen.C16.rt_mata
/-! table check of family `rt_mata` against the model of its units generated from /repo (kernel evaluation) -/
namespace Glm.Props.C16
open Glm Glm.Spec.C16 Glm.Gen.C16
set_option maxHeartbeats 4000000 in
theorem rt_mata_ok : f_rt_mata.ok (fun _ ks => rt_mata_L ks) = true := by decide +kernel
end Glm.Props.C16
