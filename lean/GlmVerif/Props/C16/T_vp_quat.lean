import GlmVerif.Spec.C16
import GlmVerif.Gen.C16.vp_quat
/-! table check of family `vp_quat` against the model of its units generated from /repo (kernel evaluation) -/
namespace Glm.Props.C16
open Glm Glm.Spec.C16 Glm.Gen.C16
set_option maxHeartbeats 4000000 in
theorem vp_quat_ok : f_vp_quat.ok (fun _ ks => vp_quat_L ks) = true := by decide +kernel
end Glm.Props.C16
