import GlmVerif.Gen.C16.rows_13
/-! layout contract on the rows measured under configuration 13 (see extract/layout_probe.py CONFIGS) -/
namespace Glm.Props.C16
open Glm.Layout Glm.Gen.C16
set_option maxHeartbeats 4000000 in
theorem rows_13_ok : rows_13.all Row.ok = true := by decide +kernel
end Glm.Props.C16
