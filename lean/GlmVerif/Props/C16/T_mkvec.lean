import GlmVerif.Spec.C16
import GlmVerif.Gen.C16.mkvec
/-! table check of family `mkvec` against the model of its units generated from /repo (kernel evaluation) -/
namespace Glm.Props.C16
open Glm Glm.Spec.C16 Glm.Gen.C16
set_option maxHeartbeats 4000000 in
theorem mkvec_ok : f_mkvec.ok (fun _ ks => mkvec_L ks) = true := by decide +kernel
end Glm.Props.C16
