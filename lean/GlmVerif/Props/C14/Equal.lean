import Std.Tactic.BVDecide
import GlmVerif.Hand.C14
import GlmVerif.Props.C14.Bridge
import GlmVerif.Props.C14.Spec
/-!
# C14 — `equal` / `notEqual` with a number of ULPs

* vector overload (model of the tree with `h/C14/fix_vec_equal_ulps_across_zero.diff`), per component,
  for **all** patterns and all `MaxULPs` (negative ones too):
  `equal(x, y, k) ↔ |ordKey x − ordKey y| ≤ k` (`equalUlpsVec…_eq_spec`), `notEqual` its negation;
* matrix overload: a column is equal iff every component is (`equalUlpsCol…_eq_spec`), unequal iff
  some component is (`notEqualUlpsCol…_eq_spec`);
* scalar overload — **known finding, the defect is encoded by glm's own test**
  (`test/ext/ext_scalar_relational.cpp:78` expects `equal(-0.0f, 0.0f, 2) == false`):
  it meets the specification when the sign bits agree (`equalUlps…_partial`), returns `false`
  whenever they differ (`equalUlps…_diff_sign`), which refutes the full statement at
  `(+0, −0, k = 0)` and at `(min subnormal, −min subnormal, k = 2)` (`equalUlps…_refuted`), and
  makes it differ from the vector overload (`equalUlps…_scalar_vs_vector_refuted`);
* the vector code before the patch returned `true` for `x` and `−x` (`preFixEqualUlpsVec…_refuted`).
-/
namespace Glm.Props.C14
open Glm.Hand.C14 Glm.Props.C14.Bridge

/-! ## binary32 -/

theorem equalUlpsVec32_bv (x y k : UInt32) :
    glmEqualUlpsVec32 x y k =
      (absDiff64 (toTwos32 x).toBitVec (toTwos32 y).toBitVec).sle (k.toBitVec.signExtend 64) := by
  unfold glmEqualUlpsVec32 absI32 ftNegative32 absDiff64 toTwos32 sign32 mag32; bv_decide (config := { timeout := 180 })

/-- C14: `equal(x, y, MaxULPs)` is true exactly when x and y are at most MaxULPs representable values
apart, +0 and −0 being the same value -/
theorem equalUlpsVec32_eq_spec (x y k : UInt32) :
    glmEqualUlpsVec32 x y k = equalUlpsSpec32 x y k.toBitVec.toInt := by
  rw [equalUlpsVec32_bv]; unfold equalUlpsSpec32 ulpDist32 ordKey32
  rw [Bool.eq_iff_iff, BitVec.sle_iff_toInt_le, absDiff64_toInt, sext64_toInt]; simp

theorem notEqualUlpsVec32_eq_spec (x y k : UInt32) :
    glmNotEqualUlpsVec32 x y k = !equalUlpsSpec32 x y k.toBitVec.toInt := by
  unfold glmNotEqualUlpsVec32; rw [equalUlpsVec32_eq_spec]

/-- matrix overload, one column: `all(equal(a[i], b[i], MaxULPs))` -/
theorem equalUlpsCol32_eq_spec (col : List (UInt32 × UInt32)) (k : UInt32) :
    glmEqualUlpsCol32 col k = col.all fun p => equalUlpsSpec32 p.1 p.2 k.toBitVec.toInt := by
  unfold glmEqualUlpsCol32; congr 1; funext p; exact equalUlpsVec32_eq_spec p.1 p.2 k
/-- `any(notEqual(a[i], b[i], MaxULPs))` -/
theorem notEqualUlpsCol32_eq_spec (col : List (UInt32 × UInt32)) (k : UInt32) :
    glmNotEqualUlpsCol32 col k = col.any fun p => !equalUlpsSpec32 p.1 p.2 k.toBitVec.toInt := by
  unfold glmNotEqualUlpsCol32; congr 1; funext p; exact notEqualUlpsVec32_eq_spec p.1 p.2 k
/-- the two matrix forms are complementary -/
theorem notEqualUlpsCol32_eq_not (col : List (UInt32 × UInt32)) (k : UInt32) :
    glmNotEqualUlpsCol32 col k = !glmEqualUlpsCol32 col k := by
  unfold glmNotEqualUlpsCol32 glmEqualUlpsCol32 glmNotEqualUlpsVec32
  induction col with
  | nil => rfl
  | cons p t ih => simp only [List.any_cons, List.all_cons, ih, Bool.not_and]

/-! scalar overload (known finding `equal_ulps_scalar: sign(x) != sign(y)`) -/

theorem equalUlps32_same_sign (x y k : UInt32) (h : sign32 x = sign32 y) :
    glmEqualUlps32 x y k = glmEqualUlpsVec32 x y k := by
  unfold glmEqualUlps32 glmEqualUlpsVec32 ftNegative32 sign32 at *; bv_decide (config := { timeout := 180 })
/-- what does hold: equal sign bits ⇒ the scalar overload meets the specification -/
theorem equalUlps32_partial (x y k : UInt32) (h : sign32 x = sign32 y) :
    glmEqualUlps32 x y k = equalUlpsSpec32 x y k.toBitVec.toInt := by
  rw [equalUlps32_same_sign x y k h, equalUlpsVec32_eq_spec]
/-- different sign bits ⇒ `false`, whatever the distance -/
theorem equalUlps32_diff_sign (x y k : UInt32) (h : (sign32 x == sign32 y) = false) :
    glmEqualUlps32 x y k = false := by
  unfold glmEqualUlps32 ftNegative32 sign32 at *; bv_decide (config := { timeout := 180 })
/-- the full statement is refuted: `equal(+0, -0, 0) = false` although they are the same value … -/
theorem equalUlps32_refuted :
    ¬ ∀ (x y k : UInt32), isNaN32 x = false → isNaN32 y = false →
        glmEqualUlps32 x y k = equalUlpsSpec32 x y k.toBitVec.toInt := by
  intro h; have := h 0 0x80000000 0 (by decide) (by decide)
  rw [← equalUlpsVec32_eq_spec] at this; revert this; decide
/-- … and `equal(min subnormal, -min subnormal, 2) = false` although they are 2 ULPs apart -/
theorem equalUlps32_refuted_straddle :
    glmEqualUlps32 0x00000001 0x80000001 2 = false ∧ glmEqualUlpsVec32 0x00000001 0x80000001 2 = true ∧
    glmEqualUlps32 0 0x80000000 0 = false ∧ glmEqualUlpsVec32 0 0x80000000 0 = true := by decide
/-- "identically for the scalar, vector and matrix overloads" is refuted for the scalar one -/
theorem equalUlps32_scalar_vs_vector_refuted :
    ¬ ∀ (x y k : UInt32), glmEqualUlps32 x y k = glmEqualUlpsVec32 x y k := by
  intro h; have := h 0 0x80000000 0; revert this; decide

/-! the vector code before `fix_vec_equal_ulps_across_zero.diff` -/

theorem preFixEqualUlpsVec32_partial (x y k : UInt32) (h : sign32 x = sign32 y) :
    preFixEqualUlpsVec32 x y k = glmEqualUlpsVec32 x y k := by
  unfold preFixEqualUlpsVec32 glmEqualUlpsVec32 ftNegative32 sign32 at *; bv_decide (config := { timeout := 180 })
/-- `equal(vec(1), vec(-1), 0)` was `true` -/
theorem preFixEqualUlpsVec32_refuted :
    ¬ ∀ (x y k : UInt32), preFixEqualUlpsVec32 x y k = equalUlpsSpec32 x y k.toBitVec.toInt := by
  intro h; have := h 0x3F800000 0xBF800000 0
  rw [← equalUlpsVec32_eq_spec] at this; revert this; decide

-- non-vacuity
example : glmEqualUlpsVec32 0x3F800000 0x3F800001 1 = true ∧ glmEqualUlpsVec32 0x3F800000 0x3F800001 0 = false ∧
    glmEqualUlpsVec32 0x3F800000 0x3F800000 0xFFFFFFFF = false ∧ glmEqualUlpsVec32 0x80000001 0x00000001 1 = false := by decide
example : sign32 0xBF800000 = sign32 0x80000000 ∧ glmEqualUlps32 0x80000001 0x80000000 1 = true := by decide
example : glmEqualUlpsCol32 [(0x3F800000, 0x3F800001), (0x80000000, 0)] 1 = true ∧
    glmNotEqualUlpsCol32 [(0x3F800000, 0x3F800001), (0x80000000, 0)] 0 = true := by decide

/-! ## binary64 -/

theorem equalUlpsVec64_bv (x y : UInt64) (k : UInt32) :
    glmEqualUlpsVec64 x y k =
      (absDiff128 (toTwos64 x).toBitVec (toTwos64 y).toBitVec).sle (k.toBitVec.signExtend 128) := by
  unfold glmEqualUlpsVec64 absI64 ftNegative64 absDiff128 toTwos64 sign64 mag64; bv_decide (config := { timeout := 180 })

/-- C14: `equal(x, y, MaxULPs)` is true exactly when x and y are at most MaxULPs representable values
apart, +0 and −0 being the same value -/
theorem equalUlpsVec64_eq_spec (x y : UInt64) (k : UInt32) :
    glmEqualUlpsVec64 x y k = equalUlpsSpec64 x y k.toBitVec.toInt := by
  rw [equalUlpsVec64_bv]; unfold equalUlpsSpec64 ulpDist64 ordKey64
  rw [Bool.eq_iff_iff, BitVec.sle_iff_toInt_le, absDiff128_toInt, sext128_toInt32]; simp

theorem notEqualUlpsVec64_eq_spec (x y : UInt64) (k : UInt32) :
    glmNotEqualUlpsVec64 x y k = !equalUlpsSpec64 x y k.toBitVec.toInt := by
  unfold glmNotEqualUlpsVec64; rw [equalUlpsVec64_eq_spec]

/-- matrix overload, one column: `all(equal(a[i], b[i], MaxULPs))` -/
theorem equalUlpsCol64_eq_spec (col : List (UInt64 × UInt64)) (k : UInt32) :
    glmEqualUlpsCol64 col k = col.all fun p => equalUlpsSpec64 p.1 p.2 k.toBitVec.toInt := by
  unfold glmEqualUlpsCol64; congr 1; funext p; exact equalUlpsVec64_eq_spec p.1 p.2 k
/-- `any(notEqual(a[i], b[i], MaxULPs))` -/
theorem notEqualUlpsCol64_eq_spec (col : List (UInt64 × UInt64)) (k : UInt32) :
    glmNotEqualUlpsCol64 col k = col.any fun p => !equalUlpsSpec64 p.1 p.2 k.toBitVec.toInt := by
  unfold glmNotEqualUlpsCol64; congr 1; funext p; exact notEqualUlpsVec64_eq_spec p.1 p.2 k
/-- the two matrix forms are complementary -/
theorem notEqualUlpsCol64_eq_not (col : List (UInt64 × UInt64)) (k : UInt32) :
    glmNotEqualUlpsCol64 col k = !glmEqualUlpsCol64 col k := by
  unfold glmNotEqualUlpsCol64 glmEqualUlpsCol64 glmNotEqualUlpsVec64
  induction col with
  | nil => rfl
  | cons p t ih => simp only [List.any_cons, List.all_cons, ih, Bool.not_and]

/-! scalar overload (known finding `equal_ulps_scalar: sign(x) != sign(y)`) -/

theorem equalUlps64_same_sign (x y : UInt64) (k : UInt32) (h : sign64 x = sign64 y) :
    glmEqualUlps64 x y k = glmEqualUlpsVec64 x y k := by
  unfold glmEqualUlps64 glmEqualUlpsVec64 ftNegative64 sign64 at *; bv_decide (config := { timeout := 180 })
/-- what does hold: equal sign bits ⇒ the scalar overload meets the specification -/
theorem equalUlps64_partial (x y : UInt64) (k : UInt32) (h : sign64 x = sign64 y) :
    glmEqualUlps64 x y k = equalUlpsSpec64 x y k.toBitVec.toInt := by
  rw [equalUlps64_same_sign x y k h, equalUlpsVec64_eq_spec]
/-- different sign bits ⇒ `false`, whatever the distance -/
theorem equalUlps64_diff_sign (x y : UInt64) (k : UInt32) (h : (sign64 x == sign64 y) = false) :
    glmEqualUlps64 x y k = false := by
  unfold glmEqualUlps64 ftNegative64 sign64 at *; bv_decide (config := { timeout := 180 })
/-- the full statement is refuted: `equal(+0, -0, 0) = false` although they are the same value … -/
theorem equalUlps64_refuted :
    ¬ ∀ (x y : UInt64) (k : UInt32), isNaN64 x = false → isNaN64 y = false →
        glmEqualUlps64 x y k = equalUlpsSpec64 x y k.toBitVec.toInt := by
  intro h; have := h 0 0x8000000000000000 0 (by decide) (by decide)
  rw [← equalUlpsVec64_eq_spec] at this; revert this; decide
/-- … and `equal(min subnormal, -min subnormal, 2) = false` although they are 2 ULPs apart -/
theorem equalUlps64_refuted_straddle :
    glmEqualUlps64 0x0000000000000001 0x8000000000000001 2 = false ∧ glmEqualUlpsVec64 0x0000000000000001 0x8000000000000001 2 = true ∧
    glmEqualUlps64 0 0x8000000000000000 0 = false ∧ glmEqualUlpsVec64 0 0x8000000000000000 0 = true := by decide
/-- "identically for the scalar, vector and matrix overloads" is refuted for the scalar one -/
theorem equalUlps64_scalar_vs_vector_refuted :
    ¬ ∀ (x y : UInt64) (k : UInt32), glmEqualUlps64 x y k = glmEqualUlpsVec64 x y k := by
  intro h; have := h 0 0x8000000000000000 0; revert this; decide

/-! the vector code before `fix_vec_equal_ulps_across_zero.diff` -/

theorem preFixEqualUlpsVec64_partial (x y : UInt64) (k : UInt32) (h : sign64 x = sign64 y) :
    preFixEqualUlpsVec64 x y k = glmEqualUlpsVec64 x y k := by
  unfold preFixEqualUlpsVec64 glmEqualUlpsVec64 ftNegative64 sign64 at *; bv_decide (config := { timeout := 180 })
/-- `equal(vec(1), vec(-1), 0)` was `true` -/
theorem preFixEqualUlpsVec64_refuted :
    ¬ ∀ (x y : UInt64) (k : UInt32), preFixEqualUlpsVec64 x y k = equalUlpsSpec64 x y k.toBitVec.toInt := by
  intro h; have := h 0x3FF0000000000000 0xBFF0000000000000 0
  rw [← equalUlpsVec64_eq_spec] at this; revert this; decide

-- non-vacuity
example : glmEqualUlpsVec64 0x3FF0000000000000 0x3FF0000000000001 1 = true ∧ glmEqualUlpsVec64 0x3FF0000000000000 0x3FF0000000000001 0 = false ∧
    glmEqualUlpsVec64 0x3FF0000000000000 0x3FF0000000000000 0xFFFFFFFF = false ∧ glmEqualUlpsVec64 0x8000000000000001 0x0000000000000001 1 = false := by decide
example : sign64 0xBFF0000000000000 = sign64 0x8000000000000000 ∧ glmEqualUlps64 0x8000000000000001 0x8000000000000000 1 = true := by decide
example : glmEqualUlpsCol64 [(0x3FF0000000000000, 0x3FF0000000000001), (0x8000000000000000, 0)] 1 = true ∧
    glmNotEqualUlpsCol64 [(0x3FF0000000000000, 0x3FF0000000000001), (0x8000000000000000, 0)] 0 = true := by decide

end Glm.Props.C14
