import Std.Tactic.BVDecide
import GlmVerif.Hand.C14
import GlmVerif.Props.C14.Bridge
import GlmVerif.Props.C14.Spec
/-!
# C14 — `nextFloat` / `prevFloat` / their n-step loops

(model of the tree with `h/C14/fix_ulp_step_targets.diff`)

* `nextFloat x = nextUp x`, `prevFloat x = nextDown x` for **every** bit pattern
  (`nextFloat…_eq_nextUp`, `prevFloat…_eq_nextDown`); hence for every finite `x` — negative, zero
  and subnormal included — `nextFloat x` is the smallest representable value greater than `x`
  (`nextFloat…_least`) and `prevFloat x` the largest smaller one (`prevFloat…_greatest`), the key
  moves by exactly one (`nextFloat…_key`, `prevFloat…_key`);
* the n-step overloads are n single steps (`nextFloatN…_succ`, `nextFloatN…_eq_repeat`,
  `nextFloatN…_eq_nextUpN`, `nextFloatN…_key` and the `prev` twins);
* the code before the patch (`preFix…`): `prevFloat` was wrong for *every* finite `x <= FLT_MIN` and
  right above it, `nextFloat` was wrong exactly at `FLT_MAX`.
-/
namespace Glm.Props.C14
open Glm.Hand.C14 Glm.Props.C14.Bridge

/-! ## binary32 -/

theorem nextFloat32_eq_nextUp (x : UInt32) : glmNextFloat32 x = nextUp32 x := by
  unfold glmNextFloat32 nextafter32 nextUp32 isZero32 sign32 isNaN32 qNaN32; bv_decide (config := { timeout := 180 })
theorem prevFloat32_eq_nextDown (x : UInt32) : glmPrevFloat32 x = nextDown32 x := by
  unfold glmPrevFloat32 nextafter32 nextDown32 isZero32 sign32 isNaN32 qNaN32; bv_decide (config := { timeout := 180 })

/-- C14, first clause: for every finite x, `nextFloat(x)` is the smallest representable value greater than x -/
theorem nextFloat32_least (x y : UInt32) (hx : isFinite32 x = true) (hy : isNaN32 y = false) :
    flt32 x (glmNextFloat32 x) = true ∧ (flt32 x y = true → fle32 (glmNextFloat32 x) y = true) := by
  rw [nextFloat32_eq_nextUp]; exact nextUp32_least x y hx hy
/-- … and `prevFloat(x)` the largest one smaller -/
theorem prevFloat32_greatest (x y : UInt32) (hx : isFinite32 x = true) (hy : isNaN32 y = false) :
    flt32 (glmPrevFloat32 x) x = true ∧ (flt32 y x = true → fle32 y (glmPrevFloat32 x) = true) := by
  rw [prevFloat32_eq_nextDown]; exact nextDown32_greatest x y hx hy

theorem nextFloat32_key (x : UInt32) (hx : isNaN32 x = false) (hi : (x == 0x7F800000) = false) :
    ordKey32 (glmNextFloat32 x) = ordKey32 x + 1 := by
  rw [nextFloat32_eq_nextUp]; exact (nextUp32_key x hx hi).1
theorem prevFloat32_key (x : UInt32) (hx : isNaN32 x = false) (hi : (x == 0xFF800000) = false) :
    ordKey32 (glmPrevFloat32 x) = ordKey32 x - 1 := by
  rw [prevFloat32_eq_nextDown]; exact (nextDown32_key x hx hi).1

/-- stepping up then down returns to x (as a value: −0 comes back as +0) -/
theorem prev_next32 (x : UInt32) (hx : isFinite32 x = true) :
    feq32 (glmPrevFloat32 (glmNextFloat32 x)) x = true := by
  unfold glmPrevFloat32 glmNextFloat32 nextafter32 feq32 isFinite32 mag32 isNaN32 qNaN32 at *; bv_decide (config := { timeout := 180 })
theorem next_prev32 (x : UInt32) (hx : isFinite32 x = true) :
    feq32 (glmNextFloat32 (glmPrevFloat32 x)) x = true := by
  unfold glmPrevFloat32 glmNextFloat32 nextafter32 feq32 isFinite32 mag32 isNaN32 qNaN32 at *; bv_decide (config := { timeout := 180 })

/-- the loop of `nextFloat(x, ULPs)`: one more iteration is one more single step -/
theorem nextFloatN32_succ (x : UInt32) (n : Nat) :
    glmNextFloatN32 x (n + 1) = glmNextFloat32 (glmNextFloatN32 x n) := by
  induction n generalizing x with
  | zero => rfl
  | succ n ih =>
    show glmNextFloatN32 (glmNextFloat32 x) (n + 1) = _
    rw [ih]; rfl
theorem prevFloatN32_succ (x : UInt32) (n : Nat) :
    glmPrevFloatN32 x (n + 1) = glmPrevFloat32 (glmPrevFloatN32 x n) := by
  induction n generalizing x with
  | zero => rfl
  | succ n ih =>
    show glmPrevFloatN32 (glmPrevFloat32 x) (n + 1) = _
    rw [ih]; rfl

/-- C14: the n-step overload equals n single steps -/
theorem nextFloatN32_eq_repeat (x : UInt32) (n : Nat) :
    glmNextFloatN32 x n = Nat.repeat glmNextFloat32 n x := by
  induction n with
  | zero => rfl
  | succ n ih => rw [nextFloatN32_succ, ih]; rfl
theorem prevFloatN32_eq_repeat (x : UInt32) (n : Nat) :
    glmPrevFloatN32 x n = Nat.repeat glmPrevFloat32 n x := by
  induction n with
  | zero => rfl
  | succ n ih => rw [prevFloatN32_succ, ih]; rfl

theorem nextFloatN32_eq_nextUpN (x : UInt32) (n : Nat) : glmNextFloatN32 x n = nextUpN32 x n := by
  rw [nextFloatN32_eq_repeat]; unfold nextUpN32
  have : glmNextFloat32 = nextUp32 := funext nextFloat32_eq_nextUp
  rw [this]
theorem prevFloatN32_eq_nextDownN (x : UInt32) (n : Nat) : glmPrevFloatN32 x n = nextDownN32 x n := by
  rw [prevFloatN32_eq_repeat]; unfold nextDownN32
  have : glmPrevFloat32 = nextDown32 := funext prevFloat32_eq_nextDown
  rw [this]

/-- n steps up move the key by n (no NaN, +∞ not passed) -/
theorem nextFloatN32_key (x : UInt32) (n : Nat) (hx : isNaN32 x = false) (hb : ordKey32 x + n ≤ 2139095040) :
    ordKey32 (glmNextFloatN32 x n) = ordKey32 x + n ∧ isNaN32 (glmNextFloatN32 x n) = false := by
  rw [nextFloatN32_eq_nextUpN]; exact nextUpN32_key n x hx hb
theorem prevFloatN32_key (x : UInt32) (n : Nat) (hx : isNaN32 x = false) (hb : -2139095040 ≤ ordKey32 x - n) :
    ordKey32 (glmPrevFloatN32 x n) = ordKey32 x - n ∧ isNaN32 (glmPrevFloatN32 x n) = false := by
  rw [prevFloatN32_eq_nextDownN]; exact nextDownN32_key n x hx hb

/-! the code before `fix_ulp_step_targets.diff` (direction arguments `max()` and `min()`) -/

/-- `prevFloat` was right strictly above the smallest positive normal number … -/
theorem preFixPrevFloat32_partial (x : UInt32) (hx : isFinite32 x = true) (h : flt32 0x00800000 x = true) :
    preFixPrevFloat32 x = nextDown32 x := by
  unfold preFixPrevFloat32 nextafter32 nextDown32 flt32 isFinite32 isZero32 sign32 mag32 isNaN32 qNaN32 at *
  bv_decide (config := { timeout := 180 })
/-- … and wrong for every finite x at or below it (all negative numbers, zeros, subnormals) -/
theorem preFixPrevFloat32_wrong (x : UInt32) (hx : isFinite32 x = true) (h : fle32 x 0x00800000 = true) :
    (preFixPrevFloat32 x == nextDown32 x) = false := by
  unfold preFixPrevFloat32 nextafter32 nextDown32 fle32 flt32 feq32 isFinite32 isZero32 sign32 mag32 isNaN32 qNaN32 at *
  bv_decide (config := { timeout := 180 })
/-- witnesses: prevFloat(-1) = -1 + ulp, prevFloat(0) = +min subnormal -/
theorem preFixPrevFloat32_refuted : ¬ ∀ x : UInt32, isFinite32 x = true → preFixPrevFloat32 x = nextDown32 x := by
  intro h; have := h 0xBF800000 (by decide); revert this; decide
theorem preFixPrevFloat32_zero : preFixPrevFloat32 0 = 0x00000001 ∧ nextDown32 0 = 0x80000001 := by decide
theorem preFixNextFloat32_partial (x : UInt32) (hx : isFinite32 x = true) (h : (x == 0x7F7FFFFF) = false) :
    preFixNextFloat32 x = nextUp32 x := by
  unfold preFixNextFloat32 nextafter32 nextUp32 isFinite32 isZero32 sign32 isNaN32 qNaN32 at *; bv_decide (config := { timeout := 180 })
/-- nextFloat(max) = max instead of +∞ -/
theorem preFixNextFloat32_refuted : ¬ ∀ x : UInt32, isFinite32 x = true → preFixNextFloat32 x = nextUp32 x := by
  intro h; have := h 0x7F7FFFFF (by decide); revert this; decide

-- non-vacuity
example : glmNextFloat32 0x80000000 = 0x00000001 ∧ glmPrevFloat32 0 = 0x80000001 ∧ glmPrevFloat32 0xBF800000 = 0xBF800000 + 1 ∧
    glmNextFloat32 0x7F7FFFFF = 0x7F800000 ∧ glmPrevFloat32 0xFF7FFFFF = 0xFF800000 := by decide
example : glmNextFloatN32 0x80000001 3 = 2 ∧ glmPrevFloatN32 0x00000001 3 = 0x80000001 + 1 := by decide
example : isNaN32 0x80000001 = false ∧ ordKey32 0x80000001 + (3 : Nat) ≤ 2139095040 := by decide

/-! ## binary64 -/

theorem nextFloat64_eq_nextUp (x : UInt64) : glmNextFloat64 x = nextUp64 x := by
  unfold glmNextFloat64 nextafter64 nextUp64 isZero64 sign64 isNaN64 qNaN64; bv_decide (config := { timeout := 180 })
theorem prevFloat64_eq_nextDown (x : UInt64) : glmPrevFloat64 x = nextDown64 x := by
  unfold glmPrevFloat64 nextafter64 nextDown64 isZero64 sign64 isNaN64 qNaN64; bv_decide (config := { timeout := 180 })

/-- C14, first clause: for every finite x, `nextFloat(x)` is the smallest representable value greater than x -/
theorem nextFloat64_least (x y : UInt64) (hx : isFinite64 x = true) (hy : isNaN64 y = false) :
    flt64 x (glmNextFloat64 x) = true ∧ (flt64 x y = true → fle64 (glmNextFloat64 x) y = true) := by
  rw [nextFloat64_eq_nextUp]; exact nextUp64_least x y hx hy
/-- … and `prevFloat(x)` the largest one smaller -/
theorem prevFloat64_greatest (x y : UInt64) (hx : isFinite64 x = true) (hy : isNaN64 y = false) :
    flt64 (glmPrevFloat64 x) x = true ∧ (flt64 y x = true → fle64 y (glmPrevFloat64 x) = true) := by
  rw [prevFloat64_eq_nextDown]; exact nextDown64_greatest x y hx hy

theorem nextFloat64_key (x : UInt64) (hx : isNaN64 x = false) (hi : (x == 0x7FF0000000000000) = false) :
    ordKey64 (glmNextFloat64 x) = ordKey64 x + 1 := by
  rw [nextFloat64_eq_nextUp]; exact (nextUp64_key x hx hi).1
theorem prevFloat64_key (x : UInt64) (hx : isNaN64 x = false) (hi : (x == 0xFFF0000000000000) = false) :
    ordKey64 (glmPrevFloat64 x) = ordKey64 x - 1 := by
  rw [prevFloat64_eq_nextDown]; exact (nextDown64_key x hx hi).1

/-- stepping up then down returns to x (as a value: −0 comes back as +0) -/
theorem prev_next64 (x : UInt64) (hx : isFinite64 x = true) :
    feq64 (glmPrevFloat64 (glmNextFloat64 x)) x = true := by
  unfold glmPrevFloat64 glmNextFloat64 nextafter64 feq64 isFinite64 mag64 isNaN64 qNaN64 at *; bv_decide (config := { timeout := 180 })
theorem next_prev64 (x : UInt64) (hx : isFinite64 x = true) :
    feq64 (glmNextFloat64 (glmPrevFloat64 x)) x = true := by
  unfold glmPrevFloat64 glmNextFloat64 nextafter64 feq64 isFinite64 mag64 isNaN64 qNaN64 at *; bv_decide (config := { timeout := 180 })

/-- the loop of `nextFloat(x, ULPs)`: one more iteration is one more single step -/
theorem nextFloatN64_succ (x : UInt64) (n : Nat) :
    glmNextFloatN64 x (n + 1) = glmNextFloat64 (glmNextFloatN64 x n) := by
  induction n generalizing x with
  | zero => rfl
  | succ n ih =>
    show glmNextFloatN64 (glmNextFloat64 x) (n + 1) = _
    rw [ih]; rfl
theorem prevFloatN64_succ (x : UInt64) (n : Nat) :
    glmPrevFloatN64 x (n + 1) = glmPrevFloat64 (glmPrevFloatN64 x n) := by
  induction n generalizing x with
  | zero => rfl
  | succ n ih =>
    show glmPrevFloatN64 (glmPrevFloat64 x) (n + 1) = _
    rw [ih]; rfl

/-- C14: the n-step overload equals n single steps -/
theorem nextFloatN64_eq_repeat (x : UInt64) (n : Nat) :
    glmNextFloatN64 x n = Nat.repeat glmNextFloat64 n x := by
  induction n with
  | zero => rfl
  | succ n ih => rw [nextFloatN64_succ, ih]; rfl
theorem prevFloatN64_eq_repeat (x : UInt64) (n : Nat) :
    glmPrevFloatN64 x n = Nat.repeat glmPrevFloat64 n x := by
  induction n with
  | zero => rfl
  | succ n ih => rw [prevFloatN64_succ, ih]; rfl

theorem nextFloatN64_eq_nextUpN (x : UInt64) (n : Nat) : glmNextFloatN64 x n = nextUpN64 x n := by
  rw [nextFloatN64_eq_repeat]; unfold nextUpN64
  have : glmNextFloat64 = nextUp64 := funext nextFloat64_eq_nextUp
  rw [this]
theorem prevFloatN64_eq_nextDownN (x : UInt64) (n : Nat) : glmPrevFloatN64 x n = nextDownN64 x n := by
  rw [prevFloatN64_eq_repeat]; unfold nextDownN64
  have : glmPrevFloat64 = nextDown64 := funext prevFloat64_eq_nextDown
  rw [this]

/-- n steps up move the key by n (no NaN, +∞ not passed) -/
theorem nextFloatN64_key (x : UInt64) (n : Nat) (hx : isNaN64 x = false) (hb : ordKey64 x + n ≤ 9218868437227405312) :
    ordKey64 (glmNextFloatN64 x n) = ordKey64 x + n ∧ isNaN64 (glmNextFloatN64 x n) = false := by
  rw [nextFloatN64_eq_nextUpN]; exact nextUpN64_key n x hx hb
theorem prevFloatN64_key (x : UInt64) (n : Nat) (hx : isNaN64 x = false) (hb : -9218868437227405312 ≤ ordKey64 x - n) :
    ordKey64 (glmPrevFloatN64 x n) = ordKey64 x - n ∧ isNaN64 (glmPrevFloatN64 x n) = false := by
  rw [prevFloatN64_eq_nextDownN]; exact nextDownN64_key n x hx hb

/-! the code before `fix_ulp_step_targets.diff` (direction arguments `max()` and `min()`) -/

/-- `prevFloat` was right strictly above the smallest positive normal number … -/
theorem preFixPrevFloat64_partial (x : UInt64) (hx : isFinite64 x = true) (h : flt64 0x0010000000000000 x = true) :
    preFixPrevFloat64 x = nextDown64 x := by
  unfold preFixPrevFloat64 nextafter64 nextDown64 flt64 isFinite64 isZero64 sign64 mag64 isNaN64 qNaN64 at *
  bv_decide (config := { timeout := 180 })
/-- … and wrong for every finite x at or below it (all negative numbers, zeros, subnormals) -/
theorem preFixPrevFloat64_wrong (x : UInt64) (hx : isFinite64 x = true) (h : fle64 x 0x0010000000000000 = true) :
    (preFixPrevFloat64 x == nextDown64 x) = false := by
  unfold preFixPrevFloat64 nextafter64 nextDown64 fle64 flt64 feq64 isFinite64 isZero64 sign64 mag64 isNaN64 qNaN64 at *
  bv_decide (config := { timeout := 180 })
/-- witnesses: prevFloat(-1) = -1 + ulp, prevFloat(0) = +min subnormal -/
theorem preFixPrevFloat64_refuted : ¬ ∀ x : UInt64, isFinite64 x = true → preFixPrevFloat64 x = nextDown64 x := by
  intro h; have := h 0xBFF0000000000000 (by decide); revert this; decide
theorem preFixPrevFloat64_zero : preFixPrevFloat64 0 = 0x0000000000000001 ∧ nextDown64 0 = 0x8000000000000001 := by decide
theorem preFixNextFloat64_partial (x : UInt64) (hx : isFinite64 x = true) (h : (x == 0x7FEFFFFFFFFFFFFF) = false) :
    preFixNextFloat64 x = nextUp64 x := by
  unfold preFixNextFloat64 nextafter64 nextUp64 isFinite64 isZero64 sign64 isNaN64 qNaN64 at *; bv_decide (config := { timeout := 180 })
/-- nextFloat(max) = max instead of +∞ -/
theorem preFixNextFloat64_refuted : ¬ ∀ x : UInt64, isFinite64 x = true → preFixNextFloat64 x = nextUp64 x := by
  intro h; have := h 0x7FEFFFFFFFFFFFFF (by decide); revert this; decide

-- non-vacuity
example : glmNextFloat64 0x8000000000000000 = 0x0000000000000001 ∧ glmPrevFloat64 0 = 0x8000000000000001 ∧ glmPrevFloat64 0xBFF0000000000000 = 0xBFF0000000000000 + 1 ∧
    glmNextFloat64 0x7FEFFFFFFFFFFFFF = 0x7FF0000000000000 ∧ glmPrevFloat64 0xFFEFFFFFFFFFFFFF = 0xFFF0000000000000 := by decide
example : glmNextFloatN64 0x8000000000000001 3 = 2 ∧ glmPrevFloatN64 0x0000000000000001 3 = 0x8000000000000001 + 1 := by decide
example : isNaN64 0x8000000000000001 = false ∧ ordKey64 0x8000000000000001 + (3 : Nat) ≤ 9218868437227405312 := by decide

end Glm.Props.C14
