import Std.Tactic.BVDecide
import GlmVerif.Hand.C14
import GlmVerif.Props.C14.Bridge
import GlmVerif.Props.C14.Spec
import GlmVerif.Props.C14.Step
/-!
# C14 — `floatDistance`

(model of the tree with `h/C14/fix_float_distance_across_zero.diff`)

* `floatDistance x y = min |ordKey x − ordKey y| INT_MAX` for **all** pairs of patterns
  (`floatDistance…_eq_spec`), it is symmetric, and no signed operation in it overflows
  (`floatDistance…_no_overflow`);
* C14: `floatDistance(x, nextFloat(x, n)) = n` for every non-NaN x — negative, zero, subnormal,
  across zero — as long as +∞ is not passed (`floatDistance…_nextN`), same for `prevFloat`;
* the code before the patch (`abs(a.i - b.i)` on sign-magnitude patterns) agreed when the signs are
  equal and was wrong across zero: `floatDistance(-0.0, min subnormal) = INT_MAX`,
  `floatDistance(min subnormal, -min subnormal) = INT_MIN`.
-/
namespace Glm.Props.C14
open Glm.Hand.C14 Glm.Props.C14.Bridge

/-! ## binary32 -/

theorem floatDistance32_bv (x y : UInt32) :
    (glmFloatDistance32 x y).toBitVec.signExtend 64 =
      (if (absDiff64 (toTwos32 x).toBitVec (toTwos32 y).toBitVec).sle 0x7FFFFFFF#64
       then absDiff64 (toTwos32 x).toBitVec (toTwos32 y).toBitVec else 0x7FFFFFFF#64) := by
  unfold glmFloatDistance32 absI32 ftNegative32 absDiff64 toTwos32 sign32 mag32; bv_decide (config := { timeout := 180 })

/-- the returned `int` is the number of representable values between x and y, saturated -/
theorem floatDistance32_eq_spec (x y : UInt32) :
    (glmFloatDistance32 x y).toBitVec.toInt = distSpec32 x y := by
  have h := congrArg BitVec.toInt (floatDistance32_bv x y)
  rw [sext64_toInt] at h
  rw [h]; unfold distSpec32 ulpDist32 ordKey32
  have c : (0x7FFFFFFF#64).toInt = 2147483647 := by decide
  by_cases hs : (absDiff64 (toTwos32 x).toBitVec (toTwos32 y).toBitVec).sle 0x7FFFFFFF#64 = true
  · rw [if_pos hs]; rw [BitVec.sle_iff_toInt_le, c, absDiff64_toInt] at hs
    rw [absDiff64_toInt]; omega
  · rw [if_neg hs]; rw [BitVec.sle_iff_toInt_le, c, absDiff64_toInt] at hs
    rw [c]; omega

theorem floatDistance32_symm (x y : UInt32) : glmFloatDistance32 x y = glmFloatDistance32 y x := by
  unfold glmFloatDistance32 absI32 ftNegative32; bv_decide (config := { timeout := 180 })

/-- no signed subtraction/negation/addition inside `floatDistance` overflows (no undefined behaviour) -/
theorem floatDistance32_no_overflow (x y : UInt32) : floatDistanceOverflows32 x y = false := by
  unfold floatDistanceOverflows32 ftNegative32; bv_decide (config := { timeout := 180 })

/-- C14: `floatDistance(x, nextFloat(x, n)) = n` -/
theorem floatDistance32_nextN (x : UInt32) (n : Nat) (hx : isNaN32 x = false)
    (hb : ordKey32 x + n ≤ 2139095040) (hn : (n : Int) ≤ 2147483647) :
    (glmFloatDistance32 x (glmNextFloatN32 x n)).toBitVec.toInt = n := by
  rw [floatDistance32_eq_spec]; unfold distSpec32 ulpDist32
  rw [(nextFloatN32_key x n hx hb).1]; omega
/-- … and `floatDistance(x, prevFloat(x, n)) = n` -/
theorem floatDistance32_prevN (x : UInt32) (n : Nat) (hx : isNaN32 x = false)
    (hb : -2139095040 ≤ ordKey32 x - n) (hn : (n : Int) ≤ 2147483647) :
    (glmFloatDistance32 x (glmPrevFloatN32 x n)).toBitVec.toInt = n := by
  rw [floatDistance32_eq_spec]; unfold distSpec32 ulpDist32
  rw [(prevFloatN32_key x n hx hb).1]; omega

/-! the code before `fix_float_distance_across_zero.diff` -/

theorem preFixFloatDistance32_partial (x y : UInt32) (h : sign32 x = sign32 y) :
    preFixFloatDistance32 x y = glmFloatDistance32 x y := by
  unfold preFixFloatDistance32 glmFloatDistance32 ftNegative32 sign32 at *; bv_decide (config := { timeout := 180 })
theorem preFixFloatDistance32_refuted :
    ¬ ∀ x y : UInt32, (preFixFloatDistance32 x y).toBitVec.toInt = distSpec32 x y := by
  intro h; have := h 0x80000000 0x00000001
  rw [← floatDistance32_eq_spec] at this; revert this; decide
/-- witnesses: `floatDistance(-0, minsub) = INT_MAX` (spec 1), `floatDistance(minsub, -minsub) = INT_MIN` (spec 2) -/
theorem preFixFloatDistance32_witness :
    preFixFloatDistance32 0x80000000 0x00000001 = 0x7FFFFFFF ∧ glmFloatDistance32 0x80000000 0x00000001 = 1 ∧
    preFixFloatDistance32 0x00000001 0x80000001 = 0x80000000 ∧ glmFloatDistance32 0x00000001 0x80000001 = 2 := by decide

-- non-vacuity
example : glmFloatDistance32 0xBF800000 0x3F800000 = 2 * 0x3F800000 ∧ glmFloatDistance32 0xFF7FFFFF 0x7F7FFFFF = 0x7FFFFFFF ∧
    glmFloatDistance32 0x80000000 0 = 0 := by decide

/-! ## binary64 -/

theorem floatDistance64_bv (x y : UInt64) :
    (glmFloatDistance64 x y).toBitVec.signExtend 128 =
      (if (absDiff128 (toTwos64 x).toBitVec (toTwos64 y).toBitVec).sle 0x7FFFFFFFFFFFFFFF#128
       then absDiff128 (toTwos64 x).toBitVec (toTwos64 y).toBitVec else 0x7FFFFFFFFFFFFFFF#128) := by
  unfold glmFloatDistance64 absI64 ftNegative64 absDiff128 toTwos64 sign64 mag64; bv_decide (config := { timeout := 180 })

/-- the returned `int` is the number of representable values between x and y, saturated -/
theorem floatDistance64_eq_spec (x y : UInt64) :
    (glmFloatDistance64 x y).toBitVec.toInt = distSpec64 x y := by
  have h := congrArg BitVec.toInt (floatDistance64_bv x y)
  rw [sext128_toInt] at h
  rw [h]; unfold distSpec64 ulpDist64 ordKey64
  have c : (0x7FFFFFFFFFFFFFFF#128).toInt = 9223372036854775807 := by decide
  by_cases hs : (absDiff128 (toTwos64 x).toBitVec (toTwos64 y).toBitVec).sle 0x7FFFFFFFFFFFFFFF#128 = true
  · rw [if_pos hs]; rw [BitVec.sle_iff_toInt_le, c, absDiff128_toInt] at hs
    rw [absDiff128_toInt]; omega
  · rw [if_neg hs]; rw [BitVec.sle_iff_toInt_le, c, absDiff128_toInt] at hs
    rw [c]; omega

theorem floatDistance64_symm (x y : UInt64) : glmFloatDistance64 x y = glmFloatDistance64 y x := by
  unfold glmFloatDistance64 absI64 ftNegative64; bv_decide (config := { timeout := 180 })

/-- no signed subtraction/negation/addition inside `floatDistance` overflows (no undefined behaviour) -/
theorem floatDistance64_no_overflow (x y : UInt64) : floatDistanceOverflows64 x y = false := by
  unfold floatDistanceOverflows64 ftNegative64; bv_decide (config := { timeout := 180 })

/-- C14: `floatDistance(x, nextFloat(x, n)) = n` -/
theorem floatDistance64_nextN (x : UInt64) (n : Nat) (hx : isNaN64 x = false)
    (hb : ordKey64 x + n ≤ 9218868437227405312) (hn : (n : Int) ≤ 9223372036854775807) :
    (glmFloatDistance64 x (glmNextFloatN64 x n)).toBitVec.toInt = n := by
  rw [floatDistance64_eq_spec]; unfold distSpec64 ulpDist64
  rw [(nextFloatN64_key x n hx hb).1]; omega
/-- … and `floatDistance(x, prevFloat(x, n)) = n` -/
theorem floatDistance64_prevN (x : UInt64) (n : Nat) (hx : isNaN64 x = false)
    (hb : -9218868437227405312 ≤ ordKey64 x - n) (hn : (n : Int) ≤ 9223372036854775807) :
    (glmFloatDistance64 x (glmPrevFloatN64 x n)).toBitVec.toInt = n := by
  rw [floatDistance64_eq_spec]; unfold distSpec64 ulpDist64
  rw [(prevFloatN64_key x n hx hb).1]; omega

/-! the code before `fix_float_distance_across_zero.diff` -/

theorem preFixFloatDistance64_partial (x y : UInt64) (h : sign64 x = sign64 y) :
    preFixFloatDistance64 x y = glmFloatDistance64 x y := by
  unfold preFixFloatDistance64 glmFloatDistance64 ftNegative64 sign64 at *; bv_decide (config := { timeout := 180 })
theorem preFixFloatDistance64_refuted :
    ¬ ∀ x y : UInt64, (preFixFloatDistance64 x y).toBitVec.toInt = distSpec64 x y := by
  intro h; have := h 0x8000000000000000 0x0000000000000001
  rw [← floatDistance64_eq_spec] at this; revert this; decide
/-- witnesses: `floatDistance(-0, minsub) = INT_MAX` (spec 1), `floatDistance(minsub, -minsub) = INT_MIN` (spec 2) -/
theorem preFixFloatDistance64_witness :
    preFixFloatDistance64 0x8000000000000000 0x0000000000000001 = 0x7FFFFFFFFFFFFFFF ∧ glmFloatDistance64 0x8000000000000000 0x0000000000000001 = 1 ∧
    preFixFloatDistance64 0x0000000000000001 0x8000000000000001 = 0x8000000000000000 ∧ glmFloatDistance64 0x0000000000000001 0x8000000000000001 = 2 := by decide

-- non-vacuity
example : glmFloatDistance64 0xBFF0000000000000 0x3FF0000000000000 = 2 * 0x3FF0000000000000 ∧ glmFloatDistance64 0xFFEFFFFFFFFFFFFF 0x7FEFFFFFFFFFFFFF = 0x7FFFFFFFFFFFFFFF ∧
    glmFloatDistance64 0x8000000000000000 0 = 0 := by decide

end Glm.Props.C14
