import Std.Tactic.BVDecide
import GlmVerif.Hand.C14
import GlmVerif.Props.C14.Bridge
/-!
# C14 — the specification is coherent, and the libm / `float_t` models meet it

* `ordKey` is a strictly monotone embedding of the non-NaN values into ℤ that identifies ±0
  (`ordKey…_lt_iff`, `ordKey…_eq_iff`);
* IEEE `nextUp x` *is* the smallest representable value greater than `x`, `nextDown x` the largest
  smaller one (`nextUp…_least`, `nextDown…_greatest`), and they move the key by exactly one
  (`nextUp…_key`, `nextDown…_key`; n-fold: `nextUpN…_key`, `nextDownN…_key`);
* the integer algorithm behind `std::nextafter` equals the C11 specification (`nextafter…_eq_spec`);
* `detail::float_t` accessors are the IEEE fields (`ftNegative…_eq`, `ftMantissa…_eq`,
  `ftExponent…_eq`, `float_t…_fields`).
-/
namespace Glm.Props.C14
open Glm.Hand.C14 Glm.Props.C14.Bridge

/-! ## binary32 -/

theorem flt32_iff_twos_slt (x y : UInt32) (hx : isNaN32 x = false) (hy : isNaN32 y = false) :
    flt32 x y = (toTwos32 x).toBitVec.slt (toTwos32 y).toBitVec := by
  unfold flt32 toTwos32 sign32 mag32 isNaN32 at *; bv_decide (config := { timeout := 180 })

/-- on non-NaN patterns IEEE `<` is `<` of the integer keys -/
theorem ordKey32_lt_iff (x y : UInt32) (hx : isNaN32 x = false) (hy : isNaN32 y = false) :
    flt32 x y = true ↔ ordKey32 x < ordKey32 y := by
  rw [flt32_iff_twos_slt x y hx hy]; unfold ordKey32; exact BitVec.slt_iff_toInt_lt

theorem feq32_iff_twos_eq (x y : UInt32) (hx : isNaN32 x = false) (hy : isNaN32 y = false) :
    feq32 x y = (toTwos32 x == toTwos32 y) := by
  unfold feq32 toTwos32 sign32 mag32 isNaN32 at *; bv_decide (config := { timeout := 180 })

/-- IEEE `==` (with −0 = +0) is equality of the keys -/
theorem ordKey32_eq_iff (x y : UInt32) (hx : isNaN32 x = false) (hy : isNaN32 y = false) :
    feq32 x y = true ↔ ordKey32 x = ordKey32 y := by
  rw [feq32_iff_twos_eq x y hx hy]; unfold ordKey32
  constructor
  · intro h; have := eq_of_beq h; rw [this]
  · intro h; have := BitVec.eq_of_toInt_eq h
    have : toTwos32 x = toTwos32 y := UInt32.eq_of_toBitVec_eq this
    rw [this]; exact beq_self_eq_true _

/-- IEEE nextUp is "the smallest representable value greater than x" -/
theorem nextUp32_least (x y : UInt32) (hx : isFinite32 x = true) (hy : isNaN32 y = false) :
    flt32 x (nextUp32 x) = true ∧ (flt32 x y = true → fle32 (nextUp32 x) y = true) := by
  unfold nextUp32 fle32 flt32 feq32 isFinite32 isZero32 sign32 mag32 isNaN32 qNaN32 at *; bv_decide (config := { timeout := 180 })

/-- IEEE nextDown is "the largest representable value smaller than x" -/
theorem nextDown32_greatest (x y : UInt32) (hx : isFinite32 x = true) (hy : isNaN32 y = false) :
    flt32 (nextDown32 x) x = true ∧ (flt32 y x = true → fle32 y (nextDown32 x) = true) := by
  unfold nextDown32 fle32 flt32 feq32 isFinite32 isZero32 sign32 mag32 isNaN32 qNaN32 at *; bv_decide (config := { timeout := 180 })

theorem nextUp32_twos (x : UInt32) (hx : isNaN32 x = false) (hi : (x == 0x7F800000) = false) :
    toTwos32 (nextUp32 x) = toTwos32 x + 1 ∧ isNaN32 (nextUp32 x) = false ∧
      (toTwos32 x == 0x7FFFFFFF) = false := by
  unfold nextUp32 toTwos32 isZero32 sign32 mag32 isNaN32 qNaN32 at *; bv_decide (config := { timeout := 180 })

theorem nextDown32_twos (x : UInt32) (hx : isNaN32 x = false) (hi : (x == 0xFF800000) = false) :
    toTwos32 (nextDown32 x) = toTwos32 x - 1 ∧ isNaN32 (nextDown32 x) = false ∧
      (toTwos32 x == 0x80000000) = false := by
  unfold nextDown32 toTwos32 isZero32 sign32 mag32 isNaN32 qNaN32 at *; bv_decide (config := { timeout := 180 })

theorem ne_of_beq_false32 {a b : UInt32} (h : (a == b) = false) : a.toBitVec.toInt ≠ b.toBitVec.toInt := by
  intro e
  have : a = b := UInt32.eq_of_toBitVec_eq (BitVec.eq_of_toInt_eq e)
  rw [this] at h; simp at h

/-- one step up raises the key by exactly one (every non-NaN x except +∞) -/
theorem nextUp32_key (x : UInt32) (hx : isNaN32 x = false) (hi : (x == 0x7F800000) = false) :
    ordKey32 (nextUp32 x) = ordKey32 x + 1 ∧ isNaN32 (nextUp32 x) = false := by
  obtain ⟨h1, h2, h3⟩ := nextUp32_twos x hx hi
  refine ⟨?_, h2⟩
  unfold ordKey32
  rw [h1, UInt32.toBitVec_add]
  have : (1 : UInt32).toBitVec = (1 : BitVec 32) := rfl
  rw [this]
  apply toInt_add_one32
  have := ne_of_beq_false32 h3
  simpa using this

/-- one step down lowers the key by exactly one (every non-NaN x except −∞) -/
theorem nextDown32_key (x : UInt32) (hx : isNaN32 x = false) (hi : (x == 0xFF800000) = false) :
    ordKey32 (nextDown32 x) = ordKey32 x - 1 ∧ isNaN32 (nextDown32 x) = false := by
  obtain ⟨h1, h2, h3⟩ := nextDown32_twos x hx hi
  refine ⟨?_, h2⟩
  unfold ordKey32
  rw [h1, UInt32.toBitVec_sub]
  have : (1 : UInt32).toBitVec = (1 : BitVec 32) := rfl
  rw [this]
  apply toInt_sub_one32
  have := ne_of_beq_false32 h3
  simpa using this

theorem ordKey32_inf : ordKey32 0x7F800000 = 2139095040 := by decide
theorem ordKey32_ninf : ordKey32 0xFF800000 = -2139095040 := by decide

/-- `n` steps up raise the key by `n`, as long as +∞ is not passed -/
theorem nextUpN32_key (n : Nat) : ∀ x : UInt32, isNaN32 x = false → ordKey32 x + n ≤ 2139095040 →
    ordKey32 (nextUpN32 x n) = ordKey32 x + n ∧ isNaN32 (nextUpN32 x n) = false := by
  induction n with
  | zero => intro x hx _; exact ⟨by simp [nextUpN32, Nat.repeat], hx⟩
  | succ n ih =>
    intro x hx hb
    obtain ⟨k1, k2⟩ := ih x hx (by omega)
    have hi : (nextUpN32 x n == 0x7F800000) = false := by
      apply Bool.eq_false_iff.mpr; intro h
      have := eq_of_beq h
      rw [this, ordKey32_inf] at k1
      omega
    obtain ⟨s1, s2⟩ := nextUp32_key _ k2 hi
    show ordKey32 (nextUp32 (nextUpN32 x n)) = _ ∧ isNaN32 (nextUp32 (nextUpN32 x n)) = false
    refine ⟨?_, s2⟩
    rw [s1, k1]; omega

/-- `n` steps down lower the key by `n`, as long as −∞ is not passed -/
theorem nextDownN32_key (n : Nat) : ∀ x : UInt32, isNaN32 x = false → -2139095040 ≤ ordKey32 x - n →
    ordKey32 (nextDownN32 x n) = ordKey32 x - n ∧ isNaN32 (nextDownN32 x n) = false := by
  induction n with
  | zero => intro x hx _; exact ⟨by simp [nextDownN32, Nat.repeat], hx⟩
  | succ n ih =>
    intro x hx hb
    obtain ⟨k1, k2⟩ := ih x hx (by omega)
    have hi : (nextDownN32 x n == 0xFF800000) = false := by
      apply Bool.eq_false_iff.mpr; intro h
      have := eq_of_beq h
      rw [this, ordKey32_ninf] at k1
      omega
    obtain ⟨s1, s2⟩ := nextDown32_key _ k2 hi
    show ordKey32 (nextDown32 (nextDownN32 x n)) = _ ∧ isNaN32 (nextDown32 (nextDownN32 x n)) = false
    refine ⟨?_, s2⟩
    rw [s1, k1]; omega

/-- the libm model (Sun's integer algorithm) = the C11 specification, for all pairs of patterns -/
theorem nextafter32_eq_spec (x y : UInt32) : nextafter32 x y = nextafterSpec32 x y := by
  unfold nextafter32 nextafterSpec32 nextUp32 nextDown32 feq32 flt32 isZero32 sign32 mag32 isNaN32 qNaN32
  bv_decide (config := { timeout := 180 })

/-! `detail::float_t<float>` -/

theorem ftNegative32_eq (x : UInt32) : ftNegative32 x = sign32 x := by
  unfold ftNegative32 sign32; bv_decide (config := { timeout := 180 })
theorem ftMantissa32_eq (x : UInt32) : ftMantissa32 x = x &&& 0x007FFFFF := by
  unfold ftMantissa32; bv_decide (config := { timeout := 180 })
theorem ftExponent32_eq (x : UInt32) : ftExponent32 x = (x >>> 23) &&& 0xFF := by
  unfold ftExponent32; bv_decide (config := { timeout := 180 })
/-- sign, exponent and mantissa reassemble to the pattern: the accessors lose nothing -/
theorem float_t32_fields (x : UInt32) :
    ((if ftNegative32 x then (1 : UInt32) else 0) <<< 31) ||| (ftExponent32 x <<< 23) ||| ftMantissa32 x = x := by
  unfold ftNegative32 ftExponent32 ftMantissa32; bv_decide (config := { timeout := 180 })

-- non-vacuity
example : isFinite32 0x3F800000 = true ∧ isNaN32 0x3F800001 = false ∧ flt32 0x3F800000 0x3F800001 = true := by decide
example : nextUp32 0x3F800000 = 0x3F800001 ∧ nextDown32 0x3F800001 = 0x3F800000 ∧ nextUp32 0x80000000 = 0x00000001 ∧
    nextDown32 0 = 0x80000001 ∧ nextUp32 0x7F7FFFFF = 0x7F800000 ∧ nextUp32 0x80000001 = 0x80000000 := by decide
example : ordKey32 0x80000000 = 0 ∧ ordKey32 0 = 0 ∧ ordKey32 0x80000001 = -1 ∧ ordKey32 0x00000001 = 1 := by decide
example : nextafter32 0 0xBF800000 = 0x80000001 ∧ nextafter32 0x3F800000 0x3F800000 = 0x3F800000 ∧ nextafter32 0x80000000 0 = 0 := by decide
example : ftNegative32 0xBF800000 = true ∧ ftExponent32 0xBF800000 = ((0x3F800000 : UInt32) >>> 23) ∧ ftMantissa32 0x3F800001 = 1 := by decide

/-! ## binary64 -/

theorem flt64_iff_twos_slt (x y : UInt64) (hx : isNaN64 x = false) (hy : isNaN64 y = false) :
    flt64 x y = (toTwos64 x).toBitVec.slt (toTwos64 y).toBitVec := by
  unfold flt64 toTwos64 sign64 mag64 isNaN64 at *; bv_decide (config := { timeout := 180 })

/-- on non-NaN patterns IEEE `<` is `<` of the integer keys -/
theorem ordKey64_lt_iff (x y : UInt64) (hx : isNaN64 x = false) (hy : isNaN64 y = false) :
    flt64 x y = true ↔ ordKey64 x < ordKey64 y := by
  rw [flt64_iff_twos_slt x y hx hy]; unfold ordKey64; exact BitVec.slt_iff_toInt_lt

theorem feq64_iff_twos_eq (x y : UInt64) (hx : isNaN64 x = false) (hy : isNaN64 y = false) :
    feq64 x y = (toTwos64 x == toTwos64 y) := by
  unfold feq64 toTwos64 sign64 mag64 isNaN64 at *; bv_decide (config := { timeout := 180 })

/-- IEEE `==` (with −0 = +0) is equality of the keys -/
theorem ordKey64_eq_iff (x y : UInt64) (hx : isNaN64 x = false) (hy : isNaN64 y = false) :
    feq64 x y = true ↔ ordKey64 x = ordKey64 y := by
  rw [feq64_iff_twos_eq x y hx hy]; unfold ordKey64
  constructor
  · intro h; have := eq_of_beq h; rw [this]
  · intro h; have := BitVec.eq_of_toInt_eq h
    have : toTwos64 x = toTwos64 y := UInt64.eq_of_toBitVec_eq this
    rw [this]; exact beq_self_eq_true _

/-- IEEE nextUp is "the smallest representable value greater than x" -/
theorem nextUp64_least (x y : UInt64) (hx : isFinite64 x = true) (hy : isNaN64 y = false) :
    flt64 x (nextUp64 x) = true ∧ (flt64 x y = true → fle64 (nextUp64 x) y = true) := by
  unfold nextUp64 fle64 flt64 feq64 isFinite64 isZero64 sign64 mag64 isNaN64 qNaN64 at *; bv_decide (config := { timeout := 180 })

/-- IEEE nextDown is "the largest representable value smaller than x" -/
theorem nextDown64_greatest (x y : UInt64) (hx : isFinite64 x = true) (hy : isNaN64 y = false) :
    flt64 (nextDown64 x) x = true ∧ (flt64 y x = true → fle64 y (nextDown64 x) = true) := by
  unfold nextDown64 fle64 flt64 feq64 isFinite64 isZero64 sign64 mag64 isNaN64 qNaN64 at *; bv_decide (config := { timeout := 180 })

theorem nextUp64_twos (x : UInt64) (hx : isNaN64 x = false) (hi : (x == 0x7FF0000000000000) = false) :
    toTwos64 (nextUp64 x) = toTwos64 x + 1 ∧ isNaN64 (nextUp64 x) = false ∧
      (toTwos64 x == 0x7FFFFFFFFFFFFFFF) = false := by
  unfold nextUp64 toTwos64 isZero64 sign64 mag64 isNaN64 qNaN64 at *; bv_decide (config := { timeout := 180 })

theorem nextDown64_twos (x : UInt64) (hx : isNaN64 x = false) (hi : (x == 0xFFF0000000000000) = false) :
    toTwos64 (nextDown64 x) = toTwos64 x - 1 ∧ isNaN64 (nextDown64 x) = false ∧
      (toTwos64 x == 0x8000000000000000) = false := by
  unfold nextDown64 toTwos64 isZero64 sign64 mag64 isNaN64 qNaN64 at *; bv_decide (config := { timeout := 180 })

theorem ne_of_beq_false64 {a b : UInt64} (h : (a == b) = false) : a.toBitVec.toInt ≠ b.toBitVec.toInt := by
  intro e
  have : a = b := UInt64.eq_of_toBitVec_eq (BitVec.eq_of_toInt_eq e)
  rw [this] at h; simp at h

/-- one step up raises the key by exactly one (every non-NaN x except +∞) -/
theorem nextUp64_key (x : UInt64) (hx : isNaN64 x = false) (hi : (x == 0x7FF0000000000000) = false) :
    ordKey64 (nextUp64 x) = ordKey64 x + 1 ∧ isNaN64 (nextUp64 x) = false := by
  obtain ⟨h1, h2, h3⟩ := nextUp64_twos x hx hi
  refine ⟨?_, h2⟩
  unfold ordKey64
  rw [h1, UInt64.toBitVec_add]
  have : (1 : UInt64).toBitVec = (1 : BitVec 64) := rfl
  rw [this]
  apply toInt_add_one64
  have := ne_of_beq_false64 h3
  simpa using this

/-- one step down lowers the key by exactly one (every non-NaN x except −∞) -/
theorem nextDown64_key (x : UInt64) (hx : isNaN64 x = false) (hi : (x == 0xFFF0000000000000) = false) :
    ordKey64 (nextDown64 x) = ordKey64 x - 1 ∧ isNaN64 (nextDown64 x) = false := by
  obtain ⟨h1, h2, h3⟩ := nextDown64_twos x hx hi
  refine ⟨?_, h2⟩
  unfold ordKey64
  rw [h1, UInt64.toBitVec_sub]
  have : (1 : UInt64).toBitVec = (1 : BitVec 64) := rfl
  rw [this]
  apply toInt_sub_one64
  have := ne_of_beq_false64 h3
  simpa using this

theorem ordKey64_inf : ordKey64 0x7FF0000000000000 = 9218868437227405312 := by decide
theorem ordKey64_ninf : ordKey64 0xFFF0000000000000 = -9218868437227405312 := by decide

/-- `n` steps up raise the key by `n`, as long as +∞ is not passed -/
theorem nextUpN64_key (n : Nat) : ∀ x : UInt64, isNaN64 x = false → ordKey64 x + n ≤ 9218868437227405312 →
    ordKey64 (nextUpN64 x n) = ordKey64 x + n ∧ isNaN64 (nextUpN64 x n) = false := by
  induction n with
  | zero => intro x hx _; exact ⟨by simp [nextUpN64, Nat.repeat], hx⟩
  | succ n ih =>
    intro x hx hb
    obtain ⟨k1, k2⟩ := ih x hx (by omega)
    have hi : (nextUpN64 x n == 0x7FF0000000000000) = false := by
      apply Bool.eq_false_iff.mpr; intro h
      have := eq_of_beq h
      rw [this, ordKey64_inf] at k1
      omega
    obtain ⟨s1, s2⟩ := nextUp64_key _ k2 hi
    show ordKey64 (nextUp64 (nextUpN64 x n)) = _ ∧ isNaN64 (nextUp64 (nextUpN64 x n)) = false
    refine ⟨?_, s2⟩
    rw [s1, k1]; omega

/-- `n` steps down lower the key by `n`, as long as −∞ is not passed -/
theorem nextDownN64_key (n : Nat) : ∀ x : UInt64, isNaN64 x = false → -9218868437227405312 ≤ ordKey64 x - n →
    ordKey64 (nextDownN64 x n) = ordKey64 x - n ∧ isNaN64 (nextDownN64 x n) = false := by
  induction n with
  | zero => intro x hx _; exact ⟨by simp [nextDownN64, Nat.repeat], hx⟩
  | succ n ih =>
    intro x hx hb
    obtain ⟨k1, k2⟩ := ih x hx (by omega)
    have hi : (nextDownN64 x n == 0xFFF0000000000000) = false := by
      apply Bool.eq_false_iff.mpr; intro h
      have := eq_of_beq h
      rw [this, ordKey64_ninf] at k1
      omega
    obtain ⟨s1, s2⟩ := nextDown64_key _ k2 hi
    show ordKey64 (nextDown64 (nextDownN64 x n)) = _ ∧ isNaN64 (nextDown64 (nextDownN64 x n)) = false
    refine ⟨?_, s2⟩
    rw [s1, k1]; omega

/-- the libm model (Sun's integer algorithm) = the C11 specification, for all pairs of patterns -/
theorem nextafter64_eq_spec (x y : UInt64) : nextafter64 x y = nextafterSpec64 x y := by
  unfold nextafter64 nextafterSpec64 nextUp64 nextDown64 feq64 flt64 isZero64 sign64 mag64 isNaN64 qNaN64
  bv_decide (config := { timeout := 180 })

/-! `detail::float_t<double>` -/

theorem ftNegative64_eq (x : UInt64) : ftNegative64 x = sign64 x := by
  unfold ftNegative64 sign64; bv_decide (config := { timeout := 180 })
theorem ftMantissa64_eq (x : UInt64) : ftMantissa64 x = x &&& 0x000FFFFFFFFFFFFF := by
  unfold ftMantissa64; bv_decide (config := { timeout := 180 })
theorem ftExponent64_eq (x : UInt64) : ftExponent64 x = (x >>> 52) &&& 0x7FF := by
  unfold ftExponent64; bv_decide (config := { timeout := 180 })
/-- sign, exponent and mantissa reassemble to the pattern: the accessors lose nothing -/
theorem float_t64_fields (x : UInt64) :
    ((if ftNegative64 x then (1 : UInt64) else 0) <<< 63) ||| (ftExponent64 x <<< 52) ||| ftMantissa64 x = x := by
  unfold ftNegative64 ftExponent64 ftMantissa64; bv_decide (config := { timeout := 180 })

-- non-vacuity
example : isFinite64 0x3FF0000000000000 = true ∧ isNaN64 0x3FF0000000000001 = false ∧ flt64 0x3FF0000000000000 0x3FF0000000000001 = true := by decide
example : nextUp64 0x3FF0000000000000 = 0x3FF0000000000001 ∧ nextDown64 0x3FF0000000000001 = 0x3FF0000000000000 ∧ nextUp64 0x8000000000000000 = 0x0000000000000001 ∧
    nextDown64 0 = 0x8000000000000001 ∧ nextUp64 0x7FEFFFFFFFFFFFFF = 0x7FF0000000000000 ∧ nextUp64 0x8000000000000001 = 0x8000000000000000 := by decide
example : ordKey64 0x8000000000000000 = 0 ∧ ordKey64 0 = 0 ∧ ordKey64 0x8000000000000001 = -1 ∧ ordKey64 0x0000000000000001 = 1 := by decide
example : nextafter64 0 0xBFF0000000000000 = 0x8000000000000001 ∧ nextafter64 0x3FF0000000000000 0x3FF0000000000000 = 0x3FF0000000000000 ∧ nextafter64 0x8000000000000000 0 = 0 := by decide
example : ftNegative64 0xBFF0000000000000 = true ∧ ftExponent64 0xBFF0000000000000 = ((0x3FF0000000000000 : UInt64) >>> 52) ∧ ftMantissa64 0x3FF0000000000001 = 1 := by decide

end Glm.Props.C14
