/-!
# C14 — integer facts about two's-complement bit vectors used to read `bv_decide` results as
statements about the integer order key (`BitVec.toInt`).  No `bv_decide` here.
-/
namespace Glm.Props.C14.Bridge

theorem toInt_bounds32 (a : BitVec 32) : -2147483648 ≤ a.toInt ∧ a.toInt < 2147483648 := by
  have h1 := @BitVec.toInt_lt 32 a; have h2 := @BitVec.le_toInt 32 a
  constructor <;> omega

theorem toInt_bounds64 (a : BitVec 64) :
    -9223372036854775808 ≤ a.toInt ∧ a.toInt < 9223372036854775808 := by
  have h1 := @BitVec.toInt_lt 64 a; have h2 := @BitVec.le_toInt 64 a
  constructor <;> omega

theorem bmod32 (n : Int) (h1 : -2147483648 ≤ n) (h2 : n < 2147483648) : n.bmod (2 ^ 32) = n := by
  apply Int.bmod_eq_of_le <;> omega
theorem bmod64 (n : Int) (h1 : -9223372036854775808 ≤ n) (h2 : n < 9223372036854775808) :
    n.bmod (2 ^ 64) = n := by
  apply Int.bmod_eq_of_le <;> omega
theorem bmod128 (n : Int) (h1 : -170141183460469231731687303715884105728 ≤ n)
    (h2 : n < 170141183460469231731687303715884105728) : n.bmod (2 ^ 128) = n := by
  apply Int.bmod_eq_of_le <;> omega

theorem one_toInt32 : (1 : BitVec 32).toInt = 1 := by decide
theorem one_toInt64 : (1 : BitVec 64).toInt = 1 := by decide

/-- adding 1 below the maximum -/
theorem toInt_add_one32 (a : BitVec 32) (h : a.toInt ≠ 2147483647) : (a + 1).toInt = a.toInt + 1 := by
  have hb := toInt_bounds32 a
  rw [BitVec.toInt_add, one_toInt32]; apply bmod32 <;> omega
theorem toInt_sub_one32 (a : BitVec 32) (h : a.toInt ≠ -2147483648) : (a - 1).toInt = a.toInt - 1 := by
  have hb := toInt_bounds32 a
  rw [BitVec.toInt_sub, one_toInt32]; apply bmod32 <;> omega
theorem toInt_add_one64 (a : BitVec 64) (h : a.toInt ≠ 9223372036854775807) :
    (a + 1).toInt = a.toInt + 1 := by
  have hb := toInt_bounds64 a
  rw [BitVec.toInt_add, one_toInt64]; apply bmod64 <;> omega
theorem toInt_sub_one64 (a : BitVec 64) (h : a.toInt ≠ -9223372036854775808) :
    (a - 1).toInt = a.toInt - 1 := by
  have hb := toInt_bounds64 a
  rw [BitVec.toInt_sub, one_toInt64]; apply bmod64 <;> omega

/-- `|a − b|` computed in twice the width is the integer distance (32 → 64) -/
def absDiff64 (a b : BitVec 32) : BitVec 64 :=
  let d := a.signExtend 64 - b.signExtend 64
  if d.slt 0 then -d else d

theorem absDiff64_toInt (a b : BitVec 32) : (absDiff64 a b).toInt = ((a.toInt - b.toInt).natAbs : Int) := by
  have ha := toInt_bounds32 a; have hb := toInt_bounds32 b
  have ea : (a.signExtend 64).toInt = a.toInt := BitVec.toInt_signExtend_of_le (by omega)
  have eb : (b.signExtend 64).toInt = b.toInt := BitVec.toInt_signExtend_of_le (by omega)
  have ed : (a.signExtend 64 - b.signExtend 64).toInt = a.toInt - b.toInt := by
    rw [BitVec.toInt_sub, ea, eb]; apply bmod64 <;> omega
  have z : (0 : BitVec 64).toInt = 0 := by decide
  unfold absDiff64
  simp only []
  by_cases hd : (a.signExtend 64 - b.signExtend 64).slt 0 = true
  · rw [if_pos hd, BitVec.toInt_neg, ed]
    rw [BitVec.slt_iff_toInt_lt, ed, z] at hd
    rw [bmod64 _ (by omega) (by omega)]; omega
  · rw [if_neg hd, ed]
    rw [BitVec.slt_iff_toInt_lt, ed, z] at hd
    omega

/-- (64 → 128) -/
def absDiff128 (a b : BitVec 64) : BitVec 128 :=
  let d := a.signExtend 128 - b.signExtend 128
  if d.slt 0 then -d else d

theorem absDiff128_toInt (a b : BitVec 64) : (absDiff128 a b).toInt = ((a.toInt - b.toInt).natAbs : Int) := by
  have ha := toInt_bounds64 a; have hb := toInt_bounds64 b
  have ea : (a.signExtend 128).toInt = a.toInt := BitVec.toInt_signExtend_of_le (by omega)
  have eb : (b.signExtend 128).toInt = b.toInt := BitVec.toInt_signExtend_of_le (by omega)
  have ed : (a.signExtend 128 - b.signExtend 128).toInt = a.toInt - b.toInt := by
    rw [BitVec.toInt_sub, ea, eb]; apply bmod128 <;> omega
  have z : (0 : BitVec 128).toInt = 0 := by decide
  unfold absDiff128
  simp only []
  by_cases hd : (a.signExtend 128 - b.signExtend 128).slt 0 = true
  · rw [if_pos hd, BitVec.toInt_neg, ed]
    rw [BitVec.slt_iff_toInt_lt, ed, z] at hd
    rw [bmod128 _ (by omega) (by omega)]; omega
  · rw [if_neg hd, ed]
    rw [BitVec.slt_iff_toInt_lt, ed, z] at hd
    omega

theorem sext64_toInt (k : BitVec 32) : (k.signExtend 64).toInt = k.toInt :=
  BitVec.toInt_signExtend_of_le (by omega)
theorem sext128_toInt (k : BitVec 64) : (k.signExtend 128).toInt = k.toInt :=
  BitVec.toInt_signExtend_of_le (by omega)
theorem sext128_toInt32 (k : BitVec 32) : (k.signExtend 128).toInt = k.toInt :=
  BitVec.toInt_signExtend_of_le (by omega)

end Glm.Props.C14.Bridge
