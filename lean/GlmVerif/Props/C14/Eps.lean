import Std.Tactic.BVDecide
import GlmVerif.Hand.C14
/-!
# C14 — comparisons with an epsilon

`d` is `fl(x − y)`, the hardware subtraction; what glm does with it is modelled at the bit level.

* `equal(x, y, ε)` (scalar, vector, matrix column, quaternion — the latter in the tree with
  `h/C14/fix_quat_equal_epsilon.diff`) is literally the IEEE comparison `|fl(x − y)| ≤ ε`
  (`leAbs…_eq_spec`, `equalEps…_eq_spec`): glm's `abs` (`d >= 0 ? d : -d`, which leaves −0 and
  flips the sign of a NaN) is indistinguishable from clearing the sign bit under `<=`;
  `notEqual(x, y, ε)` is `|fl(x − y)| > ε` (`gtAbs…_eq_spec`), the negation of `equal` unless a NaN
  is involved, when both are false (`gtAbs…_eq_not_le`);
* `gtc/epsilon` — **known finding** `epsilonEqual: |fl(x-y)| == epsilon`: `epsilonEqual` is the strict
  `|fl(x − y)| < ε` (as its documentation says), so it differs from the C14 statement exactly when
  `|fl(x − y)| = ε` (`ltAbs…_partial`, `ltAbs…_refuted`; e.g. `epsilonEqual(1, 1.5, 0.5) = false`,
  and `epsilonEqual(x, x, 0) = false`: `ltAbs…_zero`); likewise `epsilonNotEqual` is `>=`.
-/
namespace Glm.Props.C14
open Glm.Hand.C14

/-! ## binary32 -/

/-- C14: the epsilon form of `equal` is literally `|fl(x − y)| <= ε` -/
theorem leAbs32_eq_spec (d e : UInt32) : glmLeAbs32 d e = leAbsSpec32 d e := by
  unfold glmLeAbs32 leAbsSpec32 glmAbsF32 fle32 flt32 feq32 sign32 mag32 isNaN32; bv_decide (config := { timeout := 180 })
/-- … and of `notEqual` literally `|fl(x − y)| > ε` -/
theorem gtAbs32_eq_spec (d e : UInt32) : glmGtAbs32 d e = gtAbsSpec32 d e := by
  unfold glmGtAbs32 gtAbsSpec32 glmAbsF32 fle32 flt32 feq32 sign32 mag32 isNaN32; bv_decide (config := { timeout := 180 })
theorem equalEps32_eq_spec (x y e : UInt32) : glmEqualEps32 x y e = leAbsSpec32 (subBits32 x y) e := by
  unfold glmEqualEps32; exact leAbs32_eq_spec _ _
theorem notEqualEps32_eq_spec (x y e : UInt32) : glmNotEqualEps32 x y e = gtAbsSpec32 (subBits32 x y) e := by
  unfold glmNotEqualEps32; exact gtAbs32_eq_spec _ _
/-- without NaN, `notEqual` is the negation of `equal` -/
theorem gtAbs32_eq_not_le (d e : UInt32) (hd : isNaN32 d = false) (he : isNaN32 e = false) :
    glmGtAbs32 d e = !glmLeAbs32 d e := by
  unfold glmGtAbs32 glmLeAbs32 glmAbsF32 fle32 flt32 feq32 sign32 mag32 isNaN32 at *; bv_decide (config := { timeout := 180 })
/-- with a NaN both are false -/
theorem leAbs_gtAbs32_nan (d e : UInt32) (h : (isNaN32 d || isNaN32 e) = true) :
    glmLeAbs32 d e = false ∧ glmGtAbs32 d e = false := by
  unfold glmGtAbs32 glmLeAbs32 glmAbsF32 fle32 flt32 feq32 sign32 mag32 isNaN32 at *; bv_decide (config := { timeout := 180 })

/-! `gtc/epsilon` (known finding `epsilonEqual: |fl(x-y)| == epsilon`) -/

/-- what does hold: `epsilonEqual` agrees with `|d| <= ε` unless `|d| == ε` -/
theorem ltAbs32_partial (d e : UInt32) (h : feq32 (mag32 d) e = false) : glmLtAbs32 d e = leAbsSpec32 d e := by
  unfold glmLtAbs32 leAbsSpec32 glmAbsF32 fle32 flt32 feq32 sign32 mag32 isNaN32 at *; bv_decide (config := { timeout := 180 })
theorem geAbs32_partial (d e : UInt32) (h : feq32 (mag32 d) e = false) : glmGeAbs32 d e = gtAbsSpec32 d e := by
  unfold glmGeAbs32 gtAbsSpec32 glmAbsF32 fle32 flt32 feq32 sign32 mag32 isNaN32 at *; bv_decide (config := { timeout := 180 })
/-- and it is the opposite when `|d| == ε` -/
theorem ltAbs32_at_eq (d e : UInt32) (h : feq32 (mag32 d) e = true) :
    glmLtAbs32 d e = false ∧ leAbsSpec32 d e = true ∧ glmGeAbs32 d e = true ∧ gtAbsSpec32 d e = false := by
  unfold glmLtAbs32 glmGeAbs32 leAbsSpec32 gtAbsSpec32 glmAbsF32 fle32 flt32 feq32 sign32 mag32 isNaN32 at *
  bv_decide (config := { timeout := 180 })
/-- the full statement is refuted: d = fl(1 − 1.5) = −0.5, ε = 0.5 -/
theorem ltAbs32_refuted : ¬ ∀ d e : UInt32, glmLtAbs32 d e = leAbsSpec32 d e := by
  intro h; have := h 0xBF000000 0x3F000000; revert this; decide
theorem geAbs32_refuted : ¬ ∀ d e : UInt32, glmGeAbs32 d e = gtAbsSpec32 d e := by
  intro h; have := h 0xBF000000 0x3F000000; revert this; decide
/-- `epsilonEqual(x, x, 0)` is false -/
theorem ltAbs32_zero (d : UInt32) : glmLtAbs32 d 0 = false := by
  unfold glmLtAbs32 glmAbsF32 fle32 flt32 feq32 sign32 mag32 isNaN32; bv_decide (config := { timeout := 180 })

-- non-vacuity
example : glmLeAbs32 0xBF000000 0x3F000000 = true ∧ glmLeAbs32 0xBF800000 0x3F000000 = false ∧ glmGtAbs32 0xBF800000 0x3F000000 = true ∧
    isNaN32 0xBF000000 = false ∧ feq32 (mag32 0xBF000000) 0x3F000000 = true ∧ feq32 (mag32 0xBF800000) 0x3F000000 = false := by decide

/-! ## binary64 -/

/-- C14: the epsilon form of `equal` is literally `|fl(x − y)| <= ε` -/
theorem leAbs64_eq_spec (d e : UInt64) : glmLeAbs64 d e = leAbsSpec64 d e := by
  unfold glmLeAbs64 leAbsSpec64 glmAbsF64 fle64 flt64 feq64 sign64 mag64 isNaN64; bv_decide (config := { timeout := 180 })
/-- … and of `notEqual` literally `|fl(x − y)| > ε` -/
theorem gtAbs64_eq_spec (d e : UInt64) : glmGtAbs64 d e = gtAbsSpec64 d e := by
  unfold glmGtAbs64 gtAbsSpec64 glmAbsF64 fle64 flt64 feq64 sign64 mag64 isNaN64; bv_decide (config := { timeout := 180 })
theorem equalEps64_eq_spec (x y e : UInt64) : glmEqualEps64 x y e = leAbsSpec64 (subBits64 x y) e := by
  unfold glmEqualEps64; exact leAbs64_eq_spec _ _
theorem notEqualEps64_eq_spec (x y e : UInt64) : glmNotEqualEps64 x y e = gtAbsSpec64 (subBits64 x y) e := by
  unfold glmNotEqualEps64; exact gtAbs64_eq_spec _ _
/-- without NaN, `notEqual` is the negation of `equal` -/
theorem gtAbs64_eq_not_le (d e : UInt64) (hd : isNaN64 d = false) (he : isNaN64 e = false) :
    glmGtAbs64 d e = !glmLeAbs64 d e := by
  unfold glmGtAbs64 glmLeAbs64 glmAbsF64 fle64 flt64 feq64 sign64 mag64 isNaN64 at *; bv_decide (config := { timeout := 180 })
/-- with a NaN both are false -/
theorem leAbs_gtAbs64_nan (d e : UInt64) (h : (isNaN64 d || isNaN64 e) = true) :
    glmLeAbs64 d e = false ∧ glmGtAbs64 d e = false := by
  unfold glmGtAbs64 glmLeAbs64 glmAbsF64 fle64 flt64 feq64 sign64 mag64 isNaN64 at *; bv_decide (config := { timeout := 180 })

/-! `gtc/epsilon` (known finding `epsilonEqual: |fl(x-y)| == epsilon`) -/

/-- what does hold: `epsilonEqual` agrees with `|d| <= ε` unless `|d| == ε` -/
theorem ltAbs64_partial (d e : UInt64) (h : feq64 (mag64 d) e = false) : glmLtAbs64 d e = leAbsSpec64 d e := by
  unfold glmLtAbs64 leAbsSpec64 glmAbsF64 fle64 flt64 feq64 sign64 mag64 isNaN64 at *; bv_decide (config := { timeout := 180 })
theorem geAbs64_partial (d e : UInt64) (h : feq64 (mag64 d) e = false) : glmGeAbs64 d e = gtAbsSpec64 d e := by
  unfold glmGeAbs64 gtAbsSpec64 glmAbsF64 fle64 flt64 feq64 sign64 mag64 isNaN64 at *; bv_decide (config := { timeout := 180 })
/-- and it is the opposite when `|d| == ε` -/
theorem ltAbs64_at_eq (d e : UInt64) (h : feq64 (mag64 d) e = true) :
    glmLtAbs64 d e = false ∧ leAbsSpec64 d e = true ∧ glmGeAbs64 d e = true ∧ gtAbsSpec64 d e = false := by
  unfold glmLtAbs64 glmGeAbs64 leAbsSpec64 gtAbsSpec64 glmAbsF64 fle64 flt64 feq64 sign64 mag64 isNaN64 at *
  bv_decide (config := { timeout := 180 })
/-- the full statement is refuted: d = fl(1 − 1.5) = −0.5, ε = 0.5 -/
theorem ltAbs64_refuted : ¬ ∀ d e : UInt64, glmLtAbs64 d e = leAbsSpec64 d e := by
  intro h; have := h 0xBFE0000000000000 0x3FE0000000000000; revert this; decide
theorem geAbs64_refuted : ¬ ∀ d e : UInt64, glmGeAbs64 d e = gtAbsSpec64 d e := by
  intro h; have := h 0xBFE0000000000000 0x3FE0000000000000; revert this; decide
/-- `epsilonEqual(x, x, 0)` is false -/
theorem ltAbs64_zero (d : UInt64) : glmLtAbs64 d 0 = false := by
  unfold glmLtAbs64 glmAbsF64 fle64 flt64 feq64 sign64 mag64 isNaN64; bv_decide (config := { timeout := 180 })

-- non-vacuity
example : glmLeAbs64 0xBFE0000000000000 0x3FE0000000000000 = true ∧ glmLeAbs64 0xBFF0000000000000 0x3FE0000000000000 = false ∧ glmGtAbs64 0xBFF0000000000000 0x3FE0000000000000 = true ∧
    isNaN64 0xBFE0000000000000 = false ∧ feq64 (mag64 0xBFE0000000000000) 0x3FE0000000000000 = true ∧ feq64 (mag64 0xBFF0000000000000) 0x3FE0000000000000 = false := by decide

end Glm.Props.C14
