import GlmVerif.Props.C14.Bridge
import GlmVerif.Props.C14.Spec
import GlmVerif.Props.C14.Step
import GlmVerif.Props.C14.Dist
import GlmVerif.Props.C14.Equal
import GlmVerif.Props.C14.Eps
/-!
# C14 — ULP stepping and epsilon/ULP comparisons are exact on every float and double

Model: `GlmVerif/Hand/C14.lean` (glm with the four patches `h/C14/fix_*.diff`).  The clauses of the
property are collected below from the per-topic modules `Props/C14/*.lean`:

| clause | theorem(s) |
|---|---|
| nextFloat(x) smallest value greater than finite x, prevFloat(x) largest smaller | `nextFloat…_least`, `prevFloat…_greatest` (+ `nextUp…_least`: the IEEE spec itself has that property) |
| n-step overloads = n single steps | `nextFloatN…_eq_repeat`, `prevFloatN…_eq_repeat`, `…_key` |
| floatDistance(x, nextFloat(x, n)) = n | `floatDistance…_nextN`, `floatDistance…_prevN`, `floatDistance…_eq_spec` |
| equal(x, y, ULPs) ⇔ at most ULPs values apart, ±0 equal; vector, matrix | `equalUlpsVec…_eq_spec`, `equalUlpsCol…_eq_spec` |
| … scalar overload | **refuted** (`equalUlps…_refuted`, test-encoded), `equalUlps…_partial` |
| equal/notEqual(x, y, ε) ⇔ \|fl(x−y)\| ≤ ε (resp. >) | `leAbs…_eq_spec`, `gtAbs…_eq_spec` |
| … epsilonEqual/epsilonNotEqual | **refuted** at \|fl(x−y)\| = ε (`ltAbs…_refuted`), `ltAbs…_partial` |

`c14_binary32` / `c14_binary64` restate the positive clauses as one proposition each.
-/
namespace Glm.Props.C14
open Glm.Hand.C14

/-- C14 at binary32, everything that holds of the (patched) code -/
theorem c14_binary32 :
    -- nextFloat / prevFloat: least greater / greatest smaller value, for every finite x
    (∀ x y : UInt32, isFinite32 x = true → isNaN32 y = false →
      (flt32 x (glmNextFloat32 x) = true ∧ (flt32 x y = true → fle32 (glmNextFloat32 x) y = true)) ∧
      (flt32 (glmPrevFloat32 x) x = true ∧ (flt32 y x = true → fle32 y (glmPrevFloat32 x) = true))) ∧
    -- n-step = n single steps
    (∀ (x : UInt32) (n : Nat), glmNextFloatN32 x n = Nat.repeat glmNextFloat32 n x ∧
      glmPrevFloatN32 x n = Nat.repeat glmPrevFloat32 n x) ∧
    -- floatDistance(x, nextFloat(x, n)) = n
    (∀ (x : UInt32) (n : Nat), isNaN32 x = false → ordKey32 x + n ≤ 2139095040 → (n : Int) ≤ 2147483647 →
      (glmFloatDistance32 x (glmNextFloatN32 x n)).toBitVec.toInt = n) ∧
    -- equal(x, y, ULPs), vector and matrix overloads, every pattern and every ULPs
    (∀ (x y k : UInt32), glmEqualUlpsVec32 x y k = decide ((ulpDist32 x y : Int) ≤ k.toBitVec.toInt)) ∧
    -- scalar overload: when the sign bits agree
    (∀ (x y k : UInt32), sign32 x = sign32 y →
      glmEqualUlps32 x y k = decide ((ulpDist32 x y : Int) ≤ k.toBitVec.toInt)) ∧
    -- epsilon forms of equal / notEqual
    (∀ x y e : UInt32, glmEqualEps32 x y e = fle32 (subBits32 x y &&& 0x7FFFFFFF) e ∧
      glmNotEqualEps32 x y e = flt32 e (subBits32 x y &&& 0x7FFFFFFF)) :=
  ⟨fun x y hx hy => ⟨nextFloat32_least x y hx hy, prevFloat32_greatest x y hx hy⟩,
   fun x n => ⟨nextFloatN32_eq_repeat x n, prevFloatN32_eq_repeat x n⟩,
   fun x n hx hb hn => floatDistance32_nextN x n hx hb hn,
   fun x y k => equalUlpsVec32_eq_spec x y k,
   fun x y k h => equalUlps32_partial x y k h,
   fun x y e => ⟨equalEps32_eq_spec x y e, notEqualEps32_eq_spec x y e⟩⟩

/-- C14 at binary64, everything that holds of the (patched) code -/
theorem c14_binary64 :
    -- nextFloat / prevFloat: least greater / greatest smaller value, for every finite x
    (∀ x y : UInt64, isFinite64 x = true → isNaN64 y = false →
      (flt64 x (glmNextFloat64 x) = true ∧ (flt64 x y = true → fle64 (glmNextFloat64 x) y = true)) ∧
      (flt64 (glmPrevFloat64 x) x = true ∧ (flt64 y x = true → fle64 y (glmPrevFloat64 x) = true))) ∧
    -- n-step = n single steps
    (∀ (x : UInt64) (n : Nat), glmNextFloatN64 x n = Nat.repeat glmNextFloat64 n x ∧
      glmPrevFloatN64 x n = Nat.repeat glmPrevFloat64 n x) ∧
    -- floatDistance(x, nextFloat(x, n)) = n
    (∀ (x : UInt64) (n : Nat), isNaN64 x = false → ordKey64 x + n ≤ 9218868437227405312 → (n : Int) ≤ 9223372036854775807 →
      (glmFloatDistance64 x (glmNextFloatN64 x n)).toBitVec.toInt = n) ∧
    -- equal(x, y, ULPs), vector and matrix overloads, every pattern and every ULPs
    (∀ (x y : UInt64) (k : UInt32), glmEqualUlpsVec64 x y k = decide ((ulpDist64 x y : Int) ≤ k.toBitVec.toInt)) ∧
    -- scalar overload: when the sign bits agree
    (∀ (x y : UInt64) (k : UInt32), sign64 x = sign64 y →
      glmEqualUlps64 x y k = decide ((ulpDist64 x y : Int) ≤ k.toBitVec.toInt)) ∧
    -- epsilon forms of equal / notEqual
    (∀ x y e : UInt64, glmEqualEps64 x y e = fle64 (subBits64 x y &&& 0x7FFFFFFFFFFFFFFF) e ∧
      glmNotEqualEps64 x y e = flt64 e (subBits64 x y &&& 0x7FFFFFFFFFFFFFFF)) :=
  ⟨fun x y hx hy => ⟨nextFloat64_least x y hx hy, prevFloat64_greatest x y hx hy⟩,
   fun x n => ⟨nextFloatN64_eq_repeat x n, prevFloatN64_eq_repeat x n⟩,
   fun x n hx hb hn => floatDistance64_nextN x n hx hb hn,
   fun x y k => equalUlpsVec64_eq_spec x y k,
   fun x y k h => equalUlps64_partial x y k h,
   fun x y e => ⟨equalEps64_eq_spec x y e, notEqualEps64_eq_spec x y e⟩⟩

end Glm.Props.C14
