import GlmVerif.Sem.Family
import GlmVerif.Spec.C16
import GlmVerif.Gen.C16
import GlmVerif.Gen.C16rows
import GlmVerif.Props.C16.All
import GlmVerif.Props.C16.R_0
import GlmVerif.Props.C16.R_1
import GlmVerif.Props.C16.R_2
import GlmVerif.Props.C16.R_3
import GlmVerif.Props.C16.R_4
import GlmVerif.Props.C16.R_5
import GlmVerif.Props.C16.R_6
import GlmVerif.Props.C16.R_7
import GlmVerif.Props.C16.R_8
import GlmVerif.Props.C16.R_9
import GlmVerif.Props.C16.R_10
import GlmVerif.Props.C16.R_11
import GlmVerif.Props.C16.R_12
import GlmVerif.Props.C16.R_13
import GlmVerif.Props.C16.R_14
/-!
# C16 — vector, matrix and quaternion storage layout matches the documented contract

`rows_ok`: **every** row of the layout table measured on /repo — every `vec<1..4>`, the nine matrix shapes and
`qua`, over `bool`, the 8–64 bit integers, `float`, `double`, packed and (where the configuration provides
them) aligned qualifiers × highp/mediump/lowp, under 13 configurations (default, SWIZZLE, XYZW_ONLY,
ALIGNED_GENTYPES, DEFAULT_ALIGNED_GENTYPES, INTRINSICS at SSE2 / AVX / AVX2, SIZE_T_LENGTH, QUAT_DATA_WXYZ,
CTOR_INIT, INTRINSICS+SWIZZLE, INTRINSICS+DEFAULT_ALIGNED) — satisfies `Layout.Row.ok`: a packed `vecL<T>` is
`L` contiguous `T` (`sizeof = L·sizeof T`, `&v[i] = &v.x + i`), a packed matrix is `C·R` contiguous `T` in
column-major order, aligned types keep the element order with size/alignment ≥ the packed ones (float:
vec2 8/8, vec3/vec4 16/16; a matrix is `C` consecutive aligned columns), quaternion order is `x,y,z,w`
unless `GLM_FORCE_QUAT_DATA_WXYZ` makes it `w,x,y,z`, `value_ptr` points at the first element, `length()`
is the component count and `length_type` is `int` unless `GLM_FORCE_SIZE_T_LENGTH`.
The table is the compiler's statement about this ABI; the theorem is that every row meets the contract.
`value_ptr` / `make_vec*` / `make_mat*` / `make_quat` round trips are traced symbolically (`all_ok`).
-/
namespace Glm.Props.C16
open Glm Glm.Spec.C16 Glm.Gen.C16 Glm.Layout

/-- every measured row meets the documented contract, and the probe compiled under every configuration
    (per-configuration tables `rows_k_ok` are kernel-checked in `Props/C16/R_k.lean`) -/
theorem rows_ok : rows.all Row.ok = true ∧ probeFailures = 0 := by
  refine ⟨?_, by decide⟩
  simp only [rows, List.all_append, Bool.and_eq_true]
  exact ⟨⟨⟨⟨⟨⟨⟨⟨⟨⟨⟨⟨⟨⟨rows_0_ok, rows_1_ok⟩, rows_2_ok⟩, rows_3_ok⟩, rows_4_ok⟩, rows_5_ok⟩, rows_6_ok⟩, rows_7_ok⟩, rows_8_ok⟩, rows_9_ok⟩, rows_10_ok⟩, rows_11_ok⟩, rows_12_ok⟩, rows_13_ok⟩, rows_14_ok⟩

/-- the table is not empty and contains aligned rows, WXYZ rows and size_t rows -/
theorem rows_nonvacuous : rows.length > 4000 ∧ (rows.any fun r => r.aligned && r.kind == 1) = true ∧
    (rows.any fun r => r.kind == 2 && r.aux == 1) = true ∧ (rows.any fun r => r.lenType == 8) = true := by
  decide +kernel

/-- round trips through raw arrays and the documented memory order, in every semantics -/
theorem roundtrips_correct {α : Type} (o : Ops α) (f : Family) (hf : f ∈ families) (htm : f.treeMode = false)
    (hk : f.kind = .syn) (ks : List Nat) (hks : ks ∈ f.keys) (j : Nat) (hj : j < f.nOut ks) (env : Nat → α) :
    (f.post ks (lookup f.unit ks).outE j).eval o env = (f.spec ks j).eval o env :=
  Family.syn_sound o (all_ok f hf) htm hk hks hj env

end Glm.Props.C16
