import GlmVerif.Spec.C10
import GlmVerif.Gen.C10.idet
/-! table check of family `idet` against the model of its units generated from /repo (kernel evaluation) -/
namespace Glm.Props.C10
open Glm Glm.Spec.C10 Glm.Gen.C10
set_option maxHeartbeats 4000000 in
theorem idet_ok : f_idet.ok (fun _ ks => idet_L ks) = true := by decide +kernel
end Glm.Props.C10
