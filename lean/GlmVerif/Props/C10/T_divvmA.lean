import GlmVerif.Spec.C10
import GlmVerif.Gen.C10.divvmA
/-! table check of family `divvmA` against the model of its units generated from /repo (kernel evaluation) -/
namespace Glm.Props.C10
open Glm Glm.Spec.C10 Glm.Gen.C10
set_option maxHeartbeats 4000000 in
theorem divvmA_ok : f_divvmA.ok (fun _ ks => divvmA_L ks) = true := by decide +kernel
end Glm.Props.C10
