import GlmVerif.Gen.C10
import GlmVerif.Props.C10.T_det
import GlmVerif.Props.C10.T_inv_left
import GlmVerif.Props.C10.T_inv_right
import GlmVerif.Props.C10.T_invtr
import GlmVerif.Props.C10.T_divmm
import GlmVerif.Props.C10.T_asgdiv_m
import GlmVerif.Props.C10.T_divmv
import GlmVerif.Props.C10.T_divvm
import GlmVerif.Props.C10.T_adjugate
import GlmVerif.Props.C10.T_affinv
/-! every family table of C10 holds for the model generated from the current /repo -/
namespace Glm.Props.C10
open Glm Glm.Spec.C10 Glm.Gen.C10
theorem all_ok : ∀ f ∈ families, f.ok lookup = true := by
  simp only [families, List.mem_cons, List.not_mem_nil, or_false, forall_eq_or_imp, forall_eq]
  exact ⟨(Family.ok_congr f_det (fun ks => by rw [show f_det.unit = "det" from rfl, lookup_det])).trans det_ok,
    (Family.ok_congr f_inv_left (fun ks => by rw [show f_inv_left.unit = "inv" from rfl, lookup_inv])).trans inv_left_ok,
    (Family.ok_congr f_inv_right (fun ks => by rw [show f_inv_right.unit = "inv" from rfl, lookup_inv])).trans inv_right_ok,
    (Family.ok_congr f_invtr (fun ks => by rw [show f_invtr.unit = "invtr" from rfl, lookup_invtr])).trans invtr_ok,
    (Family.ok_congr f_divmm (fun ks => by rw [show f_divmm.unit = "divmm" from rfl, lookup_divmm])).trans divmm_ok,
    (Family.ok_congr f_asgdiv_m (fun ks => by rw [show f_asgdiv_m.unit = "asgdiv_m" from rfl, lookup_asgdiv_m])).trans asgdiv_m_ok,
    (Family.ok_congr f_divmv (fun ks => by rw [show f_divmv.unit = "divmv" from rfl, lookup_divmv])).trans divmv_ok,
    (Family.ok_congr f_divvm (fun ks => by rw [show f_divvm.unit = "divvm" from rfl, lookup_divvm])).trans divvm_ok,
    (Family.ok_congr f_adjugate (fun ks => by rw [show f_adjugate.unit = "adjugate" from rfl, lookup_adjugate])).trans adjugate_ok,
    (Family.ok_congr f_affinv (fun ks => by rw [show f_affinv.unit = "affinv" from rfl, lookup_affinv])).trans affinv_ok⟩
end Glm.Props.C10
