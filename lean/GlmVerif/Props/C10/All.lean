import GlmVerif.Gen.C10
import GlmVerif.Props.C10.T_idet
import GlmVerif.Props.C10.T_det
import GlmVerif.Props.C10.T_inv_left
import GlmVerif.Props.C10.T_inv_right
import GlmVerif.Props.C10.T_invtr
import GlmVerif.Props.C10.T_divmm
import GlmVerif.Props.C10.T_asgdiv_m
import GlmVerif.Props.C10.T_divmv
import GlmVerif.Props.C10.T_divvm
import GlmVerif.Props.C10.T_adjugate
import GlmVerif.Props.C10.T_affinv
import GlmVerif.Props.C10.T_detA
import GlmVerif.Props.C10.T_inv_leftA
import GlmVerif.Props.C10.T_inv_rightA
import GlmVerif.Props.C10.T_invtrA
import GlmVerif.Props.C10.T_divmmA
import GlmVerif.Props.C10.T_asgdiv_mA
import GlmVerif.Props.C10.T_divmvA
import GlmVerif.Props.C10.T_divvmA
import GlmVerif.Props.C10.T_adjugateA
import GlmVerif.Props.C10.T_affinvA
/-! every family table of C10 holds for the model generated from the current /repo -/
namespace Glm.Props.C10
open Glm Glm.Spec.C10 Glm.Gen.C10
theorem all_ok : ∀ f ∈ families, f.ok lookup = true := by
  simp only [families, List.mem_cons, List.not_mem_nil, or_false, forall_eq_or_imp, forall_eq]
  exact ⟨(Family.ok_congr f_idet (fun ks => by rw [show f_idet.unit = "idet" from rfl, lookup_idet])).trans idet_ok,
    (Family.ok_congr f_det (fun ks => by rw [show f_det.unit = "det" from rfl, lookup_det])).trans det_ok,
    (Family.ok_congr f_inv_left (fun ks => by rw [show f_inv_left.unit = "inv" from rfl, lookup_inv])).trans inv_left_ok,
    (Family.ok_congr f_inv_right (fun ks => by rw [show f_inv_right.unit = "inv" from rfl, lookup_inv])).trans inv_right_ok,
    (Family.ok_congr f_invtr (fun ks => by rw [show f_invtr.unit = "invtr" from rfl, lookup_invtr])).trans invtr_ok,
    (Family.ok_congr f_divmm (fun ks => by rw [show f_divmm.unit = "divmm" from rfl, lookup_divmm])).trans divmm_ok,
    (Family.ok_congr f_asgdiv_m (fun ks => by rw [show f_asgdiv_m.unit = "asgdiv_m" from rfl, lookup_asgdiv_m])).trans asgdiv_m_ok,
    (Family.ok_congr f_divmv (fun ks => by rw [show f_divmv.unit = "divmv" from rfl, lookup_divmv])).trans divmv_ok,
    (Family.ok_congr f_divvm (fun ks => by rw [show f_divvm.unit = "divvm" from rfl, lookup_divvm])).trans divvm_ok,
    (Family.ok_congr f_adjugate (fun ks => by rw [show f_adjugate.unit = "adjugate" from rfl, lookup_adjugate])).trans adjugate_ok,
    (Family.ok_congr f_affinv (fun ks => by rw [show f_affinv.unit = "affinv" from rfl, lookup_affinv])).trans affinv_ok,
    (Family.ok_congr f_detA (fun ks => by rw [show f_detA.unit = "detA" from rfl, lookup_detA])).trans detA_ok,
    (Family.ok_congr f_inv_leftA (fun ks => by rw [show f_inv_leftA.unit = "invA" from rfl, lookup_invA])).trans inv_leftA_ok,
    (Family.ok_congr f_inv_rightA (fun ks => by rw [show f_inv_rightA.unit = "invA" from rfl, lookup_invA])).trans inv_rightA_ok,
    (Family.ok_congr f_invtrA (fun ks => by rw [show f_invtrA.unit = "invtrA" from rfl, lookup_invtrA])).trans invtrA_ok,
    (Family.ok_congr f_divmmA (fun ks => by rw [show f_divmmA.unit = "divmmA" from rfl, lookup_divmmA])).trans divmmA_ok,
    (Family.ok_congr f_asgdiv_mA (fun ks => by rw [show f_asgdiv_mA.unit = "asgdiv_mA" from rfl, lookup_asgdiv_mA])).trans asgdiv_mA_ok,
    (Family.ok_congr f_divmvA (fun ks => by rw [show f_divmvA.unit = "divmvA" from rfl, lookup_divmvA])).trans divmvA_ok,
    (Family.ok_congr f_divvmA (fun ks => by rw [show f_divvmA.unit = "divvmA" from rfl, lookup_divvmA])).trans divvmA_ok,
    (Family.ok_congr f_adjugateA (fun ks => by rw [show f_adjugateA.unit = "adjugateA" from rfl, lookup_adjugateA])).trans adjugateA_ok,
    (Family.ok_congr f_affinvA (fun ks => by rw [show f_affinvA.unit = "affinvA" from rfl, lookup_affinvA])).trans affinvA_ok⟩
end Glm.Props.C10
