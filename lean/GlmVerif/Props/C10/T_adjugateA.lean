import GlmVerif.Spec.C10
import GlmVerif.Gen.C10.adjugateA
/-! table check of family `adjugateA` against the model of its units generated from /repo (kernel evaluation) -/
namespace Glm.Props.C10
open Glm Glm.Spec.C10 Glm.Gen.C10
set_option maxHeartbeats 4000000 in
theorem adjugateA_ok : f_adjugateA.ok (fun _ ks => adjugateA_L ks) = true := by decide +kernel
end Glm.Props.C10
