import GlmVerif.Spec.C10
import GlmVerif.Gen.C10.affinv
/-! table check of family `affinv` against the model of its units generated from /repo (kernel evaluation) -/
namespace Glm.Props.C10
open Glm Glm.Spec.C10 Glm.Gen.C10
set_option maxHeartbeats 4000000 in
theorem affinv_ok : f_affinv.ok (fun _ ks => affinv_L ks) = true := by decide +kernel
end Glm.Props.C10
