import GlmVerif.Spec.C10
import GlmVerif.Gen.C10.adjugate
/-! table check of family `adjugate` against the model of its units generated from /repo (kernel evaluation) -/
namespace Glm.Props.C10
open Glm Glm.Spec.C10 Glm.Gen.C10
set_option maxHeartbeats 4000000 in
theorem adjugate_ok : f_adjugate.ok (fun _ ks => adjugate_L ks) = true := by decide +kernel
end Glm.Props.C10
