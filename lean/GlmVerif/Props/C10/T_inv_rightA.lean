import GlmVerif.Spec.C10
import GlmVerif.Gen.C10.invA
/-! table check of family `inv_rightA` against the model of its units generated from /repo (kernel evaluation) -/
namespace Glm.Props.C10
open Glm Glm.Spec.C10 Glm.Gen.C10
set_option maxHeartbeats 4000000 in
theorem inv_rightA_ok : f_inv_rightA.ok (fun _ ks => invA_L ks) = true := by decide +kernel
end Glm.Props.C10
