import GlmVerif.Spec.C10
import GlmVerif.Gen.C10.divvm
/-! table check of family `divvm` against the model of its units generated from /repo (kernel evaluation) -/
namespace Glm.Props.C10
open Glm Glm.Spec.C10 Glm.Gen.C10
set_option maxHeartbeats 4000000 in
theorem divvm_ok : f_divvm.ok (fun _ ks => divvm_L ks) = true := by decide +kernel
end Glm.Props.C10
