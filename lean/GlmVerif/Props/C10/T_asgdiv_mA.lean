import GlmVerif.Spec.C10
import GlmVerif.Gen.C10.asgdiv_mA
/-! table check of family `asgdiv_mA` against the model of its units generated from /repo (kernel evaluation) -/
namespace Glm.Props.C10
open Glm Glm.Spec.C10 Glm.Gen.C10
set_option maxHeartbeats 4000000 in
theorem asgdiv_mA_ok : f_asgdiv_mA.ok (fun _ ks => asgdiv_mA_L ks) = true := by decide +kernel
end Glm.Props.C10
