import GlmVerif.Spec.C10
import GlmVerif.Gen.C10.divmvA
/-! table check of family `divmvA` against the model of its units generated from /repo (kernel evaluation) -/
namespace Glm.Props.C10
open Glm Glm.Spec.C10 Glm.Gen.C10
set_option maxHeartbeats 4000000 in
theorem divmvA_ok : f_divmvA.ok (fun _ ks => divmvA_L ks) = true := by decide +kernel
end Glm.Props.C10
