import GlmVerif.Spec.C10
import GlmVerif.Gen.C10.divmv
/-! table check of family `divmv` against the model of its units generated from /repo (kernel evaluation) -/
namespace Glm.Props.C10
open Glm Glm.Spec.C10 Glm.Gen.C10
set_option maxHeartbeats 4000000 in
theorem divmv_ok : f_divmv.ok (fun _ ks => divmv_L ks) = true := by decide +kernel
end Glm.Props.C10
