import GlmVerif.Spec.C10
import GlmVerif.Gen.C10.asgdiv_m
/-! table check of family `asgdiv_m` against the model of its units generated from /repo (kernel evaluation) -/
namespace Glm.Props.C10
open Glm Glm.Spec.C10 Glm.Gen.C10
set_option maxHeartbeats 4000000 in
theorem asgdiv_m_ok : f_asgdiv_m.ok (fun _ ks => asgdiv_m_L ks) = true := by decide +kernel
end Glm.Props.C10
