import GlmVerif.Spec.C10
import GlmVerif.Gen.C10
/-! table check of family `det` against the model generated from /repo (kernel evaluation) -/
namespace Glm.Props.C10
open Glm Glm.Spec.C10 Glm.Gen.C10
theorem det_ok : f_det.ok lookup = true := by decide +kernel
end Glm.Props.C10
