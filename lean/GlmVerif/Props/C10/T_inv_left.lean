import GlmVerif.Spec.C10
import GlmVerif.Gen.C10
/-! table check of family `inv_left` against the model generated from /repo (kernel evaluation) -/
namespace Glm.Props.C10
open Glm Glm.Spec.C10 Glm.Gen.C10
theorem inv_left_ok : f_inv_left.ok lookup = true := by decide +kernel
end Glm.Props.C10
