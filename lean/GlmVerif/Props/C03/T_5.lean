import GlmVerif.Props.C03.Chunk
/-! slice 5 of the C03 operation table: generic code = SIMD code at every ISA level, one kernel evaluation -/
namespace Glm.Props.C03
set_option maxHeartbeats 4000000 in
set_option maxRecDepth 100000 in
theorem chunk_5_ok : chunkOK 5 = true := by decide +kernel
end Glm.Props.C03
