import GlmVerif.Spec.C03Ops
import GlmVerif.Gen.C03
import GlmVerif.Gen.C03map
/-! the operation table cut into 16 slices, one kernel-checked module each (lake checks them in parallel) -/
namespace Glm.Props.C03
open Glm Glm.Spec.C03

def chunkSize : Nat := 28
def chunk (k : Nat) : List (String × Mode) := (ops.drop (k * chunkSize)).take chunkSize

/-- the table check of one slice over the model generated from /repo -/
def chunkOK (k : Nat) : Bool :=
  (chunk k).all fun e => opOK Gen.C03.table Gen.C03map.variantOf skipped e.1 e.2

set_option maxRecDepth 100000 in
theorem ops_covered : ops.length ≤ 16 * chunkSize := by decide +kernel
end Glm.Props.C03
