import GlmVerif.Props.C06.Enum
/-!
# C06 (a) — `packSnorm…16` field (N = 32767, c = 0x38000100): kernel enumeration of codes 49152..65535 (generated layout, hand-written statement)

Each theorem evaluates, in the kernel, the model's own `pack ∘ unpack` chain at the soft-float
instance `SF` on 4096 consecutive codes.
-/
namespace Glm.Props.C06
open Glm.Hand.C06

set_option maxRecDepth 100000 in
theorem rtS16_chunk12 : allPow rtS16p 12 49152 = true := by decide +kernel
set_option maxRecDepth 100000 in
theorem rtS16_chunk13 : allPow rtS16p 12 53248 = true := by decide +kernel
set_option maxRecDepth 100000 in
theorem rtS16_chunk14 : allPow rtS16p 12 57344 = true := by decide +kernel
set_option maxRecDepth 100000 in
theorem rtS16_chunk15 : allPow rtS16p 12 61440 = true := by decide +kernel

end Glm.Props.C06
