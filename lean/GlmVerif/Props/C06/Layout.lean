import Std.Tactic.BVDecide
import GlmVerif.Hand.C06
/-!
# C06 (d), (e) — layouts and the integer packs

(d) For every multi-component format the word is `asm… c0 c1 …` of the per-component codes (by
definition of the model, mirroring the source), and field `k` of `asm…` is exactly code `k`
truncated to its width, at its documented offset, independent of the other components; the first
component occupies the least-significant bits.  The per-component quantiser is uninterpreted here.
(e) the integer `memcpy`/bit-field packs are bijections: `unpack ∘ pack = id` on lanes (for the
bit-field formats: on the lanes' low bits, sign-extended for `I3x10_1x2`) and `pack ∘ unpack = id`
on every word.  All by `bv_decide` (whitelisted in `checks/c06.py`).
-/
namespace Glm.Props.C06
open Glm.Hand.C06

/-! ### lanes of memcpy/union layouts -/
theorem asm2x16_lane0 (a b : UInt16) : lane2x16_0 (asm2x16 a b) = a := by
  unfold lane2x16_0 asm2x16; bv_decide (config := { timeout := 180 })
theorem asm2x16_lane1 (a b : UInt16) : lane2x16_1 (asm2x16 a b) = b := by
  unfold lane2x16_1 asm2x16; bv_decide (config := { timeout := 180 })
theorem asm2x16_lanes (p : UInt32) : asm2x16 (lane2x16_0 p) (lane2x16_1 p) = p := by
  unfold lane2x16_0 lane2x16_1 asm2x16; bv_decide (config := { timeout := 180 })
/-- component 0 sits in the least-significant 16 bits -/
theorem asm2x16_low (a b : UInt16) : asm2x16 a b &&& 0xffff = a.toUInt32 := by
  unfold asm2x16; bv_decide (config := { timeout := 180 })

theorem asm4x8_lane0 (a b c d : UInt8) : lane4x8_0 (asm4x8 a b c d) = a := by
  unfold lane4x8_0 asm4x8; bv_decide (config := { timeout := 180 })
theorem asm4x8_lane1 (a b c d : UInt8) : lane4x8_1 (asm4x8 a b c d) = b := by
  unfold lane4x8_1 asm4x8; bv_decide (config := { timeout := 180 })
theorem asm4x8_lane2 (a b c d : UInt8) : lane4x8_2 (asm4x8 a b c d) = c := by
  unfold lane4x8_2 asm4x8; bv_decide (config := { timeout := 180 })
theorem asm4x8_lane3 (a b c d : UInt8) : lane4x8_3 (asm4x8 a b c d) = d := by
  unfold lane4x8_3 asm4x8; bv_decide (config := { timeout := 180 })
theorem asm4x8_lanes (p : UInt32) :
    asm4x8 (lane4x8_0 p) (lane4x8_1 p) (lane4x8_2 p) (lane4x8_3 p) = p := by
  unfold lane4x8_0 lane4x8_1 lane4x8_2 lane4x8_3 asm4x8; bv_decide (config := { timeout := 180 })
theorem asm4x8_low (a b c d : UInt8) : asm4x8 a b c d &&& 0xff = a.toUInt32 := by
  unfold asm4x8; bv_decide (config := { timeout := 180 })

theorem asm2x8_lane0 (a b : UInt8) : lane2x8_0 (asm2x8 a b) = a := by
  unfold lane2x8_0 asm2x8; bv_decide (config := { timeout := 180 })
theorem asm2x8_lane1 (a b : UInt8) : lane2x8_1 (asm2x8 a b) = b := by
  unfold lane2x8_1 asm2x8; bv_decide (config := { timeout := 180 })
theorem asm2x8_lanes (p : UInt16) : asm2x8 (lane2x8_0 p) (lane2x8_1 p) = p := by
  unfold lane2x8_0 lane2x8_1 asm2x8; bv_decide (config := { timeout := 180 })

theorem asm4x16_lane0 (a b c d : UInt16) : lane4x16_0 (asm4x16 a b c d) = a := by
  unfold lane4x16_0 asm4x16; bv_decide (config := { timeout := 180 })
theorem asm4x16_lane1 (a b c d : UInt16) : lane4x16_1 (asm4x16 a b c d) = b := by
  unfold lane4x16_1 asm4x16; bv_decide (config := { timeout := 180 })
theorem asm4x16_lane2 (a b c d : UInt16) : lane4x16_2 (asm4x16 a b c d) = c := by
  unfold lane4x16_2 asm4x16; bv_decide (config := { timeout := 180 })
theorem asm4x16_lane3 (a b c d : UInt16) : lane4x16_3 (asm4x16 a b c d) = d := by
  unfold lane4x16_3 asm4x16; bv_decide (config := { timeout := 180 })
theorem asm4x16_lanes (p : UInt64) :
    asm4x16 (lane4x16_0 p) (lane4x16_1 p) (lane4x16_2 p) (lane4x16_3 p) = p := by
  unfold lane4x16_0 lane4x16_1 lane4x16_2 lane4x16_3 asm4x16; bv_decide (config := { timeout := 180 })

theorem asm2x32_lane0 (a b : UInt32) : lane2x32_0 (asm2x32 a b) = a := by
  unfold lane2x32_0 asm2x32; bv_decide (config := { timeout := 180 })
theorem asm2x32_lane1 (a b : UInt32) : lane2x32_1 (asm2x32 a b) = b := by
  unfold lane2x32_1 asm2x32; bv_decide (config := { timeout := 180 })
theorem asm2x32_lanes (p : UInt64) : asm2x32 (lane2x32_0 p) (lane2x32_1 p) = p := by
  unfold lane2x32_0 lane2x32_1 asm2x32; bv_decide (config := { timeout := 180 })

/-! ### bit-field unions: field k of the word = member k truncated to its width -/
theorem u4u4_x (x y : UInt32) : fld_u4u4_x (asm_u4u4 x y) = x &&& 0xf := by
  unfold fld_u4u4_x asm_u4u4; bv_decide (config := { timeout := 180 })
theorem u4u4_y (x y : UInt32) : fld_u4u4_y (asm_u4u4 x y) = y &&& 0xf := by
  unfold fld_u4u4_y asm_u4u4; bv_decide (config := { timeout := 180 })
theorem u4u4_word (p : UInt8) : asm_u4u4 (fld_u4u4_x p) (fld_u4u4_y p) = p := by
  unfold fld_u4u4_x fld_u4u4_y asm_u4u4; bv_decide (config := { timeout := 180 })
theorem u4u4_bounds (p : UInt8) : fld_u4u4_x p < 16 ∧ fld_u4u4_y p < 16 := by
  unfold fld_u4u4_x fld_u4u4_y; bv_decide (config := { timeout := 180 })

theorem u4x4_x (x y z w : UInt32) : fld_u4x4_x (asm_u4u4u4u4 x y z w) = x &&& 0xf := by
  unfold fld_u4x4_x asm_u4u4u4u4; bv_decide (config := { timeout := 180 })
theorem u4x4_y (x y z w : UInt32) : fld_u4x4_y (asm_u4u4u4u4 x y z w) = y &&& 0xf := by
  unfold fld_u4x4_y asm_u4u4u4u4; bv_decide (config := { timeout := 180 })
theorem u4x4_z (x y z w : UInt32) : fld_u4x4_z (asm_u4u4u4u4 x y z w) = z &&& 0xf := by
  unfold fld_u4x4_z asm_u4u4u4u4; bv_decide (config := { timeout := 180 })
theorem u4x4_w (x y z w : UInt32) : fld_u4x4_w (asm_u4u4u4u4 x y z w) = w &&& 0xf := by
  unfold fld_u4x4_w asm_u4u4u4u4; bv_decide (config := { timeout := 180 })
theorem u4x4_word (p : UInt16) :
    asm_u4u4u4u4 (fld_u4x4_x p) (fld_u4x4_y p) (fld_u4x4_z p) (fld_u4x4_w p) = p := by
  unfold fld_u4x4_x fld_u4x4_y fld_u4x4_z fld_u4x4_w asm_u4u4u4u4; bv_decide (config := { timeout := 180 })
theorem u4x4_bounds (p : UInt16) :
    fld_u4x4_x p < 16 ∧ fld_u4x4_y p < 16 ∧ fld_u4x4_z p < 16 ∧ fld_u4x4_w p < 16 := by
  unfold fld_u4x4_x fld_u4x4_y fld_u4x4_z fld_u4x4_w; bv_decide (config := { timeout := 180 })

theorem u565_x (x y z : UInt32) : fld_u565_x (asm_u5u6u5 x y z) = x &&& 0x1f := by
  unfold fld_u565_x asm_u5u6u5; bv_decide (config := { timeout := 180 })
theorem u565_y (x y z : UInt32) : fld_u565_y (asm_u5u6u5 x y z) = y &&& 0x3f := by
  unfold fld_u565_y asm_u5u6u5; bv_decide (config := { timeout := 180 })
theorem u565_z (x y z : UInt32) : fld_u565_z (asm_u5u6u5 x y z) = z &&& 0x1f := by
  unfold fld_u565_z asm_u5u6u5; bv_decide (config := { timeout := 180 })
theorem u565_word (p : UInt16) : asm_u5u6u5 (fld_u565_x p) (fld_u565_y p) (fld_u565_z p) = p := by
  unfold fld_u565_x fld_u565_y fld_u565_z asm_u5u6u5; bv_decide (config := { timeout := 180 })
theorem u565_bounds (p : UInt16) : fld_u565_x p < 32 ∧ fld_u565_y p < 64 ∧ fld_u565_z p < 32 := by
  unfold fld_u565_x fld_u565_y fld_u565_z; bv_decide (config := { timeout := 180 })

theorem u5551_x (x y z w : UInt32) : fld_u5551_x (asm_u5u5u5u1 x y z w) = x &&& 0x1f := by
  unfold fld_u5551_x asm_u5u5u5u1; bv_decide (config := { timeout := 180 })
theorem u5551_y (x y z w : UInt32) : fld_u5551_y (asm_u5u5u5u1 x y z w) = y &&& 0x1f := by
  unfold fld_u5551_y asm_u5u5u5u1; bv_decide (config := { timeout := 180 })
theorem u5551_z (x y z w : UInt32) : fld_u5551_z (asm_u5u5u5u1 x y z w) = z &&& 0x1f := by
  unfold fld_u5551_z asm_u5u5u5u1; bv_decide (config := { timeout := 180 })
theorem u5551_w (x y z w : UInt32) : fld_u5551_w (asm_u5u5u5u1 x y z w) = w &&& 0x1 := by
  unfold fld_u5551_w asm_u5u5u5u1; bv_decide (config := { timeout := 180 })
theorem u5551_word (p : UInt16) :
    asm_u5u5u5u1 (fld_u5551_x p) (fld_u5551_y p) (fld_u5551_z p) (fld_u5551_w p) = p := by
  unfold fld_u5551_x fld_u5551_y fld_u5551_z fld_u5551_w asm_u5u5u5u1; bv_decide (config := { timeout := 180 })
theorem u5551_bounds (p : UInt16) :
    fld_u5551_x p < 32 ∧ fld_u5551_y p < 32 ∧ fld_u5551_z p < 32 ∧ fld_u5551_w p < 2 := by
  unfold fld_u5551_x fld_u5551_y fld_u5551_z fld_u5551_w; bv_decide (config := { timeout := 180 })

theorem u332_x (x y z : UInt32) : fld_u332_x (asm_u3u3u2 x y z) = x &&& 0x7 := by
  unfold fld_u332_x asm_u3u3u2; bv_decide (config := { timeout := 180 })
theorem u332_y (x y z : UInt32) : fld_u332_y (asm_u3u3u2 x y z) = y &&& 0x7 := by
  unfold fld_u332_y asm_u3u3u2; bv_decide (config := { timeout := 180 })
theorem u332_z (x y z : UInt32) : fld_u332_z (asm_u3u3u2 x y z) = z &&& 0x3 := by
  unfold fld_u332_z asm_u3u3u2; bv_decide (config := { timeout := 180 })
theorem u332_word (p : UInt8) : asm_u3u3u2 (fld_u332_x p) (fld_u332_y p) (fld_u332_z p) = p := by
  unfold fld_u332_x fld_u332_y fld_u332_z asm_u3u3u2; bv_decide (config := { timeout := 180 })
theorem u332_bounds (p : UInt8) : fld_u332_x p < 8 ∧ fld_u332_y p < 8 ∧ fld_u332_z p < 4 := by
  unfold fld_u332_x fld_u332_y fld_u332_z; bv_decide (config := { timeout := 180 })

theorem u1010102_x (x y z w : UInt32) : fld_u1010102_x (asm_u10u10u10u2 x y z w) = x &&& 0x3ff := by
  unfold fld_u1010102_x asm_u10u10u10u2; bv_decide (config := { timeout := 180 })
theorem u1010102_y (x y z w : UInt32) : fld_u1010102_y (asm_u10u10u10u2 x y z w) = y &&& 0x3ff := by
  unfold fld_u1010102_y asm_u10u10u10u2; bv_decide (config := { timeout := 180 })
theorem u1010102_z (x y z w : UInt32) : fld_u1010102_z (asm_u10u10u10u2 x y z w) = z &&& 0x3ff := by
  unfold fld_u1010102_z asm_u10u10u10u2; bv_decide (config := { timeout := 180 })
theorem u1010102_w (x y z w : UInt32) : fld_u1010102_w (asm_u10u10u10u2 x y z w) = w &&& 0x3 := by
  unfold fld_u1010102_w asm_u10u10u10u2; bv_decide (config := { timeout := 180 })
theorem u1010102_word (p : UInt32) :
    asm_u10u10u10u2 (fld_u1010102_x p) (fld_u1010102_y p) (fld_u1010102_z p) (fld_u1010102_w p) = p := by
  unfold fld_u1010102_x fld_u1010102_y fld_u1010102_z fld_u1010102_w asm_u10u10u10u2; bv_decide (config := { timeout := 180 })
theorem u1010102_bounds (p : UInt32) : fld_u1010102_x p < 1024 ∧ fld_u1010102_y p < 1024 ∧
    fld_u1010102_z p < 1024 ∧ fld_u1010102_w p < 4 := by
  unfold fld_u1010102_x fld_u1010102_y fld_u1010102_z fld_u1010102_w; bv_decide (config := { timeout := 180 })

/-- signed bit-fields: reading field k gives member k's low 10 (2) bits sign-extended -/
theorem i1010102_x (x y z w : Int32) :
    fld_i1010102_x (asm_i10i10i10i2 x y z w) = (x <<< 22) >>> 22 := by
  unfold fld_i1010102_x asm_i10i10i10i2 asm_u10u10u10u2; bv_decide (config := { timeout := 180 })
theorem i1010102_y (x y z w : Int32) :
    fld_i1010102_y (asm_i10i10i10i2 x y z w) = (y <<< 22) >>> 22 := by
  unfold fld_i1010102_y asm_i10i10i10i2 asm_u10u10u10u2; bv_decide (config := { timeout := 180 })
theorem i1010102_z (x y z w : Int32) :
    fld_i1010102_z (asm_i10i10i10i2 x y z w) = (z <<< 22) >>> 22 := by
  unfold fld_i1010102_z asm_i10i10i10i2 asm_u10u10u10u2; bv_decide (config := { timeout := 180 })
theorem i1010102_w (x y z w : Int32) :
    fld_i1010102_w (asm_i10i10i10i2 x y z w) = (w <<< 30) >>> 30 := by
  unfold fld_i1010102_w asm_i10i10i10i2 asm_u10u10u10u2; bv_decide (config := { timeout := 180 })
/-- a member inside the field's range is read back unchanged -/
theorem i10_inrange (x : Int32) (h : -512 ≤ x ∧ x ≤ 511) : (x <<< 22) >>> 22 = x := by
  bv_decide (config := { timeout := 180 })
theorem i2_inrange (x : Int32) (h : -2 ≤ x ∧ x ≤ 1) : (x <<< 30) >>> 30 = x := by
  bv_decide (config := { timeout := 180 })
theorem i1010102_word (p : UInt32) :
    asm_i10i10i10i2 (fld_i1010102_x p) (fld_i1010102_y p) (fld_i1010102_z p) (fld_i1010102_w p) = p := by
  unfold fld_i1010102_x fld_i1010102_y fld_i1010102_z fld_i1010102_w asm_i10i10i10i2 asm_u10u10u10u2
  bv_decide (config := { timeout := 180 })
theorem i1010102_bounds (p : UInt32) :
    (-512 ≤ fld_i1010102_x p ∧ fld_i1010102_x p ≤ 511) ∧ (-512 ≤ fld_i1010102_y p ∧ fld_i1010102_y p ≤ 511) ∧
    (-512 ≤ fld_i1010102_z p ∧ fld_i1010102_z p ≤ 511) ∧ (-2 ≤ fld_i1010102_w p ∧ fld_i1010102_w p ≤ 1) := by
  unfold fld_i1010102_x fld_i1010102_y fld_i1010102_z fld_i1010102_w; bv_decide (config := { timeout := 180 })

theorem u9995_x (x y z w : UInt32) : fld_u9995_x (asm_u9u9u9e5 x y z w) = x &&& 0x1ff := by
  unfold fld_u9995_x asm_u9u9u9e5; bv_decide (config := { timeout := 180 })
theorem u9995_y (x y z w : UInt32) : fld_u9995_y (asm_u9u9u9e5 x y z w) = y &&& 0x1ff := by
  unfold fld_u9995_y asm_u9u9u9e5; bv_decide (config := { timeout := 180 })
theorem u9995_z (x y z w : UInt32) : fld_u9995_z (asm_u9u9u9e5 x y z w) = z &&& 0x1ff := by
  unfold fld_u9995_z asm_u9u9u9e5; bv_decide (config := { timeout := 180 })
theorem u9995_w (x y z w : UInt32) : fld_u9995_w (asm_u9u9u9e5 x y z w) = w &&& 0x1f := by
  unfold fld_u9995_w asm_u9u9u9e5; bv_decide (config := { timeout := 180 })
theorem u9995_word (p : UInt32) :
    asm_u9u9u9e5 (fld_u9995_x p) (fld_u9995_y p) (fld_u9995_z p) (fld_u9995_w p) = p := by
  unfold fld_u9995_x fld_u9995_y fld_u9995_z fld_u9995_w asm_u9u9u9e5; bv_decide (config := { timeout := 180 })

/-- the three small-float fields of `packF2x11_1x10` -/
theorem f11f11f10_x (a b c : UInt32) : (asmF11F11F10 a b c >>> 0) &&& 0x7ff = a &&& 0x7ff := by
  unfold asmF11F11F10; bv_decide (config := { timeout := 180 })
theorem f11f11f10_y (a b c : UInt32) : (asmF11F11F10 a b c >>> 11) &&& 0x7ff = b &&& 0x7ff := by
  unfold asmF11F11F10; bv_decide (config := { timeout := 180 })
theorem f11f11f10_z (a b c : UInt32) : (asmF11F11F10 a b c >>> 22) &&& 0x3ff = c &&& 0x3ff := by
  unfold asmF11F11F10; bv_decide (config := { timeout := 180 })
theorem f11f11f10_word (p : UInt32) :
    asmF11F11F10 ((p >>> 0) &&& 0x7ff) ((p >>> 11) &&& 0x7ff) ((p >>> 22) &&& 0x3ff) = p := by
  unfold asmF11F11F10; bv_decide (config := { timeout := 180 })

/-! ### (e) integer packs: bijections with lane 0 in the least-significant bits -/
theorem packInt2x8_unpack (p : Int16) : packInt2x8 (unpackInt2x8_x p) (unpackInt2x8_y p) = p := by
  unfold packInt2x8 unpackInt2x8_x unpackInt2x8_y asm2x8 lane2x8_0 lane2x8_1; bv_decide (config := { timeout := 180 })
theorem unpackInt2x8_pack (x y : Int8) :
    unpackInt2x8_x (packInt2x8 x y) = x ∧ unpackInt2x8_y (packInt2x8 x y) = y := by
  unfold packInt2x8 unpackInt2x8_x unpackInt2x8_y asm2x8 lane2x8_0 lane2x8_1; bv_decide (config := { timeout := 180 })
theorem packUint2x8_unpack (p : UInt16) : packUint2x8 (unpackUint2x8_x p) (unpackUint2x8_y p) = p := by
  unfold packUint2x8 unpackUint2x8_x unpackUint2x8_y asm2x8 lane2x8_0 lane2x8_1; bv_decide (config := { timeout := 180 })
theorem unpackUint2x8_pack (x y : UInt8) :
    unpackUint2x8_x (packUint2x8 x y) = x ∧ unpackUint2x8_y (packUint2x8 x y) = y := by
  unfold packUint2x8 unpackUint2x8_x unpackUint2x8_y asm2x8 lane2x8_0 lane2x8_1; bv_decide (config := { timeout := 180 })
theorem packInt4x8_unpack (p : Int32) :
    packInt4x8 (unpackInt4x8_x p) (unpackInt4x8_y p) (unpackInt4x8_z p) (unpackInt4x8_w p) = p := by
  unfold packInt4x8 unpackInt4x8_x unpackInt4x8_y unpackInt4x8_z unpackInt4x8_w asm4x8
    lane4x8_0 lane4x8_1 lane4x8_2 lane4x8_3; bv_decide (config := { timeout := 180 })
theorem unpackInt4x8_pack (x y z w : Int8) :
    unpackInt4x8_x (packInt4x8 x y z w) = x ∧ unpackInt4x8_y (packInt4x8 x y z w) = y ∧
    unpackInt4x8_z (packInt4x8 x y z w) = z ∧ unpackInt4x8_w (packInt4x8 x y z w) = w := by
  unfold packInt4x8 unpackInt4x8_x unpackInt4x8_y unpackInt4x8_z unpackInt4x8_w asm4x8
    lane4x8_0 lane4x8_1 lane4x8_2 lane4x8_3; bv_decide (config := { timeout := 180 })
theorem packUint4x8_unpack (p : UInt32) :
    packUint4x8 (unpackUint4x8_x p) (unpackUint4x8_y p) (unpackUint4x8_z p) (unpackUint4x8_w p) = p := by
  unfold packUint4x8 unpackUint4x8_x unpackUint4x8_y unpackUint4x8_z unpackUint4x8_w asm4x8
    lane4x8_0 lane4x8_1 lane4x8_2 lane4x8_3; bv_decide (config := { timeout := 180 })
theorem unpackUint4x8_pack (x y z w : UInt8) :
    unpackUint4x8_x (packUint4x8 x y z w) = x ∧ unpackUint4x8_y (packUint4x8 x y z w) = y ∧
    unpackUint4x8_z (packUint4x8 x y z w) = z ∧ unpackUint4x8_w (packUint4x8 x y z w) = w := by
  unfold packUint4x8 unpackUint4x8_x unpackUint4x8_y unpackUint4x8_z unpackUint4x8_w asm4x8
    lane4x8_0 lane4x8_1 lane4x8_2 lane4x8_3; bv_decide (config := { timeout := 180 })
theorem packInt2x16_unpack (p : Int32) : packInt2x16 (unpackInt2x16_x p) (unpackInt2x16_y p) = p := by
  unfold packInt2x16 unpackInt2x16_x unpackInt2x16_y asm2x16 lane2x16_0 lane2x16_1; bv_decide (config := { timeout := 180 })
theorem unpackInt2x16_pack (x y : Int16) :
    unpackInt2x16_x (packInt2x16 x y) = x ∧ unpackInt2x16_y (packInt2x16 x y) = y := by
  unfold packInt2x16 unpackInt2x16_x unpackInt2x16_y asm2x16 lane2x16_0 lane2x16_1; bv_decide (config := { timeout := 180 })
theorem packUint2x16_unpack (p : UInt32) : packUint2x16 (unpackUint2x16_x p) (unpackUint2x16_y p) = p := by
  unfold packUint2x16 unpackUint2x16_x unpackUint2x16_y asm2x16 lane2x16_0 lane2x16_1; bv_decide (config := { timeout := 180 })
theorem unpackUint2x16_pack (x y : UInt16) :
    unpackUint2x16_x (packUint2x16 x y) = x ∧ unpackUint2x16_y (packUint2x16 x y) = y := by
  unfold packUint2x16 unpackUint2x16_x unpackUint2x16_y asm2x16 lane2x16_0 lane2x16_1; bv_decide (config := { timeout := 180 })
theorem packInt4x16_unpack (p : Int64) :
    packInt4x16 (unpackInt4x16_x p) (unpackInt4x16_y p) (unpackInt4x16_z p) (unpackInt4x16_w p) = p := by
  unfold packInt4x16 unpackInt4x16_x unpackInt4x16_y unpackInt4x16_z unpackInt4x16_w asm4x16
    lane4x16_0 lane4x16_1 lane4x16_2 lane4x16_3; bv_decide (config := { timeout := 180 })
theorem unpackInt4x16_pack (x y z w : Int16) :
    unpackInt4x16_x (packInt4x16 x y z w) = x ∧ unpackInt4x16_y (packInt4x16 x y z w) = y ∧
    unpackInt4x16_z (packInt4x16 x y z w) = z ∧ unpackInt4x16_w (packInt4x16 x y z w) = w := by
  unfold packInt4x16 unpackInt4x16_x unpackInt4x16_y unpackInt4x16_z unpackInt4x16_w asm4x16
    lane4x16_0 lane4x16_1 lane4x16_2 lane4x16_3; bv_decide (config := { timeout := 180 })
theorem packUint4x16_unpack (p : UInt64) :
    packUint4x16 (unpackUint4x16_x p) (unpackUint4x16_y p) (unpackUint4x16_z p) (unpackUint4x16_w p) = p := by
  unfold packUint4x16 unpackUint4x16_x unpackUint4x16_y unpackUint4x16_z unpackUint4x16_w asm4x16
    lane4x16_0 lane4x16_1 lane4x16_2 lane4x16_3; bv_decide (config := { timeout := 180 })
theorem unpackUint4x16_pack (x y z w : UInt16) :
    unpackUint4x16_x (packUint4x16 x y z w) = x ∧ unpackUint4x16_y (packUint4x16 x y z w) = y ∧
    unpackUint4x16_z (packUint4x16 x y z w) = z ∧ unpackUint4x16_w (packUint4x16 x y z w) = w := by
  unfold packUint4x16 unpackUint4x16_x unpackUint4x16_y unpackUint4x16_z unpackUint4x16_w asm4x16
    lane4x16_0 lane4x16_1 lane4x16_2 lane4x16_3; bv_decide (config := { timeout := 180 })
theorem packInt2x32_unpack (p : Int64) : packInt2x32 (unpackInt2x32_x p) (unpackInt2x32_y p) = p := by
  unfold packInt2x32 unpackInt2x32_x unpackInt2x32_y asm2x32 lane2x32_0 lane2x32_1; bv_decide (config := { timeout := 180 })
theorem unpackInt2x32_pack (x y : Int32) :
    unpackInt2x32_x (packInt2x32 x y) = x ∧ unpackInt2x32_y (packInt2x32 x y) = y := by
  unfold packInt2x32 unpackInt2x32_x unpackInt2x32_y asm2x32 lane2x32_0 lane2x32_1; bv_decide (config := { timeout := 180 })
theorem packUint2x32_unpack (p : UInt64) : packUint2x32 (unpackUint2x32_x p) (unpackUint2x32_y p) = p := by
  unfold packUint2x32 unpackUint2x32_x unpackUint2x32_y asm2x32 lane2x32_0 lane2x32_1; bv_decide (config := { timeout := 180 })
theorem unpackUint2x32_pack (x y : UInt32) :
    unpackUint2x32_x (packUint2x32 x y) = x ∧ unpackUint2x32_y (packUint2x32 x y) = y := by
  unfold packUint2x32 unpackUint2x32_x unpackUint2x32_y asm2x32 lane2x32_0 lane2x32_1; bv_decide (config := { timeout := 180 })
theorem packDouble2x32_unpack (v : UInt64) :
    packDouble2x32 (unpackDouble2x32_x v) (unpackDouble2x32_y v) = v := by
  unfold packDouble2x32 unpackDouble2x32_x unpackDouble2x32_y asm2x32 lane2x32_0 lane2x32_1; bv_decide (config := { timeout := 180 })
theorem unpackDouble2x32_pack (x y : UInt32) :
    unpackDouble2x32_x (packDouble2x32 x y) = x ∧ unpackDouble2x32_y (packDouble2x32 x y) = y := by
  unfold packDouble2x32 unpackDouble2x32_x unpackDouble2x32_y asm2x32 lane2x32_0 lane2x32_1; bv_decide (config := { timeout := 180 })
/-- the first component is the least-significant half of the double's bit pattern -/
theorem packDouble2x32_low (x y : UInt32) : (packDouble2x32 x y).toUInt32 = x := by
  unfold packDouble2x32 asm2x32; bv_decide (config := { timeout := 180 })

theorem packU3x10_1x2_unpack (v : UInt32) :
    packU3x10_1x2 (unpackU3x10_1x2_x v) (unpackU3x10_1x2_y v) (unpackU3x10_1x2_z v) (unpackU3x10_1x2_w v) = v :=
  u1010102_word v
theorem unpackU3x10_1x2_pack (x y z w : UInt32) (h : x < 1024 ∧ y < 1024 ∧ z < 1024 ∧ w < 4) :
    unpackU3x10_1x2_x (packU3x10_1x2 x y z w) = x ∧ unpackU3x10_1x2_y (packU3x10_1x2 x y z w) = y ∧
    unpackU3x10_1x2_z (packU3x10_1x2 x y z w) = z ∧ unpackU3x10_1x2_w (packU3x10_1x2 x y z w) = w := by
  unfold unpackU3x10_1x2_x unpackU3x10_1x2_y unpackU3x10_1x2_z unpackU3x10_1x2_w packU3x10_1x2
    fld_u1010102_x fld_u1010102_y fld_u1010102_z fld_u1010102_w asm_u10u10u10u2
  bv_decide (config := { timeout := 180 })
theorem packI3x10_1x2_unpack (v : UInt32) :
    packI3x10_1x2 (unpackI3x10_1x2_x v) (unpackI3x10_1x2_y v) (unpackI3x10_1x2_z v) (unpackI3x10_1x2_w v) = v :=
  i1010102_word v
theorem unpackI3x10_1x2_pack (x y z w : Int32)
    (h : (-512 ≤ x ∧ x ≤ 511) ∧ (-512 ≤ y ∧ y ≤ 511) ∧ (-512 ≤ z ∧ z ≤ 511) ∧ (-2 ≤ w ∧ w ≤ 1)) :
    unpackI3x10_1x2_x (packI3x10_1x2 x y z w) = x ∧ unpackI3x10_1x2_y (packI3x10_1x2 x y z w) = y ∧
    unpackI3x10_1x2_z (packI3x10_1x2 x y z w) = z ∧ unpackI3x10_1x2_w (packI3x10_1x2 x y z w) = w := by
  unfold unpackI3x10_1x2_x unpackI3x10_1x2_y unpackI3x10_1x2_z unpackI3x10_1x2_w packI3x10_1x2
    fld_i1010102_x fld_i1010102_y fld_i1010102_z fld_i1010102_w asm_i10i10i10i2 asm_u10u10u10u2
  bv_decide (config := { timeout := 180 })

/-! ### half packs: component k at bits 16k..16k+15, for any per-component conversion -/
theorem packHalf2x16_layout (cvt : UInt32 → UInt16) (x y : UInt32) :
    lane2x16_0 (packHalf2x16 cvt x y) = cvt x ∧ lane2x16_1 (packHalf2x16 cvt x y) = cvt y :=
  ⟨asm2x16_lane0 _ _, asm2x16_lane1 _ _⟩
theorem packHalf4x16_layout (cvt : UInt32 → UInt16) (x y z w : UInt32) :
    lane4x16_0 (packHalf4x16 cvt x y z w) = cvt x ∧ lane4x16_1 (packHalf4x16 cvt x y z w) = cvt y ∧
    lane4x16_2 (packHalf4x16 cvt x y z w) = cvt z ∧ lane4x16_3 (packHalf4x16 cvt x y z w) = cvt w :=
  ⟨asm4x16_lane0 _ _ _ _, asm4x16_lane1 _ _ _ _, asm4x16_lane2 _ _ _ _, asm4x16_lane3 _ _ _ _⟩
/-- if the component conversions are mutually inverse on halves (C07: `toFloat16 ∘ toFloat32 = id`),
re-packing an unpacked word is the identity -/
theorem packHalf2x16_unpack (to16 : UInt32 → UInt16) (to32 : UInt16 → UInt32)
    (h : ∀ c, to16 (to32 c) = c) (v : UInt32) :
    packHalf2x16 to16 (unpackHalf2x16_x to32 v) (unpackHalf2x16_y to32 v) = v := by
  simp only [packHalf2x16, unpackHalf2x16_x, unpackHalf2x16_y, h]; exact asm2x16_lanes v
theorem packHalf4x16_unpack (to16 : UInt32 → UInt16) (to32 : UInt16 → UInt32)
    (h : ∀ c, to16 (to32 c) = c) (v : UInt64) :
    packHalf4x16 to16 (unpackHalf4x16_x to32 v) (unpackHalf4x16_y to32 v)
      (unpackHalf4x16_z to32 v) (unpackHalf4x16_w to32 v) = v := by
  simp only [packHalf4x16, unpackHalf4x16_x, unpackHalf4x16_y, unpackHalf4x16_z, unpackHalf4x16_w, h]
  exact asm4x16_lanes v

example : asm4x8 0x11 0x22 0x33 0x44 = 0x44332211 := by decide
example : asm_u5u6u5 1 2 3 = 0x1841 := by decide
example : fld_i1010102_x 0x3ff = -1 := by decide
end Glm.Props.C06
