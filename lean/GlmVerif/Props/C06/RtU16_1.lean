import GlmVerif.Props.C06.Enum
/-!
# C06 (a) — `packUnorm…16` field (N = 65535, c = 0x37800080): kernel enumeration of codes 16384..32767 (generated layout, hand-written statement)

Each theorem evaluates, in the kernel, the model's own `pack ∘ unpack` chain at the soft-float
instance `SF` on 4096 consecutive codes.
-/
namespace Glm.Props.C06
open Glm.Hand.C06

set_option maxRecDepth 100000 in
theorem rtU16_chunk04 : allPow rtU16p 12 16384 = true := by decide +kernel
set_option maxRecDepth 100000 in
theorem rtU16_chunk05 : allPow rtU16p 12 20480 = true := by decide +kernel
set_option maxRecDepth 100000 in
theorem rtU16_chunk06 : allPow rtU16p 12 24576 = true := by decide +kernel
set_option maxRecDepth 100000 in
theorem rtU16_chunk07 : allPow rtU16p 12 28672 = true := by decide +kernel

end Glm.Props.C06
