import GlmVerif.Props.C06.Enum
/-!
# C06 (a) — `packSnorm…16` field (N = 32767, c = 0x38000100): kernel enumeration of codes 0..16383 (generated layout, hand-written statement)

Each theorem evaluates, in the kernel, the model's own `pack ∘ unpack` chain at the soft-float
instance `SF` on 4096 consecutive codes.
-/
namespace Glm.Props.C06
open Glm.Hand.C06

set_option maxRecDepth 100000 in
theorem rtS16_chunk00 : allPow rtS16p 12 0 = true := by decide +kernel
set_option maxRecDepth 100000 in
theorem rtS16_chunk01 : allPow rtS16p 12 4096 = true := by decide +kernel
set_option maxRecDepth 100000 in
theorem rtS16_chunk02 : allPow rtS16p 12 8192 = true := by decide +kernel
set_option maxRecDepth 100000 in
theorem rtS16_chunk03 : allPow rtS16p 12 12288 = true := by decide +kernel

end Glm.Props.C06
