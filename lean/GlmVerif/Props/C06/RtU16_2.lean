import GlmVerif.Props.C06.Enum
/-!
# C06 (a) — `packUnorm…16` field (N = 65535, c = 0x37800080): kernel enumeration of codes 32768..49151 (generated layout, hand-written statement)

Each theorem evaluates, in the kernel, the model's own `pack ∘ unpack` chain at the soft-float
instance `SF` on 4096 consecutive codes.
-/
namespace Glm.Props.C06
open Glm.Hand.C06

set_option maxRecDepth 100000 in
theorem rtU16_chunk08 : allPow rtU16p 12 32768 = true := by decide +kernel
set_option maxRecDepth 100000 in
theorem rtU16_chunk09 : allPow rtU16p 12 36864 = true := by decide +kernel
set_option maxRecDepth 100000 in
theorem rtU16_chunk10 : allPow rtU16p 12 40960 = true := by decide +kernel
set_option maxRecDepth 100000 in
theorem rtU16_chunk11 : allPow rtU16p 12 45056 = true := by decide +kernel

end Glm.Props.C06
