import GlmVerif.Hand.C06
/-!
# C06 — balanced finite enumeration for `decide +kernel`

`allPow p d lo` is `p lo && p (lo+1) && … && p (lo + 2^d - 1)` as a balanced tree (a linear
`∀ n : Fin 4096` exceeds the recursion depth).  The kernel evaluates it; `allPow_spec` turns the
result into the quantified statement.
-/
namespace Glm.Props.C06

def allPow (p : Nat → Bool) : Nat → Nat → Bool
  | 0, lo => p lo
  | d+1, lo => allPow p d lo && allPow p d (lo + 2^d)

theorem allPow_spec (p : Nat → Bool) : ∀ d lo, allPow p d lo = true →
    ∀ k, lo ≤ k → k < lo + 2^d → p k = true := by
  intro d
  induction d with
  | zero => intro lo h k h1 h2; simp [allPow] at h; have : k = lo := by omega
            subst this; exact h
  | succ d ih =>
    intro lo h k h1 h2
    simp [allPow] at h
    by_cases hk : k < lo + 2^d
    · exact ih lo h.1 k h1 hk
    · exact ih (lo + 2^d) h.2 k (by omega) (by rw [Nat.pow_succ] at h2; omega)

/-- a range starting at 0 -/
theorem allPow_zero (p : Nat → Bool) (d : Nat) (h : allPow p d 0 = true) : ∀ k, k < 2^d → p k = true :=
  fun k hk => allPow_spec p d 0 h k (Nat.zero_le k) (by omega)

/-- four chunks of `2^14` cover `[0, 2^16)` -/
theorem allPow_4x14 (p : Nat → Bool)
    (h0 : allPow p 14 0 = true) (h1 : allPow p 14 16384 = true)
    (h2 : allPow p 14 32768 = true) (h3 : allPow p 14 49152 = true) :
    ∀ k, k < 65536 → p k = true := by
  intro k hk
  by_cases c1 : k < 16384
  · exact allPow_spec p 14 0 h0 k (by omega) (by omega)
  by_cases c2 : k < 32768
  · exact allPow_spec p 14 16384 h1 k (by omega) (by omega)
  by_cases c3 : k < 49152
  · exact allPow_spec p 14 32768 h2 k (by omega) (by omega)
  · exact allPow_spec p 14 49152 h3 k (by omega) (by omega)

/-- sixteen chunks of `2^12` cover `[0, 2^16)` -/
theorem allPow_16x12 (p : Nat → Bool)
    (h0 : allPow p 12 0 = true) (h1 : allPow p 12 4096 = true) (h2 : allPow p 12 8192 = true) (h3 : allPow p 12 12288 = true) (h4 : allPow p 12 16384 = true) (h5 : allPow p 12 20480 = true) (h6 : allPow p 12 24576 = true) (h7 : allPow p 12 28672 = true) (h8 : allPow p 12 32768 = true) (h9 : allPow p 12 36864 = true) (h10 : allPow p 12 40960 = true) (h11 : allPow p 12 45056 = true) (h12 : allPow p 12 49152 = true) (h13 : allPow p 12 53248 = true) (h14 : allPow p 12 57344 = true) (h15 : allPow p 12 61440 = true) :
    ∀ k, k < 65536 → p k = true := by
  intro k hk
  by_cases c0 : k < 4096
  · exact allPow_spec p 12 0 h0 k (by omega) (by omega)
  by_cases c1 : k < 8192
  · exact allPow_spec p 12 4096 h1 k (by omega) (by omega)
  by_cases c2 : k < 12288
  · exact allPow_spec p 12 8192 h2 k (by omega) (by omega)
  by_cases c3 : k < 16384
  · exact allPow_spec p 12 12288 h3 k (by omega) (by omega)
  by_cases c4 : k < 20480
  · exact allPow_spec p 12 16384 h4 k (by omega) (by omega)
  by_cases c5 : k < 24576
  · exact allPow_spec p 12 20480 h5 k (by omega) (by omega)
  by_cases c6 : k < 28672
  · exact allPow_spec p 12 24576 h6 k (by omega) (by omega)
  by_cases c7 : k < 32768
  · exact allPow_spec p 12 28672 h7 k (by omega) (by omega)
  by_cases c8 : k < 36864
  · exact allPow_spec p 12 32768 h8 k (by omega) (by omega)
  by_cases c9 : k < 40960
  · exact allPow_spec p 12 36864 h9 k (by omega) (by omega)
  by_cases c10 : k < 45056
  · exact allPow_spec p 12 40960 h10 k (by omega) (by omega)
  by_cases c11 : k < 49152
  · exact allPow_spec p 12 45056 h11 k (by omega) (by omega)
  by_cases c12 : k < 53248
  · exact allPow_spec p 12 49152 h12 k (by omega) (by omega)
  by_cases c13 : k < 57344
  · exact allPow_spec p 12 53248 h13 k (by omega) (by omega)
  by_cases c14 : k < 61440
  · exact allPow_spec p 12 57344 h14 k (by omega) (by omega)
  · exact allPow_spec p 12 61440 h15 k (by omega) (by omega)

open Glm.Hand.C06 in
/-- unorm16 field: `round(clamp(float(c) * 1.5259021896696421759365224689097e-5f, 0, 1) * 65535.0f)` = c -/
def rtU16p (n : Nat) : Bool := qU16 (uU16 (F := SF) (UInt16.ofNat n)) == UInt16.ofNat n
open Glm.Hand.C06 in
/-- snorm16 field: re-packs to itself, except the most negative code 0x8000 which re-packs to 0x8001 -/
def rtS16p (n : Nat) : Bool :=
  (qS16 (uS16 (F := SF) (UInt16.ofNat n).toInt16)).toUInt16 == (if n == 0x8000 then 0x8001 else UInt16.ofNat n)

end Glm.Props.C06
