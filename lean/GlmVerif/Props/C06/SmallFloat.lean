import Std.Tactic.BVDecide
import GlmVerif.Props.C06.Enum
/-!
# C06 (f) — the unsigned small floats of `packF2x11_1x10` (11-bit: 5e6m, 10-bit: 5e5m)

About the code WITH `h/C06/fix_f11_f10_decode.diff` and `h/C06/fix_f11_f10_encode_range.diff`
applied (the model mirrors the repaired source); the original code is `Hand.C06.Orig.*` and is
refuted at the end of this file with concrete witnesses.

glm's convention for these formats (kept by the repair): the exponent field 0 is an ordinary binade
`2^-15·(1+m/2^k)` (no denormals) except that code 0 is zero; exponent field 31 is Inf (mantissa 0) or
NaN.  A float is its bit pattern; for non-negative non-NaN floats the order of the patterns is the
order of the values.
-/
namespace Glm.Props.C06
open Glm.Hand.C06

/-! ### every finite code re-packs to itself; Inf/NaN codes -/
theorem f11_finite_roundtrip (c : UInt32) (h : c < 0x800) (hf : !((c >>> 6) == 31)) :
    floatTo11bit (packed11bitToFloat c) = c := by
  unfold floatTo11bit packed11bitToFloat packed11ToFloat float2packed11 isZeroF isNaNF isInfF ltMinF geMaxF
  bv_decide (config := { timeout := 180 })
theorem f10_finite_roundtrip (c : UInt32) (h : c < 0x400) (hf : !((c >>> 5) == 31)) :
    floatTo10bit (packed10bitToFloat c) = c := by
  unfold floatTo10bit packed10bitToFloat packed10ToFloat float2packed10 isZeroF isNaNF isInfF ltMinF geMaxF
  bv_decide (config := { timeout := 180 })
/-- finite codes decode to finite non-negative floats; only code 0 decodes to zero -/
theorem f11_finite_decodes_finite (c : UInt32) (h : c < 0x800) (hf : !((c >>> 6) == 31)) :
    packed11bitToFloat c < 0x7f800000 ∧ (packed11bitToFloat c = 0 ↔ c = 0) := by
  unfold packed11bitToFloat packed11ToFloat; bv_decide (config := { timeout := 180 })
theorem f10_finite_decodes_finite (c : UInt32) (h : c < 0x400) (hf : !((c >>> 5) == 31)) :
    packed10bitToFloat c < 0x7f800000 ∧ (packed10bitToFloat c = 0 ↔ c = 0) := by
  unfold packed10bitToFloat packed10ToFloat; bv_decide (config := { timeout := 180 })
/-- the Inf code decodes to +Inf and +Inf encodes to it -/
theorem f11_inf : packed11bitToFloat 0x7c0 = 0x7f800000 ∧ floatTo11bit 0x7f800000 = 0x7c0 := by decide
theorem f10_inf : packed10bitToFloat 0x3e0 = 0x7f800000 ∧ floatTo10bit 0x7f800000 = 0x3e0 := by decide
/-- every NaN code decodes to a NaN, every NaN encodes to the all-ones NaN code -/
theorem f11_nan_codes (c : UInt32) (h : c < 0x800) (he : (c >>> 6) == 31) (hm : !((c &&& 0x3f) == 0)) :
    isNaNF (packed11bitToFloat c) = true := by
  unfold packed11bitToFloat isNaNF; bv_decide (config := { timeout := 180 })
theorem f10_nan_codes (c : UInt32) (h : c < 0x400) (he : (c >>> 5) == 31) (hm : !((c &&& 0x1f) == 0)) :
    isNaNF (packed10bitToFloat c) = true := by
  unfold packed10bitToFloat isNaNF; bv_decide (config := { timeout := 180 })
theorem f11_nan_encodes (x : UInt32) (h : isNaNF x = true) : floatTo11bit x &&& 0x7ff = 0x7ff := by
  unfold floatTo11bit isNaNF isZeroF at *; bv_decide (config := { timeout := 180 })
theorem f10_nan_encodes (x : UInt32) (h : isNaNF x = true) : floatTo10bit x &&& 0x3ff = 0x3ff := by
  unfold floatTo10bit isNaNF isZeroF at *; bv_decide (config := { timeout := 180 })
/-- encoding never produces a NaN code from a number, nor the Inf code from a finite number -/
theorem f11_encode_class (x : UInt32) (h : isNaNF x = false) :
    floatTo11bit x < 0x800 ∧ (floatTo11bit x ≥ 0x7c0 ↔ x = 0x7f800000) ∧ floatTo11bit x ≤ 0x7c0 := by
  unfold floatTo11bit float2packed11 isZeroF isNaNF isInfF ltMinF geMaxF at *; bv_decide (config := { timeout := 180 })
theorem f10_encode_class (x : UInt32) (h : isNaNF x = false) :
    floatTo10bit x < 0x400 ∧ (floatTo10bit x ≥ 0x3e0 ↔ x = 0x7f800000) ∧ floatTo10bit x ≤ 0x3e0 := by
  unfold floatTo10bit float2packed10 isZeroF isNaNF isInfF ltMinF geMaxF at *; bv_decide (config := { timeout := 180 })

/-! ### quantisation: truncation of the mantissa, clamping, monotonicity -/
/-- in range `[smallest positive code, 65536)` decoding the code gives `x` with the low 17 mantissa
bits cleared: `decode ≤ x < decode + one mantissa step` -/
theorem f11_truncates (x : UInt32) (h1 : 0x38020000 ≤ x) (h2 : x < 0x47800000) :
    packed11bitToFloat (floatTo11bit x) = x &&& 0xfffe0000 := by
  unfold floatTo11bit packed11bitToFloat packed11ToFloat float2packed11 isZeroF isNaNF isInfF ltMinF geMaxF
  bv_decide (config := { timeout := 180 })
theorem f10_truncates (x : UInt32) (h1 : 0x38040000 ≤ x) (h2 : x < 0x47800000) :
    packed10bitToFloat (floatTo10bit x) = x &&& 0xfffc0000 := by
  unfold floatTo10bit packed10bitToFloat packed10ToFloat float2packed10 isZeroF isNaNF isInfF ltMinF geMaxF
  bv_decide (config := { timeout := 180 })
/-- negative numbers (incl. -Inf, -0) and positive values below the smallest positive code encode to 0 -/
theorem f11_clamps_low (x : UInt32) (hn : isNaNF x = false)
    (h : !((x &&& 0x80000000) == 0) || x < 0x38020000) : floatTo11bit x = 0 := by
  unfold floatTo11bit float2packed11 isZeroF isNaNF isInfF ltMinF geMaxF at *; bv_decide (config := { timeout := 180 })
theorem f10_clamps_low (x : UInt32) (hn : isNaNF x = false)
    (h : !((x &&& 0x80000000) == 0) || x < 0x38040000) : floatTo10bit x = 0 := by
  unfold floatTo10bit float2packed10 isZeroF isNaNF isInfF ltMinF geMaxF at *; bv_decide (config := { timeout := 180 })
/-- finite values above the largest finite code value (65024 / 64512) encode to it -/
theorem f11_clamps_high (x : UInt32) (h1 : 0x477e0000 ≤ x) (h2 : x < 0x7f800000) :
    floatTo11bit x = 0x7bf ∧ packed11bitToFloat 0x7bf = 0x477e0000 := by
  unfold floatTo11bit packed11bitToFloat packed11ToFloat float2packed11 isZeroF isNaNF isInfF ltMinF geMaxF
  bv_decide (config := { timeout := 180 })
theorem f10_clamps_high (x : UInt32) (h1 : 0x477c0000 ≤ x) (h2 : x < 0x7f800000) :
    floatTo10bit x = 0x3df ∧ packed10bitToFloat 0x3df = 0x477c0000 := by
  unfold floatTo10bit packed10bitToFloat packed10ToFloat float2packed10 isZeroF isNaNF isInfF ltMinF geMaxF
  bv_decide (config := { timeout := 180 })
/-- monotone on the non-negative non-NaN floats (+Inf included) -/
theorem f11_monotone (x y : UInt32) (hx : x ≤ 0x7f800000) (hy : y ≤ 0x7f800000) (h : x ≤ y) :
    floatTo11bit x ≤ floatTo11bit y := by
  unfold floatTo11bit float2packed11 isZeroF isNaNF isInfF ltMinF geMaxF; bv_decide (config := { timeout := 180 })
theorem f10_monotone (x y : UInt32) (hx : x ≤ 0x7f800000) (hy : y ≤ 0x7f800000) (h : x ≤ y) :
    floatTo10bit x ≤ floatTo10bit y := by
  unfold floatTo10bit float2packed10 isZeroF isNaNF isInfF ltMinF geMaxF; bv_decide (config := { timeout := 180 })
/-- decoding is strictly monotone on the finite codes (codes order like their values) -/
theorem f11_decode_monotone (c d : UInt32) (hc : c < 0x7c0) (hd : d ≤ 0x7c0) (h : c < d) :
    packed11bitToFloat c < packed11bitToFloat d := by
  unfold packed11bitToFloat packed11ToFloat; bv_decide (config := { timeout := 180 })
theorem f10_decode_monotone (c d : UInt32) (hc : c < 0x3e0) (hd : d ≤ 0x3e0) (h : c < d) :
    packed10bitToFloat c < packed10bitToFloat d := by
  unfold packed10bitToFloat packed10ToFloat; bv_decide (config := { timeout := 180 })

/-! ### the word `packF2x11_1x10` -/
/-- field k of the word is the code of component k (x at bit 0, y at bit 11, z at bit 22) -/
theorem packF2x11_1x10_layout (x y z : UInt32) :
    (packF2x11_1x10 x y z >>> 0) &&& 0x7ff = floatTo11bit x &&& 0x7ff ∧
    (packF2x11_1x10 x y z >>> 11) &&& 0x7ff = floatTo11bit y &&& 0x7ff ∧
    (packF2x11_1x10 x y z >>> 22) &&& 0x3ff = floatTo10bit z &&& 0x3ff := by
  unfold packF2x11_1x10 asmF11F11F10; bv_decide (config := { timeout := 180 })
/-- a word none of whose fields is a NaN code re-packs to itself -/
def noNaNCode (v : UInt32) : Bool :=
  (!(((v >>> 6) &&& 0x1f) == 31) || ((v &&& 0x3f) == 0)) &&
  (!(((v >>> 17) &&& 0x1f) == 31) || (((v >>> 11) &&& 0x3f) == 0)) &&
  (!(((v >>> 27) &&& 0x1f) == 31) || (((v >>> 22) &&& 0x1f) == 0))
theorem packF2x11_1x10_unpack (v : UInt32) (h : noNaNCode v = true) :
    packF2x11_1x10 (unpackF2x11_1x10_x v) (unpackF2x11_1x10_y v) (unpackF2x11_1x10_z v) = v := by
  unfold noNaNCode at h
  unfold packF2x11_1x10 unpackF2x11_1x10_x unpackF2x11_1x10_y unpackF2x11_1x10_z asmF11F11F10
    floatTo11bit packed11bitToFloat packed11ToFloat float2packed11
    floatTo10bit packed10bitToFloat packed10ToFloat float2packed10 isZeroF isNaNF isInfF ltMinF geMaxF
  bv_decide (config := { timeout := 180 })
/-- `unpack ∘ pack ∘ unpack = unpack` for EVERY word (NaN codes become the canonical NaN code, which
decodes to the same quiet NaN) -/
theorem unpackF2x11_1x10_idem (v : UInt32) :
    let w := packF2x11_1x10 (unpackF2x11_1x10_x v) (unpackF2x11_1x10_y v) (unpackF2x11_1x10_z v)
    unpackF2x11_1x10_x w = unpackF2x11_1x10_x v ∧ unpackF2x11_1x10_y w = unpackF2x11_1x10_y v ∧
    unpackF2x11_1x10_z w = unpackF2x11_1x10_z v := by
  unfold packF2x11_1x10 unpackF2x11_1x10_x unpackF2x11_1x10_y unpackF2x11_1x10_z asmF11F11F10
    floatTo11bit packed11bitToFloat packed11ToFloat float2packed11
    floatTo10bit packed10bitToFloat packed10ToFloat float2packed10 isZeroF isNaNF isInfF ltMinF geMaxF
  bv_decide (config := { timeout := 180 })

/-! ### model = specification (`Spec.smallFloatBits`, `Spec.smallFloatEncode`), kernel enumeration
of all 2048 / 1024 codes (independent of `bv_decide`) -/
set_option maxRecDepth 100000 in
theorem f11_decode_table : allPow (fun n =>
    (packed11bitToFloat (UInt32.ofNat n)).toNat == Spec.smallFloatBits n 6) 11 0 = true := by decide +kernel
set_option maxRecDepth 100000 in
theorem f10_decode_table : allPow (fun n =>
    (packed10bitToFloat (UInt32.ofNat n)).toNat == Spec.smallFloatBits n 5) 10 0 = true := by decide +kernel
set_option maxRecDepth 100000 in
/-- every code, decoded and re-encoded: the code itself if finite or Inf, the canonical NaN code otherwise -/
theorem f11_reencode_table : allPow (fun n =>
    ((floatTo11bit (packed11bitToFloat (UInt32.ofNat n))) &&& 0x7ff).toNat ==
      (if n / 64 == 31 && n % 64 != 0 then 0x7ff else n)) 11 0 = true := by decide +kernel
set_option maxRecDepth 100000 in
theorem f10_reencode_table : allPow (fun n =>
    ((floatTo10bit (packed10bitToFloat (UInt32.ofNat n))) &&& 0x3ff).toNat ==
      (if n / 32 == 31 && n % 32 != 0 then 0x3ff else n)) 10 0 = true := by decide +kernel
set_option maxRecDepth 100000 in
/-- the encoder agrees with the specification on the decoded value of every code, its predecessor and
its successor pattern (the binade/field boundaries) -/
theorem f11_encode_spec_at_codes : allPow (fun n =>
    let f := packed11bitToFloat (UInt32.ofNat n)
    ((floatTo11bit f) &&& 0x7ff).toNat == Spec.smallFloatEncode f.toNat 6 &&
    ((floatTo11bit (f + 1)) &&& 0x7ff).toNat == Spec.smallFloatEncode (f + 1).toNat 6 &&
    ((floatTo11bit (f - 1)) &&& 0x7ff).toNat == Spec.smallFloatEncode (f - 1).toNat 6) 11 0 = true := by
  decide +kernel
set_option maxRecDepth 100000 in
theorem f10_encode_spec_at_codes : allPow (fun n =>
    let f := packed10bitToFloat (UInt32.ofNat n)
    ((floatTo10bit f) &&& 0x3ff).toNat == Spec.smallFloatEncode f.toNat 5 &&
    ((floatTo10bit (f + 1)) &&& 0x3ff).toNat == Spec.smallFloatEncode (f + 1).toNat 5 &&
    ((floatTo10bit (f - 1)) &&& 0x3ff).toNat == Spec.smallFloatEncode (f - 1).toNat 5) 10 0 = true := by
  decide +kernel

/-! ### the unrepaired code violates the property (witnesses reproduced on the real glm @667221d) -/
/-- Inf and NaN codes decoded to `~0` = -1.0f -/
theorem orig_inf_nan_decode_to_minus_one :
    Orig.packed11bitToFloat 0x7c0 = 0xbf800000 ∧ Orig.packed11bitToFloat 0x7ff = 0xbf800000 ∧
    Orig.packed10bitToFloat 0x3e0 = 0xbf800000 ∧ Orig.packed10bitToFloat 0x3ff = 0xbf800000 := by decide
/-- …and the other NaN codes decoded to finite numbers (0x7c1 ↦ 66560.0) -/
theorem orig_nan_code_decodes_finite : Orig.packed11bitToFloat 0x7c1 = 0x47820000 := by decide
/-- the zero code of x (or y) decoded to 2^-15 whenever another field was non-zero:
`unpackF2x11_1x10(packF2x11_1x10(vec3(0,1,1))).x = 3.05e-5` -/
theorem orig_zero_field_not_zero :
    Orig.packF2x11_1x10 0 0x3f800000 0x3f800000 = 0x781e0000 ∧
    Orig.unpackF2x11_1x10_x 0x781e0000 = 0x38000000 := by decide
/-- negative inputs packed as their absolute value: -1.0 ↦ code of +1.0 -/
theorem orig_negative_packs_abs : Orig.floatTo11bit 0xbf800000 = 0x3c0 := by decide
/-- the exponent wrapped modulo 32: 2^-20 ↦ code of 4096.0, 131072.0 ↦ code 0, 65536.0 ↦ the Inf code -/
theorem orig_exponent_wraps :
    Orig.floatTo11bit 0x35800000 = 0x6c0 ∧ packed11ToFloat 0x6c0 = 0x45800000 ∧
    Orig.floatTo11bit 0x48000000 = 0 ∧ Orig.floatTo11bit 0x47800000 = 0x7c0 := by decide
/-- what did hold: the helpers round-trip every finite code -/
theorem orig_f11_finite_roundtrip_partial (c : UInt32) (h : c < 0x800) (hf : !((c >>> 6) == 31)) :
    Orig.floatTo11bit (Orig.packed11bitToFloat c) = c := by
  unfold Orig.floatTo11bit Orig.packed11bitToFloat packed11ToFloat float2packed11 isZeroF isNaNF isInfF
  bv_decide (config := { timeout := 180 })
theorem orig_f10_finite_roundtrip_partial (c : UInt32) (h : c < 0x400) (hf : !((c >>> 5) == 31)) :
    Orig.floatTo10bit (Orig.packed10bitToFloat c) = c := by
  unfold Orig.floatTo10bit Orig.packed10bitToFloat packed10ToFloat float2packed10 isZeroF isNaNF isInfF
  bv_decide (config := { timeout := 180 })

example : floatTo11bit 0x3f800000 = 0x3c0 ∧ packed11bitToFloat 0x3c0 = 0x3f800000 := by decide
example : noNaNCode 0x781e0000 = true := by decide
end Glm.Props.C06
