import GlmVerif.Props.C06.Enum
/-!
# C06 (a) — per-field round trips of the fields of ≤ 10 bits, by kernel enumeration of every code

For every field `(N, scale constant)` that occurs in the source, the model's own chain
`narrow(round(clamp(float(c) * scale, lo, hi) * N))` is evaluated at the soft-float instance `SF`
on every code `c`.  Signed fields: the most negative code decodes to -1.0 and re-packs to `-N`.
Also: the scale constants `1.f / N` (and the templates' `1 / float(max)`) as bit patterns.
-/
namespace Glm.Props.C06
open Glm.Hand.C06

/-! ### scale constants: what `1.f / N` is in binary32 (cf. the `const` lines of the harness) -/
theorem recip_bits :
    (recip (F := SF) 1023).bits = 0x3a802008 ∧ (recip (F := SF) 511).bits = 0x3b004020 ∧
    (recip (F := SF) 63).bits = 0x3c820821 ∧ (recip (F := SF) 31).bits = 0x3d042108 ∧
    (recip (F := SF) 15).bits = 0x3d888889 ∧ (recip (F := SF) 7).bits = 0x3e124925 ∧
    (recip (F := SF) 3).bits = 0x3eaaaaab := by decide +kernel
/-- the literals of the source are the correctly rounded `1/255, 1/127, 1/65535, 1/32767`, i.e. what
the templates compute as `1 / float(max)` -/
theorem literal_scales :
    FOps.div (F := SF) f1 (ofU8 255) = c255 ∧ FOps.div (F := SF) f1 (ofI8 127) = c127 ∧
    FOps.div (F := SF) f1 (ofU16 65535) = c65535 ∧ FOps.div (F := SF) f1 (ofI16 32767) = c32767 := by
  decide +kernel

/-! ### 8-bit fields -/
set_option maxRecDepth 100000 in
theorem rtU8_table : allPow (fun n => qU8 (uU8 (F := SF) (UInt8.ofNat n)) == UInt8.ofNat n) 8 0 = true := by
  decide +kernel
set_option maxRecDepth 100000 in
theorem rtS8_table : allPow (fun n => (qS8 (uS8 (F := SF) (UInt8.ofNat n).toInt8)).toUInt8 ==
    (if n == 0x80 then 0x81 else UInt8.ofNat n)) 8 0 = true := by
  decide +kernel

/-- (a) unorm8: every code re-packs to itself -/
theorem rtU8 (b : UInt8) : qU8 (uU8 (F := SF) b) = b := by
  have h := allPow_zero _ 8 rtU8_table b.toNat b.toNat_lt
  simpa using h
/-- (a) snorm8: every code but the most negative re-packs to itself; 0x80 re-packs to 0x81 (= -127) -/
theorem rtS8 (b : UInt8) : (qS8 (uS8 (F := SF) b.toInt8)).toUInt8 = if b = 0x80 then 0x81 else b := by
  have h := allPow_zero _ 8 rtS8_table b.toNat b.toNat_lt
  simp only [UInt8.ofNat_toNat, beq_iff_eq] at h
  rw [h]
  by_cases hb : b = 0x80
  · subst hb; decide
  · have : ¬ b.toNat = 0x80 := fun e => hb (UInt8.toNat_inj.mp (by simpa using e))
    simp [hb, this]
/-- the most negative code and `-N` decode to the same `-1.0f` (so `unpack ∘ pack ∘ unpack = unpack`) -/
theorem uS8_min : uS8 (F := SF) (-128) = uS8 (-127) ∧ (uS8 (F := SF) (-128)).bits = 0xbf800000 := by
  decide +kernel

/-! ### bit-field unorm fields (`N` = 1023, 63, 31, 15, 7, 3 and the 1-bit field with factor 1.f) -/
set_option maxRecDepth 100000 in
theorem rtUn1023_table : allPow (fun n => qUn (F := SF) 1023 (uUn 1023 (UInt32.ofNat n)) == UInt32.ofNat n) 10 0 = true := by
  decide +kernel
theorem rtUn63_table : allPow (fun n => qUn (F := SF) 63 (uUn 63 (UInt32.ofNat n)) == UInt32.ofNat n) 6 0 = true := by
  decide +kernel
theorem rtUn31_table : allPow (fun n => qUn (F := SF) 31 (uUn 31 (UInt32.ofNat n)) == UInt32.ofNat n) 5 0 = true := by
  decide +kernel
theorem rtUn15_table : allPow (fun n => qUn (F := SF) 15 (uUn 15 (UInt32.ofNat n)) == UInt32.ofNat n) 4 0 = true := by
  decide +kernel
theorem rtUn7_table : allPow (fun n => qUn (F := SF) 7 (uUn 7 (UInt32.ofNat n)) == UInt32.ofNat n) 3 0 = true := by
  decide +kernel
theorem rtUn3_table : allPow (fun n => qUn (F := SF) 3 (uUn 3 (UInt32.ofNat n)) == UInt32.ofNat n) 2 0 = true := by
  decide +kernel
theorem rtU1_table : allPow (fun n => qUn (F := SF) 1 (uU1 (UInt32.ofNat n)) == UInt32.ofNat n) 1 0 = true := by
  decide +kernel

private theorem of_table (d : Nat) (f : UInt32 → UInt32)
    (t : allPow (fun n => f (UInt32.ofNat n) == UInt32.ofNat n) d 0 = true)
    (c : UInt32) (h : c.toNat < 2^d) : f c = c := by
  have := allPow_zero _ d t c.toNat h
  simpa using this

theorem rtUn1023 (c : UInt32) (h : c < 1024) : qUn (F := SF) 1023 (uUn 1023 c) = c :=
  of_table 10 (fun c => qUn (F := SF) 1023 (uUn 1023 c)) rtUn1023_table c (by simpa using UInt32.lt_iff_toNat_lt.mp h)
theorem rtUn63 (c : UInt32) (h : c < 64) : qUn (F := SF) 63 (uUn 63 c) = c :=
  of_table 6 (fun c => qUn (F := SF) 63 (uUn 63 c)) rtUn63_table c (by simpa using UInt32.lt_iff_toNat_lt.mp h)
theorem rtUn31 (c : UInt32) (h : c < 32) : qUn (F := SF) 31 (uUn 31 c) = c :=
  of_table 5 (fun c => qUn (F := SF) 31 (uUn 31 c)) rtUn31_table c (by simpa using UInt32.lt_iff_toNat_lt.mp h)
theorem rtUn15 (c : UInt32) (h : c < 16) : qUn (F := SF) 15 (uUn 15 c) = c :=
  of_table 4 (fun c => qUn (F := SF) 15 (uUn 15 c)) rtUn15_table c (by simpa using UInt32.lt_iff_toNat_lt.mp h)
theorem rtUn7 (c : UInt32) (h : c < 8) : qUn (F := SF) 7 (uUn 7 c) = c :=
  of_table 3 (fun c => qUn (F := SF) 7 (uUn 7 c)) rtUn7_table c (by simpa using UInt32.lt_iff_toNat_lt.mp h)
theorem rtUn3 (c : UInt32) (h : c < 4) : qUn (F := SF) 3 (uUn 3 c) = c :=
  of_table 2 (fun c => qUn (F := SF) 3 (uUn 3 c)) rtUn3_table c (by simpa using UInt32.lt_iff_toNat_lt.mp h)
theorem rtU1 (c : UInt32) (h : c < 2) : qUn (F := SF) 1 (uU1 c) = c :=
  of_table 1 (fun c => qUn (F := SF) 1 (uU1 c)) rtU1_table c (by simpa using UInt32.lt_iff_toNat_lt.mp h)

/-! ### signed bit-fields of `packSnorm3x10_1x2` (10-bit, N = 511; 2-bit, factor 1.f) -/
/-- canonical re-pack of a signed code: the most negative code becomes `-N` -/
def canonS (lo : Int32) (c : Int32) : Int32 := if c == lo then lo + 1 else c
set_option maxRecDepth 100000 in
theorem rtSn511_table : allPow (fun n =>
    let c : Int32 := Int32.ofInt ((n : Int) - 512)
    qSn (F := SF) 511 (uSn 511 c) == canonS (-512) c) 10 0 = true := by
  decide +kernel
theorem rtS1_table : allPow (fun n =>
    let c : Int32 := Int32.ofInt ((n : Int) - 2)
    qSn (F := SF) 1 (uS1 c) == canonS (-2) c) 2 0 = true := by
  decide +kernel
theorem rtSn511 (c : Int32) (h : -512 ≤ c ∧ c ≤ 511) : qSn (F := SF) 511 (uSn 511 c) = canonS (-512) c := by
  have h1 : -512 ≤ c.toInt := by simpa using Int32.le_iff_toInt_le.mp h.1
  have h2 : c.toInt ≤ 511 := by simpa using Int32.le_iff_toInt_le.mp h.2
  have := allPow_zero _ 10 rtSn511_table (c.toInt + 512).toNat (by omega)
  have e : (((c.toInt + 512).toNat : Nat) : Int) - 512 = c.toInt := by omega
  dsimp only at this
  rw [e, Int32.ofInt_toInt] at this
  exact beq_iff_eq.mp this
theorem rtS1 (c : Int32) (h : -2 ≤ c ∧ c ≤ 1) : qSn (F := SF) 1 (uS1 c) = canonS (-2) c := by
  have h1 : -2 ≤ c.toInt := by simpa using Int32.le_iff_toInt_le.mp h.1
  have h2 : c.toInt ≤ 1 := by simpa using Int32.le_iff_toInt_le.mp h.2
  have := allPow_zero _ 2 rtS1_table (c.toInt + 2).toNat (by omega)
  have e : (((c.toInt + 2).toNat : Nat) : Int) - 2 = c.toInt := by omega
  dsimp only at this
  rw [e, Int32.ofInt_toInt] at this
  exact beq_iff_eq.mp this
theorem uSn511_min : uSn (F := SF) 511 (-512) = uSn 511 (-511) ∧ uS1 (F := SF) (-2) = uS1 (-1) := by
  decide +kernel

example : (uU8 (F := SF) 255).bits = 0x3f800000 := by decide +kernel
example : (uUn (F := SF) 1023 512).bits = 0x3f002008 := by decide +kernel
end Glm.Props.C06
