import GlmVerif.Sem.Family
import GlmVerif.Spec.C09
import GlmVerif.Gen.C09
import GlmVerif.Props.C09.All
/-!
# C09 — translate/rotate/scale/shear/lookAt build the transforms they name

Table theorems (`Props/C09/T_*.lean`), for the model regenerated from /repo:
`translate(M,v) = M·T(v)`, `scale(M,s) = M·S(s)` (and `scale_slow`), `shear(M,…) = M·H(…)` (and
`shear_slow`), `rotate(M,a,axis) = M·Rod(a, axis/|axis|)` (and `rotate_slow`; the Rodrigues matrix
`cos a·I + (1-cos a) n nᵀ + sin a [n]ₓ`; the only divisor is `|axis|`, and `sqrt` is applied to a
sum of squares), `rotateNormalizedAxis`, the gtx/transform forms with `M = I`, `rotateX/Y/Z` for
vec3/vec4, `rotate(vec2)`, `rotate(v, a, n)`, the 2D helpers of gtx/matrix_transform_2d and
gtx/transform2; `lookAtRH/LH` (and `lookAt` under both handedness configurations) is a transform with
last row `(0,0,0,1)` taking `eye` to the origin, the view direction to `(0,0,∓|center-eye|)` and `up`
to a vector with zero x component.
-/
namespace Glm.Props.C09
open Glm Glm.Spec.C09 Glm.Gen.C09

/-- every `poly` family of C09, in every commutative-ring-like semantics (cos/sin/… are atoms) -/
theorem poly_families_correct {R : Type} [CommRing R] {o : Ops R} (ho : RingLike o)
    (f : Family) (hf : f ∈ families) (htm : f.treeMode = false) (hk : f.kind = .poly)
    (ks : List Nat) (hks : ks ∈ f.keys) (j : Nat) (hj : j < f.nOut ks) (env : Nat → R) :
    (f.post ks (lookup f.unit ks).outE j).eval o env = (f.spec ks j).eval o env :=
  Family.poly_sound ho (all_ok f hf) htm hk hks hj env

/-- every `frac` family of C09 (rotate…, lookAt), in every field-like semantics of characteristic zero,
given that the listed norms are non-zero; then no division by zero is evaluated -/
theorem frac_families_correct {K : Type} [Field K] [CharZero K] {o : Ops K} (ho : FieldLike o)
    (f : Family) (hf : f ∈ families) (htm : f.treeMode = false) (hk : f.kind = .frac) (hdf : f.divFree = false)
    (ks : List Nat) (hks : ks ∈ f.keys) (j : Nat) (hj : j < f.nOut ks) (env : Nat → K)
    (hall : ∀ a ∈ f.allowed ks, a.divOK o env ∧ a.eval o env ≠ 0) :
    (f.post ks (lookup f.unit ks).outE j).divOK o env ∧
    (f.post ks (lookup f.unit ks).outE j).eval o env = (f.spec ks j).eval o env :=
  Family.frac_sound ho (all_ok f hf) htm hk hdf hks hj env hall

/-- `translate(M, v)`: entry (column c, row r) is `Σ_k M[k][r] · T(v)[c][k]`, every commutative ring -/
theorem translate_correct {R : Type} [CommRing R] (j : Nat) (hj : j < 16) (env : Nat → R) :
    ((lookup "translate" []).outE j).eval (ringOps R) env
      = (mulEl 4 (transl 4 fun i => v (16 + i)) j).eval (ringOps R) env :=
  Family.poly_sound ringOps_ringLike (all_ok f_translate (by simp [families])) rfl rfl (ks := []) (by simp [f_translate]) (j := j) hj env

/-- non-vacuity -/
example : (lookup "rotate" []).nIn = 20 ∧ (lookup "rotate" []).outs.length = 16 ∧ families.length = 34 := by
  decide +kernel

/-- **walk-mode families** (the code asks its questions in another order, or uses other but equivalent comparisons, than the
specification tree): for every input the traced tree and the specification tree evaluate alike, in every ordered field —
polynomial leaves unconditionally, -/
theorem walk_families_correct {K : Type} [Field K] [LinearOrder K] [IsStrictOrderedRing K] {o : Ops K} (ho : OrderedEqLike o)
    (f : Family) (hf : f ∈ families) (htm : f.treeMode = true) (hw : f.treeWalk = true) (hk : f.kind = .poly)
    (ks : List Nat) (hks : ks ∈ f.keys) (j : Nat) (hj : j < f.nOut ks) (env : Nat → K) :
    ((lookup f.unit ks).out j).eval o env = (f.specT ks j).eval o env :=
  Family.walk_poly_sound ho (all_ok f hf) htm hw hk hks hj env

/-- rational leaves whenever neither selected leaf divides by zero. -/
theorem walk_frac_families_correct {K : Type} [Field K] [LinearOrder K] [IsStrictOrderedRing K] {o : Ops K} (ho : OrderedEqLike o)
    (f : Family) (hf : f ∈ families) (htm : f.treeMode = true) (hw : f.treeWalk = true) (hk : f.kind = .frac)
    (ks : List Nat) (hks : ks ∈ f.keys) (j : Nat) (hj : j < f.nOut ks) (env : Nat → K)
    (hd1 : (((lookup f.unit ks).out j).select o env).divOK o env) (hd2 : ((f.specT ks j).select o env).divOK o env) :
    ((lookup f.unit ks).out j).eval o env = (f.specT ks j).eval o env :=
  Family.walk_frac_sound ho (all_ok f hf) htm hw hk hks hj env hd1 hd2

end Glm.Props.C09
