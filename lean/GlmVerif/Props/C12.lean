import GlmVerif.Sem.Family
import GlmVerif.Spec.C12
import GlmVerif.Gen.C12
import GlmVerif.Props.C12.All
/-!
# C12 — geometric functions satisfy Euclidean identities

Table theorems (`Props/C12/T_*.lean`, kernel-checked against the model regenerated from /repo):
`dot` is the sum of products, `length = sqrt(dot(v,v))`, `distance(a,b) = length(b-a)`,
`cross` is the cofactor formula and orthogonal to both arguments, `normalize v = v / sqrt(v·v)`
and has unit length, `reflect(I,N) = I - 2(N·I)N` is length preserving and an involution for
unit `N`, `refract` selects `eta I - (eta (N·I) + sqrt k) N` iff `0 ≤ k` and the **literal zero
vector otherwise, evaluating no square root of a negative number** (vector and scalar
overloads), `faceforward` returns `N` iff `dot(Nref,I) < 0`, and the gtx helpers.
Below: what the tables mean, as statements about every ordered field / commutative ring.
-/
namespace Glm.Props.C12
open Glm Glm.Spec.C12 Glm.Gen.C12

variable {K : Type} [Field K] [LinearOrder K] [IsStrictOrderedRing K]

/-- **refract, all lengths 1–4, every component, every input, every ordered-field semantics**:
the traced code evaluates to the decision tree `0 ≤ k ? eta I - (eta (N·I) + sqrt k) N : 0`. -/
theorem refract_correct {o : Ops K} (ho : OrderedLike o) (Lk : Nat) (hL : [Lk] ∈ lens) (j : Nat) (hj : j < Lk)
    (env : Nat → K) :
    ((lookup "refract" [Lk]).out j).eval o env =
      if o.le (o.lit 0 1) ((kE Lk).eval o env) then (refrLeaf Lk j).eval o env else o.lit 0 1 := by
  have := Family.tree_poly_sound ho.toRingLike (all_ok f_refract (by simp [families])) rfl rfl rfl (ks := [Lk]) hL (j := j) hj env
  exact this

/-- **no NaN source on total internal reflection**: on the path the code takes, every `sqrt` argument
is non-negative — for the vector overloads *and* the scalar overload. -/
theorem refract_defined {o : Ops K} (ho : OrderedLike o) (Lk : Nat) (hL : [Lk] ∈ lens) (j : Nat) (hj : j < Lk)
    (env : Nat → K) : (((lookup "refract" [Lk]).out j).select o env).Defined o env :=
  Family.guard_sound ho (all_ok f_refract (by simp [families])) rfl (ks := [Lk]) hL (j := j) hj env

theorem srefract_defined {o : Ops K} (ho : OrderedLike o) (env : Nat → K) :
    (((lookup "srefract" []).out 0).select o env).Defined o env :=
  Family.guard_sound ho (all_ok f_srefract (by simp [families])) rfl (ks := []) (by decide) (j := 0) (by decide) env

/-- **faceforward**: `N` when `dot(Nref, I) < 0`, `-N` otherwise. -/
theorem faceforward_correct {o : Ops K} (ho : OrderedLike o) (Lk : Nat) (hL : [Lk] ∈ lens) (j : Nat) (hj : j < Lk)
    (env : Nat → K) :
    ((lookup "faceforward" [Lk]).out j).eval o env =
      if (dotE Lk (vv (2 * Lk)) (vv Lk)).eval o env < 0 then env j else - env j := by
  have := Family.tree_poly_sound ho.toRingLike (all_ok f_faceforward (by simp [families])) rfl rfl rfl (ks := [Lk]) hL (j := j) hj env
  rw [show lookup "faceforward" [Lk] = lookup f_faceforward.unit [Lk] from rfl, this]
  simp only [f_faceforward, Tree.eval, C.eval, E.eval, ho.lt, ho.lit, ho.neg, L, k0, List.getD_cons_zero, zero, vv,
    v, Nat.zero_add, Int.cast_zero, decide_eq_true_eq]

/-- **dot**: the sum of the component products, in every commutative ring. -/
theorem dot_correct {R : Type} [CommRing R] (Lk : Nat) (hL : [Lk] ∈ lens) (env : Nat → R) :
    ((lookup "dot" [Lk]).outE 0).eval (ringOps R) env = ((List.range Lk).map fun i => env i * env (Lk + i)).sum := by
  have := Family.poly_sound (R := R) ringOps_ringLike (all_ok f_dot (by simp [families])) rfl rfl (ks := [Lk]) hL (j := 0) Nat.zero_lt_one env
  refine this.trans ?_
  show (dotE Lk (vv 0) (vv Lk)).eval (ringOps R) env = _
  simp only [dotE, sumE_eval, List.map_map]
  congr 1; apply List.map_congr_left; intro i _
  simp [vv, v, E.eval]

/-- **|normalize v|² = 1** in every field of characteristic zero with a `sqrt` atom `s` such that
`s * s = v·v` and `s ≠ 0` (e.g. ℝ with `v ≠ 0`). -/
theorem normalize_unit_length {K' : Type} [Field K'] [CharZero K'] {o : Ops K'} (ho : FieldLike o)
    (Lk : Nat) (hL : [Lk] ∈ lens) (env : Nat → K')
    (hs : ((nrm Lk).eval o env) * ((nrm Lk).eval o env) = (dotE Lk (vv 0) (vv 0)).eval o env)
    (hne : (nrm Lk).eval o env ≠ 0) :
    (dotE Lk (lookup "normalize" [Lk]).outE (lookup "normalize" [Lk]).outE).eval o env = 1 := by
  have := (Family.fracMod_sound ho (all_ok f_normalize_unit (by simp [families])) rfl rfl (ks := [Lk]) hL (j := 0) Nat.zero_lt_one env
    (by intro p hp; simp only [f_normalize_unit, List.mem_singleton] at hp; subst hp
        simpa [E.eval, ho.mul, L, k0] using hs)
    (by intro a ha; simp only [f_normalize_unit, List.mem_singleton] at ha; subst ha
        refine ⟨?_, by simpa [L, k0] using hne⟩
        intro d hd; simp [nrm, sqrtE, E.divisors] at hd)).2
  refine this.trans ?_
  simp [f_normalize_unit, one, E.eval, ho.lit]

/-- non-vacuity: the refract units really branch and really contain a square root -/
example : (lookup "refract" [3]).outs.length = 3 ∧ ((lookup "refract" [3]).out 0).leaves.length = 2 := by
  decide +kernel

/-- **walk-mode families** (the code asks its questions in another order, or uses other but equivalent comparisons, than the
specification tree): for every input the traced tree and the specification tree evaluate alike, in every ordered field —
polynomial leaves unconditionally, -/
theorem walk_families_correct {K : Type} [Field K] [LinearOrder K] [IsStrictOrderedRing K] {o : Ops K} (ho : OrderedEqLike o)
    (f : Family) (hf : f ∈ families) (htm : f.treeMode = true) (hw : f.treeWalk = true) (hk : f.kind = .poly)
    (ks : List Nat) (hks : ks ∈ f.keys) (j : Nat) (hj : j < f.nOut ks) (env : Nat → K) :
    ((lookup f.unit ks).out j).eval o env = (f.specT ks j).eval o env :=
  Family.walk_poly_sound ho (all_ok f hf) htm hw hk hks hj env

/-- rational leaves whenever neither selected leaf divides by zero. -/
theorem walk_frac_families_correct {K : Type} [Field K] [LinearOrder K] [IsStrictOrderedRing K] {o : Ops K} (ho : OrderedEqLike o)
    (f : Family) (hf : f ∈ families) (htm : f.treeMode = true) (hw : f.treeWalk = true) (hk : f.kind = .frac)
    (ks : List Nat) (hks : ks ∈ f.keys) (j : Nat) (hj : j < f.nOut ks) (env : Nat → K)
    (hd1 : (((lookup f.unit ks).out j).select o env).divOK o env) (hd2 : ((f.specT ks j).select o env).divOK o env) :
    ((lookup f.unit ks).out j).eval o env = (f.specT ks j).eval o env :=
  Family.walk_frac_sound ho (all_ok f hf) htm hw hk hks hj env hd1 hd2

end Glm.Props.C12
