import GlmVerif.Sem.Family
import GlmVerif.Sem.NanWalk
import GlmVerif.Spec.C01
import GlmVerif.Gen.C01
import GlmVerif.Props.C01.All
import GlmVerif.Props.C01.RelAll
/-!
# C01 — vector functions/operators equal the scalar overload applied per component

`rel_all_ok` (kernel-checked on the model regenerated from /repo): for every component-wise function
(27 unary: abs sign floor trunc round ceil fract exp log exp2 log2 sqrt inversesqrt radians degrees and
the 12 trigonometric/hyperbolic ones; min max mod step pow atan(y,x); clamp mix smoothstep fma), every
operand-shape (all-vector and the documented scalar-broadcast overloads) and every length 1–4, the decision
tree of component `i` of the **traced vector overload** is the decision tree of the **traced scalar
overload** with argument `k` renamed to component `i` of argument `k` (or to the broadcast scalar):
same comparisons in the same order, same leaf expression (literally, or as polynomials over the same
atoms; `fma(a,b,c)` read as `a*b+c`, the composite-formula class).  `all_ok`: the arithmetic operators
(vec∘vec, vec∘scalar, scalar∘vec, vec∘vec1, vec1∘vec), compound assignments, unary minus, increment/decrement and the
relational functions compute the built-in operator per component.
-/
namespace Glm.Props.C01
open Glm Glm.Spec.C01 Glm.Gen.C01

theorem sameLeaf_sound {R : Type} [CommRing R] {o : Ops R} (ho : RingLike o) (env : Nat → R) (a b : E)
    (h : sameLeaf a b = true) : a.eval o env = b.eval o env := by
  simp only [sameLeaf, Bool.or_eq_true] at h
  rcases h with h | h
  · rw [eq_of_beq h]
  · exact polyEq_sound' ho h env

/-- **vector overload = scalar overload per component**: for every function of the table, operand shape,
length, component and input; in every ring-like semantics (where `fma(a,b,c) = a*b + c`). -/
theorem vector_eq_scalar {R : Type} [CommRing R] {o : Ops R} (ho : RingLike o)
    (hfma : ∀ a b c, o.call3 .fma a b c = o.add (o.mul a b) c)
    (f : RelFamily) (hf : f ∈ relFamilies) (hw : f.walk = false) (m : Nat) (hm : m ∈ f.masks) (L : Nat) (hL : L ∈ f.lens)
    (i : Nat) (hi : i < L) (env : Nat → R) :
    ((lookup f.vUnit [m, L]).out i).eval o env
      = ((lookup f.sUnit []).out 0).eval o (fun k => env (sigma m L i k)) := by
  have h := rel_all_ok
  simp only [List.all_eq_true] at h
  have h1 := h f hf
  simp only [RelFamily.ok, List.all_eq_true] at h1
  have h2 := h1 m hm L hL
  simp only [RelFamily.okAt, Bool.and_eq_true, List.all_eq_true, List.mem_range] at h2
  have h3 := h2.2 i hi
  rw [if_neg (by simp [hw])] at h3
  rw [← Tree.eval_rename o env (sigma m L i) ((lookup f.sUnit []).out 0)]
  split at h3
  · rw [← Tree.eval_expandFma o hfma env ((lookup f.vUnit [m, L]).out i),
        ← Tree.eval_expandFma o hfma env (((lookup f.sUnit []).out 0).rename (sigma m L i))]
    exact treeOK_sound ho env (sameLeaf_sound ho env) h3
  · exact treeOK_sound ho env (sameLeaf_sound ho env) h3

/-- **vector overload = scalar overload per component, walk class** (the NaN-aware selections `fmin`/`fmax` of three and four
arguments, whose two overloads test for NaN in different orders): for every input — NaN included — the two decision trees select the
same value, in **every** semantics in which a comparison with a NaN operand is false (`NanLike`, IEEE 754 §5.11; no other
assumption on the carrier, the operations or the order). -/
theorem vector_eq_scalar_walk {α : Type} {o : Ops α} (hn : NanLike o)
    (f : RelFamily) (hf : f ∈ relFamilies) (hw : f.walk = true) (m : Nat) (hm : m ∈ f.masks) (L : Nat) (hL : L ∈ f.lens)
    (i : Nat) (hi : i < L) (env : Nat → α) :
    ((lookup f.vUnit [m, L]).out i).eval o env
      = ((lookup f.sUnit []).out 0).eval o (fun k => env (sigma m L i k)) := by
  have h := rel_all_ok
  simp only [List.all_eq_true] at h
  have h1 := h f hf
  simp only [RelFamily.ok, List.all_eq_true] at h1
  have h2 := h1 m hm L hL
  simp only [RelFamily.okAt, Bool.and_eq_true, List.all_eq_true, List.mem_range] at h2
  have h3 := h2.2 i hi
  rw [if_pos hw] at h3
  rw [← Tree.eval_rename o env (sigma m L i) ((lookup f.sUnit []).out 0)]
  obtain ⟨path, _, hl⟩ := treeEqv_sound (impliedNan_sound hn env) _ _ h3 (by intro cb hcb; cases hcb)
  rw [Tree.eval_eq_select o env ((lookup f.vUnit [m, L]).out i),
      Tree.eval_eq_select o env (((lookup f.sUnit []).out 0).rename (sigma m L i))]
  rw [eq_of_beq hl]

/-- non-vacuity of `NanLike`: the naturals with one NaN adjoined -/
def natNanOps : Ops (Option Nat) :=
  { lit := fun n _ => some n.toNat, konst := fun _ => none, add := fun a _ => a, sub := fun a _ => a, mul := fun a _ => a, div := fun a _ => a,
    neg := id, call1 := fun _ a => a, call2 := fun _ a _ => a, call3 := fun _ a _ _ => a, band := fun a _ => a, bor := fun a _ => a,
    bxor := fun a _ => a, bnot := id, shl := fun a _ => a, shr := fun a _ => a, imod := fun a _ => a, cast := fun _ a => a,
    lt := fun a b => match a, b with | some x, some y => decide (x < y) | _, _ => false
    le := fun a b => match a, b with | some x, some y => decide (x ≤ y) | _, _ => false
    eq := fun a b => match a, b with | some x, some y => decide (x = y) | _, _ => false
    isnan := fun a => a.isNone, isinf := fun _ => false }
example : NanLike natNanOps := by
  constructor <;> intro x y h <;> cases x <;> cases y <;> simp_all [natNanOps]

/-- operators, compound assignments, unary minus, increments: every component is the built-in operator
applied to the operands' components (`syn`: literally; `+`,`*`: up to commuting the operands) -/
theorem operators_correct {R : Type} [CommRing R] {o : Ops R} (ho : RingLike o)
    (f : Family) (hf : f ∈ families) (htm : f.treeMode = false)
    (ks : List Nat) (hks : ks ∈ f.keys) (j : Nat) (hj : j < f.nOut ks) (env : Nat → R)
    (hk : f.kind = .syn ∨ f.kind = .poly) :
    (f.post ks (lookup f.unit ks).outE j).eval o env = (f.spec ks j).eval o env := by
  rcases hk with hk | hk
  · exact Family.syn_sound o (all_ok f hf) htm hk hks hj env
  · exact Family.poly_sound ho (all_ok f hf) htm hk hks hj env

/-- relational functions: component `j` of `lessThan(x, y)` is `1` exactly when `x[j] < y[j]`, etc. -/
theorem relational_correct {R : Type} [CommRing R] {o : Ops R} (ho : RingLike o)
    (f : Family) (hf : f ∈ families) (htm : f.treeMode = true) (hw : f.treeWalk = false) (hk : f.kind = .syn)
    (ks : List Nat) (hks : ks ∈ f.keys) (j : Nat) (hj : j < f.nOut ks) (env : Nat → R) :
    ((lookup f.unit ks).out j).eval o env = (f.specT ks j).eval o env :=
  Family.tree_syn_sound ho (all_ok f hf) htm hw hk hks hj env

/-- matrix versions: `abs(m)` per element, and per column `equal` = all elements equal, `notEqual` = some element differs, with an
epsilon `|a − b| ≤ ε` for all / `> ε` for some element of the column (scalar and per-column ε); compared in walk mode, so valid in
every ordered field.  (`mix` of matrices is in `operators_correct`: `x (1 − a) + y a` per element.) -/
theorem matrix_versions_correct {K : Type} [Field K] [LinearOrder K] [IsStrictOrderedRing K] {o : Ops K} (ho : OrderedEqLike o)
    (f : Family) (hf : f ∈ families) (htm : f.treeMode = true) (hw : f.treeWalk = true) (hk : f.kind = .poly)
    (ks : List Nat) (hks : ks ∈ f.keys) (j : Nat) (hj : j < f.nOut ks) (env : Nat → K) :
    ((lookup f.unit ks).out j).eval o env = (f.specT ks j).eval o env :=
  Family.walk_poly_sound ho (all_ok f hf) htm hw hk hks hj env

example : f_mequal_e.treeWalk = true ∧ [4, 4, 3] ∈ f_mequal_e.keys ∧
    ((lookup "mequal_e" [4, 4, 3]).out 0).leaves.length > 4 := by decide

/-- non-vacuity: the clamp units branch, and the table covers 37 functions -/
example : relFamilies.length = 73 ∧ ((lookup "v_clamp" [7, 4]).out 3).leaves.length > 1 ∧
    ((lookup "s_clamp" []).out 0).leaves.length > 1 := by decide +kernel

end Glm.Props.C01
