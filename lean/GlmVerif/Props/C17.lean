import GlmVerif.Sem.Family
import GlmVerif.Spec.C17
import GlmVerif.Gen.C17
import GlmVerif.Props.C17.All
/-!
# C17 — swizzles and constructors select and place exactly the named components

For the model regenerated from /repo (each swizzle is traced on distinct symbolic components, so "component
`j` of the result *is* source component `i`" holds for all values by construction, in every semantics):
* all 484 gtx/vec_swizzle free functions (every pattern of length 2–4 over a source of length 1–4,
  enumerated by `Spec.C17.codes`, independently of glm's own tables);
* all 481 member swizzles per letter set (xyzw, rgba, stpq) of sources of length 2–4, in **function mode**
  (`GLM_FORCE_SWIZZLE`) and in **operator mode** (`GLM_FORCE_SWIZZLE` + `GLM_FORCE_INTRINSICS`): 2886 units;
* assignment through every writable (duplicate-free) swizzle changes exactly the named components (74 units);
* vector constructors (scalar broadcast, all-scalars, vec1 in place of scalars, vector+scalar compositions,
  truncation of longer vectors), quaternion and matrix constructors fill components in argument order.
-/
namespace Glm.Props.C17
open Glm Glm.Spec.C17 Glm.Gen.C17

/-- every family of C17, in every semantics whatsoever (`syn`: the traced expression *is* the named variable) -/
theorem families_correct {α : Type} (o : Ops α) (f : Family) (hf : f ∈ families) (htm : f.treeMode = false)
    (hk : f.kind = .syn) (ks : List Nat) (hks : ks ∈ f.keys) (j : Nat) (hj : j < f.nOut ks) (env : Nat → α) :
    (f.post ks (lookup f.unit ks).outE j).eval o env = (f.spec ks j).eval o env :=
  Family.syn_sound o (all_ok f hf) htm hk hks hj env

/-- instance: the free function for pattern `code` over a source of length `L` returns, in component `j`,
source component `digit code j` — for every value of every component -/
theorem free_swizzle_correct {α : Type} (o : Ops α) (L n code : Nat) (hk : [L, n, code] ∈ freeKeys)
    (j : Nat) (hj : j < n) (env : Nat → α) :
    ((lookup "swzf" [L, n, code]).outE j).eval o env = env (digit code j) :=
  Family.syn_sound o (all_ok f_swzf (by simp [families])) rfl rfl (ks := [L, n, code]) hk (j := j) hj env

/-- non-vacuity and size of the enumeration -/
example : freeKeys.length = 484 ∧ memKeys.length = 481 ∧ asgKeys.length = 74 ∧
    (lookup "swzf" [4, 3, 27]).outs.length = 3 ∧ digit 27 0 = 3 ∧ digit 27 1 = 2 ∧ digit 27 2 = 1 := by decide +kernel

end Glm.Props.C17
