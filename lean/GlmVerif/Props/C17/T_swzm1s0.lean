import GlmVerif.Spec.C17
import GlmVerif.Gen.C17.swzm1s0
/-! table check of family `swzm1s0` against the model of its units generated from /repo (kernel evaluation) -/
namespace Glm.Props.C17
open Glm Glm.Spec.C17 Glm.Gen.C17
set_option maxHeartbeats 4000000 in
theorem swzm1s0_ok : f_swzm1s0.ok (fun _ ks => swzm1s0_L ks) = true := by decide +kernel
end Glm.Props.C17
