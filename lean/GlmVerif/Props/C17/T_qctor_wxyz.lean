import GlmVerif.Spec.C17
import GlmVerif.Gen.C17.qctor_wxyz
/-! table check of family `qctor_wxyz` against the model of its units generated from /repo (kernel evaluation) -/
namespace Glm.Props.C17
open Glm Glm.Spec.C17 Glm.Gen.C17
set_option maxHeartbeats 4000000 in
theorem qctor_wxyz_ok : f_qctor_wxyz.ok (fun _ ks => qctor_wxyz_L ks) = true := by decide +kernel
end Glm.Props.C17
