import GlmVerif.Spec.C17
import GlmVerif.Gen.C17.qctor_sv
/-! table check of family `qctor_sv` against the model of its units generated from /repo (kernel evaluation) -/
namespace Glm.Props.C17
open Glm Glm.Spec.C17 Glm.Gen.C17
set_option maxHeartbeats 4000000 in
theorem qctor_sv_ok : f_qctor_sv.ok (fun _ ks => qctor_sv_L ks) = true := by decide +kernel
end Glm.Props.C17
