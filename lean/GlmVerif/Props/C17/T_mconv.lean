import GlmVerif.Spec.C17
import GlmVerif.Gen.C17.mconv
/-! table check of family `mconv` against the model of its units generated from /repo (kernel evaluation) -/
namespace Glm.Props.C17
open Glm Glm.Spec.C17 Glm.Gen.C17
set_option maxHeartbeats 4000000 in
theorem mconv_ok : f_mconv.ok (fun _ ks => mconv_L ks) = true := by decide +kernel
end Glm.Props.C17
