import GlmVerif.Gen.C17
import GlmVerif.Props.C17.T_swzf
import GlmVerif.Props.C17.T_swzm1s0
import GlmVerif.Props.C17.T_swzm1s1
import GlmVerif.Props.C17.T_swzm1s2
import GlmVerif.Props.C17.T_swzm2s0
import GlmVerif.Props.C17.T_swzm2s1
import GlmVerif.Props.C17.T_swzm2s2
import GlmVerif.Props.C17.T_swza
import GlmVerif.Props.C17.T_ctor
import GlmVerif.Props.C17.T_qctor_wxyz
import GlmVerif.Props.C17.T_qctor_sv
import GlmVerif.Props.C17.T_mctor
import GlmVerif.Props.C17.T_mctorc
import GlmVerif.Props.C17.T_mdiag
import GlmVerif.Props.C17.T_mconv
/-! every family table of C17 holds for the model generated from the current /repo -/
namespace Glm.Props.C17
open Glm Glm.Spec.C17 Glm.Gen.C17
theorem all_ok : ∀ f ∈ families, f.ok lookup = true := by
  simp only [families, List.mem_cons, List.not_mem_nil, or_false, forall_eq_or_imp, forall_eq]
  exact ⟨(Family.ok_congr f_swzf (fun ks => by rw [show f_swzf.unit = "swzf" from rfl, lookup_swzf])).trans swzf_ok,
    (Family.ok_congr f_swzm1s0 (fun ks => by rw [show f_swzm1s0.unit = "swzm1s0" from rfl, lookup_swzm1s0])).trans swzm1s0_ok,
    (Family.ok_congr f_swzm1s1 (fun ks => by rw [show f_swzm1s1.unit = "swzm1s1" from rfl, lookup_swzm1s1])).trans swzm1s1_ok,
    (Family.ok_congr f_swzm1s2 (fun ks => by rw [show f_swzm1s2.unit = "swzm1s2" from rfl, lookup_swzm1s2])).trans swzm1s2_ok,
    (Family.ok_congr f_swzm2s0 (fun ks => by rw [show f_swzm2s0.unit = "swzm2s0" from rfl, lookup_swzm2s0])).trans swzm2s0_ok,
    (Family.ok_congr f_swzm2s1 (fun ks => by rw [show f_swzm2s1.unit = "swzm2s1" from rfl, lookup_swzm2s1])).trans swzm2s1_ok,
    (Family.ok_congr f_swzm2s2 (fun ks => by rw [show f_swzm2s2.unit = "swzm2s2" from rfl, lookup_swzm2s2])).trans swzm2s2_ok,
    (Family.ok_congr f_swza (fun ks => by rw [show f_swza.unit = "swza" from rfl, lookup_swza])).trans swza_ok,
    (Family.ok_congr f_ctor (fun ks => by rw [show f_ctor.unit = "ctor" from rfl, lookup_ctor])).trans ctor_ok,
    (Family.ok_congr f_qctor_wxyz (fun ks => by rw [show f_qctor_wxyz.unit = "qctor_wxyz" from rfl, lookup_qctor_wxyz])).trans qctor_wxyz_ok,
    (Family.ok_congr f_qctor_sv (fun ks => by rw [show f_qctor_sv.unit = "qctor_sv" from rfl, lookup_qctor_sv])).trans qctor_sv_ok,
    (Family.ok_congr f_mctor (fun ks => by rw [show f_mctor.unit = "mctor" from rfl, lookup_mctor])).trans mctor_ok,
    (Family.ok_congr f_mctorc (fun ks => by rw [show f_mctorc.unit = "mctorc" from rfl, lookup_mctorc])).trans mctorc_ok,
    (Family.ok_congr f_mdiag (fun ks => by rw [show f_mdiag.unit = "mdiag" from rfl, lookup_mdiag])).trans mdiag_ok,
    (Family.ok_congr f_mconv (fun ks => by rw [show f_mconv.unit = "mconv" from rfl, lookup_mconv])).trans mconv_ok⟩
end Glm.Props.C17
