import GlmVerif.Spec.C17
import GlmVerif.Gen.C17.swzm2s1
/-! table check of family `swzm2s1` against the model of its units generated from /repo (kernel evaluation) -/
namespace Glm.Props.C17
open Glm Glm.Spec.C17 Glm.Gen.C17
set_option maxHeartbeats 4000000 in
theorem swzm2s1_ok : f_swzm2s1.ok (fun _ ks => swzm2s1_L ks) = true := by decide +kernel
end Glm.Props.C17
