import GlmVerif.Spec.C17
import GlmVerif.Gen.C17.mdiag
/-! table check of family `mdiag` against the model of its units generated from /repo (kernel evaluation) -/
namespace Glm.Props.C17
open Glm Glm.Spec.C17 Glm.Gen.C17
set_option maxHeartbeats 4000000 in
theorem mdiag_ok : f_mdiag.ok (fun _ ks => mdiag_L ks) = true := by decide +kernel
end Glm.Props.C17
