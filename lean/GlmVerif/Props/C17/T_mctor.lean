import GlmVerif.Spec.C17
import GlmVerif.Gen.C17.mctor
/-! table check of family `mctor` against the model of its units generated from /repo (kernel evaluation) -/
namespace Glm.Props.C17
open Glm Glm.Spec.C17 Glm.Gen.C17
set_option maxHeartbeats 4000000 in
theorem mctor_ok : f_mctor.ok (fun _ ks => mctor_L ks) = true := by decide +kernel
end Glm.Props.C17
