import GlmVerif.Spec.C17
import GlmVerif.Gen.C17.ctor
/-! table check of family `ctor` against the model of its units generated from /repo (kernel evaluation) -/
namespace Glm.Props.C17
open Glm Glm.Spec.C17 Glm.Gen.C17
set_option maxHeartbeats 4000000 in
theorem ctor_ok : f_ctor.ok (fun _ ks => ctor_L ks) = true := by decide +kernel
end Glm.Props.C17
