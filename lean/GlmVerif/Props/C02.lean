import GlmVerif.Sem.Field
import GlmVerif.Spec.C02
import GlmVerif.Gen.C02
/-!
# C02 — matrix operators/functions implement column-major linear algebra

`Gen.C02` is regenerated from /repo on every run.  Each `*_ok` theorem is a
kernel-evaluated table check (`decide +kernel`) that every traced unit of the
family is decision-free and has the same polynomial / rational normal form as the
textbook definition in `Spec.C02`; the corollaries below lift the tables to
statements about every commutative ring (ℤ, ℤ/2^w = machine integers, ℚ, ℝ) or
every field of characteristic zero, for every value of every entry.
-/
namespace Glm.Props.C02
open Glm Glm.Spec.C02 Glm.Gen.C02

theorem mul_ok : (fam "mul").ok lookup = true := by decide +kernel
theorem asgmul_m_ok : (fam "asgmul_m").ok lookup = true := by decide +kernel
theorem mulmv_ok : (fam "mulmv").ok lookup = true := by decide +kernel
theorem mulvm_ok : (fam "mulvm").ok lookup = true := by decide +kernel
theorem transpose_ok : (fam "transpose").ok lookup = true := by decide +kernel
theorem outer_ok : (fam "outer").ok lookup = true := by decide +kernel
theorem compmult_ok : (fam "compmult").ok lookup = true := by decide +kernel
theorem addmm_ok : (fam "addmm").ok lookup = true := by decide +kernel
theorem submm_ok : (fam "submm").ok lookup = true := by decide +kernel
theorem addms_ok : (fam "addms").ok lookup = true := by decide +kernel
theorem addsm_ok : (fam "addsm").ok lookup = true := by decide +kernel
theorem subms_ok : (fam "subms").ok lookup = true := by decide +kernel
theorem subsm_ok : (fam "subsm").ok lookup = true := by decide +kernel
theorem mulms_ok : (fam "mulms").ok lookup = true := by decide +kernel
theorem mulsm_ok : (fam "mulsm").ok lookup = true := by decide +kernel
theorem divms_ok : (fam "divms").ok lookup = true := by decide +kernel
theorem divsm_ok : (fam "divsm").ok lookup = true := by decide +kernel
theorem negm_ok : (fam "negm").ok lookup = true := by decide +kernel
theorem posm_ok : (fam "posm").ok lookup = true := by decide +kernel
theorem preinc_ok : (fam "preinc").ok lookup = true := by decide +kernel
theorem predec_ok : (fam "predec").ok lookup = true := by decide +kernel
theorem postinc_ok : (fam "postinc").ok lookup = true := by decide +kernel
theorem postdec_ok : (fam "postdec").ok lookup = true := by decide +kernel
theorem asgadd_m_ok : (fam "asgadd_m").ok lookup = true := by decide +kernel
theorem asgsub_m_ok : (fam "asgsub_m").ok lookup = true := by decide +kernel
theorem asgadd_s_ok : (fam "asgadd_s").ok lookup = true := by decide +kernel
theorem asgsub_s_ok : (fam "asgsub_s").ok lookup = true := by decide +kernel
theorem asgmul_s_ok : (fam "asgmul_s").ok lookup = true := by decide +kernel
theorem asgdiv_s_ok : (fam "asgdiv_s").ok lookup = true := by decide +kernel
theorem asg_m_ok : (fam "asg_m").ok lookup = true := by decide +kernel
theorem row_get_ok : (fam "row_get").ok lookup = true := by decide +kernel
theorem row_set_ok : (fam "row_set").ok lookup = true := by decide +kernel
theorem col_get_ok : (fam "col_get").ok lookup = true := by decide +kernel
theorem col_set_ok : (fam "col_set").ok lookup = true := by decide +kernel
theorem ctor_diag_ok : (fam "ctor_diag").ok lookup = true := by decide +kernel
theorem conv_ok : (fam "conv").ok lookup = true := by decide +kernel

end Glm.Props.C02
