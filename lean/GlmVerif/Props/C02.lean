import GlmVerif.Sem.Family
import GlmVerif.Spec.C02
import GlmVerif.Gen.C02
import GlmVerif.Props.C02.All
/-!
# C02 — matrix operators/functions implement column-major linear algebra

`Gen.C02` is regenerated from /repo on every run.  Each `*_ok` theorem is a
kernel-evaluated table check (`decide +kernel`) that every traced unit of the
family is decision-free and has the same polynomial / rational normal form as the
textbook definition in `Spec.C02`; the corollaries below lift the tables to
statements about every commutative ring (ℤ, ℤ/2^w = machine integers, ℚ, ℝ) or
every field of characteristic zero, for every value of every entry.
-/
namespace Glm.Props.C02
open Glm Glm.Spec.C02 Glm.Gen.C02


/-! ## The statements in mathematical form

`A k r := env (k*R + r)` is entry (column k, row r) of the left operand, `B c k := env (C*R + c*C + k)`
of the right one (layout of `trace/units/common.hpp`).  `R'` is any commutative ring: ℤ, ℚ, ℝ, and
`BitVec w` / `ZMod (2^w)`, i.e. C++ unsigned and wrap-around signed machine arithmetic. -/

variable {R' : Type} [CommRing R']

/-- **matrix * matrix, all 27 shape combinations, every entry, every value**:
`(A*B)[c][r] = Σ_k A[k][r] * B[c][k]`. -/
theorem matmul_correct (C R C2 : Nat) (hs : [C, R, C2] ∈ shapes3) (c r : Nat) (hc : c < C2) (hr : r < R)
    (env : Nat → R') :
    ((lookup "mul" [C, R, C2]).out (c * R + r)).eval (ringOps R') env
      = ((List.range C).map fun k => env (k * R + r) * env (C * R + c * C + k)).sum := by
  have hj : c * R + r < f_mul.nOut [C, R, C2] := by
    show c * R + r < C2 * R
    calc c * R + r < c * R + R := by omega
      _ = (c + 1) * R := by ring
      _ ≤ C2 * R := Nat.mul_le_mul_right R hc
  have := Family.poly_sound (R := R') ringOps_ringLike (all_ok f_mul (by simp [families])) rfl rfl (ks := [C, R, C2]) hs hj env
  rw [show lookup "mul" [C, R, C2] = lookup f_mul.unit [C, R, C2] from rfl, Family.out_eval _ (all_ok f_mul (by simp [families])) rfl hs]
  refine this.trans ?_
  show (mul C R C2 (c * R + r)).eval (ringOps R') env = _
  have h1 : (c * R + r) % R = r := by rw [Nat.mul_comm, Nat.mul_add_mod]; exact Nat.mod_eq_of_lt hr
  have h2 : (c * R + r) / R = c := by
    rw [Nat.mul_comm, Nat.mul_add_div (by omega), Nat.div_eq_of_lt hr]; rfl
  simp only [mul, sumE_eval, List.map_map, h1, h2]
  rfl

/-- **matrix * vector**: `(M*v)[r] = Σ_c M[c][r] * v[c]`. -/
theorem matvec_correct (C R : Nat) (hs : [C, R] ∈ shapes) (r : Nat) (hr : r < R) (env : Nat → R') :
    ((lookup "mulmv" [C, R]).out r).eval (ringOps R') env
      = ((List.range C).map fun c => env (c * R + r) * env (C * R + c)).sum := by
  have := Family.poly_sound (R := R') ringOps_ringLike (all_ok f_mulmv (by simp [families])) rfl rfl (ks := [C, R]) hs (j := r) hr env
  rw [show lookup "mulmv" [C, R] = lookup f_mulmv.unit [C, R] from rfl, Family.out_eval _ (all_ok f_mulmv (by simp [families])) rfl hs]
  refine this.trans ?_
  show (mulmv C R r).eval (ringOps R') env = _
  simp only [mulmv, sumE_eval, List.map_map]
  rfl

/-- **vector * matrix**: `(v*M)[c] = Σ_r v[r] * M[c][r]`. -/
theorem vecmat_correct (C R : Nat) (hs : [C, R] ∈ shapes) (c : Nat) (hc : c < C) (env : Nat → R') :
    ((lookup "mulvm" [C, R]).out c).eval (ringOps R') env
      = ((List.range R).map fun r => env r * env (R + c * R + r)).sum := by
  have := Family.poly_sound (R := R') ringOps_ringLike (all_ok f_mulvm (by simp [families])) rfl rfl (ks := [C, R]) hs (j := c) hc env
  rw [show lookup "mulvm" [C, R] = lookup f_mulvm.unit [C, R] from rfl, Family.out_eval _ (all_ok f_mulvm (by simp [families])) rfl hs]
  refine this.trans ?_
  show (mulvm C R c).eval (ringOps R') env = _
  simp only [mulvm, sumE_eval, List.map_map]
  rfl

/-- **shape conversion** `mat<C,R>(mat<C2,R2>)`, all 81 pairs, in *every* semantics (float, integer, …):
the overlapping block is copied, the rest is the identity. -/
theorem conv_correct {α : Type} (o : Ops α) (C R C2 R2 : Nat) (hs : [C, R, C2, R2] ∈ shapes4)
    (c r : Nat) (hc : c < C) (hr : r < R) (env : Nat → α) :
    ((lookup "conv" [C, R, C2, R2]).out (c * R + r)).eval o env
      = if c < C2 ∧ r < R2 then env (c * R2 + r) else if c = r then o.lit 1 1 else o.lit 0 1 := by
  have hj : c * R + r < f_conv.nOut [C, R, C2, R2] := by
    show c * R + r < C * R
    calc c * R + r < c * R + R := by omega
      _ = (c + 1) * R := by ring
      _ ≤ C * R := Nat.mul_le_mul_right R hc
  have := Family.syn_sound o (all_ok f_conv (by simp [families])) rfl rfl (ks := [C, R, C2, R2]) hs hj env
  rw [show lookup "conv" [C, R, C2, R2] = lookup f_conv.unit [C, R, C2, R2] from rfl, Family.out_eval _ (all_ok f_conv (by simp [families])) rfl hs]
  refine this.trans ?_
  show (conv C R C2 R2 (c * R + r)).eval o env = _
  have h1 : (c * R + r) % R = r := by rw [Nat.mul_comm, Nat.mul_add_mod]; exact Nat.mod_eq_of_lt hr
  have h2 : (c * R + r) / R = c := by
    rw [Nat.mul_comm, Nat.mul_add_div (by omega), Nat.div_eq_of_lt hr]; rfl
  simp only [conv, h1, h2]
  split
  · rfl
  · split <;> rfl

/-- **the whole polynomial part of C02 at once**: every output component of every traced unit of a
`poly` family equals its textbook definition in every commutative ring, for every input. -/
theorem poly_families_correct (f : Family) (hf : f ∈ families) (htm : f.treeMode = false) (hk : f.kind = .poly)
    (ks : List Nat) (hks : ks ∈ f.keys) (j : Nat) (hj : j < f.nOut ks) (env : Nat → R') :
    (f.post ks (lookup f.unit ks).outE j).eval (ringOps R') env = (f.spec ks j).eval (ringOps R') env :=
  Family.poly_sound ringOps_ringLike (all_ok f hf) htm hk hks hj env

/-- the same for the `syn` families (access, assignment, conversions, constructors), in every semantics -/
theorem syn_families_correct {α : Type} (o : Ops α) (f : Family) (hf : f ∈ families) (htm : f.treeMode = false) (hk : f.kind = .syn)
    (ks : List Nat) (hks : ks ∈ f.keys) (j : Nat) (hj : j < f.nOut ks) (env : Nat → α) :
    (f.post ks (lookup f.unit ks).outE j).eval o env = (f.spec ks j).eval o env :=
  Family.syn_sound o (all_ok f hf) htm hk hks hj env

/-- and for division by / of a scalar, in every field of characteristic zero, whenever the divisors
the code uses are non-zero -/
theorem frac_families_correct {K : Type} [Field K] [CharZero K] (f : Family) (hf : f ∈ families) (htm : f.treeMode = false)
    (hk : f.kind = .frac) (hdf : f.divFree = false) (ks : List Nat) (hks : ks ∈ f.keys) (j : Nat) (hj : j < f.nOut ks)
    (env : Nat → K)
    (hall : ∀ a ∈ f.allowed ks, a.divOK (fieldOps K) env ∧ a.eval (fieldOps K) env ≠ 0) :
    (f.post ks (lookup f.unit ks).outE j).eval (fieldOps K) env = (f.spec ks j).eval (fieldOps K) env :=
  (Family.frac_sound fieldOps_fieldLike (all_ok f hf) htm hk hdf hks hj env hall).2

/-- non-vacuity: the tables are not empty and the units are not the default unit -/
example : (lookup "mul" [4, 3, 4]).nIn = 28 ∧ (lookup "mul" [4, 3, 4]).outs.length = 12 ∧
    f_mul.keys.length = 27 ∧ f_conv.keys.length = 81 := by decide +kernel

end Glm.Props.C02
