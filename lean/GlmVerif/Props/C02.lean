import GlmVerif.Sem.Family
import GlmVerif.Spec.C02
import GlmVerif.Gen.C02
/-!
# C02 — matrix operators/functions implement column-major linear algebra

`Gen.C02` is regenerated from /repo on every run.  Each `*_ok` theorem is a
kernel-evaluated table check (`decide +kernel`) that every traced unit of the
family is decision-free and has the same polynomial / rational normal form as the
textbook definition in `Spec.C02`; the corollaries below lift the tables to
statements about every commutative ring (ℤ, ℤ/2^w = machine integers, ℚ, ℝ) or
every field of characteristic zero, for every value of every entry.
-/
namespace Glm.Props.C02
open Glm Glm.Spec.C02 Glm.Gen.C02

theorem mul_ok : f_mul.ok lookup = true := by decide +kernel
theorem asgmul_m_ok : f_asgmul_m.ok lookup = true := by decide +kernel
theorem mulmv_ok : f_mulmv.ok lookup = true := by decide +kernel
theorem mulvm_ok : f_mulvm.ok lookup = true := by decide +kernel
theorem transpose_ok : f_transpose.ok lookup = true := by decide +kernel
theorem outer_ok : f_outer.ok lookup = true := by decide +kernel
theorem compmult_ok : f_compmult.ok lookup = true := by decide +kernel
theorem addmm_ok : f_addmm.ok lookup = true := by decide +kernel
theorem submm_ok : f_submm.ok lookup = true := by decide +kernel
theorem addms_ok : f_addms.ok lookup = true := by decide +kernel
theorem addsm_ok : f_addsm.ok lookup = true := by decide +kernel
theorem subms_ok : f_subms.ok lookup = true := by decide +kernel
theorem subsm_ok : f_subsm.ok lookup = true := by decide +kernel
theorem mulms_ok : f_mulms.ok lookup = true := by decide +kernel
theorem mulsm_ok : f_mulsm.ok lookup = true := by decide +kernel
theorem divms_ok : f_divms.ok lookup = true := by decide +kernel
theorem divsm_ok : f_divsm.ok lookup = true := by decide +kernel
theorem negm_ok : f_negm.ok lookup = true := by decide +kernel
theorem posm_ok : f_posm.ok lookup = true := by decide +kernel
theorem preinc_ok : f_preinc.ok lookup = true := by decide +kernel
theorem predec_ok : f_predec.ok lookup = true := by decide +kernel
theorem postinc_ok : f_postinc.ok lookup = true := by decide +kernel
theorem postdec_ok : f_postdec.ok lookup = true := by decide +kernel
theorem asgadd_m_ok : f_asgadd_m.ok lookup = true := by decide +kernel
theorem asgsub_m_ok : f_asgsub_m.ok lookup = true := by decide +kernel
theorem asgadd_s_ok : f_asgadd_s.ok lookup = true := by decide +kernel
theorem asgsub_s_ok : f_asgsub_s.ok lookup = true := by decide +kernel
theorem asgmul_s_ok : f_asgmul_s.ok lookup = true := by decide +kernel
theorem asgdiv_s_ok : f_asgdiv_s.ok lookup = true := by decide +kernel
theorem asg_m_ok : f_asg_m.ok lookup = true := by decide +kernel
theorem row_get_ok : f_row_get.ok lookup = true := by decide +kernel
theorem row_set_ok : f_row_set.ok lookup = true := by decide +kernel
theorem col_get_ok : f_col_get.ok lookup = true := by decide +kernel
theorem col_set_ok : f_col_set.ok lookup = true := by decide +kernel
theorem ctor_diag_ok : f_ctor_diag.ok lookup = true := by decide +kernel
theorem conv_ok : f_conv.ok lookup = true := by decide +kernel

/-- every family table of C02 holds for the model generated from the current /repo -/
theorem all_ok : ∀ f ∈ families, f.ok lookup = true := by
  simp only [families, List.mem_cons, List.not_mem_nil, or_false, forall_eq_or_imp, forall_eq]
  exact ⟨mul_ok, asgmul_m_ok, mulmv_ok, mulvm_ok, transpose_ok, outer_ok, compmult_ok, addmm_ok, submm_ok, addms_ok, addsm_ok, subms_ok, subsm_ok, mulms_ok, mulsm_ok, divms_ok, divsm_ok, negm_ok, posm_ok, preinc_ok, predec_ok, postinc_ok, postdec_ok, asgadd_m_ok, asgsub_m_ok, asgadd_s_ok, asgsub_s_ok, asgmul_s_ok, asgdiv_s_ok, asg_m_ok, row_get_ok, row_set_ok, col_get_ok, col_set_ok, ctor_diag_ok, conv_ok⟩

/-! ## The statements in mathematical form

`A k r := env (k*R + r)` is entry (column k, row r) of the left operand, `B c k := env (C*R + c*C + k)`
of the right one (layout of `trace/units/common.hpp`).  `R'` is any commutative ring: ℤ, ℚ, ℝ, and
`BitVec w` / `ZMod (2^w)`, i.e. C++ unsigned and wrap-around signed machine arithmetic. -/

variable {R' : Type} [CommRing R']

/-- **matrix * matrix, all 27 shape combinations, every entry, every value**:
`(A*B)[c][r] = Σ_k A[k][r] * B[c][k]`. -/
theorem matmul_correct (C R C2 : Nat) (hs : [C, R, C2] ∈ shapes3) (c r : Nat) (hc : c < C2) (hr : r < R)
    (env : Nat → R') :
    ((lookup "mul" [C, R, C2]).out (c * R + r)).eval (ringOps R') env
      = ((List.range C).map fun k => env (k * R + r) * env (C * R + c * C + k)).sum := by
  have hj : c * R + r < f_mul.nOut [C, R, C2] := by
    show c * R + r < C2 * R
    calc c * R + r < c * R + R := by omega
      _ = (c + 1) * R := by ring
      _ ≤ C2 * R := Nat.mul_le_mul_right R hc
  have := Family.poly_sound (R := R') ringOps_ringLike mul_ok rfl (ks := [C, R, C2]) hs hj env
  rw [show f_mul.name = "mul" from rfl] at this
  rw [this]
  show (mul C R C2 (c * R + r)).eval (ringOps R') env = _
  have h1 : (c * R + r) % R = r := by rw [Nat.mul_comm, Nat.mul_add_mod]; exact Nat.mod_eq_of_lt hr
  have h2 : (c * R + r) / R = c := by
    rw [Nat.mul_comm, Nat.mul_add_div (by omega), Nat.div_eq_of_lt hr]; rfl
  simp only [mul, sumE_eval, List.map_map, h1, h2]
  rfl

/-- **matrix * vector**: `(M*v)[r] = Σ_c M[c][r] * v[c]`. -/
theorem matvec_correct (C R : Nat) (hs : [C, R] ∈ shapes) (r : Nat) (hr : r < R) (env : Nat → R') :
    ((lookup "mulmv" [C, R]).out r).eval (ringOps R') env
      = ((List.range C).map fun c => env (c * R + r) * env (C * R + c)).sum := by
  have := Family.poly_sound (R := R') ringOps_ringLike mulmv_ok rfl (ks := [C, R]) hs (j := r) hr env
  rw [show f_mulmv.name = "mulmv" from rfl] at this
  rw [this]
  show (mulmv C R r).eval (ringOps R') env = _
  simp only [mulmv, sumE_eval, List.map_map]
  rfl

/-- **vector * matrix**: `(v*M)[c] = Σ_r v[r] * M[c][r]`. -/
theorem vecmat_correct (C R : Nat) (hs : [C, R] ∈ shapes) (c : Nat) (hc : c < C) (env : Nat → R') :
    ((lookup "mulvm" [C, R]).out c).eval (ringOps R') env
      = ((List.range R).map fun r => env r * env (R + c * R + r)).sum := by
  have := Family.poly_sound (R := R') ringOps_ringLike mulvm_ok rfl (ks := [C, R]) hs (j := c) hc env
  rw [show f_mulvm.name = "mulvm" from rfl] at this
  rw [this]
  show (mulvm C R c).eval (ringOps R') env = _
  simp only [mulvm, sumE_eval, List.map_map]
  rfl

/-- **shape conversion** `mat<C,R>(mat<C2,R2>)`, all 81 pairs, in *every* semantics (float, integer, …):
the overlapping block is copied, the rest is the identity. -/
theorem conv_correct {α : Type} (o : Ops α) (C R C2 R2 : Nat) (hs : [C, R, C2, R2] ∈ shapes4)
    (c r : Nat) (hc : c < C) (hr : r < R) (env : Nat → α) :
    ((lookup "conv" [C, R, C2, R2]).out (c * R + r)).eval o env
      = if c < C2 ∧ r < R2 then env (c * R2 + r) else if c = r then o.lit 1 1 else o.lit 0 1 := by
  have hj : c * R + r < f_conv.nOut [C, R, C2, R2] := by
    show c * R + r < C * R
    calc c * R + r < c * R + R := by omega
      _ = (c + 1) * R := by ring
      _ ≤ C * R := Nat.mul_le_mul_right R hc
  have := Family.syn_sound o conv_ok rfl (ks := [C, R, C2, R2]) hs hj env
  rw [show f_conv.name = "conv" from rfl] at this
  rw [this]
  show (conv C R C2 R2 (c * R + r)).eval o env = _
  have h1 : (c * R + r) % R = r := by rw [Nat.mul_comm, Nat.mul_add_mod]; exact Nat.mod_eq_of_lt hr
  have h2 : (c * R + r) / R = c := by
    rw [Nat.mul_comm, Nat.mul_add_div (by omega), Nat.div_eq_of_lt hr]; rfl
  simp only [conv, h1, h2]
  split
  · rfl
  · split <;> rfl

/-- **the whole polynomial part of C02 at once**: every output component of every traced unit of a
`poly` family equals its textbook definition in every commutative ring, for every input. -/
theorem poly_families_correct (f : Family) (hf : f ∈ families) (hk : f.kind = .poly)
    (ks : List Nat) (hks : ks ∈ f.keys) (j : Nat) (hj : j < f.nOut ks) (env : Nat → R') :
    ((lookup f.name ks).out j).eval (ringOps R') env = (f.spec ks j).eval (ringOps R') env :=
  Family.poly_sound ringOps_ringLike (all_ok f hf) hk hks hj env

/-- the same for the `syn` families (access, assignment, conversions, constructors), in every semantics -/
theorem syn_families_correct {α : Type} (o : Ops α) (f : Family) (hf : f ∈ families) (hk : f.kind = .syn)
    (ks : List Nat) (hks : ks ∈ f.keys) (j : Nat) (hj : j < f.nOut ks) (env : Nat → α) :
    ((lookup f.name ks).out j).eval o env = (f.spec ks j).eval o env :=
  Family.syn_sound o (all_ok f hf) hk hks hj env

/-- and for division by / of a scalar, in every field of characteristic zero, whenever the divisors
the code uses are non-zero -/
theorem frac_families_correct {K : Type} [Field K] [CharZero K] (f : Family) (hf : f ∈ families)
    (hk : f.kind = .frac) (ks : List Nat) (hks : ks ∈ f.keys) (j : Nat) (hj : j < f.nOut ks)
    (env : Nat → K)
    (hall : ∀ a ∈ f.allowed ks, a.divOK (fieldOps K) env ∧ a.eval (fieldOps K) env ≠ 0) :
    ((lookup f.name ks).out j).eval (fieldOps K) env = (f.spec ks j).eval (fieldOps K) env :=
  Family.frac_sound fieldOps_fieldLike (all_ok f hf) hk hks hj env hall

/-- non-vacuity: the tables are not empty and the units are not the default unit -/
example : (lookup "mul" [4, 3, 4]).nIn = 28 ∧ (lookup "mul" [4, 3, 4]).outs.length = 12 ∧
    f_mul.keys.length = 27 ∧ f_conv.keys.length = 81 := by decide +kernel

end Glm.Props.C02
