import GlmVerif.Spec.C09
import GlmVerif.Gen.C09.translate2d
/-! table check of family `translate2d` against the model of its units generated from /repo (kernel evaluation) -/
namespace Glm.Props.C09
open Glm Glm.Spec.C09 Glm.Gen.C09
set_option maxHeartbeats 4000000 in
theorem translate2d_ok : f_translate2d.ok (fun _ ks => translate2d_L ks) = true := by decide +kernel
end Glm.Props.C09
