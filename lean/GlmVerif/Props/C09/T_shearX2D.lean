import GlmVerif.Spec.C09
import GlmVerif.Gen.C09.shearX2D
/-! table check of family `shearX2D` against the model of its units generated from /repo (kernel evaluation) -/
namespace Glm.Props.C09
open Glm Glm.Spec.C09 Glm.Gen.C09
set_option maxHeartbeats 4000000 in
theorem shearX2D_ok : f_shearX2D.ok (fun _ ks => shearX2D_L ks) = true := by decide +kernel
end Glm.Props.C09
