import GlmVerif.Spec.C09
import GlmVerif.Gen.C09.lookAt
/-! table check of family `lookAt_z` against the model of its units generated from /repo (kernel evaluation) -/
namespace Glm.Props.C09
open Glm Glm.Spec.C09 Glm.Gen.C09
set_option maxHeartbeats 4000000 in
theorem lookAt_z_ok : f_lookAt_z.ok (fun _ ks => lookAt_L ks) = true := by decide +kernel
end Glm.Props.C09
