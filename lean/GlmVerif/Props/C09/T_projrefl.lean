import GlmVerif.Spec.C09
import GlmVerif.Gen.C09.projrefl
/-! table check of family `projrefl` against the model of its units generated from /repo (kernel evaluation) -/
namespace Glm.Props.C09
open Glm Glm.Spec.C09 Glm.Gen.C09
set_option maxHeartbeats 4000000 in
theorem projrefl_ok : f_projrefl.ok (fun _ ks => projrefl_L ks) = true := by decide +kernel
end Glm.Props.C09
