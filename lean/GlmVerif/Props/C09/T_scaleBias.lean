import GlmVerif.Spec.C09
import GlmVerif.Gen.C09.scaleBias
/-! table check of family `scaleBias` against the model of its units generated from /repo (kernel evaluation) -/
namespace Glm.Props.C09
open Glm Glm.Spec.C09 Glm.Gen.C09
set_option maxHeartbeats 4000000 in
theorem scaleBias_ok : f_scaleBias.ok (fun _ ks => scaleBias_L ks) = true := by decide +kernel
end Glm.Props.C09
