import GlmVerif.Spec.C09
import GlmVerif.Gen.C09.shearX2d
/-! table check of family `shearX2d` against the model of its units generated from /repo (kernel evaluation) -/
namespace Glm.Props.C09
open Glm Glm.Spec.C09 Glm.Gen.C09
set_option maxHeartbeats 4000000 in
theorem shearX2d_ok : f_shearX2d.ok (fun _ ks => shearX2d_L ks) = true := by decide +kernel
end Glm.Props.C09
