import GlmVerif.Spec.C09
import GlmVerif.Gen.C09.rotate4n
/-! table check of family `rotate4n` against the model of its units generated from /repo (kernel evaluation) -/
namespace Glm.Props.C09
open Glm Glm.Spec.C09 Glm.Gen.C09
set_option maxHeartbeats 4000000 in
theorem rotate4n_ok : f_rotate4n.ok (fun _ ks => rotate4n_L ks) = true := by decide +kernel
end Glm.Props.C09
