import GlmVerif.Gen.C09
import GlmVerif.Props.C09.T_translate
import GlmVerif.Props.C09.T_scale
import GlmVerif.Props.C09.T_scale_slow
import GlmVerif.Props.C09.T_rotate
import GlmVerif.Props.C09.T_rotate_slow
import GlmVerif.Props.C09.T_rotateNormalizedAxis
import GlmVerif.Props.C09.T_shear
import GlmVerif.Props.C09.T_shear_slow
import GlmVerif.Props.C09.T_gtranslate
import GlmVerif.Props.C09.T_gscale
import GlmVerif.Props.C09.T_grotate
import GlmVerif.Props.C09.T_lookAt
import GlmVerif.Props.C09.T_lookAt_cfg
import GlmVerif.Props.C09.T_lookAt_z
import GlmVerif.Props.C09.T_lookAt_cfg_z
import GlmVerif.Props.C09.T_rotate2
import GlmVerif.Props.C09.T_rotateAxis
import GlmVerif.Props.C09.T_rotate3n
import GlmVerif.Props.C09.T_rotate4n
import GlmVerif.Props.C09.T_translate2d
import GlmVerif.Props.C09.T_scale2d
import GlmVerif.Props.C09.T_rotate2d
import GlmVerif.Props.C09.T_shearX2d
import GlmVerif.Props.C09.T_shearY2d
import GlmVerif.Props.C09.T_shearX2D
import GlmVerif.Props.C09.T_shearY2D
import GlmVerif.Props.C09.T_shear3D
import GlmVerif.Props.C09.T_scaleBias
import GlmVerif.Props.C09.T_scaleBiasM
import GlmVerif.Props.C09.T_axisAngleMatrix
import GlmVerif.Props.C09.T_extractMatrixRotation
import GlmVerif.Props.C09.T_projrefl
import GlmVerif.Props.C09.T_vslerp
import GlmVerif.Props.C09.T_orientation
/-! every family table of C09 holds for the model generated from the current /repo -/
namespace Glm.Props.C09
open Glm Glm.Spec.C09 Glm.Gen.C09
theorem all_ok : ∀ f ∈ families, f.ok lookup = true := by
  simp only [families, List.mem_cons, List.not_mem_nil, or_false, forall_eq_or_imp, forall_eq]
  exact ⟨(Family.ok_congr f_translate (fun ks => by rw [show f_translate.unit = "translate" from rfl, lookup_translate])).trans translate_ok,
    (Family.ok_congr f_scale (fun ks => by rw [show f_scale.unit = "scale" from rfl, lookup_scale])).trans scale_ok,
    (Family.ok_congr f_scale_slow (fun ks => by rw [show f_scale_slow.unit = "scale_slow" from rfl, lookup_scale_slow])).trans scale_slow_ok,
    (Family.ok_congr f_rotate (fun ks => by rw [show f_rotate.unit = "rotate" from rfl, lookup_rotate])).trans rotate_ok,
    (Family.ok_congr f_rotate_slow (fun ks => by rw [show f_rotate_slow.unit = "rotate_slow" from rfl, lookup_rotate_slow])).trans rotate_slow_ok,
    (Family.ok_congr f_rotateNormalizedAxis (fun ks => by rw [show f_rotateNormalizedAxis.unit = "rotateNormalizedAxis" from rfl, lookup_rotateNormalizedAxis])).trans rotateNormalizedAxis_ok,
    (Family.ok_congr f_shear (fun ks => by rw [show f_shear.unit = "shear" from rfl, lookup_shear])).trans shear_ok,
    (Family.ok_congr f_shear_slow (fun ks => by rw [show f_shear_slow.unit = "shear_slow" from rfl, lookup_shear_slow])).trans shear_slow_ok,
    (Family.ok_congr f_gtranslate (fun ks => by rw [show f_gtranslate.unit = "gtranslate" from rfl, lookup_gtranslate])).trans gtranslate_ok,
    (Family.ok_congr f_gscale (fun ks => by rw [show f_gscale.unit = "gscale" from rfl, lookup_gscale])).trans gscale_ok,
    (Family.ok_congr f_grotate (fun ks => by rw [show f_grotate.unit = "grotate" from rfl, lookup_grotate])).trans grotate_ok,
    (Family.ok_congr f_lookAt (fun ks => by rw [show f_lookAt.unit = "lookAt" from rfl, lookup_lookAt])).trans lookAt_ok,
    (Family.ok_congr f_lookAt_cfg (fun ks => by rw [show f_lookAt_cfg.unit = "lookAt_cfg" from rfl, lookup_lookAt_cfg])).trans lookAt_cfg_ok,
    (Family.ok_congr f_lookAt_z (fun ks => by rw [show f_lookAt_z.unit = "lookAt" from rfl, lookup_lookAt])).trans lookAt_z_ok,
    (Family.ok_congr f_lookAt_cfg_z (fun ks => by rw [show f_lookAt_cfg_z.unit = "lookAt_cfg" from rfl, lookup_lookAt_cfg])).trans lookAt_cfg_z_ok,
    (Family.ok_congr f_rotate2 (fun ks => by rw [show f_rotate2.unit = "rotate2" from rfl, lookup_rotate2])).trans rotate2_ok,
    (Family.ok_congr f_rotateAxis (fun ks => by rw [show f_rotateAxis.unit = "rotateAxis" from rfl, lookup_rotateAxis])).trans rotateAxis_ok,
    (Family.ok_congr f_rotate3n (fun ks => by rw [show f_rotate3n.unit = "rotate3n" from rfl, lookup_rotate3n])).trans rotate3n_ok,
    (Family.ok_congr f_rotate4n (fun ks => by rw [show f_rotate4n.unit = "rotate4n" from rfl, lookup_rotate4n])).trans rotate4n_ok,
    (Family.ok_congr f_translate2d (fun ks => by rw [show f_translate2d.unit = "translate2d" from rfl, lookup_translate2d])).trans translate2d_ok,
    (Family.ok_congr f_scale2d (fun ks => by rw [show f_scale2d.unit = "scale2d" from rfl, lookup_scale2d])).trans scale2d_ok,
    (Family.ok_congr f_rotate2d (fun ks => by rw [show f_rotate2d.unit = "rotate2d" from rfl, lookup_rotate2d])).trans rotate2d_ok,
    (Family.ok_congr f_shearX2d (fun ks => by rw [show f_shearX2d.unit = "shearX2d" from rfl, lookup_shearX2d])).trans shearX2d_ok,
    (Family.ok_congr f_shearY2d (fun ks => by rw [show f_shearY2d.unit = "shearY2d" from rfl, lookup_shearY2d])).trans shearY2d_ok,
    (Family.ok_congr f_shearX2D (fun ks => by rw [show f_shearX2D.unit = "shearX2D" from rfl, lookup_shearX2D])).trans shearX2D_ok,
    (Family.ok_congr f_shearY2D (fun ks => by rw [show f_shearY2D.unit = "shearY2D" from rfl, lookup_shearY2D])).trans shearY2D_ok,
    (Family.ok_congr f_shear3D (fun ks => by rw [show f_shear3D.unit = "shear3D" from rfl, lookup_shear3D])).trans shear3D_ok,
    (Family.ok_congr f_scaleBias (fun ks => by rw [show f_scaleBias.unit = "scaleBias" from rfl, lookup_scaleBias])).trans scaleBias_ok,
    (Family.ok_congr f_scaleBiasM (fun ks => by rw [show f_scaleBiasM.unit = "scaleBiasM" from rfl, lookup_scaleBiasM])).trans scaleBiasM_ok,
    (Family.ok_congr f_axisAngleMatrix (fun ks => by rw [show f_axisAngleMatrix.unit = "axisAngleMatrix" from rfl, lookup_axisAngleMatrix])).trans axisAngleMatrix_ok,
    (Family.ok_congr f_extractMatrixRotation (fun ks => by rw [show f_extractMatrixRotation.unit = "extractMatrixRotation" from rfl, lookup_extractMatrixRotation])).trans extractMatrixRotation_ok,
    (Family.ok_congr f_projrefl (fun ks => by rw [show f_projrefl.unit = "projrefl" from rfl, lookup_projrefl])).trans projrefl_ok,
    (Family.ok_congr f_vslerp (fun ks => by rw [show f_vslerp.unit = "vslerp" from rfl, lookup_vslerp])).trans vslerp_ok,
    (Family.ok_congr f_orientation (fun ks => by rw [show f_orientation.unit = "orientation" from rfl, lookup_orientation])).trans orientation_ok⟩
end Glm.Props.C09
