import GlmVerif.Spec.C09
import GlmVerif.Gen.C09.orientation
/-! table check of family `orientation` against the model of its units generated from /repo (kernel evaluation) -/
namespace Glm.Props.C09
open Glm Glm.Spec.C09 Glm.Gen.C09
set_option maxHeartbeats 4000000 in
theorem orientation_ok : f_orientation.ok (fun _ ks => orientation_L ks) = true := by decide +kernel
end Glm.Props.C09
