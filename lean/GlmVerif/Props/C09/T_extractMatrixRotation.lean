import GlmVerif.Spec.C09
import GlmVerif.Gen.C09.extractMatrixRotation
/-! table check of family `extractMatrixRotation` against the model of its units generated from /repo (kernel evaluation) -/
namespace Glm.Props.C09
open Glm Glm.Spec.C09 Glm.Gen.C09
set_option maxHeartbeats 4000000 in
theorem extractMatrixRotation_ok : f_extractMatrixRotation.ok (fun _ ks => extractMatrixRotation_L ks) = true := by decide +kernel
end Glm.Props.C09
