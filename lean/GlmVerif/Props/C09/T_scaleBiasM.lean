import GlmVerif.Spec.C09
import GlmVerif.Gen.C09.scaleBiasM
/-! table check of family `scaleBiasM` against the model of its units generated from /repo (kernel evaluation) -/
namespace Glm.Props.C09
open Glm Glm.Spec.C09 Glm.Gen.C09
set_option maxHeartbeats 4000000 in
theorem scaleBiasM_ok : f_scaleBiasM.ok (fun _ ks => scaleBiasM_L ks) = true := by decide +kernel
end Glm.Props.C09
