import GlmVerif.Spec.C09
import GlmVerif.Gen.C09.rotate3n
/-! table check of family `rotate3n` against the model of its units generated from /repo (kernel evaluation) -/
namespace Glm.Props.C09
open Glm Glm.Spec.C09 Glm.Gen.C09
set_option maxHeartbeats 4000000 in
theorem rotate3n_ok : f_rotate3n.ok (fun _ ks => rotate3n_L ks) = true := by decide +kernel
end Glm.Props.C09
