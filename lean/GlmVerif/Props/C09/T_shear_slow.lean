import GlmVerif.Spec.C09
import GlmVerif.Gen.C09.shear_slow
/-! table check of family `shear_slow` against the model of its units generated from /repo (kernel evaluation) -/
namespace Glm.Props.C09
open Glm Glm.Spec.C09 Glm.Gen.C09
set_option maxHeartbeats 4000000 in
theorem shear_slow_ok : f_shear_slow.ok (fun _ ks => shear_slow_L ks) = true := by decide +kernel
end Glm.Props.C09
