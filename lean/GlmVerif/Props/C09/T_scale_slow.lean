import GlmVerif.Spec.C09
import GlmVerif.Gen.C09.scale_slow
/-! table check of family `scale_slow` against the model of its units generated from /repo (kernel evaluation) -/
namespace Glm.Props.C09
open Glm Glm.Spec.C09 Glm.Gen.C09
set_option maxHeartbeats 4000000 in
theorem scale_slow_ok : f_scale_slow.ok (fun _ ks => scale_slow_L ks) = true := by decide +kernel
end Glm.Props.C09
