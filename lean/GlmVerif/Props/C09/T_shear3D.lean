import GlmVerif.Spec.C09
import GlmVerif.Gen.C09.shear3D
/-! table check of family `shear3D` against the model of its units generated from /repo (kernel evaluation) -/
namespace Glm.Props.C09
open Glm Glm.Spec.C09 Glm.Gen.C09
set_option maxHeartbeats 4000000 in
theorem shear3D_ok : f_shear3D.ok (fun _ ks => shear3D_L ks) = true := by decide +kernel
end Glm.Props.C09
