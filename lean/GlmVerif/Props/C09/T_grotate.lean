import GlmVerif.Spec.C09
import GlmVerif.Gen.C09.grotate
/-! table check of family `grotate` against the model of its units generated from /repo (kernel evaluation) -/
namespace Glm.Props.C09
open Glm Glm.Spec.C09 Glm.Gen.C09
set_option maxHeartbeats 4000000 in
theorem grotate_ok : f_grotate.ok (fun _ ks => grotate_L ks) = true := by decide +kernel
end Glm.Props.C09
