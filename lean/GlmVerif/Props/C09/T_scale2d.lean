import GlmVerif.Spec.C09
import GlmVerif.Gen.C09.scale2d
/-! table check of family `scale2d` against the model of its units generated from /repo (kernel evaluation) -/
namespace Glm.Props.C09
open Glm Glm.Spec.C09 Glm.Gen.C09
set_option maxHeartbeats 4000000 in
theorem scale2d_ok : f_scale2d.ok (fun _ ks => scale2d_L ks) = true := by decide +kernel
end Glm.Props.C09
