import GlmVerif.Spec.C09
import GlmVerif.Gen.C09.shearY2d
/-! table check of family `shearY2d` against the model of its units generated from /repo (kernel evaluation) -/
namespace Glm.Props.C09
open Glm Glm.Spec.C09 Glm.Gen.C09
set_option maxHeartbeats 4000000 in
theorem shearY2d_ok : f_shearY2d.ok (fun _ ks => shearY2d_L ks) = true := by decide +kernel
end Glm.Props.C09
