import GlmVerif.Spec.C08
import GlmVerif.Gen.C08.project
/-! table check of family `project` against the model of its units generated from /repo (kernel evaluation) -/
namespace Glm.Props.C08
open Glm Glm.Spec.C08 Glm.Gen.C08
set_option maxHeartbeats 4000000 in
theorem project_ok : f_project.ok (fun _ ks => project_L ks) = true := by decide +kernel
end Glm.Props.C08
