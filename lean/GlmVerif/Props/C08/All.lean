import GlmVerif.Gen.C08
import GlmVerif.Props.C08.T_ortho
import GlmVerif.Props.C08.T_frustum
import GlmVerif.Props.C08.T_perspective
import GlmVerif.Props.C08.T_perspectiveFov
import GlmVerif.Props.C08.T_infinitePerspective
import GlmVerif.Props.C08.T_ortho_cfg
import GlmVerif.Props.C08.T_frustum_cfg
import GlmVerif.Props.C08.T_perspective_cfg
import GlmVerif.Props.C08.T_perspectiveFov_cfg
import GlmVerif.Props.C08.T_infinitePerspective_cfg
import GlmVerif.Props.C08.T_orthoLH_cfg
import GlmVerif.Props.C08.T_orthoRH_cfg
import GlmVerif.Props.C08.T_orthoNO_cfg
import GlmVerif.Props.C08.T_orthoZO_cfg
import GlmVerif.Props.C08.T_frustumLH_cfg
import GlmVerif.Props.C08.T_frustumRH_cfg
import GlmVerif.Props.C08.T_frustumNO_cfg
import GlmVerif.Props.C08.T_frustumZO_cfg
import GlmVerif.Props.C08.T_perspectiveLH_cfg
import GlmVerif.Props.C08.T_perspectiveRH_cfg
import GlmVerif.Props.C08.T_perspectiveNO_cfg
import GlmVerif.Props.C08.T_perspectiveZO_cfg
import GlmVerif.Props.C08.T_perspectiveFovLH_cfg
import GlmVerif.Props.C08.T_perspectiveFovRH_cfg
import GlmVerif.Props.C08.T_perspectiveFovNO_cfg
import GlmVerif.Props.C08.T_perspectiveFovZO_cfg
import GlmVerif.Props.C08.T_ortho2d
import GlmVerif.Props.C08.T_project
import GlmVerif.Props.C08.T_project_cfg
import GlmVerif.Props.C08.T_unprojP
import GlmVerif.Props.C08.T_tweaked
import GlmVerif.Props.C08.T_pickMatrix
/-! every family table of C08 holds for the model generated from the current /repo -/
namespace Glm.Props.C08
open Glm Glm.Spec.C08 Glm.Gen.C08
theorem all_ok : ∀ f ∈ families, f.ok lookup = true := by
  simp only [families, List.mem_cons, List.not_mem_nil, or_false, forall_eq_or_imp, forall_eq]
  exact ⟨(Family.ok_congr f_ortho (fun ks => by rw [show f_ortho.unit = "ortho" from rfl, lookup_ortho])).trans ortho_ok,
    (Family.ok_congr f_frustum (fun ks => by rw [show f_frustum.unit = "frustum" from rfl, lookup_frustum])).trans frustum_ok,
    (Family.ok_congr f_perspective (fun ks => by rw [show f_perspective.unit = "perspective" from rfl, lookup_perspective])).trans perspective_ok,
    (Family.ok_congr f_perspectiveFov (fun ks => by rw [show f_perspectiveFov.unit = "perspectiveFov" from rfl, lookup_perspectiveFov])).trans perspectiveFov_ok,
    (Family.ok_congr f_infinitePerspective (fun ks => by rw [show f_infinitePerspective.unit = "infinitePerspective" from rfl, lookup_infinitePerspective])).trans infinitePerspective_ok,
    (Family.ok_congr f_ortho_cfg (fun ks => by rw [show f_ortho_cfg.unit = "ortho_cfg" from rfl, lookup_ortho_cfg])).trans ortho_cfg_ok,
    (Family.ok_congr f_frustum_cfg (fun ks => by rw [show f_frustum_cfg.unit = "frustum_cfg" from rfl, lookup_frustum_cfg])).trans frustum_cfg_ok,
    (Family.ok_congr f_perspective_cfg (fun ks => by rw [show f_perspective_cfg.unit = "perspective_cfg" from rfl, lookup_perspective_cfg])).trans perspective_cfg_ok,
    (Family.ok_congr f_perspectiveFov_cfg (fun ks => by rw [show f_perspectiveFov_cfg.unit = "perspectiveFov_cfg" from rfl, lookup_perspectiveFov_cfg])).trans perspectiveFov_cfg_ok,
    (Family.ok_congr f_infinitePerspective_cfg (fun ks => by rw [show f_infinitePerspective_cfg.unit = "infinitePerspective_cfg" from rfl, lookup_infinitePerspective_cfg])).trans infinitePerspective_cfg_ok,
    (Family.ok_congr f_orthoLH_cfg (fun ks => by rw [show f_orthoLH_cfg.unit = "orthoLH_cfg" from rfl, lookup_orthoLH_cfg])).trans orthoLH_cfg_ok,
    (Family.ok_congr f_orthoRH_cfg (fun ks => by rw [show f_orthoRH_cfg.unit = "orthoRH_cfg" from rfl, lookup_orthoRH_cfg])).trans orthoRH_cfg_ok,
    (Family.ok_congr f_orthoNO_cfg (fun ks => by rw [show f_orthoNO_cfg.unit = "orthoNO_cfg" from rfl, lookup_orthoNO_cfg])).trans orthoNO_cfg_ok,
    (Family.ok_congr f_orthoZO_cfg (fun ks => by rw [show f_orthoZO_cfg.unit = "orthoZO_cfg" from rfl, lookup_orthoZO_cfg])).trans orthoZO_cfg_ok,
    (Family.ok_congr f_frustumLH_cfg (fun ks => by rw [show f_frustumLH_cfg.unit = "frustumLH_cfg" from rfl, lookup_frustumLH_cfg])).trans frustumLH_cfg_ok,
    (Family.ok_congr f_frustumRH_cfg (fun ks => by rw [show f_frustumRH_cfg.unit = "frustumRH_cfg" from rfl, lookup_frustumRH_cfg])).trans frustumRH_cfg_ok,
    (Family.ok_congr f_frustumNO_cfg (fun ks => by rw [show f_frustumNO_cfg.unit = "frustumNO_cfg" from rfl, lookup_frustumNO_cfg])).trans frustumNO_cfg_ok,
    (Family.ok_congr f_frustumZO_cfg (fun ks => by rw [show f_frustumZO_cfg.unit = "frustumZO_cfg" from rfl, lookup_frustumZO_cfg])).trans frustumZO_cfg_ok,
    (Family.ok_congr f_perspectiveLH_cfg (fun ks => by rw [show f_perspectiveLH_cfg.unit = "perspectiveLH_cfg" from rfl, lookup_perspectiveLH_cfg])).trans perspectiveLH_cfg_ok,
    (Family.ok_congr f_perspectiveRH_cfg (fun ks => by rw [show f_perspectiveRH_cfg.unit = "perspectiveRH_cfg" from rfl, lookup_perspectiveRH_cfg])).trans perspectiveRH_cfg_ok,
    (Family.ok_congr f_perspectiveNO_cfg (fun ks => by rw [show f_perspectiveNO_cfg.unit = "perspectiveNO_cfg" from rfl, lookup_perspectiveNO_cfg])).trans perspectiveNO_cfg_ok,
    (Family.ok_congr f_perspectiveZO_cfg (fun ks => by rw [show f_perspectiveZO_cfg.unit = "perspectiveZO_cfg" from rfl, lookup_perspectiveZO_cfg])).trans perspectiveZO_cfg_ok,
    (Family.ok_congr f_perspectiveFovLH_cfg (fun ks => by rw [show f_perspectiveFovLH_cfg.unit = "perspectiveFovLH_cfg" from rfl, lookup_perspectiveFovLH_cfg])).trans perspectiveFovLH_cfg_ok,
    (Family.ok_congr f_perspectiveFovRH_cfg (fun ks => by rw [show f_perspectiveFovRH_cfg.unit = "perspectiveFovRH_cfg" from rfl, lookup_perspectiveFovRH_cfg])).trans perspectiveFovRH_cfg_ok,
    (Family.ok_congr f_perspectiveFovNO_cfg (fun ks => by rw [show f_perspectiveFovNO_cfg.unit = "perspectiveFovNO_cfg" from rfl, lookup_perspectiveFovNO_cfg])).trans perspectiveFovNO_cfg_ok,
    (Family.ok_congr f_perspectiveFovZO_cfg (fun ks => by rw [show f_perspectiveFovZO_cfg.unit = "perspectiveFovZO_cfg" from rfl, lookup_perspectiveFovZO_cfg])).trans perspectiveFovZO_cfg_ok,
    (Family.ok_congr f_ortho2d (fun ks => by rw [show f_ortho2d.unit = "ortho2d" from rfl, lookup_ortho2d])).trans ortho2d_ok,
    (Family.ok_congr f_project (fun ks => by rw [show f_project.unit = "project" from rfl, lookup_project])).trans project_ok,
    (Family.ok_congr f_project_cfg (fun ks => by rw [show f_project_cfg.unit = "project_cfg" from rfl, lookup_project_cfg])).trans project_cfg_ok,
    (Family.ok_congr f_unprojP (fun ks => by rw [show f_unprojP.unit = "unprojP" from rfl, lookup_unprojP])).trans unprojP_ok,
    (Family.ok_congr f_tweaked (fun ks => by rw [show f_tweaked.unit = "tweaked" from rfl, lookup_tweaked])).trans tweaked_ok,
    (Family.ok_congr f_pickMatrix (fun ks => by rw [show f_pickMatrix.unit = "pickMatrix" from rfl, lookup_pickMatrix])).trans pickMatrix_ok⟩
end Glm.Props.C08
