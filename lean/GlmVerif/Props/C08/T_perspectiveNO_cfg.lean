import GlmVerif.Spec.C08
import GlmVerif.Gen.C08.perspectiveNO_cfg
/-! table check of family `perspectiveNO_cfg` against the model of its units generated from /repo (kernel evaluation) -/
namespace Glm.Props.C08
open Glm Glm.Spec.C08 Glm.Gen.C08
set_option maxHeartbeats 4000000 in
theorem perspectiveNO_cfg_ok : f_perspectiveNO_cfg.ok (fun _ ks => perspectiveNO_cfg_L ks) = true := by decide +kernel
end Glm.Props.C08
