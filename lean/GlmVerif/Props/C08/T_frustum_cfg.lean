import GlmVerif.Spec.C08
import GlmVerif.Gen.C08.frustum_cfg
/-! table check of family `frustum_cfg` against the model of its units generated from /repo (kernel evaluation) -/
namespace Glm.Props.C08
open Glm Glm.Spec.C08 Glm.Gen.C08
set_option maxHeartbeats 4000000 in
theorem frustum_cfg_ok : f_frustum_cfg.ok (fun _ ks => frustum_cfg_L ks) = true := by decide +kernel
end Glm.Props.C08
