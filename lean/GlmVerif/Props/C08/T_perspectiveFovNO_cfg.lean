import GlmVerif.Spec.C08
import GlmVerif.Gen.C08.perspectiveFovNO_cfg
/-! table check of family `perspectiveFovNO_cfg` against the model of its units generated from /repo (kernel evaluation) -/
namespace Glm.Props.C08
open Glm Glm.Spec.C08 Glm.Gen.C08
set_option maxHeartbeats 4000000 in
theorem perspectiveFovNO_cfg_ok : f_perspectiveFovNO_cfg.ok (fun _ ks => perspectiveFovNO_cfg_L ks) = true := by decide +kernel
end Glm.Props.C08
