import GlmVerif.Spec.C08
import GlmVerif.Gen.C08.perspectiveZO_cfg
/-! table check of family `perspectiveZO_cfg` against the model of its units generated from /repo (kernel evaluation) -/
namespace Glm.Props.C08
open Glm Glm.Spec.C08 Glm.Gen.C08
set_option maxHeartbeats 4000000 in
theorem perspectiveZO_cfg_ok : f_perspectiveZO_cfg.ok (fun _ ks => perspectiveZO_cfg_L ks) = true := by decide +kernel
end Glm.Props.C08
