import GlmVerif.Spec.C08
import GlmVerif.Gen.C08.perspectiveFov_cfg
/-! table check of family `perspectiveFov_cfg` against the model of its units generated from /repo (kernel evaluation) -/
namespace Glm.Props.C08
open Glm Glm.Spec.C08 Glm.Gen.C08
set_option maxHeartbeats 4000000 in
theorem perspectiveFov_cfg_ok : f_perspectiveFov_cfg.ok (fun _ ks => perspectiveFov_cfg_L ks) = true := by decide +kernel
end Glm.Props.C08
