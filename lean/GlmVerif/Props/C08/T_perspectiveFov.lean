import GlmVerif.Spec.C08
import GlmVerif.Gen.C08.perspectiveFov
/-! table check of family `perspectiveFov` against the model of its units generated from /repo (kernel evaluation) -/
namespace Glm.Props.C08
open Glm Glm.Spec.C08 Glm.Gen.C08
set_option maxHeartbeats 4000000 in
theorem perspectiveFov_ok : f_perspectiveFov.ok (fun _ ks => perspectiveFov_L ks) = true := by decide +kernel
end Glm.Props.C08
