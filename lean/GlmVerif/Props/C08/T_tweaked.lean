import GlmVerif.Spec.C08
import GlmVerif.Gen.C08.tweaked
/-! table check of family `tweaked` against the model of its units generated from /repo (kernel evaluation) -/
namespace Glm.Props.C08
open Glm Glm.Spec.C08 Glm.Gen.C08
set_option maxHeartbeats 4000000 in
theorem tweaked_ok : f_tweaked.ok (fun _ ks => tweaked_L ks) = true := by decide +kernel
end Glm.Props.C08
