import GlmVerif.Spec.C08
import GlmVerif.Gen.C08.pickMatrix
/-! table check of family `pickMatrix` against the model of its units generated from /repo (kernel evaluation) -/
namespace Glm.Props.C08
open Glm Glm.Spec.C08 Glm.Gen.C08
set_option maxHeartbeats 4000000 in
theorem pickMatrix_ok : f_pickMatrix.ok (fun _ ks => pickMatrix_L ks) = true := by decide +kernel
end Glm.Props.C08
