import GlmVerif.Spec.C08
import GlmVerif.Gen.C08.unprojP
/-! table check of family `unprojP` against the model of its units generated from /repo (kernel evaluation) -/
namespace Glm.Props.C08
open Glm Glm.Spec.C08 Glm.Gen.C08
set_option maxHeartbeats 4000000 in
set_option maxRecDepth 1000000 in
theorem unprojP_ok : f_unprojP.ok (fun _ ks => unprojP_L ks) = true := by decide +kernel
end Glm.Props.C08
