import GlmVerif.Sem.C03
import Mathlib.Tactic.IntervalCases
import GlmVerif.Props.C03.T_0
import GlmVerif.Props.C03.T_1
import GlmVerif.Props.C03.T_2
import GlmVerif.Props.C03.T_3
import GlmVerif.Props.C03.T_4
import GlmVerif.Props.C03.T_5
import GlmVerif.Props.C03.T_6
import GlmVerif.Props.C03.T_7
import GlmVerif.Props.C03.T_8
import GlmVerif.Props.C03.T_9
import GlmVerif.Props.C03.T_10
import GlmVerif.Props.C03.T_11
import GlmVerif.Props.C03.T_12
import GlmVerif.Props.C03.T_13
import GlmVerif.Props.C03.T_14
import GlmVerif.Props.C03.T_15
/-!
# C03 — SIMD-intrinsic builds return the same results as the pure C++ path

Model: `Gen/C03` — for every operation of `trace/fake_intrin/c03_ops.hpp` the generic code (`op_0`) and the code glm
selects for aligned types under `GLM_FORCE_INTRINSICS` at each ISA level SSE2 … AVX2+FMA (`op_<1+isa>`), the latter
traced through lane-wise fake intrinsics that are themselves checked against the hardware on every run.

* `chunk_k_ok` (16 modules): the kernel evaluates `opOK` for every operation of the table — every level, every output.
* `simd_eq_pure_real` / `simd_eq_pure_int`: what a table entry means — equal values for **all** inputs, in every
  ordered-field semantics (real-typed units) resp. every commutative ring with a linear order satisfying the three
  bit facts (integer units); multi-term classes under "no division by zero" (and `sqrt t * sqrt t = t` for `sqrtsq`).
* `approx_only_lowp`: only lowp operations use the hardware reciprocal / reciprocal-square-root approximations.
-/
namespace Glm.Props.C03
open Glm Glm.Spec.C03

set_option maxRecDepth 100000 in
theorem ops_eq_chunks : ops = (List.range 16).flatMap chunk := by decide +kernel

/-- every operation of the table passes at every ISA level -/
theorem ops_all_ok : ∀ e ∈ ops, opOK Gen.C03.table Gen.C03map.variantOf skipped e.1 e.2 = true := by
  intro e he
  rw [ops_eq_chunks, List.mem_flatMap] at he
  obtain ⟨k, hk, hek⟩ := he
  have hall : ∀ k ∈ List.range 16, chunkOK k = true := by
    intro k hk
    simp only [List.mem_range] at hk
    interval_cases k
    · exact chunk_0_ok
    · exact chunk_1_ok
    · exact chunk_2_ok
    · exact chunk_3_ok
    · exact chunk_4_ok
    · exact chunk_5_ok
    · exact chunk_6_ok
    · exact chunk_7_ok
    · exact chunk_8_ok
    · exact chunk_9_ok
    · exact chunk_10_ok
    · exact chunk_11_ok
    · exact chunk_12_ok
    · exact chunk_13_ok
    · exact chunk_14_ok
    · exact chunk_15_ok
  have := hall k hk
  simp only [chunkOK, List.all_eq_true] at this
  exact this e hek

/-- the generic unit and the SIMD unit of operation `op` at ISA level `isa` (0 = SSE2 … 7 = AVX2+FMA) -/
def pureUnit (op : String) : Unit :=
  match Gen.C03.table.find? (·.1 == op) with
  | some tl => tl.2 [0]
  | none => default
def keyAt (op : String) (isa : Nat) : Nat :=
  match Gen.C03map.variantOf.find? (·.1 == op) with
  | some vk => vk.2.getD isa 0
  | none => 0
def simdUnit (op : String) (isa : Nat) : Unit :=
  match Gen.C03.table.find? (·.1 == op) with
  | some tl => tl.2 [keyAt op isa]
  | none => default

/-- a table entry, unfolded: at every level that has a theorem the pair of units passes `pairOK` -/
theorem pair_ok {op : String} {m : Mode} (he : (op, m) ∈ ops) {isa : Nat} (hi : isa < 8)
    (hs : (op, keyAt op isa) ∉ skipped) : pairOK m (pureUnit op) (simdUnit op isa) = true := by
  have h := ops_all_ok (op, m) he
  unfold opOK at h
  unfold pureUnit simdUnit keyAt at *
  split at h
  · rename_i tl vk htl hvk
    simp only [htl, hvk] at hs ⊢
    simp only [Bool.and_eq_true, beq_iff_eq, List.all_eq_true, Bool.or_eq_true, List.contains_eq_mem,
      decide_eq_true_eq] at h
    obtain ⟨⟨hlen, _⟩, hall⟩ := h
    have hmem : vk.2.getD isa 0 ∈ vk.2.eraseDups := by
      rw [List.mem_eraseDups]
      have : isa < vk.2.length := by omega
      rw [List.getD_eq_getElem?_getD, List.getElem?_eq_getElem this]; exact List.getElem_mem this
    rcases hall _ hmem with h1 | h1
    · exact absurd h1 hs
    · exact h1
  · cases h

variable {K : Type} [Field K] [LinearOrder K] [IsStrictOrderedRing K]

/-- **real-typed operations**: for every operation of the table, every ISA level with a theorem, every output
    component and every input, the SIMD code returns what the generic code returns — in every ordered-field semantics
    in which `abs` is the absolute value and `fma a b c = a*b + c`; for the multi-term classes provided neither
    evaluation divides by zero (`DivOK`), for `sqrtsq` provided the square roots are those of non-negative numbers -/
theorem simd_eq_pure_real {o : Ops K} (ho : RealSimdLike o) {op : String} {m : Mode} (he : (op, m) ∈ ops)
    {isa : Nat} (hi : isa < 8) (hs : (op, keyAt op isa) ∉ skipped) (hty : (pureUnit op).ty = .r)
    (j : Nat) (hj : j < (pureUnit op).outs.length) (env : Nat → K)
    (hd : m ≠ .ident → DivOK o env m (pureUnit op) (simdUnit op isa) j)
    (hq : m = .sqrtsq → SqrtOK o env m (pureUnit op) (simdUnit op isa) j)
    (hz : m = .sqrtsq → o.call1 .sqrt (o.lit 0 1) = o.lit 0 1) :
    ((pureUnit op).out j).eval o env = ((simdUnit op isa).out j).eval o env := by
  have h := pair_ok he hi hs
  simp only [pairOK, Bool.and_eq_true, List.all_eq_true, List.mem_range] at h
  have hjj := h.2 j hj
  rw [if_pos (by rw [hty]; rfl)] at hjj
  exact outOKR_sound ho m _ _ j hjj env hd hq hz

/-- **integer operations**: the same in every commutative ring with a linear order (ℤ/2^32 with the signed or the
    unsigned order) that satisfies the three bit facts of `IntSimdLike` -/
theorem simd_eq_pure_int {α : Type} [CommRing α] [LinearOrder α] {o : Ops α} (ho : IntSimdLike o)
    {op : String} {m : Mode} (he : (op, m) ∈ ops) {isa : Nat} (hi : isa < 8) (hs : (op, keyAt op isa) ∉ skipped)
    (hty : (pureUnit op).ty ≠ .r) (j : Nat) (hj : j < (pureUnit op).outs.length) (env : Nat → α) :
    ((pureUnit op).out j).eval o env = ((simdUnit op isa).out j).eval o env := by
  have h := pair_ok he hi hs
  simp only [pairOK, Bool.and_eq_true, List.all_eq_true, List.mem_range] at h
  have hjj := h.2 j hj
  rw [if_neg (by simpa using hty)] at hjj
  simp only [Bool.and_eq_true] at hjj
  exact outOKI_sound ho _ _ j hjj.2 env

/-- only lowp operations (and lowp kernels) use `rcp` / `rsqrt` -/
def hasInfix (p : List Char) : List Char → Bool
  | [] => p.isEmpty
  | c :: cs => p.isPrefixOf (c :: cs) || hasInfix p cs
def isLowpName (s : String) : Bool := hasInfix "_lowp".toList s.toList
theorem approx_only_lowp : Gen.C03map.approxUnits.all (fun u => isLowpName u.1) = true := by decide +kernel

/-- non-vacuity: the table is not empty and names real units -/
example : (pureUnit "mat4_mul").outs.length = 16 ∧ (simdUnit "mat4_mul" 7).outs.length = 16 ∧ ("mat4_mul", Mode.ident) ∈ ops
    ∨ ("mat4_mul", Mode.field) ∈ ops := by decide +kernel

end Glm.Props.C03
