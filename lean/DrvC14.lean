import GlmVerif.Hand.C14
import Std.Data.HashSet
/-!
Native driver of property C14 (see checks/README.md).

  drv_c14 lines <file>      for every harness line `op w args… -> glm-results…` evaluate the hand model and
                            the executable specification; print
                              MM <line> | model=…     model ≠ glm   (correspondence mismatch)
                              SV <line> | spec=…      glm's result violates the specification
                              OP <op> <w> n= mm= sv= silent= nontrivial=      per operation
                              SUMMARY …
  drv_c14 sweep <lo> <hi>   model side of the exhaustive float sweep: per block of 2^20 patterns the same
                            fold hashes as `C14 sweep`, and the number of patterns on which the model
                            differs from the specification (`SPEC …`, expected 0)
-/
open Glm.Hand.C14

def hexVal (c : Char) : UInt64 :=
  if '0' ≤ c ∧ c ≤ '9' then (c.toNat - '0'.toNat).toUInt64
  else if 'a' ≤ c ∧ c ≤ 'f' then (c.toNat - 'a'.toNat + 10).toUInt64
  else if 'A' ≤ c ∧ c ≤ 'F' then (c.toNat - 'A'.toNat + 10).toUInt64
  else 0
def parseHex (s : String) : UInt64 := s.foldl (fun acc c => acc * 16 + hexVal c) 0
def hexDigits : Array Char := #['0','1','2','3','4','5','6','7','8','9','a','b','c','d','e','f']
def toHex (v : UInt64) : String :=
  if v == 0 then "0" else Id.run do
    let mut cs : List Char := []
    let mut x := v
    while x != 0 do
      cs := hexDigits[(x &&& 15).toNat]! :: cs
      x := x >>> 4
    return String.ofList cs
def hexList (a : Array UInt64) : String := " ".intercalate (a.toList.map toHex)

/-- `int` argument (32-bit pattern) as a loop count -/
def stepsOf (k : UInt64) : Nat := ulpsToNat k.toUInt32
def intOf (k : UInt64) : Int := k.toUInt32.toBitVec.toInt
def b2u (b : Bool) : UInt64 := if b then 1 else 0

/-- the harness prints every NaN result as the canonical quiet NaN -/
def canon32 (x : UInt32) : UInt32 := if isNaN32 x then qNaN32 else x
def canon64 (x : UInt64) : UInt64 := if isNaN64 x then qNaN64 else x

/-- width-generic view of the model and the specification (w = 32: values are zero-extended `UInt32`) -/
structure Ops where
  isNaN : UInt64 → Bool
  isFinite : UInt64 → Bool
  next : UInt64 → UInt64
  prev : UInt64 → UInt64
  nextN : UInt64 → Nat → UInt64
  prevN : UInt64 → Nat → UInt64
  dist : UInt64 → UInt64 → UInt64
  ftNeg : UInt64 → Bool
  ftMan : UInt64 → UInt64
  ftExp : UInt64 → UInt64
  eqS : UInt64 → UInt64 → UInt64 → Bool
  eqV : UInt64 → UInt64 → UInt64 → Bool
  leAbs : UInt64 → UInt64 → Bool
  gtAbs : UInt64 → UInt64 → Bool
  ltAbs : UInt64 → UInt64 → Bool
  geAbs : UInt64 → UInt64 → Bool
  sub : UInt64 → UInt64 → UInt64
  nextafter : UInt64 → UInt64 → UInt64
  -- specification
  sNextUp : UInt64 → UInt64
  sNextDown : UInt64 → UInt64
  sNextUpN : UInt64 → Nat → UInt64
  sNextDownN : UInt64 → Nat → UInt64
  sKey : UInt64 → Int
  sKInf : Int
  sDist : UInt64 → UInt64 → Int
  sEq : UInt64 → UInt64 → Int → Bool
  sSign : UInt64 → Bool
  sMant : UInt64 → UInt64
  sExp : UInt64 → UInt64
  sLeAbs : UInt64 → UInt64 → Bool
  sGtAbs : UInt64 → UInt64 → Bool
  sNextafter : UInt64 → UInt64 → UInt64
  exactLe : UInt64 → UInt64 → UInt64 → Option Bool

def ops32 : Ops where
  isNaN x := isNaN32 x.toUInt32
  isFinite x := isFinite32 x.toUInt32
  next x := (canon32 (glmNextFloat32 x.toUInt32)).toUInt64
  prev x := (canon32 (glmPrevFloat32 x.toUInt32)).toUInt64
  nextN x n := (canon32 (glmNextFloatN32 x.toUInt32 n)).toUInt64
  prevN x n := (canon32 (glmPrevFloatN32 x.toUInt32 n)).toUInt64
  dist x y := (glmFloatDistance32 x.toUInt32 y.toUInt32).toUInt64
  ftNeg x := ftNegative32 x.toUInt32
  ftMan x := (ftMantissa32 x.toUInt32).toUInt64
  ftExp x := (ftExponent32 x.toUInt32).toUInt64
  eqS x y k := glmEqualUlps32 x.toUInt32 y.toUInt32 k.toUInt32
  eqV x y k := glmEqualUlpsVec32 x.toUInt32 y.toUInt32 k.toUInt32
  leAbs d e := glmLeAbs32 d.toUInt32 e.toUInt32
  gtAbs d e := glmGtAbs32 d.toUInt32 e.toUInt32
  ltAbs d e := glmLtAbs32 d.toUInt32 e.toUInt32
  geAbs d e := glmGeAbs32 d.toUInt32 e.toUInt32
  sub x y := (subBits32 x.toUInt32 y.toUInt32).toUInt64
  nextafter x y := (nextafter32 x.toUInt32 y.toUInt32).toUInt64
  sNextUp x := (nextUp32 x.toUInt32).toUInt64
  sNextDown x := (nextDown32 x.toUInt32).toUInt64
  sNextUpN x n := (nextUpN32 x.toUInt32 n).toUInt64
  sNextDownN x n := (nextDownN32 x.toUInt32 n).toUInt64
  sKey x := ordKey32 x.toUInt32
  sKInf := 2139095040
  sDist x y := distSpec32 x.toUInt32 y.toUInt32
  sEq x y k := equalUlpsSpec32 x.toUInt32 y.toUInt32 k
  sSign x := sign32 x.toUInt32
  sMant x := x &&& 0x007FFFFF
  sExp x := (x >>> 23) &&& 0xFF
  sLeAbs d e := leAbsSpec32 d.toUInt32 e.toUInt32
  sGtAbs d e := gtAbsSpec32 d.toUInt32 e.toUInt32
  sNextafter x y := (nextafterSpec32 x.toUInt32 y.toUInt32).toUInt64
  exactLe x y e := exactLeAbs32 x.toUInt32 y.toUInt32 e.toUInt32

def ops64 : Ops where
  isNaN x := isNaN64 x
  isFinite x := isFinite64 x
  next x := canon64 (glmNextFloat64 x)
  prev x := canon64 (glmPrevFloat64 x)
  nextN x n := canon64 (glmNextFloatN64 x n)
  prevN x n := canon64 (glmPrevFloatN64 x n)
  dist x y := glmFloatDistance64 x y
  ftNeg x := ftNegative64 x
  ftMan x := ftMantissa64 x
  ftExp x := ftExponent64 x
  eqS x y k := glmEqualUlps64 x y k.toUInt32
  eqV x y k := glmEqualUlpsVec64 x y k.toUInt32
  leAbs d e := glmLeAbs64 d e
  gtAbs d e := glmGtAbs64 d e
  ltAbs d e := glmLtAbs64 d e
  geAbs d e := glmGeAbs64 d e
  sub x y := subBits64 x y
  nextafter x y := nextafter64 x y
  sNextUp x := nextUp64 x
  sNextDown x := nextDown64 x
  sNextUpN x n := nextUpN64 x n
  sNextDownN x n := nextDownN64 x n
  sKey x := ordKey64 x
  sKInf := 9218868437227405312
  sDist x y := distSpec64 x y
  sEq x y k := equalUlpsSpec64 x y k
  sSign x := sign64 x
  sMant x := x &&& 0x000FFFFFFFFFFFFF
  sExp x := (x >>> 52) &&& 0x7FF
  sLeAbs d e := leAbsSpec64 d e
  sGtAbs d e := gtAbsSpec64 d e
  sNextafter x y := nextafterSpec64 x y
  exactLe x y e := exactLeAbs64 x y e

/-- a specification verdict: per result slot `some expected` or `none` (property silent on this slot) -/
abbrev Expect := Array (Option UInt64)

def intBits (w : Nat) (v : Int) : UInt64 :=
  if w == 32 then (UInt32.ofInt v).toUInt64 else UInt64.ofInt v

/-- mask results: expected bit i given only where defined; returns (mask of defined bits, expected bits) -/
def maskOf (bs : Array (Option Bool)) : UInt64 × UInt64 := Id.run do
  let mut dm : UInt64 := 0
  let mut ev : UInt64 := 0
  for h : i in [0:bs.size] do
    match bs[i] with
    | some b => dm := dm ||| ((1 : UInt64) <<< i.toUInt64); if b then ev := ev ||| ((1 : UInt64) <<< i.toUInt64)
    | none => pure ()
  return (dm, ev)

structure Eval where
  model : Option (Array UInt64)        -- none: not modelled on this input
  /-- per result slot: (mask of bits the property constrains, expected value under that mask) -/
  spec : Array (UInt64 × UInt64)

def full : UInt64 := 0xFFFFFFFFFFFFFFFF
def exact (v : UInt64) : UInt64 × UInt64 := (full, v)
def silent : UInt64 × UInt64 := (0, 0)

def evalLine (o : Ops) (w : Nat) (op : String) (a : Array UInt64) : Option Eval :=
  let g (i : Nat) : UInt64 := a[i]!
  let nanFree (l : List UInt64) : Bool := l.all fun x => !o.isNaN x
  let stepUp (x : UInt64) : UInt64 × UInt64 := if o.isFinite x then exact (o.sNextUp x) else silent
  let stepDown (x : UInt64) : UInt64 × UInt64 := if o.isFinite x then exact (o.sNextDown x) else silent
  let stepUpN (x : UInt64) (n : Nat) : UInt64 × UInt64 := if o.isFinite x then exact (o.sNextUpN x n) else silent
  let stepDownN (x : UInt64) (n : Nat) : UInt64 × UInt64 := if o.isFinite x then exact (o.sNextDownN x n) else silent
  let distS (x y : UInt64) : UInt64 × UInt64 := if nanFree [x, y] then exact (intBits w (o.sDist x y)) else silent
  let eqB (x y k : UInt64) : Option Bool := if nanFree [x, y] then some (o.sEq x y (intOf k)) else none
  let pairMask (es : Array (Option Bool)) : Array (UInt64 × UInt64) :=
    let (dm, ev) := maskOf es
    let (_, nv) := maskOf (es.map fun e => e.map (!·))
    #[(dm, ev), (dm, nv)]
  let m2 (f : UInt64 → UInt64 → UInt64 → Bool) (neg : Bool) (x0 y0 x1 y1 k0 k1 : UInt64) : UInt64 :=
    b2u (f x0 y0 k0 != neg) ||| (b2u (f x1 y1 k1 != neg) <<< 1)
  match op with
  | "next" | "gnext" => some ⟨some #[o.next (g 0)], #[stepUp (g 0)]⟩
  | "prev" | "gprev" => some ⟨some #[o.prev (g 0)], #[stepDown (g 0)]⟩
  | "vnext" | "gvnext" => some ⟨some #[o.next (g 0), o.next (g 1), o.next (g 2)], #[stepUp (g 0), stepUp (g 1), stepUp (g 2)]⟩
  | "vprev" | "gvprev" => some ⟨some #[o.prev (g 0), o.prev (g 1), o.prev (g 2)], #[stepDown (g 0), stepDown (g 1), stepDown (g 2)]⟩
  | "nextN" | "gnextN" => some ⟨some #[o.nextN (g 0) (stepsOf (g 1))], #[stepUpN (g 0) (stepsOf (g 1))]⟩
  | "prevN" | "gprevN" => some ⟨some #[o.prevN (g 0) (stepsOf (g 1))], #[stepDownN (g 0) (stepsOf (g 1))]⟩
  | "vnextN" | "gvnextN" =>
      let n := stepsOf (g 2); some ⟨some #[o.nextN (g 0) n, o.nextN (g 1) n], #[stepUpN (g 0) n, stepUpN (g 1) n]⟩
  | "vprevN" | "gvprevN" =>
      let n := stepsOf (g 2); some ⟨some #[o.prevN (g 0) n, o.prevN (g 1) n], #[stepDownN (g 0) n, stepDownN (g 1) n]⟩
  | "vnextNv" | "gvnextNv" =>
      some ⟨some #[o.nextN (g 0) (stepsOf (g 2)), o.nextN (g 1) (stepsOf (g 3))], #[stepUpN (g 0) (stepsOf (g 2)), stepUpN (g 1) (stepsOf (g 3))]⟩
  | "vprevNv" | "gvprevNv" =>
      some ⟨some #[o.prevN (g 0) (stepsOf (g 2)), o.prevN (g 1) (stepsOf (g 3))], #[stepDownN (g 0) (stepsOf (g 2)), stepDownN (g 1) (stepsOf (g 3))]⟩
  | "dist" | "gdist" => some ⟨some #[o.dist (g 0) (g 1)], #[distS (g 0) (g 1)]⟩
  | "vdist" | "gvdist" => some ⟨some #[o.dist (g 0) (g 1), o.dist (g 2) (g 3)], #[distS (g 0) (g 1), distS (g 2) (g 3)]⟩
  | "distN" =>
      let x := g 0; let n := stepsOf (g 1)
      if o.isNaN x then some ⟨none, #[silent]⟩
      else some ⟨some #[o.dist x (o.nextN x n)], #[if o.sKey x + n ≤ o.sKInf then exact (intBits w n) else silent]⟩
  | "distP" =>
      let x := g 0; let n := stepsOf (g 1)
      if o.isNaN x then some ⟨none, #[silent]⟩
      else some ⟨some #[o.dist x (o.prevN x n)], #[if -o.sKInf ≤ o.sKey x - n then exact (intBits w n) else silent]⟩
  | "ft" =>
      let x := g 0
      some ⟨some #[b2u (o.ftNeg x), o.ftMan x, o.ftExp x], #[exact (b2u (o.sSign x)), exact (o.sMant x), exact (o.sExp x)]⟩
  | "eqU_s" =>
      let e := o.eqS (g 0) (g 1) (g 2)
      some ⟨some #[b2u e, b2u (!e)], pairMask #[eqB (g 0) (g 1) (g 2)]⟩
  | "eqU_v" =>
      some ⟨some #[m2 o.eqV false (g 0) (g 1) (g 2) (g 3) (g 4) (g 4), m2 o.eqV true (g 0) (g 1) (g 2) (g 3) (g 4) (g 4)],
            pairMask #[eqB (g 0) (g 1) (g 4), eqB (g 2) (g 3) (g 4)]⟩
  | "eqU_vk" =>
      some ⟨some #[m2 o.eqV false (g 0) (g 1) (g 2) (g 3) (g 4) (g 5), m2 o.eqV true (g 0) (g 1) (g 2) (g 3) (g 4) (g 5)],
            pairMask #[eqB (g 0) (g 1) (g 4), eqB (g 2) (g 3) (g 5)]⟩
  | "eqU_m" =>
      let k := g 8
      let colE (c : Nat) : Bool := o.eqV (g (4*c)) (g (4*c+1)) k && o.eqV (g (4*c+2)) (g (4*c+3)) k
      let colN (c : Nat) : Bool := !(o.eqV (g (4*c)) (g (4*c+1)) k) || !(o.eqV (g (4*c+2)) (g (4*c+3)) k)
      let colS (c : Nat) : Option Bool :=
        match eqB (g (4*c)) (g (4*c+1)) k, eqB (g (4*c+2)) (g (4*c+3)) k with
        | some p, some q => some (p && q)
        | _, _ => none
      some ⟨some #[b2u (colE 0) ||| (b2u (colE 1) <<< 1), b2u (colN 0) ||| (b2u (colN 1) <<< 1)], pairMask #[colS 0, colS 1]⟩
  | "eqU_mS" =>
      -- every matrix shape: element (c, r) of the C×R matrices is pair (c*R + r) % 4; one result bit per column, shapes 2x2 … 4x4
      let k := g 8
      let pairE (p : Nat) : Bool := o.eqV (g (2*p)) (g (2*p+1)) k
      let cols : List (Nat × Nat) := [(2,2),(2,3),(2,4),(3,2),(3,3),(3,4),(4,2),(4,3),(4,4)].flatMap fun (cr : Nat × Nat) => (List.range cr.1).map fun c => (cr.2, c)
      let colE (rc : Nat × Nat) : Bool := (List.range rc.1).all fun r => pairE ((rc.2 * rc.1 + r) % 4)
      let pack (f : Nat × Nat → Bool) : UInt64 := (cols.foldl (fun (acc : UInt64 × UInt64) rc => (acc.1 ||| (b2u (f rc) <<< acc.2), acc.2 + 1)) (0, 0)).1
      let e := pack colE
      let n := pack fun rc => !(colE rc)
      some ⟨some #[e, n, e, n], #[silent, silent, silent, silent]⟩
  | "eqE_s" =>
      let d := o.sub (g 0) (g 1)
      some ⟨some #[b2u (o.leAbs d (g 2)), b2u (o.gtAbs d (g 2))], #[exact (b2u (o.sLeAbs d (g 2))), exact (b2u (o.sGtAbs d (g 2)))]⟩
  | "eps_s" =>
      let d := o.sub (g 0) (g 1)
      some ⟨some #[b2u (o.ltAbs d (g 2)), b2u (o.geAbs d (g 2))], #[exact (b2u (o.sLeAbs d (g 2))), exact (b2u (o.sGtAbs d (g 2)))]⟩
  | "eqE_v" | "eqE_vv" | "eps_v" | "eps_vv" =>
      let d0 := o.sub (g 0) (g 1); let d1 := o.sub (g 2) (g 3)
      let e0 := g 4; let e1 := if op == "eqE_vv" || op == "eps_vv" then g 5 else g 4
      let strict := op == "eps_v" || op == "eps_vv"
      let fe := if strict then o.ltAbs else o.leAbs
      let fn := if strict then o.geAbs else o.gtAbs
      some ⟨some #[b2u (fe d0 e0) ||| (b2u (fe d1 e1) <<< 1), b2u (fn d0 e0) ||| (b2u (fn d1 e1) <<< 1)],
            #[exact (b2u (o.sLeAbs d0 e0) ||| (b2u (o.sLeAbs d1 e1) <<< 1)), exact (b2u (o.sGtAbs d0 e0) ||| (b2u (o.sGtAbs d1 e1) <<< 1))]⟩
  | "eqE_m" =>
      let e := g 8
      let d (i : Nat) : UInt64 := o.sub (g (2*i)) (g (2*i+1))
      some ⟨some #[b2u (o.leAbs (d 0) e && o.leAbs (d 1) e) ||| (b2u (o.leAbs (d 2) e && o.leAbs (d 3) e) <<< 1),
                   b2u (o.gtAbs (d 0) e || o.gtAbs (d 1) e) ||| (b2u (o.gtAbs (d 2) e || o.gtAbs (d 3) e) <<< 1)],
            #[exact (b2u (o.sLeAbs (d 0) e && o.sLeAbs (d 1) e) ||| (b2u (o.sLeAbs (d 2) e && o.sLeAbs (d 3) e) <<< 1)),
              exact (b2u (o.sGtAbs (d 0) e || o.sGtAbs (d 1) e) ||| (b2u (o.sGtAbs (d 2) e || o.sGtAbs (d 3) e) <<< 1))]⟩
  | "eqE_q" | "eps_q" =>
      let e := g 8
      let d (i : Nat) : UInt64 := o.sub (g (2*i)) (g (2*i+1))
      let strict := op == "eps_q"
      let fe := if strict then o.ltAbs else o.leAbs
      let fn := if strict then o.geAbs else o.gtAbs
      let mk (f : UInt64 → UInt64 → Bool) : UInt64 :=
        b2u (f (d 0) e) ||| (b2u (f (d 1) e) <<< 1) ||| (b2u (f (d 2) e) <<< 2) ||| (b2u (f (d 3) e) <<< 3)
      some ⟨some #[mk fe, mk fn], #[exact (mk o.sLeAbs), exact (mk o.sGtAbs)]⟩
  | "nextafter" => some ⟨some #[o.nextafter (g 0) (g 1)], #[exact (o.sNextafter (g 0) (g 1))]⟩
  | "bundled" => some ⟨none, #[silent]⟩
  | _ => none

def arity (op : String) : Nat :=
  match op with
  | "next" | "prev" | "gnext" | "gprev" | "ft" => 1
  | "vnext" | "vprev" | "gvnext" | "gvprev" => 3
  | "nextN" | "prevN" | "gnextN" | "gprevN" | "dist" | "gdist" | "distN" | "distP" | "nextafter" | "bundled" => 2
  | "vnextN" | "vprevN" | "gvnextN" | "gvprevN" | "eqU_s" | "eqE_s" | "eps_s" => 3
  | "vnextNv" | "vprevNv" | "gvnextNv" | "gvprevNv" | "vdist" | "gvdist" => 4
  | "eqU_v" | "eqE_v" | "eps_v" => 5
  | "eqU_vk" | "eqE_vv" | "eps_vv" => 6
  | "eqU_m" | "eqU_mS" | "eqE_m" | "eqE_q" | "eps_q" => 9
  | _ => 0

structure OpStat where
  n : Nat := 0
  mm : Nat := 0
  sv : Nat := 0
  silent : Nat := 0
  nontrivial : Nat := 0

def runLines (path : String) : IO UInt32 := do
  let h ← IO.FS.Handle.mk path IO.FS.Mode.read
  let out ← IO.getStdout
  let mut stats : Std.HashMap String OpStat := {}
  let seenRef ← IO.mkRef ({} : Std.HashSet String)
  let mut distinctNontrivial := 0
  let mut lines := 0
  let mut bad := 0
  let mut mmPrinted := 0
  let mut svPrinted := 0
  let mut exactChecked := 0
  let mut exactImplViol := 0
  let mut exactSlack := 0
  let mut bundledN := 0
  let mut bundledDiff := 0
  let mut bundledSample : Array String := #[]
  let mut exactSample : Array String := #[]
  repeat
    let raw ← h.getLine
    if raw.isEmpty then break
    let line := (raw.takeWhile (· != '\n')).copy
    if line.isEmpty then continue
    lines := lines + 1
    let toks := line.splitOn " "
    match toks with
    | op :: ws :: rest =>
      let w := ws.toNat!
      let o := if w == 32 then ops32 else ops64
      let argToks := rest.takeWhile (· != "->")
      let resToks := (rest.dropWhile (· != "->")).drop 1
      let a := (argToks.map parseHex).toArray
      let r := (resToks.map parseHex).toArray
      if a.size != arity op || arity op == 0 then
        bad := bad + 1
        out.putStrLn s!"BAD {line}"
        continue
      match evalLine o w op a with
      | none => bad := bad + 1; out.putStrLn s!"BAD {line}"
      | some ev =>
        let key := s!"{op} {ws}"
        let st := stats.getD key {}
        let mut st := { st with n := st.n + 1 }
        -- model vs glm
        match ev.model with
        | some m =>
          if m != r then
            st := { st with mm := st.mm + 1 }
            if mmPrinted < 400 then
              mmPrinted := mmPrinted + 1
              out.putStrLn s!"MM {line} | model={hexList m}"
        | none => pure ()
        -- glm vs specification
        if ev.spec.size != r.size then
          bad := bad + 1; out.putStrLn s!"BAD {line}"
        else
          let mut viol := false
          let mut anyCon := false
          for i in [0:r.size] do
            let (dm, evv) := ev.spec[i]!
            if dm != 0 then anyCon := true
            if (r[i]! &&& dm) != (evv &&& dm) then viol := true
          if !anyCon then st := { st with silent := st.silent + 1 }
          if viol && op != "nextafter" then
            st := { st with sv := st.sv + 1 }
            if svPrinted < 300000 then
              svPrinted := svPrinted + 1
              let sp := " ".intercalate (ev.spec.toList.map fun (dm, v) => if dm == 0 then "-" else if dm == full then toHex v else s!"{toHex v}/{toHex dm}")
              out.putStrLn s!"SV {line} | spec={sp}"
          if viol && op == "nextafter" then
            -- the platform's libm differs from the C11 specification: a model problem, reported as a mismatch
            st := { st with mm := st.mm + 1 }
            if mmPrinted < 400 then
              mmPrinted := mmPrinted + 1
              out.putStrLn s!"MM {line} | libm differs from nextafterSpec"
        -- distinct / non-trivial inputs
        let inKey := s!"{op} {ws} {" ".intercalate argToks}"
        let isNew ← seenRef.modifyGet fun s => if s.contains inKey then (false, s) else (true, s.insert inKey)
        if isNew then
          let allZero := r.all (· == 0)
          let copy := r.size ≤ a.size && (List.range r.size).all fun i => r[i]! == a[i]!
          if !allZero && !copy then
            distinctNontrivial := distinctNontrivial + 1
            st := { st with nontrivial := st.nontrivial + 1 }
        stats := stats.insert key st
        -- explored, not proved: the exact-rational reading of |x - y| <= eps
        if op == "eqE_s" then
          match o.exactLe a[0]! a[1]! a[2]! with
          | some ex =>
            exactChecked := exactChecked + 1
            let glmEq := r[0]! == 1
            if ex && !glmEq then
              exactImplViol := exactImplViol + 1
              if exactSample.size < 5 then exactSample := exactSample.push s!"EXACT-IMPL {line}"
            if !ex && glmEq then
              exactSlack := exactSlack + 1
              if exactSample.size < 5 then exactSample := exactSample.push s!"EXACT-SLACK {line}"
          | none => pure ()
        -- explored: glm's bundled (dead on this platform) nextafter against the C11 specification
        if op == "bundled" then
          bundledN := bundledN + 1
          if r[0]! != o.sNextafter a[0]! a[1]! then
            bundledDiff := bundledDiff + 1
            if bundledSample.size < 5 then bundledSample := bundledSample.push s!"BUNDLED {line} | spec={toHex (o.sNextafter a[0]! a[1]!)}"
    | _ => bad := bad + 1; out.putStrLn s!"BAD {line}"
  let mut tmm := 0
  let mut tsv := 0
  let mut tsil := 0
  for (k, st) in stats.toList do
    out.putStrLn s!"OP {k} n={st.n} mm={st.mm} sv={st.sv} silent={st.silent} nontrivial={st.nontrivial}"
    tmm := tmm + st.mm; tsv := tsv + st.sv; tsil := tsil + st.silent
  for s in exactSample do out.putStrLn s
  for s in bundledSample do out.putStrLn s
  out.putStrLn s!"SUMMARY lines={lines} bad={bad} mm={tmm} sv={tsv} silent={tsil} distinct={(← seenRef.get).size} nontrivial={distinctNontrivial} exact_checked={exactChecked} exact_impl_viol={exactImplViol} exact_slack={exactSlack} bundled={bundledN} bundled_diff={bundledDiff}"
  return 0

/-! ### exhaustive sweep: the same nine values per pattern as `sweepValues` of diff/C14.cpp -/

@[inline] def fold (h v : UInt64) : UInt64 :=
  let h1 := (h ^^^ v) * 0x100000001b3
  h1 ^^^ (h1 >>> 29)

def runSweep (lo hi : Nat) : IO UInt32 := do
  let out ← IO.getStdout
  let mut specViol := 0
  let mut finite := 0
  for b in [lo:hi] do
    let mut h0 : UInt64 := 0xcbf29ce484222325
    let mut h1 := h0; let mut h2 := h0; let mut h3 := h0; let mut h4 := h0
    let mut h5 := h0; let mut h6 := h0; let mut h7 := h0; let mut h8 := h0
    for k in [0:1048576] do
      let x : UInt32 := ((b <<< 20) + k).toUInt32
      let nx := glmNextFloat32 x
      let pv := glmPrevFloat32 x
      let nan := isNaN32 x
      h0 := fold h0 nx.toUInt64
      h1 := fold h1 pv.toUInt64
      h2 := fold h2 nx.toUInt64
      h3 := fold h3 pv.toUInt64
      h4 := fold h4 ((if ftNegative32 x then (1 : UInt64) <<< 40 else 0) ||| ((ftExponent32 x).toUInt64 <<< 24) ||| (ftMantissa32 x).toUInt64)
      h5 := fold h5 (if nan then 0 else (glmFloatDistance32 x nx).toUInt64)
      h6 := fold h6 (if nan then 0 else
        b2u (glmEqualUlps32 x nx 1) ||| (b2u (glmEqualUlps32 x nx 0) <<< 1) |||
        (b2u (glmEqualUlpsVec32 x nx 1) <<< 2) ||| (b2u (glmEqualUlpsVec32 pv nx 1) <<< 3))
      let n3 := glmNextFloatN32 x 3
      let p3 := glmPrevFloatN32 x 3
      h7 := fold h7 n3.toUInt64
      h8 := fold h8 p3.toUInt64
      -- model against the specification on the same pattern (theorems re-run natively)
      if isFinite32 x then
        finite := finite + 1
        if nx != nextUp32 x || pv != nextDown32 x || n3 != nextUpN32 x 3 || p3 != nextDownN32 x 3
           || (glmFloatDistance32 x nx).toBitVec.toInt != 1
           || glmEqualUlpsVec32 x nx 1 != true || glmEqualUlpsVec32 x nx 0 != false then
          specViol := specViol + 1
    out.putStrLn s!"B {b} {toHex h0} {toHex h1} {toHex h2} {toHex h3} {toHex h4} {toHex h5} {toHex h6} {toHex h7} {toHex h8}"
  out.putStrLn s!"SPEC blocks={hi - lo} finite={finite} specviol={specViol}"
  return 0

def main (args : List String) : IO UInt32 := do
  match args with
  | ["lines", path] => runLines path
  | ["sweep", lo, hi] => runSweep lo.toNat! hi.toNat!
  | _ => IO.eprintln "usage: drv_c14 lines <file> | sweep <lo> <hi>"; return 2
