import GlmVerif.Hand.C18
/-!
Native driver of property C18 (Mathlib-free).

  drv_c18 check <file>     the file holds the B- and L-lines written by diff/C18.cpp (see there):
      B-line: re-enumerate the sweep block with the hand MODEL, fold the same 64-bit hash, compare with glm's hash;
              every model result of the block is also checked against the executable SPECIFICATION (when the hashes
              agree these are glm's results)
      L-line: compare the model with glm's result; check GLM'S result against the specification
  output: `MISMATCH …`, `SPECFAIL …` (first few per op/class), `CLASS op class count`, `OPSTAT …`, `SUMMARY …`

The definitions evaluated here are the ones the theorems of Props/C18 are about.
-/
open GlmVerif.C18

namespace DrvC18

def FNV0 : UInt64 := 0xcbf29ce484222325
def FNVP : UInt64 := 0x100000001b3

/-! ## op codes -/
def opNames : Array String := #[
  "ispow2", "ceilpow2", "nextpow2", "floorpow2", "prevpow2", "roundpow2", "hbv", "lbv", "above", "below", "nearest", "mask", "log2", "fact",   -- 0..13
  "ceilmul", "nextmul", "floormul", "prevmul", "roundmul", "ismul", "findnsb", "rotr", "rotl", "fillone", "fillzero",                          -- 14..24
  "il2x8", "il2x16", "il2x32", "il3x8", "il3x16", "il3x32", "il4x8", "il4x16", "deil16", "deil32", "deil64",                                   -- 25..35
  "nlz", "sqrtu", "sqrts", "powu", "pows", "modu", "mods", "ceilmulf", "floormulf", "roundmulf",                                                -- 36..45
  "vispow2"]                                                                                                                                    -- 46
def opCode (s : String) : Option Nat :=
  let base := (s.splitOn "@").head!
  opNames.findIdx? (· == base)
def opName (c : Nat) : String := opNames.getD c "?"

def tyWidth (t : String) : Nat := match t with
  | "i8" | "u8" => 8 | "i16" | "u16" => 16 | "i32" | "u32" | "f32" => 32 | _ => 64
def tySigned (t : String) : Bool := t.startsWith "i"
def cwOf (w : Nat) : Nat := if w < 32 then 32 else w
def lgOf (w : Nat) : Nat := if w == 8 then 4 else if w == 16 then 5 else if w == 32 then 6 else 7

@[inline] def bv (w : Nat) (x : UInt64) : BitVec w := BitVec.ofNat w x.toNat
@[inline] def ob {w : Nat} (x : BitVec w) : UInt64 := x.toNat.toUInt64
@[inline] def toI (w : Nat) (sg : Bool) (x : UInt64) : Int := if sg then (bv w x).toInt else (x.toNat : Int)

/-! ## the model, by op code -/
def modelG (op w : Nat) (sg : Bool) (a b c : UInt64) : UInt64 :=
  let cw := cwOf w
  let x := bv w a; let m := bv w b
  let ib := bv 32 b; let ic := bv 32 c
  match op with
  | 0 => (if sg then isPowerOfTwoS w cw x else isPowerOfTwoU w cw x).toUInt64
  | 1 | 2 => ob (if sg then ceilPowerOfTwoS w cw x else ceilPowerOfTwoU w x)
  | 3 | 4 => ob (if sg then floorPowerOfTwoS w cw x else floorPowerOfTwoU w cw x)
  | 5 => ob (if sg then roundPowerOfTwoS w cw x else roundPowerOfTwoU w cw x)
  | 6 => ob (highestBitValue w x)
  | 7 => ob (lowestBitValue w x)
  | 8 => ob (if sg then powerOfTwoAboveS w cw x else powerOfTwoAboveU w cw x)
  | 9 => ob (if sg then powerOfTwoBelowS w cw x else powerOfTwoBelowU w cw x)
  | 10 => ob (if sg then powerOfTwoNearestS w cw x else powerOfTwoNearestU w cw x)
  | 11 => ob (if sg then maskS w cw x else maskU w cw x)
  | 12 => ob (if sg then log2S w x else log2U w x)
  | 13 => ob (if sg then factorialS w x else factorialU w x)
  | 14 | 15 => ob (if sg then ceilMultipleS w cw x m else ceilMultipleU w cw x m)
  | 16 | 17 => ob (if sg then floorMultipleS w cw x m else floorMultipleU w cw x m)
  | 18 => ob (if sg then roundMultipleS w cw x m else roundMultipleU w cw x m)
  | 19 => (if sg then isMultipleS w cw x m else isMultipleU w cw x m).toUInt64
  | 20 => ob (findNSB w (lgOf w) x ib)
  | 21 => ob (if sg then bitfieldRotateRightS w cw x ib else bitfieldRotateRightU w cw x ib)
  | 22 => ob (if sg then bitfieldRotateLeftS w cw x ib else bitfieldRotateLeftU w cw x ib)
  | 23 => ob (if sg then bitfieldFillOneS w cw x ib ic else bitfieldFillOneU w cw x ib ic)
  | 24 => ob (if sg then bitfieldFillZeroS w cw x ib ic else bitfieldFillZeroU w cw x ib ic)
  | 46 => (if sg then isPowerOfTwoVS w cw x else isPowerOfTwoVU w x).toUInt64
  | _ => 0

/-- fixed-type ops: first result -/
def modelF (op : Nat) (a b c d : UInt64) : UInt64 :=
  match op with
  | 25 => (interleave2x8 a.toUInt8 b.toUInt8).toUInt64
  | 26 => (interleave2x16 a.toUInt16 b.toUInt16).toUInt64
  | 27 => interleave2x32 a.toUInt32 b.toUInt32
  | 28 => (interleave3x8 a.toUInt8 b.toUInt8 c.toUInt8).toUInt64
  | 29 => interleave3x16 a.toUInt16 b.toUInt16 c.toUInt16
  | 30 => interleave3x32 a.toUInt32 b.toUInt32 c.toUInt32
  | 31 => (interleave4x8 a.toUInt8 b.toUInt8 c.toUInt8 d.toUInt8).toUInt64
  | 32 => interleave4x16 a.toUInt16 b.toUInt16 c.toUInt16 d.toUInt16
  | 33 => (deinterleave16x a.toUInt16).toUInt64
  | 34 => (deinterleave32x a.toUInt32).toUInt64
  | 35 => (deinterleave64x a).toUInt64
  | 36 => ob (nlz (bv 32 a))
  | 37 => ob (sqrtU (bv 32 a))
  | 38 => ob (sqrtS (bv 32 a))
  | 39 => ob (powU (bv 32 a) (bv 32 b))
  | 40 => ob (powS (bv 32 a) (bv 32 b))
  | 41 => ob (modU (bv 32 a) (bv 32 b))
  | 42 => ob (modS (bv 32 a) (bv 32 b))
  | _ => 0
/-- second result (deinterleave) -/
def modelF2 (op : Nat) (a : UInt64) : UInt64 :=
  match op with
  | 33 => (deinterleave16y a.toUInt16).toUInt64
  | 34 => (deinterleave32y a.toUInt32).toUInt64
  | 35 => (deinterleave64y a).toUInt64
  | _ => 0
def nResults (op : Nat) : Nat := if op == 33 || op == 34 || op == 35 then 2 else 1

def modelFloat (op : Nat) (ty : String) (a b : UInt64) : UInt64 :=
  if ty == "f32" then
    let x := Float32.ofBits a.toUInt32; let m := Float32.ofBits b.toUInt32
    let r := match op with | 43 => ceilMultipleF32 x m | 44 => floorMultipleF32 x m | _ => roundMultipleF32 x m
    r.toBits.toUInt64
  else
    let x := Float.ofBits a; let m := Float.ofBits b
    let r := match op with | 43 => ceilMultipleF64 x m | 44 => floorMultipleF64 x m | _ => roundMultipleF64 x m
    r.toBits

/-- packed operands of the block form of the fixed-type ops (diff/C18.cpp `unpack`) -/
def unpack (op : Nat) (comb : UInt64) : UInt64 × UInt64 × UInt64 × UInt64 :=
  match op with
  | 25 => (comb &&& 0xff, (comb >>> 8) &&& 0xff, 0, 0)
  | 28 => (comb &&& 0xff, (comb >>> 8) &&& 0xff, (comb >>> 16) &&& 0xff, 0)
  | 31 => (comb &&& 0xff, (comb >>> 8) &&& 0xff, (comb >>> 16) &&& 0xff, (comb >>> 24) &&& 0xff)
  | 26 => (comb &&& 0xffff, (comb >>> 16) &&& 0xffff, 0, 0)
  | _ => (comb, 0, 0, 0)

/-! ## the specification, by op code.  Verdict: 0 = holds, 1 = outside the documented domain / exact result not
       representable (property silent), 2 = VIOLATED; with the input class of a violation -/
structure Verdict where
  code : Nat
  cls : String := ""

def ok : Verdict := ⟨0, ""⟩
def na : Verdict := ⟨1, ""⟩
def bad (cls : String := "unclassified") : Verdict := ⟨2, cls⟩
def chk (b : Bool) : Verdict := if b then ok else bad

/-- largest representable power of two, as an exponent bound: 2^k representable iff k < kmax -/
def specG (op w : Nat) (sg : Bool) (a b c r : UInt64) : Verdict :=
  let x := bv w a; let rv := bv w r
  let X : Int := toI w sg a; let M : Int := toI w sg b; let R : Int := toI w sg r
  let tmax : Int := if sg then (2 : Int) ^ (w - 1) - 1 else (2 : Int) ^ w - 1
  let tmin : Int := if sg then -((2 : Int) ^ (w - 1)) else 0
  let kmax := if sg then w - 1 else w          -- 2^k representable iff k < kmax
  let pos := X > 0
  match op with
  | 0 | 46 => if !pos then na else chk ((r == 1) == Spec.isPow2 x kmax)
  | 1 | 2 | 8 =>
    if !pos then na else
    let cp := Spec.ceilPow2 x w
    if cp == 0 || (sg && cp == Spec.oneAt w (w - 1)) then na else chk (rv == cp)
  | 3 | 4 | 9 => if !pos then na else chk (rv == Spec.floorPow2 x kmax)
  | 5 | 10 =>
    if !pos then na else
    let f := (Spec.floorPow2 x kmax).toNat; let xn := x.toNat; let cn := 2 * f
    if xn == f then chk (rv == x) else
    let cRep := cn ≤ tmax.toNat
    let fOk := xn - f ≤ cn - xn; let cOk := cn - xn ≤ xn - f
    if (fOk && rv.toNat == f) || (cOk && cRep && rv.toNat == cn) then ok
    else if fOk || (cOk && cRep) then bad else na
  | 6 => if a == 0 then chk (r == 0) else chk (rv == Spec.floorPow2 x w)
  | 7 => chk (rv == Spec.lowestSet x 0 w)
  | 11 => if sg && X < 0 then na else chk (rv == Spec.mask w x w)
  | 12 => if !pos then na else chk (R == (Spec.highestBit x w).toInt)
  | 13 =>
    if X < 0 then na else
    let f := Spec.fact X.toNat
    if (f : Int) > tmax then na else chk (R == f)
  | 14 | 15 =>
    if M ≤ 0 then na else
    if sg && w ≥ 32 && X == tmin then na else      -- `-Source` overflows (undefined)
    if Spec.isCeilMultiple X M R then ok else
    let A := X + (-X).emod M
    if A > tmax then na else bad
  | 16 | 17 =>
    if M ≤ 0 then na else
    if Spec.isFloorMultiple X M R then ok else
    let F := X - X.emod M
    if F < tmin then na else bad
  | 18 =>
    if M ≤ 0 then na else
    if Spec.isRoundMultiple X M R then ok else
    let F := X - X.emod M; let C := if F == X then X else F + M
    -- documented domain of the theorem: the lower neighbour is representable, and so is the upper one unless the
    -- lower one is strictly nearer
    if F < tmin || (C > tmax && !(2 * (X - F) < M)) then na else bad
  | 19 => if M ≤ 0 then na else chk ((r == 1) == (X.emod M == 0))
  | 20 =>
    let n := (bv 32 b).toInt
    if n < 1 then na else chk (bv 32 r == Spec.findNSB x (bv 32 b))
  | 21 | 22 =>
    let s := (bv 32 b).toInt
    if s < 0 || s > w then na else
    let right := Spec.rotr x (bv 32 b) w; let left := Spec.rotl x (bv 32 b) w
    let want := if op == 21 then right else left
    let other := if op == 21 then left else right
    if rv == want then ok
    else if rv == other then bad "opposite-direction"
    else if sg && X < 0 then bad "signed-negative"
    else bad
  | 23 | 24 =>
    let f := (bv 32 b).toInt; let n := (bv 32 c).toInt
    if f < 0 || n < 0 || f + n > w || f ≥ w then na else
    chk (rv == (if op == 23 then Spec.fillOne x (bv 32 b) (bv 32 c) else Spec.fillZero x (bv 32 b) (bv 32 c)))
  | _ => na

def specF (op : Nat) (a b c d r r2 : UInt64) : Verdict :=
  match op with
  | 25 => chk (r == Spec.interleave2 8 a b)
  | 26 => chk (r == Spec.interleave2 16 a b)
  | 27 => chk (r == Spec.interleave2 32 a b)
  | 28 => chk (r == Spec.interleave3 8 a b c)
  | 29 => chk (r == Spec.interleave3 16 a b c)
  | 30 => chk (r == Spec.interleave3 32 a b c)
  | 31 => chk (r == Spec.interleave4 8 a b c d)
  | 32 => chk (r == Spec.interleave4 16 a b c d)
  | 33 => chk (r == Spec.gather2 0 a 8 && r2 == Spec.gather2 1 a 8)
  | 34 => chk (r == Spec.gather2 0 a 16 && r2 == Spec.gather2 1 a 16)
  | 35 => chk (r == Spec.gather2 0 a 32 && r2 == Spec.gather2 1 a 32)
  | 36 => chk (bv 32 r == Spec.nlz (bv 32 a))
  | 37 => chk (Spec.isSqrt (a.toNat : Int) (r.toNat : Int))
  | 38 => let X := (bv 32 a).toInt; if X < 0 then na else chk (Spec.isSqrt X (bv 32 r).toInt)
  | 39 => chk ((r.toNat) == (a.toNat ^ b.toNat) % 4294967296)
  | 40 =>
    let X := (bv 32 a).toInt; let p := X ^ b.toNat
    if p > 2147483647 || p < -2147483648 then na
    else if (bv 32 r).toInt == p then ok
    else if b == 0 && X < 0 then bad "y=0,x<0" else bad
  | 41 => if b == 0 then na else chk (r.toNat == a.toNat % b.toNat)
  | 42 =>
    let X := (bv 32 a).toInt; let Y := (bv 32 b).toInt
    if Y == 0 then na else
    let t := X.tmod Y + Y
    if t > 2147483647 || t < -2147483648 then na else chk ((bv 32 r).toInt == Spec.floorMod X Y)
  | _ => na

/-- float multiples (Multiple > 0, finite operands).  `rem = fmod(x, m)` is exact.  If x is an exact multiple the
    result must be x itself (all three functions).  Otherwise, when x and m are small dyadic numbers (every
    operation of the code is then exact) the result must be exactly the neighbouring multiple in the named
    direction (round: the nearer one, either at a tie); in general (rounded arithmetic) only the bracket
    x ≤ ceil ≤ fl(x+m), fl(x−m) ≤ floor ≤ x, fl(x−m) ≤ round ≤ fl(x+m) is required (rounding is monotone). -/
def specFloat32 (op : Nat) (x m y : Float32) : Verdict :=
  if x.isNaN || x.isInf || m.isNaN || m.isInf || !(m > 0) then na else
  let rem := fmod32 x m
  if rem == 0 then chk (y == x) else
  let exact := x.abs < 65536 && m < 65536 && (x * 64).floor == x * 64 && (m * 64).floor == m * 64
  let lo := if rem > 0 then x - rem else x - rem - m
  let hi := lo + m
  match op with
  | 43 => if exact then chk (y == hi) else chk (x ≤ y && y ≤ x + m)
  | 44 => if exact then chk (y == lo) else chk (x - m ≤ y && y ≤ x)
  | _ => if exact then chk ((y == lo && x - lo ≤ hi - x) || (y == hi && hi - x ≤ x - lo)) else chk (x - m ≤ y && y ≤ x + m)
def specFloat64 (op : Nat) (x m y : Float) : Verdict :=
  if x.isNaN || x.isInf || m.isNaN || m.isInf || !(m > 0) then na else
  let rem := fmod64 x m
  if rem == 0 then chk (y == x) else
  let exact := x.abs < 4294967296 && m < 4294967296 && (x * 1024).floor == x * 1024 && (m * 1024).floor == m * 1024
  let lo := if rem > 0 then x - rem else x - rem - m
  let hi := lo + m
  match op with
  | 43 => if exact then chk (y == hi) else chk (x ≤ y && y ≤ x + m)
  | 44 => if exact then chk (y == lo) else chk (x - m ≤ y && y ≤ x)
  | _ => if exact then chk ((y == lo && x - lo ≤ hi - x) || (y == hi && hi - x ≤ x - lo)) else chk (x - m ≤ y && y ≤ x + m)
def specFloat (op : Nat) (ty : String) (a b r : UInt64) : Verdict :=
  if ty == "f32" then specFloat32 op (Float32.ofBits a.toUInt32) (Float32.ofBits b.toUInt32) (Float32.ofBits r.toUInt32)
  else specFloat64 op (Float.ofBits a) (Float.ofBits b) (Float.ofBits r)

/-! ## statistics -/
structure Stats where
  evals : Nat := 0
  nontrivial : Nat := 0
  checked : Nat := 0
  notApplicable : Nat := 0
  specfail : Nat := 0
  mismatches : Nat := 0
  blocks : Nat := 0
  lines : Nat := 0
  msgs : Array String := #[]
  classes : Array (String × String × Nat) := #[]      -- (op, class, count)
  perOp : Array (Nat × Nat × Nat) := Array.replicate 47 (0, 0, 0)     -- evals, checked, na

def Stats.addClass (s : Stats) (op cls : String) (n : Nat := 1) : Stats :=
  match s.classes.findIdx? (fun e => e.1 == op && e.2.1 == cls) with
  | some i => { s with classes := s.classes.modify i (fun e => (e.1, e.2.1, e.2.2 + n)) }
  | none => { s with classes := s.classes.push (op, cls, n) }
def Stats.classCount (s : Stats) (op cls : String) : Nat :=
  match s.classes.find? (fun e => e.1 == op && e.2.1 == cls) with | some e => e.2.2 | none => 0

def Stats.note (s : Stats) (op : Nat) (v : Verdict) (descr : Unit → String) : Stats :=
  let s := { s with evals := s.evals + 1,
                    perOp := s.perOp.modify op (fun e => (e.1 + 1, e.2.1 + (if v.code != 1 then 1 else 0), e.2.2 + (if v.code == 1 then 1 else 0))) }
  match v.code with
  | 0 => { s with checked := s.checked + 1 }
  | 1 => { s with notApplicable := s.notApplicable + 1 }
  | _ =>
    let s := { s with checked := s.checked + 1, specfail := s.specfail + 1 }
    let cnt := s.classCount (opName op) v.cls
    let s := s.addClass (opName op) v.cls
    if cnt < 4 then { s with msgs := s.msgs.push s!"SPECFAIL {descr ()} class={v.cls}" } else s

def Stats.merge (a b : Stats) : Stats :=
  let cl := b.classes.foldl (fun (acc : Stats) e => acc.addClass e.1 e.2.1 e.2.2) a
  { evals := a.evals + b.evals, nontrivial := a.nontrivial + b.nontrivial, checked := a.checked + b.checked,
    notApplicable := a.notApplicable + b.notApplicable, specfail := a.specfail + b.specfail,
    mismatches := a.mismatches + b.mismatches, blocks := a.blocks + b.blocks, lines := a.lines + b.lines,
    msgs := a.msgs ++ b.msgs, classes := cl.classes,
    perOp := (a.perOp.zip b.perOp).map (fun (p, q) => (p.1 + q.1, p.2.1 + q.2.1, p.2.2 + q.2.2)) }

/-- non-trivial: the result is neither zero nor (one of) the input(s) unchanged -/
@[inline] def nontriv (a r : UInt64) : Bool := r != 0 && r != a

/-! ## blocks and lines -/
def evalBlock (fields : Array String) : Stats := Id.run do
  let opS := fields[1]!; let ty := fields[2]!
  let some op := opCode opS | return { msgs := #[s!"MISMATCH unknown op {opS}"], mismatches := 1 }
  let p1 := fields[3]!.toNat!.toUInt64; let p2 := fields[4]!.toNat!.toUInt64
  let lo := fields[5]!.toNat!; let count := fields[6]!.toNat!
  let glmHash := fields[7]!.toNat!.toUInt64
  let w := tyWidth ty; let sg := tySigned ty
  let wm : UInt64 := if w == 64 then 0xFFFFFFFFFFFFFFFF else ((1 : UInt64) <<< w.toUInt64) - 1
  let mut h := FNV0
  -- counters are kept in locals and folded into the statistics once per block (the verdict record is only
  -- materialised for a violated specification)
  let mut st : Stats := { blocks := 1 }
  let mut nOk : Nat := 0
  let mut nNa : Nat := 0
  let mut nNt : Nat := 0
  for i in [lo:lo+count] do
    if op < 25 || op == 46 then
      let a := i.toUInt64 &&& wm
      let r := modelG op w sg a p1 p2
      h := (h ^^^ r) * FNVP
      let v := specG op w sg a p1 p2 r
      if v.code == 0 then nOk := nOk + 1
      else if v.code == 1 then nNa := nNa + 1
      else st := st.note op v (fun _ => s!"{opS} {ty} {a} {p1} {p2} 0 -> {r}")
      if nontriv a r then nNt := nNt + 1
    else
      let (a, b, c, d) := unpack op ((p1 <<< 16) ||| i.toUInt64)
      let r := modelF op a b c d
      h := (h ^^^ r) * FNVP
      let r2 := if nResults op == 2 then modelF2 op a else 0
      if nResults op == 2 then h := (h ^^^ r2) * FNVP
      let v := specF op a b c d r r2
      if v.code == 0 then nOk := nOk + 1
      else if v.code == 1 then nNa := nNa + 1
      else st := st.note op v (fun _ => s!"{opS} {ty} {a} {b} {c} {d} -> {r} {r2}")
      if nontriv a r then nNt := nNt + 1
  st := { st with evals := st.evals + nOk + nNa, checked := st.checked + nOk, notApplicable := st.notApplicable + nNa,
                  nontrivial := st.nontrivial + nNt,
                  perOp := st.perOp.modify op (fun e => (e.1 + nOk + nNa, e.2.1 + nOk, e.2.2 + nNa)) }
  if h != glmHash then
    st := { st with mismatches := st.mismatches + 1,
                    msgs := st.msgs.push s!"MISMATCH B {opS} {ty} {p1} {p2} {lo} {count} model={h} glm={glmHash}" }
  return st

def evalLine (st : Stats) (ln : String) : Stats := Id.run do
  let f := (ln.splitOn " ").toArray
  if f.size < 9 then return { st with mismatches := st.mismatches + 1, msgs := st.msgs.push s!"MISMATCH malformed line {ln}" }
  let opS := f[1]!; let ty := f[2]!
  let some op := opCode opS | return { st with mismatches := st.mismatches + 1, msgs := st.msgs.push s!"MISMATCH unknown op {opS}" }
  let a := f[3]!.toNat!.toUInt64; let b := f[4]!.toNat!.toUInt64; let c := f[5]!.toNat!.toUInt64; let d := f[6]!.toNat!.toUInt64
  let g := f[8]!.toNat!.toUInt64
  let g2 := if f.size > 9 then f[9]!.toNat!.toUInt64 else 0
  let mut st := { st with lines := st.lines + 1 }
  let (r, r2, v) :=
    if op < 25 || op == 46 then
      let w := tyWidth ty; let sg := tySigned ty
      (modelG op w sg a b c, (0 : UInt64), specG op w sg a b c g)
    else if op < 43 then
      (modelF op a b c d, (if nResults op == 2 then modelF2 op a else 0), specF op a b c d g g2)
    else
      (modelFloat op ty a b, (0 : UInt64), specFloat op ty a b g)
  if r != g || r2 != g2 then
    st := { st with mismatches := st.mismatches + 1 }
    if st.mismatches ≤ 40 then st := { st with msgs := st.msgs.push s!"MISMATCH {ln} model={r} {r2}" }
  st := st.note op v (fun _ => ln)
  if nontriv a g then st := { st with nontrivial := st.nontrivial + 1 }
  return st

def evalChunk (lines : Array String) : Stats :=
  lines.foldl evalLine {}

def check (path : String) : IO UInt32 := do
  let text ← IO.FS.readFile path
  let all := (text.splitOn "\n").toArray
  let mut tasks : Array (Task Stats) := #[]
  let mut chunk : Array String := #[]
  for ln in all do
    if ln.startsWith "B " then
      let f := (ln.splitOn " ").toArray
      if f.size ≥ 8 then tasks := tasks.push (Task.spawn fun _ => evalBlock f)
    else if ln.startsWith "L " then
      chunk := chunk.push ln
      if chunk.size ≥ 4000 then
        let ch := chunk
        tasks := tasks.push (Task.spawn fun _ => evalChunk ch)
        chunk := #[]
  if chunk.size > 0 then
    let ch := chunk
    tasks := tasks.push (Task.spawn fun _ => evalChunk ch)
  let mut tot : Stats := {}
  for t in tasks do
    tot := tot.merge t.get
  -- at most 3 SPECFAIL examples per (op, class), at most 60 MISMATCH lines
  let mut shownMis := 0
  let mut seen : Array (String × Nat) := #[]
  for m in tot.msgs do
    if m.startsWith "SPECFAIL" then
      let f := m.splitOn " "
      let key := (f.getD 2 "") ++ "|" ++ (f.getLast?.getD "")
      let n := match seen.find? (·.1 == key) with | some e => e.2 | none => 0
      if n < 3 then IO.println m
      seen := match seen.findIdx? (·.1 == key) with
        | some i => seen.modify i (fun e => (e.1, e.2 + 1))
        | none => seen.push (key, 1)
    else
      if shownMis < 60 then IO.println m
      shownMis := shownMis + 1
  for (op, cls, n) in tot.classes do IO.println s!"CLASS {op} {cls} {n}"
  for i in [0:47] do
    let e := tot.perOp[i]!
    if e.1 > 0 then IO.println s!"OPSTAT {opName i} evals={e.1} checked={e.2.1} na={e.2.2}"
  IO.println s!"SUMMARY lines={tot.lines} blocks={tot.blocks} evals={tot.evals} nontrivial={tot.nontrivial} mismatches={tot.mismatches} specchecked={tot.checked} specna={tot.notApplicable} specfail={tot.specfail}"
  return 0

end DrvC18

def main (args : List String) : IO UInt32 := do
  match args with
  | ["check", path] => DrvC18.check path
  | _ => IO.eprintln "usage: drv_c18 check <file>"; return 2
