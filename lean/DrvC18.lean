-- placeholder: native driver of property C18 (see checks/README.md)
def main (_ : List String) : IO UInt32 := do
  IO.eprintln "drv_c18: not built yet"; return 2
