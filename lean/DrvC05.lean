/-
  drv_c05 — native driver of property C05 (protocol: diff/C05.cpp, orchestration: checks/c05.py).
    drv_c05 lines <file>                 for every harness line evaluate the Lean model (Hand/C05.lean) and the executable
                                         specification (Spec.*); print `DIFF …` for each line where glm ≠ model or glm ≠ spec,
                                         `GROUP …` per (fn, ty) and a `SUMMARY …` line
    drv_c05 sweep ext16|ins8 <u|i>       the same enumeration as the harness sweep, `BLOCK <idx> <hash>` of the MODEL results,
                                         plus the number of points where model ≠ spec (`SWEEP …`)
    drv_c05 sweep un32 <fn> <u|i> [lo hi [spec]] all 2^32 values (blocks lo..hi-1 of 2^20), model hashes only
-/
import Std.Data.HashSet
import GlmVerif.Hand.C05
open GlmVerif.C05

@[inline] def i32 (x : Int32) : UInt64 := x.toUInt32.toUInt64
@[inline] def asI32 (a : UInt64) : Int32 := a.toUInt32.toInt32

def width (ty : String) : Nat :=
  match ty with
  | "u8" | "i8" => 8 | "u16" | "i16" => 16 | "u32" | "i32" => 32 | _ => 64
def isSigned (ty : String) : Bool := ty.startsWith "i"

/-- the model: (r0, r1) as raw bits, exactly as the harness prints the glm results -/
def model (fn form ty : String) (a0 a1 a2 a3 : UInt64) : Option (UInt64 × UInt64) :=
  let vec := form != "s"
  match fn, ty with
  | "bitCount", "u8" => some (i32 (bitCount_U8 a0.toUInt8), 0)
  | "bitCount", "i8" => some (i32 (bitCount_I8 a0.toUInt8.toInt8), 0)
  | "bitCount", "u16" => some (i32 (bitCount_U16 a0.toUInt16), 0)
  | "bitCount", "i16" => some (i32 (bitCount_I16 a0.toUInt16.toInt16), 0)
  | "bitCount", "u32" => some (i32 (bitCount_U32 a0.toUInt32), 0)
  | "bitCount", "i32" => some (i32 (bitCount_I32 a0.toUInt32.toInt32), 0)
  | "bitCount", "u64" => some (i32 (bitCount_U64 a0), 0)
  | "bitCount", "i64" => some (i32 (bitCount_I64 a0.toInt64), 0)
  | "findLSB", "u8" => some (i32 (findLSB_U8 a0.toUInt8), 0)
  | "findLSB", "i8" => some (i32 (findLSB_I8 a0.toUInt8.toInt8), 0)
  | "findLSB", "u16" => some (i32 (findLSB_U16 a0.toUInt16), 0)
  | "findLSB", "i16" => some (i32 (findLSB_I16 a0.toUInt16.toInt16), 0)
  | "findLSB", "u32" => some (i32 (findLSB_U32 a0.toUInt32), 0)
  | "findLSB", "i32" => some (i32 (findLSB_I32 a0.toUInt32.toInt32), 0)
  | "findLSB", "u64" => some (i32 (findLSB_U64 a0), 0)
  | "findLSB", "i64" => some (i32 (findLSB_I64 a0.toInt64), 0)
  | "findMSB", "u8" => some (i32 (findMSB_U8 a0.toUInt8), 0)
  | "findMSB", "i8" => some (i32 (findMSB_I8 a0.toUInt8.toInt8), 0)
  | "findMSB", "u16" => some (i32 (findMSB_U16 a0.toUInt16), 0)
  | "findMSB", "i16" => some (i32 (findMSB_I16 a0.toUInt16.toInt16), 0)
  | "findMSB", "u32" => some (i32 (findMSB_U32 a0.toUInt32), 0)
  | "findMSB", "i32" => some (i32 (findMSB_I32 a0.toUInt32.toInt32), 0)
  | "findMSB", "u64" => some (i32 (findMSB_U64 a0), 0)
  | "findMSB", "i64" => some (i32 (findMSB_I64 a0.toInt64), 0)
  | "bitfieldReverse", "u8" => some ((bitfieldReverse_U8 a0.toUInt8).toUInt64, 0)
  | "bitfieldReverse", "i8" => some ((bitfieldReverse_I8 a0.toUInt8.toInt8).toUInt8.toUInt64, 0)
  | "bitfieldReverse", "u16" => some ((bitfieldReverse_U16 a0.toUInt16).toUInt64, 0)
  | "bitfieldReverse", "i16" => some ((bitfieldReverse_I16 a0.toUInt16.toInt16).toUInt16.toUInt64, 0)
  | "bitfieldReverse", "u32" => some ((bitfieldReverse_U32 a0.toUInt32).toUInt64, 0)
  | "bitfieldReverse", "i32" => some ((bitfieldReverse_I32 a0.toUInt32.toInt32).toUInt32.toUInt64, 0)
  | "bitfieldReverse", "u64" => some (bitfieldReverse_U64 a0, 0)
  | "bitfieldReverse", "i64" => some ((bitfieldReverse_I64 a0.toInt64).toUInt64, 0)
  | "bitfieldExtract", "u8" => some ((bitfieldExtract_U8 a0.toUInt8 (asI32 a1) (asI32 a2)).toUInt64, 0)
  | "bitfieldExtract", "i8" => some ((bitfieldExtract_I8 a0.toUInt8.toInt8 (asI32 a1) (asI32 a2)).toUInt8.toUInt64, 0)
  | "bitfieldExtract", "u16" => some ((bitfieldExtract_U16 a0.toUInt16 (asI32 a1) (asI32 a2)).toUInt64, 0)
  | "bitfieldExtract", "i16" => some ((bitfieldExtract_I16 a0.toUInt16.toInt16 (asI32 a1) (asI32 a2)).toUInt16.toUInt64, 0)
  | "bitfieldExtract", "u32" => some ((bitfieldExtract_U32 a0.toUInt32 (asI32 a1) (asI32 a2)).toUInt64, 0)
  | "bitfieldExtract", "i32" => some ((bitfieldExtract_I32 a0.toUInt32.toInt32 (asI32 a1) (asI32 a2)).toUInt32.toUInt64, 0)
  | "bitfieldExtract", "u64" => some (bitfieldExtract_U64 a0 (asI32 a1) (asI32 a2), 0)
  | "bitfieldExtract", "i64" => some ((bitfieldExtract_I64 a0.toInt64 (asI32 a1) (asI32 a2)).toUInt64, 0)
  | "bitfieldInsert", "u8" => some ((bitfieldInsert_U8 a0.toUInt8 a1.toUInt8 (asI32 a2) (asI32 a3)).toUInt64, 0)
  | "bitfieldInsert", "i8" => some ((bitfieldInsert_I8 a0.toUInt8.toInt8 a1.toUInt8.toInt8 (asI32 a2) (asI32 a3)).toUInt8.toUInt64, 0)
  | "bitfieldInsert", "u16" => some ((bitfieldInsert_U16 a0.toUInt16 a1.toUInt16 (asI32 a2) (asI32 a3)).toUInt64, 0)
  | "bitfieldInsert", "i16" => some ((bitfieldInsert_I16 a0.toUInt16.toInt16 a1.toUInt16.toInt16 (asI32 a2) (asI32 a3)).toUInt16.toUInt64, 0)
  | "bitfieldInsert", "u32" => some ((bitfieldInsert_U32 a0.toUInt32 a1.toUInt32 (asI32 a2) (asI32 a3)).toUInt64, 0)
  | "bitfieldInsert", "i32" => some ((bitfieldInsert_I32 a0.toUInt32.toInt32 a1.toUInt32.toInt32 (asI32 a2) (asI32 a3)).toUInt32.toUInt64, 0)
  | "bitfieldInsert", "u64" => some (bitfieldInsert_U64 a0 a1 (asI32 a2) (asI32 a3), 0)
  | "bitfieldInsert", "i64" => some ((bitfieldInsert_I64 a0.toInt64 a1.toInt64 (asI32 a2) (asI32 a3)).toUInt64, 0)
  | "uaddCarry", "u32" =>
    let x := a0.toUInt32; let y := a1.toUInt32
    if vec then some ((uaddCarryV_res x y).toUInt64, (uaddCarryV_carry x y).toUInt64)
    else some ((uaddCarry_res x y).toUInt64, (uaddCarry_carry x y).toUInt64)
  | "usubBorrow", "u32" =>
    let x := a0.toUInt32; let y := a1.toUInt32
    if vec then some ((usubBorrowV_res x y).toUInt64, (usubBorrowV_borrow x y).toUInt64)
    else some ((usubBorrow_res x y).toUInt64, (usubBorrow_borrow x y).toUInt64)
  | "umulExtended", "u32" =>
    let x := a0.toUInt32; let y := a1.toUInt32
    if vec then some ((umulExtendedV_msb x y).toUInt64, (umulExtendedV_lsb x y).toUInt64)
    else some ((umulExtended_msb x y).toUInt64, (umulExtended_lsb x y).toUInt64)
  | "imulExtended", "i32" =>
    let x := asI32 a0; let y := asI32 a1
    if vec then some (i32 (imulExtendedV_msb x y), i32 (imulExtendedV_lsb x y))
    else some (i32 (imulExtended_msb x y), i32 (imulExtended_lsb x y))
  | _, _ => none

/-- the executable specification on the same raw-bit interface -/
def spec (fn ty : String) (a0 a1 a2 a3 : UInt64) : Option (UInt64 × UInt64) :=
  let w := width ty
  match fn with
  | "bitCount" => some (i32 (Spec.bitCount w a0), 0)
  | "findLSB" => some (i32 (Spec.findLSB w a0), 0)
  | "findMSB" => some (i32 (Spec.findMSB (isSigned ty) w a0), 0)
  | "bitfieldReverse" => some (Spec.reverse w a0, 0)
  | "bitfieldExtract" => some (Spec.extract (isSigned ty) w a0 a1 a2, 0)
  | "bitfieldInsert" => some (Spec.insert w a0 a1 a2 a3, 0)
  | "uaddCarry" => some (UInt64.ofNat (Spec.uaddSum a0.toNat a1.toNat), UInt64.ofNat (Spec.uaddCarry a0.toNat a1.toNat))
  | "usubBorrow" => some (UInt64.ofNat (Spec.usubDiff a0.toNat a1.toNat), UInt64.ofNat (Spec.usubBorrow a0.toNat a1.toNat))
  | "umulExtended" => some (UInt64.ofNat (Spec.umulMsb a0.toNat a1.toNat), UInt64.ofNat (Spec.umulLsb a0.toNat a1.toNat))
  | "imulExtended" =>
    let x := (asI32 a0).toInt; let y := (asI32 a1).toInt
    some (UInt64.ofNat ((Spec.imulMsb x y) % (2^32 : Int)).toNat, UInt64.ofNat (Spec.imulLsb x y).toNat)
  | _ => none

@[inline] def fold (h r : UInt64) : UInt64 := (h ^^^ r) * 0x100000001B3 + 0x9E3779B97F4A7C15

structure Grp where
  n : Nat := 0
  md : Nat := 0
  sd : Nat := 0
  printed : Nat := 0

/-- at most this many DIFF lines per (fn, ty); the GROUP counters are exact, checks/c05.py alarms when the cap was hit -/
def diffCap : Nat := 1000000

def runLines (path : String) : IO UInt32 := do
  let h ← IO.FS.Handle.mk path IO.FS.Mode.read
  let mut lines := 0
  let mut bad := 0
  let mut md := 0
  let mut sd := 0
  let mut nontriv := 0
  let mut seen : Std.HashSet UInt64 := {}
  let mut groups : Std.HashMap String Grp := {}
  repeat
    let ln ← h.getLine
    if ln.isEmpty then break
    let ln := ln.trimAsciiEnd.toString
    if ln.isEmpty then continue
    lines := lines + 1
    match ln.splitOn " " with
    | [fn, form, ty, s0, s1, s2, s3, t0, t1] =>
      match s0.toNat?, s1.toNat?, s2.toNat?, s3.toNat?, t0.toNat?, t1.toNat? with
      | some n0, some n1, some n2, some n3, some q0, some q1 =>
        let a0 := UInt64.ofNat n0; let a1 := UInt64.ofNat n1; let a2 := UInt64.ofNat n2; let a3 := UInt64.ofNat n3
        let g0 := UInt64.ofNat q0; let g1 := UInt64.ofNat q1
        match model fn form ty a0 a1 a2 a3, spec fn ty a0 a1 a2 a3 with
        | some (m0, m1), some (p0, p1) =>
          let dm := !(m0 == g0 && m1 == g1)
          let ds := !(p0 == g0 && p1 == g1)
          let key := fn ++ " " ++ ty
          let g := groups.getD key {}
          let pr := (dm || ds) && g.printed < diffCap
          groups := groups.insert key { n := g.n + 1, md := g.md + (if dm then 1 else 0), sd := g.sd + (if ds then 1 else 0),
                                        printed := g.printed + (if pr then 1 else 0) }
          if dm then md := md + 1
          if ds then sd := sd + 1
          -- distinct non-trivial inputs: the result is neither the (first) input unchanged nor zero
          let hk := mixHash (hash key) (mixHash (mixHash (hash a0) (hash a1)) (mixHash (hash a2) (hash a3)))
          if !seen.contains hk then
            seen := seen.insert hk
            if !(g0 == a0) && !(g0 == 0) then nontriv := nontriv + 1
          if pr then
              IO.println s!"DIFF {if dm then "m" else ""}{if ds then "s" else ""} {ln} model={m0},{m1} spec={p0},{p1}"
        | _, _ => bad := bad + 1; IO.println s!"BAD unknown-op {ln}"
      | _, _, _, _, _, _ => bad := bad + 1; IO.println s!"BAD number {ln}"
    | _ => bad := bad + 1; IO.println s!"BAD shape {ln}"
  for (k, g) in groups.toList do
    IO.println s!"GROUP {k} n={g.n} modeldiff={g.md} specdiff={g.sd} printed={g.printed}"
  IO.println s!"SUMMARY lines={lines} bad={bad} modeldiff={md} specdiff={sd} nontrivial={nontriv} distinct={seen.size}"
  return 0

/-- ext16: block = one (offset, bits) pair of the 16-bit domain, all 65536 values -/
def sweepExt16 (sgn : Bool) : IO Unit := do
  let mut idx := 0
  let mut evals := 0
  let mut msd := 0
  let mut nontriv := 0
  for off in [0:17] do
    for bits in [0:17 - off] do
      let o := UInt64.ofNat off; let b := UInt64.ofNat bits
      let mut h : UInt64 := 0
      for v in [0:65536] do
        let a := UInt64.ofNat v
        let r := if sgn then (bitfieldExtract_I16 a.toUInt16.toInt16 (asI32 o) (asI32 b)).toUInt16.toUInt64
                 else (bitfieldExtract_U16 a.toUInt16 (asI32 o) (asI32 b)).toUInt64
        h := fold (fold h r) 0
        if !(r == Spec.extract sgn 16 a o b) then msd := msd + 1
        if !(r == a) && !(r == 0) then nontriv := nontriv + 1
        evals := evals + 1
      IO.println s!"BLOCK {idx} {h}"
      idx := idx + 1
  IO.println s!"SWEEP ext16 evals={evals} modelspecdiff={msd} nontrivial={nontriv}"

/-- ins8: block = one (offset, bits) pair of the 8-bit domain, all 256 × 256 (base, insert) -/
def sweepIns8 (sgn : Bool) : IO Unit := do
  let mut idx := 0
  let mut evals := 0
  let mut msd := 0
  let mut nontriv := 0
  for off in [0:9] do
    for bits in [0:9 - off] do
      let o := UInt64.ofNat off; let b := UInt64.ofNat bits
      let mut h : UInt64 := 0
      for x in [0:256] do
        for y in [0:256] do
          let bx := UInt64.ofNat x; let iy := UInt64.ofNat y
          let r := if sgn then (bitfieldInsert_I8 bx.toUInt8.toInt8 iy.toUInt8.toInt8 (asI32 o) (asI32 b)).toUInt8.toUInt64
                   else (bitfieldInsert_U8 bx.toUInt8 iy.toUInt8 (asI32 o) (asI32 b)).toUInt64
          h := fold (fold h r) 0
          if !(r == Spec.insert 8 bx iy o b) then msd := msd + 1
          if !(r == bx) && !(r == 0) then nontriv := nontriv + 1
          evals := evals + 1
      IO.println s!"BLOCK {idx} {h}"
      idx := idx + 1
  IO.println s!"SWEEP ins8 evals={evals} modelspecdiff={msd} nontrivial={nontriv}"

@[inline] def un32 (fn : Nat) (sgn : Bool) (v : UInt32) : UInt64 :=
  match fn, sgn with
  | 0, false => i32 (bitCount_U32 v)
  | 0, true => i32 (bitCount_I32 v.toInt32)
  | 1, false => i32 (findLSB_U32 v)
  | 1, true => i32 (findLSB_I32 v.toInt32)
  | 2, false => i32 (findMSB_U32 v)
  | 2, true => i32 (findMSB_I32 v.toInt32)
  | _, false => (bitfieldReverse_U32 v).toUInt64
  | _, true => (bitfieldReverse_I32 v.toInt32).toUInt32.toUInt64

partial def blockHash (fn : Nat) (sgn : Bool) (v stop : UInt64) (h : UInt64) (nt : UInt64) : UInt64 × UInt64 :=
  if v == stop then (h, nt) else
  let r := un32 fn sgn v.toUInt32
  blockHash fn sgn (v + 1) stop (fold (fold h r) 0) (if !(r == v) && !(r == 0) then nt + 1 else nt)

@[inline] def un32Spec (fn : Nat) (sgn : Bool) (v : UInt32) : UInt64 :=
  match fn with
  | 0 => i32 (Spec.bitCount 32 v.toUInt64)
  | 1 => i32 (Spec.findLSB 32 v.toUInt64)
  | 2 => i32 (Spec.findMSB sgn 32 v.toUInt64)
  | _ => Spec.reverse 32 v.toUInt64

/-- as blockHash, and additionally counts the points of the block where model ≠ spec -/
partial def blockHashSpec (fn : Nat) (sgn : Bool) (v stop : UInt64) (h nt bad : UInt64) : UInt64 × UInt64 × UInt64 :=
  if v == stop then (h, nt, bad) else
  let r := un32 fn sgn v.toUInt32
  blockHashSpec fn sgn (v + 1) stop (fold (fold h r) 0) (if !(r == v) && !(r == 0) then nt + 1 else nt)
    (if r == un32Spec fn sgn v.toUInt32 then bad else bad + 1)

def sweepUn32 (fnName : String) (sgn : Bool) (lo hi : Nat) (withSpec : Bool) : IO Unit := do
  let fn := match fnName with | "bitCount" => 0 | "findLSB" => 1 | "findMSB" => 2 | _ => 3
  let mut nontriv : UInt64 := 0
  let mut msd : UInt64 := 0
  for blk in [lo:hi] do
    let start := (UInt64.ofNat blk) <<< 20
    if withSpec then
      let (h, nt, bad) := blockHashSpec fn sgn start (start + 0x100000) 0 0 0
      nontriv := nontriv + nt; msd := msd + bad
      IO.println s!"BLOCK {blk} {h}"
    else
      let (h, nt) := blockHash fn sgn start (start + 0x100000) 0 0
      nontriv := nontriv + nt
      IO.println s!"BLOCK {blk} {h}"
  IO.println s!"SWEEP un32 evals={(hi - lo) * 1048576} modelspecdiff={msd} nontrivial={nontriv} spec={withSpec}"

def main (args : List String) : IO UInt32 := do
  match args with
  | ["lines", path] => runLines path
  | ["sweep", "ext16", s] => sweepExt16 (s == "i"); return 0
  | ["sweep", "ins8", s] => sweepIns8 (s == "i"); return 0
  | ["sweep", "un32", fn, s] => sweepUn32 fn (s == "i") 0 4096 false; return 0
  | ["sweep", "un32", fn, s, lo, hi] => sweepUn32 fn (s == "i") lo.toNat! hi.toNat! false; return 0
  | ["sweep", "un32", fn, s, lo, hi, "spec"] => sweepUn32 fn (s == "i") lo.toNat! hi.toNat! true; return 0
  | _ => IO.eprintln "usage: drv_c05 lines <file> | sweep ext16|ins8 <u|i> | sweep un32 <fn> <u|i> [lo hi [spec]]"; return 2
