-- placeholder: native driver of property C05 (see checks/README.md)
def main (_ : List String) : IO UInt32 := do
  IO.eprintln "drv_c05: not built yet"; return 2
