import GlmVerif.Hand.C11
import Std.Data.HashSet
import GlmVerif.Gen.C11Consts
/-!
# drv_c11 — native driver of property C11

  drv_c11 lines <file>                       read the harness's lines `op ty args.. -> res..`, evaluate the
                                             model (Hand/C11.lean) and the executable specification on glm's
                                             results; print MISMATCH / SPECFAIL lines and a `CORR …` summary
  drv_c11 sweep <op> <quick|thorough> b0 b1  block hashes of the model over the unary binary32 sweep
                                             (same enumeration and FNV-1a fold as diff/C11.cpp)
  drv_c11 consts                             bits each parsed literal must produce (from Gen/C11Consts.lean … via
                                             the rational rounding of Hand/C11.lean §9) — see `constsMain`

Comparison modes of a result: `exact` bit for bit; `nanc` NaN as a class (arithmetic results);
`zsgn` additionally tolerates the sign of a zero (libm `fmin/fmax(+0,-0)` is unspecified by C).
-/
open GlmVerif.C11

/-- the model functions at one precision; bit patterns travel as `UInt64` -/
structure M where
  isF : Bool
  signMask : UInt64
  quietBit : UInt64
  isNaN : UInt64 → Bool
  isInf : UInt64 → Bool
  isFinite : UInt64 → Bool
  isZero : UInt64 → Bool
  lt : UInt64 → UInt64 → Bool
  le : UInt64 → UInt64 → Bool
  feq : UInt64 → UInt64 → Bool
  zero : UInt64
  one : UInt64
  negOne : UInt64
  half : UInt64
  min : UInt64 → UInt64 → UInt64
  max : UInt64 → UInt64 → UInt64
  fmin2 : UInt64 → UInt64 → UInt64
  fmax2 : UInt64 → UInt64 → UInt64
  fmin3 : UInt64 → UInt64 → UInt64 → UInt64
  fmax3 : UInt64 → UInt64 → UInt64 → UInt64
  fmin4 : UInt64 → UInt64 → UInt64 → UInt64 → UInt64
  fmax4 : UInt64 → UInt64 → UInt64 → UInt64 → UInt64
  abs : UInt64 → UInt64
  sign : UInt64 → UInt64
  floorS : UInt64 → UInt64
  ceilS : UInt64 → UInt64
  truncS : UInt64 → UInt64
  roundS : UInt64 → UInt64
  rintS : UInt64 → UInt64
  roundEven : UInt64 → UInt64
  fract : UInt64 → UInt64
  modfInt : UInt64 → UInt64
  modfFrac : UInt64 → UInt64
  mirrorRepeat : UInt64 → UInt64
  iround : UInt64 → UInt32
  uround : UInt64 → UInt32
  fadd : UInt64 → UInt64 → UInt64
  /-- |x − n| ≤ 1/2 for the integer n (exact) -/
  nearestInt : UInt64 → UInt32 → Bool
  -- formulas glm evaluates in plain IEEE arithmetic (not modelled in soft-float): native ops
  nMix : UInt64 → UInt64 → UInt64 → UInt64
  nSmooth : UInt64 → UInt64 → UInt64 → UInt64
  nMod : UInt64 → UInt64 → UInt64
  nLdexp : UInt64 → Int → UInt64
  nFrexpOK : UInt64 → UInt64 → Int → Bool

@[inline] def w32 (f : UInt32 → UInt32) : UInt64 → UInt64 := fun x => (f x.toUInt32).toUInt64
@[inline] def w32b (f : UInt32 → Bool) : UInt64 → Bool := fun x => f x.toUInt32
@[inline] def w322 (f : UInt32 → UInt32 → UInt32) : UInt64 → UInt64 → UInt64 := fun x y => (f x.toUInt32 y.toUInt32).toUInt64
@[inline] def w322b (f : UInt32 → UInt32 → Bool) : UInt64 → UInt64 → Bool := fun x y => f x.toUInt32 y.toUInt32
@[inline] def f32 (x : UInt64) : Float32 := Float32.ofBits x.toUInt32
@[inline] def b32 (x : Float32) : UInt64 := x.toBits.toUInt64

def idist (x : UInt32) (n : UInt64) : UInt64 :=
  if fix24 x ≥ (n <<< 24) then fix24 x - (n <<< 24) else (n <<< 24) - fix24 x

def mF : M where
  isF := true
  signMask := 0x80000000
  quietBit := 0x400000
  isNaN := w32b isNaN
  isInf := w32b isInf
  isFinite := w32b isFinite
  isZero := w32b isZero
  lt := w322b lt
  le := w322b le
  feq := w322b feq
  zero := fZero.toUInt64
  one := fOne.toUInt64
  negOne := fNegOne.toUInt64
  half := fHalf.toUInt64
  min := w322 GlmVerif.C11.min
  max := w322 GlmVerif.C11.max
  fmin2 := w322 fmin2
  fmax2 := w322 fmax2
  fmin3 := fun a b c => (fmin3 a.toUInt32 b.toUInt32 c.toUInt32).toUInt64
  fmax3 := fun a b c => (fmax3 a.toUInt32 b.toUInt32 c.toUInt32).toUInt64
  fmin4 := fun a b c d => (fmin4 a.toUInt32 b.toUInt32 c.toUInt32 d.toUInt32).toUInt64
  fmax4 := fun a b c d => (fmax4 a.toUInt32 b.toUInt32 c.toUInt32 d.toUInt32).toUInt64
  abs := w32 abs
  sign := w32 sign
  floorS := w32 floorS
  ceilS := w32 ceilS
  truncS := w32 truncS
  roundS := w32 roundS
  rintS := w32 rintS
  roundEven := w32 roundEven
  fract := w32 fract
  modfInt := w32 modfInt
  modfFrac := w32 modfFrac
  mirrorRepeat := w32 mirrorRepeat
  iround := fun x => (iround x.toUInt32).toUInt32
  uround := fun x => uround x.toUInt32
  fadd := w322 fadd
  nearestInt := fun x n =>
    let x := x.toUInt32
    if expo x < 126 then n == 0 else idist x n.toUInt64 ≤ 0x800000
  nMix := fun x y a => b32 (f32 x * (1 - f32 a) + f32 y * f32 a)
  nSmooth := fun e0 e1 x =>
    let t := (f32 x - f32 e0) / (f32 e1 - f32 e0)
    let t := Float32.ofBits (clamp t.toBits fZero fOne)
    b32 (t * t * (3 - 2 * t))
  nMod := fun a b => b32 (f32 a - f32 b * (f32 a / f32 b).floor)
  nLdexp := fun x e => b32 ((f32 x).scaleB e)
  nFrexpOK := fun x m e =>
    let xv := f32 x
    let mv := f32 m
    if xv.isNaN then mv.isNaN
    else if xv.isInf || xv == 0 then m == x
    else mv.abs ≥ 0.5 && mv.abs < 1 && (mv.scaleB e).toBits == xv.toBits

@[inline] def f64 (x : UInt64) : Float := Float.ofBits x

def mD : M where
  isF := false
  signMask := 0x8000000000000000
  quietBit := 0x8000000000000
  isNaN := D.isNaN
  isInf := D.isInf
  isFinite := D.isFinite
  isZero := D.isZero
  lt := D.lt
  le := D.le
  feq := D.feq
  zero := D.fZero
  one := D.fOne
  negOne := D.fNegOne
  half := D.fHalf
  min := D.min
  max := D.max
  fmin2 := D.fmin2
  fmax2 := D.fmax2
  fmin3 := D.fmin3
  fmax3 := D.fmax3
  fmin4 := D.fmin4
  fmax4 := D.fmax4
  abs := D.abs
  sign := D.sign
  floorS := D.floorS
  ceilS := D.ceilS
  truncS := D.truncS
  roundS := D.roundS
  rintS := D.rintS
  roundEven := D.roundEven
  fract := D.fract
  modfInt := D.modfInt
  modfFrac := D.modfFrac
  mirrorRepeat := D.mirrorRepeat
  iround := fun x => (D.iround x).toUInt32
  uround := D.uround
  fadd := D.fadd
  nearestInt := fun x n => (f64 x - n.toFloat).abs ≤ 0.5     -- exact: x < 2^32 and n are multiples of ulp(x)
  nMix := fun x y a => (f64 x * (1 - f64 a) + f64 y * f64 a).toBits
  nSmooth := fun e0 e1 x =>
    let t := (f64 x - f64 e0) / (f64 e1 - f64 e0)
    let t := Float.ofBits (D.clamp t.toBits D.fZero D.fOne)
    (t * t * (3 - 2 * t)).toBits
  nMod := fun a b => (f64 a - f64 b * (f64 a / f64 b).floor).toBits
  nLdexp := fun x e => ((f64 x).scaleB e).toBits
  nFrexpOK := fun x m e =>
    let xv := f64 x
    let mv := f64 m
    if xv.isNaN then mv.isNaN
    else if xv.isInf || xv == 0 then m == x
    else mv.abs ≥ 0.5 && mv.abs < 1 && (mv.scaleB e).toBits == xv.toBits

namespace M
variable (m : M)
@[inline] def same (x y : UInt64) : Bool := x == y || (m.isNaN x && m.isNaN y)
@[inline] def zsame (x y : UInt64) : Bool := m.same x y || (m.isZero x && m.isZero y)
@[inline] def clamp (x lo hi : UInt64) : UInt64 := m.min (m.max x lo) hi
@[inline] def fclamp (x lo hi : UInt64) : UInt64 := m.fmin2 (m.fmax2 x lo) hi
@[inline] def step (edge x : UInt64) : UInt64 := if m.lt x edge then m.zero else m.one
@[inline] def in01 (r : UInt64) : Bool := m.le m.zero r && m.le r m.one
/-- `r` is one of the operands (bit-identical; with `z`: up to the sign of a zero) -/
def isArg (z : Bool) (r : UInt64) (a : Array UInt64) : Bool :=
  a.any fun x => if z then m.zsame r x else r == x
def allNaN (a : Array UInt64) : Bool := a.all m.isNaN
def noNaN (a : Array UInt64) : Bool := a.all fun x => !m.isNaN x
/-- order-theoretic minimum of the non-NaN operands -/
def isMinOfNonNaN (r : UInt64) (a : Array UInt64) : Bool :=
  a.all (fun x => m.isNaN x || m.le r x) && a.any (fun x => m.feq r x)
def isMaxOfNonNaN (r : UInt64) (a : Array UInt64) : Bool :=
  a.all (fun x => m.isNaN x || m.le x r) && a.any (fun x => m.feq r x)
end M

inductive Cmp | exact | nanc | zsgn
deriving BEq

/-- model results of one line with the comparison mode of each result -/
def evalModel (m : M) (op : String) (a : Array UInt64) : Option (Array UInt64 × Cmp) :=
  let x := a[0]!
  let y := a.getD 1 0
  let z := a.getD 2 0
  let w := a.getD 3 0
  match op, a.size with
  | "floor", 1 => some (#[m.floorS x], .nanc)
  | "ceil", 1 => some (#[m.ceilS x], .nanc)
  | "trunc", 1 => some (#[m.truncS x], .nanc)
  | "round", 1 => some (#[m.roundS x], .nanc)
  | "roundEven", 1 => some (#[m.roundEven x], .nanc)
  | "fract", 1 => some (#[m.fract x], .nanc)
  | "abs", 1 => some (#[m.abs x], .exact)
  | "sign", 1 => some (#[m.sign x], .exact)
  | "isnan", 1 => some (#[(m.isNaN x).toUInt64], .exact)
  | "isinf", 1 => some (#[(m.isInf x).toUInt64], .exact)
  | "iround", 1 => some (#[(m.iround x).toUInt64], .exact)
  | "uround", 1 => some (#[(m.uround x).toUInt64], .exact)
  | "wrapClamp", 1 => some (#[m.clamp x m.zero m.one], .exact)
  | "repeat", 1 => some (#[m.fract x], .nanc)
  | "mirrorClamp", 1 => some (#[m.fract (m.abs x)], .nanc)
  | "mirrorRepeat", 1 => some (#[m.mirrorRepeat x], .nanc)
  | "modf", 1 => some (#[m.modfFrac x, m.modfInt x], .nanc)
  | "v4", 1 =>
    let nx := x ^^^ m.signMask
    some (#[m.floorS x, m.floorS nx, m.roundEven x, m.roundEven nx, m.fract x, m.fract nx,
            m.sign x, m.sign nx, m.abs x, m.abs nx, m.mirrorRepeat x, m.mirrorRepeat nx], .nanc)
  | "min", 2 => some (#[m.min x y], .exact)
  | "max", 2 => some (#[m.max x y], .exact)
  | "fmin2", 2 => some (#[m.fmin2 x y], .zsgn)
  | "fmax2", 2 => some (#[m.fmax2 x y], .zsgn)
  | "step", 2 => some (#[m.step x y], .exact)
  | "mod", 2 => some (#[m.nMod x y], .nanc)
  | "fadd", 2 => some (#[m.fadd x y], .nanc)
  | "cmp", 2 =>
    some (#[(m.lt x y).toUInt64 ||| ((m.le x y).toUInt64 <<< 1) ||| ((m.feq x y).toUInt64 <<< 2) |||
            ((m.le y x).toUInt64 <<< 3) ||| ((m.lt y x).toUInt64 <<< 4)], .exact)
  | "ldexp", 2 => some (#[m.nLdexp x y.toUInt32.toInt32.toInt], .nanc)
  | "vmin", 2 => some (#[m.min x y, m.min y x], .exact)
  | "vmax", 2 => some (#[m.max x y, m.max y x], .exact)
  | "vmins", 2 => some (#[m.min x y, m.min y y], .exact)
  | "vmaxs", 2 => some (#[m.max x y, m.max y y], .exact)
  | "vfmin2", 2 => some (#[m.fmin2 x y, m.fmin2 y x], .zsgn)
  | "vfmax2", 2 => some (#[m.fmax2 x y, m.fmax2 y x], .zsgn)
  | "vstep", 2 => some (#[m.step x y, m.step y x], .exact)
  | "clamp", 3 => some (#[m.clamp x y z], .exact)
  | "fclamp", 3 => some (#[m.fclamp x y z], .zsgn)
  | "min3", 3 => some (#[m.min (m.min x y) z], .exact)
  | "max3", 3 => some (#[m.max (m.max x y) z], .exact)
  | "fmin3", 3 => some (#[m.fmin3 x y z], .zsgn)
  | "fmax3", 3 => some (#[m.fmax3 x y z], .zsgn)
  | "mixb", 3 => some (#[if z != 0 then y else x], .exact)
  | "mix", 3 => some (#[m.nMix x y z], .nanc)
  | "smoothstep", 3 => some (#[m.nSmooth x y z], .nanc)
  | "vclamp", 3 => some (#[m.clamp x y z, m.clamp x y z], .exact)
  | "vfclamp", 3 => some (#[m.fclamp x y z, m.fclamp x y z], .zsgn)
  | "vmin3", 3 => some (#[m.min (m.min x y) z, m.min (m.min y z) x], .exact)
  | "vmax3", 3 => some (#[m.max (m.max x y) z, m.max (m.max y z) x], .exact)
  | "vfmin3", 3 => some (#[m.fmin2 (m.fmin2 x y) z, m.fmin2 (m.fmin2 y z) x], .zsgn)
  | "vfmax3", 3 => some (#[m.fmax2 (m.fmax2 x y) z, m.fmax2 (m.fmax2 y z) x], .zsgn)
  | "vmixb", 3 => some (#[if z != 0 then y else x, if z == 0 then x else y], .exact)
  | "min4", 4 => some (#[m.min (m.min x y) (m.min z w)], .exact)
  | "max4", 4 => some (#[m.max (m.max x y) (m.max z w)], .exact)
  | "fmin4", 4 => some (#[m.fmin4 x y z w], .zsgn)
  | "fmax4", 4 => some (#[m.fmax4 x y z w], .zsgn)
  | "vmin4", 4 => some (#[m.min (m.min x y) (m.min z w), m.min (m.min y z) (m.min w x)], .exact)
  | "vmax4", 4 => some (#[m.max (m.max x y) (m.max z w), m.max (m.max y z) (m.max w x)], .exact)
  | "vfmin4", 4 => some (#[m.fmin2 (m.fmin2 x y) (m.fmin2 z w), m.fmin2 (m.fmin2 y z) (m.fmin2 w x)], .zsgn)
  | "vfmax4", 4 => some (#[m.fmax2 (m.fmax2 x y) (m.fmax2 z w), m.fmax2 (m.fmax2 y z) (m.fmax2 w x)], .zsgn)
  | _, _ => none

/-- the *specification* verdict on glm's own results `r` (written from the GLSL / IEEE text,
independent of how the model computes): `none` = no independent predicate for this op (the proved
model is the specification), `some b` = verdict -/
def specVerdict (m : M) (op : String) (a r : Array UInt64) : Option Bool :=
  let x := a[0]!
  let y := a.getD 1 0
  let z := a.getD 2 0
  let r0 := r.getD 0 0
  let r1 := r.getD 1 0
  match op, a.size with
  | "floor", 1 => some (m.same r0 (m.floorS x))
  | "ceil", 1 => some (m.same r0 (m.ceilS x))
  | "trunc", 1 => some (m.same r0 (m.truncS x))
  | "round", 1 => some (m.same r0 (m.roundS x))
  | "roundEven", 1 => some (m.zsame r0 (m.rintS x))      -- GLSL does not define the sign of a zero result
  | "fract", 1 => some (if m.isFinite x then m.in01 r0 && m.same r0 (m.fadd x (m.floorS x ^^^ m.signMask)) else m.isNaN r0)
  | "repeat", 1 => some (if m.isFinite x then m.in01 r0 else m.isNaN r0)
  | "mirrorClamp", 1 => some (if m.isFinite x then m.in01 r0 else m.isNaN r0)
  | "mirrorRepeat", 1 => some (if m.isFinite x then m.in01 r0 else true)
  | "wrapClamp", 1 => some (if m.isNaN x then true else m.in01 r0 && (if m.in01 x then r0 == x else true))
  | "abs", 1 => some ((r0 &&& ~~~ m.signMask) == (x &&& ~~~ m.signMask) && (m.isNaN x || m.le m.zero r0))
  | "sign", 1 => some (r0 == (if m.lt m.zero x then m.one else if m.lt x m.zero then m.negOne else m.zero))
  | "isnan", 1 => some (r0 == (m.isNaN x).toUInt64)
  | "isinf", 1 => some (r0 == (m.isInf x).toUInt64)
  | "iround", 1 => some (r0 < 0x80000000 && m.nearestInt x r0.toUInt32)
  | "uround", 1 => some (m.nearestInt x r0.toUInt32)
  | "modf", 1 =>
    some (if m.isNaN x then m.isNaN r0 && m.isNaN r1
          else if m.isInf x then r1 == x && m.isZero r0 && (r0 &&& m.signMask) == (x &&& m.signMask)
          else m.same r1 (m.truncS x) && m.feq (m.fadd r0 r1) x && (r0 &&& m.signMask) == (x &&& m.signMask))
  | "frexp", 1 => some (m.nFrexpOK x r0 r1.toUInt32.toInt32.toInt)
  | "min", 2 => some (m.isArg false r0 a && (!m.noNaN a || m.isMinOfNonNaN r0 a))
  | "max", 2 => some (m.isArg false r0 a && (!m.noNaN a || m.isMaxOfNonNaN r0 a))
  | "min3", 3 | "min4", 4 => some (m.isArg false r0 a && (!m.noNaN a || m.isMinOfNonNaN r0 a))
  | "max3", 3 | "max4", 4 => some (m.isArg false r0 a && (!m.noNaN a || m.isMaxOfNonNaN r0 a))
  | "fmin2", 2 | "fmin3", 3 | "fmin4", 4 =>
    some (m.isArg true r0 a && m.isNaN r0 == m.allNaN a && (m.allNaN a || m.isMinOfNonNaN r0 a))
  | "fmax2", 2 | "fmax3", 3 | "fmax4", 4 =>
    some (m.isArg true r0 a && m.isNaN r0 == m.allNaN a && (m.allNaN a || m.isMaxOfNonNaN r0 a))
  | "clamp", 3 =>
    some (m.isArg false r0 a && (!(m.noNaN a && m.le y z) ||
      (if m.lt x y then m.feq r0 y else if m.lt z x then m.feq r0 z else m.feq r0 x)))
  | "fclamp", 3 =>
    some (m.isArg true r0 a && m.isNaN r0 == m.allNaN a && (!(m.noNaN #[y, z] && m.le y z) ||
      (if m.isNaN x then m.zsame r0 y else if m.lt x y then m.feq r0 y else if m.lt z x then m.feq r0 z else m.feq r0 x)))
  | "step", 2 => some (r0 == (if m.lt y x then m.zero else m.one))
  | "mixb", 3 => some (r0 == (if z != 0 then y else x))
  | "smoothstep", 3 =>
    -- GLSL: defined for edge0 < edge1; in [0,1], 0 below edge0, 1 above edge1.  The quotient
    -- (x-e0)/(e1-e0) must not be inf/inf (difference overflow) for the statement to apply.
    let dom := m.isFinite x && m.isFinite y && m.isFinite z && m.lt x y &&
      m.isFinite (m.fadd y (x ^^^ m.signMask)) && m.isFinite (m.fadd z (x ^^^ m.signMask))
    some (!dom || (m.in01 r0 && (if m.le z x then m.isZero r0 else if m.le y z then r0 == m.one else true)))
  | "mix", 3 =>
    -- a = 0 selects x, a = 1 selects y (finite operands)
    some (if m.isFinite x && m.isFinite y && m.isZero z then m.feq r0 x
          else if m.isFinite x && m.isFinite y && z == m.one then m.feq r0 y else true)
  | _, _ => none

-- ------------------------------------------------------------------ parsing (bytes)
@[inline] def hexVal (c : UInt8) : UInt64 :=
  if c ≥ 48 && c ≤ 57 then (c - 48).toUInt64 else if c ≥ 97 && c ≤ 102 then (c - 87).toUInt64 else (c - 55).toUInt64

-- ------------------------------------------------------------------ sweeps (binary32, unary)
@[inline] def canon (r : UInt32) : UInt32 := if (r &&& 0x7FFFFFFF) > 0x7F800000 then 0x7FC00000 else r
@[inline] def irDom (x : UInt32) : Bool := x == 0x80000000 || x < 0x4F000000
@[inline] def urDom (x : UInt32) : Bool := x == 0x80000000 || x < 0x4F800000
def OUTDOM : UInt32 := 0xDEADBEEF

def sweepFn (op : String) : Option (UInt32 → UInt32) :=
  let op : String := if op.startsWith "v" then (op.drop 1).copy else op     -- vector forms: the scalar function per component
  match op with
  | "floor" => some floorS
  | "ceil" => some ceilS
  | "trunc" => some truncS
  | "round" => some roundS
  | "roundEven" => some roundEven
  | "fract" => some fract
  | "abs" => some abs
  | "sign" => some sign
  | "isnan" => some fun x => (glmIsnan x).toUInt32
  | "isinf" => some fun x => (glmIsinf x).toUInt32
  | "iround" => some fun x => if irDom x then (iround x).toUInt32 else OUTDOM
  | "uround" => some fun x => if urDom x then uround x else OUTDOM
  | "wrapClamp" => some wrapClamp
  | "repeat" => some wrapRepeat
  | "mirrorClamp" => some mirrorClamp
  | "mirrorRepeat" => some mirrorRepeat
  | "fbti" => some fun x => (floatBitsToInt x).toUInt32
  | "fbtu" => some floatBitsToUint
  | "ibtf" => some fun x => intBitsToFloat x.toInt32
  | "ubtf" => some uintBitsToFloat
  | "modf_i" => some modfInt
  | "modf_f" => some modfFrac
  | _ => none

/-- executable specification of the swept op on (input, result): range / definition clauses
that are *not* the model itself.  Evaluated on the model's result; equal block hashes carry it
over to glm. -/
def sweepSpec (op : String) : UInt32 → UInt32 → Bool :=
  let op : String := if op.startsWith "v" then (op.drop 1).copy else op
  match op with
  | "roundEven" => fun x r => same r (rintS x) || (isZero r && isZero (rintS x))
  | "fract" | "repeat" | "mirrorClamp" | "mirrorRepeat" => fun x r => !isFinite x || (le fZero r && le r fOne)
  | "wrapClamp" => fun x r => isNaN x || (le fZero r && le r fOne)
  | "iround" => fun x r => !irDom x || (if expo x < 126 then r == 0 else idist x r.toUInt64 ≤ 0x800000)
  | "uround" => fun x r => !urDom x || (if expo x < 126 then r == 0 else idist x r.toUInt64 ≤ 0x800000)
  | "sign" => fun _ r => r == fZero || r == fOne || r == fNegOne
  | "abs" => fun x r => mag r == mag x
  | "fbti" | "fbtu" | "ibtf" | "ubtf" => fun x r => r == x
  | _ => fun _ _ => true


/-- ops whose results are compared bit for bit (NaN payloads included); the others: NaN as a class -/
def sweepExact (op : String) : Bool :=
  let op : String := if op.startsWith "v" then (op.drop 1).copy else op
  ["abs", "sign", "isnan", "isinf", "iround", "uround", "wrapClamp", "fbti", "fbtu", "ibtf", "ubtf"].contains op

def libmMinMax (op : String) : Bool :=
  ["fmin2", "fmax2", "fmin3", "fmax3", "fmin4", "fmax4", "fclamp", "vfmin2", "vfmax2", "vfmin3", "vfmax3",
   "vfmin4", "vfmax4", "vfclamp"].contains op

structure Stats where
  lines : Nat := 0
  results : Nat := 0
  mismatches : Nat := 0
  specfail : Nat := 0
  speccmp : Nat := 0
  nontrivial : Nat := 0
  unknown : Nat := 0
  skipped : Nat := 0
  printed : Nat := 0

def hex (x : UInt64) : String := String.ofList (Nat.toDigits 16 x.toNat)

partial def runLines (buf : ByteArray) : IO Stats := do
  let n := buf.size
  let mut st : Stats := {}
  let mut i := 0
  let mut seen : Std.HashSet UInt64 := {}
  while i < n do
    -- op
    let mut j := i
    while j < n && buf.get! j != 32 && buf.get! j != 10 do j := j + 1
    let op := String.fromUTF8! (buf.extract i j)
    j := j + 1
    let ty := buf.get! j
    j := j + 2
    let mut args : Array UInt64 := #[]
    let mut res : Array UInt64 := #[]
    let mut inRes := false
    while j < n && buf.get! j != 10 do
      let c := buf.get! j
      if c == 45 then  -- "->"
        inRes := true; j := j + 3
      else
        let mut v : UInt64 := 0
        while j < n && buf.get! j != 32 && buf.get! j != 10 do
          v := (v <<< 4) ||| hexVal (buf.get! j); j := j + 1
        if inRes then res := res.push v else args := args.push v
        if j < n && buf.get! j == 32 then j := j + 1
    i := j + 1
    if args.size == 0 then continue
    st := { st with lines := st.lines + 1 }
    let m := if ty == 102 then mF else mD
    -- libm's fmin/fmax on a *signaling* NaN return a quiet NaN (IEEE 754-2008 minNum): outside the
    -- documented domain of glm::fmin/fmax/fclamp ("if one argument is NaN the other is returned")
    if libmMinMax op && args.any (fun a => m.isNaN a && (a &&& m.quietBit) == 0) then
      st := { st with skipped := st.skipped + 1 }
      continue
    -- non-trivial: a result that is neither zero nor a copy of an argument; distinct by input hash
    let h := args.foldl (fun h a => (h ^^^ a) * 0x100000001b3) (op.hash ^^^ ty.toUInt64)
    if res.any (fun r => !(m.isZero r) && r != 0 && !args.contains r) && !seen.contains h then
      seen := seen.insert h
      st := { st with nontrivial := st.nontrivial + 1 }
    let showLine := s!"{op} {Char.ofNat ty.toNat} {" ".intercalate (args.toList.map hex)} -> {" ".intercalate (res.toList.map hex)}"
    -- lines of a sweep block (`C11 block …`): op name prefixed by "S:", one binary32 argument
    if op.startsWith "S:" then
      let sop : String := (op.drop 2).copy
      match sweepFn sop with
      | none => st := { st with unknown := st.unknown + 1 }
      | some f =>
        let x := args[0]!.toUInt32
        let r := (res.getD 0 0).toUInt32
        st := { st with results := st.results + 1, speccmp := st.speccmp + 1 }
        if !(sweepSpec sop x r) then
          st := { st with specfail := st.specfail + 1 }
          if st.printed < 200 then
            IO.println s!"SPECFAIL {showLine}"
            st := { st with printed := st.printed + 1 }
        let mr := if sweepExact sop then f x else canon (f x)
        if mr != r then
          st := { st with mismatches := st.mismatches + 1 }
          if st.printed < 200 then
            IO.println s!"MISMATCH {showLine} model {hex mr.toUInt64}"
            st := { st with printed := st.printed + 1 }
      continue
    match specVerdict m op args res with
    | some ok =>
      st := { st with speccmp := st.speccmp + 1 }
      if !ok then
        st := { st with specfail := st.specfail + 1 }
        if st.printed < 200 then
          IO.println s!"SPECFAIL {showLine}"
          st := { st with printed := st.printed + 1 }
    | none => pure ()
    match evalModel m op args with
    | none =>
      if op != "frexp" then st := { st with unknown := st.unknown + 1 }
    | some (mr, cmp) =>
      st := { st with results := st.results + mr.size }
      let ok := mr.size == res.size && (List.range mr.size).all fun k =>
        let a := mr[k]!
        let b := res[k]!
        match cmp with
        | .exact => a == b
        | .nanc => m.same a b
        | .zsgn => m.zsame a b
      if !ok then
        st := { st with mismatches := st.mismatches + 1 }
        if st.printed < 200 then
          IO.println s!"MISMATCH {showLine} model {" ".intercalate (mr.toList.map hex)}"
          st := { st with printed := st.printed + 1 }
  return st

-- ------------------------------------------------------------------ sweep loop
def low6 : Array UInt32 := #[0, 1, 0xFFF, 0x1000, 0x1001, 0x1FFF]
@[inline] def sweepInput (thorough : Bool) (idx : UInt64) : UInt32 :=
  if thorough then idx.toUInt32 else (((idx / 6) <<< 13).toUInt32) ||| low6[(idx % 6).toNat]!

/-- one block of the sweep: tail-recursive with unboxed accumulators (hash, non-trivial count, spec failures) -/
partial def blockLoop (f : UInt32 → UInt32) (spec : UInt32 → UInt32 → Bool) (exact thorough : Bool)
    (i hi h nt sf : UInt64) : UInt64 × UInt64 × UInt64 :=
  if i ≥ hi then (h, nt, sf)
  else
    let x := sweepInput thorough i
    let r0 := f x
    let r := if exact then r0 else canon r0
    let nt := if r != x && (r &&& 0x7FFFFFFF) != 0 then nt + 1 else nt
    let sf := if spec x r then sf else sf + 1
    blockLoop f spec exact thorough (i + 1) hi ((h ^^^ r.toUInt64) * 0x100000001b3) nt sf

def runSweep (op : String) (thorough : Bool) (b0 b1 : UInt64) : IO UInt32 := do
  let some f := sweepFn op | do IO.eprintln s!"unknown sweep op {op}"; return 3
  let spec := sweepSpec op
  let exact := sweepExact op
  let total : UInt64 := if thorough then 0x100000000 else 0x300000
  let mut b := b0
  let mut nontrivial : UInt64 := 0
  let mut specfail : UInt64 := 0
  while b < b1 do
    let lo := b <<< 20
    if lo ≥ total then break
    let hi : UInt64 := if lo + 0x100000 > total then total else lo + 0x100000
    let (h, nt, sf) := blockLoop f spec exact thorough lo hi 0xcbf29ce484222325 0 0
    if sf > 0 && specfail < 5 then
      -- locate the first failing input of the block for the report
      let mut i := lo
      while i < hi do
        let x := sweepInput thorough i
        let r := if exact then f x else canon (f x)
        if !(spec x r) then
          IO.println s!"SWEEPSPECFAIL {op} f {hex x.toUInt64} -> {hex r.toUInt64}"
          break
        i := i + 1
    nontrivial := nontrivial + nt
    specfail := specfail + sf
    IO.println s!"H {op} {b} {String.ofList (List.replicate (16 - (hex h).length) '0')}{hex h} {hi - lo}"
    b := b + 1
  IO.println s!"SWEEP {op} nontrivial={nontrivial} specfail={specfail}"
  return 0

def main (args : List String) : IO UInt32 := do
  match args with
  | ["lines", file] =>
    let buf ← IO.FS.readBinFile file
    let st ← runLines buf
    IO.println s!"CORR lines={st.lines} results={st.results} mismatches={st.mismatches} unknown={st.unknown} skipped={st.skipped} nontrivial={st.nontrivial} speccmp={st.speccmp} specfail={st.specfail}"
    return 0
  | ["sweep", op, mode, b0, b1] =>
    runSweep op (mode == "thorough") b0.toNat!.toUInt64 b1.toNat!.toUInt64
  | ["consts"] =>
    -- the bits `genType(<literal>)` must produce: decimal -> binary64 (RNE) [-> binary32 (RNE)], by the
    -- exact rational rounding of Hand/C11.lean §9 (the same functions the Consts theorems are about)
    for (name, q) in GlmVerif.Gen.C11.lits do
      if q == 0 then IO.println s!"L {name} 0 0"
      else if q > 0 then IO.println s!"L {name} {hex (Const.litBits32 q).toUInt64} {hex (Const.litBits64 q).toUInt64}"
      else IO.println s!"L {name} {hex ((Const.litBits32 (-q)).toUInt64 ||| 0x80000000)} {hex ((Const.litBits64 (-q)).toUInt64 ||| 0x8000000000000000)}"
    return 0
  | _ =>
    IO.eprintln "usage: drv_c11 lines <file> | sweep <op> <quick|thorough> <b0> <b1>"
    return 2
